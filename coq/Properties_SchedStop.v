(* C06 — soundness of the main scheduler's stop decision on the scheduler LTS (Conc/Sched.v):
   statements only; definitions and proofs in Conc/SchedStop.v. *)
From Coq Require Import List Arith ZArith Bool.
From ABT Require Import Conc.Sched Conc.SchedDefs Conc.SchedStop.
Import ListNotations.

(* one step that brings no work to pool p from outside and pops nothing from it: a pool whose
   units are all at rest (not created, queued, terminated, freed) and whose counter is zero stays
   so, and its queue does not change (nothing can be pushed: a push needs a counted unit or a
   unit somebody holds) *)
Theorem C06_quiet_pool_stays_quiet : forall p tr s s',
  reachable s -> quiet p s -> nb (po s p) = 0%Z -> forallb (calm p) tr = true -> run s tr = Some s' ->
  reachable s' /\ quiet p s' /\ q (po s' p) = q (po s p) /\ nb (po s' p) = 0%Z.
Proof. exact quiet_run. Qed.
Print Assumptions C06_quiet_pool_stays_quiet.

(* the stop decision: num_blocked(p) = 0 read in s0, queue of p read empty in the later state s1 *)
Theorem C06_stop_sound : forall p s0 tr s1,
  reachable s0 -> nb (po s0 p) = 0%Z -> no_hands p s0 ->
  forallb (calm p) tr = true -> run s0 tr = Some s1 -> q (po s1 p) = [] ->
  all_done p s1 /\ nb (po s1 p) = 0%Z /\
  forall tr' s2, forallb (calm p) tr' = true -> run s1 tr' = Some s2 ->
                 all_done p s2 /\ q (po s2 p) = [] /\ nb (po s2 p) = 0%Z.
Proof. exact SchedStop.C06_stop_sound. Qed.
Print Assumptions C06_stop_sound.

(* the same, with the two reads as labels of the run (the hook records NBLOAD p 0 ... QEMPTY p 1) *)
Theorem C06_stop_sound_events : forall p s tr1 tr2 s2,
  reachable s -> no_hands p s ->
  forallb (calm p) (tr1 ++ [EEmptyLoad p true] ++ tr2) = true ->
  run s (ENbLoad p 0 :: tr1 ++ [EEmptyLoad p true] ++ tr2) = Some s2 ->
  all_done p s2 /\ q (po s2 p) = [] /\ nb (po s2 p) = 0%Z.
Proof. exact SchedStop.C06_stop_sound_events. Qed.
Print Assumptions C06_stop_sound_events.

(* the pattern the trace monitor looks for in the scheduler's own observations contains the two reads in that order *)
Theorem C06_zero_then_empty_pattern : forall p obs, zero_then_empty p false obs = true ->
  exists a b c, obs = a ++ SNb p 0 :: b ++ SEmpty p true :: c.
Proof.
  intros p obs H. destruct (zero_then_empty_split p obs false H) as [[Hz _]|H']; [discriminate|exact H'].
Qed.
Print Assumptions C06_zero_then_empty_pattern.

(* ------------------------------------------------------------------ why the order matters *)
Definition get (o : option st) : st := match o with Some s => s | None => init end.
Definition mk (u : nat) : list ev :=
  [EInit u 0 true false; EPush 0 u true; EPop 0 (Some u) false; EState u 1; EStart u].
Definition suspend (u p : nat) (old : Z) : list ev :=
  [ECb u KSuspend None; EReqLoad u 0 false false false; ENb p true old u false; EState u 2].

(* unit 1 is blocked in pool 0 and nobody holds a unit of pool 0 *)
Definition s_blocked : st := get (run init (mk 1 ++ suspend 1 0 0)).

Lemma s_blocked_no_hands : no_hands 0 s_blocked.
Proof.
  intros u _. destruct u as [|[|u]]; vm_compute; reflexivity.
Qed.

(* "queue empty, THEN num_blocked = 0" (one evaluation of ABTI_sched_has_unit) is unsound: the
   blocked unit is resumed between the two reads (READY, push, decrement), both reads are
   negative, no work arrived from outside, and yet unit 1 of pool 0 sits in the queue *)
Theorem C06_single_evaluation_refuted :
  let tr := [EEmptyLoad 0 true; EState 1 0; EPush 0 1 true; ENb 0 false 1 1 false; ENbLoad 0 0%Z] in
  reachable s_blocked /\ no_hands 0 s_blocked /\ forallb (calm 0) tr = true /\
  exists s1, run s_blocked tr = Some s1 /\ ust (un s1 1) = UQueued /\ upool (un s1 1) = 0 /\ q (po s1 0) = [1].
Proof.
  split; [exists (mk 1 ++ suspend 1 0 0); vm_compute; reflexivity|].
  split; [exact s_blocked_no_hands|]. split; [reflexivity|].
  eexists. split; [vm_compute; reflexivity|]. repeat split; vm_compute; reflexivity.
Qed.
Print Assumptions C06_single_evaluation_refuted.

(* the second evaluation repairs it: its emptiness read comes after the first evaluation's counter
   read and sees the unit (the model refuses the record "empty") *)
Example second_evaluation_sees_the_unit :
  let s1 := get (run s_blocked [EEmptyLoad 0 true; EState 1 0; EPush 0 1 true; ENb 0 false 1 1 false; ENbLoad 0 0%Z]) in
  step s1 (EEmptyLoad 0 true) = None /\ step s1 (EEmptyLoad 0 false) = Some s1.
Proof. split; vm_compute; reflexivity. Qed.

(* non-vacuity of C06_stop_sound: unit 1 ran to completion in pool 0 while unit 2 of pool 1 is still
   running; the scheduler of pool 0 reads 0, another stream keeps working (calm for pool 0), the
   queue of pool 0 is read empty: hypotheses hold, all units of pool 0 are done *)
Definition fin (u : nat) : list ev :=
  [EFinish u; ELinkLd u None; EReqOr u 0 true false false false 0; ECb u KExit None; EState u 3].
Definition mk_in (u p : nat) : list ev :=
  [EInit u p true false; EPush p u true; EPop p (Some u) false; EState u 1; EStart u].
Definition s_done : st := get (run init (mk 1 ++ fin 1 ++ mk_in 2 1)).

Lemma s_done_no_hands : no_hands 0 s_done.
Proof.
  intros u Hu. destruct u as [|[|[|u]]]; try (vm_compute; reflexivity).
  exfalso. revert Hu. vm_compute. discriminate.
Qed.

Example stop_sound_applies :
  let tr := [ECb 2 KYield None; EReqLoad 2 1 false false false; EState 2 0; EPush 1 2 true] in
  reachable s_done /\ nb (po s_done 0) = 0%Z /\ no_hands 0 s_done /\ forallb (calm 0) tr = true /\
  exists s1, run s_done tr = Some s1 /\ q (po s1 0) = [] /\ ust (un s1 1) = UTerm /\ ust (un s1 2) = UQueued.
Proof.
  split; [exists (mk 1 ++ fin 1 ++ mk_in 2 1); vm_compute; reflexivity|].
  split; [vm_compute; reflexivity|]. split; [exact s_done_no_hands|]. split; [reflexivity|].
  eexists. split; [vm_compute; reflexivity|]. repeat split; vm_compute; reflexivity.
Qed.
