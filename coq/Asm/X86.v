(* C02 (a) — executable semantics of the x86-64 subset used by
   /repo/src/arch/fcontext/fcontext_x86_64_sysv_elf_gas.S.

   Model only, no proofs.  Written from the Intel SDM vol. 2 entries of
   PUSH, POP, LEA, MOV, AND, ADD, SUB, STMXCSR, LDMXCSR, FNSTCW, FLDCW,
   CALL (near, absolute indirect), JMP (near, absolute indirect), RET (near).

   State: 16 general registers, MXCSR, x87 control word, memory.
   * Register values are unbounded Z; every result of an address / ALU
     computation is wrapped to 64 bits (w64).
   * Memory is a function Z -> Z from the byte address of a 4-byte cell to the
     cell's value; an 8-byte access at a is the two cells a and a+4 (little
     endian), a 4-byte access is one cell, a 2-byte access (fnstcw/fldcw) is
     the low half of one cell.  This is exact only for accesses whose address
     is a multiple of 4, therefore a memory access at any other address makes
     the execution STUCK (the model says nothing about it) — theorems are
     partial-correctness statements over non-stuck executions.
   * Not modelled: flags, instruction encodings/fetch, RIP (code addresses are
     abstract numbers), exceptions (#GP of ldmxcsr on reserved bits, #SS/#PF),
     the red zone, signals.
   * `callq *r` of a C function is not executed here: `run` stops at the
     callee's entry (return address pushed) and hands back the continuation;
     what the callee may do is the relation FctxSpec.abi_ret (SysV ABI). *)
From Coq Require Import ZArith List Bool.
Import ListNotations.
Local Open Scope Z_scope.

Inductive reg := RAX|RBX|RCX|RDX|RSI|RDI|RBP|RSP|R8|R9|R10|R11|R12|R13|R14|R15.

Definition reg_eqb (a b : reg) : bool :=
  match a,b with RAX,RAX|RBX,RBX|RCX,RCX|RDX,RDX|RSI,RSI|RDI,RDI|RBP,RBP|RSP,RSP
  |R8,R8|R9,R9|R10,R10|R11,R11|R12,R12|R13,R13|R14,R14|R15,R15 => true | _,_ => false end.

Record rfile := mkrf { rax : Z; rbx : Z; rcx : Z; rdx : Z; rsi : Z; rdi : Z; rbp : Z; rsp : Z;
                       r8 : Z; r9 : Z; r10 : Z; r11 : Z; r12 : Z; r13 : Z; r14 : Z; r15 : Z }.

Definition getr (f : rfile) (r : reg) : Z :=
  match r with RAX => rax f | RBX => rbx f | RCX => rcx f | RDX => rdx f | RSI => rsi f | RDI => rdi f
  | RBP => rbp f | RSP => rsp f | R8 => r8 f | R9 => r9 f | R10 => r10 f | R11 => r11 f
  | R12 => r12 f | R13 => r13 f | R14 => r14 f | R15 => r15 f end.

Definition setr (f : rfile) (r : reg) (v : Z) : rfile :=
  match r with
  | RAX => mkrf v (rbx f) (rcx f) (rdx f) (rsi f) (rdi f) (rbp f) (rsp f) (r8 f) (r9 f) (r10 f) (r11 f) (r12 f) (r13 f) (r14 f) (r15 f)
  | RBX => mkrf (rax f) v (rcx f) (rdx f) (rsi f) (rdi f) (rbp f) (rsp f) (r8 f) (r9 f) (r10 f) (r11 f) (r12 f) (r13 f) (r14 f) (r15 f)
  | RCX => mkrf (rax f) (rbx f) v (rdx f) (rsi f) (rdi f) (rbp f) (rsp f) (r8 f) (r9 f) (r10 f) (r11 f) (r12 f) (r13 f) (r14 f) (r15 f)
  | RDX => mkrf (rax f) (rbx f) (rcx f) v (rsi f) (rdi f) (rbp f) (rsp f) (r8 f) (r9 f) (r10 f) (r11 f) (r12 f) (r13 f) (r14 f) (r15 f)
  | RSI => mkrf (rax f) (rbx f) (rcx f) (rdx f) v (rdi f) (rbp f) (rsp f) (r8 f) (r9 f) (r10 f) (r11 f) (r12 f) (r13 f) (r14 f) (r15 f)
  | RDI => mkrf (rax f) (rbx f) (rcx f) (rdx f) (rsi f) v (rbp f) (rsp f) (r8 f) (r9 f) (r10 f) (r11 f) (r12 f) (r13 f) (r14 f) (r15 f)
  | RBP => mkrf (rax f) (rbx f) (rcx f) (rdx f) (rsi f) (rdi f) v (rsp f) (r8 f) (r9 f) (r10 f) (r11 f) (r12 f) (r13 f) (r14 f) (r15 f)
  | RSP => mkrf (rax f) (rbx f) (rcx f) (rdx f) (rsi f) (rdi f) (rbp f) v (r8 f) (r9 f) (r10 f) (r11 f) (r12 f) (r13 f) (r14 f) (r15 f)
  | R8 => mkrf (rax f) (rbx f) (rcx f) (rdx f) (rsi f) (rdi f) (rbp f) (rsp f) v (r9 f) (r10 f) (r11 f) (r12 f) (r13 f) (r14 f) (r15 f)
  | R9 => mkrf (rax f) (rbx f) (rcx f) (rdx f) (rsi f) (rdi f) (rbp f) (rsp f) (r8 f) v (r10 f) (r11 f) (r12 f) (r13 f) (r14 f) (r15 f)
  | R10 => mkrf (rax f) (rbx f) (rcx f) (rdx f) (rsi f) (rdi f) (rbp f) (rsp f) (r8 f) (r9 f) v (r11 f) (r12 f) (r13 f) (r14 f) (r15 f)
  | R11 => mkrf (rax f) (rbx f) (rcx f) (rdx f) (rsi f) (rdi f) (rbp f) (rsp f) (r8 f) (r9 f) (r10 f) v (r12 f) (r13 f) (r14 f) (r15 f)
  | R12 => mkrf (rax f) (rbx f) (rcx f) (rdx f) (rsi f) (rdi f) (rbp f) (rsp f) (r8 f) (r9 f) (r10 f) (r11 f) v (r13 f) (r14 f) (r15 f)
  | R13 => mkrf (rax f) (rbx f) (rcx f) (rdx f) (rsi f) (rdi f) (rbp f) (rsp f) (r8 f) (r9 f) (r10 f) (r11 f) (r12 f) v (r14 f) (r15 f)
  | R14 => mkrf (rax f) (rbx f) (rcx f) (rdx f) (rsi f) (rdi f) (rbp f) (rsp f) (r8 f) (r9 f) (r10 f) (r11 f) (r12 f) (r13 f) v (r15 f)
  | R15 => mkrf (rax f) (rbx f) (rcx f) (rdx f) (rsi f) (rdi f) (rbp f) (rsp f) (r8 f) (r9 f) (r10 f) (r11 f) (r12 f) (r13 f) (r14 f) v
  end.

(* AT&T operand order: source first, destination last; `d b` = d(%b) *)
Inductive instr :=
| Pushq (r : reg)                      (* pushq %r *)
| Popq (r : reg)                       (* popq %r *)
| Leaq (d : Z) (b dst : reg)           (* leaq d(%b), %dst *)
| MovRR (src dst : reg)                (* movq %src, %dst *)
| MovRM (src : reg) (d : Z) (b : reg)  (* movq %src, d(%b) *)
| MovMR (d : Z) (b dst : reg)          (* movq d(%b), %dst *)
| AndqI (imm : Z) (dst : reg)          (* andq $imm, %dst   (imm = sign-extended imm32) *)
| AddqI (imm : Z) (dst : reg)          (* addq $imm, %dst *)
| SubqI (imm : Z) (dst : reg)          (* subq $imm, %dst *)
| Stmxcsr (d : Z) (b : reg)            (* stmxcsr d(%b)   m32 *)
| Ldmxcsr (d : Z) (b : reg)            (* ldmxcsr d(%b)   m32 *)
| Fnstcw (d : Z) (b : reg)             (* fnstcw d(%b)    m16 *)
| Fldcw (d : Z) (b : reg)              (* fldcw d(%b)     m16 *)
| CallReg (r : reg)                    (* callq *%r *)
| JmpReg (r : reg)                     (* jmpq *%r *)
| Ret.                                 (* ret *)

Definition memory := Z -> Z.
Record st := mkst { regs : rfile; mxcsr : Z; cw : Z; mem : memory }.

Definition B16 := 65536.
Definition B32 := 4294967296.
Definition B64 := 18446744073709551616.
Definition w64 (x : Z) : Z := x mod B64.

Definition setm (m : memory) (a v : Z) : memory := fun x => if Z.eqb x a then v else m x.
Definition st64 (m : memory) (a v : Z) : memory := setm (setm m a (v mod B32)) (a + 4) ((v / B32) mod B32).
Definition st32 (m : memory) (a v : Z) : memory := setm m a (v mod B32).
Definition st16 (m : memory) (a v : Z) : memory := setm m a ((m a / B16) * B16 + v mod B16).
Definition ld64 (m : memory) (a : Z) : Z := m a + B32 * m (a + 4).
Definition ld32 (m : memory) (a : Z) : Z := m a.
Definition ld16 (m : memory) (a : Z) : Z := m a mod B16.

(* cell-granular accesses are exact only at multiples of 4 *)
Definition al (a : Z) : bool := Z.eqb (a mod 4) 0.
(* effective address d(%b) *)
Definition ea (f : rfile) (d : Z) (b : reg) : Z := w64 (getr f b + d).

(* does instruction i access memory only at modelled (4-aligned) addresses in s? *)
Definition chk (i : instr) (s : st) : bool :=
  let f := regs s in
  match i with
  | Pushq _ | CallReg _ => al (w64 (rsp f - 8))
  | Popq _ | Ret => al (rsp f)
  | MovRM _ d b | MovMR d b _ | Stmxcsr d b | Ldmxcsr d b | Fnstcw d b | Fldcw d b => al (ea f d b)
  | Leaq _ _ _ | MovRR _ _ | AndqI _ _ | AddqI _ _ | SubqI _ _ | JmpReg _ => true
  end.

(* one non-control instruction (control instructions are handled by run) *)
Definition exec1 (i : instr) (s : st) : st :=
  let f := regs s in
  match i with
  | Pushq x => let sp := w64 (rsp f - 8) in
               mkst (setr f RSP sp) (mxcsr s) (cw s) (st64 (mem s) sp (getr f x))
  | Popq x => let v := ld64 (mem s) (rsp f) in
              match x with
              | RSP => mkst (setr f RSP v) (mxcsr s) (cw s) (mem s)
              | _ => mkst (setr (setr f RSP (w64 (rsp f + 8))) x v) (mxcsr s) (cw s) (mem s)
              end
  | Leaq d b x => mkst (setr f x (ea f d b)) (mxcsr s) (cw s) (mem s)
  | MovRR a x => mkst (setr f x (getr f a)) (mxcsr s) (cw s) (mem s)
  | MovRM a d b => mkst f (mxcsr s) (cw s) (st64 (mem s) (ea f d b) (getr f a))
  | MovMR d b x => mkst (setr f x (ld64 (mem s) (ea f d b))) (mxcsr s) (cw s) (mem s)
  | AndqI imm x => mkst (setr f x (w64 (Z.land (getr f x) imm))) (mxcsr s) (cw s) (mem s)
  | AddqI imm x => mkst (setr f x (w64 (getr f x + imm))) (mxcsr s) (cw s) (mem s)
  | SubqI imm x => mkst (setr f x (w64 (getr f x - imm))) (mxcsr s) (cw s) (mem s)
  | Stmxcsr d b => mkst f (mxcsr s) (cw s) (st32 (mem s) (ea f d b) (mxcsr s))
  | Ldmxcsr d b => mkst f (ld32 (mem s) (ea f d b)) (cw s) (mem s)
  | Fnstcw d b => mkst f (mxcsr s) (cw s) (st16 (mem s) (ea f d b) (cw s))
  | Fldcw d b => mkst f (mxcsr s) (ld16 (mem s) (ea f d b)) (mem s)
  | CallReg _ | JmpReg _ | Ret => s
  end.

(* How a straight-line routine hands over control. *)
Inductive outcome :=
| OJmp (target : Z) (s : st)                       (* jmpq *r / ret: left the routine *)
| OCall (target : Z) (s : st) (k : list instr)     (* callq *r: s = state at the callee's entry (return
                                                      address pushed); k = instructions after the call *)
| OStuck.                                          (* unmodelled access, or ran off the end *)

(* ra n = the (abstract) return address pushed by a callq that is followed by n instructions *)
Fixpoint run (ra : nat -> Z) (p : list instr) (s : st) : outcome :=
  match p with
  | [] => OStuck
  | i :: k =>
    if chk i s then
      match i with
      | JmpReg r => OJmp (getr (regs s) r) s
      | Ret => OJmp (ld64 (mem s) (rsp (regs s)))
                    (mkst (setr (regs s) RSP (w64 (rsp (regs s) + 8))) (mxcsr s) (cw s) (mem s))
      | CallReg r => let sp := w64 (rsp (regs s) - 8) in
                     OCall (getr (regs s) r)
                           (mkst (setr (regs s) RSP sp) (mxcsr s) (cw s) (st64 (mem s) sp (ra (length k)))) k
      | _ => run ra k (exec1 i s)
      end
    else OStuck
  end.
