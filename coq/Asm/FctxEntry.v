(* C02 (a) — entry conditions of fresh ULTs and callbacks, peek_fcontext, literal
   instruction order (re-checked against the regenerated FctxGen.v) *)
From Coq Require Import ZArith List Lia.
From ABT Require Import Asm.X86 Asm.FctxSpec Asm.FctxGen Asm.FctxBase.
Import ListNotations.
Local Open Scope Z_scope.
Ltac Zify.zify_post_hook ::= Z.div_mod_to_equations.

(* ---------------------------------------------------------------- entry of a fresh ULT / of the callback *)
Ltac entry_start s0 W :=
  destruct_state s0;
  pose proof (W RAX); pose proof (W RBX); pose proof (W RCX); pose proof (W RDX);
  pose proof (W RSI); pose proof (W RDI); pose proof (W RBP); pose proof (W RSP);
  pose proof (W R8); pose proof (W R9); pose proof (W R10); pose proof (W R11);
  pose proof (W R12); pose proof (W R13); pose proof (W R14); pose proof (W R15);
  clear W; cv; unf.

(* init_and_jump_fcontext(p_new_ctx=RDI, f_thread=RSI, p_stacktop=RDX) *)
Lemma entry_init_and_jump ra s0 :
  (forall r, wf64 (getr (regs s0) r)) -> 16 <= rdx (regs s0) ->
  lv ra init_and_jump_fcontext s0
     (fun t s1 => t = rsi (regs s0) /\ rdi (regs s1) = rdi (regs s0) /\ abi_entry_rsp (rdx (regs s0)) s1)
     (fun _ _ _ => False).
Proof.
  intros W T. entry_start s0 W. unfold init_and_jump_fcontext.
  repeat lstep. apply lv_jmp. unfold abi_entry_rsp. cv. lia.
Qed.

(* init_and_switch_fcontext(p_new_ctx=RDI, f_thread=RSI, p_stacktop=RDX, p_old_ctx=RCX) *)
Lemma entry_init_and_switch ra s0 :
  (forall r, wf64 (getr (regs s0) r)) -> 56 <= rsp (regs s0) -> 16 <= rdx (regs s0) ->
  lv ra init_and_switch_fcontext s0
     (fun t s1 => t = rsi (regs s0) /\ rdi (regs s1) = rdi (regs s0) /\ abi_entry_rsp (rdx (regs s0)) s1)
     (fun _ _ _ => False).
Proof.
  intros W S T. entry_start s0 W. unfold init_and_switch_fcontext.
  repeat lstep. apply lv_jmp. unfold abi_entry_rsp. cv. lia.
Qed.

Lemma then_thread_wp hi ra sc k (Q : Z -> st -> Prop) :
  (forall sr, abi_ret hi sc sr -> wp (length k) (abi_ret hi) ra k sr Q) -> then_thread hi ra sc k Q.
Proof. intros H sr t s1 A E. exact (exits_wp _ _ _ _ _ _ _ _ E (le_n _) (H sr A)). Qed.

(* init_and_jump_with_call_fcontext(cb_arg=RDI, f_cb=RSI, p_new_ctx=RDX, f_thread=RCX, p_stacktop=R8) *)
Lemma entry_init_and_jump_with_call hi ra s0 :
  (forall r, wf64 (getr (regs s0) r)) -> 16 <= r8 (regs s0) ->
  lv ra init_and_jump_with_call_fcontext s0 (fun _ _ => False)
     (fun f sc k => f = rsi (regs s0) /\ rdi (regs sc) = rdi (regs s0) /\ abi_entry_rsp (r8 (regs s0)) sc /\
        then_thread hi ra sc k (fun t s1 =>
          t = rcx (regs s0) /\ rdi (regs s1) = rdx (regs s0) /\ abi_entry_rsp (r8 (regs s0)) s1)).
Proof.
  intros W T. entry_start s0 W. unfold init_and_jump_with_call_fcontext.
  repeat lstep. apply lv_call. redst. norm1. unfold abi_entry_rsp. cv.
  split; [reflexivity|]. split; [reflexivity|]. split; [lia|].
  apply then_thread_wp. cbn [length]. intros sr A.
  unfold abi_ret in A; redst_in A. destruct_state sr. destruct A as (? & ? & ? & ? & ? & ? & ? & Hm). subst.
  norm1. repeat sstep. apply wp_jmp. cv. lia.
Qed.

Lemma entry_init_and_switch_with_call hi ra s0 :
  (forall r, wf64 (getr (regs s0) r)) -> 56 <= rsp (regs s0) -> 16 <= r8 (regs s0) ->
  lv ra init_and_switch_with_call_fcontext s0 (fun _ _ => False)
     (fun f sc k => f = rsi (regs s0) /\ rdi (regs sc) = rdi (regs s0) /\ abi_entry_rsp (r8 (regs s0)) sc /\
        then_thread hi ra sc k (fun t s1 =>
          t = rcx (regs s0) /\ rdi (regs s1) = rdx (regs s0) /\ abi_entry_rsp (r8 (regs s0)) s1)).
Proof.
  intros W S T. entry_start s0 W. unfold init_and_switch_with_call_fcontext.
  repeat lstep. apply lv_call. redst. norm1. unfold abi_entry_rsp. cv.
  split; [reflexivity|]. split; [reflexivity|]. split; [lia|].
  apply then_thread_wp. cbn [length]. intros sr A.
  unfold abi_ret in A; redst_in A. destruct_state sr. destruct A as (? & ? & ? & ? & ? & ? & ? & Hm). subst.
  norm1. repeat sstep. apply wp_jmp. cv. lia.
Qed.

(* The callback of switch_with_call / jump_with_call runs on the stack of the
   (already started) target, directly below its saved frame.  If the target had
   been suspended inside an ABI-conforming call of a save primitive (its RSP
   after return is a multiple of 16), the callback is entered ABI-aligned. *)
Lemma cb_entry_jwc ra s2 v :
  wf64 (rdx (regs s2)) -> saved_ctx (mem s2) (rdx (regs s2)) v -> 8 <= c_rsp v - 64 ->
  lv ra jump_with_call_fcontext s2 (fun _ _ => False)
     (fun f sc _ => f = rsi (regs s2) /\ rdi (regs sc) = rdi (regs s2) /\ rsp (regs sc) = c_rsp v - 72 /\
                    (c_rsp v mod 16 = 0 -> rsp (regs sc) mod 16 = 8)).
Proof.
  intros Wc SC S. destruct_state s2. unfold saved_ctx in SC. cv.
  destruct SC as (? & ? & ? & _). unf. unfold jump_with_call_fcontext.
  repeat lstep. apply lv_call. redst. rd. norm1. cv. split_all; try reflexivity; lia.
Qed.

Lemma cb_entry_swc ra s2 v :
  wf64 (rdx (regs s2)) -> saved_ctx (mem s2) (rdx (regs s2)) v -> 8 <= c_rsp v - 64 ->
  restorer_saves RCX v (rdx (regs s2)) s2 ->
  lv ra switch_with_call_fcontext s2 (fun _ _ => False)
     (fun f sc _ => f = rsi (regs s2) /\ rdi (regs sc) = rdi (regs s2) /\ rsp (regs sc) = c_rsp v - 72 /\
                    (c_rsp v mod 16 = 0 -> rsp (regs sc) mod 16 = 8)).
Proof.
  intros Wc SC S P. destruct_state s2. unfold saved_ctx in SC. cv.
  destruct SC as (? & ? & ? & _). destruct P as (? & ? & ? & ? & ? & ? & ?). cv. unf.
  unfold switch_with_call_fcontext.
  repeat lstep. apply lv_call. redst. rd. norm1. cv. split_all; try reflexivity; lia.
Qed.

(* ---------------------------------------------------------------- peek_fcontext *)
(* peek_fcontext(arg=RDI, f_peek=RSI, p_target_ctx=RDX) runs f_peek on the
   target's stack and returns to its caller.  Its own two stack words (saved
   R12 and the return address, at [rsp0-8, rsp0+8)) are on ANOTHER stack than
   the one f_peek runs on, so the ABI frame rule does not cover them; the callee
   relation says so explicitly. *)
Theorem peek_returns ra s0 t s1 :
  let f := regs s0 in
  (forall r, wf64 (getr f r)) -> 8 <= rsp f -> rsp f + 8 < B64 ->
  disj (rdx f) 8 (rsp f - 8) 8 ->
  disj (w64 (ld64 (mem s0) (rdx f) - 8)) 8 (rsp f - 8) 16 ->
  exits (peek_callee (rsp f - 8)) ra peek_fcontext s0 t s1 ->
  t = ld64 (mem s0) (rsp f) /\ rsp (regs s1) = rsp f + 8 /\
  rbx (regs s1) = rbx f /\ rbp (regs s1) = rbp f /\ r12 (regs s1) = r12 f /\
  r13 (regs s1) = r13 f /\ r14 (regs s1) = r14 f /\ r15 (regs s1) = r15 f.
Proof.
  intros f W S1 S2 D1 D2 E. subst f.
  refine (exits_wp _ ra (fun t s1 => t = ld64 (mem s0) (rsp (regs s0)) /\ rsp (regs s1) = rsp (regs s0) + 8 /\
            rbx (regs s1) = rbx (regs s0) /\ rbp (regs s1) = rbp (regs s0) /\ r12 (regs s1) = r12 (regs s0) /\
            r13 (regs s1) = r13 (regs s0) /\ r14 (regs s1) = r14 (regs s0) /\ r15 (regs s1) = r15 (regs s0))
          (length peek_fcontext) _ _ _ _ E (le_n _) _); clear E.
  entry_start s0 W. unfold peek_fcontext. cbn [length].
  repeat sstep. apply wp_call. intros sr A. unfold peek_callee in A. redst_in A.
  destruct_state sr. destruct A as (? & ? & ? & ? & ? & ? & Hm). subst.
  repeat sstep. apply wp_ret. redst. norm1. rd. cv. split_all; try reflexivity; try lia.
  f_equal; lia.
Qed.

(* ---------------------------------------------------------------- literal instruction order *)
(* order_ok p ctxreg: p = pre ++ [movq %rsp,(ctxreg)] ++ post where pre contains
   the pushes of all six callee-saved registers, stmxcsr and fnstcw, and post
   reaches a callq without any further instruction that writes memory. *)
Definition writes_mem (i : instr) : bool :=
  match i with Pushq _ | MovRM _ _ _ | Stmxcsr _ _ | Fnstcw _ _ | CallReg _ => true | _ => false end.
Fixpoint split_at_store (ctxreg : reg) (pre p : list instr) : option (list instr * list instr) :=
  match p with
  | [] => None
  | MovRM RSP 0 b :: k => if reg_eqb b ctxreg then Some (rev pre, k) else split_at_store ctxreg (MovRM RSP 0 b :: pre) k
  | i :: k => split_at_store ctxreg (i :: pre) k
  end.
Fixpoint call_without_write (p : list instr) : bool :=
  match p with
  | [] => false
  | CallReg _ :: _ => true
  | i :: k => negb (writes_mem i) && call_without_write k
  end.
Definition has_push (r : reg) (p : list instr) : bool :=
  existsb (fun i => match i with Pushq x => reg_eqb x r | _ => false end) p.
Definition order_ok (p : list instr) (ctxreg : reg) : bool :=
  match split_at_store ctxreg [] p with
  | None => false
  | Some (pre, post) =>
      has_push RBX pre && has_push RBP pre && has_push R12 pre && has_push R13 pre && has_push R14 pre && has_push R15 pre &&
      existsb (fun i => match i with Stmxcsr _ _ => true | _ => false end) pre &&
      existsb (fun i => match i with Fnstcw _ _ => true | _ => false end) pre &&
      negb (existsb (fun i => match i with CallReg _ | JmpReg _ | Ret => true | _ => false end) pre) &&
      call_without_write post
  end.
Lemma order_swc : order_ok switch_with_call_fcontext RCX = true.
Proof. vm_compute. reflexivity. Qed.
Lemma order_iswc : order_ok init_and_switch_with_call_fcontext R9 = true.
Proof. vm_compute. reflexivity. Qed.

