(* C02 (a) — the four restore halves (re-checked against the regenerated FctxGen.v) *)
From Coq Require Import ZArith List Lia.
From ABT Require Import Asm.X86 Asm.FctxSpec Asm.FctxGen Asm.FctxBase.
Import ListNotations.
Local Open Scope Z_scope.
Ltac Zify.zify_post_hook ::= Z.div_mod_to_equations.

(* ---------------------------------------------------------------- restore halves *)
Ltac restore_start T :=
  let hi := fresh "hi" in let ra := fresh "ra" in let s2 := fresh "s2" in let v := fresh "v" in
  let t := fresh "t" in let s3 := fresh "s3" in let Wc := fresh "Wc" in let SC := fresh "SC" in
  let P := fresh "P" in let E := fresh "E" in
  intros hi ra s2 v t s3 Wc SC P E;
  refine (exits_wp (abi_ret hi) ra (restored v) (length T) _ _ _ _ E (le_n _) _); clear E;
  destruct_state s2; unfold saved_ctx in SC; cv;
  destruct SC as (? & ? & ? & ? & ? & ? & ? & ? & ? & ? & ? & ?).
Ltac restore_finish := unfold restored; cv; split_all; use_ld; try reflexivity; try lia.

Theorem restore_jump : RestoreSpec jump_fcontext RDI restore_pre_jump.
Proof.
  restore_start jump_fcontext. unf. unfold jump_fcontext. cbn [length].
  repeat sstep. apply wp_jmp. restore_finish.
Qed.

Theorem restore_switch : RestoreSpec switch_fcontext RDI restore_pre_switch.
Proof.
  restore_start switch_fcontext. destruct P as (? & ? & ? & ? & ? & ? & ?). cv. unf.
  unfold switch_fcontext. cbn [length].
  repeat sstep. apply wp_jmp. restore_finish.
Qed.

Theorem restore_jump_with_call : RestoreSpec jump_with_call_fcontext RDX restore_pre_jwc.
Proof.
  restore_start jump_with_call_fcontext. destruct P as (? & ? & ?). cv. unf.
  unfold jump_with_call_fcontext. cbn [length].
  repeat sstep. scall Hm.
  repeat sstep. apply wp_jmp. restore_finish.
Qed.

Theorem restore_switch_with_call : RestoreSpec switch_with_call_fcontext RDX restore_pre_swc.
Proof.
  restore_start switch_with_call_fcontext. destruct P as ((? & ? & ? & ? & ? & ? & ?) & (? & ? & ?)). cv. unf.
  unfold switch_with_call_fcontext. cbn [length].
  repeat sstep. scall Hm.
  repeat sstep. apply wp_jmp. restore_finish.
Qed.

