(* C02 (a) — non-vacuity of the round-trip theorems: a concrete world in which
   every hypothesis holds and the computed result carries A's values.
   (Separate file: vm_compute on memory closures is slow-ish and this only
   needs re-checking when FctxGen.v changes.) *)
From Coq Require Import ZArith List Lia.
From ABT Require Import Asm.X86 Asm.FctxSpec Asm.FctxGen Asm.FctxProofs.
Import ListNotations.
Local Open Scope Z_scope.

(*    One concrete world: ULT A (canary values in rbx, rbp, r12-r15, MXCSR with
   round-toward-minus-infinity, x87 CW with 53-bit precision) on a stack at
   0x7008 with its fcontext_t cell at 0x9000; a suspended context B (cell
   0x9100, frame at 0x5000), a fresh stack with the unaligned top 0x3007, a
   restoring party C on a stack at 0x2008 with cell 0x9200; callbacks that
   return at once.  For every one of the 16 pairs all hypotheses of the
   round-trip theorem hold and the computed final state carries A's values. *)
Definition ex_ra (n : nat) : Z := 4202496 + Z.of_nat n.
Definition ex_hi : Z := 32768.
Definition ex_ctxA : Z := 36864.
Definition ex_ctxB : Z := 37120.
Definition ex_ctxC : Z := 37376.
Definition ex_ctxN : Z := 37632.
Definition ex_spA : Z := 28680.
Definition ex_m0 : memory :=
  st64 (st64 (st64 (st64 (st64 (st64 (st64 (st64 (st16 (st32 (st64 (fun _ => 0)
    ex_ctxB 20480) 20480 8064) 20484 895) 20488 2012) 20496 2013) 20504 2014) 20512 2015)
    20520 2011) 20528 2010) 20536 4198400) ex_spA 4194595.
Definition ex_s0 (a_rdi a_rsi a_rdx a_rcx a_r8 a_r9 : Z) : st :=
  mkst (mkrf 1 1011 a_rcx a_rdx a_rsi a_rdi 1012 ex_spA a_r8 a_r9 110 111 1013 1014 1015 1016) 24448 639 ex_m0.
Definition ex_s2 (a_rdi a_rsi a_rdx a_rcx : Z) (m : memory) : st :=
  mkst (mkrf 2 3011 a_rcx a_rdx a_rsi a_rdi 3012 8200 8 9 10 11 3013 3014 3015 3016) 8064 895 m.
Definition ex_s0_switch := ex_s0 ex_ctxB ex_ctxA 0 0 0 0.
Definition ex_s0_iswitch := ex_s0 ex_ctxN 4200000 12295 ex_ctxA 0 0.
Definition ex_s0_swc := ex_s0 77 4201000 ex_ctxB ex_ctxA 0 0.
Definition ex_s0_iswc := ex_s0 77 4201000 ex_ctxN 4200000 12295 ex_ctxA.
Definition ex_s2_switch := ex_s2 ex_ctxA ex_ctxC 0 0.
Definition ex_s2_jump := ex_s2 ex_ctxA 0 0 0.
Definition ex_s2_swc := ex_s2 88 4203000 ex_ctxA ex_ctxC.
Definition ex_s2_jwc := ex_s2 88 4203000 ex_ctxA 0.

Definition ex_ok (S : list instr) (rold : reg) (preS : st -> Prop) (s0 : st)
                 (T : list instr) (rnew : reg) (preT : Z -> cvals -> Z -> st -> Prop) (s2of : memory -> st) : Prop :=
  let s1 := stop_state (run ex_ra S s0) s0 in
  let s2 := s2of (mem s1) in
  preS s0 /\ leaves ex_ra S s0 s1 /\
  agree_on (ctx_footprint (mem s1) (getr (regs s0) rold)) (mem s1) (mem s2) /\
  getr (regs s2) rnew = getr (regs s0) rold /\
  preT ex_hi (ctx_of s0) (getr (regs s0) rold) s2 /\
  exists t s3, exits (abi_ret ex_hi) ex_ra T s2 t s3 /\
    t = 4194595 /\ rsp (regs s3) = ex_spA + 8 /\ rbx (regs s3) = 1011 /\ rbp (regs s3) = 1012 /\
    r12 (regs s3) = 1013 /\ r13 (regs s3) = 1014 /\ r14 (regs s3) = 1015 /\ r15 (regs s3) = 1016 /\
    mxcsr s3 = 24448 /\ cw s3 = 639.

Ltac dec := first [ reflexivity | discriminate | (intro; discriminate) | exact I
                  | (split; dec) | (left; dec) | (right; dec) ].
Ltac ex_pre :=
  unfold save_pre_swc, save_pre_iswc, save_pre, restore_pre_jump, restore_pre_switch, restore_pre_jwc, restore_pre_swc,
         restorer_saves, restorer_calls; cbv zeta;
  repeat match goal with
  | |- _ /\ _ => split
  | |- forall r : reg, _ => let r := fresh in intros r; destruct r
  end; vm_compute; dec.
Ltac ex_tac :=
  unfold ex_ok; cbv zeta;
  split; [ex_pre|];
  split; [apply leaves_stop; vm_compute; reflexivity|];
  split; [match goal with |- agree_on _ ?m _ => generalize m end; intros m0 a _; reflexivity|];
  split; [vm_compute; reflexivity|];
  split; [ex_pre|];
  match goal with |- exists t s3, exits _ _ ?T ?s2 t s3 /\ _ =>
    destruct (run_all 3 ex_ra T s2) as [[t s3]|] eqn:E;
    [ exists t, s3; split; [eapply run_all_exits; exact E|];
      vm_compute in E; inversion E; subst; vm_compute; dec
    | vm_compute in E; discriminate E ]
  end.

Lemma ex_switch_switch :
  ex_ok switch_fcontext RSI (save_pre RSI) ex_s0_switch switch_fcontext RDI restore_pre_switch ex_s2_switch.
Proof. ex_tac. Qed.
Lemma ex_switch_with_call_jump_with_call :
  ex_ok switch_with_call_fcontext RCX save_pre_swc ex_s0_swc jump_with_call_fcontext RDX restore_pre_jwc ex_s2_jwc.
Proof. ex_tac. Qed.
Lemma ex_init_and_switch_jump :
  ex_ok init_and_switch_fcontext RCX (save_pre RCX) ex_s0_iswitch jump_fcontext RDI restore_pre_jump ex_s2_jump.
Proof. ex_tac. Qed.
Lemma ex_init_and_switch_with_call_switch_with_call :
  ex_ok init_and_switch_with_call_fcontext R9 save_pre_iswc ex_s0_iswc switch_with_call_fcontext RDX restore_pre_swc ex_s2_swc.
Proof. ex_tac. Qed.

(* entry of a fresh ULT: p_stacktop = 0x3007 (unaligned) -> RSP = 0x2ff8 = 12280 = 8 mod 16 *)
Definition ex_s0_ijump := ex_s0 ex_ctxN 4200000 12295 0 0 0.
Definition ex_s0_ijwc := ex_s0 77 4201000 ex_ctxN 4200000 12295 0.
Definition entry_at (o : option (Z * st)) : Prop :=
  match o with Some (t, s1) => t = 4200000 /\ rsp (regs s1) = 12280 /\ rdi (regs s1) = ex_ctxN | None => False end.
Definition cb_at (o : outcome) : Prop :=
  match o with OCall f sc _ => f = 4201000 /\ rsp (regs sc) = 12280 /\ rdi (regs sc) = 77 | _ => False end.
Lemma ex_entry :
  entry_at (run_all 3 ex_ra init_and_jump_fcontext ex_s0_ijump) /\
  entry_at (run_all 3 ex_ra init_and_switch_fcontext ex_s0_iswitch) /\
  cb_at (run ex_ra init_and_jump_with_call_fcontext ex_s0_ijwc) /\
  entry_at (run_all 3 ex_ra init_and_jump_with_call_fcontext ex_s0_ijwc) /\
  cb_at (run ex_ra init_and_switch_with_call_fcontext ex_s0_iswc) /\
  entry_at (run_all 3 ex_ra init_and_switch_with_call_fcontext ex_s0_iswc).
Proof. vm_compute. dec. Qed.

(* peek_fcontext(arg=77, f_peek, p_target_ctx = B's cell) from A's stack *)
Definition ex_s0_peek := ex_s0 77 4201000 ex_ctxB 0 0 0.
Lemma ex_peek :
  let f := regs ex_s0_peek in
  (forall r, wf64 (getr f r)) /\ 8 <= rsp f /\ rsp f + 8 < B64 /\
  disj (rdx f) 8 (rsp f - 8) 8 /\ disj (w64 (ld64 (mem ex_s0_peek) (rdx f) - 8)) 8 (rsp f - 8) 16 /\
  exists t s1, exits (peek_callee (rsp f - 8)) ex_ra peek_fcontext ex_s0_peek t s1 /\
               t = 4194595 /\ rsp (regs s1) = ex_spA + 8 /\ r12 (regs s1) = 1013.
Proof.
  cbv zeta. split; [ex_pre|]. split; [ex_pre|]. split; [ex_pre|]. split; [ex_pre|]. split; [ex_pre|].
  destruct (run_all 3 ex_ra peek_fcontext ex_s0_peek) as [[t s3]|] eqn:E;
    [ exists t, s3; split; [eapply run_all_exits_gen; [intros sc; apply ret_now_peek|exact E]|];
      vm_compute in E; inversion E; subst; vm_compute; dec
    | vm_compute in E; discriminate E ].
Qed.

(* the alignment preconditions of the progress theorems hold in this world *)
Lemma ex_progress_pre :
  (let f := regs ex_s0_switch in
   save_pre RSI ex_s0_switch /\ al8 (rsp f) /\ al8 (rsi f) /\ ctx_ptr_ok (mem ex_s0_switch) (rdi f) /\
   disj (rdi f) 8 (rsp f - 56) 64 /\ disj (rdi f) 8 (rsi f) 8) /\
  (let f := regs ex_s0_swc in
   save_pre_swc ex_s0_swc /\ al8 (rsp f) /\ al8 (rcx f) /\ ctx_ptr_ok (mem ex_s0_swc) (rdx f) /\
   8 <= ld64 (mem ex_s0_swc) (rdx f)) /\
  (let f := regs ex_s0_iswc in save_pre_iswc ex_s0_iswc /\ al8 (rsp f) /\ al8 (r9 f)).
Proof. unfold al8, ctx_ptr_ok. cbv zeta. ex_pre. Qed.
