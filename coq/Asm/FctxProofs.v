(* C02 (a) — proofs about the GENERATED instruction lists of Asm/FctxGen.v,
   re-checked on every run against the translation of the current assembly.
   Split into files that compile in parallel; this file only re-exports them. *)
From ABT Require Export Asm.FctxBase Asm.FctxSave Asm.FctxRestore Asm.FctxEntry.
