(* C02 (a) — shared lemmas and tactics for the proofs about the GENERATED
   instruction lists of Asm/FctxGen.v: read-over-write on the cell memory,
   goal-directed symbolic execution (lv: up to the first hand-over of control;
   wp: complete executions with the ABI oracle), the generic round-trip lemma.
   Style: one lemma application per instruction, state kept as an explicit
   record, addresses as rsp0 + constant, side conditions by lia. *)
From Coq Require Import ZArith List Lia.
From ABT Require Import Asm.X86 Asm.FctxSpec Asm.FctxGen.
Import ListNotations.
Local Open Scope Z_scope.
Ltac Zify.zify_post_hook ::= Z.div_mod_to_equations.

Ltac unf := unfold wf64, wf32, wf16, disj, B64, B32, B16 in *.

(* ---------------------------------------------------------------- arithmetic, memory *)
Lemma w64_small x : 0 <= x < 18446744073709551616 -> w64 x = x.
Proof. intros. unfold w64, B64. apply Z.mod_small; assumption. Qed.

Lemma land_m16 v : Z.land v (-16) = 16 * (v / 16).
Proof.
  change (-16) with (Z.lnot (Z.ones 4)). rewrite <- Z.ldiff_land, Z.ldiff_ones_r by lia.
  rewrite Z.shiftr_div_pow2, Z.shiftl_mul_pow2 by lia. change (2 ^ 4) with 16. lia.
Qed.

Lemma setm_eq m a v x : x = a -> setm m a v x = v.
Proof. intros ->. unfold setm. now rewrite Z.eqb_refl. Qed.
Lemma setm_other m a v x : x <> a -> setm m a v x = m x.
Proof. unfold setm. intros H. apply Z.eqb_neq in H. now rewrite H. Qed.

(* read over write; [b,b+size) against [a,a+size) *)
Lemma ld64_st64_eq m a v b : b = a -> 0 <= v < 18446744073709551616 -> ld64 (st64 m a v) b = v.
Proof. intros -> H. unfold ld64, st64, B32. rewrite (setm_other _ _ _ a) by lia.
  rewrite !setm_eq by reflexivity. lia. Qed.
Lemma ld64_st64_other m a v b : b + 8 <= a \/ a + 8 <= b -> ld64 (st64 m a v) b = ld64 m b.
Proof. intros H. unfold ld64, st64. rewrite !setm_other by lia. reflexivity. Qed.
Lemma ld64_st32_other m a v b : b + 8 <= a \/ a + 4 <= b -> ld64 (st32 m a v) b = ld64 m b.
Proof. intros H. unfold ld64, st32. rewrite !setm_other by lia. reflexivity. Qed.
Lemma ld64_st16_other m a v b : b + 8 <= a \/ a + 4 <= b -> ld64 (st16 m a v) b = ld64 m b.
Proof. intros H. unfold ld64, st16. rewrite !setm_other by lia. reflexivity. Qed.
Lemma ld32_st32_eq m a v b : b = a -> 0 <= v < 4294967296 -> ld32 (st32 m a v) b = v.
Proof. intros -> H. unfold ld32, st32, B32. rewrite setm_eq by reflexivity. lia. Qed.
Lemma ld32_st64_other m a v b : b + 4 <= a \/ a + 8 <= b -> ld32 (st64 m a v) b = ld32 m b.
Proof. intros H. unfold ld32, st64. rewrite !setm_other by lia. reflexivity. Qed.
Lemma ld32_st32_other m a v b : b + 4 <= a \/ a + 4 <= b -> ld32 (st32 m a v) b = ld32 m b.
Proof. intros H. unfold ld32, st32. rewrite !setm_other by lia. reflexivity. Qed.
Lemma ld32_st16_other m a v b : b + 4 <= a \/ a + 4 <= b -> ld32 (st16 m a v) b = ld32 m b.
Proof. intros H. unfold ld32, st16. rewrite !setm_other by lia. reflexivity. Qed.
Lemma ld16_st16_eq m a v b : b = a -> 0 <= v < 65536 -> ld16 (st16 m a v) b = v.
Proof. intros -> H. unfold ld16, st16, B16. rewrite setm_eq by reflexivity. lia. Qed.
Lemma ld16_st64_other m a v b : b + 4 <= a \/ a + 8 <= b -> ld16 (st64 m a v) b = ld16 m b.
Proof. intros H. unfold ld16, st64. rewrite !setm_other by lia. reflexivity. Qed.
Lemma ld16_st32_other m a v b : b + 4 <= a \/ a + 4 <= b -> ld16 (st32 m a v) b = ld16 m b.
Proof. intros H. unfold ld16, st32. rewrite !setm_other by lia. reflexivity. Qed.
Lemma ld16_st16_other m a v b : b + 4 <= a \/ a + 4 <= b -> ld16 (st16 m a v) b = ld16 m b.
Proof. intros H. unfold ld16, st16. rewrite !setm_other by lia. reflexivity. Qed.

(* reads inside a region on which two memories agree *)
Lemma ld64_frame (m1 m2 : memory) lo hi x :
  (forall a, lo <= a -> a + 4 <= hi -> m1 a = m2 a) -> lo <= x -> x + 8 <= hi -> ld64 m1 x = ld64 m2 x.
Proof. intros H A B. unfold ld64. rewrite (H x), (H (x + 4)) by lia. reflexivity. Qed.
Lemma ld32_frame (m1 m2 : memory) lo hi x :
  (forall a, lo <= a -> a + 4 <= hi -> m1 a = m2 a) -> lo <= x -> x + 4 <= hi -> ld32 m1 x = ld32 m2 x.
Proof. intros H A B. unfold ld32. rewrite (H x) by lia. reflexivity. Qed.
Lemma ld16_frame (m1 m2 : memory) lo hi x :
  (forall a, lo <= a -> a + 4 <= hi -> m1 a = m2 a) -> lo <= x -> x + 4 <= hi -> ld16 m1 x = ld16 m2 x.
Proof. intros H A B. unfold ld16. rewrite (H x) by lia. reflexivity. Qed.

(* ---------------------------------------------------------------- first hand-over: lv *)
Definition is_ctl (i : instr) : bool := match i with CallReg _ | JmpReg _ | Ret => true | _ => false end.

Lemma lv_step ra i k s QJ QC : is_ctl i = false ->
  (chk i s = true -> lv ra k (exec1 i s) QJ QC) -> lv ra (i :: k) s QJ QC.
Proof. intros C H. unfold lv in *. cbn [run]. destruct (chk i s); [|exact I].
  specialize (H eq_refl). destruct i; try discriminate C; exact H. Qed.
Lemma lv_jmp ra r k s (QJ : Z -> st -> Prop) QC : QJ (getr (regs s) r) s -> lv ra (JmpReg r :: k) s QJ QC.
Proof. intros H. unfold lv. cbn [run chk]. exact H. Qed.
Lemma lv_call ra r k s QJ (QC : Z -> st -> list instr -> Prop) :
  QC (getr (regs s) r)
     (mkst (setr (regs s) RSP (w64 (rsp (regs s) - 8))) (mxcsr s) (cw s)
           (st64 (mem s) (w64 (rsp (regs s) - 8)) (ra (length k)))) k ->
  lv ra (CallReg r :: k) s QJ QC.
Proof. intros H. unfold lv. cbn [run]. destruct (chk (CallReg r) s); [exact H|exact I]. Qed.

Lemma leaves_lv ra p s0 s1 (Q : st -> Prop) :
  leaves ra p s0 s1 -> lv ra p s0 (fun _ s => Q s) (fun _ s _ => Q s) -> Q s1.
Proof. unfold leaves, lv. intros [[t H]|[f [k H]]] L; rewrite H in L; exact L. Qed.
Lemma lv_weaken ra p s (QJ QJ' : Z -> st -> Prop) (QC QC' : Z -> st -> list instr -> Prop) :
  (forall t s1, QJ t s1 -> QJ' t s1) -> (forall f s1 k, QC f s1 k -> QC' f s1 k) ->
  lv ra p s QJ QC -> lv ra p s QJ' QC'.
Proof. unfold lv. intros A B. destruct (run ra p s); auto. Qed.

(* a tail that reaches its jmpq through instructions that do not write memory
   (restoring the next context, setting up the fresh stack) leaves memory as it is *)
Definition readonly (i : instr) : bool :=
  match i with
  | Popq _ | Leaq _ _ _ | MovRR _ _ | MovMR _ _ _ | AndqI _ _ | AddqI _ _ | SubqI _ _
  | Ldmxcsr _ _ | Fldcw _ _ => true
  | _ => false
  end.
Fixpoint ro_to_jmp (p : list instr) : bool :=
  match p with
  | JmpReg _ :: _ => true
  | i :: k => readonly i && ro_to_jmp k
  | [] => false
  end.
Lemma lv_ro ra (Q : memory -> Prop) : forall p s, ro_to_jmp p = true -> Q (mem s) ->
  lv ra p s (fun _ s1 => Q (mem s1)) (fun _ _ _ => False).
Proof.
  induction p as [|i k IH]; intros s R H; [discriminate|].
  destruct i; try (cbn in R; discriminate R);
    try (apply lv_step; [reflexivity|intros _; apply IH; [exact R|]]);
    try (apply lv_jmp; exact H); try exact H.
  cbn [exec1]. destruct r; exact H.
Qed.
Ltac lro :=
  match goal with |- lv ?ra ?p ?s (fun _ s1 => saved_ctx (mem s1) ?c ?v) _ =>
    apply (lv_ro ra (fun m => saved_ctx m c v) p s); [reflexivity|] end.

(* ---------------------------------------------------------------- complete executions: wp *)
Fixpoint wp (n : nat) (R : st -> st -> Prop) (ra : nat -> Z) (p : list instr) (s : st) (Q : Z -> st -> Prop) : Prop :=
  match run ra p s with
  | OStuck => True
  | OJmp t s' => Q t s'
  | OCall f sc k => match n with O => True | S n' => forall sr, R sc sr -> wp n' R ra k sr Q end
  end.

Lemma wp_unfold n R ra p s (Q : Z -> st -> Prop) : wp n R ra p s Q =
  match run ra p s with
  | OStuck => True
  | OJmp t s' => Q t s'
  | OCall f sc k => match n with O => True | S n' => forall sr, R sc sr -> wp n' R ra k sr Q end
  end.
Proof. destruct n; reflexivity. Qed.

Lemma run_call_shorter ra : forall p s f sc k, run ra p s = OCall f sc k -> (length k < length p)%nat.
Proof.
  induction p as [|i p IH]; intros s f sc k H; [discriminate|].
  cbn [run] in H. destruct (chk i s); [|discriminate].
  destruct i; try (apply IH in H; cbn [length]; lia); try discriminate.
  inversion H; subst. cbn [length]. lia.
Qed.

Lemma exits_wp R ra (Q : Z -> st -> Prop) :
  forall n p s t s', exits R ra p s t s' -> (length p <= n)%nat -> wp n R ra p s Q -> Q t s'.
Proof.
  intros n p s t s' E. revert n. induction E as [p s t s' H | p s f sc k sr t s' H A E IH]; intros n L W.
  - rewrite wp_unfold, H in W. exact W.
  - rewrite wp_unfold, H in W. pose proof (run_call_shorter _ _ _ _ _ _ H) as Lk.
    destruct n as [|n]; [lia|]. apply (IH n); [lia|]. apply W; assumption.
Qed.

Lemma wp_step n R ra i k s (Q : Z -> st -> Prop) : is_ctl i = false ->
  (chk i s = true -> wp n R ra k (exec1 i s) Q) -> wp n R ra (i :: k) s Q.
Proof.
  intros C H. rewrite wp_unfold. cbn [run]. destruct (chk i s); [|exact I].
  specialize (H eq_refl). rewrite wp_unfold in H. destruct i; try discriminate C; exact H.
Qed.
Lemma wp_jmp n R ra r k s (Q : Z -> st -> Prop) : Q (getr (regs s) r) s -> wp n R ra (JmpReg r :: k) s Q.
Proof. intros H. rewrite wp_unfold. cbn [run chk]. exact H. Qed.
Lemma wp_ret n R ra k s (Q : Z -> st -> Prop) :
  Q (ld64 (mem s) (rsp (regs s))) (mkst (setr (regs s) RSP (w64 (rsp (regs s) + 8))) (mxcsr s) (cw s) (mem s)) ->
  wp n R ra (Ret :: k) s Q.
Proof. intros H. rewrite wp_unfold. cbn [run]. destruct (chk Ret s); [exact H|exact I]. Qed.
Lemma wp_call n (R : st -> st -> Prop) ra r k s (Q : Z -> st -> Prop) :
  (forall sr, R (mkst (setr (regs s) RSP (w64 (rsp (regs s) - 8))) (mxcsr s) (cw s)
                      (st64 (mem s) (w64 (rsp (regs s) - 8)) (ra (length k)))) sr ->
              wp n R ra k sr Q) ->
  wp (S n) R ra (CallReg r :: k) s Q.
Proof. intros H. rewrite wp_unfold. cbn [run]. destruct (chk (CallReg r) s); [exact H|exact I]. Qed.

(* ---------------------------------------------------------------- tactics *)
Ltac norm1 :=
  rewrite ?land_m16, ?Z.add_0_r;
  repeat match goal with |- context[w64 ?x] => rewrite (w64_small x) by lia end.
Ltac redst :=
  cbn [exec1 regs mem mxcsr cw getr setr rax rbx rcx rdx rsi rdi rbp rsp r8 r9 r10 r11 r12 r13 r14 r15];
  unfold ea;
  cbn [regs mem mxcsr cw getr setr rax rbx rcx rdx rsi rdi rbp rsp r8 r9 r10 r11 r12 r13 r14 r15].
Ltac redst_in H :=
  cbn [exec1 regs mem mxcsr cw getr setr rax rbx rcx rdx rsi rdi rbp rsp r8 r9 r10 r11 r12 r13 r14 r15] in H;
  unfold ea in H;
  cbn [regs mem mxcsr cw getr setr rax rbx rcx rdx rsi rdi rbp rsp r8 r9 r10 r11 r12 r13 r14 r15] in H.

Ltac rd1 :=
  match goal with
  | |- context[ld64 (st64 ?m ?a ?v) ?b] => first [rewrite (ld64_st64_other m a v b) by lia | rewrite (ld64_st64_eq m a v b) by lia]
  | |- context[ld64 (st32 ?m ?a ?v) ?b] => rewrite (ld64_st32_other m a v b) by lia
  | |- context[ld64 (st16 ?m ?a ?v) ?b] => rewrite (ld64_st16_other m a v b) by lia
  | |- context[ld32 (st64 ?m ?a ?v) ?b] => rewrite (ld32_st64_other m a v b) by lia
  | |- context[ld32 (st32 ?m ?a ?v) ?b] => first [rewrite (ld32_st32_other m a v b) by lia | rewrite (ld32_st32_eq m a v b) by lia]
  | |- context[ld32 (st16 ?m ?a ?v) ?b] => rewrite (ld32_st16_other m a v b) by lia
  | |- context[ld16 (st64 ?m ?a ?v) ?b] => rewrite (ld16_st64_other m a v b) by lia
  | |- context[ld16 (st32 ?m ?a ?v) ?b] => rewrite (ld16_st32_other m a v b) by lia
  | |- context[ld16 (st16 ?m ?a ?v) ?b] => first [rewrite (ld16_st16_other m a v b) by lia | rewrite (ld16_st16_eq m a v b) by lia]
  end.
(* reads from a memory only known to agree with another one on [lo,hi) *)
Ltac fr1 :=
  match goal with
  | H : (forall a, ?lo <= a -> a + 4 <= ?hi -> ?m1 a = ?m2 a) |- context[ld64 ?m1 ?x] => rewrite (ld64_frame m1 m2 lo hi x H) by lia
  | H : (forall a, ?lo <= a -> a + 4 <= ?hi -> ?m1 a = ?m2 a) |- context[ld32 ?m1 ?x] => rewrite (ld32_frame m1 m2 lo hi x H) by lia
  | H : (forall a, ?lo <= a -> a + 4 <= ?hi -> ?m1 a = ?m2 a) |- context[ld16 ?m1 ?x] => rewrite (ld16_frame m1 m2 lo hi x H) by lia
  end.
Ltac rd := repeat first [rd1 | fr1].

(* one instruction *)
(* lstep: for "first hand-over" goals; reads are resolved at the end only *)
Ltac lstep := apply lv_step; [reflexivity|intros _]; redst; norm1.
Ltac sstep := apply wp_step; [reflexivity|intros _]; redst; norm1; rd.
(* callq: introduce the state after the callee's return and its ABI facts *)
Ltac scall Hm :=
  apply wp_call;
  let sr := fresh "sr" in let A := fresh "A" in
  intros sr A; unfold abi_ret in A; redst_in A;
  destruct sr as [[? ? ? ? ? ? ? ? ? ? ? ? ? ? ? ?] ? ? ?];
  cbn [regs mem rsp rbx rbp r12 r13 r14 r15] in A;
  destruct A as (? & ? & ? & ? & ? & ? & ? & Hm); subst;
  rewrite ?land_m16 in Hm;
  repeat match type of Hm with context[w64 ?x] => rewrite (w64_small x) in Hm by lia end;
  norm1.

(* use hypotheses  ldNN m a = x  on reads whose address is equal to a up to lia *)
Ltac use_ld :=
  repeat match goal with
  | H : ld64 ?m ?a = _ |- context[ld64 ?m ?b] => replace b with a by lia; rewrite H
  | H : ld32 ?m ?a = _ |- context[ld32 ?m ?b] => replace b with a by lia; rewrite H
  | H : ld16 ?m ?a = _ |- context[ld16 ?m ?b] => replace b with a by lia; rewrite H
  end.

Ltac split_all := repeat match goal with |- _ /\ _ => split end.

Ltac destruct_state s :=
  destruct s as [[? ? ? ? ? ? ? ? ? ? ? ? ? ? ? ?] ? ? ?];
  cbn [regs mem mxcsr cw getr rax rbx rcx rdx rsi rdi rbp rsp r8 r9 r10 r11 r12 r13 r14 r15] in *.

Ltac cv := cbn [regs mem mxcsr cw getr rax rbx rcx rdx rsi rdi rbp rsp r8 r9 r10 r11 r12 r13 r14 r15
                c_rsp c_mxcsr c_cw c_r12 c_r13 c_r14 c_r15 c_rbx c_rbp c_rip] in *.

(* ---------------------------------------------------------------- generic round trip *)
Lemma saved_ctx_agree m1 m2 ctx v :
  saved_ctx m1 ctx v -> agree_on (ctx_footprint m1 ctx) m1 m2 -> saved_ctx m2 ctx v.
Proof.
  unfold saved_ctx, agree_on, ctx_footprint. intros S A.
  assert (E : ld64 m2 ctx = ld64 m1 ctx).
  { unfold ld64. rewrite <- (A ctx), <- (A (ctx + 4)) by lia. reflexivity. }
  rewrite E. set (sp := ld64 m1 ctx) in *.
  assert (L64 : forall d, 0 <= d -> d + 8 <= 64 -> ld64 m2 (sp + d) = ld64 m1 (sp + d)).
  { intros d D1 D2. unfold ld64. rewrite <- (A (sp + d)), <- (A (sp + d + 4)) by lia. reflexivity. }
  assert (L32 : ld32 m2 sp = ld32 m1 sp) by (unfold ld32; rewrite <- (A sp) by lia; reflexivity).
  assert (L16 : ld16 m2 (sp + 4) = ld16 m1 (sp + 4)) by (unfold ld16; rewrite <- (A (sp + 4)) by lia; reflexivity).
  rewrite L32, L16, !L64 by lia. exact S.
Qed.

Theorem roundtrip_generic S rold preS T rnew preT :
  SaveSpec S rold preS -> RestoreSpec T rnew preT -> Roundtrip S rold preS T rnew preT.
Proof.
  intros HS HT ra ra' hi s0 s1 s2 t s3 P L A E PT X.
  destruct (HS ra s0 s1 P L) as [W SC].
  apply (HT hi ra' s2 (ctx_of s0) t s3); rewrite ?E; auto.
  eapply saved_ctx_agree; eauto.
Qed.

(* ---------------------------------------------------------------- helpers for the non-vacuity Examples *)
(* a callee that returns at once is ABI-conforming; run_all executes a routine
   to completion with that callee, and is an instance of `exits` *)
Definition ret_now (sc : st) : st :=
  mkst (setr (regs sc) RSP (w64 (rsp (regs sc) + 8))) (mxcsr sc) (cw sc) (mem sc).
Lemma ret_now_abi hi sc : abi_ret hi sc (ret_now sc).
Proof. unfold abi_ret, ret_now. destruct sc as [[]]. cbn. tauto. Qed.
Fixpoint run_all (n : nat) (ra : nat -> Z) (p : list instr) (s : st) : option (Z * st) :=
  match n with
  | O => None
  | S n' => match run ra p s with
            | OJmp t s' => Some (t, s')
            | OCall _ sc k => run_all n' ra k (ret_now sc)
            | OStuck => None
            end
  end.
Lemma run_all_exits_gen (R : st -> st -> Prop) ra : (forall sc, R sc (ret_now sc)) ->
  forall n p s t s', run_all n ra p s = Some (t, s') -> exits R ra p s t s'.
Proof.
  intros HR. induction n as [|n IH]; intros p s t s' H; [discriminate|].
  cbn [run_all] in H. destruct (run ra p s) as [t1 s1|f sc k|] eqn:E; [|  |discriminate].
  - inversion H; subst. apply exits_jmp. exact E.
  - eapply exits_call; [exact E|apply HR|apply IH; exact H].
Qed.
Lemma run_all_exits hi ra : forall n p s t s', run_all n ra p s = Some (t, s') -> exits (abi_ret hi) ra p s t s'.
Proof. apply run_all_exits_gen. intros sc. apply ret_now_abi. Qed.
Lemma ret_now_peek slot sc : peek_callee slot sc (ret_now sc).
Proof. unfold peek_callee, ret_now. destruct sc as [[]]. cbn. tauto. Qed.
Definition stop_state (o : outcome) (d : st) : st :=
  match o with OJmp _ s | OCall _ s _ => s | OStuck => d end.
Definition stopped (o : outcome) : bool := match o with OStuck => false | _ => true end.
Lemma leaves_stop ra p s0 : stopped (run ra p s0) = true -> leaves ra p s0 (stop_state (run ra p s0) s0).
Proof. unfold leaves. destruct (run ra p s0); cbn; intros H; [left|right|discriminate]; eauto. Qed.

