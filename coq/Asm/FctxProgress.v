(* C02 (a) — progress: under 8-byte alignment of the stack pointers and context
   pointers involved, no execution of any of the nine routines gets stuck, so
   the partial-correctness theorems of FctxProofs.v are not vacuous for such
   states (every memory access is then at a multiple of 4, where the 4-byte-cell
   model is exact). *)
From Coq Require Import ZArith List Lia.
From ABT Require Import Asm.X86 Asm.FctxSpec Asm.FctxGen Asm.FctxProofs.
Import ListNotations.
Local Open Scope Z_scope.
Ltac Zify.zify_post_hook ::= Z.div_mod_to_equations.

Lemma np_unfold n R ra p s : np n R ra p s =
  match run ra p s with
  | OStuck => False
  | OJmp _ _ => True
  | OCall _ sc k => match n with O => True | S n' => forall sr, R sc sr -> np n' R ra k sr end
  end.
Proof. destruct n; reflexivity. Qed.
Lemma np_step n R ra i k s : is_ctl i = false -> chk i s = true -> np n R ra k (exec1 i s) -> np n R ra (i :: k) s.
Proof.
  intros C A H. rewrite np_unfold. cbn [run]. rewrite A. rewrite np_unfold in H.
  destruct i; try discriminate C; exact H.
Qed.
Lemma np_jmp n R ra r k s : np n R ra (JmpReg r :: k) s.
Proof. rewrite np_unfold. cbn [run chk]. exact I. Qed.
Lemma np_ret n R ra k s : chk Ret s = true -> np n R ra (Ret :: k) s.
Proof. intros A. rewrite np_unfold. cbn [run]. rewrite A. exact I. Qed.
Lemma np_call n (R : st -> st -> Prop) ra r k s : chk (CallReg r) s = true ->
  (forall sr, R (mkst (setr (regs s) RSP (w64 (rsp (regs s) - 8))) (mxcsr s) (cw s)
                      (st64 (mem s) (w64 (rsp (regs s) - 8)) (ra (length k)))) sr -> np n R ra k sr) ->
  np (S n) R ra (CallReg r :: k) s.
Proof. intros A H. rewrite np_unfold. cbn [run]. rewrite A. exact H. Qed.
Lemma al_true a : a mod 4 = 0 -> al a = true.
Proof. intros H. unfold al. apply Z.eqb_eq. exact H. Qed.

Lemma al_add a d : d mod 4 = 0 -> al a = true -> al (a + d) = true.
Proof. unfold al. rewrite !Z.eqb_eq. intros. lia. Qed.
Lemma al_sub a d : d mod 4 = 0 -> al a = true -> al (a - d) = true.
Proof. unfold al. rewrite !Z.eqb_eq. intros. lia. Qed.
Lemma al8_al x : x mod 8 = 0 -> al x = true.
Proof. unfold al. rewrite Z.eqb_eq. lia. Qed.
Lemma al_16 x : al (16 * x) = true.
Proof. unfold al. rewrite Z.eqb_eq. lia. Qed.
Ltac al_solve := repeat first [apply al_add; [reflexivity|] | apply al_sub; [reflexivity|]]; first [assumption | apply al_16].
Ltac chk_solve :=
  cbn [chk regs mem mxcsr cw getr setr rax rbx rcx rdx rsi rdi rbp rsp r8 r9 r10 r11 r12 r13 r14 r15];
  unfold ea; cbn [regs getr rax rbx rcx rdx rsi rdi rbp rsp r8 r9 r10 r11 r12 r13 r14 r15];
  first [reflexivity | (norm1; rd; norm1; al_solve)].
Ltac pstep := apply np_step; [reflexivity|chk_solve|]; redst; norm1; rd.

Ltac pcall Hm :=
  apply np_call; [chk_solve|];
  let sr := fresh "sr" in let A := fresh "A" in
  intros sr A; unfold abi_ret in A; redst_in A;
  destruct sr as [[? ? ? ? ? ? ? ? ? ? ? ? ? ? ? ?] ? ? ?];
  cbn [regs mem rsp rbx rbp r12 r13 r14 r15] in A;
  destruct A as (? & ? & ? & ? & ? & ? & ? & Hm); subst;
  rewrite ?land_m16 in Hm;
  repeat match type of Hm with context[w64 ?x] => rewrite (w64_small x) in Hm by lia end;
  norm1.
Ltac pfin := repeat pstep; first [apply np_jmp | (apply np_ret; chk_solve)].

Theorem progress_switch hi ra s0 :
  let f := regs s0 in
  save_pre RSI s0 -> al8 (rsp f) -> al8 (rsi f) ->
  ctx_ptr_ok (mem s0) (rdi f) -> disj (rdi f) 8 (rsp f - 56) 64 -> disj (rdi f) 8 (rsi f) 8 ->
  np (length switch_fcontext) (abi_ret hi) ra switch_fcontext s0.
Proof.
  intros f P A1 A2 (A3 & A4 & A5 & A6) D1 D2. subst f. save_start s0 P. unfold al8 in *.
  apply al8_al in A1, A2, A3, A4. unfold switch_fcontext. cbn [length]. pfin.
Qed.

Theorem progress_jump hi ra s0 :
  let f := regs s0 in
  wf64 (rdi f) -> ctx_ptr_ok (mem s0) (rdi f) ->
  np (length jump_fcontext) (abi_ret hi) ra jump_fcontext s0.
Proof.
  intros f W (A3 & A4 & A5 & A6). subst f. destruct_state s0. unf. unfold al8 in *.
  apply al8_al in A3, A4. unfold jump_fcontext. cbn [length]. pfin.
Qed.

Theorem progress_init_and_switch hi ra s0 :
  let f := regs s0 in
  save_pre RCX s0 -> al8 (rsp f) -> al8 (rcx f) ->
  np (length init_and_switch_fcontext) (abi_ret hi) ra init_and_switch_fcontext s0.
Proof.
  intros f P A1 A2. subst f. save_start s0 P. unfold al8 in *.
  apply al8_al in A1, A2. unfold init_and_switch_fcontext. cbn [length]. pfin.
Qed.

Theorem progress_init_and_jump hi ra s0 :
  np (length init_and_jump_fcontext) (abi_ret hi) ra init_and_jump_fcontext s0.
Proof. destruct_state s0. unfold init_and_jump_fcontext. cbn [length]. pfin. Qed.

Theorem progress_switch_with_call hi ra s0 :
  let f := regs s0 in
  save_pre_swc s0 -> al8 (rsp f) -> al8 (rcx f) ->
  ctx_ptr_ok (mem s0) (rdx f) -> 8 <= ld64 (mem s0) (rdx f) ->
  np (length switch_with_call_fcontext) (abi_ret hi) ra switch_with_call_fcontext s0.
Proof.
  intros f (P & Q) A1 A2 (A3 & A4 & A5 & A6) A7. subst f. save_start s0 P. destruct Q as (? & ? & ? & ?).
  unfold al8 in *. apply al8_al in A1, A2, A3, A4. unfold switch_with_call_fcontext. cbn [length].
  repeat pstep. pcall Hm. pfin.
Qed.

Theorem progress_jump_with_call hi ra s0 :
  let f := regs s0 in
  wf64 (rdx f) -> ctx_ptr_ok (mem s0) (rdx f) -> 8 <= ld64 (mem s0) (rdx f) ->
  np (length jump_with_call_fcontext) (abi_ret hi) ra jump_with_call_fcontext s0.
Proof.
  intros f W (A3 & A4 & A5 & A6) A7. subst f. destruct_state s0. unf. unfold al8 in *.
  apply al8_al in A3, A4. unfold jump_with_call_fcontext. cbn [length].
  repeat pstep. pcall Hm. pfin.
Qed.

Theorem progress_init_and_switch_with_call hi ra s0 :
  let f := regs s0 in
  save_pre_iswc s0 -> al8 (rsp f) -> al8 (r9 f) ->
  np (length init_and_switch_with_call_fcontext) (abi_ret hi) ra init_and_switch_with_call_fcontext s0.
Proof.
  intros f (P & Q) A1 A2. subst f. save_start s0 P. destruct Q as (? & ? & ?).
  unfold al8 in *. apply al8_al in A1, A2. unfold init_and_switch_with_call_fcontext. cbn [length].
  repeat pstep. pcall Hm. pfin.
Qed.

Theorem progress_init_and_jump_with_call hi ra s0 :
  let f := regs s0 in
  wf64 (r8 f) -> 16 <= r8 f ->
  np (length init_and_jump_with_call_fcontext) (abi_ret hi) ra init_and_jump_with_call_fcontext s0.
Proof.
  intros f W T. subst f. destruct_state s0. unf. unfold init_and_jump_with_call_fcontext. cbn [length].
  repeat pstep. pcall Hm. pfin.
Qed.

Theorem progress_peek ra s0 :
  let f := regs s0 in
  (forall r, wf64 (getr f r)) -> al8 (rsp f) -> 8 <= rsp f -> rsp f + 8 < B64 ->
  ctx_ptr_ok (mem s0) (rdx f) -> 8 <= ld64 (mem s0) (rdx f) -> disj (rdx f) 8 (rsp f - 8) 8 ->
  np (length peek_fcontext) (peek_callee (rsp f - 8)) ra peek_fcontext s0.
Proof.
  intros f W A1 S1 S2 (A3 & A4 & A5 & A6) A7 D. subst f. entry_start s0 W. unfold al8 in *.
  apply al8_al in A1, A3, A4. unfold peek_fcontext. cbn [length].
  repeat pstep. apply np_call; [chk_solve|]. intros sr A. unfold peek_callee in A. redst_in A.
  destruct_state sr. destruct A as (? & ? & ? & ? & ? & ? & Hm). subst. pfin.
Qed.

(* np is what it should be: no complete execution hits OStuck *)
Lemma np_sound R ra : forall n p s, (length p <= n)%nat -> np n R ra p s -> ~ stuck_exec R ra p s.
Proof.
  intros n p s L N E. revert n L N. induction E as [p s H | p s f sc k sr H A E IH]; intros n L N.
  - rewrite np_unfold, H in N. exact N.
  - rewrite np_unfold, H in N. pose proof (run_call_shorter _ _ _ _ _ _ H) as Lk.
    destruct n as [|n]; [lia|]. apply (IH n); [lia|]. apply N; assumption.
Qed.

Ltac by_np T := intros; apply (np_sound _ _ _ _ _ (le_n _)); apply T; assumption.
