(* C02 (a) — specification vocabulary for the fcontext routines: what a saved
   context is (layout of the header comment of fcontext_x86_64_sysv_elf_gas.S),
   what the SysV ABI lets a called C function do, what a complete execution of
   a routine is, and the shape of the round-trip statement.
   Definitions only; proofs are in FctxProofs.v. *)
From Coq Require Import ZArith List.
From ABT Require Import Asm.X86.
Import ListNotations.
Local Open Scope Z_scope.

Definition wf64 (v : Z) : Prop := 0 <= v < B64.
Definition wf32 (v : Z) : Prop := 0 <= v < B32.
Definition wf16 (v : Z) : Prop := 0 <= v < B16.
(* byte ranges [a,a+n) and [b,b+k) do not overlap *)
Definition disj (a n b k : Z) : Prop := a + n <= b \/ b + k <= a.

(* ---------------------------------------------------------------- the context of a ULT *)
(* What "the context survives" is about: callee-saved registers, FP control
   state, the stack pointer and the address execution continues at. *)
Record cvals := mkcv { c_rbx : Z; c_rbp : Z; c_r12 : Z; c_r13 : Z; c_r14 : Z; c_r15 : Z;
                       c_mxcsr : Z; c_cw : Z; c_rsp : Z; c_rip : Z }.

(* The context of the caller of a switch primitive, read off the state at the
   primitive's first instruction (RSP points at the return address): what the
   caller must find again when the primitive "returns". *)
Definition ctx_of (s : st) : cvals :=
  let f := regs s in
  mkcv (rbx f) (rbp f) (r12 f) (r13 f) (r14 f) (r15 f) (mxcsr s) (cw s)
       (rsp f + 8) (ld64 (mem s) (rsp f)).

(* control arrives at address t in state s with context v re-established *)
Definition restored (v : cvals) (t : Z) (s : st) : Prop :=
  let f := regs s in
  t = c_rip v /\ rsp f = c_rsp v /\
  rbx f = c_rbx v /\ rbp f = c_rbp v /\ r12 f = c_r12 v /\ r13 f = c_r13 v /\
  r14 f = c_r14 v /\ r15 f = c_r15 v /\ mxcsr s = c_mxcsr v /\ cw s = c_cw v.

(* Memory m holds the complete context v behind the pointer stored in the
   fcontext_t cell at ctx:  *ctx = sp, and at sp the 64-byte frame
     +0 MXCSR(4) +4 x87 CW(2) +8 R12 +16 R13 +24 R14 +32 R15 +40 RBX +48 RBP +56 RIP. *)
Definition saved_ctx (m : memory) (ctx : Z) (v : cvals) : Prop :=
  let sp := ld64 m ctx in
  0 <= sp /\ sp + 64 = c_rsp v /\ c_rsp v < B64 /\
  ld32 m sp = c_mxcsr v /\ ld16 m (sp + 4) = c_cw v /\
  ld64 m (sp + 8) = c_r12 v /\ ld64 m (sp + 16) = c_r13 v /\ ld64 m (sp + 24) = c_r14 v /\
  ld64 m (sp + 32) = c_r15 v /\ ld64 m (sp + 40) = c_rbx v /\ ld64 m (sp + 48) = c_rbp v /\
  ld64 m (sp + 56) = c_rip v.

(* the bytes a saved context occupies: the fcontext_t cell and the frame *)
Definition ctx_footprint (m : memory) (ctx : Z) (a : Z) : Prop :=
  ctx <= a < ctx + 8 \/ ld64 m ctx <= a < ld64 m ctx + 64.
Definition agree_on (P : Z -> Prop) (m1 m2 : memory) : Prop := forall a, P a -> m1 a = m2 a.

(* ---------------------------------------------------------------- the called C function (oracle) *)
(* sc = state at the callee's first instruction (RSP -> return address),
   sr = state right after the callee's `ret`.  SysV AMD64 ABI: RSP is back
   above the return address, rbx/rbp/r12-r15 are preserved, and the callee does
   not write the caller's part of the current stack [RSP_sc + 8, hi), hi = top
   of that stack.  Everything else — caller-saved registers, MXCSR, the x87 CW
   (the ABI would preserve the control bits; we do not rely on it), all memory
   below RSP_sc + 8 and all memory at or above hi (heap, other stacks) — is
   arbitrary.  This is a relation, not an axiom: theorems quantify over every
   sr it admits. *)
Definition abi_ret (hi : Z) (sc sr : st) : Prop :=
  let f := regs sc in let g := regs sr in
  rsp g = w64 (rsp f + 8) /\
  rbx g = rbx f /\ rbp g = rbp f /\ r12 g = r12 f /\ r13 g = r13 f /\ r14 g = r14 f /\ r15 g = r15 f /\
  (forall a, rsp f + 8 <= a -> a + 4 <= hi -> mem sr a = mem sc a).

(* p, started in s, finally leaves through `jmpq *r`/`ret` to address t in
   state s'; every `callq *r` on the way is answered by some callee allowed by
   the relation R (for the switch primitives: R = abi_ret hi, an ABI-conforming
   callee on a stack whose top is hi). *)
Inductive exits (R : st -> st -> Prop) (ra : nat -> Z) : list instr -> st -> Z -> st -> Prop :=
| exits_jmp : forall p s t s', run ra p s = OJmp t s' -> exits R ra p s t s'
| exits_call : forall p s f sc k sr t s',
    run ra p s = OCall f sc k -> R sc sr -> exits R ra k sr t s' -> exits R ra p s t s'.

(* p, started in s0, runs until control is first handed to other code (the
   next context, or a C callback); s1 is the state at that instant *)
Definition leaves (ra : nat -> Z) (p : list instr) (s0 s1 : st) : Prop :=
  (exists t, run ra p s0 = OJmp t s1) \/ (exists f k, run ra p s0 = OCall f s1 k).

(* ---------------------------------------------------------------- round trip *)
(* ULT A calls save primitive S in state s0 (pointer to its fcontext_t cell in
   register rold).  Control leaves A in s1.  Then anything may happen (other
   ULTs, schedulers, other streams, the callback itself) as long as A's frame
   and cell keep their contents: s2 is any state with that property.  Some
   context then executes restore primitive T with rnew pointing at A's cell,
   to completion.  Then A's context is back.  preS/preT: explicit side
   conditions (ranges, enough stack, disjointness of the parties' frames). *)
Definition Roundtrip (S : list instr) (rold : reg) (preS : st -> Prop)
                     (T : list instr) (rnew : reg) (preT : Z -> cvals -> Z -> st -> Prop) : Prop :=
  forall ra ra' hi s0 s1 s2 t s3,
    preS s0 ->
    leaves ra S s0 s1 ->
    agree_on (ctx_footprint (mem s1) (getr (regs s0) rold)) (mem s1) (mem s2) ->
    getr (regs s2) rnew = getr (regs s0) rold ->
    preT hi (ctx_of s0) (getr (regs s0) rold) s2 ->
    exits (abi_ret hi) ra' T s2 t s3 ->
    restored (ctx_of s0) t s3.

(* the two halves *)
Definition SaveSpec (S : list instr) (rold : reg) (preS : st -> Prop) : Prop :=
  forall ra s0 s1, preS s0 -> leaves ra S s0 s1 ->
    wf64 (getr (regs s0) rold) /\ saved_ctx (mem s1) (getr (regs s0) rold) (ctx_of s0).
Definition RestoreSpec (T : list instr) (rnew : reg) (preT : Z -> cvals -> Z -> st -> Prop) : Prop :=
  forall hi ra s2 v t s3,
    wf64 (getr (regs s2) rnew) ->
    saved_ctx (mem s2) (getr (regs s2) rnew) v ->
    preT hi v (getr (regs s2) rnew) s2 ->
    exits (abi_ret hi) ra T s2 t s3 ->
    restored v t s3.

(* ---------------------------------------------------------------- side conditions *)
(* A, about to save: register values are 64-bit, MXCSR 32-bit, CW 16-bit; 56
   bytes of stack below RSP; the return-address slot does not wrap; the
   fcontext_t cell does not overlap the frame [RSP-56, RSP+8). *)
Definition save_pre (rold : reg) (s0 : st) : Prop :=
  let f := regs s0 in
  (forall r, wf64 (getr f r)) /\ wf32 (mxcsr s0) /\ wf16 (cw s0) /\
  56 <= rsp f /\ rsp f + 8 < B64 /\
  disj (getr f rold) 8 (rsp f - 56) 64.

(* switch_with_call_fcontext(cb_arg, f_cb, p_new_ctx=RDX, p_old_ctx=RCX): the
   target's cell is another cell and lies outside A's frame, and the slot the
   callq pushes its return address into (just below the target's saved frame)
   is outside A's frame and cell — the target runs on another stack. *)
Definition save_pre_swc (s0 : st) : Prop :=
  let f := regs s0 in
  save_pre RCX s0 /\
  disj (rdx f) 8 (rsp f - 56) 64 /\ disj (rdx f) 8 (rcx f) 8 /\
  let slot := w64 (ld64 (mem s0) (rdx f) - 8) in
  disj slot 8 (rsp f - 56) 64 /\ disj slot 8 (rcx f) 8.

(* init_and_switch_with_call_fcontext(cb_arg, f_cb, p_new_ctx, f_thread,
   p_stacktop=R8, p_old_ctx=R9): the first slot of the fresh stack is outside
   A's frame and cell. *)
Definition save_pre_iswc (s0 : st) : Prop :=
  let f := regs s0 in
  save_pre R9 s0 /\ 16 <= r8 f /\
  let slot := 16 * (r8 f / 16) - 8 in
  disj slot 8 (rsp f - 56) 64 /\ disj slot 8 (r9 f) 8.

(* the restoring party C (if it saves itself first: switch_fcontext /
   switch_with_call_fcontext) has its own 56 bytes of stack and its own cell,
   both outside A's frame [sp, sp+64) and A's cell *)
Definition restorer_saves (rold : reg) (v : cvals) (ctx : Z) (s2 : st) : Prop :=
  let f := regs s2 in let sp := c_rsp v - 64 in
  wf64 (rsp f) /\ 56 <= rsp f /\ wf64 (getr f rold) /\
  disj (rsp f - 56) 56 sp 64 /\ disj (rsp f - 56) 56 ctx 8 /\
  disj (getr f rold) 8 sp 64 /\ disj (getr f rold) 8 ctx 8.
(* a callback runs on A's stack below A's frame before A is restored: there is
   room for its return address, A's cell is not there, and A's frame lies
   inside A's stack (below hi) *)
Definition restorer_calls (hi : Z) (v : cvals) (ctx : Z) : Prop :=
  let sp := c_rsp v - 64 in
  8 <= sp /\ disj (sp - 8) 8 ctx 8 /\ c_rsp v <= hi.

Definition restore_pre_jump (hi : Z) (v : cvals) (ctx : Z) (s2 : st) : Prop := True.
Definition restore_pre_switch (hi : Z) (v : cvals) (ctx : Z) (s2 : st) : Prop := restorer_saves RSI v ctx s2.
Definition restore_pre_jwc (hi : Z) (v : cvals) (ctx : Z) (s2 : st) : Prop := restorer_calls hi v ctx.
Definition restore_pre_swc (hi : Z) (v : cvals) (ctx : Z) (s2 : st) : Prop :=
  restorer_saves RCX v ctx s2 /\ restorer_calls hi v ctx.

(* ---------------------------------------------------------------- first hand-over *)
(* lv ra p s QJ QC: if p, started in s, hands control over (does not get
   stuck), then either it jumped to t in state s1 with QJ t s1, or it is
   entering callee f in state s1 (return address pushed) with continuation k
   and QC f s1 k.  (QJ := False says "can only leave through a call", etc.) *)
Definition lv (ra : nat -> Z) (p : list instr) (s : st)
              (QJ : Z -> st -> Prop) (QC : Z -> st -> list instr -> Prop) : Prop :=
  match run ra p s with OStuck => True | OJmp t s1 => QJ t s1 | OCall f s1 k => QC f s1 k end.


(* ---------------------------------------------------------------- entry conditions *)
(* SysV AMD64 ABI 3.2.2: "the value (%rsp + 8) is always a multiple of 16 when
   control is transferred to the function entry point" *)
Definition abi_entry_rsp (top : Z) (s : st) : Prop :=
  rsp (regs s) mod 16 = 8 /\ top - 24 < rsp (regs s) <= top - 8.

(* what must hold when f_thread is finally entered after the callback returned *)
Definition then_thread (hi : Z) (ra : nat -> Z) (sc : st) (k : list instr) (Q : Z -> st -> Prop) : Prop :=
  forall sr t s1, abi_ret hi sc sr -> exits (abi_ret hi) ra k sr t s1 -> Q t s1.


(* ---------------------------------------------------------------- peek *)
(* the callee of peek_fcontext: see FctxProofs.peek_returns *)
Definition peek_callee (slot : Z) (sc sr : st) : Prop :=
  r12 (regs sr) = r12 (regs sc) /\ rbx (regs sr) = rbx (regs sc) /\ rbp (regs sr) = rbp (regs sc) /\
  r13 (regs sr) = r13 (regs sc) /\ r14 (regs sr) = r14 (regs sc) /\ r15 (regs sr) = r15 (regs sc) /\
  (forall a, slot <= a -> a + 4 <= slot + 16 -> mem sr a = mem sc a).

(* ---------------------------------------------------------------- progress *)
(* The round-trip / entry theorems are statements about executions that do not
   get STUCK (an access at an address that is not a multiple of 4 is outside
   the 4-byte-cell memory model).  stuck_exec R ra p s: some complete execution
   of p from s, callees taken from R, reaches OStuck (or runs off the end of
   the routine).  The C02_progress theorems say this cannot happen when stack
   pointers and context pointers are 8-byte aligned. *)
Inductive stuck_exec (R : st -> st -> Prop) (ra : nat -> Z) : list instr -> st -> Prop :=
| stuck_here : forall p s, run ra p s = OStuck -> stuck_exec R ra p s
| stuck_later : forall p s f sc k sr, run ra p s = OCall f sc k -> R sc sr -> stuck_exec R ra k sr -> stuck_exec R ra p s.

(* the same as a predicate computed along `run` (used by the proofs) *)
Fixpoint np (n : nat) (R : st -> st -> Prop) (ra : nat -> Z) (p : list instr) (s : st) : Prop :=
  match run ra p s with
  | OStuck => False
  | OJmp _ _ => True
  | OCall _ sc k => match n with O => True | S n' => forall sr, R sc sr -> np n' R ra k sr end
  end.

Definition al8 (x : Z) : Prop := x mod 8 = 0.

(* a well-formed suspended context behind cell c in memory m: the pointer is an
   8-aligned address with the 64-byte frame below 2^64 *)
Definition ctx_ptr_ok (m : memory) (c : Z) : Prop :=
  al8 c /\ al8 (ld64 m c) /\ 0 <= ld64 m c /\ ld64 m c + 64 < B64.
