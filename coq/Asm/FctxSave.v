(* C02 (a) — the four save halves (re-checked against the regenerated FctxGen.v) *)
From Coq Require Import ZArith List Lia.
From ABT Require Import Asm.X86 Asm.FctxSpec Asm.FctxGen Asm.FctxBase.
Import ListNotations.
Local Open Scope Z_scope.
Ltac Zify.zify_post_hook ::= Z.div_mod_to_equations.

(* ---------------------------------------------------------------- save halves *)
(* Each save primitive, at the instant control first leaves the caller (jump
   into the next context, or entry of the C callback), has stored the caller's
   complete context behind *p_old_ctx.  The _with_call variants can only leave
   through the callq (C02_save_before_callback), the plain ones only through
   the jmpq. *)
Ltac save_start s0 P :=
  destruct_state s0;
  let W := fresh "W" in
  destruct P as (W & ? & ? & ? & ? & ?);
  pose proof (W RAX); pose proof (W RBX); pose proof (W RCX); pose proof (W RDX);
  pose proof (W RSI); pose proof (W RDI); pose proof (W RBP); pose proof (W RSP);
  pose proof (W R8); pose proof (W R9); pose proof (W R10); pose proof (W R11);
  pose proof (W R12); pose proof (W R13); pose proof (W R14); pose proof (W R15);
  clear W; cv; unf.
Ltac save_finish :=
  unfold saved_ctx, ctx_of; cv; rd; unfold B64; split_all; try reflexivity; try lia; f_equal; lia.

Lemma save_switch_core ra s0 : save_pre RSI s0 ->
  lv ra switch_fcontext s0
     (fun _ s1 => saved_ctx (mem s1) (rsi (regs s0)) (ctx_of s0)) (fun _ _ _ => False).
Proof.
  intros P. save_start s0 P. unfold switch_fcontext.
  repeat first [lro | lstep]. save_finish.
Qed.

Lemma save_init_and_switch_core ra s0 : save_pre RCX s0 ->
  lv ra init_and_switch_fcontext s0
     (fun _ s1 => saved_ctx (mem s1) (rcx (regs s0)) (ctx_of s0)) (fun _ _ _ => False).
Proof.
  intros P. save_start s0 P. unfold init_and_switch_fcontext.
  repeat first [lro | lstep]. save_finish.
Qed.

Lemma save_swc_core ra s0 : save_pre_swc s0 ->
  lv ra switch_with_call_fcontext s0 (fun _ _ => False)
     (fun f sc _ => f = rsi (regs s0) /\ rdi (regs sc) = rdi (regs s0) /\
                    saved_ctx (mem sc) (rcx (regs s0)) (ctx_of s0)).
Proof.
  intros (P & Q). save_start s0 P. destruct Q as (? & ? & ? & ?).
  unfold switch_with_call_fcontext.
  repeat lstep. apply lv_call. redst. rd. norm1. split; [reflexivity|]. split; [reflexivity|].
  save_finish.
Qed.

Lemma save_iswc_core ra s0 : save_pre_iswc s0 ->
  lv ra init_and_switch_with_call_fcontext s0 (fun _ _ => False)
     (fun f sc _ => f = rsi (regs s0) /\ rdi (regs sc) = rdi (regs s0) /\
                    saved_ctx (mem sc) (r9 (regs s0)) (ctx_of s0)).
Proof.
  intros (P & Q). save_start s0 P. destruct Q as (? & ? & ?).
  unfold init_and_switch_with_call_fcontext.
  repeat lstep. apply lv_call. redst. rd. norm1. split; [reflexivity|]. split; [reflexivity|].
  save_finish.
Qed.

Ltac save_spec core :=
  intros ra s0 s1 P L; split;
  [ first [exact (proj1 P _) | exact (proj1 (proj1 P) _)]
  | match goal with |- saved_ctx (mem s1) ?c ?v =>
      refine (leaves_lv ra _ s0 s1 (fun s => saved_ctx (mem s) c v) L _) end;
    eapply lv_weaken; [| |apply core; exact P];
    cbn beta; intros; tauto ].

Theorem save_switch : SaveSpec switch_fcontext RSI (save_pre RSI).
Proof. save_spec save_switch_core. Qed.
Theorem save_init_and_switch : SaveSpec init_and_switch_fcontext RCX (save_pre RCX).
Proof. save_spec save_init_and_switch_core. Qed.
Theorem save_switch_with_call : SaveSpec switch_with_call_fcontext RCX save_pre_swc.
Proof. save_spec save_swc_core. Qed.
Theorem save_init_and_switch_with_call : SaveSpec init_and_switch_with_call_fcontext R9 save_pre_iswc.
Proof. save_spec save_iswc_core. Qed.

