(* Extraction of the executable C17 models (no proofs are imported here, so the
   correspondence check still runs when a proof is broken). *)
From Coq Require Import List ZArith Bool.
From Coq Require Import ExtrOcamlBasic.
From ABT Require Import DS.RankList Conc.XstreamCtx.
Extraction Language OCaml.
Extraction "../ocaml/extracted/c17.ml"
  Z.add Z.mul Z.opp Z.sub Z.div Z.modulo Z.eqb Z.ltb Z.leb Z.of_nat Z.to_nat Z.compare
  rl_empty x_run api_init api_step api_trace dump live
  finit fstep replay final.
