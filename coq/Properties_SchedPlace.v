(* Scheduler LTS (Conc/Sched.v), placement: every work unit is in exactly one
   place; none is lost or duplicated (C01 / C07 / C13).  Only statements here;
   model: Conc/Sched.v; invariant and proofs: Conc/SchedPlace.v (InvPlace holds in
   every reachable state: a unit is in the queue of pool p iff its state is UQueued
   and p is its associated pool; queues are duplicate-free). *)
From Coq Require Import List Arith ZArith Bool.
From ABT Require Import Conc.Sched Conc.SchedDefs Conc.SchedPlace.
Import ListNotations.

(* the invariant itself, for every run (any number of units / pools, any interleaving) *)
Theorem SchedPlace_invariant : forall s, reachable s ->
  (forall p u, inb u (q (po s p)) = is_queued (ust (un s u)) && Nat.eqb (upool (un s u)) p) /\
  (forall p, NoDup (q (po s p))).
Proof. intros s R. destruct (inv_reachable s R) as [A B]. exact (conj A B). Qed.
Print Assumptions SchedPlace_invariant.

(* a queued unit is in the queue of its pool and in no other queue *)
Theorem C01_never_lost_queued : forall s u, reachable s -> ust (un s u) = UQueued ->
  In u (q (po s (upool (un s u)))) /\ forall p, p <> upool (un s u) -> ~ In u (q (po s p)).
Proof. exact SchedPlace.C01_never_lost_queued. Qed.
Print Assumptions C01_never_lost_queued.

(* a unit in any other state (created, popped, running, in a callback, blocked, resuming,
   terminated, ...) is in no queue *)
Theorem C01_not_queued_elsewhere : forall s u, reachable s -> ust (un s u) <> UQueued ->
  forall p, ~ In u (q (po s p)).
Proof. exact SchedPlace.C01_not_queued_elsewhere. Qed.
Print Assumptions C01_not_queued_elsewhere.

(* no queue holds a unit twice *)
Theorem C01_queues_nodup : forall s p, reachable s -> NoDup (q (po s p)).
Proof. exact SchedPlace.C01_queues_nodup. Qed.
Print Assumptions C01_queues_nodup.

(* a popped / removed unit is in no pool afterwards: it cannot be popped twice *)
Theorem C01_pop_exactly_once : forall s p u tail s', reachable s -> step s (EPop p (Some u) tail) = Some s' ->
  ust (un s' u) = UPopped /\ (forall p', ~ In u (q (po s' p'))).
Proof. exact SchedPlace.C01_pop_exactly_once. Qed.
Print Assumptions C01_pop_exactly_once.

Theorem C01_remove_exactly_once : forall s p u s', reachable s -> step s (ERemove p u) = Some s' ->
  ust (un s' u) = UPopped /\ (forall p', ~ In u (q (po s' p'))).
Proof. exact SchedPlace.C01_remove_exactly_once. Qed.
Print Assumptions C01_remove_exactly_once.

(* pop takes the head (resp. the tail) and removes exactly that occurrence *)
Theorem C07_pop_order : forall s p u s', reachable s -> step s (EPop p (Some u) false) = Some s' ->
  exists rest, q (po s p) = u :: rest /\ q (po s' p) = rest.
Proof. exact SchedPlace.C07_pop_order. Qed.
Print Assumptions C07_pop_order.

Theorem C07_pop_order_tail : forall s p u s', reachable s -> step s (EPop p (Some u) true) = Some s' ->
  exists rest, q (po s p) = rest ++ [u] /\ q (po s' p) = rest.
Proof. exact SchedPlace.C07_pop_order_tail. Qed.
Print Assumptions C07_pop_order_tail.

Theorem C07_pop_none_means_empty : forall s p tail s', step s (EPop p None tail) = Some s' ->
  q (po s p) = [] /\ s' = s.
Proof. exact SchedPlace.C07_pop_none_means_empty. Qed.
Print Assumptions C07_pop_none_means_empty.

(* a unit is only ever pushed to its associated pool *)
Theorem C13_push_goes_to_associated_pool : forall s p u tail s', step s (EPush p u tail) = Some s' ->
  p = upool (un s u) /\ In u (q (po s' p)).
Proof. exact SchedPlace.C13_push_goes_to_associated_pool. Qed.
Print Assumptions C13_push_goes_to_associated_pool.

(* ... it was in no queue before the push and is afterwards queued in that pool only *)
Theorem C13_push_from_nowhere : forall s p u tail s', reachable s -> step s (EPush p u tail) = Some s' ->
  (forall p', ~ In u (q (po s p'))) /\ ust (un s' u) = UQueued /\ upool (un s' u) = p /\
  forall p', p' <> p -> ~ In u (q (po s' p')).
Proof. exact SchedPlace.C13_push_from_nowhere. Qed.
Print Assumptions C13_push_from_nowhere.

(* the pool of a queued unit cannot change: no migration is in progress on it (ESetPool is
   otherwise enabled in any state once the migration target has been loaded) *)
Theorem C13_queued_not_migrating : forall s u, reachable s -> ust (un s u) = UQueued -> migs (un s u) = 0.
Proof. exact SchedPlace.queued_not_migrating. Qed.
Print Assumptions C13_queued_not_migrating.

(* ---------------------------------------------------------------- non-vacuity *)
(* units 1, 2 (pool 0) and 3 (pool 1) are created and pushed; 1 is popped, run, yields and is
   pushed back to the tail of its pool *)
Definition tr_a : list ev :=
  [EInit 1 0 true false; EPush 0 1 true; EInit 2 0 true false; EPush 0 2 true;
   EInit 3 1 true false; EPush 1 3 false].
Definition tr_b : list ev :=
  tr_a ++ [EPop 0 (Some 1) false; EReqLoad 1 1 false false false; EState 1 1; EStart 1;
           ECb 1 KYield None; EReqLoad 1 1 false false false; EState 1 0].

(* hypotheses of C01_never_lost_queued / C07_pop_order / C07_pop_order_tail / C01_remove_exactly_once *)
Example ex_queued_and_pops : exists s, reachable s /\
  q (po s 0) = [1; 2] /\ q (po s 1) = [3] /\ ust (un s 2) = UQueued /\
  (exists s', step s (EPop 0 (Some 1) false) = Some s' /\ q (po s' 0) = [2]) /\
  (exists s', step s (EPop 0 (Some 2) true) = Some s' /\ q (po s' 0) = [1]) /\
  (exists s', step s (ERemove 0 2) = Some s' /\ q (po s' 0) = [1]) /\
  step s (EPop 0 (Some 2) false) = None /\ step s (EPop 1 (Some 2) false) = None.
Proof.
  eexists. split; [exists tr_a; vm_compute; reflexivity|].
  repeat split; try (eexists; split); vm_compute; reflexivity.
Qed.

(* hypotheses of C01_not_queued_elsewhere and of the push theorems: unit 1 is in the yield
   callback (context saved, READY stored), in no queue, and its push to pool 0 is enabled while
   a push to any other pool is not *)
Example ex_not_queued_and_push : exists s, reachable s /\
  ust (un s 1) = UCbS KYield 2 /\ q (po s 0) = [2] /\
  (exists s', step s (EPush 0 1 true) = Some s' /\ q (po s' 0) = [2; 1] /\ ust (un s' 1) = UQueued) /\
  step s (EPush 1 1 true) = None /\
  step s (EPop 0 (Some 1) false) = None.
Proof.
  eexists. split; [exists tr_b; vm_compute; reflexivity|].
  repeat split; try (eexists; split; [|split]); vm_compute; reflexivity.
Qed.

(* hypothesis of C07_pop_none_means_empty *)
Example ex_pop_none : step init (EPop 0 None false) = Some init /\
  (exists s, reachable s /\ step s (EPop 0 None false) = None).
Proof.
  split; [reflexivity|]. eexists. split; [exists tr_a; vm_compute; reflexivity|]. vm_compute. reflexivity.
Qed.
