(* Extraction of the executable C16 models (no proofs are imported here, so the
   correspondence check still runs when a proof is broken). *)
From Coq Require Import List ZArith Bool.
From Coq Require Import ExtrOcamlBasic.
From ABT Require Import DS.Ktable Conc.KtableConc.
Extraction Language OCaml.
Extraction "../ocaml/extracted/c16.ml"
  Z.add Z.mul Z.opp Z.sub Z.div Z.modulo Z.eqb Z.ltb Z.leb Z.of_nat Z.to_nat Z.compare Z.land
  cfg64 ledger0 world0 wstep wrun env_key_table_size
  ktable_set_unsafe ktable_set ktable_get ktable_alloc_elem ktable_free find_unit
  ktable_bytes ktelem_bytes KEY_ID_END get_idx
  KtableConc.step KtableConc.init KtableConc.view.
