(* C19 — Timed waits respect their deadline and never damage the waiter queue;
   blocking pool pops lose nothing and return once their deadline has passed.
   Only statements here; models: DS/Waitlist.v, Conc/PopWait.v; proofs:
   DS/WaitlistProofs.v, Conc/PopWaitProofs.v. *)
From Coq Require Import List ZArith Bool Arith.
From ABT Require Import DS.Waitlist DS.WaitlistProofs Conc.PopWait Conc.PopWaitProofs Conc.PopWaitOrder.
Import ListNotations.
Local Open Scope Z_scope.

(* ---------------------------------------------------------------------- *)
(* What "the structure represents the list l" (Rep) means, spelled out:
   no node twice; p_head = first; p_tail = last or NULL; following p_next from
   p_head visits exactly l; KEY INVARIANT: every queued timed node that is not
   the head has p_prev = its actual predecessor (p_prev of untimed nodes and of
   the head is unconstrained garbage); queued nodes are not READY. *)
Theorem C19_waitlist_structure : forall s l, Rep s l ->
  NoDup l /\
  head s = hd_error l /\
  tail s = last_opt l /\
  wl_walk (length l) (next s) (head s) = l /\
  (forall l1 a b l2, l = l1 ++ a :: b :: l2 -> timed s b = true -> prev s b = Some a) /\
  (forall x, In x l -> ready s x = false).
Proof. exact Rep_explicit. Qed.
Print Assumptions C19_waitlist_structure.

(* For EVERY sequence of actions — any number of waiters, timed and untimed
   (ULT descriptor or dummy node) in any positions, enqueues interleaved in any
   way with signals, broadcasts, clock ticks, polls, locked timeout tests and
   re-waits on the same node address, starting from arbitrary garbage in the
   node fields — the pointer-level model of abti_waitlist.h
     * never dereferences NULL, never fails one of the ABTI_ASSERTs, and the
       broadcast loop terminates (no RunFault / RunOutOfFuel);
     * represents exactly the abstract queue [spec_run acts], where an enqueue
       appends, a signal removes exactly the head, a broadcast empties, and the
       locked timeout test of w removes exactly w wherever it stands (head,
       middle, tail) and nothing if w was already woken ([spec_step]);
     * outputs (the node woken by each signal, the nodes woken by each
       broadcast in order, the return code of every wait) equal those computed
       from the abstract queue alone ([spec_outs]).
   (RunDisabled = the sequence is not a behaviour of any client, e.g. a thread
   waiting twice at once or a clock running backwards.) *)
Theorem C19_waitlist_refines : forall nx pv tm ex rd t0 d0 acts,
  match run (sys_init nx pv tm ex rd t0 d0) acts with
  | RunOk s outs => Rep (sw s) (spec_run acts) /\ outs = spec_outs [] acts
  | RunDisabled => True
  | RunFault | RunOutOfFuel => False
  end.
Proof. exact waitlist_refines. Qed.
Print Assumptions C19_waitlist_refines.

Theorem C19_timeout_removes_anywhere : forall (x : nat) l1 l2, NoDup (l1 ++ x :: l2) ->
  remove Nat.eq_dec x (l1 ++ x :: l2) = l1 ++ l2.
Proof. exact remove_anywhere. Qed.
Print Assumptions C19_timeout_removes_anywhere.

(* Verdict of ABT_cond_timedwait, in every reachable state s (reached by acts):
   (1) the locked test at `timeout:` is enabled only with now >= deadline; it
       reports TIMEDOUT iff the node is not READY, and then the node is queued,
       is unlinked (the rest of the queue is intact) and no wake-up is
       consumed; otherwise it reports SUCCESS, the node is already out of the
       queue and the waiter holds exactly one unconsumed wake-up;
   (2) `timeout:` is reached only after the deadline; a waiter that returned
       TIMEDOUT is not in the queue, hence no later signal can choose it;
   (3) queued = inside a wait and not yet woken;
   (4) wake-ups of x = SUCCESS returns of x, +1 exactly when x is inside a wait
       and READY: each SUCCESS consumed exactly one signal, TIMEDOUT none. *)
Theorem C19_timeout_verdict : forall s acts x, reachable s acts ->
  let l := spec_run acts in
  (forall s' o, step s (ALockedTest x) = Next s' o ->
     dl s x <= now s /\
     ((ready (sw s) x = false /\ In x l /\ o = ORet x TIMEDOUT /\
       Rep (sw s') (remove Nat.eq_dec x l) /\ wakes s' = wakes s /\
       nwake (wakes s) x = nret SUCCESS (rets s) x)
      \/
      (ready (sw s) x = true /\ ~ In x l /\ o = ORet x SUCCESS /\ sw s' = sw s /\
       nwake (wakes s) x = S (nret SUCCESS (rets s) x)))) /\
  (pc s x = PastT -> dl s x <= now s) /\
  (pc s x = Ret TIMEDOUT -> dl s x <= now s /\ ~ In x l) /\
  (In x l <-> waiting (pc s x) = true /\ ready (sw s) x = false) /\
  nwake (wakes s) x = (nret SUCCESS (rets s) x + credit s x)%nat.
Proof. exact timeout_verdict. Qed.
Print Assumptions C19_timeout_verdict.

(* non-vacuity: 5 waiters (U = untimed, T = timed): U0 T1 T2 U3 T4; T2 times out
   in the middle (its successor U3 is untimed and gets its p_prev repaired),
   a signal takes the head U0, T4 times out at the tail, T1 (now the head, with
   a stale p_prev) is signalled between its clock read and its locked test and
   reports SUCCESS, the broadcast wakes U3. *)
Example C19_waitlist_example :
  let g := fun _ : nat => Some 999%nat in
  match run (sys_init g g (fun _ => true) (fun _ => false) (fun _ => true) 1000 (fun _ => 0))
            [AStartU 0 false; AStartT 1 1100; AStartT 2 1050; AStartU 3 true; AStartT 4 1070;
             ATick 60; APollTime 2; ALockedTest 2; ASignal; ATick 20; APollTime 4; ALockedTest 4;
             ATick 30; APollTime 1; ASignal; ALockedTest 1; AWakeU 0; ABroadcast; AWakeU 3;
             ARestart 2; AStartT 2 1200] with
  | RunOk s outs =>
    outs = [ONone; ONone; ONone; ONone; ONone; ONone; ONone; ORet 2 TIMEDOUT; OWoken (Some 0%nat);
            ONone; ONone; ORet 4 TIMEDOUT; ONone; ONone; OWoken (Some 1%nat); ORet 1 SUCCESS;
            ORet 0 SUCCESS; OWokenAll [3%nat]; ORet 3 SUCCESS; ONone; ONone] /\
    wl_walk 9 (next (sw s)) (head (sw s)) = [2%nat] /\ tail (sw s) = Some 2%nat /\
    now s = 1110
  | _ => False
  end.
Proof. vm_compute. repeat split; reflexivity. Qed.

(* ---------------------------------------------------------------------- *)
(* Blocking pops (fifo.c, randws.c, fifo_wait.c), any interleaving of the
   waiter's steps with pushers, other consumers and clock ticks. *)

(* No loss / no duplication: every unit in the pool at the call or pushed
   during it is in exactly one place — still in the pool, returned by this pop,
   or taken by another consumer — and nothing else is anywhere. *)
Theorem C19_popwait_no_loss : forall c p0 t0 acts s, NoDup p0 ->
  pw_run c (pw_init c p0 t0) acts = Some s ->
  NoDup (pushed s) /\
  (forall u, In u p0 -> In u (pushed s)) /\
  (forall u, In u (pushed s) ->
     (In u (pool s) /\ ~ In u (others s) /\ pw_result s <> Some (Some u)) \/
     (~ In u (pool s) /\ In u (others s) /\ pw_result s <> Some (Some u)) \/
     (~ In u (pool s) /\ ~ In u (others s) /\ pw_result s = Some (Some u))) /\
  (forall u, ~ In u (pushed s) ->
     ~ In u (pool s) /\ ~ In u (others s) /\ pw_result s <> Some (Some u)) /\
  NoDup (pool s).
Proof. exact popwait_no_loss. Qed.
Print Assumptions C19_popwait_no_loss.

(* Once the deadline has passed as far as the loop can see ([overdue]:
   pop_wait: time_start read and now - time_start > time_secs; pop_timedwait:
   now > abstime) the waiter has returned after at most 4 more of its own
   steps (one loop iteration), whatever the environment does.  PARTIAL with
   respect to the property text: that each step (nanosleep(100ns), the spinlock,
   pthread_cond_timedwait in fifo_wait.c) takes bounded REAL time is outside
   the model. *)
Theorem C19_popwait_returns : forall c p0 t0 acts1 s acts2 s', NoDup p0 ->
  pw_run c (pw_init c p0 t0) acts1 = Some s -> overdue c s ->
  pw_run c s acts2 = Some s' -> (4 <= pw_count_w acts2)%nat ->
  exists r, pw_result s' = Some r.
Proof. exact popwait_returns. Qed.
Print Assumptions C19_popwait_returns.

(* ... and it does not return empty-handed before that (fifo.c / randws.c). *)
Theorem C19_popwait_not_early : forall c p0 t0 acts s, NoDup p0 ->
  pw_run c (pw_init c p0 t0) acts = Some s -> pw_result s = Some None -> overdue c s.
Proof. exact popwait_not_early. Qed.
Print Assumptions C19_popwait_not_early.

(* The waiter itself is never stuck. *)
Theorem C19_popwait_progress : forall c p0 t0 acts s, NoDup p0 ->
  pw_run c (pw_init c p0 t0) acts = Some s -> pw_result s = None ->
  exists s', wstep c s = Some s'.
Proof. exact popwait_progress. Qed.
Print Assumptions C19_popwait_progress.

(* FIFO order of a blocking pop that takes the head (fifo.c and fifo_wait.c
   always; randws.c pool_pop_timedwait; randws.c pool_pop_wait without
   POOL_CONTEXT_POP_TAIL — [head_cfg]): the unit it returns is the oldest one
   nobody else has taken — every unit pushed before it went to another consumer
   and none of them is still in the pool.  (The fast path popping something
   other than the head, or a unit being overtaken while the waiter sleeps,
   would contradict this.) *)
Theorem C19_popwait_fifo_order : forall c p0 t0 acts s u, NoDup p0 -> head_cfg c ->
  pw_run c (pw_init c p0 t0) acts = Some s -> pw_result s = Some (Some u) ->
  exists pre post, pushed s = pre ++ u :: post /\
    (forall v, In v pre -> In v (others s) /\ ~ In v (pool s)).
Proof. exact popwait_fifo_order. Qed.
Print Assumptions C19_popwait_fifo_order.

(* An empty-handed return rests on an observation: at some instant during the
   call the pool WAS empty (all three variants, either end). *)
Theorem C19_popwait_null_saw_empty : forall c p0 t0 acts s,
  pw_run c (pw_init c p0 t0) acts = Some s -> pw_result s = Some None ->
  exists a1 a2 s1, acts = a1 ++ a2 /\ pw_run c (pw_init c p0 t0) a1 = Some s1 /\ pool s1 = [].
Proof. exact popwait_null_saw_empty. Qed.
Print Assumptions C19_popwait_null_saw_empty.

(* Hence a blocking pop on a non-empty pool that no other consumer drains never
   comes back with ABT_THREAD_NULL / ABT_UNIT_NULL, however short (or long
   past) its deadline is and however the pushers and the clock interleave. *)
Theorem C19_popwait_nonempty_never_null : forall c p0 t0 acts s, p0 <> [] -> no_other_pop acts ->
  pw_run c (pw_init c p0 t0) acts = Some s -> pw_result s <> Some None.
Proof. exact popwait_nonempty_never_null. Qed.
Print Assumptions C19_popwait_nonempty_never_null.

(* non-vacuity of the three: timedwait(abstime 5, long past at time 1000) on
   [1;2;3]: another consumer takes 1, the waiter returns 2 — behind 1 in the
   push order, 1 is with the other consumer; an empty-handed return after the
   other consumer drained the pool has the empty instant in its history. *)
Example C19_popwait_order_example :
  let c := mkcfg VTimedWait false 5 in
  head_cfg c /\
  (match pw_run c (pw_init c [1;2;3]%nat 1000) [PW_W; PW_OtherPop; PW_Push 4; PW_W] with
   | Some s => pw_result s = Some (Some 2%nat) /\ pushed s = [1;2;3;4]%nat /\
               others s = [1%nat] /\ pool s = [3;4]%nat
   | None => False end) /\
  (match pw_run c (pw_init c [1%nat] 1000) [PW_W; PW_OtherPop; PW_W; PW_W; PW_W] with
   | Some s => pw_result s = Some None /\ pool s = []
   | None => False end) /\
  (match pw_run c (pw_init c [1%nat] 1000) [PW_Tick 7; PW_W; PW_Push 2; PW_W] with
   | Some s => pw_result s = Some (Some 1%nat) /\ no_other_pop [PW_Tick 7; PW_W; PW_Push 2; PW_W]
   | None => False end).
Proof. vm_compute. repeat split; try reflexivity; try (left; discriminate). Qed.

(* non-vacuity: pop_wait(5) on an empty FIFO at time 1000; a unit is pushed
   while it sleeps and is returned; with no push it returns NULL once
   now - time_start > 5, within 4 steps of becoming overdue. *)
Example C19_popwait_example :
  let c := mkcfg VPopWait false 5 in
  (match pw_run c (pw_init c [] 1000) [PW_W; PW_W; PW_W; PW_Push 7; PW_Tick 100; PW_W; PW_W] with
   | Some s => pw_result s = Some (Some 7%nat) /\ pool s = []
   | None => False end) /\
  (match pw_run c (pw_init c [] 1000) [PW_W; PW_W; PW_W; PW_Tick 6] with
   | Some s => overdue c s /\ pw_result s = None /\
               match pw_run c s [PW_Push 8; PW_W; PW_W] with
               | Some s' => pw_result s' = Some (Some 8%nat)
               | None => False end /\
               match pw_run c s [PW_W; PW_W] with
               | Some s' => pw_result s' = Some None
               | None => False end
   | None => False end).
Proof. vm_compute. repeat split; try reflexivity; discriminate. Qed.
