(* C13 — the migration request protocol of one unit with the re-check of
   /repo 5ac8a26 (Conc/MigReq.v): statements only. *)
From Coq Require Import List Arith Bool.
From ABT Require Import Conc.MigReq.
Import ListNotations.

(* "Every acknowledged request is performed or superseded by a later performed
   one": for ANY number of requesters and ANY interleaving of their two steps
   (store the target, set the request bit) with the handler's five (load, move,
   clear, re-load, re-set), whenever nothing is in flight — no requester between
   its two steps, the handler not running, the request bit clear — the unit is in
   the pool named by the most recent request.  (If the bit is set instead, a
   handler run is enabled: C13_handler_enabled.) *)
Theorem C13_no_lost_request : forall p0 acts s,
  mrun true (minit p0) acts = Some s -> quiescent s ->
  match stored s with
  | [] => cur s = p0 /\ moves s = []
  | t :: _ => cur s = t
  end.
Proof. exact migreq_no_lost_request. Qed.
Print Assumptions C13_no_lost_request.

(* a set bit can always be handled and a started handler can always finish *)
Theorem C13_handler_enabled : forall p0 acts s, mrun true (minit p0) acts = Some s ->
  (hp s = HIdle -> bit s = true -> exists s', mstep true s HLoad = Some s') /\
  (forall p, hp s = HLoaded p -> exists s', mstep true s HMove = Some s') /\
  (forall p, hp s = HMoved p -> exists s', mstep true s HClear = Some s') /\
  (forall p, hp s = HCleared p -> exists s', mstep true s HReLoad = Some s') /\
  (forall p q, hp s = HChk p q -> exists s', mstep true s HReSet = Some s').
Proof. exact migreq_handler_enabled. Qed.
Print Assumptions C13_handler_enabled.

(* the unit only ever goes where a request asked it to go, and it is where the
   handler last put it *)
Theorem C13_moves_requested : forall p0 acts s, mrun true (minit p0) acts = Some s ->
  (forall p, In p (moves s) -> In p (stored s)) /\
  (moves s = [] \/ exists r, moves s = cur s :: r).
Proof. exact migreq_moves_requested. Qed.
Print Assumptions C13_moves_requested.

(* the handler WITHOUT the re-check (before 5ac8a26) loses the second request of
   finding F6: quiescent, last request names pool 2, the unit sits in pool 1 *)
Theorem C13_no_recheck_refuted :
  exists s, mrun false (minit 0) f6_acts = Some s /\ quiescent s /\
            stored s = [2; 1] /\ cur s = 1.
Proof. exact migreq_no_recheck_refuted. Qed.
Print Assumptions C13_no_recheck_refuted.

(* non-vacuity: the F6 schedule with the re-check re-arms the bit; one more
   handler run ends quiescent in pool 2 *)
Example C13_recheck_example :
  match mrun true (minit 0) (f6_acts ++ [HReLoad; HReSet]) with
  | Some s => bit s = true /\ hp s = HIdle /\ cur s = 1 /\
              match mrun true s [HLoad; HMove; HClear; HReLoad; HReSet] with
              | Some s' => quiescent s' /\ cur s' = 2 /\ moves s' = [2; 1]
              | None => False end
  | None => False end.
Proof. exact migreq_recheck_example. Qed.
