(* Extraction of the executable C18 model (no proofs are imported here, so the
   correspondence check still runs when a proof is broken). *)
From Coq Require Import List String ZArith Bool.
From Coq Require Import ExtrOcamlBasic.
From ABT Require Import Fault.Ladder Fault.Routines.
Extraction Language OCaml.
Extraction "../ocaml/extracted/c18.ml"
  Z.add Z.mul Z.opp Z.sub Z.div Z.modulo Z.eqb Z.ltb Z.leb Z.of_nat Z.to_nat Z.compare
  scenarios refuted_scenarios fixed_scenarios find_scen run_case n_ops wf all_wf.
