(* Scheduler LTS (Conc/Sched.v), accounting of the per-pool count of blocked units
   (num_blocked: C06 "the per-pool count of blocked units is never negative and is
   zero whenever no unit is blocked"; C11 suspend / resume accounting; C13).  Only
   statements here; model: Conc/Sched.v; invariant and proofs: Conc/SchedCount.v.

   [nb (po s p)] is the C counter of pool p; [cu (po s p)] is the ghost multiset of
   the units counted in it (one entry per outstanding increment); [cnt (un s u)] is
   the ghost multiset of the pools that count unit u; [must_count x] holds in the
   structural states in which a unit is blocked, about to be published as blocked,
   or made READY by a resumer but not yet pushed back. *)
From Coq Require Import List Arith ZArith Bool.
From ABT Require Import Conc.Sched Conc.SchedDefs Conc.SchedCount.
Import ListNotations.

(* the invariant, for every run (any number of units / pools / streams, any interleaving) *)
Theorem SchedCount_invariant : forall s, reachable s ->
  (forall p, nb (po s p) = Z.of_nat (length (cu (po s p)))) /\
  (forall p u, count_occ Nat.eq_dec (cu (po s p)) u = count_occ Nat.eq_dec (cnt (un s u)) p) /\
  (forall u, must_count (ust (un s u)) = true -> In (upool (un s u)) (cnt (un s u))) /\
  (forall u, ust (un s u) = UNone -> cnt (un s u) = []) /\
  (forall u, migs (un s u) <> 0 -> must_count (ust (un s u)) = false).
Proof. intros s R. destruct (inv_reachable s R) as [A B C D E]. exact (conj A (conj B (conj C (conj D E)))). Qed.
Print Assumptions SchedCount_invariant.

(* num_blocked is never negative *)
Theorem C06_count_nonneg : forall s p, reachable s -> (0 <= nb (po s p))%Z.
Proof. exact SchedCount.C06_count_nonneg. Qed.
Print Assumptions C06_count_nonneg.

(* a pool with a blocked unit never shows num_blocked = 0 *)
Theorem C06_blocked_is_counted : forall s u, reachable s -> ust (un s u) = UBlocked ->
  In u (cu (po s (upool (un s u)))) /\ (1 <= nb (po s (upool (un s u))))%Z.
Proof. exact SchedCount.C06_blocked_is_counted. Qed.
Print Assumptions C06_blocked_is_counted.

(* num_blocked = 0: no unit of the pool is blocked, about to be published as blocked, or
   resumed and not yet pushed back *)
Theorem C06_zero_means_none_blocked : forall s p, reachable s -> nb (po s p) = 0%Z ->
  forall u, upool (un s u) = p -> must_count (ust (un s u)) = false.
Proof. exact SchedCount.C06_zero_means_none_blocked. Qed.
Print Assumptions C06_zero_means_none_blocked.

Theorem C06_zero_means_not_blocked : forall s p u, reachable s -> nb (po s p) = 0%Z -> upool (un s u) = p ->
  ust (un s u) <> UBlocked /\ ust (un s u) <> UResuming.
Proof. exact SchedCount.C06_zero_means_not_blocked. Qed.
Print Assumptions C06_zero_means_not_blocked.

(* hypothesis "no decrement is outstanding for pool p": every entry of p in a unit's cnt is the
   single entry that the unit's present blocking needs, i.e. every resumer that has made a unit
   of p runnable has also done its decrement.  Then num_blocked is exactly the number of units
   of p that must be counted: it is the length of cu, which is duplicate-free and lists exactly
   those units. *)
Theorem C06_count_exact_when_no_late_decrement : forall s p, reachable s ->
  (forall u, count_occ Nat.eq_dec (cnt (un s u)) p <= 1 /\
             (In p (cnt (un s u)) -> must_count (ust (un s u)) = true /\ upool (un s u) = p)) ->
  nb (po s p) = Z.of_nat (length (cu (po s p))) /\
  NoDup (cu (po s p)) /\
  forall u, In u (cu (po s p)) <-> (must_count (ust (un s u)) = true /\ upool (un s u) = p).
Proof. exact SchedCount.C06_count_exact_when_no_late_decrement. Qed.
Print Assumptions C06_count_exact_when_no_late_decrement.

(* F2 fix: the increment made for a suspension goes to the pool the unit is associated with ... *)
Theorem C11_suspend_counts_in_resume_pool : forall s p old u s' k,
  step s (ENb p true old u false) = Some s' -> ust (un s u) = UCbS k 1 -> upool (un s u) = p.
Proof. exact SchedCount.C11_suspend_counts_in_resume_pool. Qed.
Print Assumptions C11_suspend_counts_in_resume_pool.

(* ... after a pending migration has been handled completely; the unit is counted there afterwards *)
Theorem C11_suspend_counts_after_migration : forall s p old u s' k,
  step s (ENb p true old u false) = Some s' -> ust (un s u) = UCbS k 1 ->
  migs (un s u) = 0 /\ suspend_kind k = true /\ ust (un s' u) = UCbS k 2 /\ In p (cnt (un s' u)).
Proof. exact SchedCount.C11_suspend_counts_after_migration. Qed.
Print Assumptions C11_suspend_counts_after_migration.

(* every decrement (resume, join hand-off) is made on a pool that counts the unit *)
Theorem C11_resume_decrements_counted_pool : forall s p old u h s',
  step s (ENb p false old u h) = Some s' -> In p (cnt (un s u)).
Proof. exact SchedCount.C11_resume_decrements_counted_pool. Qed.
Print Assumptions C11_resume_decrements_counted_pool.

(* a resumer never uncounts a unit that is blocked (again) or not yet back in its pool: its
   decrement may only remove a surplus entry, and the unit stays counted in that pool.
   (The unit may be UResuming at that moment -- a late decrement for an EARLIER resume, see
   late_decrement_while_resuming below -- so "ust <> UResuming" is not part of the statement;
   what holds is C06_no_decrement_before_push.) *)
Theorem C06_decrement_after_push : forall s p old u s',
  step s (ENb p false old u false) = Some s' ->
  (must_count (ust (un s u)) = true -> 2 <= count_occ Nat.eq_dec (cnt (un s u)) p) /\
  ust (un s' u) = ust (un s u) /\
  (must_count (ust (un s' u)) = true -> In p (cnt (un s' u))).
Proof. exact SchedCount.C06_decrement_after_push. Qed.
Print Assumptions C06_decrement_after_push.

Theorem C06_no_decrement_before_push : forall s p old u,
  ust (un s u) = UResuming -> count_occ Nat.eq_dec (cnt (un s u)) p <= 1 ->
  step s (ENb p false old u false) = None.
Proof. exact SchedCount.C06_no_decrement_before_push. Qed.
Print Assumptions C06_no_decrement_before_push.

(* ------------------------------------------------------------------ non-vacuity *)
Definition get (o : option st) : st := match o with Some s => s | None => init end.

(* unit u created in pool 0, pushed, popped, run *)
Definition mk (u : nat) : list ev :=
  [EInit u 0 true false; EPush 0 u true; EPop 0 (Some u) false; EState u 1; EStart u].
(* the running unit u suspends in pool p (no request pending) *)
Definition suspend (u p : nat) (old : Z) : list ev :=
  [ECb u KSuspend None; EReqLoad u 0 false false false; ENb p true old u false; EState u 2].

(* two units; unit 1 suspends: blocked, counted once, counter 1; unit 0 (running) is not counted;
   no decrement is outstanding *)
Definition tr_blocked : list ev := mk 0 ++ mk 1 ++ suspend 1 0 0.
Example blocked_state :
  let s := get (run init tr_blocked) in
  reachable s /\ ust (un s 1) = UBlocked /\ upool (un s 1) = 0 /\ nb (po s 0) = 1%Z /\ cu (po s 0) = [1] /\
  (forall u, count_occ Nat.eq_dec (cnt (un s u)) 0 <= 1 /\
             (In 0 (cnt (un s u)) -> must_count (ust (un s u)) = true /\ upool (un s u) = 0)).
Proof.
  split; [exists tr_blocked; vm_compute; reflexivity|].
  repeat split; try (vm_compute; reflexivity).
  - destruct u as [|[|u]]; vm_compute; auto.
  - destruct u as [|[|u]]; vm_compute in H |- *; tauto.
  - destruct u as [|[|u]]; vm_compute in H |- *; tauto.
Qed.

(* the counter is back to 0 after resume + push + decrement, and the unit need not be counted *)
Definition tr_resumed : list ev := tr_blocked ++ [EState 1 0; EPush 0 1 true; ENb 0 false 1 1 false].
Example zero_state :
  let s := get (run init tr_resumed) in
  reachable s /\ nb (po s 0) = 0%Z /\ upool (un s 1) = 0 /\ ust (un s 1) = UQueued.
Proof. split; [exists tr_resumed; vm_compute; reflexivity|]. repeat split; vm_compute; reflexivity. Qed.

(* between READY and the push (UResuming) the decrement is refused: the pool never looks idle *)
Example no_decrement_before_push_fires :
  let s := get (run init (tr_blocked ++ [EState 1 0])) in
  reachable s /\ ust (un s 1) = UResuming /\ count_occ Nat.eq_dec (cnt (un s 1)) 0 <= 1 /\
  step s (ENb 0 false 1 1 false) = None.
Proof.
  split; [exists (tr_blocked ++ [EState 1 0]); vm_compute; reflexivity|].
  repeat split; vm_compute; auto.
Qed.

(* F2: a suspension with a pending migration 0 -> 1 is counted in pool 1, and the increment on the
   old pool is not enabled *)
Definition tr_mig : list ev :=
  mk 0 ++ [EMigSt 0 1; EReqOr 0 2 false false false false 0; ECb 0 KSuspend None;
           EReqLoad 0 0 false false true; EMigLd 0 1; ESetPool 0 1; EReqAnd 0 2].
Example suspend_after_migration :
  let s := get (run init tr_mig) in
  reachable s /\ ust (un s 0) = UCbS KSuspend 1 /\
  step s (ENb 0 true 0 0 false) = None /\
  exists s', step s (ENb 1 true 0 0 false) = Some s' /\ cnt (un s' 0) = [1] /\ nb (po s' 1) = 1%Z /\ nb (po s' 0) = 0%Z.
Proof.
  split; [exists tr_mig; vm_compute; reflexivity|].
  split; [vm_compute; reflexivity|]. split; [vm_compute; reflexivity|].
  eexists. split; [vm_compute; reflexivity|]. repeat split; vm_compute; reflexivity.
Qed.

(* a resumer's decrement / the join hand-off decrement are enabled on a counted unit *)
Example decrement_enabled :
  let s := get (run init (tr_blocked ++ [EState 1 0; EPush 0 1 true])) in
  reachable s /\ exists s', step s (ENb 0 false 1 1 false) = Some s' /\ In 0 (cnt (un s 1)).
Proof.
  split; [exists (tr_blocked ++ [EState 1 0; EPush 0 1 true]); vm_compute; reflexivity|].
  eexists. split; [vm_compute; reflexivity|]. vm_compute. auto.
Qed.

(* the late decrement: unit 0 blocks, is resumed and pushed (resumer A has not decremented yet), runs,
   blocks again, is made READY by resumer B (UResuming); A's decrement is now enabled because the unit
   is counted twice, and leaves it counted once *)
Definition tr_late : list ev :=
  mk 0 ++ suspend 0 0 0 ++ [EState 0 0; EPush 0 0 true; EPop 0 (Some 0) false; EState 0 1] ++
  suspend 0 0 1 ++ [EState 0 0].
Example late_decrement_while_resuming :
  let s := get (run init tr_late) in
  reachable s /\ ust (un s 0) = UResuming /\ cnt (un s 0) = [0; 0] /\ nb (po s 0) = 2%Z /\
  exists s', step s (ENb 0 false 2 0 false) = Some s' /\ ust (un s' 0) = UResuming /\
             cnt (un s' 0) = [0] /\ nb (po s' 0) = 1%Z.
Proof.
  split; [exists tr_late; vm_compute; reflexivity|].
  repeat split; try (vm_compute; reflexivity).
  eexists. split; [vm_compute; reflexivity|]. repeat split; vm_compute; reflexivity.
Qed.

(* same-pool resume_suspend_to: unit 0 resumes the blocked unit 1 and suspends itself; the count is
   handed over without touching the counter *)
Definition tr_transfer : list ev :=
  tr_blocked ++ [EState 1 1; ECb 0 KResumeSuspendTo (Some 1); EReqLoad 0 0 false false false; EState 0 2].
Example same_pool_transfer :
  let s := get (run init tr_transfer) in
  reachable s /\ ust (un s 0) = UBlocked /\ ust (un s 1) = URunning /\
  cnt (un s 0) = [0] /\ cnt (un s 1) = [] /\ cu (po s 0) = [0] /\ nb (po s 0) = 1%Z.
Proof. split; [exists tr_transfer; vm_compute; reflexivity|]. repeat split; vm_compute; reflexivity. Qed.

(* the guard of the same-pool transfer (caller <> resumed unit; the resumed unit must not lose a
   count it still needs): a self-resume and a transfer from a unit that is still BLOCKED are not steps *)
Example self_resume_refused :
  run init (mk 0 ++ [ENb 0 true 0 0 false; ECb 0 KResumeSuspendTo (Some 0); EReqLoad 0 0 false false false])
    <> None /\
  run init (mk 0 ++ [ENb 0 true 0 0 false; ECb 0 KResumeSuspendTo (Some 0); EReqLoad 0 0 false false false;
                     EState 0 2]) = None.
Proof. split; vm_compute; [discriminate|reflexivity]. Qed.
Example transfer_from_blocked_target_refused :
  run init (tr_blocked ++ [ECb 0 KResumeSuspendTo (Some 1); EReqLoad 0 0 false false false]) <> None /\
  run init (tr_blocked ++ [ECb 0 KResumeSuspendTo (Some 1); EReqLoad 0 0 false false false; EState 0 2]) = None.
Proof. split; vm_compute; [discriminate|reflexivity]. Qed.
