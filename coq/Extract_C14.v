(* Extraction of the executable C14 models (no proofs are imported here, so the
   correspondence check still runs when a proof is broken). *)
From Coq Require Import List ZArith Bool.
From Coq Require Import ExtrOcamlBasic.
From ABT Require Import DS.UnitMap DS.UnitApi.
Extraction Language OCaml.
Extraction "../ocaml/extracted/c14.ml"
  Z.add Z.mul Z.opp Z.sub Z.div Z.modulo Z.eqb Z.ltb Z.leb Z.of_nat Z.to_nat Z.compare Z.land Z.odd
  hash_index tbl_init trun_raw arun init_state a_tbl a_thr a_log
  is_builtin_unit thread_of_builtin
  xinit xrun x_a x_thr x_pools x_runs.
