(* C04 — ABT_mutex gives mutual exclusion, correct recursion, and never loses a
   wakeup.  Statements only; the LTS is Conc/Mutex.v (labels = hook records of
   the real library), proofs are in Conc/MutexProofs.v.  [run (init rec) tr]
   ranges over every interleaving of every number of callers (ULT, tasklet,
   external thread) running properly nested lock/trylock/spinlock/unlock
   programs on a plain (rec = false) or recursive (rec = true) mutex. *)
From Coq Require Import List ZArith Bool.
From ABT Require Import Conc.Mutex Conc.MutexProofs.
Import ListNotations.

(* At most one caller is between a successful acquisition and its release of
   the lock word, and that caller is the one recorded in the lock word. *)
Theorem C04_mutual_exclusion : forall rec tr s t1 t2,
  run (init rec) tr = Some s ->
  holds (pc s t1) = true -> holds (pc s t2) = true -> t1 = t2.
Proof. exact mutual_exclusion. Qed.
Print Assumptions C04_mutual_exclusion.

Theorem C04_holder_is_lock_word : forall rec tr s t,
  run (init rec) tr = Some s -> (holds (pc s t) = true <-> holder s = Some t).
Proof. exact holder_is_lock_word. Qed.
Print Assumptions C04_holder_is_lock_word.

(* ABT_mutex_trylock succeeds iff the mutex is free at its test-and-set. *)
Theorem C04_trylock_iff_free : forall s t failed s',
  pc s t = T0 -> step s (ETry t failed) = Some s' ->
  failed = is_some (holder s) /\
  (failed = false -> holder s' = Some t /\ pc s' t = Holding /\ ret s' t = 0%Z) /\
  (failed = true -> holder s' = holder s /\ pc s' t = Idle /\ ret s' t = ERR_MUTEX_LOCKED).
Proof. exact trylock_exact. Qed.
Print Assumptions C04_trylock_iff_free.
Theorem C04_trylock_never_stuck : forall s t,
  pc s t = T0 -> step s (ETry t (is_some (holder s))) <> None.
Proof. exact trylock_enabled. Qed.
Print Assumptions C04_trylock_never_stuck.

(* No lost wakeup: whoever is blocked (ULT: UQ/US, external: EW/ES) is in the wait
   list, and then the mutex is held, or an unlocker holding waiter_lock is about
   to broadcast.  So the mutex is never free while a waiter sleeps unnoticed. *)
Theorem C04_no_lost_wakeup : forall rec tr s x,
  run (init rec) tr = Some s -> queued (pc s x) = true ->
  In x (wl s) /\
  (is_some (holder s) = true \/ exists u, wlock s = Some u /\ pc s u = U3).
Proof. exact no_lost_wakeup. Qed.
Print Assumptions C04_no_lost_wakeup.

(* ... and every unlock that completes has woken every waiter queued at that time. *)
Theorem C04_unlock_wakes_all : forall rec tr s s' u,
  run (init rec) tr = Some s -> wlock s = Some u -> pc s u = U3 ->
  step s ERelW = Some s' -> wl s' = [] /\ forall x, queued (pc s' x) = false.
Proof. exact unlock_wakes_all. Qed.
Print Assumptions C04_unlock_wakes_all.

(* Recursive mutex: one owner; the lock word stays set while nesting_cnt > 0;
   each nested lock/trylock/spinlock by the owner adds one, each unlock removes
   one, and only the unlock issued at nesting_cnt = 0 reaches the release. *)
Theorem C04_recursive_owner_holds : forall rec tr s t,
  run (init rec) tr = Some s -> owner s = Some t -> holder s = Some t /\ pc s t = Holding.
Proof. exact owner_holds. Qed.
Print Assumptions C04_recursive_owner_holds.
Theorem C04_recursive_nested_is_owned : forall rec tr s,
  run (init rec) tr = Some s -> nest s <> 0 ->
  exists t, owner s = Some t /\ holder s = Some t /\ pc s t = Holding /\ recursive s = true.
Proof. exact nested_means_owned. Qed.
Print Assumptions C04_recursive_nested_is_owned.
Theorem C04_recursive_unlock_keeps_lock : forall s t n s',
  recursive s = true -> pc s t = Holding -> nest s = S n ->
  step s (EBegin t OUnlock) = Some s' ->
  holder s' = holder s /\ pc s' = pc s /\ nest s' = n /\ owner s' = owner s.
Proof. exact recursive_unlock_keeps_lock. Qed.
Print Assumptions C04_recursive_unlock_keeps_lock.
Theorem C04_recursive_relock_nests : forall s t s' o,
  o <> OUnlock -> pc s t = Holding -> step s (EBegin t o) = Some s' ->
  recursive s = true /\ owner s = Some t /\ nest s' = S (nest s) /\ holder s' = holder s /\ pc s' = pc s.
Proof. exact recursive_relock_nests. Qed.
Print Assumptions C04_recursive_relock_nests.
Theorem C04_release_only_by_final_unlock : forall s s', step s ERelL = Some s' ->
  exists t, holder s = Some t /\ pc s t = U2 /\ holder s' = None /\ pc s' t = U3.
Proof. exact release_only_at_U2. Qed.
Print Assumptions C04_release_only_by_final_unlock.

(* Non-vacuity: a contended history (2 blocks as a ULT, 3 as an external thread while 1
   holds; the unlock wakes both) is a run of the LTS and ends quiescent. *)
Example C04_example :
  exists s, run (init false)
    [EBegin 1 OLock; ETry 1 false; EEnd 1 0%Z;
     EBegin 2 OLock; ETry 2 true; EAcqW 2; ETry 2 true; EEnq 2 true; ERelW;
     EBegin 3 OLock; ETry 3 true; EAcqW 3; ETry 3 true; EEnq 3 false; ERelW;
     EBegin 1 OUnlock; EAcqW 1; ERelL; EWake 2; EWake 3; EBcast; ERelW; EEnd 1 0%Z;
     ETry 3 false; EEnd 3 0%Z; ETry 2 true; EAcqW 2; ETry 2 true; EEnq 2 true; ERelW;
     EBegin 3 OUnlock; EAcqW 3; ERelL; EWake 2; EBcast; ERelW; EEnd 3 0%Z;
     ETry 2 false; EEnd 2 0%Z; EBegin 2 OUnlock; EAcqW 2; ERelL; ERelW; EEnd 2 0%Z] = Some s
    /\ holder s = None /\ wl s = [] /\ pc s 2 = Idle.
Proof. eexists. vm_compute. repeat split. Qed.
Example C04_example_recursive :
  exists s, run (init true)
    [EBegin 1 OLock; ETry 1 false; EEnd 1 0%Z; EBegin 1 OLock; EEnd 1 0%Z; EBegin 1 OTry; EEnd 1 0%Z;
     EBegin 1 OUnlock; EEnd 1 0%Z; EBegin 2 OTry; ETry 2 true; EEnd 2 40%Z;
     EBegin 1 OUnlock; EEnd 1 0%Z; EBegin 1 OUnlock; EAcqW 1; ERelL; ERelW; EEnd 1 0%Z] = Some s
    /\ holder s = None /\ nest s = 0.
Proof. eexists. vm_compute. repeat split. Qed.
