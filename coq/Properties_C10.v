(* C10 — reader-writer lock: writers exclusive, readers shared, nobody stuck.
   Statements only; the LTS is Conc/RWLock.v: the three routines of src/rwlock.c as
   programs over the actions of the C05 LTS (Conc/CondMutex.v, carrying the C04 LTS
   Conc/Mutex.v) + the two counters; proofs are in Conc/RWLockProofs.v.
   [rrun (rinit m t0) tr] ranges over every interleaving of every number of callers
   (ULT, external thread; tasklets are refused) running rdlock / wrlock / unlock, where
   unlock is called by a holder (client contract).  [readers] / [writer] are ghost
   records of the current holders (one [readers] entry per read hold). *)
From Coq Require Import List ZArith Bool.
From ABT Require Import Conc.Mutex Conc.MutexProofs Conc.CondMutex Conc.CondMutexProofs Conc.CondMutexThms
                        Conc.RWLock Conc.RWLockProofs.
Import ListNotations.

(* ---- reuse: rw->mutex + rw->cond of every reachable state is a reachable state of
   the C05 LTS; hence all C05 and (through C05_mutex_is_the_C04_mutex) all C04 theorems
   hold for it.  Two instances are spelled out. ---- *)
Theorem C10_inner_is_the_C05_cond : forall m t0 tr s,
  rrun (rinit m t0) tr = Some s -> exists ctr, crun (cinit false m t0) ctr = Some (cs s).
Proof. exact inner_reachable. Qed.
Print Assumptions C10_inner_is_the_C05_cond.

Theorem C10_inherits_mutual_exclusion : forall m t0 tr s t1 t2,
  rrun (rinit m t0) tr = Some s ->
  holds (pc (ms (cs s)) t1) = true -> holds (pc (ms (cs s)) t2) = true -> t1 = t2.
Proof.
  intros m t0 tr s t1 t2 R. destruct (inner_reachable _ _ _ _ R) as [ctr Rc].
  destruct (mutex_reachable _ _ _ _ _ Rc) as [mtr Rm]. exact (mutual_exclusion _ _ _ _ _ Rm).
Qed.
Print Assumptions C10_inherits_mutual_exclusion.

Theorem C10_inherits_atomic_release_wait : forall m t0 tr s t,
  rrun (rinit m t0) tr = Some s ->
  waiting (cpc (cs s) t) = true -> holds (pc (ms (cs s)) t) = false ->
  clock (cs s) = Some t \/ In t (map fst (cwl (cs s))).
Proof.
  intros m t0 tr s t R. destruct (inner_reachable _ _ _ _ R) as [ctr Rc].
  exact (release_wait_atomic _ _ _ _ _ _ Rc).
Qed.
Print Assumptions C10_inherits_atomic_release_wait.

(* ---- writers exclusive ---- *)
(* write_flag is set exactly while a writer holds; then reader_count = 0 and nobody
   holds a read lock; reader_count is the number of read holds. *)
Theorem C10_writer_exclusive : forall m t0 tr s, rrun (rinit m t0) tr = Some s ->
  wflag s = is_some (writer s) /\ rcount s = length (readers s) /\
  (wflag s = true -> rcount s = 0 /\ readers s = []).
Proof. exact writer_exclusive. Qed.
Print Assumptions C10_writer_exclusive.

(* a writer acquires only when nobody holds at all (so there is at most one writer
   holder and no reader beside it) ... *)
Theorem C10_writer_acquires_free : forall m t0 tr s t f v s',
  rrun (rinit m t0) tr = Some s -> wr_locking (rpc s t) = true -> rstep s (RData t f v) = Some s' ->
  f = 2 /\ v = 1 /\ wflag s = false /\ rcount s = 0 /\ readers s = [] /\ writer s = None /\
  wflag s' = true /\ writer s' = Some t /\ readers s' = [] /\ rcount s' = 0.
Proof. exact writer_acquires_free. Qed.
Print Assumptions C10_writer_acquires_free.

(* ... a reader acquires only when no writer holds. *)
Theorem C10_reader_acquires_no_writer : forall m t0 tr s t f v s',
  rrun (rinit m t0) tr = Some s -> rd_locking (rpc s t) = true -> rstep s (RData t f v) = Some s' ->
  f = 1 /\ v = S (rcount s) /\ wflag s = false /\ writer s = None /\
  wflag s' = false /\ rcount s' = S (rcount s) /\ readers s' = t :: readers s.
Proof. exact reader_acquires_no_writer. Qed.
Print Assumptions C10_reader_acquires_no_writer.

(* the two counters are only written by the owner of rw->mutex *)
Theorem C10_data_under_mutex : forall m t0 tr s t f v s',
  rrun (rinit m t0) tr = Some s -> rstep s (RData t f v) = Some s' ->
  holder (ms (cs s)) = Some t /\ pc (ms (cs s)) t = Holding.
Proof. exact data_under_mutex. Qed.
Print Assumptions C10_data_under_mutex.

(* ---- readers shared ---- *)
(* At the loop test of rdlock (caller owns rw->mutex) with write_flag = 0 the caller
   proceeds to reader_count++ and cannot start a wait, whatever reader_count is. *)
Theorem C10_readers_shared : forall s t c,
  rd_locking (rpc s t) = true -> loop_head (cs s) t = Some c -> wflag s = false ->
  (exists s', rstep s (RData t 1 (S (rcount s))) = Some s' /\ rcount s' = S (rcount s) /\ rpc s' t = RdU) /\
  rstep s (RC (CAcq t)) = None.
Proof. exact readers_shared. Qed.
Print Assumptions C10_readers_shared.

(* ---- nobody stuck ---- *)
(* every locker blocked in the cond is in its wait list *)
Theorem C10_blocked_locker_is_queued : forall m t0 tr s t,
  rrun (rinit m t0) tr = Some s -> cqueued (cpc (cs s) t) = true -> In t (map fst (cwl (cs s))).
Proof. exact blocked_locker_is_queued. Qed.
Print Assumptions C10_blocked_locker_is_queued.

(* while somebody is queued in the cond, or has decided to wait and is about to
   enqueue, the lock is held (an unlock, which broadcasts, is still to come) or an
   unlocker that owns the mutex is inside its broadcast: no lost wake-up at the level
   of the rwlock *)
Theorem C10_no_stuck : forall m t0 tr s, rrun (rinit m t0) tr = Some s ->
  (cwl (cs s) <> [] \/ exists t, prewait (cpc (cs s) t) = true) ->
  wflag s = true \/ rcount s <> 0 \/
  exists u, rpc s u = UnB /\ bowed (cpc (cs s) u) = true /\ pc (ms (cs s)) u = Holding.
Proof. exact queued_implies_owed. Qed.
Print Assumptions C10_no_stuck.

(* each unlock broadcasts: its DATA record enters ABTI_cond_broadcast, and the caller
   leaves that phase only by the first record of the final mutex unlock, after the
   broadcast has returned (which, by C05_broadcast_exact, woke every queued caller) *)
Theorem C10_unlock_enters_broadcast : forall s t f v s',
  rpc s t = UnL -> rstep s (RData t f v) = Some s' ->
  rpc s' t = UnB /\ cpc (cs s') t = CB0 /\ cwl (cs s') = cwl (cs s).
Proof. exact unlock_enters_broadcast. Qed.
Print Assumptions C10_unlock_enters_broadcast.

Theorem C10_unlock_broadcast_complete : forall s e s' t,
  rstep s e = Some s' -> rpc s t = UnB -> rpc s' t <> UnB ->
  e = RC (CM (EAcqW t)) /\ cpc (cs s) t = CIdle /\ rpc s' t = UnU.
Proof. exact unlock_leaves_broadcast_complete. Qed.
Print Assumptions C10_unlock_broadcast_complete.

(* ---- non-vacuity ---- *)
(* 1 and 2 read-lock together; writer 3 finds reader_count = 2, waits in the cond;
   1 unlocks (broadcast wakes 3, which re-tests, reader_count = 1, waits again);
   2 unlocks (broadcast wakes 3), 3 acquires the write lock; then unlocks. *)
Definition rdlock_free (t : nat) (v : nat) : list rev :=
  [RBegin t KUlt ORd; RC (CM (ETry t false)); RData t 1 v; RC (CM (EAcqW t)); RC (CM ERelL); RC (CM ERelW); REnd t 0%Z].
Definition unlock_waking (t : nat) (f v : nat) (w : nat) : list rev :=
  [RBegin t KUlt OUn; RC (CM (ETry t false)); RData t f v;
   RC (CAcq t); RC (CWake w); RC CBcast; RC CRel;
   RC (CM (EAcqW t)); RC (CM ERelL); RC (CM ERelW); REnd t 0%Z].
Definition ex_c10_a : list rev :=
  rdlock_free 1 1 ++ rdlock_free 2 2 ++
  [RBegin 3 KUlt OWr; RC (CM (ETry 3 false));
   RC (CAcq 3); RC (CBind 3 0); RC (CM (EAcqW 3)); RC (CM ERelL); RC (CM ERelW); RC (CEnq 3 1); RC CRel].
Definition ex_c10_b : list rev :=
  unlock_waking 1 1 1 3 ++
  [RC (CM (ETry 3 false));                                  (* woken: re-locks the mutex, re-tests: reader_count = 1 *)
   RC (CAcq 3); RC (CM (EAcqW 3)); RC (CM ERelL); RC (CM ERelW); RC (CEnq 3 1); RC CRel] ++
  unlock_waking 2 1 0 3 ++
  [RC (CM (ETry 3 false)); RData 3 2 1; RC (CM (EAcqW 3)); RC (CM ERelL); RC (CM ERelW); REnd 3 0%Z;
   RBegin 3 KUlt OUn; RC (CM (ETry 3 false)); RData 3 2 0; RC (CAcq 3); RC CRel;
   RC (CM (EAcqW 3)); RC (CM ERelL); RC (CM ERelW); REnd 3 0%Z].

Example C10_example_blocked_writer :
  exists s, rrun (rinit 0 1000%Z) ex_c10_a = Some s /\
    rcount s = 2 /\ wflag s = false /\ readers s = [2; 1] /\ rpc s 3 = WrW /\
    map fst (cwl (cs s)) = [3] /\ cqueued (cpc (cs s) 3) = true.
Proof. eexists. vm_compute. repeat split. Qed.

Example C10_example_full :
  exists s, rrun (rinit 0 1000%Z) (ex_c10_a ++ ex_c10_b) = Some s /\
    rcount s = 0 /\ wflag s = false /\ readers s = [] /\ writer s = None /\
    cwl (cs s) = [] /\ clock (cs s) = None /\ holder (ms (cs s)) = None /\ rpc s 3 = RIdle.
Proof. eexists. vm_compute. repeat split. Qed.

(* readers share: with 1 holding a read lock, 2 at its loop test proceeds and cannot wait *)
Example C10_example_shared :
  exists s c, rrun (rinit 0 1000%Z) (rdlock_free 1 1 ++ [RBegin 2 KExt ORd; RC (CM (ETry 2 false))]) = Some s /\
    rd_locking (rpc s 2) = true /\ loop_head (cs s) 2 = Some c /\ wflag s = false /\ rcount s = 1 /\
    rstep s (RC (CAcq 2)) = None.
Proof. eexists. eexists. vm_compute. repeat split. Qed.

(* a tasklet is refused *)
Example C10_example_tasklet :
  exists s, rrun (rinit 0 1000%Z) [RBegin 7 KTask OWr; REnd 7 43%Z] = Some s /\ rpc s 7 = RIdle.
Proof. eexists. vm_compute. repeat split. Qed.
