(* Extraction of the executable C15 models (no proofs are imported here, so the
   correspondence check still runs when a proof is broken). *)
From Coq Require Import List ZArith Bool.
From Coq Require Import ExtrOcamlBasic.
From ABT Require Import DS.SyncLifo DS.MemPool DS.StackGeom.
Extraction Language OCaml.
Extraction "../ocaml/extracted/c15.ml"
  Z.add Z.mul Z.opp Z.sub Z.div Z.modulo Z.eqb Z.ltb Z.leb Z.of_nat Z.to_nat Z.compare Z.min Z.max
  sl_init sl_push sl_pop sl_chain
  init_state step step_buggy all_blocks carvedb
  take_chain lifo_heads walk_pages destroy_global lget partial_blocks total_blocks
  roundup desc_elem ythread_create_req ythread_create_mem free_thread free_thread_buggy
  get_attr usable abtu_malloc_extent stack_header_size slot_lo slot_hi entry_rsp
  page_slots guard_lo guard_hi.
