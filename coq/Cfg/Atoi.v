(* Model of src/util/atoi.c.  A C string is a list of character codes (the
   terminating NUL is the end of the list; a 0 inside the list also stops the
   scan, as in C).  uint64_t arithmetic is Z arithmetic with an explicit
   [wrap64] after every operation, so that the theorems have to show that no
   wrap-around ever happens. *)
From Coq Require Import List ZArith Bool.
Import ListNotations.
Local Open Scope Z_scope.

Definition U64MAX : Z := 18446744073709551615.
Definition wrap64 (z : Z) : Z := z mod 18446744073709551616.

Definition is_ws (c : Z) : bool := (c =? 10) || (c =? 9) || (c =? 32) || (c =? 13).
Definition is_digit (c : Z) : bool := (48 <=? c) && (c <=? 57).

Inductive ares :=
| AErr                                       (* ABT_ERR_INV_ARG *)
| AOk (is_signed : bool) (val : Z) (overflow : bool).

(* static int atoi_impl(...): the while(1) loop, one iteration per character *)
Fixpoint atoi_loop (s : list Z) (val : Z) (sg rc rd : bool) : ares :=
  match s with
  | [] => if rd then AOk sg val false else AErr          (* reads the NUL *)
  | c :: s' =>
      if is_ws c && negb rc then atoi_loop s' val sg rc rd
      else if (c =? 43) && negb rd then atoi_loop s' val sg true rd
      else if (c =? 45) && negb rd then atoi_loop s' val (negb sg) true rd
      else if is_digit c then
        let d := c - 48 in
        if (val >? U64MAX / 10) || (wrap64 (val * 10) >? wrap64 (U64MAX - d))
        then AOk sg U64MAX true
        else atoi_loop s' (wrap64 (wrap64 (val * 10) + d)) sg true true
      else if rd then AOk sg val false else AErr
  end.

Definition atoi_impl (s : list Z) : ares := atoi_loop s 0 false false false.

(* result of the typed front ends: None = error, Some (value, overflow) *)
Definition INT_MIN : Z := -2147483648.
Definition INT_MAX : Z := 2147483647.
Definition U32MAX : Z := 4294967295.

Definition atoi_int (s : list Z) : option (Z * bool) :=
  match atoi_impl s with
  | AErr => None
  | AOk sg val ovf =>
      if sg then
        if val >? 2147483648 then Some (INT_MIN, true) else Some (- val, ovf)
      else
        if val >? INT_MAX then Some (INT_MAX, true) else Some (val, ovf)
  end.

Definition atoi_ui32 (s : list Z) : option (Z * bool) :=
  match atoi_impl s with
  | AErr => None
  | AOk sg val ovf =>
      if sg then Some (0, if val =? 0 then ovf else true)
      else if val >? U32MAX then Some (U32MAX, true) else Some (val, ovf)
  end.

Definition atoi_ui64 (s : list Z) : option (Z * bool) :=
  match atoi_impl s with
  | AErr => None
  | AOk sg val ovf =>
      if sg then Some (0, if val =? 0 then ovf else true)
      else Some (val, ovf)
  end.

(* size_t is 8 bytes in the active configuration *)
Definition atoi_sz := atoi_ui64.

(* ---- specification: ws* sign* digit+ , value saturated ---- *)
Fixpoint drop_ws (s : list Z) : list Z :=
  match s with c :: s' => if is_ws c then drop_ws s' else s | [] => [] end.

Fixpoint take_signs (s : list Z) (neg : bool) : bool * list Z :=
  match s with
  | c :: s' => if c =? 43 then take_signs s' neg
               else if c =? 45 then take_signs s' (negb neg)
               else (neg, s)
  | [] => (neg, [])
  end.

Fixpoint digits_val (s : list Z) (acc : Z) : Z :=
  match s with
  | c :: s' => if is_digit c then digits_val s' (acc * 10 + (c - 48)) else acc
  | [] => acc
  end.

Definition starts_with_digit (s : list Z) : bool :=
  match s with c :: _ => is_digit c | [] => false end.

(* None: no integer; Some (negative?, magnitude as a mathematical integer) *)
Definition spec_parse (s : list Z) : option (bool * Z) :=
  let (neg, s2) := take_signs (drop_ws s) false in
  if starts_with_digit s2 then Some (neg, digits_val s2 0) else None.

Definition clamp (lo hi v : Z) : Z := if v <? lo then lo else if v >? hi then hi else v.
Definition out_of (lo hi v : Z) : bool := (v <? lo) || (v >? hi).

Definition spec_typed (lo hi : Z) (s : list Z) : option (Z * bool) :=
  match spec_parse s with
  | None => None
  | Some (neg, n) => let v := if neg then - n else n in
                     Some (clamp lo hi v, out_of lo hi v)
  end.
