(* Proofs about Cfg/Hashtable.v: the table refines a total finite map. *)
From Coq Require Import List ZArith Bool Lia.
From ABT Require Import Common.ListAux Cfg.Hashtable.
Import ListNotations.
Local Open Scope Z_scope.

Section P.
Variable D : Type.
Notation bucket := (bucket D).
Notation table := (table D).

(* ---- index ---- *)
Lemma rem_bounds n key : 0 < n ->
  (0 <= key -> 0 <= Z.rem key n < n) /\ (key < 0 -> - n < Z.rem key n <= 0).
Proof.
  intros Hn. split; intros Hk.
  - apply Z.rem_bound_pos_pos; lia.
  - replace key with (- (- key)) by lia. rewrite Z.rem_opp_l by lia.
    pose proof (Z.rem_bound_pos_pos (- key) n ltac:(lia) ltac:(lia)). lia.
Qed.

Lemma ht_index_mod n key : 0 < n -> ht_index n key = key mod n.
Proof.
  intros Hn. unfold ht_index.
  destruct (rem_bounds n key Hn) as [Hp Hm].
  pose proof (Z.quot_rem' key n) as Hq.
  destruct (Z.ltb_spec (Z.rem key n) 0) as [H|H].
  - apply Z.mod_unique_pos with (q := Z.quot key n - 1); lia.
  - apply Z.mod_unique_pos with (q := Z.quot key n); lia.
Qed.

Lemma ht_index_range n key : 0 < n -> 0 <= ht_index n key < n.
Proof. intros. rewrite ht_index_mod by auto. apply Z.mod_pos_bound; auto. Qed.

Lemma ht_slot_lt (t : table) key : t <> [] -> (ht_slot t key < length t)%nat.
Proof.
  intros Ht. unfold ht_slot.
  assert (0 < Z.of_nat (length t)) by (destruct t; [congruence|cbn; lia]).
  pose proof (ht_index_range (Z.of_nat (length t)) key H). lia.
Qed.

(* ---- chains ---- *)
Implicit Types (c : list (Z * D)) (b : bucket) (t : table) (d : D).

Lemma chain_get_set c k d k' :
  chain_get (fst (chain_set c k d)) k' = if k' =? k then Some d else chain_get c k'.
Proof.
  induction c as [|[k0 d0] c IH]; cbn.
  - rewrite (Z.eqb_sym k k'). destruct (k' =? k); auto.
  - destruct (Z.eqb_spec k0 k) as [->|Hne]; cbn.
    + rewrite (Z.eqb_sym k k'). destruct (Z.eqb_spec k' k); auto.
    + destruct (chain_set c k d) as [c'' o] eqn:E; cbn in *.
      destruct (Z.eqb_spec k0 k'); auto.
      subst. destruct (Z.eqb_spec k' k); congruence.
Qed.

Lemma chain_set_flag c k d :
  snd (chain_set c k d) = match chain_get c k with Some _ => true | None => false end.
Proof.
  induction c as [|[k0 d0] c IH]; cbn; auto.
  destruct (Z.eqb_spec k0 k); cbn; auto.
  destruct (chain_set c k d); cbn in *; auto.
Qed.

Lemma chain_set_keys c k d :
  map fst (fst (chain_set c k d)) =
  if snd (chain_set c k d) then map fst c else map fst c ++ [k].
Proof.
  induction c as [|[k0 d0] c IH]; cbn; auto.
  destruct (Z.eqb_spec k0 k); cbn; auto.
  destruct (chain_set c k d) as [c' o]; cbn in *. rewrite IH. destruct o; auto.
Qed.

Lemma chain_get_none_notin c k : chain_get c k = None <-> ~ In k (map fst c).
Proof.
  induction c as [|[k0 d0] c IH]; cbn; [tauto|].
  destruct (Z.eqb_spec k0 k); [intuition congruence|]. rewrite IH. intuition.
Qed.

Lemma chain_get_del c k k' :
  NoDup (map fst c) ->
  chain_get (fst (chain_del c k)) k' = if k' =? k then None else chain_get c k'.
Proof.
  induction c as [|[k0 d0] c IH]; cbn; intros Hnd.
  - destruct (k' =? k); auto.
  - apply NoDup_cons_iff in Hnd. destruct Hnd as [Hni Hnd'].
    destruct (Z.eqb_spec k0 k) as [E0|Hne]; cbn.
    + destruct (Z.eqb_spec k' k) as [E1|Hne'].
      * apply chain_get_none_notin. congruence.
      * destruct (Z.eqb_spec k0 k'); congruence.
    + specialize (IH Hnd').
      destruct (chain_del c k) as [c'' o] eqn:E; cbn in *.
      destruct (Z.eqb_spec k0 k') as [E1|]; auto.
      destruct (Z.eqb_spec k' k); congruence.
Qed.

Lemma chain_del_flag c k :
  snd (chain_del c k) = match chain_get c k with Some _ => true | None => false end.
Proof.
  induction c as [|[k0 d0] c IH]; cbn; auto.
  destruct (Z.eqb_spec k0 k); cbn; auto.
  destruct (chain_del c k); cbn in *; auto.
Qed.

Lemma chain_del_keys_incl c k x : In x (map fst (fst (chain_del c k))) -> In x (map fst c).
Proof.
  induction c as [|[k0 d0] c IH]; cbn; auto.
  destruct (Z.eqb_spec k0 k); cbn; auto.
  destruct (chain_del c k) as [c' o]; cbn in *. intuition.
Qed.

Lemma chain_del_nodup c k : NoDup (map fst c) -> NoDup (map fst (fst (chain_del c k))).
Proof.
  induction c as [|[k0 d0] c IH]; cbn; intros Hnd; auto.
  inversion Hnd as [|? ? Hni Hnd']; subst.
  destruct (Z.eqb_spec k0 k); cbn; auto.
  pose proof (chain_del_keys_incl c k k0) as Hincl.
  destruct (chain_del c k) as [c' o]; cbn in *. constructor; auto.
Qed.

(* ---- buckets ---- *)
Definition BInv (b : bucket) : Prop :=
  (head b = None -> rest b = []) /\ NoDup (bucket_keys b).

Lemma binv_empty : BInv empty_bucket.
Proof. split; cbn; auto. constructor. Qed.

Lemma bucket_get_set b k d k' :
  BInv b ->
  bucket_get (fst (bucket_set b k d)) k' = if k' =? k then Some d else bucket_get b k'.
Proof.
  intros [Hr _]. unfold bucket_get, bucket_set.
  destruct (head b) as [[hk hd]|] eqn:Hh.
  - destruct (Z.eqb_spec hk k) as [->|Hne]; cbn.
    + rewrite (Z.eqb_sym k k'). destruct (Z.eqb_spec k' k); auto.
    + pose proof (chain_get_set (rest b) k d k') as Hc.
      destruct (chain_set (rest b) k d) as [c o]; cbn in *.
      destruct (Z.eqb_spec hk k'); auto.
      subst. destruct (Z.eqb_spec k' k); congruence.
  - cbn. rewrite (Hr eq_refl). cbn. rewrite (Z.eqb_sym k k'). destruct (k' =? k); auto.
Qed.

Lemma bucket_set_flag b k d :
  snd (bucket_set b k d) = match bucket_get b k with Some _ => true | None => false end.
Proof.
  unfold bucket_get, bucket_set.
  destruct (head b) as [[hk hd]|]; auto.
  destruct (Z.eqb_spec hk k); cbn; auto.
  pose proof (chain_set_flag (rest b) k d).
  destruct (chain_set (rest b) k d); cbn in *; auto.
Qed.

Lemma bucket_set_inv b k d : BInv b -> BInv (fst (bucket_set b k d)).
Proof.
  intros [Hr Hnd]. unfold bucket_set, BInv, bucket_keys in *.
  destruct (head b) as [[hk hd]|] eqn:Hh.
  - destruct (Z.eqb_spec hk k) as [->|Hne]; cbn.
    + split; [discriminate|auto].
    + pose proof (chain_set_keys (rest b) k d) as Hk.
      pose proof (chain_set_flag (rest b) k d) as Hf.
      destruct (chain_set (rest b) k d) as [c o]; cbn in *.
      split; [discriminate|]. rewrite Hk.
      destruct o; auto.
      inversion Hnd as [|? ? Hni Hnd']; subst.
      destruct (chain_get (rest b) k) eqn:Hg; [discriminate|].
      apply chain_get_none_notin in Hg.
      constructor.
      * rewrite in_app_iff. cbn. intuition.
      * apply NoDup_snoc; auto.
  - cbn. rewrite (Hr eq_refl). cbn. split; [discriminate|].
    constructor; [intros []|constructor].
Qed.

Lemma bucket_get_del b k k' :
  BInv b ->
  bucket_get (fst (bucket_del b k)) k' = if k' =? k then None else bucket_get b k'.
Proof.
  intros [Hr Hnd]. unfold bucket_get, bucket_del, bucket_keys in *.
  destruct (head b) as [[hk hd]|] eqn:Hh.
  - apply NoDup_cons_iff in Hnd. destruct Hnd as [Hni Hnd].
    destruct (Z.eqb_spec hk k) as [E0|Hne].
    + destruct (rest b) as [|[k1 d1] r] eqn:Hrest; cbn.
      * destruct (Z.eqb_spec k' k); auto. destruct (Z.eqb_spec hk k'); congruence.
      * cbn in Hni, Hnd. apply NoDup_cons_iff in Hnd. destruct Hnd as [Hni1 Hnd].
        destruct (Z.eqb_spec k' k) as [E1|Hne1].
        -- destruct (Z.eqb_spec k1 k') as [E2|]; [exfalso; apply Hni; left; congruence|].
           apply chain_get_none_notin. intros Hin. apply Hni. right. congruence.
        -- destruct (Z.eqb_spec hk k'); [congruence|]. reflexivity.
    + pose proof (chain_get_del (rest b) k k' Hnd) as Hc.
      destruct (chain_del (rest b) k) as [c o]; cbn in *.
      destruct (Z.eqb_spec hk k') as [E1|]; auto.
      destruct (Z.eqb_spec k' k); congruence.
  - cbn. rewrite Hh. destruct (k' =? k); auto.
Qed.

Lemma bucket_del_flag b k :
  snd (bucket_del b k) = match bucket_get b k with Some _ => true | None => false end.
Proof.
  unfold bucket_get, bucket_del.
  destruct (head b) as [[hk hd]|]; auto.
  destruct (Z.eqb_spec hk k); cbn.
  - destruct (rest b) as [|[? ?] ?]; auto.
  - pose proof (chain_del_flag (rest b) k).
    destruct (chain_del (rest b) k); cbn in *; auto.
Qed.

Lemma bucket_del_inv b k : BInv b -> BInv (fst (bucket_del b k)).
Proof.
  intros [Hr Hnd]. unfold bucket_del, BInv, bucket_keys in *.
  destruct (head b) as [[hk hd]|] eqn:Hh.
  - apply NoDup_cons_iff in Hnd. destruct Hnd as [Hni Hnd].
    destruct (Z.eqb_spec hk k) as [E0|Hne].
    + destruct (rest b) as [|[k1 d1] r] eqn:Hrest; cbn.
      * split; [auto|constructor].
      * split; [discriminate|]. exact Hnd.
    + pose proof (chain_del_nodup (rest b) k Hnd) as Hn2.
      pose proof (chain_del_keys_incl (rest b) k hk) as Hi2.
      destruct (chain_del (rest b) k) as [c o]; cbn in *.
      split; [discriminate|]. constructor; auto.
  - cbn. rewrite Hh. auto.
Qed.

(* ---- tables ---- *)
Definition TInv t : Prop := t <> [] /\ Forall BInv t.

Lemma tinv_create n : (0 < n)%nat -> TInv (ht_create n).
Proof.
  intros Hn. split.
  - destruct n; [lia|discriminate].
  - unfold ht_create. apply Forall_forall. intros b Hb.
    apply repeat_spec in Hb. subst. apply binv_empty.
Qed.

Lemma tinv_nth t i : TInv t -> BInv (nth_bucket t i).
Proof.
  intros [_ Hf]. unfold nth_bucket.
  destruct (Nat.lt_ge_cases i (length t)) as [Hlt|Hge].
  - rewrite Forall_forall in Hf. apply Hf. apply nth_In; auto.
  - rewrite nth_overflow by auto. apply binv_empty.
Qed.

Lemma Forall_upd_nth {A} (P : A -> Prop) (l : list A) i x :
  Forall P l -> P x -> Forall P (upd_nth l i x).
Proof.
  intros Hf Hx. revert i. induction Hf as [|a l Ha Hl IH]; intros [|i]; cbn; auto.
Qed.

Lemma tinv_upd t i b : TInv t -> BInv b -> TInv (upd_nth t i b).
Proof.
  intros [Hne Hf] Hb. split.
  - intros E. apply Hne. apply length_zero_iff_nil.
    rewrite <- (upd_nth_length t i b), E. reflexivity.
  - apply Forall_upd_nth; auto.
Qed.

Lemma ht_slot_upd t i b key : ht_slot (upd_nth t i b) key = ht_slot t key.
Proof. unfold ht_slot. rewrite upd_nth_length. reflexivity. Qed.

Lemma ht_slot_same t k k' : k' = k -> ht_slot t k' = ht_slot t k.
Proof. congruence. Qed.

Theorem ht_get_set t k d k' :
  TInv t ->
  ht_get (fst (ht_set t k d)) k' = if k' =? k then Some d else ht_get t k'.
Proof.
  intros Hi. unfold ht_get, ht_set.
  pose proof (bucket_get_set (nth_bucket t (ht_slot t k)) k d k' (tinv_nth t _ Hi)) as Hb.
  destruct (bucket_set (nth_bucket t (ht_slot t k)) k d) as [b o]; cbn in *.
  rewrite ht_slot_upd. unfold nth_bucket in *.
  destruct (Nat.eq_dec (ht_slot t k) (ht_slot t k')) as [E|Hne].
  - rewrite <- E. rewrite nth_upd_nth_eq by (apply ht_slot_lt; apply Hi). exact Hb.
  - rewrite nth_upd_nth_ne by auto.
    destruct (Z.eqb_spec k' k) as [E|]; [subst; congruence|reflexivity].
Qed.

Theorem ht_set_flag t k d :
  snd (ht_set t k d) = match ht_get t k with Some _ => true | None => false end.
Proof.
  unfold ht_get, ht_set.
  pose proof (bucket_set_flag (nth_bucket t (ht_slot t k)) k d).
  destruct (bucket_set (nth_bucket t (ht_slot t k)) k d); cbn in *; auto.
Qed.

Theorem ht_set_inv t k d : TInv t -> TInv (fst (ht_set t k d)).
Proof.
  intros Hi. unfold ht_set.
  pose proof (bucket_set_inv (nth_bucket t (ht_slot t k)) k d (tinv_nth t _ Hi)).
  destruct (bucket_set (nth_bucket t (ht_slot t k)) k d); cbn in *.
  apply tinv_upd; auto.
Qed.

Theorem ht_get_delete t k k' :
  TInv t ->
  ht_get (fst (ht_delete t k)) k' = if k' =? k then None else ht_get t k'.
Proof.
  intros Hi. unfold ht_get, ht_delete.
  pose proof (bucket_get_del (nth_bucket t (ht_slot t k)) k k' (tinv_nth t _ Hi)) as Hb.
  destruct (bucket_del (nth_bucket t (ht_slot t k)) k) as [b o]; cbn in *.
  rewrite ht_slot_upd. unfold nth_bucket in *.
  destruct (Nat.eq_dec (ht_slot t k) (ht_slot t k')) as [E|Hne].
  - rewrite <- E. rewrite nth_upd_nth_eq by (apply ht_slot_lt; apply Hi). exact Hb.
  - rewrite nth_upd_nth_ne by auto.
    destruct (Z.eqb_spec k' k) as [E|]; [subst; congruence|reflexivity].
Qed.

Theorem ht_delete_flag t k :
  snd (ht_delete t k) = match ht_get t k with Some _ => true | None => false end.
Proof.
  unfold ht_get, ht_delete.
  pose proof (bucket_del_flag (nth_bucket t (ht_slot t k)) k).
  destruct (bucket_del (nth_bucket t (ht_slot t k)) k); cbn in *; auto.
Qed.

Theorem ht_delete_inv t k : TInv t -> TInv (fst (ht_delete t k)).
Proof.
  intros Hi. unfold ht_delete.
  pose proof (bucket_del_inv (nth_bucket t (ht_slot t k)) k (tinv_nth t _ Hi)).
  destruct (bucket_del (nth_bucket t (ht_slot t k)) k); cbn in *.
  apply tinv_upd; auto.
Qed.

Lemma ht_get_create n k : ht_get (ht_create n : table) k = None.
Proof.
  unfold ht_get, nth_bucket, bucket_get.
  destruct (nth_in_or_default (ht_slot (ht_create n : table) k) (ht_create n : table) empty_bucket) as [H|H].
  - apply repeat_spec in H. rewrite H. reflexivity.
  - rewrite H. reflexivity.
Qed.

(* heap accounting: number of chained (heap) elements changes by the right amount *)
End P.

(* ---- config layer refines a finite map ---- *)
Definition cmap := Z -> option celem.
Definition cm_set (m : cmap) k v : cmap := fun k' => if k' =? k then v else m k'.

Fixpoint sread (m : cmap) (k : Z) (n : nat) : list (option (Z * Z)) :=
  match n with O => [] | S n' => m k :: sread m (k + 1) n' end.

Definition sstep (m : cmap) (o : cop) : cmap * cres :=
  match o with
  | CSet key ty v => if valid_type ty then (cm_set m key (Some (ty, v)), RCode 0)
                     else (m, RCode ERR_INV_ARG)
  | CDel key => (cm_set m key None, RCode 0)
  | CGet key => match m key with Some (ty, v) => (m, RGot ty v)
                                | None => (m, RCode ERR_INV_ARG) end
  | CRead n => (m, RRead (sread m 0 (Z.to_nat n)))
  end.

Fixpoint srun (m : cmap) (ops : list cop) : cmap * list cres :=
  match ops with
  | [] => (m, [])
  | o :: ops' => let (m', r) := sstep m o in
                 let (m'', rs) := srun m' ops' in (m'', r :: rs)
  end.

Fixpoint screate_from (m : cmap) (l : list (Z * Z * Z)) : option cmap :=
  match l with
  | [] => Some m
  | (idx, ty, v) :: l' =>
      if idx =? -1 then Some m
      else if valid_type ty then screate_from (cm_set m idx (Some (ty, v))) l'
      else None
  end.

Definition Rep (t : table celem) (m : cmap) : Prop :=
  TInv celem t /\ forall k, ht_get t k = m k.

Lemma read_range_rep t m k n : Rep t m -> read_range t k n = sread m k n.
Proof. intros [_ H]. revert k. induction n; cbn; intros; auto. rewrite H, IHn. auto. Qed.

Lemma cstep_refines t m o :
  Rep t m -> snd (cstep t o) = snd (sstep m o) /\ Rep (fst (cstep t o)) (fst (sstep m o)).
Proof.
  intros HR. pose proof HR as [Hi Hg]. destruct o as [key ty v|key|key|n]; cbn.
  - destruct (valid_type ty); cbn; split; auto. split.
    + apply ht_set_inv; auto.
    + intros k. rewrite ht_get_set by auto. unfold cm_set. destruct (k =? key); auto.
  - split; auto. split.
    + apply ht_delete_inv; auto.
    + intros k. rewrite ht_get_delete by auto. unfold cm_set. destruct (k =? key); auto.
  - rewrite Hg. destruct (m key) as [[ty v]|]; cbn; auto.
  - split; auto. f_equal. apply read_range_rep; auto.
Qed.

Theorem crun_refines ops : forall t m,
  Rep t m -> snd (crun t ops) = snd (srun m ops) /\ Rep (fst (crun t ops)) (fst (srun m ops)).
Proof.
  induction ops as [|o ops IH]; cbn; intros t m HR; auto.
  destruct (cstep_refines t m o HR) as [Hr HR'].
  destruct (cstep t o) as [t' r]; destruct (sstep m o) as [m' r']; cbn in *.
  destruct (IH t' m' HR') as [Hrs HR''].
  destruct (crun t' ops) as [t'' rs]; destruct (srun m' ops) as [m'' rs']; cbn in *.
  split; auto. congruence.
Qed.

Theorem ccreate_refines l : forall t m, Rep t m ->
  match ccreate_from t l, screate_from m l with
  | Some t', Some m' => Rep t' m'
  | None, None => True
  | _, _ => False
  end.
Proof.
  induction l as [|[[idx ty] v] l IH]; cbn; intros t m HR; auto.
  destruct (idx =? -1); auto.
  destruct (valid_type ty); auto.
  apply IH. destruct HR as [Hi Hg]. split.
  - apply ht_set_inv; auto.
  - intros k. rewrite ht_get_set by auto. unfold cm_set. destruct (k =? idx); auto.
Qed.

Lemma rep_create n : (0 < n)%nat -> Rep (ht_create n) (fun _ => None).
Proof. intros. split; [apply tinv_create; auto|intros; apply ht_get_create]. Qed.
