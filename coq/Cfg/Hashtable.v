(* Model of src/util/hashtable.c (the ABTU_hashtable functions), field level.
   A table is [num_entries] buckets. Each bucket has an inline head element
   (used <-> p_element->data != NULL; key; data) followed by a singly linked
   chain of heap elements, represented as a list (a NULL-terminated singly
   linked list without sharing is exactly a list).
   The data payload is opaque ([D]); the config layers instantiate it with a
   (type tag, 64-bit pattern) pair.  Only model code here: no proofs. *)
From Coq Require Import List ZArith Bool.
From ABT Require Import Common.ListAux.
Import ListNotations.
Local Open Scope Z_scope.

Section HT.
Variable D : Type.

Record bucket := mkB {
  head : option (Z * D);  (* inline head element: Some (key, payload) iff
                             head->data != NULL (stale key/payload of an unused
                             head are unobservable and not represented) *)
  rest : list (Z * D)     (* head->p_next chain; NOT cleared by the model
                             unless the C code clears p_next *)
}.
Definition used (b : bucket) : bool := match head b with Some _ => true | None => false end.

Definition table := list bucket.

Definition empty_bucket : bucket := mkB None [].
Definition ht_create (n : nat) : table := repeat empty_bucket n.

(* ((ssize_t)key) % ((ssize_t)num_entries), then + num_entries if negative.
   C's % truncates towards zero: Z.rem. *)
Definition ht_index (n : Z) (key : Z) : Z :=
  let r := Z.rem key n in if r <? 0 then r + n else r.

Fixpoint chain_get (c : list (Z * D)) (key : Z) : option D :=
  match c with
  | [] => None
  | (k, d) :: c' => if k =? key then Some d else chain_get c' key
  end.

Definition bucket_get (b : bucket) (key : Z) : option D :=
  match head b with
  | Some (hk, hd) => if hk =? key then Some hd else chain_get (rest b) key
  | None => None
  end.

(* set on the chain part: overwrite first match, else append at the end.
   Returns (new chain, overwritten) *)
Fixpoint chain_set (c : list (Z * D)) (key : Z) (d : D) : list (Z * D) * bool :=
  match c with
  | [] => ([(key, d)], false)
  | (k, d0) :: c' =>
      if k =? key then ((k, d) :: c', true)
      else let (c'', o) := chain_set c' key d in ((k, d0) :: c'', o)
  end.

Definition bucket_set (b : bucket) (key : Z) (d : D) : bucket * bool :=
  match head b with
  | Some (hk, hd) =>
    if hk =? key then (mkB (Some (hk, d)) (rest b), true)
    else let (c, o) := chain_set (rest b) key d in (mkB (Some (hk, hd)) c, o)
  | None => (mkB (Some (key, d)) (rest b), false)   (* p_next left as it is *)
  end.

(* delete on the chain part (the loop over pp_element) *)
Fixpoint chain_del (c : list (Z * D)) (key : Z) : list (Z * D) * bool :=
  match c with
  | [] => ([], false)
  | (k, d0) :: c' =>
      if k =? key then (c', true)
      else let (c'', o) := chain_del c' key in ((k, d0) :: c'', o)
  end.

Definition bucket_del (b : bucket) (key : Z) : bucket * bool :=
  match head b with
  | Some (hk, hd) =>
    if hk =? key then
      match rest b with
      | (k', d') :: r => (mkB (Some (k', d')) r, true)   (* memcpy of p_next, free it *)
      | [] => (mkB None [], true)                        (* data = NULL *)
      end
    else let (c, o) := chain_del (rest b) key in (mkB (Some (hk, hd)) c, o)
  | None => (b, false)
  end.

Definition nth_bucket (t : table) (i : nat) : bucket := nth i t empty_bucket.

Definition ht_slot (t : table) (key : Z) : nat :=
  Z.to_nat (ht_index (Z.of_nat (length t)) key).

Definition ht_get (t : table) (key : Z) : option D :=
  bucket_get (nth_bucket t (ht_slot t key)) key.

Definition ht_set (t : table) (key : Z) (d : D) : table * bool :=
  let i := ht_slot t key in
  let (b, o) := bucket_set (nth_bucket t i) key d in (upd_nth t i b, o).

Definition ht_delete (t : table) (key : Z) : table * bool :=
  let i := ht_slot t key in
  let (b, o) := bucket_del (nth_bucket t i) key in (upd_nth t i b, o).

(* number of heap elements (for the leak ledger in the harness) *)
Definition ht_heap_elems (t : table) : nat :=
  fold_right (fun b acc => (length (rest b) + acc)%nat) O t.

(* canonical dump: per bucket, the visible (key) sequence *)
Definition bucket_keys (b : bucket) : list Z :=
  match head b with Some (hk, _) => hk :: map fst (rest b) | None => [] end.
Definition ht_dump (t : table) : list (list Z) := map bucket_keys t.

End HT.

Arguments mkB {D}.
Arguments used {D}. Arguments head {D}. Arguments rest {D}.
Arguments ht_create {D}. Arguments ht_get {D}. Arguments ht_set {D}.
Arguments ht_delete {D}. Arguments ht_dump {D}. Arguments ht_heap_elems {D}.
Arguments bucket_get {D}. Arguments bucket_set {D}. Arguments bucket_del {D}.
Arguments chain_get {D}. Arguments chain_set {D}. Arguments chain_del {D}.
Arguments nth_bucket {D}. Arguments ht_slot {D}. Arguments empty_bucket {D}.
Arguments bucket_keys {D}.

(* ---- config layer: sched_config.c / pool_config.c ---- *)

(* element = (type tag, value as an integer pattern).  Type tags as in abt.h:
   INT = 0, DOUBLE = 1, PTR = 2. *)
Definition celem := (Z * Z)%type.
Definition valid_type (ty : Z) : bool := (0 <=? ty) && (ty <=? 2).

Inductive cop :=
| CSet (key ty v : Z)      (* ABT_*_config_set with val != NULL *)
| CDel (key : Z)           (* ABT_*_config_set with val == NULL *)
| CGet (key : Z)           (* ABT_*_config_get *)
| CRead (n : Z).           (* ABT_sched_config_read(config, n, ...) all non-NULL *)

Inductive cres :=
| RCode (code : Z)                       (* 0 = ABT_SUCCESS, 53 = ABT_ERR_INV_ARG *)
| RGot (ty v : Z)
| RRead (vals : list (option (Z * Z))).

Definition ERR_INV_ARG : Z := 53.

Fixpoint read_range (t : table celem) (k : Z) (n : nat) : list (option (Z * Z)) :=
  match n with
  | O => []
  | S n' => ht_get t k :: read_range t (k + 1) n'
  end.

Definition cstep (t : table celem) (o : cop) : table celem * cres :=
  match o with
  | CSet key ty v =>
      if valid_type ty then (fst (ht_set t key (ty, v)), RCode 0)
      else (t, RCode ERR_INV_ARG)
  | CDel key => (fst (ht_delete t key), RCode 0)
  | CGet key => match ht_get t key with
                | Some (ty, v) => (t, RGot ty v)
                | None => (t, RCode ERR_INV_ARG)
                end
  | CRead n => (t, RRead (read_range t 0 (Z.to_nat n)))
  end.

(* ABT_sched_config_create(&config, (var,value)..., var_end): entries are
   (idx, ty, v); processing stops at idx = -1; an invalid type makes the call
   fail (None). *)
Fixpoint ccreate_from (t : table celem) (l : list (Z * Z * Z)) : option (table celem) :=
  match l with
  | [] => Some t
  | (idx, ty, v) :: l' =>
      if idx =? -1 then Some t
      else if valid_type ty then ccreate_from (fst (ht_set t idx (ty, v))) l'
      else None
  end.
Definition ccreate (n : nat) (l : list (Z * Z * Z)) : option (table celem) :=
  ccreate_from (ht_create n) l.

Fixpoint crun (t : table celem) (ops : list cop) : table celem * list cres :=
  match ops with
  | [] => (t, [])
  | o :: ops' => let (t', r) := cstep t o in
                 let (t'', rs) := crun t' ops' in (t'', r :: rs)
  end.
