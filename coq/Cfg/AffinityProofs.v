(* Proofs about the model of src/arch/abtd_affinity_parser.c (Affinity.v). *)
From Coq Require Import List ZArith Bool Lia.
From ABT Require Import Cfg.Affinity.
Import ListNotations.
Local Open Scope Z_scope.

(* ------------------------------------------------------------------ *)
(** * Strings, positions *)

Definition nz (str : list Z) : Prop := Forall (fun c => c <> 0) str.

Lemma cstring_nz s : nz (cstring s).
Proof.
  induction s as [|c s IH]; cbn; [constructor|].
  destruct (Z.eqb_spec c 0); constructor; auto.
Qed.

Lemma cstring_id s : nz s -> cstring s = s.
Proof.
  induction 1 as [|c s Hc _ IH]; cbn; auto.
  destruct (Z.eqb_spec c 0); [contradiction|]. now rewrite IH.
Qed.

Lemma nz_app a b : nz (a ++ b) <-> nz a /\ nz b.
Proof. apply Forall_app. Qed.

(* [At str i suf]: suf is the part of str that starts at index i *)
Definition At (str : list Z) (i : nat) (suf : list Z) : Prop :=
  exists pre, str = pre ++ suf /\ i = length pre.

Lemma At_0 str : At str 0 str.
Proof. exists []. auto. Qed.

Lemma At_app str i l suf : At str i (l ++ suf) -> At str (i + length l) suf.
Proof.
  intros (pre & -> & ->). exists (pre ++ l). rewrite app_length, <- app_assoc. auto.
Qed.

Lemma At_cons str i c suf : At str i (c :: suf) -> At str (S i) suf.
Proof.
  intros H. apply (At_app str i [c] suf) in H. cbn in H. now rewrite Nat.add_1_r in H.
Qed.

Lemma At_len str i suf : At str i suf -> length str = (i + length suf)%nat.
Proof. intros (pre & -> & ->). apply app_length. Qed.

Lemma At_nz str i suf : At str i suf -> nz str -> nz suf.
Proof. intros (pre & -> & ->) H. now apply nz_app in H. Qed.

Lemma app_eq_len {A} (p1 p2 s1 s2 : list A) :
  p1 ++ s1 = p2 ++ s2 -> length p1 = length p2 -> p1 = p2 /\ s1 = s2.
Proof.
  revert p2. induction p1 as [|a p1 IH]; intros [|b p2] E L; try discriminate; auto.
  cbn in E. injection E as -> E. destruct (IH p2 E) as [-> ->]; auto.
Qed.

Lemma At_inj str i s1 s2 : At str i s1 -> At str i s2 -> s1 = s2.
Proof.
  intros (p1 & E1 & L1) (p2 & E2 & L2). rewrite E1 in E2.
  apply app_eq_len in E2; [tauto|congruence].
Qed.

Lemma rd_At_cons str i c suf : At str i (c :: suf) -> rd str i = Some c.
Proof.
  intros (pre & -> & ->). unfold rd. rewrite app_length. cbn [length].
  destruct (Nat.leb_spec (length pre) (length pre + S (length suf))); [|lia].
  now rewrite nth_middle.
Qed.

Lemma rd_At_nil str i : At str i [] -> rd str i = Some 0.
Proof.
  intros (pre & -> & ->). unfold rd. rewrite app_nil_r, Nat.leb_refl.
  now rewrite nth_overflow by lia.
Qed.

(* ------------------------------------------------------------------ *)
(** * C integer conversions *)

Lemma u32_mod z : u32 z = z mod 4294967296.
Proof. unfold u32. change 4294967295 with (Z.ones 32). now rewrite Z.land_ones by lia. Qed.

Lemma int_of_u32_wrap z : int_of_u32 (z mod 4294967296) = wrap32 z.
Proof.
  unfold int_of_u32, wrap32.
  rewrite <- (Zplus_mod_idemp_l z 2147483648 4294967296).
  pose proof (Z.mod_pos_bound z 4294967296 ltac:(lia)) as Hb.
  set (m := z mod 4294967296) in *.
  destruct (Z.ltb_spec m 2147483648) as [H|H].
  - rewrite Z.mod_small by lia. lia.
  - replace (m + 2147483648) with (m - 2147483648 + 1 * 4294967296) by lia.
    rewrite Z.mod_add by lia. rewrite Z.mod_small by lia. lia.
Qed.

(* the unsigned computation of  id + stride * i  is the mathematical value modulo 2^32 *)
Lemma id_at_wrap id stride i : id_at id stride i = wrap32 (id + stride * i).
Proof.
  unfold id_at. rewrite !u32_mod. rewrite <- int_of_u32_wrap. f_equal.
  rewrite Zplus_mod_idemp_r, Zplus_mod_idemp_l.
  rewrite <- Zplus_mod_idemp_r, Zmult_mod_idemp_l, Zplus_mod_idemp_r. reflexivity.
Qed.

Lemma wrap32_small z : AF_INT_MIN <= z <= AF_INT_MAX -> wrap32 z = z.
Proof. unfold wrap32, AF_INT_MIN, AF_INT_MAX. intros. rewrite Z.mod_small by lia. lia. Qed.

Lemma wrap32_range z : AF_INT_MIN <= wrap32 z <= AF_INT_MAX.
Proof.
  unfold wrap32, AF_INT_MIN, AF_INT_MAX.
  pose proof (Z.mod_pos_bound (z + 2147483648) 4294967296 ltac:(lia)). lia.
Qed.

Lemma wrap32_add_l a b : wrap32 (wrap32 a + b) = wrap32 (a + b).
Proof.
  unfold wrap32. f_equal.
  replace ((a + 2147483648) mod 4294967296 - 2147483648 + b + 2147483648)
    with ((a + 2147483648) mod 4294967296 + b) by lia.
  rewrite Zplus_mod_idemp_l. f_equal. lia.
Qed.

(* ------------------------------------------------------------------ *)
(** * The list builders *)

Lemma rev_map_onto_spec {A B} (f : A -> B) l acc : rev_map_onto f l acc = rev (map f l) ++ acc.
Proof.
  revert acc. induction l as [|x l IH]; intros acc; cbn; auto.
  rewrite IH, <- app_assoc. reflexivity.
Qed.

Lemma tr_map_map {A B} (f : A -> B) l : tr_map f l = map f l.
Proof.
  unfold tr_map. rewrite rev_append_rev, rev_map_onto_spec, !app_nil_r. apply rev_involutive.
Qed.

Lemma tr_app_app {A} (l1 l2 : list A) : tr_app l1 l2 = l1 ++ l2.
Proof. unfold tr_app. rewrite !rev_append_rev, app_nil_r, rev_involutive. reflexivity. Qed.

(* n iterations of a counting loop that conses f i *)
Lemma iter_cons_spec {A} (f : Z -> A) (n : nat) : forall start acc,
  nat_rect (fun _ => (Z * list A)%type) (start, acc) (fun _ '(i, a) => (i + 1, f i :: a)) n
  = (start + Z.of_nat n, rev (map (fun k => f (start + Z.of_nat k)) (seq 0 n)) ++ acc).
Proof.
  induction n as [|n IH]; intros start acc.
  - cbn. f_equal. lia.
  - cbn [nat_rect]. rewrite IH. rewrite seq_S, map_app, rev_app_distr. cbn. f_equal. lia.
Qed.

Lemma id_list_add_spec ids id num stride : 0 <= num ->
  id_list_add ids id num stride = ids ++ map wrap32 (expand_ids id num stride).
Proof.
  intros Hn. unfold id_list_add, expand_ids.
  rewrite iter_nat_of_Z by assumption. rewrite Zabs2Nat.abs_nat_nonneg by assumption.
  rewrite (iter_cons_spec (fun i => id_at id stride i)). cbn [snd].
  rewrite !rev_append_rev, !app_nil_r, rev_app_distr, !rev_involutive.
  f_equal. rewrite map_map. apply map_ext. intros k. now rewrite id_at_wrap.
Qed.

Lemma list_add_spec lists vbase num stride : 1 <= num ->
  list_add lists (map wrap32 vbase) num stride
  = lists ++ map (map wrap32) (expand_lists vbase num stride).
Proof.
  intros Hn. unfold list_add, expand_lists.
  rewrite iter_nat_of_Z by lia. rewrite Zabs2Nat.abs_nat_nonneg by lia.
  rewrite (iter_cons_spec (fun i => tr_map (fun x => id_at x stride i) (map wrap32 vbase))). cbn [snd].
  rewrite !rev_append_rev, !app_nil_r, rev_app_distr, rev_involutive. cbn [rev].
  rewrite rev_involutive, <- app_assoc. cbn [app]. f_equal.
  replace (Z.to_nat num) with (S (Z.to_nat (num - 1))) by lia.
  cbn [seq map]. f_equal.
  - rewrite map_map. apply map_ext. intros x. cbn. f_equal. lia.
  - rewrite <- seq_shift, !map_map. apply map_ext. intros k.
    rewrite tr_map_map, !map_map. apply map_ext. intros x.
    rewrite id_at_wrap, wrap32_add_l. f_equal. lia.
Qed.

(* ------------------------------------------------------------------ *)
(** * consume_symbol *)

Fixpoint skip_ws (l : list Z) : list Z :=
  match l with c :: l' => if is_whitespace c then skip_ws l' else l | [] => [] end.

(* what consume_symbol computes, as a function of the rest of the string *)
Definition csym_fun (suf : list Z) (index : nat) (sym : Z) : res nat :=
  match skip_ws suf with
  | [] => if 0 =? sym then Ok (index + length suf + 1)%nat else Fail
  | c :: _ => if c =? sym then Ok (index + (length suf - length (skip_ws suf)) + 1)%nat else Fail
  end.

Lemma skip_ws_length l : (length (skip_ws l) <= length l)%nat.
Proof. induction l as [|c l IH]; cbn; [lia|]. destruct (is_whitespace c); cbn; lia. Qed.

Lemma consume_symbol_loop_fun sym : is_whitespace sym = false ->
  forall fuel str index suf, At str index suf -> (length suf < fuel)%nat ->
  consume_symbol_loop fuel str index sym = csym_fun suf index sym.
Proof.
  intros Hs. induction fuel as [|fuel IH]; intros str index suf HA Hf; [lia|].
  cbn [consume_symbol_loop]. destruct suf as [|c suf].
  - rewrite (rd_At_nil _ _ HA). unfold csym_fun. cbn [skip_ws length].
    destruct (0 =? sym); [f_equal; lia|]. reflexivity.
  - rewrite (rd_At_cons _ _ _ _ HA). unfold csym_fun. cbn [skip_ws].
    destruct (Z.eqb_spec c sym) as [->|Hne].
    + rewrite Hs. rewrite Z.eqb_refl. cbn [length]. f_equal. lia.
    + destruct (is_whitespace c) eqn:Hw.
      * rewrite (IH str (S index) suf (At_cons _ _ _ _ HA)) by (cbn in Hf; lia).
        unfold csym_fun. pose proof (skip_ws_length suf).
        destruct (skip_ws suf) as [|d tl] eqn:E; cbn [length] in *.
        -- destruct (0 =? sym); [f_equal; lia|reflexivity].
        -- destruct (d =? sym); [f_equal; lia|reflexivity].
      * destruct (Z.eqb_spec c sym); [contradiction|reflexivity].
Qed.

Lemma consume_symbol_fun sym str index suf : is_whitespace sym = false -> At str index suf ->
  consume_symbol str index sym = csym_fun suf index sym.
Proof.
  intros Hs HA. unfold consume_symbol. apply consume_symbol_loop_fun; auto.
  rewrite (At_len _ _ _ HA). lia.
Qed.

Lemma skip_ws_split l : exists ws, all_ws ws /\ l = ws ++ skip_ws l /\
  match skip_ws l with c :: _ => is_whitespace c = false | [] => True end.
Proof.
  induction l as [|c l (ws & Hw & E & Hh)]; [exists []; repeat split; constructor|].
  cbn [skip_ws]. destruct (is_whitespace c) eqn:Hc.
  - exists (c :: ws). repeat split; auto; [constructor; auto | cbn; congruence].
  - exists []. repeat split; auto. constructor.
Qed.

Lemma skip_ws_app ws l : all_ws ws -> skip_ws (ws ++ l) = skip_ws l.
Proof. induction 1 as [|c ws Hc _ IH]; cbn; auto. now rewrite Hc. Qed.

Lemma skip_ws_head c l : is_whitespace c = false -> skip_ws (c :: l) = c :: l.
Proof. intros H. cbn. now rewrite H. Qed.

(* soundness form *)
Lemma csym_fun_ok suf index sym j : sym <> 0 -> csym_fun suf index sym = Ok j ->
  exists ws rest, all_ws ws /\ suf = (ws ++ [sym]) ++ rest /\ j = (index + length (ws ++ [sym]))%nat.
Proof.
  intros Hs. unfold csym_fun. destruct (skip_ws_split suf) as (ws & Hw & E & _).
  destruct (skip_ws suf) as [|c tl] eqn:Esk.
  - destruct (Z.eqb_spec 0 sym); [congruence|discriminate].
  - destruct (Z.eqb_spec c sym) as [->|]; [|discriminate]. intros [= <-].
    exists ws, tl. split; auto. split; [rewrite <- app_assoc; exact E|].
    rewrite E at 1. rewrite !app_length. cbn [length]. lia.
Qed.

Lemma csym_fun_nul suf index j : csym_fun suf index 0 = Ok j -> nz suf -> all_ws suf.
Proof.
  unfold csym_fun. destruct (skip_ws_split suf) as (ws & Hw & E & _). intros H Hz.
  destruct (skip_ws suf) as [|c tl] eqn:Esk.
  - rewrite app_nil_r in E. now subst.
  - destruct (Z.eqb_spec c 0) as [->|]; [|discriminate].
    rewrite E in Hz. apply nz_app in Hz. destruct Hz as [_ Hz]. inversion Hz; congruence.
Qed.

(* completeness forms *)
Lemma csym_fun_intro ws sym rest index : all_ws ws -> is_whitespace sym = false ->
  csym_fun ((ws ++ [sym]) ++ rest) index sym = Ok (index + length (ws ++ [sym]))%nat.
Proof.
  intros Hw Hs. unfold csym_fun. rewrite <- app_assoc, skip_ws_app by auto. cbn [app].
  rewrite skip_ws_head by auto. rewrite Z.eqb_refl. f_equal. rewrite !app_length. cbn [length]. lia.
Qed.

Lemma csym_fun_nul_intro ws index : all_ws ws -> csym_fun ws index 0 = Ok (index + length ws + 1)%nat.
Proof.
  intros Hw. unfold csym_fun. rewrite <- (app_nil_r ws) at 1. rewrite skip_ws_app by auto. reflexivity.
Qed.

(* the first character after white space decides *)
Definition first_tok (l : list Z) : Z := match skip_ws l with c :: _ => c | [] => 0 end.

Lemma csym_fun_fail suf index sym : first_tok suf <> sym -> csym_fun suf index sym = Fail.
Proof.
  unfold first_tok, csym_fun. destruct (skip_ws suf) as [|c tl]; intros H.
  - destruct (Z.eqb_spec 0 sym); [contradiction|reflexivity].
  - destruct (Z.eqb_spec c sym); [contradiction|reflexivity].
Qed.

Lemma csym_fun_cases suf index sym : (exists j, csym_fun suf index sym = Ok j) \/ csym_fun suf index sym = Fail.
Proof.
  unfold csym_fun. destruct (skip_ws suf); [destruct (0 =? sym)|destruct (_ =? sym)]; eauto.
Qed.

Lemma first_tok_ws ws l : all_ws ws -> first_tok (ws ++ l) = first_tok l.
Proof. intros. unfold first_tok. now rewrite skip_ws_app. Qed.

Lemma first_tok_head c l : is_whitespace c = false -> first_tok (c :: l) = c.
Proof. intros. unfold first_tok. now rewrite skip_ws_head. Qed.

(* ------------------------------------------------------------------ *)
(** * consume_int *)

(* the while (1) loop of consume_int as a recursion on the rest of the string *)
Fixpoint cint_l (guard : bool) (l : list Z) (index : nat) (val val_sign : Z) (flag : cflag)
  : res (nat * Z) :=
  match l with
  | [] => if flag_is_v flag then bind (iop (val * val_sign)) (fun v => Ok (index, v)) else Fail
  | c :: l' =>
      if negb (flag_is_v flag) && (c =? 45) then
        bind (iop (- val_sign)) (fun vs => cint_l guard l' (S index) val vs Fs)
      else if negb (flag_is_v flag) && (c =? 43) then cint_l guard l' (S index) val val_sign Fs
      else if flag_is_n flag && is_whitespace c then cint_l guard l' (S index) val val_sign flag
      else if af_is_digit c then
        if guard && (val >? (AF_INT_MAX - (c - 48)) / 10) then Fail
        else
          bind (iop (val * 10)) (fun t =>
          bind (iop (t + (c - 48))) (fun val' => cint_l guard l' (S index) val' val_sign Fv))
      else if flag_is_v flag then bind (iop (val * val_sign)) (fun v => Ok (index, v))
      else Fail
  end.

Lemma consume_int_loop_l guard : forall fuel str index suf val val_sign flag,
  At str index suf -> (length suf < fuel)%nat ->
  consume_int_loop guard fuel str index val val_sign flag = cint_l guard suf index val val_sign flag.
Proof.
  induction fuel as [|fuel IH]; intros str index suf val vs flag HA Hf; [lia|].
  cbn [consume_int_loop]. destruct suf as [|c suf].
  - rewrite (rd_At_nil _ _ HA). cbn [cint_l].
    change (0 =? 45) with false. change (0 =? 43) with false.
    change (is_whitespace 0) with false. change (af_is_digit 0) with false.
    rewrite !andb_false_r. reflexivity.
  - rewrite (rd_At_cons _ _ _ _ HA). cbn [cint_l].
    pose proof (At_cons _ _ _ _ HA) as HA'. cbn [length] in Hf.
    assert (Hf' : (length suf < fuel)%nat) by lia.
    destruct (negb (flag_is_v flag) && (c =? 45)).
    { destruct (iop (- vs)); cbn [bind]; auto. }
    destruct (negb (flag_is_v flag) && (c =? 43)); [auto|].
    destruct (flag_is_n flag && is_whitespace c); [auto|].
    destruct (af_is_digit c); [|reflexivity].
    destruct (guard && (val >? (AF_INT_MAX - (c - 48)) / 10)); [reflexivity|].
    destruct (iop (val * 10)); cbn [bind]; auto.
    destruct (iop (a + (c - 48))); cbn [bind]; auto.
Qed.

Fixpoint span_p (p : Z -> bool) (l : list Z) : list Z * list Z :=
  match l with
  | c :: l' => if p c then let (a, b) := span_p p l' in (c :: a, b) else ([], l)
  | [] => ([], [])
  end.

Definition head_fails (p : Z -> bool) (l : list Z) : Prop :=
  match l with c :: _ => p c = false | [] => True end.

Lemma span_p_spec p l : let (a, b) := span_p p l in
  l = a ++ b /\ Forall (fun c => p c = true) a /\ head_fails p b.
Proof.
  induction l as [|c l IH]; cbn; [repeat split; constructor|].
  destruct (p c) eqn:Hp.
  - destruct (span_p p l) as [a b]. destruct IH as (-> & Ha & Hb). repeat split; auto.
  - repeat split; auto. 
Qed.

Lemma span_p_intro p a b : Forall (fun c => p c = true) a -> head_fails p b -> span_p p (a ++ b) = (a, b).
Proof.
  induction 1 as [|c a Hc _ IH]; intros Hb; cbn.
  - destruct b as [|c b]; auto. cbn in *. now rewrite Hb.
  - rewrite Hc, IH by auto. reflexivity.
Qed.

Definition ovf_res (guard : bool) : res (nat * Z) := if guard then Fail else IntOvf.

(* after the first digit (flag 'v') *)
Definition cint_digits (guard : bool) (l : list Z) (index : nat) (val sign : Z) : res (nat * Z) :=
  let (dg, _) := span_p af_is_digit l in
  if digits_value val dg <=? AF_INT_MAX
  then Ok ((index + length dg)%nat, digits_value val dg * sign)
  else ovf_res guard.

Lemma digit_range c : af_is_digit c = true -> 0 <= c - 48 <= 9.
Proof. unfold af_is_digit. intros H. apply andb_true_iff in H. lia. Qed.

Lemma digit_not_other c : af_is_digit c = true ->
  (c =? 45) = false /\ (c =? 43) = false /\ is_whitespace c = false /\ is_sign c = false.
Proof.
  intros H. apply digit_range in H. unfold is_whitespace, is_sign.
  repeat split; repeat (apply orb_false_iff; split); lia.
Qed.

Lemma ws_not_other c : is_whitespace c = true ->
  (c =? 45) = false /\ (c =? 43) = false /\ af_is_digit c = false /\ is_sign c = false.
Proof.
  unfold is_whitespace, af_is_digit, is_sign. intros H.
  repeat (apply orb_true_iff in H; destruct H as [H|H]); apply Z.eqb_eq in H; subst; auto.
Qed.

Lemma digits_value_mono l : forall acc, 0 <= acc -> Forall (fun c => af_is_digit c = true) l ->
  acc <= digits_value acc l.
Proof.
  induction l as [|c l IH]; intros acc Ha Hl; cbn; [lia|].
  inversion Hl as [|? ? Hc Hl']; subst. apply digit_range in Hc.
  specialize (IH (acc * 10 + (c - 48)) ltac:(lia) Hl'). lia.
Qed.

Lemma fits_iop z : AF_INT_MIN <= z <= AF_INT_MAX -> iop z = Ok z.
Proof.
  intros H. unfold iop, fits_int.
  destruct (Z.leb_spec AF_INT_MIN z), (Z.leb_spec z AF_INT_MAX); cbn; auto; lia.
Qed.

Lemma nofit_iop z : AF_INT_MAX < z -> iop z = IntOvf.
Proof.
  intros H. unfold iop, fits_int. destruct (Z.leb_spec z AF_INT_MAX); [lia|].
  now rewrite andb_false_r.
Qed.

Lemma guard_iff val d : (val >? (AF_INT_MAX - d) / 10) = (val * 10 + d >? AF_INT_MAX).
Proof.
  pose proof (Z.div_mod (AF_INT_MAX - d) 10 ltac:(lia)).
  pose proof (Z.mod_pos_bound (AF_INT_MAX - d) 10 ltac:(lia)).
  destruct (Z.gtb_spec val ((AF_INT_MAX - d) / 10)), (Z.gtb_spec (val * 10 + d) AF_INT_MAX); auto; lia.
Qed.

Lemma cint_l_digits guard : forall l index val sign,
  0 <= val <= AF_INT_MAX -> sign = 1 \/ sign = -1 ->
  cint_l guard l index val sign Fv = cint_digits guard l index val sign.
Proof.
  induction l as [|c l IH]; intros index val sign Hv Hs; unfold cint_digits.
  - cbn. rewrite fits_iop by (unfold AF_INT_MIN, AF_INT_MAX in *; destruct Hs; subst; lia).
    cbn. destruct (Z.leb_spec val AF_INT_MAX); [|lia]. now rewrite Nat.add_0_r.
  - cbn [cint_l flag_is_v flag_is_n negb andb span_p].
    destruct (af_is_digit c) eqn:Hd.
    + pose proof (digit_range c Hd) as Hr. rewrite guard_iff.
      pose proof (span_p_spec af_is_digit l) as Hsp.
      destruct (span_p af_is_digit l) as [dg rest] eqn:Esp. destruct Hsp as (_ & Hdg & _).
      cbn [digits_value length].
      destruct (Z.gtb_spec (val * 10 + (c - 48)) AF_INT_MAX) as [Ho|Ho].
      * pose proof (digits_value_mono dg (val * 10 + (c - 48)) ltac:(lia) Hdg).
        destruct (Z.leb_spec (digits_value (val * 10 + (c - 48)) dg) AF_INT_MAX); [lia|].
        destruct guard; cbn [andb ovf_res]; [reflexivity|].
        destruct (Z_le_gt_dec (val * 10) AF_INT_MAX).
        -- rewrite fits_iop by (unfold AF_INT_MIN, AF_INT_MAX in *; lia). cbn [bind].
           now rewrite nofit_iop by lia.
        -- now rewrite nofit_iop by lia.
      * rewrite andb_false_r.
        rewrite fits_iop by (unfold AF_INT_MIN, AF_INT_MAX in *; lia). cbn [bind].
        rewrite fits_iop by (unfold AF_INT_MIN, AF_INT_MAX in *; lia). cbn [bind].
        rewrite IH by (auto; lia). unfold cint_digits. rewrite Esp.
        destruct (digits_value (val * 10 + (c - 48)) dg <=? AF_INT_MAX); [|reflexivity].
        f_equal. f_equal. lia.
    + rewrite fits_iop by (unfold AF_INT_MIN, AF_INT_MAX in *; destruct Hs; subst; lia).
      cbn. destruct (Z.leb_spec val AF_INT_MAX); [|lia]. now rewrite Nat.add_0_r.
Qed.

(* a digit is handled the same way whatever the flag *)
Lemma cint_l_digit_flag guard c l index val sign flag : af_is_digit c = true ->
  cint_l guard (c :: l) index val sign flag = cint_l guard (c :: l) index val sign Fv.
Proof.
  intros Hd. destruct (digit_not_other c Hd) as (H1 & H2 & H3 & _).
  cbn [cint_l]. rewrite H1, H2, H3, Hd, !andb_false_r. reflexivity.
Qed.

(* signs seen or allowed, no digit yet *)
Definition cint_signs (guard : bool) (l : list Z) (index : nat) (sign : Z) : res (nat * Z) :=
  let (sg, l2) := span_p is_sign l in
  match l2 with
  | c :: _ => if af_is_digit c
              then cint_digits guard l2 (index + length sg)%nat 0 (sign * signs_value sg)
              else Fail
  | [] => Fail
  end.

Lemma cint_l_signs guard : forall l index sign flag,
  sign = 1 \/ sign = -1 -> flag <> Fv -> (flag = Fn -> head_fails is_whitespace l) ->
  cint_l guard l index 0 sign flag = cint_signs guard l index sign.
Proof.
  induction l as [|c l IH]; intros index sign flag Hs Hf Hw; unfold cint_signs.
  - cbn. destruct flag; try reflexivity. contradiction.
  - assert (Hnv : flag_is_v flag = false) by (destruct flag; auto; contradiction).
    cbn [cint_l span_p]. rewrite Hnv. cbn [negb andb].
    unfold is_sign at 1.
    destruct (Z.eqb_spec c 45) as [->|N45].
    + cbn [orb]. rewrite fits_iop by (unfold AF_INT_MIN, AF_INT_MAX; destruct Hs; subst; lia).
      cbn [bind]. rewrite IH; try discriminate; [|destruct Hs; subst; auto].
      unfold cint_signs. destruct (span_p is_sign l) as [sg l2].
      destruct l2 as [|d l2]; [reflexivity|]. destruct (af_is_digit d); [|reflexivity].
      cbn [length signs_value]. change (45 =? 45) with true. cbv iota.
      replace (sign * - signs_value sg) with (- sign * signs_value sg) by ring.
      replace (S index + length sg)%nat with (index + S (length sg))%nat by lia. reflexivity.
    + destruct (Z.eqb_spec c 43) as [->|N43].
      * cbn [orb]. rewrite IH; try discriminate; auto.
        unfold cint_signs. destruct (span_p is_sign l) as [sg l2].
        destruct l2 as [|d l2]; [reflexivity|]. destruct (af_is_digit d); [|reflexivity].
        cbn [length signs_value]. change (43 =? 45) with false. cbv iota.
        replace (S index + length sg)%nat with (index + S (length sg))%nat by lia. reflexivity.
      * cbn [orb].
        assert (Hws : flag_is_n flag && is_whitespace c = false).
        { destruct flag; cbn; auto. apply (Hw eq_refl). }
        rewrite Hws. destruct (af_is_digit c) eqn:Hd; [|reflexivity].
        transitivity (cint_l guard (c :: l) index 0 sign Fv).
        { cbn [cint_l flag_is_v flag_is_n negb andb]. rewrite Hd. reflexivity. }
        rewrite (cint_l_digits guard (c :: l) index 0 sign) by (auto; unfold AF_INT_MAX; lia).
        cbn [length signs_value]. rewrite Nat.add_0_r, Z.mul_1_r. reflexivity.
Qed.

(* what consume_int computes, as a function of the rest of the string *)
Definition cint_fun (guard : bool) (suf : list Z) (index : nat) : res (nat * Z) :=
  cint_signs guard (skip_ws suf) (index + (length suf - length (skip_ws suf)))%nat 1.

Lemma cint_l_fun guard : forall l index, cint_l guard l index 0 1 Fn = cint_fun guard l index.
Proof.
  induction l as [|c l IH]; intros index; unfold cint_fun.
  - reflexivity.
  - cbn [skip_ws]. destruct (is_whitespace c) eqn:Hw.
    + destruct (ws_not_other c Hw) as (H1 & H2 & _).
      cbn [cint_l flag_is_v flag_is_n negb andb]. rewrite H1, H2, Hw. rewrite IH. unfold cint_fun.
      pose proof (skip_ws_length l). cbn [length].
      replace (S index + (length l - length (skip_ws l)))%nat
        with (index + (S (length l) - length (skip_ws l)))%nat by lia. reflexivity.
    + rewrite Nat.sub_diag, Nat.add_0_r. apply cint_l_signs; auto; discriminate.
Qed.

Lemma consume_int_fun guard str index suf : At str index suf ->
  consume_int guard str index = cint_fun guard suf index.
Proof.
  intros HA. unfold consume_int. rewrite (consume_int_loop_l guard _ str index suf) by
      (auto; rewrite (At_len _ _ _ HA); lia).
  apply cint_l_fun.
Qed.

(* ---- consume_int (fixed code) and the <integer> token ---- *)
Lemma cint_fun_cases suf index :
  (exists j v, cint_fun true suf index = Ok (j, v)) \/ cint_fun true suf index = Fail.
Proof.
  unfold cint_fun, cint_signs. destruct (span_p is_sign (skip_ws suf)) as [sg l2].
  destruct l2 as [|c l2]; auto. destruct (af_is_digit c); auto.
  unfold cint_digits. destruct (span_p af_is_digit (c :: l2)) as [dg l3].
  destruct (_ <=? _); cbn; eauto.
Qed.

Lemma cint_fun_buggy suf index :
  cint_fun false suf index = IntOvf \/ cint_fun false suf index = cint_fun true suf index.
Proof.
  unfold cint_fun, cint_signs. destruct (span_p is_sign (skip_ws suf)) as [sg l2].
  destruct l2 as [|c l2]; auto. destruct (af_is_digit c); auto.
  unfold cint_digits. destruct (span_p af_is_digit (c :: l2)) as [dg l3].
  destruct (_ <=? _); cbn; auto.
Qed.

Lemma cint_signs_sound l index sign j v : cint_signs true l index sign = Ok (j, v) ->
  exists sg dg l3, l = sg ++ dg ++ l3 /\ Forall (fun c => is_sign c = true) sg /\
    Forall (fun c => af_is_digit c = true) dg /\ dg <> [] /\ digits_value 0 dg <= AF_INT_MAX /\
    j = (index + length sg + length dg)%nat /\ v = digits_value 0 dg * (sign * signs_value sg) /\
    head_fails af_is_digit l3.
Proof.
  unfold cint_signs.
  pose proof (span_p_spec is_sign l) as Hsp.
  destruct (span_p is_sign l) as [sg l2]. destruct Hsp as (E2 & Hsg & _).
  destruct l2 as [|c l2]; [discriminate|]. destruct (af_is_digit c) eqn:Hd; [|discriminate].
  unfold cint_digits.
  pose proof (span_p_spec af_is_digit (c :: l2)) as Hsp.
  destruct (span_p af_is_digit (c :: l2)) as [dg l3] eqn:Esp. destruct Hsp as (E3 & Hdg & Hl3).
  assert (Hne : dg <> []).
  { cbn [span_p] in Esp. rewrite Hd in Esp. destruct (span_p af_is_digit l2). injection Esp as <- _. discriminate. }
  destruct (Z.leb_spec (digits_value 0 dg) AF_INT_MAX) as [Hle|]; [|discriminate].
  intros H. injection H as Hj Hv.
  exists sg, dg, l3. rewrite E2, E3. repeat split; auto.
Qed.

Lemma cint_fun_sound suf index j v : cint_fun true suf index = Ok (j, v) ->
  exists l rest, suf = l ++ rest /\ j = (index + length l)%nat /\ G_int l v /\
                 (0 < length l)%nat /\ head_fails af_is_digit rest.
Proof.
  unfold cint_fun. intros H.
  destruct (skip_ws_split suf) as (ws & Hw & E & _).
  apply cint_signs_sound in H. destruct H as (sg & dg & l3 & E2 & Hsg & Hdg & Hne & Hle & Hj & Hv & Hl3).
  rewrite Z.mul_1_l, Z.mul_comm in Hv. subst v.
  exists (ws ++ sg ++ dg), l3. split; [|split; [|split; [|split]]]; auto.
  - rewrite E at 1. rewrite E2. now rewrite <- !app_assoc.
  - rewrite Hj. rewrite E at 1. rewrite E2. rewrite !app_length. lia.
  - constructor; auto.
  - rewrite !app_length. destruct dg; [contradiction|cbn; lia].
Qed.

Lemma sign_not_ws c : is_sign c = true -> is_whitespace c = false.
Proof.
  unfold is_sign, is_whitespace. intros H.
  apply orb_true_iff in H. destruct H as [H|H]; apply Z.eqb_eq in H; subst; reflexivity.
Qed.

Lemma sign_not_digit c : is_sign c = true -> af_is_digit c = false.
Proof.
  unfold is_sign. intros H.
  apply orb_true_iff in H. destruct H as [H|H]; apply Z.eqb_eq in H; subst; reflexivity.
Qed.

Lemma cint_fun_complete l v rest index : G_int l v -> head_fails af_is_digit rest ->
  cint_fun true (l ++ rest) index = Ok ((index + length l)%nat, v).
Proof.
  intros HG Hr. destruct HG as [ws sg dg Hw Hsg Hdg Hne Hle].
  destruct dg as [|d dg]; [contradiction|]. inversion Hdg as [|? ? Hd Hdg']; subst.
  destruct (digit_not_other d Hd) as (_ & _ & Hdw & Hds).
  unfold cint_fun, cint_signs.
  assert (Esk : skip_ws ((ws ++ sg ++ d :: dg) ++ rest) = sg ++ (d :: dg) ++ rest).
  { rewrite <- !app_assoc. rewrite skip_ws_app by auto.
    destruct sg as [|s sg]; cbn [app]; apply skip_ws_head; auto.
    inversion Hsg; subst. now apply sign_not_ws. }
  rewrite Esk. rewrite (span_p_intro is_sign sg ((d :: dg) ++ rest)) by (auto; exact Hds).
  cbn [app]. rewrite Hd. unfold cint_digits.
  change (d :: dg ++ rest) with ((d :: dg) ++ rest).
  rewrite (span_p_intro af_is_digit (d :: dg) rest) by auto.
  destruct (Z.leb_spec (digits_value 0 (d :: dg)) AF_INT_MAX); [|lia].
  f_equal. f_equal; [|ring].
  rewrite ?app_length. cbn [length]. rewrite ?app_length. cbn [length]. lia.
Qed.

(* when the next token starts with neither a sign nor a digit, consume_int fails
   (also in the code as it stands: nothing is multiplied) *)
Lemma cint_fun_fail_tok guard suf index :
  is_sign (first_tok suf) = false -> af_is_digit (first_tok suf) = false ->
  cint_fun guard suf index = Fail.
Proof.
  unfold first_tok, cint_fun, cint_signs. destruct (skip_ws suf) as [|c tl]; [reflexivity|].
  intros Hs Hd. cbn [span_p]. rewrite Hs, Hd. reflexivity.
Qed.

Lemma G_int_first_tok l v rest : G_int l v ->
  is_sign (first_tok (l ++ rest)) = true \/ af_is_digit (first_tok (l ++ rest)) = true.
Proof.
  intros [ws sg dg Hw Hsg Hdg Hne _]. rewrite <- !app_assoc, first_tok_ws by auto.
  destruct sg as [|s sg].
  - destruct dg as [|d dg]; [contradiction|]. inversion Hdg; subst. right.
    cbn [app]. rewrite first_tok_head; auto. now apply digit_not_other.
  - inversion Hsg; subst. left. cbn [app]. rewrite first_tok_head; auto. now apply sign_not_ws.
Qed.

Lemma G_sym_first_tok c l rest : is_whitespace c = false -> G_sym c l -> first_tok (l ++ rest) = c.
Proof.
  intros Hc [ws Hw]. rewrite <- app_assoc, first_tok_ws by auto. cbn. now apply first_tok_head.
Qed.

Lemma G_int_nonempty l v : G_int l v -> (0 < length l)%nat.
Proof.
  intros [ws sg dg _ _ _ Hne _]. rewrite !app_length. destruct dg; [contradiction|cbn; lia].
Qed.

Lemma G_int_range l v : G_int l v -> - AF_INT_MAX <= v <= AF_INT_MAX.
Proof.
  intros [ws sg dg _ _ Hdg _ Hle].
  pose proof (digits_value_mono dg 0 ltac:(lia) Hdg).
  assert (signs_value sg = 1 \/ signs_value sg = -1) as [->| ->]; [|lia|lia].
  clear. induction sg as [|c sg IH]; cbn; auto. destruct (c =? 45); lia.
Qed.

(* ------------------------------------------------------------------ *)
(** * Right-recursive form of the list rule (what the loops build) *)

Inductive G_sep_r {A : Type} (item : list Z -> list A -> Prop) : list Z -> list A -> Prop :=
| G_sep_r_one l v : item l v -> G_sep_r item l v
| G_sep_r_more l1 v1 l2 l3 v3 :
    item l1 v1 -> G_sym 44 l2 -> G_sep_r item l3 v3 -> G_sep_r item (l1 ++ l2 ++ l3) (v1 ++ v3).

Lemma G_sep_app_r {A} (item : list Z -> list A -> Prop) l3 v3 : G_sep_r item l3 v3 ->
  forall l0 v0 l2, G_sep item l0 v0 -> G_sym 44 l2 -> G_sep item (l0 ++ l2 ++ l3) (v0 ++ v3).
Proof.
  induction 1 as [l v Hi | l1 v1 l2' l3 v3 Hi Hs _ IH]; intros l0 v0 l2 H0 H2.
  - now apply G_sep_more.
  - replace (l0 ++ l2 ++ l1 ++ l2' ++ l3) with ((l0 ++ l2 ++ l1) ++ l2' ++ l3) by now rewrite <- !app_assoc.
    replace (v0 ++ v1 ++ v3) with ((v0 ++ v1) ++ v3) by now rewrite <- app_assoc.
    apply IH; auto. now apply G_sep_more.
Qed.

Lemma G_sep_of_r {A} (item : list Z -> list A -> Prop) l v : G_sep_r item l v -> G_sep item l v.
Proof.
  destruct 1 as [l v Hi | l1 v1 l2 l3 v3 Hi Hs Hr]; [now apply G_sep_one|].
  apply (G_sep_app_r item l3 v3 Hr); auto. now apply G_sep_one.
Qed.

Lemma G_sep_r_snoc {A} (item : list Z -> list A -> Prop) l1 v1 : G_sep_r item l1 v1 ->
  forall l2 l3 v3, G_sym 44 l2 -> item l3 v3 -> G_sep_r item (l1 ++ l2 ++ l3) (v1 ++ v3).
Proof.
  induction 1 as [l v Hi | l1 v1 l2' l3' v3' Hi Hs _ IH]; intros l2 l3 v3 H2 H3.
  - apply G_sep_r_more; auto. now apply G_sep_r_one.
  - rewrite <- !app_assoc. apply G_sep_r_more; auto.
Qed.

Lemma G_sep_to_r {A} (item : list Z -> list A -> Prop) l v : G_sep item l v -> G_sep_r item l v.
Proof.
  induction 1 as [l v Hi | l1 v1 l2 l3 v3 _ IH Hs Hi]; [now apply G_sep_r_one|].
  now apply G_sep_r_snoc.
Qed.

(* ------------------------------------------------------------------ *)
(** * The fixed code accepts only strings of the grammar, reads inside the
      string, never runs out of fuel and never overflows an int *)

Ltac splits := repeat match goal with |- _ /\ _ => split end.
Ltac fin := splits; auto; try reflexivity; try (cbn [length]; rewrite ?app_length; cbn [length]; lia).

Lemma nws58 : is_whitespace 58 = false. Proof. reflexivity. Qed.
Lemma nws44 : is_whitespace 44 = false. Proof. reflexivity. Qed.
Lemma nws123 : is_whitespace 123 = false. Proof. reflexivity. Qed.
Lemma nws125 : is_whitespace 125 = false. Proof. reflexivity. Qed.
Lemma nws0 : is_whitespace 0 = false. Proof. reflexivity. Qed.

Lemma consume_int_spec str i suf : At str i suf ->
  match consume_int true str i with
  | Ok (j, v) => exists l rest, suf = l ++ rest /\ j = (i + length l)%nat /\ G_int l v /\
                                (0 < length l)%nat /\ head_fails af_is_digit rest
  | Fail => True
  | _ => False
  end.
Proof.
  intros HA. rewrite (consume_int_fun true str i suf HA).
  destruct (cint_fun_cases suf i) as [(j & v & E)|E]; rewrite E; auto.
  now apply cint_fun_sound.
Qed.

Lemma consume_pint_spec str i suf : At str i suf ->
  match consume_pint true str i with
  | Ok (j, v) => exists l rest, suf = l ++ rest /\ j = (i + length l)%nat /\ G_int l v /\
                                (0 < length l)%nat /\ head_fails af_is_digit rest /\ 0 < v
  | Fail => True
  | _ => False
  end.
Proof.
  intros HA. unfold consume_pint. pose proof (consume_int_spec str i suf HA) as H.
  destruct (consume_int true str i) as [[j v]| | | |]; cbn [orelse]; auto.
  destruct (Z.gtb_spec v 0); auto.
  destruct H as (l & rest & H). exists l, rest. intuition.
Qed.

Lemma consume_symbol_spec str i suf sym : At str i suf -> is_whitespace sym = false -> sym <> 0 ->
  match consume_symbol str i sym with
  | Ok j => exists l rest, suf = l ++ rest /\ j = (i + length l)%nat /\ G_sym sym l
  | Fail => True
  | _ => False
  end.
Proof.
  intros HA Hw Hz. rewrite (consume_symbol_fun sym str i suf Hw HA).
  destruct (csym_fun_cases suf i sym) as [(j & E)|E]; rewrite E; auto.
  destruct (csym_fun_ok _ _ _ _ Hz E) as (ws & rest & Hws & -> & ->).
  exists (ws ++ [sym]), rest. splits; auto. now constructor.
Qed.

Lemma consume_symbol_nul_spec str i suf : At str i suf -> nz str ->
  match consume_symbol str i 0 with
  | Ok j => all_ws suf
  | Fail => True
  | _ => False
  end.
Proof.
  intros HA Hz. rewrite (consume_symbol_fun 0 str i suf nws0 HA).
  destruct (csym_fun_cases suf i 0) as [(j & E)|E]; rewrite E; auto.
  apply (csym_fun_nul _ _ _ E). eapply At_nz; eauto.
Qed.

Lemma opt_num_stride_spec str i suf : At str i suf ->
  match opt_num_stride true str i with
  | Ok (j, num, stride) => exists l rest, suf = l ++ rest /\ j = (i + length l)%nat /\
                                          G_opt l num stride /\ 1 <= num
  | Fail => True
  | _ => False
  end.
Proof.
  intros HA. unfold opt_num_stride.
  pose proof (consume_symbol_spec str i suf 58 HA nws58 ltac:(lia)) as H1.
  destruct (consume_symbol str i 58) as [i1| | | |]; cbn [orelse]; try contradiction.
  2:{ exists [], suf. fin. constructor. }
  destruct H1 as (l1 & r1 & -> & -> & G1).
  pose proof (At_app _ _ _ _ HA) as HA1.
  pose proof (consume_pint_spec str _ r1 HA1) as H2.
  destruct (consume_pint true str (i + length l1)) as [[i2 num]| | | |]; cbn [bind]; try contradiction; auto.
  destruct H2 as (l2 & r2 & -> & -> & G2 & _ & _ & Hpos).
  pose proof (At_app _ _ _ _ HA1) as HA2.
  pose proof (consume_symbol_spec str _ r2 58 HA2 nws58 ltac:(lia)) as H3.
  destruct (consume_symbol str (i + length l1 + length l2) 58) as [i3| | | |]; cbn [orelse]; try contradiction.
  2:{ exists (l1 ++ l2), r2. rewrite <- app_assoc. fin. now apply G_opt_num. }
  destruct H3 as (l3 & r3 & -> & -> & G3).
  pose proof (At_app _ _ _ _ HA2) as HA3.
  pose proof (consume_int_spec str _ r3 HA3) as H4.
  destruct (consume_int true str (i + length l1 + length l2 + length l3)) as [[i4 stride]| | | |];
    cbn [bind]; try contradiction; auto.
  destruct H4 as (l4 & r4 & -> & -> & G4 & _).
  exists (l1 ++ l2 ++ l3 ++ l4), r4. rewrite <- !app_assoc. fin. now apply G_opt_num_stride.
Qed.

Lemma id_list_loop_spec : forall fuel str i suf ids, At str i suf -> (length suf < fuel)%nat ->
  match id_list_loop true fuel str i ids with
  | Ok (j, ids') => exists l l' rest v, suf = l ++ l' ++ rest /\ j = (i + length l + length l')%nat /\
                      G_sep_r G_id_interval l v /\ G_sym 125 l' /\ ids' = ids ++ map wrap32 v
  | Fail => True
  | _ => False
  end.
Proof.
  induction fuel as [|fuel IH]; intros str i suf ids HA Hf; [lia|].
  cbn [id_list_loop].
  pose proof (consume_int_spec str i suf HA) as H1.
  destruct (consume_int true str i) as [[i1 id]| | | |]; cbn [bind]; try contradiction; auto.
  destruct H1 as (l1 & r1 & -> & -> & G1 & Hl1 & _).
  pose proof (At_app _ _ _ _ HA) as HA1.
  pose proof (opt_num_stride_spec str _ r1 HA1) as H2.
  destruct (opt_num_stride true str (i + length l1)) as [[[i2 num] stride]| | | |]; cbn [bind]; try contradiction; auto.
  destruct H2 as (l2 & r2 & -> & -> & G2 & Hnum).
  pose proof (At_app _ _ _ _ HA1) as HA2.
  destruct (Z.geb_spec num MAX_NUM_ELEMS) as [|Hmax]; auto.
  cbv zeta. rewrite id_list_add_spec by lia.
  assert (GI : G_id_interval (l1 ++ l2) (expand_ids id num stride)) by (constructor; auto).
  pose proof (consume_symbol_spec str _ r2 44 HA2 nws44 ltac:(lia)) as H3.
  destruct (consume_symbol str (i + length l1 + length l2) 44) as [i3| | | |]; cbn [orelse]; try contradiction.
  - destruct H3 as (l3 & r3 & -> & -> & G3).
    pose proof (At_app _ _ _ _ HA2) as HA3.
    rewrite !app_length in Hf.
    specialize (IH str _ r3 (ids ++ map wrap32 (expand_ids id num stride)) HA3 ltac:(lia)).
    destruct (id_list_loop true fuel str (i + length l1 + length l2 + length l3)
                           (ids ++ map wrap32 (expand_ids id num stride))) as [[j ids']| | | |]; auto.
    destruct IH as (l & l' & rest & v & -> & -> & Gl & Gl' & ->).
    exists ((l1 ++ l2) ++ l3 ++ l), l', rest, (expand_ids id num stride ++ v).
    rewrite map_app. fin; try (now rewrite <- !app_assoc).
    now apply G_sep_r_more.
  - pose proof (consume_symbol_spec str _ r2 125 HA2 nws125 ltac:(lia)) as H4.
    destruct (consume_symbol str (i + length l1 + length l2) 125) as [i3| | | |]; cbn [bind]; try contradiction; auto.
    destruct H4 as (l3 & r3 & -> & -> & G3).
    exists (l1 ++ l2), l3, r3, (expand_ids id num stride).
    fin; try (now rewrite <- !app_assoc). now apply G_sep_r_one.
Qed.

Lemma expand_ids_1 id : expand_ids id 1 1 = [id].
Proof. unfold expand_ids. change (Z.to_nat 1) with 1%nat. cbn [seq map]. f_equal. lia. Qed.

Lemma parse_es_id_list_spec str i suf : At str i suf ->
  match parse_es_id_list true str i with
  | Ok (j, ids) => exists l rest v, suf = l ++ rest /\ j = (i + length l)%nat /\
                                    G_es_id_list l v /\ ids = map wrap32 v /\ (0 < length l)%nat
  | Fail => True
  | _ => False
  end.
Proof.
  intros HA. unfold parse_es_id_list.
  pose proof (consume_int_spec str i suf HA) as H1.
  destruct (consume_int true str i) as [[i1 id]| | | |]; cbn [orelse]; try contradiction.
  - destruct H1 as (l1 & r1 & -> & -> & G1 & Hl1 & _).
    exists l1, r1, [id]. rewrite id_list_add_spec by lia. rewrite expand_ids_1.
    fin. now constructor.
  - pose proof (consume_symbol_spec str i suf 123 HA nws123 ltac:(lia)) as H2.
    destruct (consume_symbol str i 123) as [i1| | | |]; cbn [orelse]; try contradiction; auto.
    destruct H2 as (l1 & r1 & -> & -> & G1).
    pose proof (At_app _ _ _ _ HA) as HA1.
    pose proof (id_list_loop_spec (length str + 1) str _ r1 [] HA1
                                  ltac:(rewrite (At_len _ _ _ HA1); lia)) as H3.
    destruct (id_list_loop true (length str + 1) str (i + length l1) []) as [[j ids]| | | |]; auto.
    destruct H3 as (l & l' & rest & v & -> & -> & Gl & Gl' & ->).
    exists (l1 ++ l ++ l'), rest, v.
    fin; try (now rewrite <- !app_assoc).
    + apply G_es_braces; auto. now apply G_sep_of_r.
    + destruct G1 as [ws Hws]. rewrite !app_length. cbn. lia.
Qed.

Lemma parse_list_loop_spec : forall fuel str i suf lists, At str i suf -> nz str ->
  (length suf < fuel)%nat ->
  match parse_list_loop true fuel str i lists with
  | Ok lists' => exists l ws v, suf = l ++ ws /\ all_ws ws /\ G_sep_r G_interval l v /\
                                lists' = lists ++ map (map wrap32) v
  | Fail => True
  | _ => False
  end.
Proof.
  induction fuel as [|fuel IH]; intros str i suf lists HA Hz Hf; [lia|].
  cbn [parse_list_loop].
  pose proof (parse_es_id_list_spec str i suf HA) as H1.
  destruct (parse_es_id_list true str i) as [[i1 base]| | | |]; cbn [bind]; try contradiction; auto.
  destruct H1 as (l1 & r1 & vbase & -> & -> & G1 & -> & Hl1).
  pose proof (At_app _ _ _ _ HA) as HA1.
  pose proof (opt_num_stride_spec str _ r1 HA1) as H2.
  destruct (opt_num_stride true str (i + length l1)) as [[[i2 num] stride]| | | |]; cbn [bind]; try contradiction; auto.
  destruct H2 as (l2 & r2 & -> & -> & G2 & Hnum).
  pose proof (At_app _ _ _ _ HA1) as HA2.
  destruct (Z.geb_spec num MAX_NUM_ELEMS) as [|Hmax]; auto.
  cbv zeta. rewrite list_add_spec by lia.
  assert (GI : G_interval (l1 ++ l2) (expand_lists vbase num stride)) by (constructor; auto).
  pose proof (consume_symbol_spec str _ r2 44 HA2 nws44 ltac:(lia)) as H3.
  destruct (consume_symbol str (i + length l1 + length l2) 44) as [i3| | | |]; cbn [orelse]; try contradiction.
  - destruct H3 as (l3 & r3 & -> & -> & G3).
    pose proof (At_app _ _ _ _ HA2) as HA3.
    rewrite !app_length in Hf.
    specialize (IH str _ r3 (lists ++ map (map wrap32) (expand_lists vbase num stride)) HA3 Hz ltac:(lia)).
    destruct (parse_list_loop true fuel str (i + length l1 + length l2 + length l3)
                (lists ++ map (map wrap32) (expand_lists vbase num stride))) as [lists'| | | |]; auto.
    destruct IH as (l & ws & v & -> & Hws & Gl & ->).
    exists ((l1 ++ l2) ++ l3 ++ l), ws, (expand_lists vbase num stride ++ v).
    rewrite map_app. fin; try (now rewrite <- !app_assoc).
    now apply G_sep_r_more.
  - pose proof (consume_symbol_nul_spec str _ r2 HA2 Hz) as H4.
    destruct (consume_symbol str (i + length l1 + length l2) 0) as [i3| | | |]; cbn [bind]; try contradiction; auto.
    exists (l1 ++ l2), r2, (expand_lists vbase num stride).
    fin; try (now rewrite <- !app_assoc). now apply G_sep_r_one.
Qed.

(* C20_affinity_sound + C20_affinity_expand + memory safety + no overflow for the fixed code *)
Theorem affinity_sound s :
  match affinity_list_create (Some s) with
  | Ok lists => exists v, G_affinity (cstring s) v /\ lists = map (map wrap32) v
  | Fail => True
  | Oob | OutOfFuel | IntOvf => False
  end.
Proof.
  unfold affinity_list_create, parse_list. cbv zeta.
  pose proof (parse_list_loop_spec (length (cstring s) + 1) (cstring s) 0 (cstring s) []
                                   (At_0 _) (cstring_nz s) ltac:(lia)) as H.
  destruct (parse_list_loop true (length (cstring s) + 1) (cstring s) 0 []); auto.
  destruct H as (l & ws & v & E & Hws & Gl & ->). exists v. split; auto.
  rewrite E. constructor; auto. now apply G_sep_of_r.
Qed.

(* ------------------------------------------------------------------ *)
(** * The fixed code accepts every string of the grammar *)

Lemma At_reassoc str i (a b c : list Z) : At str i ((a ++ b) ++ c) -> At str i (a ++ b ++ c).
Proof. now rewrite <- app_assoc. Qed.

Lemma consume_int_complete str i l rest v : At str i (l ++ rest) -> G_int l v ->
  head_fails af_is_digit rest -> consume_int true str i = Ok ((i + length l)%nat, v).
Proof. intros HA G Hr. rewrite (consume_int_fun _ _ _ _ HA). now apply cint_fun_complete. Qed.

Lemma consume_int_fail guard str i suf : At str i suf ->
  is_sign (first_tok suf) = false -> af_is_digit (first_tok suf) = false ->
  consume_int guard str i = Fail.
Proof. intros HA H1 H2. rewrite (consume_int_fun _ _ _ _ HA). now apply cint_fun_fail_tok. Qed.

Lemma consume_symbol_complete str i l rest c : At str i (l ++ rest) -> G_sym c l ->
  is_whitespace c = false -> consume_symbol str i c = Ok (i + length l)%nat.
Proof.
  intros HA G Hc. revert HA. destruct G as [ws Hws]. intros HA.
  rewrite (consume_symbol_fun c _ _ _ Hc HA). now apply csym_fun_intro.
Qed.

Lemma consume_symbol_fail str i suf c : At str i suf -> is_whitespace c = false ->
  first_tok suf <> c -> consume_symbol str i c = Fail.
Proof. intros HA Hc Hf. rewrite (consume_symbol_fun c _ _ _ Hc HA). now apply csym_fun_fail. Qed.

(* what may follow an optional ":" part: not a ':' token, not a digit *)
Definition fol (rest : list Z) : Prop := first_tok rest <> 58 /\ head_fails af_is_digit rest.

Lemma G_sym_head_digit c l X : G_sym c l -> af_is_digit c = false -> head_fails af_is_digit (l ++ X).
Proof.
  intros [ws Hws] Hc. destruct Hws as [|w ws Hw _]; cbn; auto. now apply ws_not_other in Hw.
Qed.

Lemma fol_sym c l X : G_sym c l -> is_whitespace c = false -> c <> 58 -> af_is_digit c = false ->
  fol (l ++ X).
Proof.
  intros G Hw Hc Hd. split; [|now apply (G_sym_head_digit c)].
  now rewrite (G_sym_first_tok c l X Hw G).
Qed.

Lemma fol_ws ws : all_ws ws -> fol ws.
Proof.
  intros H. split.
  - rewrite <- (app_nil_r ws), first_tok_ws by auto. cbn. discriminate.
  - destruct H as [|w ws Hw _]; cbn; auto. now apply ws_not_other in Hw.
Qed.

Lemma G_opt_head l num stride X : G_opt l num stride -> head_fails af_is_digit X ->
  head_fails af_is_digit (l ++ X).
Proof.
  intros G HX. destruct G as [|l1 l2 num G1 _ _|l1 l2 l3 l4 num stride G1 _ _ _ _]; auto;
    rewrite <- app_assoc; now apply (G_sym_head_digit 58).
Qed.

Lemma opt_num_stride_complete str i l rest num stride : G_opt l num stride ->
  At str i (l ++ rest) -> fol rest ->
  opt_num_stride true str i = Ok ((i + length l)%nat, num, stride).
Proof.
  intros G HA [Hf Hd]. unfold opt_num_stride.
  destruct G as [|l1 l2 num G1 G2 Hpos|l1 l2 l3 l4 num stride G1 G2 Hpos G3 G4].
  - rewrite (consume_symbol_fail str i rest 58 HA nws58 Hf). cbn. now rewrite Nat.add_0_r.
  - apply At_reassoc in HA.
    rewrite (consume_symbol_complete str i l1 _ 58 HA G1 nws58). cbn [orelse].
    pose proof (At_app _ _ _ _ HA) as HA1. unfold consume_pint.
    rewrite (consume_int_complete str _ l2 rest num HA1 G2 Hd). cbn [orelse bind].
    destruct (Z.gtb_spec num 0); [|lia]. cbn [bind].
    pose proof (At_app _ _ _ _ HA1) as HA2.
    rewrite (consume_symbol_fail str _ rest 58 HA2 nws58 Hf). cbn [orelse].
    rewrite app_length. do 3 f_equal. lia.
  - rewrite <- !app_assoc in HA.
    rewrite (consume_symbol_complete str i l1 _ 58 HA G1 nws58). cbn [orelse].
    pose proof (At_app _ _ _ _ HA) as HA1. unfold consume_pint.
    rewrite (consume_int_complete str _ l2 _ num HA1 G2) by now apply (G_sym_head_digit 58).
    cbn [orelse bind]. destruct (Z.gtb_spec num 0); [|lia]. cbn [bind].
    pose proof (At_app _ _ _ _ HA1) as HA2.
    rewrite (consume_symbol_complete str _ l3 _ 58 HA2 G3 nws58). cbn [orelse].
    pose proof (At_app _ _ _ _ HA2) as HA3.
    rewrite (consume_int_complete str _ l4 rest stride HA3 G4 Hd). cbn [bind].
    rewrite !app_length. do 3 f_equal. lia.
Qed.

(* one trip through the loop body of parse_es_id_list on an <id-interval> *)
Lemma id_list_loop_step str i l v X fuel ids : G_id_interval l v -> At str i (l ++ X) -> fol X ->
  id_list_loop true (S fuel) str i ids =
  orelse (consume_symbol str (i + length l) 44)
    (fun i3 => id_list_loop true fuel str i3 (ids ++ map wrap32 v))
    (bind (consume_symbol str (i + length l) 125) (fun i3 => Ok (i3, ids ++ map wrap32 v))).
Proof.
  intros G HA HX. destruct G as [l1 l2 id num stride G1 G2 Hmax].
  apply At_reassoc in HA. cbn [id_list_loop].
  rewrite (consume_int_complete str i l1 _ id HA G1) by (apply (G_opt_head l2 num stride); [auto|apply HX]).
  cbn [bind]. pose proof (At_app _ _ _ _ HA) as HA1.
  rewrite (opt_num_stride_complete str _ l2 X num stride G2 HA1 HX). cbn [bind].
  destruct (Z.geb_spec num MAX_NUM_ELEMS); [lia|]. cbv zeta.
  assert (0 <= num) by (destruct G2; lia).
  rewrite id_list_add_spec by assumption. rewrite app_length, Nat.add_assoc. reflexivity.
Qed.

Lemma id_list_loop_complete l v : G_sep_r G_id_interval l v ->
  forall fuel str i l' rest ids, G_sym 125 l' -> At str i (l ++ l' ++ rest) ->
  (length (l ++ l' ++ rest) < fuel)%nat ->
  id_list_loop true fuel str i ids = Ok ((i + length l + length l')%nat, ids ++ map wrap32 v).
Proof.
  induction 1 as [l v Hi | l1 v1 l2 l3 v3 Hi Hs _ IH]; intros fuel str i l' rest ids G' HA Hf;
    (destruct fuel as [|fuel]; [lia|]).
  - rewrite (id_list_loop_step str i l v (l' ++ rest) fuel ids Hi HA) by
        (apply (fol_sym 125); auto; lia).
    pose proof (At_app _ _ _ _ HA) as HA1.
    rewrite (consume_symbol_fail str _ _ 44 HA1 nws44) by
        (rewrite (G_sym_first_tok 125 l' rest nws125 G'); lia).
    cbn [orelse]. rewrite (consume_symbol_complete str _ l' rest 125 HA1 G' nws125). reflexivity.
  - rewrite <- !app_assoc in HA.
    rewrite (id_list_loop_step str i l1 v1 _ fuel ids Hi HA) by
        (apply (fol_sym 44); auto; lia).
    pose proof (At_app _ _ _ _ HA) as HA1.
    rewrite (consume_symbol_complete str _ l2 _ 44 HA1 Hs nws44). cbn [orelse].
    pose proof (At_app _ _ _ _ HA1) as HA2.
    rewrite (IH fuel str _ l' rest _ G' HA2).
    + rewrite map_app, !app_length, app_assoc. do 2 f_equal. lia.
    + rewrite <- !app_assoc, !app_length in Hf. rewrite !app_length.
      destruct Hi as [a b ? ? ? Ga _ _]. pose proof (G_int_nonempty _ _ Ga). rewrite app_length in Hf. lia.
Qed.

Lemma parse_es_id_list_complete str i l rest v : G_es_id_list l v -> At str i (l ++ rest) ->
  head_fails af_is_digit rest ->
  parse_es_id_list true str i = Ok ((i + length l)%nat, map wrap32 v).
Proof.
  intros G HA Hr. unfold parse_es_id_list. destruct G as [l id G1 | l1 l2 l3 v G1 G2 G3].
  - rewrite (consume_int_complete str i l rest id HA G1 Hr). cbn [orelse].
    rewrite id_list_add_spec by lia. now rewrite expand_ids_1.
  - rewrite <- !app_assoc in HA.
    assert (Ht : first_tok (l1 ++ l2 ++ l3 ++ rest) = 123) by now apply G_sym_first_tok.
    rewrite (consume_int_fail true str i _ HA) by (rewrite Ht; reflexivity). cbn [orelse].
    rewrite (consume_symbol_complete str i l1 _ 123 HA G1 nws123). cbn [orelse].
    pose proof (At_app _ _ _ _ HA) as HA1.
    rewrite (id_list_loop_complete l2 v (G_sep_to_r _ _ _ G2) _ str _ l3 rest [] G3 HA1) by
        (rewrite (At_len _ _ _ HA1); lia).
    rewrite !app_length. cbn [app]. do 2 f_equal. lia.
Qed.

(* one trip through the loop body of parse_list on an <interval> *)
Lemma parse_list_loop_step str i l v X fuel lists : G_interval l v -> At str i (l ++ X) -> fol X ->
  parse_list_loop true (S fuel) str i lists =
  orelse (consume_symbol str (i + length l) 44)
    (fun i3 => parse_list_loop true fuel str i3 (lists ++ map (map wrap32) v))
    (bind (consume_symbol str (i + length l) 0) (fun _ => Ok (lists ++ map (map wrap32) v))).
Proof.
  intros G HA HX. destruct G as [l1 l2 base num stride G1 G2 Hmax].
  apply At_reassoc in HA. cbn [parse_list_loop].
  rewrite (parse_es_id_list_complete str i l1 _ base G1 HA) by
      (apply (G_opt_head l2 num stride); [auto|apply HX]).
  cbn [bind]. pose proof (At_app _ _ _ _ HA) as HA1.
  rewrite (opt_num_stride_complete str _ l2 X num stride G2 HA1 HX). cbn [bind].
  destruct (Z.geb_spec num MAX_NUM_ELEMS); [lia|]. cbv zeta.
  assert (1 <= num) by (destruct G2; lia).
  rewrite list_add_spec by assumption. rewrite app_length, Nat.add_assoc. reflexivity.
Qed.

Lemma G_es_id_list_nonempty l v : G_es_id_list l v -> (0 < length l)%nat.
Proof.
  destruct 1 as [l id G|l1 l2 l3 v [ws _] _ _]; [now apply G_int_nonempty in G|].
  rewrite !app_length. cbn. lia.
Qed.

Lemma parse_list_loop_complete l v : G_sep_r G_interval l v ->
  forall fuel str i ws lists, all_ws ws -> At str i (l ++ ws) -> (length (l ++ ws) < fuel)%nat ->
  parse_list_loop true fuel str i lists = Ok (lists ++ map (map wrap32) v).
Proof.
  induction 1 as [l v Hi | l1 v1 l2 l3 v3 Hi Hs _ IH]; intros fuel str i ws lists Hws HA Hf;
    (destruct fuel as [|fuel]; [lia|]).
  - rewrite (parse_list_loop_step str i l v ws fuel lists Hi HA (fol_ws ws Hws)).
    pose proof (At_app _ _ _ _ HA) as HA1.
    rewrite (consume_symbol_fail str _ _ 44 HA1 nws44) by
        (rewrite <- (app_nil_r ws), first_tok_ws by auto; cbn; lia).
    cbn [orelse]. rewrite (consume_symbol_fun 0 str _ ws nws0 HA1), csym_fun_nul_intro by auto.
    reflexivity.
  - rewrite <- !app_assoc in HA.
    rewrite (parse_list_loop_step str i l1 v1 _ fuel lists Hi HA) by
        (apply (fol_sym 44); auto; lia).
    pose proof (At_app _ _ _ _ HA) as HA1.
    rewrite (consume_symbol_complete str _ l2 _ 44 HA1 Hs nws44). cbn [orelse].
    pose proof (At_app _ _ _ _ HA1) as HA2.
    rewrite (IH fuel str _ ws _ Hws HA2).
    + now rewrite map_app, app_assoc.
    + rewrite <- !app_assoc, !app_length in Hf. rewrite !app_length.
      destruct Hi as [a b ? ? ? Ga _ _]. pose proof (G_es_id_list_nonempty _ _ Ga).
      rewrite app_length in Hf. lia.
Qed.

Lemma G_int_nz l v : G_int l v -> nz l.
Proof.
  intros [ws sg dg Hw Hs Hd _ _]. apply nz_app. split; [|apply nz_app; split].
  - eapply Forall_impl; [|exact Hw]. intros c Hc ->. discriminate.
  - eapply Forall_impl; [|exact Hs]. intros c Hc ->. discriminate.
  - eapply Forall_impl; [|exact Hd]. intros c Hc ->. discriminate.
Qed.

Lemma all_ws_nz ws : all_ws ws -> nz ws.
Proof. intros H. eapply Forall_impl; [|exact H]. intros c Hc ->. discriminate. Qed.

Lemma G_sym_nz c l : c <> 0 -> G_sym c l -> nz l.
Proof. intros Hc [ws Hws]. apply nz_app. split; [now apply all_ws_nz|]. repeat constructor; auto. Qed.

Lemma G_opt_nz l n s : G_opt l n s -> nz l.
Proof.
  destruct 1; repeat (apply nz_app; split); try constructor;
    eauto using G_int_nz; apply (G_sym_nz 58); auto; lia.
Qed.

Lemma G_sep_nz {A} (item : list Z -> list A -> Prop) :
  (forall l v, item l v -> nz l) -> forall l v, G_sep item l v -> nz l.
Proof.
  intros Hitem l0 v0. induction 1 as [l v Hi|l1 v1 l2 l3 v3 H1 IH H2 H3]; [eauto|].
  apply nz_app; split; [exact IH|].
  apply nz_app; split; [apply (G_sym_nz 44); [lia|exact H2]|eauto].
Qed.

Lemma G_affinity_nz s v : G_affinity s v -> nz s.
Proof.
  intros [l ws v' G Hws]. apply nz_app. split; [|now apply all_ws_nz].
  revert G. apply G_sep_nz. clear. intros l v [l1 l2 base num stride G1 G2 _].
  apply nz_app. split; [|now apply G_opt_nz in G2].
  destruct G1 as [l0 id G|l1' l2' l3' v' Ga Gb Gc]; [now apply G_int_nz in G|].
  repeat (apply nz_app; split).
  - apply (G_sym_nz 123); auto; lia.
  - revert Gb. apply G_sep_nz. intros a b [a1 a2 ? ? ? Gx Gy _].
    apply nz_app. split; [now apply G_int_nz in Gx|now apply G_opt_nz in Gy].
  - apply (G_sym_nz 125); auto; lia.
Qed.

(* C20_affinity_complete *)
Theorem affinity_complete s v : G_affinity (cstring s) v ->
  affinity_list_create (Some s) = Ok (map (map wrap32) v).
Proof.
  intros G. unfold affinity_list_create, parse_list. cbv zeta.
  remember (cstring s) as str eqn:Estr. clear Estr. destruct G as [l ws v Gl Hws].
  apply (parse_list_loop_complete l v (G_sep_to_r _ _ _ Gl) _ (l ++ ws) 0%nat ws [] Hws).
  - apply At_0.
  - lia.
Qed.

Corollary affinity_accepts_iff s lists :
  affinity_list_create (Some s) = Ok lists <->
  exists v, G_affinity (cstring s) v /\ lists = map (map wrap32) v.
Proof.
  split.
  - intros E. pose proof (affinity_sound s) as H. now rewrite E in H.
  - intros (v & G & ->). now apply affinity_complete.
Qed.

(* ------------------------------------------------------------------ *)
(** * The code as it stands (no guard in consume_int): finding F3 *)

(* either the unguarded code hits a signed overflow, or it behaves like the fixed code *)
Definition sim {A} (rb rf : res A) : Prop := rb = IntOvf \/ rb = rf.

Lemma sim_refl {A} (r : res A) : sim r r. Proof. now right. Qed.

Lemma sim_bind {A B} (a b : res A) (k k' : A -> res B) :
  sim a b -> (forall x, sim (k x) (k' x)) -> sim (bind a k) (bind b k').
Proof. intros [->| ->] Hk; [now left|]. destruct b; cbn; auto using sim_refl. Qed.

Lemma sim_orelse {A B} (a b : res A) (k k' : A -> res B) (f f' : res B) :
  sim a b -> (forall x, sim (k x) (k' x)) -> sim f f' -> sim (orelse a k f) (orelse b k' f').
Proof. intros [->| ->] Hk Hf; [now left|]. destruct b; cbn; auto using sim_refl. Qed.

Lemma consume_int_loop_sim : forall fuel str index val val_sign flag,
  sim (consume_int_loop false fuel str index val val_sign flag)
      (consume_int_loop true fuel str index val val_sign flag).
Proof.
  induction fuel as [|fuel IH]; intros; cbn [consume_int_loop]; [apply sim_refl|].
  destruct (rd str index) as [c|]; [|apply sim_refl].
  destruct (negb (flag_is_v flag) && (c =? 45)); [apply sim_bind; auto using sim_refl|].
  destruct (negb (flag_is_v flag) && (c =? 43)); [auto|].
  destruct (flag_is_n flag && is_whitespace c); [auto|].
  destruct (af_is_digit c); [|apply sim_refl].
  cbn [andb]. rewrite guard_iff.
  destruct (Z.gtb_spec (val * 10 + (c - 48)) AF_INT_MAX) as [Ho|Ho].
  - left. unfold iop at 1. destruct (fits_int (val * 10)) eqn:Hf; cbn [bind]; auto.
    now rewrite nofit_iop by lia.
  - apply sim_bind; [apply sim_refl|]. intros t. apply sim_bind; [apply sim_refl|]. auto.
Qed.

Lemma consume_int_sim str i : sim (consume_int false str i) (consume_int true str i).
Proof. apply consume_int_loop_sim. Qed.

Lemma consume_pint_sim str i : sim (consume_pint false str i) (consume_pint true str i).
Proof.
  unfold consume_pint. apply sim_orelse; auto using consume_int_sim, sim_refl.
Qed.

Lemma opt_num_stride_sim str i : sim (opt_num_stride false str i) (opt_num_stride true str i).
Proof.
  unfold opt_num_stride. apply sim_orelse; auto using sim_refl. intros i1.
  apply sim_bind; [apply consume_pint_sim|]. intros [i2 num].
  apply sim_orelse; auto using sim_refl. intros i3.
  apply sim_bind; [apply consume_int_sim|]. intros [i4 stride]. apply sim_refl.
Qed.

Lemma id_list_loop_sim : forall fuel str i ids,
  sim (id_list_loop false fuel str i ids) (id_list_loop true fuel str i ids).
Proof.
  induction fuel as [|fuel IH]; intros; cbn [id_list_loop]; [apply sim_refl|].
  apply sim_bind; [apply consume_int_sim|]. intros [i1 id].
  apply sim_bind; [apply opt_num_stride_sim|]. intros [[i2 num] stride].
  destruct (num >=? MAX_NUM_ELEMS); [apply sim_refl|]. cbv zeta.
  apply sim_orelse; auto using sim_refl.
Qed.

Lemma parse_es_id_list_sim str i : sim (parse_es_id_list false str i) (parse_es_id_list true str i).
Proof.
  unfold parse_es_id_list. apply sim_orelse; [apply consume_int_sim| |].
  - intros [i1 v]. apply sim_refl.
  - apply sim_orelse; auto using sim_refl, id_list_loop_sim.
Qed.

Lemma parse_list_loop_sim : forall fuel str i lists,
  sim (parse_list_loop false fuel str i lists) (parse_list_loop true fuel str i lists).
Proof.
  induction fuel as [|fuel IH]; intros; cbn [parse_list_loop]; [apply sim_refl|].
  apply sim_bind; [apply parse_es_id_list_sim|]. intros [i1 base].
  apply sim_bind; [apply opt_num_stride_sim|]. intros [[i2 num] stride].
  destruct (num >=? MAX_NUM_ELEMS); [apply sim_refl|]. cbv zeta.
  apply sim_orelse; auto using sim_refl.
Qed.

(* the F3 fix changes the behaviour only where the code as it stands has undefined behaviour *)
Theorem affinity_fix_conservative s :
  affinity_list_create_buggy s = IntOvf \/ affinity_list_create_buggy s = affinity_list_create s.
Proof.
  unfold affinity_list_create_buggy, affinity_list_create, parse_list.
  destruct s as [s|]; [|now right]. apply parse_list_loop_sim.
Qed.

(* memory safety of both variants: no read beyond the terminating NUL, fuel suffices *)
Theorem affinity_memory_safe s :
  affinity_list_create (Some s) <> Oob /\ affinity_list_create (Some s) <> OutOfFuel /\
  affinity_list_create_buggy (Some s) <> Oob /\ affinity_list_create_buggy (Some s) <> OutOfFuel.
Proof.
  pose proof (affinity_sound s) as H.
  destruct (affinity_fix_conservative (Some s)) as [E|E]; rewrite E;
    destruct (affinity_list_create (Some s)); try contradiction; repeat split; discriminate.
Qed.

Theorem affinity_no_overflow s : affinity_list_create s <> IntOvf.
Proof.
  destruct s as [s|]; [|discriminate].
  pose proof (affinity_sound s) as H. intros E. now rewrite E in H.
Qed.

(* "99999999999" and "-2147483648" *)
Theorem affinity_no_overflow_refuted :
  affinity_list_create_buggy (Some [57;57;57;57;57;57;57;57;57;57;57]) = IntOvf /\
  affinity_list_create_buggy (Some [45;50;49;52;55;52;56;51;54;52;56]) = IntOvf.
Proof. split; vm_compute; reflexivity. Qed.

(* ------------------------------------------------------------------ *)
(** * Sizes: the uint32_t element counters cannot wrap for strings of sane length *)

Definition KMAX : Z := 1048575.    (* MAX_NUM_ELEMS - 1 *)
Definition len {A} (l : list A) : Z := Z.of_nat (length l).

Lemma len_app {A} (a b : list A) : len (a ++ b) = len a + len b.
Proof. unfold len. rewrite app_length. lia. Qed.
Lemma len_nonneg {A} (a : list A) : 0 <= len a.
Proof. unfold len. lia. Qed.

Lemma expand_ids_length id num stride : length (expand_ids id num stride) = Z.to_nat num.
Proof. unfold expand_ids. now rewrite map_length, seq_length. Qed.

Lemma expand_lists_length base num stride : length (expand_lists base num stride) = Z.to_nat num.
Proof. unfold expand_lists. now rewrite map_length, seq_length. Qed.

Lemma expand_lists_inner base num stride :
  Forall (fun l => length l = length base) (expand_lists base num stride).
Proof.
  unfold expand_lists. apply Forall_forall. intros l Hl. apply in_map_iff in Hl.
  destruct Hl as (k & <- & _). now rewrite map_length.
Qed.

Lemma G_id_interval_size l v : G_id_interval l v -> 1 <= len l /\ len v <= KMAX.
Proof.
  intros [l1 l2 id num stride G1 G2 Hmax]. rewrite len_app. unfold len at 3. rewrite expand_ids_length.
  pose proof (G_int_nonempty _ _ G1). pose proof (len_nonneg l2).
  unfold len, MAX_NUM_ELEMS, KMAX in *. lia.
Qed.

Lemma G_id_list_size l v : G_id_list l v -> 1 <= len l /\ len v <= len l * KMAX.
Proof.
  induction 1 as [l v Hi|l1 v1 l2 l3 v3 _ [IH1 IH2] Hs Hi].
  - apply G_id_interval_size in Hi. unfold KMAX in *. lia.
  - apply G_id_interval_size in Hi. rewrite !len_app. pose proof (len_nonneg l2). unfold KMAX in *. lia.
Qed.

Lemma G_es_id_list_size l v : G_es_id_list l v -> 1 <= len l /\ len v <= len l * KMAX.
Proof.
  destruct 1 as [l id G|l1 l2 l3 v G1 G2 G3].
  - pose proof (G_int_nonempty _ _ G). unfold len, KMAX. cbn [length]. lia.
  - apply G_id_list_size in G2. rewrite !len_app.
    pose proof (len_nonneg l1). pose proof (len_nonneg l3). unfold KMAX in *. lia.
Qed.

Lemma G_interval_size l v : G_interval l v ->
  1 <= len l /\ len v <= KMAX /\ Forall (fun ids => len ids <= len l * KMAX) v.
Proof.
  intros [l1 l2 base num stride G1 G2 Hmax]. apply G_es_id_list_size in G1.
  rewrite len_app. pose proof (len_nonneg l2). split; [lia|]. split.
  - unfold len at 1. rewrite expand_lists_length. unfold MAX_NUM_ELEMS, KMAX in *. lia.
  - eapply Forall_impl; [|apply expand_lists_inner]. cbn. intros a Ha. unfold len at 1. rewrite Ha.
    fold (len base). unfold KMAX in *. lia.
Qed.

Lemma G_list_size l v : G_list l v ->
  1 <= len l /\ len v <= len l * KMAX /\ Forall (fun ids => len ids <= len l * KMAX) v.
Proof.
  induction 1 as [l v Hi|l1 v1 l2 l3 v3 _ (IH1 & IH2 & IH3) Hs Hi].
  - apply G_interval_size in Hi. destruct Hi as (H1 & H2 & H3). unfold KMAX in *. repeat split; auto; lia.
  - apply G_interval_size in Hi. destruct Hi as (H1 & H2 & H3). rewrite !len_app.
    pose proof (len_nonneg l2).
    split; [lia|]. split; [unfold KMAX in *; lia|].
    apply Forall_app. split; (eapply Forall_impl; [|eassumption]); cbn; intros a Ha; unfold KMAX in *; lia.
Qed.

(* number of id lists and length of every id list are at most length * (MAX_NUM_ELEMS - 1);
   for strings of at most 4096 characters they stay below 2^32, so the uint32_t counters
   `num` of ABTD_affinity_list / ABTD_affinity_id_list do not wrap *)
Theorem affinity_alloc_bounded s lists : affinity_list_create (Some s) = Ok lists ->
  len lists <= len (cstring s) * KMAX /\
  Forall (fun ids => len ids <= len (cstring s) * KMAX) lists /\
  (len (cstring s) <= 4096 ->
   len lists < 4294967296 /\ Forall (fun ids => len ids < 4294967296) lists).
Proof.
  intros E. apply affinity_accepts_iff in E. destruct E as (v & G & ->).
  destruct G as [l ws v Gl Hws]. apply G_list_size in Gl. destruct Gl as (H1 & H2 & H3).
  pose proof (len_nonneg ws). rewrite len_app.
  assert (Hm : len (map (map wrap32) v) = len v) by (unfold len; now rewrite map_length).
  rewrite !Hm.
  assert (HF : Forall (fun ids => len ids <= (len l + len ws) * KMAX) (map (map wrap32) v)).
  { apply Forall_forall. intros ids Hin. apply in_map_iff in Hin. destruct Hin as (x & <- & Hx).
    unfold len at 1. rewrite map_length. fold (len x).
    rewrite Forall_forall in H3. specialize (H3 x Hx). unfold KMAX in *. lia. }
  split; [unfold KMAX in *; lia|]. split; [exact HF|].
  intros Hlen. split; [unfold KMAX in *; lia|].
  eapply Forall_impl; [|exact HF]. cbn. intros a Ha. unfold KMAX in *. lia.
Qed.
