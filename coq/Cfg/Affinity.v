(* Model of src/arch/abtd_affinity_parser.c (ABT_SET_AFFINITY parser).

   A C string is given as a list of character codes; [cstring] cuts it at the
   first NUL, so [str] below never contains a 0 and the terminating NUL sits at
   index [length str].  Every access *(str + index) goes through [rd], which
   answers [None] for an index beyond the terminating NUL; the functions then
   return [Oob].  `while (1)` loops take fuel (length + 1) and return
   [OutOfFuel] when it runs out.  Every operation the C code performs on
   (signed) `int` goes through [iop], which returns [IntOvf] when the
   mathematical result does not fit (= undefined behaviour in C; UBSan aborts
   there).  The theorems (AffinityProofs.v) show that [Oob] and [OutOfFuel] are
   never returned, and that [IntOvf] is never returned by the guarded
   [consume_int] (the code with fixes/F3-consume-int-overflow.patch applied;
   guard = true) while it IS returned by the code as it stands (guard = false,
   finding F3).

   Not modelled: failure of ABTU_calloc/ABTU_realloc (the ABTI_CHECK_ERROR
   paths after list_calloc/list_realloc) and the alloc_list bookkeeping used
   to free everything; `uint32_t index` is a natural number (strings are
   shorter than 2^32); the element counters `uint32_t num` of the two list
   structures are the lengths of the Gallina lists (AffinityProofs.v bounds
   them by length str * (MAX_NUM_ELEMS - 1), so they do not wrap for strings
   of up to 4096 characters). *)
From Coq Require Import List ZArith Bool.
Import ListNotations.
Local Open Scope Z_scope.

Definition AF_INT_MAX : Z := 2147483647.
Definition AF_INT_MIN : Z := -2147483648.
Definition MAX_NUM_ELEMS : Z := 1048576.          (* 1024 * 1024 *)

Inductive res (A : Type) : Type :=
| Ok (a : A)
| Fail          (* the C function returned 0 / ABT_ERR_OTHER *)
| Oob           (* read beyond the terminating NUL *)
| OutOfFuel
| IntOvf.       (* signed int overflow *)
Arguments Ok {A} a.
Arguments Fail {A}.
Arguments Oob {A}.
Arguments OutOfFuel {A}.
Arguments IntOvf {A}.

Definition bind {A B} (r : res A) (k : A -> res B) : res B :=
  match r with
  | Ok a => k a | Fail => Fail | Oob => Oob | OutOfFuel => OutOfFuel | IntOvf => IntOvf
  end.

(* `if (f(...)) { k_ok } else { k_fail }` for the consume_* functions *)
Definition orelse {A B} (r : res A) (k_ok : A -> res B) (k_fail : res B) : res B :=
  match r with
  | Ok a => k_ok a | Fail => k_fail | Oob => Oob | OutOfFuel => OutOfFuel | IntOvf => IntOvf
  end.

(* the C string denoted by a code list: the prefix before the first NUL *)
Fixpoint cstring (s : list Z) : list Z :=
  match s with
  | [] => []
  | c :: s' => if c =? 0 then [] else c :: cstring s'
  end.

(* *(str + index): index = length str is the terminating NUL *)
Definition rd (str : list Z) (index : nat) : option Z :=
  if (index <=? length str)%nat then Some (nth index str 0) else None.

(* ---- C integer types ---- *)
Definition fits_int (z : Z) : bool := (AF_INT_MIN <=? z) && (z <=? AF_INT_MAX).
Definition iop (z : Z) : res Z := if fits_int z then Ok z else IntOvf.
Definition u32 (z : Z) : Z := Z.land z 4294967295.                (* conversion to uint32_t: z mod 2^32 *)
Definition int_of_u32 (z : Z) : Z :=                            (* uint32_t -> int (gcc: modulo 2^32) *)
  if z <? 2147483648 then z else z - 4294967296.
Definition wrap32 (z : Z) : Z := (z + 2147483648) mod 4294967296 - 2147483648.

(* static inline int is_whitespace(char c) *)
Definition is_whitespace (c : Z) : bool := (c =? 32) || (c =? 9) || (c =? 13) || (c =? 10).
Definition af_is_digit (c : Z) : bool := (48 <=? c) && (c <=? 57).

(* char flag = 'n' | 's' | 'v' *)
Inductive cflag := Fn | Fs | Fv.
Definition flag_is_v (f : cflag) : bool := match f with Fv => true | _ => false end.
Definition flag_is_n (f : cflag) : bool := match f with Fn => true | _ => false end.

(* static int consume_int(const char *str, uint32_t *p_index, int *p_val):
   one iteration of the while (1) loop per unit of fuel.  Result Ok (index, val)
   = returned 1 with *p_index, *p_val written; Fail = returned 0 (nothing
   written).  [guard] = true adds the two lines of the F3 fix. *)
Fixpoint consume_int_loop (guard : bool) (fuel : nat) (str : list Z) (index : nat)
         (val val_sign : Z) (flag : cflag) : res (nat * Z) :=
  match fuel with
  | O => OutOfFuel
  | S fuel' =>
    match rd str index with
    | None => Oob
    | Some c =>
      if negb (flag_is_v flag) && (c =? 45) then                  (* '-' *)
        bind (iop (- val_sign)) (fun vs =>
        consume_int_loop guard fuel' str (S index) val vs Fs)
      else if negb (flag_is_v flag) && (c =? 43) then             (* '+' *)
        consume_int_loop guard fuel' str (S index) val val_sign Fs
      else if flag_is_n flag && is_whitespace c then
        consume_int_loop guard fuel' str (S index) val val_sign flag
      else if af_is_digit c then
        (* fix F3:  if (val > (INT_MAX - (int)(c - '0')) / 10) return 0; *)
        if guard && (val >? (AF_INT_MAX - (c - 48)) / 10) then Fail
        else
          bind (iop (val * 10)) (fun t =>
          bind (iop (t + (c - 48))) (fun val' =>
          consume_int_loop guard fuel' str (S index) val' val_sign Fv))
      else if flag_is_v flag then
        bind (iop (val * val_sign)) (fun v => Ok (index, v))
      else Fail
    end
  end.

Definition consume_int (guard : bool) (str : list Z) (index : nat) : res (nat * Z) :=
  consume_int_loop guard (length str + 1) str index 0 1 Fn.

(* static int consume_pint(...) *)
Definition consume_pint (guard : bool) (str : list Z) (index : nat) : res (nat * Z) :=
  orelse (consume_int guard str index)
         (fun '(index', val) => if val >? 0 then Ok (index', val) else Fail)
         Fail.

(* static int consume_symbol(const char *str, uint32_t *p_index, char symbol) *)
Fixpoint consume_symbol_loop (fuel : nat) (str : list Z) (index : nat) (symbol : Z) : res nat :=
  match fuel with
  | O => OutOfFuel
  | S fuel' =>
    match rd str index with
    | None => Oob
    | Some c =>
      if c =? symbol then Ok (S index)
      else if is_whitespace c then consume_symbol_loop fuel' str (S index) symbol
      else Fail
    end
  end.

Definition consume_symbol (str : list Z) (index : nat) (symbol : Z) : res nat :=
  consume_symbol_loop (length str + 1) str index symbol.

(* id + stride * i  with `int id, stride; uint32_t i`: the usual arithmetic
   conversions make both operations unsigned (no UB); the store into an int
   converts back. *)
Definition id_at (id stride i : Z) : Z := int_of_u32 (u32 (u32 id + u32 (u32 stride * i))).

(* List helpers that run in constant stack (an id list can have 2^20 - 1
   elements): tr_app = app, tr_map = map (AffinityProofs.v). *)
Fixpoint rev_map_onto {A B} (f : A -> B) (l : list A) (acc : list B) : list B :=
  match l with [] => acc | x :: l' => rev_map_onto f l' (f x :: acc) end.
Definition tr_map {A B} (f : A -> B) (l : list A) : list B := rev_append (rev_map_onto f l []) [].
Definition tr_app {A} (l1 l2 : list A) : list A := rev_append (rev_append l1 []) l2.

(* static int id_list_add(p_alloc_list, p_id_list, int id, uint32_t num, int stride):
     for (i = 0; i < num; i++) ids[p_id_list->num + i] = id + stride * i;
   The loop state is (i, elements written so far in reverse order). *)
Definition id_list_add (ids : list Z) (id num stride : Z) : list Z :=
  let st := Z.iter num (fun '(i, acc) => (i + 1, id_at id stride i :: acc))
                   (0, rev_append ids []) in
  rev_append (snd st) [].

(* static int list_add(p_alloc_list, p_list, p_base, uint32_t num, int stride):
     for (i = 1; i < num; i++) {
         new id list: for (j ...) ids[j] = p_base->ids[j] + stride * i;
         p_id_lists[p_list->num + i] = it; }
     p_id_lists[p_list->num] = p_base;
   The loop state is (i, slots filled so far in reverse order). *)
Definition list_add (lists : list (list Z)) (base : list Z) (num stride : Z) : list (list Z) :=
  let st := Z.iter (num - 1) (fun '(i, acc) => (i + 1, tr_map (fun x => id_at x stride i) base :: acc))
                   (1, base :: rev_append lists []) in
  rev_append (snd st) [].

(* The block that appears twice, textually identical, in parse_es_id_list
   (lines 249-260) and parse_list (lines 303-314), with `int num = 1, stride = 1`:
     if (consume_symbol(':')) {
         if (!consume_pint(&num)) return ABT_ERR_OTHER;
         if (consume_symbol(':')) { if (!consume_int(&stride)) return ABT_ERR_OTHER; } } *)
Definition opt_num_stride (guard : bool) (str : list Z) (index : nat) : res (nat * Z * Z) :=
  orelse (consume_symbol str index 58)
    (fun i1 =>
       bind (consume_pint guard str i1) (fun '(i2, num) =>
       orelse (consume_symbol str i2 58)
         (fun i3 => bind (consume_int guard str i3) (fun '(i4, stride) => Ok (i4, num, stride)))
         (Ok (i2, num, 1))))
    (Ok (index, 1, 1)).

(* parse_es_id_list: the while (1) loop after "{" *)
Fixpoint id_list_loop (guard : bool) (fuel : nat) (str : list Z) (index : nat) (ids : list Z)
  : res (nat * list Z) :=
  match fuel with
  | O => OutOfFuel
  | S fuel' =>
    bind (consume_int guard str index) (fun '(i1, id) =>
    bind (opt_num_stride guard str i1) (fun '(i2, num, stride) =>
    if num >=? MAX_NUM_ELEMS then Fail
    else
      let ids' := id_list_add ids id num stride in
      orelse (consume_symbol str i2 44)                                  (* ',' *)
        (fun i3 => id_list_loop guard fuel' str i3 ids')
        (bind (consume_symbol str i2 125) (fun i3 => Ok (i3, ids')))))   (* '}' *)
  end.

(* static int parse_es_id_list(p_alloc_list, affinity_str, p_index, pp_affinity_id_list) *)
Definition parse_es_id_list (guard : bool) (str : list Z) (index : nat) : res (nat * list Z) :=
  orelse (consume_int guard str index)
    (fun '(i1, val) => Ok (i1, id_list_add [] val 1 1))
    (orelse (consume_symbol str index 123)                               (* '{' *)
       (fun i1 => id_list_loop guard (length str + 1) str i1 [])
       Fail).

(* parse_list: the while (1) loop *)
Fixpoint parse_list_loop (guard : bool) (fuel : nat) (str : list Z) (index : nat)
         (lists : list (list Z)) : res (list (list Z)) :=
  match fuel with
  | O => OutOfFuel
  | S fuel' =>
    bind (parse_es_id_list guard str index) (fun '(i1, base) =>
    bind (opt_num_stride guard str i1) (fun '(i2, num, stride) =>
    if num >=? MAX_NUM_ELEMS then Fail
    else
      let lists' := list_add lists base num stride in
      orelse (consume_symbol str i2 44)                                  (* ',' *)
        (fun i3 => parse_list_loop guard fuel' str i3 lists')
        (bind (consume_symbol str i2 0) (fun _ => Ok lists'))))          (* '\0' *)
  end.

(* static int parse_list(p_alloc_list, affinity_str, pp_affinity_list);
   None = NULL pointer *)
Definition parse_list (guard : bool) (affinity_str : option (list Z)) : res (list (list Z)) :=
  match affinity_str with
  | None => Fail
  | Some s => let str := cstring s in parse_list_loop guard (length str + 1) str 0%nat []
  end.

(* int ABTD_affinity_list_create(affinity_str, pp_affinity_list): the code with
   the F3 fix, and the code as it stands *)
Definition affinity_list_create (s : option (list Z)) : res (list (list Z)) := parse_list true s.
Definition affinity_list_create_buggy (s : option (list Z)) : res (list (list Z)) := parse_list false s.

(* ------------------------------------------------------------------ *)
(* The documented grammar (header comment of src/arch/abtd_affinity.c), "while
   it ignores all white spaces between tokens": white space may precede every
   token and the end of the string.  Tokens: integers (sign* digit+, as
   accepted by the code: "++1", "+-1" are legal, "+ 1" is not) and the symbols
   , : { }.  Values are the documented ones, computed in Z (no wrap-around):
     <id-interval>:  id, id + stride, ..., id + stride * (num - 1)
     <interval>:     L, {L[0] + stride, ...}, ..., {L[0] + stride * (num - 1), ...}
   Two limits of the implementation are part of the relation: an integer's
   magnitude is at most INT_MAX, and <num> < MAX_NUM_ELEMS. *)
Definition all_ws (l : list Z) : Prop := Forall (fun c => is_whitespace c = true) l.
Definition is_sign (c : Z) : bool := (c =? 45) || (c =? 43).

Fixpoint digits_value (acc : Z) (l : list Z) : Z :=
  match l with [] => acc | c :: l' => digits_value (acc * 10 + (c - 48)) l' end.
Fixpoint signs_value (l : list Z) : Z :=
  match l with [] => 1 | c :: l' => if c =? 45 then - signs_value l' else signs_value l' end.

(* <integer> with leading white space *)
Inductive G_int : list Z -> Z -> Prop :=
| G_int_intro ws sg dg :
    all_ws ws -> Forall (fun c => is_sign c = true) sg ->
    Forall (fun c => af_is_digit c = true) dg -> dg <> [] ->
    digits_value 0 dg <= AF_INT_MAX ->
    G_int (ws ++ sg ++ dg) (signs_value sg * digits_value 0 dg).

(* a symbol with leading white space *)
Inductive G_sym (c : Z) : list Z -> Prop :=
| G_sym_intro ws : all_ws ws -> G_sym c (ws ++ [c]).

(* [ ":" <num> [ ":" <stride> ] ]   (num and stride are 1 if omitted) *)
Inductive G_opt : list Z -> Z -> Z -> Prop :=
| G_opt_none : G_opt [] 1 1
| G_opt_num l1 l2 num :
    G_sym 58 l1 -> G_int l2 num -> 0 < num -> G_opt (l1 ++ l2) num 1
| G_opt_num_stride l1 l2 l3 l4 num stride :
    G_sym 58 l1 -> G_int l2 num -> 0 < num -> G_sym 58 l3 -> G_int l4 stride ->
    G_opt (l1 ++ l2 ++ l3 ++ l4) num stride.

Definition expand_ids (id num stride : Z) : list Z :=
  map (fun i => id + stride * Z.of_nat i) (seq 0 (Z.to_nat num)).
Definition expand_lists (base : list Z) (num stride : Z) : list (list Z) :=
  map (fun i => map (fun x => x + stride * Z.of_nat i) base) (seq 0 (Z.to_nat num)).

(* <id-interval> *)
Inductive G_id_interval : list Z -> list Z -> Prop :=
| G_id_interval_intro l1 l2 id num stride :
    G_int l1 id -> G_opt l2 num stride -> num < MAX_NUM_ELEMS ->
    G_id_interval (l1 ++ l2) (expand_ids id num stride).

(* X-list = X | X-list "," X    (used for <id-list> and <list>); the value is the concatenation *)
Inductive G_sep {A : Type} (item : list Z -> list A -> Prop) : list Z -> list A -> Prop :=
| G_sep_one l v : item l v -> G_sep item l v
| G_sep_more l1 v1 l2 l3 v3 :
    G_sep item l1 v1 -> G_sym 44 l2 -> item l3 v3 -> G_sep item (l1 ++ l2 ++ l3) (v1 ++ v3).

(* <id-list> *)
Definition G_id_list : list Z -> list Z -> Prop := G_sep G_id_interval.

(* <es-id-list> *)
Inductive G_es_id_list : list Z -> list Z -> Prop :=
| G_es_id l id : G_int l id -> G_es_id_list l [id]
| G_es_braces l1 l2 l3 v :
    G_sym 123 l1 -> G_id_list l2 v -> G_sym 125 l3 -> G_es_id_list (l1 ++ l2 ++ l3) v.

(* <interval> *)
Inductive G_interval : list Z -> list (list Z) -> Prop :=
| G_interval_intro l1 l2 base num stride :
    G_es_id_list l1 base -> G_opt l2 num stride -> num < MAX_NUM_ELEMS ->
    G_interval (l1 ++ l2) (expand_lists base num stride).

(* <list> *)
Definition G_list : list Z -> list (list Z) -> Prop := G_sep G_interval.

(* the whole string: <list> followed by optional white space *)
Inductive G_affinity : list Z -> list (list Z) -> Prop :=
| G_affinity_intro l ws v : G_list l v -> all_ws ws -> G_affinity (l ++ ws) v.
