(* Model of the numeric / boolean settings of src/arch/abtd_env.c
   (ABTD_env_init and the ABTD_env_get_* functions), of the ABTU_roundup_* /
   ABTU_min_* / ABTU_max_* helpers of src/include/abtu.h, for the active
   configuration (src/include/abt_config.h: 64-byte cache line, default ULT
   stack 16384, ABT_CONFIG_STACK_CHECK_TYPE = NONE, memory pool on,
   ABT_MEM_POOL_MAX_LOCAL_BUCKETS = 2, size_t = 64 bits).

   Every setting is an unsigned C integer of a fixed width; all arithmetic
   the C code performs on them is written with an explicit wrap [w bits z]
   ("mod 2^bits" for the real code).  The definitions are parameterised by
   the wrap function so that EnvClampProofs.v can compare the code (w = wrapu)
   with exact integer arithmetic (w = no wrap) and say exactly where they can
   differ.

   Not modelled: ABT_SET_AFFINITY / ABT_AFFINITY_TYPE (system dependent; the
   parser is Affinity.v), ABT_MEM_LP_ALLOC and ABTI_mem_check_lp_alloc (probe
   the system with mmap), ABTD_time_init.  sysconf(_SC_NPROCESSORS_ONLN) and
   getpagesize() are parameters. *)
From Coq Require Import List ZArith Bool.
From ABT Require Import Cfg.Atoi.
Import ListNotations.
Local Open Scope Z_scope.

Definition wrapu (bits z : Z) : Z := z mod 2 ^ bits.
Definition nowrap (bits z : Z) : Z := z.

(* ABTD_ENV_INT_MAX, ABTD_ENV_UINT32_MAX, ABTD_ENV_UINT64_MAX, ABTD_ENV_SIZE_MAX *)
Definition ENV_INT_MAX : Z := 1073741823.                (* INT_MAX / 2 *)
Definition ENV_UINT32_MAX : Z := 2147483647.             (* UINT32_MAX / 2 *)
Definition ENV_UINT64_MAX : Z := 9223372036854775807.    (* UINT64_MAX / 2 *)
Definition ENV_SIZE_MAX : Z := 9223372036854775807.      (* SIZE_MAX / 2 *)

(* ABTU_max_* / ABTU_min_* : a > b ? a : b  /  a < b ? a : b *)
Definition abtu_max (a b : Z) : Z := if a >? b then a else b.
Definition abtu_min (a b : Z) : Z := if a <? b then a else b.

Section Wrap.
Variable w : Z -> Z -> Z.     (* wrapu for the C code *)

(* static uint32_t roundup_pow2_uint32(uint32_t val) (bits = 32) and
   static size_t roundup_pow2_size(size_t val) (bits = 64):
     for (i = 0; i < bits - 1; i++) if ((val - 1) >> i == 0) break;
   [remaining] = bits - 1 - i is the number of iterations the for loop can
   still make; the function returns the final i. *)
Fixpoint pow2_loop (remaining : nat) (i val : Z) : Z :=
  match remaining with
  | O => i
  | S r => if Z.shiftr (val - 1) i =? 0 then i else pow2_loop r (i + 1) val
  end.

Definition roundup_pow2 (bits : nat) (val : Z) : Z :=
  if val =? 0 then 0
  else w (Z.of_nat bits) (Z.shiftl 1 (pow2_loop (bits - 1) 0 val)).

(* ABTU_roundup_uint32 / _uint64 / _size (val, multiple):
     if ((multiple & (multiple - 1)) == 0) return (val + multiple - 1) & (~(multiple - 1));
     else return ((val + multiple - 1) / multiple) * multiple;              *)
Definition unot (bits x : Z) : Z := 2 ^ bits - 1 - x.      (* ~x on an unsigned of that width *)
Definition abtu_roundup (bits val multiple : Z) : Z :=
  if Z.land multiple (w bits (multiple - 1)) =? 0 then
    Z.land (w bits (w bits (val + multiple) - 1)) (unot bits (w bits (multiple - 1)))
  else
    w bits (w bits (w bits (val + multiple) - 1) / multiple * multiple).

(* static T load_env_T(const char *env_suffix, T default_val, T min_val, T max_val)
   for T = int / uint32_t / uint64_t / size_t; [atoi] is ABTU_atoi / ABTU_atoui32 /
   ABTU_atoui64 / ABTU_atosz (Atoi.v), [env] the result of get_abt_env. *)
Definition load_env (atoi : list Z -> option (Z * bool)) (env : option (list Z))
           (default_val min_val max_val : Z) : Z :=
  match env with
  | None => abtu_max min_val (abtu_min max_val default_val)
  | Some s =>
    match atoi s with
    | None => abtu_max min_val (abtu_min max_val default_val)
    | Some (val, _) => abtu_max min_val (abtu_min max_val val)
    end
  end.
Definition load_env_int := load_env atoi_int.
Definition load_env_uint32 := load_env atoi_ui32.
Definition load_env_uint64 := load_env atoi_ui64.
Definition load_env_size := load_env atoi_sz.

(* ---- strings ---- *)
Definition tolower (c : Z) : Z := if (65 <=? c) && (c <=? 90) then c + 32 else c.
(* strcasecmp(a, b) == 0 *)
Fixpoint strcaseeq (a b : list Z) : bool :=
  match a, b with
  | [], [] => true
  | x :: a', y :: b' => (tolower x =? tolower y) && strcaseeq a' b'
  | _, _ => false
  end.
Fixpoint streq (a b : list Z) : bool :=
  match a, b with
  | [], [] => true
  | x :: a', y :: b' => (x =? y) && streq a' b'
  | _, _ => false
  end.

(* static ABT_bool is_false(const char *str, ABT_bool include0) *)
Definition is_false (str : list Z) (include0 : bool) : bool :=
  if include0 && streq str [48] then true
  else if strcaseeq str [110] || strcaseeq str [110; 111] ||                (* "n" "no" *)
          strcaseeq str [102; 97; 108; 115; 101] || strcaseeq str [111; 102; 102]  (* "false" "off" *)
       then true else false.
(* static ABT_bool is_true(const char *str, ABT_bool include1) *)
Definition is_true (str : list Z) (include1 : bool) : bool :=
  if include1 && streq str [49] then true
  else if strcaseeq str [121] || strcaseeq str [121; 101; 115] ||           (* "y" "yes" *)
          strcaseeq str [116; 114; 117; 101] || strcaseeq str [111; 110]    (* "true" "on" *)
       then true else false.
(* static ABT_bool load_env_bool(const char *env_suffix, ABT_bool default_val) *)
Definition load_env_bool (env : option (list Z)) (default_val : bool) : bool :=
  match env with
  | None => default_val
  | Some s => if default_val then (if is_false s true then false else true)
              else (if is_true s true then true else false)
  end.

(* ---- the environment ---- *)
Inductive evar :=
| MAX_NUM_XSTREAMS | KEY_TABLE_SIZE | STACK_OVERFLOW_CHECK | SYS_PAGE_SIZE | THREAD_STACKSIZE
| SCHED_STACKSIZE | SCHED_EVENT_FREQ | SCHED_SLEEP_NSEC | MUTEX_MAX_HANDOVERS | MUTEX_MAX_WAKEUPS
| HUGE_PAGE_SIZE | MEM_PAGE_SIZE | MEM_STACK_PAGE_SIZE | MEM_MAX_NUM_STACKS | MEM_MAX_NUM_DESCS
| USE_LOG | USE_DEBUG | PRINT_RAW_STACK | PRINT_CONFIG.

Definition evar_id (v : evar) : Z :=
  match v with
  | MAX_NUM_XSTREAMS => 0 | KEY_TABLE_SIZE => 1 | STACK_OVERFLOW_CHECK => 2 | SYS_PAGE_SIZE => 3
  | THREAD_STACKSIZE => 4 | SCHED_STACKSIZE => 5 | SCHED_EVENT_FREQ => 6 | SCHED_SLEEP_NSEC => 7
  | MUTEX_MAX_HANDOVERS => 8 | MUTEX_MAX_WAKEUPS => 9 | HUGE_PAGE_SIZE => 10 | MEM_PAGE_SIZE => 11
  | MEM_STACK_PAGE_SIZE => 12 | MEM_MAX_NUM_STACKS => 13 | MEM_MAX_NUM_DESCS => 14
  | USE_LOG => 15 | USE_DEBUG => 16 | PRINT_RAW_STACK => 17 | PRINT_CONFIG => 18
  end.

(* the process environment restricted to the variables above: (long, name, value)
   with long = false for "ABT_<name>" and true for "ABT_ENV_<name>" *)
Definition environ := list (bool * evar * list Z).

Fixpoint getenv (e : environ) (long : bool) (v : evar) : option (list Z) :=
  match e with
  | [] => None
  | (l, v', s) :: e' => if Bool.eqb l long && (evar_id v' =? evar_id v) then Some s else getenv e' long v
  end.

(* static const char *get_abt_env(const char *env_suffix): "ABT_" is tried first,
   then "ABT_ENV_" (all names fit the 128-byte buffer) *)
Definition get_abt_env (e : environ) (v : evar) : option (list Z) :=
  match getenv e false v with
  | Some s => Some s
  | None => getenv e true v
  end.

Definition s_mprotect : list Z := [109; 112; 114; 111; 116; 101; 99; 116].
Definition s_mprotect_strict : list Z := s_mprotect ++ [95; 115; 116; 114; 105; 99; 116].

(* ABT_bool ABTD_env_get_stack_guard_mprotect(ABT_bool *is_strict): (result, *is_strict) *)
Definition env_get_stack_guard_mprotect (e : environ) : bool * bool :=
  match get_abt_env e STACK_OVERFLOW_CHECK with
  | Some s => if strcaseeq s s_mprotect_strict then (true, true)
              else if strcaseeq s s_mprotect then (true, false)
              else (false, false)
  | None => (false, false)            (* ABT_CONFIG_STACK_CHECK_TYPE == ABTI_STACK_CHECK_TYPE_NONE *)
  end.

(* int ABTD_env_get_max_xstreams(void) *)
Definition env_get_max_xstreams (num_cores : Z) (e : environ) : Z :=
  load_env_int (get_abt_env e MAX_NUM_XSTREAMS) num_cores 1 ENV_INT_MAX.

(* uint32_t ABTD_env_key_table_size(void) *)
Definition env_key_table_size (e : environ) : Z :=
  roundup_pow2 32 (load_env_uint32 (get_abt_env e KEY_TABLE_SIZE) 4 1 ENV_UINT32_MAX).

(* size_t ABTD_env_get_sys_pagesize(void) *)
Definition env_get_sys_pagesize (pagesize : Z) (e : environ) : Z :=
  roundup_pow2 64 (load_env_size (get_abt_env e SYS_PAGE_SIZE) pagesize 64 ENV_SIZE_MAX).

(* size_t ABTD_env_get_thread_stacksize(void) / ABTD_env_get_sched_stacksize(void):
     size_t d = <default>;
     if (ABTD_env_get_stack_guard_mprotect(NULL)) d += ABTD_env_get_sys_pagesize() * 2;
     return ABTU_roundup_size(load_env_size(<name>, d, 512, ABTD_ENV_SIZE_MAX), 64);  *)
Definition env_get_stacksize (v : evar) (default : Z) (pagesize : Z) (e : environ) : Z :=
  let d := if fst (env_get_stack_guard_mprotect e)
           then w 64 (default + w 64 (env_get_sys_pagesize pagesize e * 2))
           else default in
  abtu_roundup 64 (load_env_size (get_abt_env e v) d 512 ENV_SIZE_MAX) 64.
Definition env_get_thread_stacksize := env_get_stacksize THREAD_STACKSIZE 16384.
Definition env_get_sched_stacksize := env_get_stacksize SCHED_STACKSIZE 4194304.

(* uint32_t ABTD_env_get_sched_event_freq(void) / uint64_t ABTD_env_get_sched_sleep_nsec(void) *)
Definition env_get_sched_event_freq (e : environ) : Z :=
  load_env_uint32 (get_abt_env e SCHED_EVENT_FREQ) 50 1 ENV_UINT32_MAX.
Definition env_get_sched_sleep_nsec (e : environ) : Z :=
  load_env_uint64 (get_abt_env e SCHED_SLEEP_NSEC) 100 0 ENV_UINT64_MAX.

(* the fields of ABTI_global written by ABTD_env_init *)
Record settings := {
  max_xstreams : Z;          (* int *)
  use_logging : bool;
  use_debug : bool;
  key_table_size : Z;        (* uint32_t *)
  stack_guard_kind : Z;      (* 0 none, 1 mprotect, 2 mprotect_strict *)
  sys_page_size : Z;         (* size_t *)
  thread_stacksize : Z;      (* size_t *)
  sched_stacksize : Z;       (* size_t *)
  sched_event_freq : Z;      (* uint32_t *)
  sched_sleep_nsec : Z;      (* uint64_t *)
  mutex_max_handovers : Z;   (* uint32_t *)
  mutex_max_wakeups : Z;     (* uint32_t *)
  print_raw_stack : bool;
  huge_page_size : Z;        (* size_t *)
  mem_page_size : Z;         (* size_t *)
  mem_sp_size : Z;           (* size_t *)
  mem_max_stacks : Z;        (* uint32_t *)
  mem_max_descs : Z;         (* uint32_t *)
  print_config : bool
}.

(* void ABTD_env_init(ABTI_global *p_global) *)
Definition env_init (num_cores pagesize : Z) (e : environ) : settings :=
  let guard := env_get_stack_guard_mprotect e in
  let thread_stacksize := env_get_thread_stacksize pagesize e in
  (* const uint32_t default_mem_max_stacks =
       ABTU_min_uint32(ABTD_MEM_MAX_TOTAL_STACK_SIZE / p_global->thread_stacksize,
                       ABTD_MEM_MAX_NUM_STACKS);   (size_t quotient converted to uint32_t) *)
  let default_mem_max_stacks := abtu_min (w 32 (67108864 / thread_stacksize)) 1024 in
  {| max_xstreams := env_get_max_xstreams num_cores e;
     use_logging := load_env_bool (get_abt_env e USE_LOG) false;
     use_debug := load_env_bool (get_abt_env e USE_DEBUG) false;
     key_table_size := env_key_table_size e;
     stack_guard_kind := if fst guard then (if snd guard then 2 else 1) else 0;
     sys_page_size := env_get_sys_pagesize pagesize e;
     thread_stacksize := thread_stacksize;
     sched_stacksize := env_get_sched_stacksize pagesize e;
     sched_event_freq := env_get_sched_event_freq e;
     sched_sleep_nsec := env_get_sched_sleep_nsec e;
     mutex_max_handovers := load_env_uint32 (get_abt_env e MUTEX_MAX_HANDOVERS) 64 1 ENV_UINT32_MAX;
     mutex_max_wakeups := load_env_uint32 (get_abt_env e MUTEX_MAX_WAKEUPS) 1 1 ENV_UINT32_MAX;
     print_raw_stack := load_env_bool (get_abt_env e PRINT_RAW_STACK) true;
     huge_page_size := load_env_size (get_abt_env e HUGE_PAGE_SIZE) 2097152 4096 ENV_SIZE_MAX;
     mem_page_size :=
       roundup_pow2 64 (abtu_roundup 64 (load_env_size (get_abt_env e MEM_PAGE_SIZE) 2097152 4096
                                                       ENV_SIZE_MAX) 64);
     mem_sp_size :=
       abtu_roundup 64 (load_env_size (get_abt_env e MEM_STACK_PAGE_SIZE) 8388608
                                      (w 64 (thread_stacksize * 4)) ENV_SIZE_MAX) 64;
     mem_max_stacks :=
       abtu_roundup 32 (load_env_uint32 (get_abt_env e MEM_MAX_NUM_STACKS) default_mem_max_stacks 2
                                        ENV_UINT32_MAX) 2;
     mem_max_descs :=
       abtu_roundup 32 (load_env_uint32 (get_abt_env e MEM_MAX_NUM_DESCS) 4096 2 ENV_UINT32_MAX) 2;
     print_config := load_env_bool (get_abt_env e PRINT_CONFIG) false |}.

End Wrap.

(* the code *)
Definition c_env_init := env_init wrapu.
(* the same computation in exact integer arithmetic *)
Definition z_env_init := env_init nowrap.

(* "sane magnitude" predicate shared with the harness: ABT_init and a smoke
   workload are run only under settings for which they can be expected to
   succeed on an ordinary machine *)
Definition sane (pagesize : Z) (s : settings) : bool :=
  (16384 <=? thread_stacksize s) && (thread_stacksize s <=? 16777216) &&
  (16384 <=? sched_stacksize s) && (sched_stacksize s <=? 67108864) &&
  (sys_page_size s =? pagesize) &&
  (huge_page_size s <=? 1073741824) &&
  (mem_page_size s <=? 67108864) && (mem_sp_size s <=? 268435456) &&
  (key_table_size s <=? 65536) && (mem_max_stacks s <=? 4096) && (mem_max_descs s <=? 65536) &&
  (sched_sleep_nsec s <=? 1000000) && (sched_event_freq s <=? 4096) && negb (print_config s).
