From Coq Require Import List ZArith Bool Lia.
From ABT Require Import Cfg.Atoi.
Import ListNotations.
Local Open Scope Z_scope.

Lemma is_digit_range c : is_digit c = true -> 0 <= c - 48 <= 9.
Proof. unfold is_digit. intros H. apply andb_true_iff in H. lia. Qed.

Lemma digit_not_ws c : is_digit c = true -> is_ws c = false.
Proof. intros H. apply is_digit_range in H. unfold is_ws.
       repeat (apply orb_false_iff; split); lia. Qed.

Lemma digit_not_sign c : is_digit c = true -> (c =? 43) = false /\ (c =? 45) = false.
Proof. intros H. apply is_digit_range in H. lia. Qed.

Lemma digits_val_mono s : forall acc, 0 <= acc -> acc <= digits_val s acc.
Proof.
  induction s as [|c s IH]; cbn; intros acc Ha; [lia|].
  destruct (is_digit c) eqn:Hd; [|lia].
  apply is_digit_range in Hd. specialize (IH (acc * 10 + (c - 48)) ltac:(lia)). lia.
Qed.

Lemma wrap64_small z : 0 <= z <= U64MAX -> wrap64 z = z.
Proof. unfold wrap64, U64MAX. intros. apply Z.mod_small. lia. Qed.

(* the overflow guard of atoi_impl is exact, and is evaluated without wrap *)
Lemma guard_exact val d :
  0 <= val <= U64MAX -> 0 <= d <= 9 ->
  ((val >? U64MAX / 10) || (wrap64 (val * 10) >? wrap64 (U64MAX - d))) =
  (val * 10 + d >? U64MAX).
Proof.
  intros Hv Hd.
  assert (HQ : U64MAX / 10 = 1844674407370955161) by reflexivity.
  rewrite HQ. destruct (Z.gtb_spec val 1844674407370955161) as [H|H]; cbn [orb].
  - symmetry. unfold U64MAX in *. lia.
  - rewrite !wrap64_small by (unfold U64MAX in *; lia). unfold U64MAX in *. lia.
Qed.

Definition sat (sg : bool) (n : Z) : ares :=
  if n <=? U64MAX then AOk sg n false else AOk sg U64MAX true.

(* phase 3: after the first digit *)
Lemma loop_digits s : forall val sg, 0 <= val <= U64MAX ->
  atoi_loop s val sg true true = sat sg (digits_val s val).
Proof.
  induction s as [|c s IH]; intros val sg Hv; cbn [atoi_loop digits_val].
  - unfold sat. destruct (Z.leb_spec val U64MAX); [reflexivity|lia].
  - rewrite !andb_false_r. cbn [negb].
    destruct (is_digit c) eqn:Hd.
    + pose proof (is_digit_range c Hd) as Hr.
      cbv zeta. rewrite guard_exact by auto.
      destruct (Z.gtb_spec (val * 10 + (c - 48)) U64MAX) as [Ho|Ho].
      * pose proof (digits_val_mono s (val * 10 + (c - 48)) ltac:(lia)).
        unfold sat. destruct (Z.leb_spec (digits_val s (val * 10 + (c - 48))) U64MAX); [lia|reflexivity].
      * rewrite (wrap64_small (val * 10)) by (unfold U64MAX in *; lia).
        rewrite wrap64_small by lia. apply IH. lia.
    + unfold sat. destruct (Z.leb_spec val U64MAX); [reflexivity|lia].
Qed.

(* phase 2: sign characters seen, no digit yet *)
Lemma loop_signs s : forall sg,
  atoi_loop s 0 sg true false =
  let (neg, s2) := take_signs s sg in
  if starts_with_digit s2 then sat neg (digits_val s2 0) else AErr.
Proof.
  induction s as [|c s IH]; intros sg; cbn [atoi_loop take_signs]; [reflexivity|].
  rewrite andb_false_r. cbn [negb]. rewrite !andb_true_r.
  destruct (Z.eqb_spec c 43) as [E|N1]; [apply IH|].
  destruct (Z.eqb_spec c 45) as [E|N2]; [apply IH|].
  cbn [starts_with_digit digits_val].
  destruct (is_digit c) eqn:Hd; [|reflexivity].
  pose proof (is_digit_range c Hd) as Hr.
  cbv zeta. rewrite guard_exact by (unfold U64MAX; lia).
  destruct (Z.gtb_spec (0 * 10 + (c - 48)) U64MAX) as [Ho|Ho]; [unfold U64MAX in *; lia|].
  rewrite (wrap64_small (0 * 10)) by (unfold U64MAX; lia).
  rewrite wrap64_small by (unfold U64MAX; lia).
  apply loop_digits. unfold U64MAX in *; lia.
Qed.

Lemma take_signs_ws c s sg : is_ws c = true -> take_signs (c :: s) sg = (sg, c :: s).
Proof.
  intros H. cbn. unfold is_ws in H.
  destruct (Z.eqb_spec c 43); [subst; discriminate|].
  destruct (Z.eqb_spec c 45); [subst; discriminate|]. reflexivity.
Qed.

(* phase 1: leading white space *)
Lemma loop_ws s :
  atoi_loop s 0 false false false =
  let (neg, s2) := take_signs (drop_ws s) false in
  if starts_with_digit s2 then sat neg (digits_val s2 0) else AErr.
Proof.
  induction s as [|c s IH]; cbn [atoi_loop drop_ws]; [reflexivity|].
  cbn [negb]. rewrite !andb_true_r.
  destruct (is_ws c) eqn:Hw; [exact IH|].
  cbn [take_signs].
  destruct (Z.eqb_spec c 43) as [E|N1]; [apply loop_signs|].
  destruct (Z.eqb_spec c 45) as [E|N2]; [apply (loop_signs s true)|].
  cbn [starts_with_digit digits_val].
  destruct (is_digit c) eqn:Hd; [|reflexivity].
  pose proof (is_digit_range c Hd) as Hr.
  cbv zeta. rewrite guard_exact by (unfold U64MAX; lia).
  destruct (Z.gtb_spec (0 * 10 + (c - 48)) U64MAX) as [Ho|Ho]; [unfold U64MAX in *; lia|].
  rewrite (wrap64_small (0 * 10)) by (unfold U64MAX; lia).
  rewrite wrap64_small by (unfold U64MAX; lia).
  apply loop_digits. unfold U64MAX in *; lia.
Qed.

Theorem atoi_impl_spec s :
  atoi_impl s = match spec_parse s with
                | None => AErr
                | Some (neg, n) => sat neg n
                end.
Proof.
  unfold atoi_impl, spec_parse. rewrite loop_ws.
  destruct (take_signs (drop_ws s) false) as [neg s2].
  destruct (starts_with_digit s2); reflexivity.
Qed.

Lemma spec_parse_nonneg s neg n : spec_parse s = Some (neg, n) -> 0 <= n.
Proof.
  unfold spec_parse. destruct (take_signs (drop_ws s) false) as [ng s2].
  destruct (starts_with_digit s2); [|discriminate]. intros H. inversion H; subst.
  apply digits_val_mono. lia.
Qed.

Ltac typed_tac :=
  unfold clamp, out_of, INT_MIN, INT_MAX, U32MAX, U64MAX in *;
  repeat match goal with
         | |- context [?a >? ?b] => destruct (Z.gtb_spec a b)
         | |- context [?a <? ?b] => destruct (Z.ltb_spec a b)
         | |- context [?a =? ?b] => destruct (Z.eqb_spec a b)
         end; cbn [orb andb negb]; try (f_equal; f_equal; lia); try lia.

Theorem atoi_int_spec s : atoi_int s = spec_typed INT_MIN INT_MAX s.
Proof.
  unfold atoi_int, spec_typed. rewrite atoi_impl_spec.
  destruct (spec_parse s) as [[neg n]|] eqn:E; [|reflexivity].
  apply spec_parse_nonneg in E. unfold sat.
  destruct (Z.leb_spec n U64MAX); destruct neg; typed_tac.
Qed.

Theorem atoi_ui32_spec s : atoi_ui32 s = spec_typed 0 U32MAX s.
Proof.
  unfold atoi_ui32, spec_typed. rewrite atoi_impl_spec.
  destruct (spec_parse s) as [[neg n]|] eqn:E; [|reflexivity].
  apply spec_parse_nonneg in E. unfold sat.
  destruct (Z.leb_spec n U64MAX); destruct neg; typed_tac.
Qed.

Theorem atoi_ui64_spec s : atoi_ui64 s = spec_typed 0 U64MAX s.
Proof.
  unfold atoi_ui64, spec_typed. rewrite atoi_impl_spec.
  destruct (spec_parse s) as [[neg n]|] eqn:E; [|reflexivity].
  apply spec_parse_nonneg in E. unfold sat.
  destruct (Z.leb_spec n U64MAX); destruct neg; typed_tac.
Qed.

(* the parser never looks past the terminating NUL: a suffix after an embedded
   NUL (code 0) is irrelevant *)
Lemma loop_stops_at_nul s1 s2 : forall val sg rc rd,
  atoi_loop (s1 ++ 0 :: s2) val sg rc rd = atoi_loop s1 val sg rc rd.
Proof.
  induction s1 as [|c s1 IH]; intros; cbn [app atoi_loop].
  - cbn. destruct rc, rd; reflexivity.
  - rewrite !IH. reflexivity.
Qed.
