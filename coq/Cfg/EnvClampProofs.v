(* Proofs about the model of the numeric settings of src/arch/abtd_env.c (EnvClamp.v). *)
From Coq Require Import List ZArith Bool Lia.
From ABT Require Import Cfg.Atoi Cfg.AtoiProofs Cfg.EnvClamp.
Import ListNotations.
Local Open Scope Z_scope.

Lemma wrapu_id bits z : 0 <= z < 2 ^ bits -> wrapu bits z = z.
Proof. intros. unfold wrapu. now apply Z.mod_small. Qed.

(* ------------------------------------------------------------------ *)
(** * clamping *)

Lemma clamp_max_min lo hi v : abtu_max lo (abtu_min hi v) = Z.max lo (Z.min hi v).
Proof. unfold abtu_max, abtu_min. destruct (Z.ltb_spec hi v); match goal with |- context [?a >? ?b] => destruct (Z.gtb_spec a b) end; lia. Qed.

Lemma clamp_range lo hi v : lo <= hi -> lo <= abtu_max lo (abtu_min hi v) <= hi.
Proof. intros. rewrite clamp_max_min. lia. Qed.

Lemma clamp_inside lo hi v : lo <= v <= hi -> abtu_max lo (abtu_min hi v) = v.
Proof. intros. rewrite clamp_max_min. lia. Qed.

Lemma clamp_lo lo hi v : lo <= abtu_max lo (abtu_min hi v).
Proof. rewrite clamp_max_min. lia. Qed.

Lemma clamp_hi_or lo hi v : abtu_max lo (abtu_min hi v) <= hi \/ abtu_max lo (abtu_min hi v) = lo.
Proof. rewrite clamp_max_min. lia. Qed.

Lemma load_env_range atoi env d lo hi : lo <= hi -> lo <= load_env atoi env d lo hi <= hi.
Proof.
  intros H. unfold load_env. destruct env as [s|]; [destruct (atoi s) as [[v o]|]|]; now apply clamp_range.
Qed.

Lemma load_env_lo atoi env d lo hi : lo <= load_env atoi env d lo hi.
Proof. unfold load_env. destruct env as [s|]; [destruct (atoi s) as [[v o]|]|]; apply clamp_lo. Qed.

Lemma load_env_hi_or atoi env d lo hi :
  load_env atoi env d lo hi <= hi \/ load_env atoi env d lo hi = lo.
Proof. unfold load_env. destruct env as [s|]; [destruct (atoi s) as [[v o]|]|]; apply clamp_hi_or. Qed.

Lemma load_env_size_range env d lo hi : lo <= hi -> lo <= load_env_size env d lo hi <= hi.
Proof. apply load_env_range. Qed.
Lemma load_env_uint32_range env d lo hi : lo <= hi -> lo <= load_env_uint32 env d lo hi <= hi.
Proof. apply load_env_range. Qed.
Lemma load_env_uint64_range env d lo hi : lo <= hi -> lo <= load_env_uint64 env d lo hi <= hi.
Proof. apply load_env_range. Qed.
Lemma load_env_int_range env d lo hi : lo <= hi -> lo <= load_env_int env d lo hi <= hi.
Proof. apply load_env_range. Qed.

(* load_env = clamp of (the saturated value of the digits | the default): the
   parse is the one proved in AtoiProofs.v *)
Definition clampz (lo hi v : Z) : Z := Z.max lo (Z.min hi v).

Lemma load_env_size_spec env d lo hi :
  load_env_size env d lo hi =
  match env with
  | None => clampz lo hi d
  | Some s => match spec_typed 0 U64MAX s with
              | None => clampz lo hi d
              | Some (v, _) => clampz lo hi v
              end
  end.
Proof.
  unfold load_env_size, load_env, atoi_sz, clampz. destruct env as [s|]; [|apply clamp_max_min].
  rewrite atoi_ui64_spec. destruct (spec_typed 0 U64MAX s) as [[v o]|]; apply clamp_max_min.
Qed.

Lemma load_env_uint32_spec env d lo hi :
  load_env_uint32 env d lo hi =
  match env with
  | None => clampz lo hi d
  | Some s => match spec_typed 0 U32MAX s with
              | None => clampz lo hi d
              | Some (v, _) => clampz lo hi v
              end
  end.
Proof.
  unfold load_env_uint32, load_env, clampz. destruct env as [s|]; [|apply clamp_max_min].
  rewrite atoi_ui32_spec. destruct (spec_typed 0 U32MAX s) as [[v o]|]; apply clamp_max_min.
Qed.

Lemma load_env_int_spec env d lo hi :
  load_env_int env d lo hi =
  match env with
  | None => clampz lo hi d
  | Some s => match spec_typed INT_MIN INT_MAX s with
              | None => clampz lo hi d
              | Some (v, _) => clampz lo hi v
              end
  end.
Proof.
  unfold load_env_int, load_env, clampz. destruct env as [s|]; [|apply clamp_max_min].
  rewrite atoi_int_spec. destruct (spec_typed INT_MIN INT_MAX s) as [[v o]|]; apply clamp_max_min.
Qed.

(* ------------------------------------------------------------------ *)
(** * roundup_pow2 *)

Lemma pow2_loop_spec val : forall r i, 0 <= i ->
  let j := pow2_loop r i val in
  i <= j <= i + Z.of_nat r /\
  (forall k, i <= k < j -> Z.shiftr (val - 1) k <> 0) /\
  (j < i + Z.of_nat r -> Z.shiftr (val - 1) j = 0).
Proof.
  induction r as [|r IH]; intros i Hi; cbn [pow2_loop].
  - split; [lia|split; [intros k Hk; lia|intros Hj; lia]].
  - destruct (Z.eqb_spec (Z.shiftr (val - 1) i) 0) as [E|E].
    + split; [lia|split; [intros k Hk; lia|auto]].
    + specialize (IH (i + 1) ltac:(lia)). cbv zeta in IH. destruct IH as (H1 & H2 & H3).
      split; [lia|split].
      * intros k Hk. destruct (Z.eq_dec k i) as [->|]; auto. apply H2. lia.
      * intros Hj. apply H3. lia.
Qed.

Lemma shiftr_zero_iff a k : 0 <= a -> 0 <= k -> (Z.shiftr a k = 0 <-> a < 2 ^ k).
Proof.
  intros Ha Hk. rewrite Z.shiftr_div_pow2 by assumption.
  pose proof (Z.pow_pos_nonneg 2 k ltac:(lia) Hk).
  rewrite Z.div_small_iff by lia. lia.
Qed.

(* for 1 <= val <= 2^(bits-1) the result is the least power of two >= val, and
   the shift does not overflow the type *)
Lemma roundup_pow2_spec (bits : nat) val : (1 <= bits)%nat -> 1 <= val <= 2 ^ (Z.of_nat bits - 1) ->
  exists k, 0 <= k <= Z.of_nat bits - 1 /\
            roundup_pow2 wrapu bits val = 2 ^ k /\ roundup_pow2 nowrap bits val = 2 ^ k /\
            val <= 2 ^ k /\ (k = 0 \/ 2 ^ (k - 1) < val).
Proof.
  intros Hb Hv. unfold roundup_pow2. destruct (Z.eqb_spec val 0); [lia|].
  pose proof (pow2_loop_spec val (bits - 1) 0 ltac:(lia)) as H. cbv zeta in H.
  set (j := pow2_loop (bits - 1) 0 val) in *. destruct H as (H1 & H2 & H3).
  replace (0 + Z.of_nat (bits - 1)) with (Z.of_nat bits - 1) in * by lia.
  exists j. rewrite Z.shiftl_1_l. unfold nowrap.
  assert (Hz : Z.shiftr (val - 1) j = 0).
  { destruct (Z_lt_le_dec j (Z.of_nat bits - 1)) as [Hlt|Hge]; [auto|].
    assert (j = Z.of_nat bits - 1) as -> by lia. apply shiftr_zero_iff; lia. }
  apply shiftr_zero_iff in Hz; try lia.
  assert (Hp : 2 ^ j <= 2 ^ (Z.of_nat bits - 1)) by (apply Z.pow_le_mono_r; lia).
  assert (Hp2 : 2 ^ (Z.of_nat bits - 1) < 2 ^ Z.of_nat bits) by (apply Z.pow_lt_mono_r; lia).
  pose proof (Z.pow_pos_nonneg 2 j ltac:(lia) ltac:(lia)).
  repeat split; try lia.
  - apply wrapu_id. lia.
  - destruct (Z.eq_dec j 0) as [|Hj]; [now left|right].
    specialize (H2 (j - 1) ltac:(lia)).
    destruct (Z_lt_le_dec (val - 1) (2 ^ (j - 1))) as [Hlt|Hge]; [|lia].
    exfalso. apply H2. apply shiftr_zero_iff; lia.
Qed.

Definition is_pow2 (x : Z) : Prop := exists k, 0 <= k /\ x = 2 ^ k.

Lemma roundup_pow2_log2 (bits : nat) val : (1 <= bits)%nat -> 1 <= val <= 2 ^ (Z.of_nat bits - 1) ->
  roundup_pow2 wrapu bits val = 2 ^ Z.log2_up val.
Proof.
  intros Hb Hv. destruct (roundup_pow2_spec bits val Hb Hv) as (k & Hk & E & _ & Hle & Hmin).
  rewrite E. f_equal. destruct (Z.eq_dec k 0) as [->|Hk0].
  - assert (val = 1) as -> by (cbn in Hle; lia). reflexivity.
  - destruct Hmin as [|Hmin]; [lia|].
    symmetry. apply Z.log2_up_unique; [lia|]. replace (Z.pred k) with (k - 1) by lia. lia.
Qed.

(* ------------------------------------------------------------------ *)
(** * ABTU_roundup_* for the multiples that are used: 64 (size_t) and 2 (uint32_t) *)

Lemma land_mask (bits k x : Z) : 0 <= k -> 0 <= bits -> 0 <= x < 2 ^ bits ->
  Z.land x (Z.land (Z.lnot (Z.ones k)) (Z.ones bits)) = 2 ^ k * (x / 2 ^ k).
Proof.
  intros Hk Hb Hx. rewrite (Z.land_comm (Z.lnot _)), Z.land_assoc, Z.land_ones by assumption.
  rewrite Z.mod_small by assumption.
  rewrite <- Z.ldiff_land.
  rewrite Z.ldiff_ones_r by assumption. rewrite Z.shiftl_mul_pow2, Z.shiftr_div_pow2 by assumption. lia.
Qed.

Lemma abtu_roundup_64 w val : (forall z, 0 <= z < 2 ^ 64 -> w 64 z = z) -> 0 <= val < 2 ^ 64 - 64 ->
  abtu_roundup w 64 val 64 = 64 * ((val + 63) / 64).
Proof.
  intros Hw Hv. unfold abtu_roundup.
  rewrite (Hw (64 - 1)) by lia. change (Z.land 64 (64 - 1) =? 0) with true. cbv iota.
  rewrite (Hw (val + 64)) by lia. rewrite (Hw (val + 64 - 1)) by lia.
  change (unot 64 (64 - 1)) with (Z.land (Z.lnot (Z.ones 6)) (Z.ones 64)).
  rewrite land_mask by lia. change (2 ^ 6) with 64. f_equal. f_equal. lia.
Qed.

Lemma abtu_roundup_32_2 w val : (forall z, 0 <= z < 2 ^ 32 -> w 32 z = z) -> 0 <= val < 2 ^ 32 - 2 ->
  abtu_roundup w 32 val 2 = 2 * ((val + 1) / 2).
Proof.
  intros Hw Hv. unfold abtu_roundup.
  rewrite (Hw (2 - 1)) by lia. change (Z.land 2 (2 - 1) =? 0) with true. cbv iota.
  rewrite (Hw (val + 2)) by lia. rewrite (Hw (val + 2 - 1)) by lia.
  change (unot 32 (2 - 1)) with (Z.land (Z.lnot (Z.ones 1)) (Z.ones 32)).
  rewrite land_mask by lia. change (2 ^ 1) with 2. f_equal. f_equal. lia.
Qed.

Lemma wrapu_ok bits : forall z, 0 <= z < 2 ^ bits -> wrapu bits z = z.
Proof. intros. now apply wrapu_id. Qed.
Lemma nowrap_ok bits : forall z, 0 <= z < 2 ^ bits -> nowrap bits z = z.
Proof. reflexivity. Qed.

(* m * ceil(v / m): the least multiple of m that is >= v *)
Lemma ceil_mult_spec m v : 0 < m ->
  v <= m * ((v + (m - 1)) / m) < v + m /\ (m * ((v + (m - 1)) / m)) mod m = 0.
Proof.
  intros Hm. pose proof (Z.div_mod (v + (m - 1)) m ltac:(lia)).
  pose proof (Z.mod_pos_bound (v + (m - 1)) m Hm).
  split; [lia|]. rewrite Z.mul_comm. apply Z.mod_mul. lia.
Qed.

(* ------------------------------------------------------------------ *)
(** * the settings *)

Ltac pows :=
  change (2 ^ 64) with 18446744073709551616 in *; change (2 ^ 63) with 9223372036854775808 in *;
  change (2 ^ 62) with 4611686018427387904 in *; change (2 ^ 61) with 2305843009213693952 in *;
  change (2 ^ 32) with 4294967296 in *; change (2 ^ 31) with 2147483648 in *.

Section Settings.
Variables (nc pg : Z) (e : environ).

Lemma sys_pagesize_spec :
  is_pow2 (env_get_sys_pagesize wrapu pg e) /\ 64 <= env_get_sys_pagesize wrapu pg e <= 2 ^ 63 /\
  env_get_sys_pagesize wrapu pg e = env_get_sys_pagesize nowrap pg e /\
  env_get_sys_pagesize wrapu pg e =
    2 ^ Z.log2_up (load_env_size (get_abt_env e SYS_PAGE_SIZE) pg 64 ENV_SIZE_MAX).
Proof.
  unfold env_get_sys_pagesize.
  pose proof (load_env_size_range (get_abt_env e SYS_PAGE_SIZE) pg 64 ENV_SIZE_MAX ltac:(unfold ENV_SIZE_MAX; lia)) as Hr.
  set (v := load_env_size _ _ _ _) in *.
  assert (Hv : 1 <= v <= 2 ^ (Z.of_nat 64 - 1)) by (unfold ENV_SIZE_MAX in Hr; cbn; lia).
  destruct (roundup_pow2_spec 64 v ltac:(lia) Hv) as (k & Hk & E1 & E2 & Hle & Hmin).
  pose proof (roundup_pow2_log2 64 v ltac:(lia) Hv) as E3.
  rewrite E2, E1 in *.
  assert (2 ^ k <= 2 ^ 63) by (apply Z.pow_le_mono_r; lia).
  split; [exists k; split; [lia|reflexivity]|].
  split; [unfold ENV_SIZE_MAX in Hr; lia|]. split; [reflexivity|exact E3].
Qed.

(* the default stack sizes: [ok] says the two additions of the mprotect case do not wrap *)
Lemma stacksize_spec v d : 0 <= d <= 2 ^ 32 ->
  let r := env_get_stacksize wrapu v d pg e in
  (64 | r) /\ 512 <= r <= 2 ^ 63 /\
  ((fst (env_get_stack_guard_mprotect e) = true -> env_get_sys_pagesize wrapu pg e <= 2 ^ 62) ->
   r = env_get_stacksize nowrap v d pg e).
Proof.
  intros Hd. unfold env_get_stacksize. cbv zeta.
  set (dw := if fst (env_get_stack_guard_mprotect e) then _ else d).
  set (dz := if fst (env_get_stack_guard_mprotect e) then _ else d).
  pose proof (load_env_size_range (get_abt_env e v) dw 512 ENV_SIZE_MAX ltac:(unfold ENV_SIZE_MAX; lia)) as Hr.
  pose proof (eq_refl : ENV_SIZE_MAX = 9223372036854775807) as HM.
  rewrite (abtu_roundup_64 wrapu) by (first [apply wrapu_ok | lia]).
  pose proof (ceil_mult_spec 64 (load_env_size (get_abt_env e v) dw 512 ENV_SIZE_MAX) ltac:(lia)) as (Hc & Hm).
  change (64 - 1) with 63 in *.
  split; [apply Z.mod_divide; [lia|exact Hm]|]. split.
  - pose proof (Z.div_mod (load_env_size (get_abt_env e v) dw 512 ENV_SIZE_MAX + 63) 64 ltac:(lia)).
    pose proof (Z.mod_pos_bound (load_env_size (get_abt_env e v) dw 512 ENV_SIZE_MAX + 63) 64 ltac:(lia)).
    lia.
  - intros Hok. assert (dw = dz) as <-.
    { unfold dw, dz. destruct (fst (env_get_stack_guard_mprotect e)); [|reflexivity].
      destruct sys_pagesize_spec as (_ & Hrange & Eq & _). specialize (Hok eq_refl).
      rewrite <- Eq. unfold nowrap. pows.
      rewrite (wrapu_id 64 (_ * 2)) by (pows; lia). rewrite wrapu_id by (pows; lia). reflexivity. }
    rewrite (abtu_roundup_64 nowrap) by (first [apply nowrap_ok | lia]). reflexivity.
Qed.

Lemma key_table_size_spec :
  let v := load_env_uint32 (get_abt_env e KEY_TABLE_SIZE) 4 1 ENV_UINT32_MAX in
  is_pow2 (env_key_table_size wrapu e) /\ 1 <= env_key_table_size wrapu e <= 2 ^ 31 /\
  env_key_table_size wrapu e = env_key_table_size nowrap e /\
  env_key_table_size wrapu e = 2 ^ Z.log2_up v.
Proof.
  cbv zeta. unfold env_key_table_size.
  pose proof (load_env_uint32_range (get_abt_env e KEY_TABLE_SIZE) 4 1 ENV_UINT32_MAX ltac:(unfold ENV_UINT32_MAX; lia)) as Hr.
  set (v := load_env_uint32 _ _ _ _) in *.
  assert (Hv : 1 <= v <= 2 ^ (Z.of_nat 32 - 1)) by (unfold ENV_UINT32_MAX in Hr; cbn; lia).
  destruct (roundup_pow2_spec 32 v ltac:(lia) Hv) as (k & Hk & E1 & E2 & Hle & Hmin).
  pose proof (roundup_pow2_log2 32 v ltac:(lia) Hv) as E3.
  rewrite E2, E1 in *.
  assert (2 ^ k <= 2 ^ 31) by (apply Z.pow_le_mono_r; lia).
  split; [exists k; split; [lia|reflexivity]|].
  split; [lia|]. split; [reflexivity|exact E3].
Qed.

Lemma mem_page_size_spec :
  let v := load_env_size (get_abt_env e MEM_PAGE_SIZE) 2097152 4096 ENV_SIZE_MAX in
  let r := roundup_pow2 wrapu 64 (abtu_roundup wrapu 64 v 64) in
  is_pow2 r /\ 4096 <= r <= 2 ^ 63 /\
  r = roundup_pow2 nowrap 64 (abtu_roundup nowrap 64 v 64) /\
  r = 2 ^ Z.log2_up (64 * ((v + 63) / 64)).
Proof.
  cbv zeta.
  pose proof (load_env_size_range (get_abt_env e MEM_PAGE_SIZE) 2097152 4096 ENV_SIZE_MAX ltac:(unfold ENV_SIZE_MAX; lia)) as Hr.
  pose proof (eq_refl : ENV_SIZE_MAX = 9223372036854775807) as HM.
  set (v := load_env_size _ _ _ _) in *.
  rewrite (abtu_roundup_64 wrapu) by (first [apply wrapu_ok | pows; lia]).
  rewrite (abtu_roundup_64 nowrap) by (first [apply nowrap_ok | pows; lia]).
  pose proof (ceil_mult_spec 64 v ltac:(lia)) as (Hc & Hm). change (64 - 1) with 63 in *.
  set (u := 64 * ((v + 63) / 64)) in *.
  assert (Hu : u <= 9223372036854775808).
  { pose proof (Z.div_mod (v + 63) 64 ltac:(lia)). pose proof (Z.mod_pos_bound (v + 63) 64 ltac:(lia)).
    unfold u. lia. }
  assert (Hv : 1 <= u <= 2 ^ (Z.of_nat 64 - 1)) by (change (2 ^ (Z.of_nat 64 - 1)) with 9223372036854775808; lia).
  destruct (roundup_pow2_spec 64 u ltac:(lia) Hv) as (k & Hk & E1 & E2 & Hle & Hmin).
  pose proof (roundup_pow2_log2 64 u ltac:(lia) Hv) as E3.
  rewrite E2, E1 in *.
  assert (2 ^ k <= 2 ^ 63) by (apply Z.pow_le_mono_r; lia).
  split; [exists k; split; [lia|reflexivity]|].
  split; [lia|]. split; [reflexivity|exact E3].
Qed.

Lemma divide_wrapu m bits a : 0 <= bits -> (m | a) -> (m | 2 ^ bits) -> (m | wrapu bits a).
Proof.
  intros Hb Ha Hn. unfold wrapu. rewrite Z.mod_eq by (apply Z.pow_nonzero; lia).
  apply Z.divide_sub_r; auto. now apply Z.divide_mul_l.
Qed.

(* mem_sp_size: the minimum is thread_stacksize * 4 computed in size_t *)
Lemma mem_sp_size_spec ts : (64 | ts) -> 512 <= ts <= 2 ^ 63 ->
  let r := abtu_roundup wrapu 64 (load_env_size (get_abt_env e MEM_STACK_PAGE_SIZE) 8388608
                                                (wrapu 64 (ts * 4)) ENV_SIZE_MAX) 64 in
  (64 | r) /\ 0 <= r < 2 ^ 64 /\
  (ts <= 2 ^ 61 - 64 -> ts * 4 <= r <= 2 ^ 63) /\
  (ts < 2 ^ 62 ->
   r = abtu_roundup nowrap 64 (load_env_size (get_abt_env e MEM_STACK_PAGE_SIZE) 8388608
                                             (nowrap 64 (ts * 4)) ENV_SIZE_MAX) 64).
Proof.
  intros Hdiv Hts. cbv zeta.
  assert (Hlo : (256 | wrapu 64 (ts * 4))).
  { apply divide_wrapu; [lia| |exists (2 ^ 56); reflexivity].
    destruct Hdiv as [q ->]. exists q. lia. }
  assert (Hlo2 : 0 <= wrapu 64 (ts * 4) < 2 ^ 64) by (apply Z.mod_pos_bound; lia).
  set (lo := wrapu 64 (ts * 4)) in *.
  pose proof (load_env_lo atoi_sz (get_abt_env e MEM_STACK_PAGE_SIZE) 8388608 lo ENV_SIZE_MAX) as H1.
  pose proof (load_env_hi_or atoi_sz (get_abt_env e MEM_STACK_PAGE_SIZE) 8388608 lo ENV_SIZE_MAX) as H2.
  fold load_env_size in H1, H2.
  pose proof (eq_refl : ENV_SIZE_MAX = 9223372036854775807) as HM.
  set (X := load_env_size _ _ _ _) in *.
  assert (HX : 0 <= X < 2 ^ 64 - 64).
  { destruct Hlo as [q Hq]. pows. destruct H2 as [H2|H2]; lia. }
  rewrite (abtu_roundup_64 wrapu) by (first [apply wrapu_ok | exact HX]).
  pose proof (ceil_mult_spec 64 X ltac:(lia)) as (Hc & Hm). change (64 - 1) with 63 in *.
  split; [apply Z.mod_divide; [lia|exact Hm]|].
  split; [pows; lia|]. split.
  - intros Hsane. assert (lo = ts * 4) as El by (unfold lo; apply wrapu_id; pows; lia).
    pows. assert (X <= 9223372036854775807) by (destruct H2 as [H2|H2]; lia).
    pose proof (Z.div_mod (X + 63) 64 ltac:(lia)). pose proof (Z.mod_pos_bound (X + 63) 64 ltac:(lia)).
    lia.
  - intros Hsane. assert (lo = ts * 4) as El by (unfold lo; apply wrapu_id; pows; lia).
    unfold nowrap at 2. rewrite <- El. fold X.
    rewrite (abtu_roundup_64 nowrap) by (first [apply nowrap_ok | exact HX]). reflexivity.
Qed.

Lemma max_num_spec v d :
  let r w := abtu_roundup w 32 (load_env_uint32 (get_abt_env e v) d 2 ENV_UINT32_MAX) 2 in
  (2 | r wrapu) /\ 2 <= r wrapu <= 2 ^ 31 /\ r wrapu = r nowrap /\
  r wrapu = 2 * ((load_env_uint32 (get_abt_env e v) d 2 ENV_UINT32_MAX + 1) / 2).
Proof.
  cbv beta zeta.
  pose proof (load_env_uint32_range (get_abt_env e v) d 2 ENV_UINT32_MAX ltac:(unfold ENV_UINT32_MAX; lia)) as Hr.
  pose proof (eq_refl : ENV_UINT32_MAX = 2147483647) as HM.
  set (X := load_env_uint32 _ _ _ _) in *.
  rewrite (abtu_roundup_32_2 wrapu) by (first [apply wrapu_ok | pows; lia]).
  rewrite (abtu_roundup_32_2 nowrap) by (first [apply nowrap_ok | pows; lia]).
  pose proof (ceil_mult_spec 2 X ltac:(lia)) as (Hc & Hm). change (2 - 1) with 1 in *.
  split; [apply Z.mod_divide; [lia|exact Hm]|].
  split; [|split; reflexivity].
  pose proof (Z.div_mod (X + 1) 2 ltac:(lia)). pose proof (Z.mod_pos_bound (X + 1) 2 ltac:(lia)).
  pows. lia.
Qed.

(* C20_env_clamped: every setting lies in its documented range with its documented rounding *)
Theorem env_clamped :
  let s := c_env_init nc pg e in
  1 <= max_xstreams s <= ENV_INT_MAX /\
  (is_pow2 (key_table_size s) /\ 1 <= key_table_size s <= 2 ^ 31) /\
  (is_pow2 (sys_page_size s) /\ 64 <= sys_page_size s <= 2 ^ 63) /\
  ((64 | thread_stacksize s) /\ 512 <= thread_stacksize s <= 2 ^ 63) /\
  ((64 | sched_stacksize s) /\ 512 <= sched_stacksize s <= 2 ^ 63) /\
  1 <= sched_event_freq s <= ENV_UINT32_MAX /\
  0 <= sched_sleep_nsec s <= ENV_UINT64_MAX /\
  1 <= mutex_max_handovers s <= ENV_UINT32_MAX /\
  1 <= mutex_max_wakeups s <= ENV_UINT32_MAX /\
  4096 <= huge_page_size s <= ENV_SIZE_MAX /\
  (is_pow2 (mem_page_size s) /\ 4096 <= mem_page_size s <= 2 ^ 63) /\
  ((64 | mem_sp_size s) /\ 0 <= mem_sp_size s < 2 ^ 64 /\
   (thread_stacksize s <= 2 ^ 61 - 64 -> thread_stacksize s * 4 <= mem_sp_size s <= 2 ^ 63)) /\
  ((2 | mem_max_stacks s) /\ 2 <= mem_max_stacks s <= 2 ^ 31) /\
  ((2 | mem_max_descs s) /\ 2 <= mem_max_descs s <= 2 ^ 31).
Proof.
  cbv zeta. unfold c_env_init, env_init. cbn [max_xstreams key_table_size sys_page_size thread_stacksize
    sched_stacksize sched_event_freq sched_sleep_nsec mutex_max_handovers mutex_max_wakeups huge_page_size
    mem_page_size mem_sp_size mem_max_stacks mem_max_descs].
  destruct key_table_size_spec as (K1 & K2 & _). destruct sys_pagesize_spec as (S1 & S2 & _).
  destruct (stacksize_spec THREAD_STACKSIZE 16384 ltac:(pows; lia)) as (T1 & T2 & _).
  destruct (stacksize_spec SCHED_STACKSIZE 4194304 ltac:(pows; lia)) as (U1 & U2 & _).
  destruct mem_page_size_spec as (P1 & P2 & _).
  destruct (mem_sp_size_spec (env_get_thread_stacksize wrapu pg e) T1 T2) as (M1 & M2 & M3 & _).
  destruct (max_num_spec MEM_MAX_NUM_STACKS
              (abtu_min (wrapu 32 (67108864 / env_get_thread_stacksize wrapu pg e)) 1024)) as (A1 & A2 & _).
  destruct (max_num_spec MEM_MAX_NUM_DESCS 4096) as (B1 & B2 & _).
  unfold env_get_thread_stacksize, env_get_sched_stacksize in *.
  repeat match goal with |- _ /\ _ => split end; auto;
    try (apply load_env_int_range; unfold ENV_INT_MAX; lia);
    try (apply load_env_uint32_range; unfold ENV_UINT32_MAX; lia);
    try (apply load_env_uint64_range; unfold ENV_UINT64_MAX; lia);
    try (apply load_env_size_range; unfold ENV_SIZE_MAX; lia); try lia.
Qed.

(* the documented rounding is exact: least power of two / least multiple above the clamped value *)
Theorem env_rounding :
  let s := c_env_init nc pg e in
  key_table_size s = 2 ^ Z.log2_up (load_env_uint32 (get_abt_env e KEY_TABLE_SIZE) 4 1 ENV_UINT32_MAX) /\
  sys_page_size s = 2 ^ Z.log2_up (load_env_size (get_abt_env e SYS_PAGE_SIZE) pg 64 ENV_SIZE_MAX) /\
  mem_page_size s =
    2 ^ Z.log2_up (64 * ((load_env_size (get_abt_env e MEM_PAGE_SIZE) 2097152 4096 ENV_SIZE_MAX + 63) / 64)) /\
  mem_max_descs s = 2 * ((load_env_uint32 (get_abt_env e MEM_MAX_NUM_DESCS) 4096 2 ENV_UINT32_MAX + 1) / 2).
Proof.
  cbv zeta. unfold c_env_init, env_init. cbn [key_table_size sys_page_size mem_page_size mem_max_descs].
  destruct key_table_size_spec as (_ & _ & _ & K). destruct sys_pagesize_spec as (_ & _ & _ & S).
  destruct mem_page_size_spec as (_ & _ & _ & P). destruct (max_num_spec MEM_MAX_NUM_DESCS 4096) as (_ & _ & _ & B).
  auto.
Qed.

(* C20_env_no_overflow: with the two "sane magnitude" hypotheses no unsigned operation
   of ABTD_env_init wraps: the code computes what exact integer arithmetic computes *)
Theorem env_no_overflow :
  (fst (env_get_stack_guard_mprotect e) = true -> sys_page_size (c_env_init nc pg e) <= 2 ^ 62) ->
  thread_stacksize (c_env_init nc pg e) < 2 ^ 62 ->
  c_env_init nc pg e = z_env_init nc pg e.
Proof.
  unfold c_env_init, z_env_init, env_init. cbn [sys_page_size thread_stacksize]. intros Ha Hb.
  destruct key_table_size_spec as (_ & _ & K & _). destruct sys_pagesize_spec as (_ & _ & S & _).
  destruct (stacksize_spec THREAD_STACKSIZE 16384 ltac:(pows; lia)) as (T1 & T2 & T3).
  destruct (stacksize_spec SCHED_STACKSIZE 4194304 ltac:(pows; lia)) as (_ & _ & U3).
  specialize (T3 Ha). specialize (U3 Ha).
  destruct mem_page_size_spec as (_ & _ & P & _).
  destruct (mem_sp_size_spec (env_get_thread_stacksize wrapu pg e) T1 T2) as (_ & _ & _ & M).
  specialize (M Hb).
  assert (Q : wrapu 32 (67108864 / env_get_thread_stacksize wrapu pg e)
              = nowrap 32 (67108864 / env_get_thread_stacksize nowrap pg e)).
  { unfold env_get_thread_stacksize in *. rewrite <- T3. unfold nowrap. apply wrapu_id.
    split; [apply Z.div_pos; lia|]. pows.
    apply Z.le_lt_trans with 131072; [|lia]. apply Z.div_le_upper_bound; lia. }
  destruct (max_num_spec MEM_MAX_NUM_STACKS
              (abtu_min (wrapu 32 (67108864 / env_get_thread_stacksize wrapu pg e)) 1024)) as (_ & _ & A & _).
  destruct (max_num_spec MEM_MAX_NUM_DESCS 4096) as (_ & _ & B & _).
  unfold env_get_thread_stacksize, env_get_sched_stacksize in *.
  rewrite A, Q, B, M, P, K, S, U3. rewrite T3 at 1. rewrite <- T3. rewrite T3 at 1.
  f_equal; auto.
Qed.

End Settings.
