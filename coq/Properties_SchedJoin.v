(* C03 (join/free return after, and only after, the target has terminated; and they do return once
   it terminates) and the joiner part of C12, for the scheduler LTS Conc/Sched.v.
   Statements only; proofs in Conc/SchedJoin.v.  Every theorem quantifies over all reachable states:
   any number of units, pools, joiners, any interleaving. *)
From Coq Require Import List Arith ZArith Bool.
From ABT Require Import Conc.Sched Conc.SchedDefs Conc.SchedJoin.
Import ListNotations.

(* ---- the invariant ---- *)
Theorem C03_join_invariant s : reachable s -> InvJoin s.
Proof. exact (inv_reachable s). Qed.
Print Assumptions C03_join_invariant.

(* ---- return only after termination ---- *)
Theorem C03_return_implies_terminated s a u s' : reachable s ->
  step s (EJoinRet a u) = Some s' ->
  is_term (ust (un s u)) = true /\ ost (un s u) = 3%Z.
Proof. exact (SchedJoin.C03_return_implies_terminated s a u s'). Qed.
Print Assumptions C03_return_implies_terminated.

Theorem C03_seen_sound s a u : reachable s -> seen s a u = true ->
  is_term (ust (un s u)) = true /\ ost (un s u) = 3%Z.
Proof. exact (SchedJoin.C03_seen_sound s a u). Qed.
Print Assumptions C03_seen_sound.

Theorem C03_state_word_terminated s u : reachable s ->
  (ost (un s u) = 3%Z <-> is_term (ust (un s u)) = true).
Proof. exact (SchedJoin.C03_state_word_terminated s u). Qed.
Print Assumptions C03_state_word_terminated.

Theorem C03_return_needs_terminated_load s a u :
  step s (EJoinRet a u) <> None <-> seen s a u = true.
Proof. exact (SchedJoin.C03_return_needs_terminated_load s a u). Qed.
Print Assumptions C03_return_needs_terminated_load.

(* ---- ... and they do return once the target has terminated ---- *)
Theorem C03_join_returns_once_terminated s a u site : reachable s ->
  is_term (ust (un s u)) = true ->
  exists s1, step s (EStLoad a u site 3) = Some s1 /\ step s1 (EJoinRet a u) = Some s1.
Proof. exact (SchedJoin.C03_join_returns_once_terminated s a u site). Qed.
Print Assumptions C03_join_returns_once_terminated.

Theorem C03_seen_stable s e s' a u : reachable s -> step s e = Some s' ->
  seen s a u = true -> seen s' a u = true \/ exists p, e = ERevive u p.
Proof. exact (SchedJoin.C03_seen_stable s e s' a u). Qed.
Print Assumptions C03_seen_stable.

(* ---- who may publish itself in p_link ---- *)
Theorem C03_link_only_by_registered_joiner s tgt j ext s' :
  step s (ELinkSt tgt j ext) = Some s' ->
  jof (un s tgt) = Some j /\ rjoin (un s tgt) = true /\ link (un s tgt) = None /\
  (ext = false -> ust (un s j) = UBlocked) /\ link (un s' tgt) = Some j.
Proof. exact (SchedJoin.C03_link_only_by_registered_joiner s tgt j ext s'). Qed.
Print Assumptions C03_link_only_by_registered_joiner.

Theorem C03_link_once s tgt j j' ext :
  link (un s tgt) = Some j -> step s (ELinkSt tgt j' ext) = None.
Proof. exact (SchedJoin.C03_link_once s tgt j j' ext). Qed.
Print Assumptions C03_link_once.

Theorem C03_one_registered_joiner s u j c m who s' : reachable s ->
  step s (EReqOr u 0 false j c m who) = Some s' ->
  j = rjoin (un s u) /\
  (j = false -> jof (un s u) = None /\ link (un s u) = None /\ jof (un s' u) = Some who) /\
  (j = true -> jof (un s' u) = jof (un s u) /\ link (un s' u) = link (un s u) /\ jw (un s' u) = jw (un s u)).
Proof. exact (SchedJoin.C03_one_registered_joiner s u j c m who s'). Qed.
Print Assumptions C03_one_registered_joiner.

(* ---- what ABTI_ythread_atomic_get_joiner concludes is true ---- *)
Theorem C03_exiter_sees_registered_joiner s u : reachable s ->
  (jw (un s u) = JWNone -> jof (un s u) = None /\ link (un s u) = None /\ rjoin (un s u) = true) /\
  (jw (un s u) = JWSpin -> rjoin (un s u) = true /\ exists j, jof (un s u) = Some j) /\
  (forall j, jw (un s u) = JWHave j -> link (un s u) = Some j /\ jof (un s u) = Some j /\ rjoin (un s u) = true) /\
  (jw (un s u) = JWDone -> exists j, link (un s u) = Some j /\ jof (un s u) = Some j).
Proof. exact (SchedJoin.C03_exiter_sees_registered_joiner s u). Qed.
Print Assumptions C03_exiter_sees_registered_joiner.

Theorem C03_handshake_only_when_terminating s u : reachable s ->
  jw (un s u) <> JW0 -> terminating (ust (un s u)) = true.
Proof. exact (SchedJoin.C03_handshake_only_when_terminating s u). Qed.
Print Assumptions C03_handshake_only_when_terminating.

Theorem C03_handshake_no_migration s u : reachable s ->
  handshake (ust (un s u)) = true -> migs (un s u) = 0.
Proof. exact (SchedJoin.C03_handshake_no_migration s u). Qed.
Print Assumptions C03_handshake_no_migration.

(* ---- no termination over a blocked joiner (C03 no lost wakeup, safety form; C12 joiner released,
        exit path and cancellation path) ---- *)
Theorem C03_exit_requires_joiner_woken s u k other s' :
  (k = KExit \/ k = KResumeExitTo) ->
  step s (ECb u k other) = Some s' ->
  ust (un s u) = UFinished /\ jw_settled (un s) (jw (un s u)) = true.
Proof. exact (SchedJoin.C03_exit_requires_joiner_woken s u k other s'). Qed.
Print Assumptions C03_exit_requires_joiner_woken.

Theorem C03_cancel_requires_joiner_woken s u s' :
  step s (EState u 3) = Some s' -> ust (un s u) = UCancelling -> isult (un s u) = true ->
  jw_settled (un s) (jw (un s u)) = true.
Proof. exact (SchedJoin.C03_cancel_requires_joiner_woken s u s'). Qed.
Print Assumptions C03_cancel_requires_joiner_woken.

Theorem C03_leave_with_linked_joiner s u e s' j : reachable s ->
  leaves_handshake s u e -> isult (un s u) = true -> step s e = Some s' ->
  link (un s u) = Some j ->
  (jw (un s u) = JWHave j /\ isult (un s j) = true /\ ust (un s j) <> UBlocked) \/
  jw (un s u) = JWDone.
Proof. exact (SchedJoin.C03_leave_with_linked_joiner s u e s' j). Qed.
Print Assumptions C03_leave_with_linked_joiner.

Theorem C03_no_termination_over_a_blocked_joiner s u : reachable s ->
  isult (un s u) = true -> exiting (ust (un s u)) = true ->
  jw_read (jw (un s u)) = true /\
  (forall j, link (un s u) = Some j -> jw (un s u) = JWHave j \/ jw (un s u) = JWDone).
Proof. exact (SchedJoin.C03_no_termination_over_a_blocked_joiner s u). Qed.
Print Assumptions C03_no_termination_over_a_blocked_joiner.

Theorem C03_unread_joiner_blocks_exit s u : reachable s ->
  isult (un s u) = true -> (jw (un s u) = JW0 \/ jw (un s u) = JWSpin) ->
  exiting (ust (un s u)) = false /\ is_term (ust (un s u)) = false.
Proof. exact (SchedJoin.C03_unread_joiner_blocks_exit s u). Qed.
Print Assumptions C03_unread_joiner_blocks_exit.

(* ---- no lost wake-up (full form).  [reachable_ids]: the runs in which no ULT is created under an id
        that is currently published in some p_link (identity discipline of the history; automatic for
        ULT joiners, it only forbids re-using an external joiner's dummy id for a new ULT) ---- *)
Theorem C03_no_lost_wakeup s u e s' j : reachable_ids s ->
  leaves_handshake s u e -> isult (un s u) = true -> step s e = Some s' ->
  link (un s u) = Some j -> isult (un s j) = true ->
  jw (un s u) = JWHave j /\ ust (un s j) <> UBlocked.
Proof. exact (SchedJoin.C03_no_lost_wakeup s u e s' j). Qed.
Print Assumptions C03_no_lost_wakeup.

Theorem C03_no_lost_wakeup_state s u j : reachable_ids s ->
  isult (un s u) = true -> exiting (ust (un s u)) = true ->
  link (un s u) = Some j -> isult (un s j) = true -> jw (un s u) = JWHave j.
Proof. exact (SchedJoin.C03_no_lost_wakeup_state s u j). Qed.
Print Assumptions C03_no_lost_wakeup_state.

Theorem C03_futex_joiner_is_not_ult s u j : reachable_ids s ->
  jw (un s u) = JWDone -> link (un s u) = Some j -> isult (un s j) = false.
Proof. exact (SchedJoin.C03_futex_joiner_is_not_ult s u j). Qed.
Print Assumptions C03_futex_joiner_is_not_ult.

Theorem C03_reachable_ids_reachable s : reachable_ids s -> reachable s.
Proof. exact (reachable_ids_reachable s). Qed.
Print Assumptions C03_reachable_ids_reachable.

(* decidable sufficient condition on a concrete history *)
Theorem C03_ids_ok_run tr s : ids_okb [] tr = true -> run init tr = Some s -> reachable_ids s.
Proof. exact (ids_ok_run tr s). Qed.
Print Assumptions C03_ids_ok_run.

(* ---- the wake-up goes to the linked joiner ---- *)
Theorem C03_wake_targets_the_linked_joiner s u j s' : reachable s ->
  step s (EFutexRes u j) = Some s' ->
  jw (un s u) = JWHave j /\ link (un s u) = Some j /\ jof (un s u) = Some j /\
  isult (un s j) = false /\ jw (un s' u) = JWDone.
Proof. exact (SchedJoin.C03_wake_targets_the_linked_joiner s u j s'). Qed.
Print Assumptions C03_wake_targets_the_linked_joiner.

Theorem C03_handoff_only_for_blocked s p old j s' :
  step s (ENb p false old j true) = Some s' ->
  ust (un s j) = UBlocked /\ ust (un s' j) = UHandoff.
Proof. exact (SchedJoin.C03_handoff_only_for_blocked s p old j s'). Qed.
Print Assumptions C03_handoff_only_for_blocked.

(* ---- the terminating side is never stuck ---- *)
Theorem C03_can_finish s u : reachable s ->
  handshake (ust (un s u)) = true -> joiner_ready s u ->
  exists s', step s (next_ev s u) = Some s' /\ fin_measure s' u < fin_measure s u.
Proof. exact (SchedJoin.C03_can_finish s u). Qed.
Print Assumptions C03_can_finish.

Theorem C03_can_terminate s u : reachable s ->
  handshake (ust (un s u)) = true -> joiner_will_link s u ->
  exists tr s', run s tr = Some s' /\ ust (un s' u) = UTerm /\ ost (un s' u) = 3%Z.
Proof. exact (SchedJoin.C03_can_terminate s u). Qed.
Print Assumptions C03_can_terminate.

Theorem C03_join_can_return s u a site : reachable s ->
  handshake (ust (un s u)) = true -> joiner_will_link s u ->
  exists tr s', run s (tr ++ [EStLoad a u site 3; EJoinRet a u]) = Some s' /\
                is_term (ust (un s' u)) = true.
Proof. exact (SchedJoin.C03_join_can_return s u a site). Qed.
Print Assumptions C03_join_can_return.

(* per-case enabledness of the terminating side's next action *)
Theorem C03_progress_load_null s u :
  handshake (ust (un s u)) = true -> jw (un s u) = JW0 -> link (un s u) = None ->
  step s (ELinkLd u None) = Some s.
Proof. exact (SchedJoin.C03_progress_load_null s u). Qed.
Print Assumptions C03_progress_load_null.

Theorem C03_progress_fetch_or s u who :
  handshake (ust (un s u)) = true -> jw (un s u) = JW0 ->
  exists s', step s (EReqOr u 0 true (rjoin (un s u)) (rcancel (un s u)) (rmig (un s u)) who) = Some s' /\
             jw (un s' u) = (if rjoin (un s u) then JWSpin else JWNone) /\
             ust (un s' u) = ust (un s u) /\ link (un s' u) = link (un s u).
Proof. exact (SchedJoin.C03_progress_fetch_or s u who). Qed.
Print Assumptions C03_progress_fetch_or.

Theorem C03_progress_load_link s u j :
  handshake (ust (un s u)) = true -> (jw (un s u) = JW0 \/ jw (un s u) = JWSpin) ->
  link (un s u) = Some j ->
  exists s', step s (ELinkLd u (Some j)) = Some s' /\ jw (un s' u) = JWHave j /\
             ust (un s' u) = ust (un s u) /\ (forall x, x <> u -> un s' x = un s x).
Proof. exact (SchedJoin.C03_progress_load_link s u j). Qed.
Print Assumptions C03_progress_load_link.

Theorem C03_progress_joiner_links s u j ext :
  rjoin (un s u) = true -> jof (un s u) = Some j -> link (un s u) = None ->
  (ext = true \/ ust (un s j) = UBlocked) ->
  exists s', step s (ELinkSt u j ext) = Some s' /\ link (un s' u) = Some j /\
             jw (un s' u) = jw (un s u) /\ ust (un s' u) = ust (un s u).
Proof. exact (SchedJoin.C03_progress_joiner_links s u j ext). Qed.
Print Assumptions C03_progress_joiner_links.

Theorem C03_progress_futex s u j :
  jw (un s u) = JWHave j -> isult (un s j) = false ->
  exists s', step s (EFutexRes u j) = Some s' /\ jw (un s' u) = JWDone /\ ust (un s' u) = ust (un s u).
Proof. exact (SchedJoin.C03_progress_futex s u j). Qed.
Print Assumptions C03_progress_futex.

Theorem C03_progress_resume_joiner s u j : reachable s ->
  ust (un s j) = UBlocked -> u <> j ->
  exists s', step s (EState j 0) = Some s' /\ ust (un s' j) = UResuming /\
             isult (un s' j) = isult (un s j) /\ un s' u = un s u.
Proof. exact (SchedJoin.C03_progress_resume_joiner s u j). Qed.
Print Assumptions C03_progress_resume_joiner.

Theorem C03_progress_handoff s j p : reachable s ->
  ust (un s j) = UBlocked -> In p (cnt (un s j)) ->
  exists s1 s2, step s (ENb p false (nb (po s p)) j true) = Some s1 /\ ust (un s1 j) = UHandoff /\
                step s1 (EState j 1) = Some s2 /\ ust (un s2 j) = URunning /\ ost (un s2 j) = 1%Z.
Proof. exact (SchedJoin.C03_progress_handoff s j p). Qed.
Print Assumptions C03_progress_handoff.

Theorem C03_progress_exit_cb s u :
  ust (un s u) = UFinished -> jw_settled (un s) (jw (un s u)) = true ->
  exists s', step s (ECb u KExit None) = Some s' /\ ust (un s' u) = UCbS KExit 0.
Proof. exact (SchedJoin.C03_progress_exit_cb s u). Qed.
Print Assumptions C03_progress_exit_cb.

Theorem C03_progress_terminated_store s u :
  migs (un s u) = 0 ->
  (exiting (ust (un s u)) = true /\ is_term (ust (un s u)) = false) \/
  (ust (un s u) = UCancelling /\ jw_settled (un s) (jw (un s u)) = true) ->
  exists s', step s (EState u 3) = Some s' /\ ust (un s' u) = UTerm /\ ost (un s' u) = 3%Z.
Proof. exact (SchedJoin.C03_progress_terminated_store s u). Qed.
Print Assumptions C03_progress_terminated_store.

(* ================= non-vacuity: the four orders of "joiner fetch_or vs. exiter fetch_or" =================
   unit 2: the joiner (a ULT), unit 1: the target (a ULT), pool 0; 9: dummy id of an external joiner *)

Definition setup : list ev :=
  [ EInit 2 0 true true; EPush 0 2 true; EPop 0 (Some 2) false; EReqLoad 2 1 false false false;
    EState 2 1; EStart 2;
    EInit 1 0 true true; EPush 0 1 true ].
(* a scheduler pops the target and runs it; j: the JOIN bit it reads *)
Definition run_target (j : bool) : list ev :=
  [ EPop 0 (Some 1) false; EReqLoad 1 1 j false false; EState 1 1; EStart 1 ].
(* ABTI_ythread_suspend_join + ABTI_ythread_callback_suspend_join of the joiner *)
Definition suspend_join : list ev :=
  [ ECb 2 KSuspendJoin None; EReqLoad 2 0 false false false; ENb 0 true 0 2 false; EState 2 2;
    ELinkSt 1 2 false ].

(* A: join before termination: the joiner registers, suspends, links; the target finishes, reads the
      joiner from p_link, hands off (decrement, RUNNING, jump), exit callback, TERMINATED; the joiner's
      yield loop reads TERMINATED *)
Definition trA : list ev :=
  setup ++ [ EStLoad 2 1 1 0; EReqOr 1 0 false false false false 2 ] ++ suspend_join ++
  run_target true ++
  [ EFinish 1; ELinkLd 1 (Some 2); ENb 0 false 1 2 true; EState 2 1; ECb 1 KExit None; EState 1 3;
    EStLoad 2 1 3 3 ].

Example ex_A_join_before_termination : join_ret_enabled trA 2 1 = true.
Proof. vm_compute. reflexivity. Qed.

(* the guard at work: after the target has read its joiner (JWHave 2) and while the joiner is still
   BLOCKED, the exit callback is not enabled; the hand-off decrement is *)
Example ex_A_exit_waits_for_the_wakeup :
  match st_at trA 21 with
  | Some s => match jw (un s 1) with JWHave 2 => true | _ => false end &&
              is_blocked (ust (un s 2)) && negb (enabled s (ECb 1 KExit None)) &&
              enabled s (ENb 0 false 1 2 true) && enabled s (next_ev s 1)
  | None => false
  end = true.
Proof. vm_compute. reflexivity. Qed.

(* B: the terminating side's fetch_or comes first (JWNone); the joiner's fetch_or finds JOIN set,
      registers nobody, and polls the state word until it reads TERMINATED *)
Definition trB : list ev :=
  setup ++ run_target false ++
  [ EFinish 1; EStLoad 2 1 1 1; ELinkLd 1 None; EReqOr 1 0 true false false false 0;
    EReqOr 1 0 false true false false 2; EStLoad 2 1 3 1;
    ECb 1 KExit None; EStLoad 2 1 3 1; EState 1 3; EStLoad 2 1 3 3 ].

Example ex_B_exiter_first_joiner_polls : join_ret_enabled trB 2 1 = true.
Proof. vm_compute. reflexivity. Qed.

Example ex_B_nobody_registered_and_no_early_return :
  match st_at trB 20 with          (* after the joiner's second polling load (RUNNING), target in its exit callback *)
  | Some s => match jw (un s 1), jof (un s 1), link (un s 1) with JWNone, None, None => true | _, _, _ => false end &&
              rjoin (un s 1) && negb (enabled s (EJoinRet 2 1)) && negb (seen s 2 1)
  | None => false
  end = true.
Proof. vm_compute. reflexivity. Qed.

(* C: external joiner (futex).  Its fetch_or is first, the terminating side's fetch_or falls between
      that and the p_link store: the terminating side spins (JWSpin), reads the link once published,
      signals the futex, exits; the joiner busy-waits for TERMINATED *)
Definition trC : list ev :=
  setup ++ run_target false ++
  [ EStLoad 9 1 1 1; EReqOr 1 0 false false false false 9;
    EFinish 1; ELinkLd 1 None; EReqOr 1 0 true true false false 0;
    ELinkSt 1 9 true; ELinkLd 1 (Some 9); EFutexRes 1 9; ECb 1 KExit None; EState 1 3;
    EStLoad 9 1 2 3 ].

Example ex_C_external_joiner_futex : join_ret_enabled trC 9 1 = true.
Proof. vm_compute. reflexivity. Qed.

Example ex_C_exiter_spins_until_linked :
  match st_at trC 17 with
  | Some s => match jw (un s 1), jof (un s 1), link (un s 1) with JWSpin, Some 9, None => true | _, _, _ => false end &&
              negb (enabled s (ECb 1 KExit None)) &&
              match next_ev s 1 with ELinkSt 1 9 true => true | _ => false end &&
              enabled s (next_ev s 1)
  | None => false
  end = true.
Proof. vm_compute. reflexivity. Qed.

(* D: cancelled target (never run): the joiner registers and suspends; the scheduler that pops the
      target sees CANCEL, reads the joiner, resumes it (READY, push, decrement) and only then stores
      TERMINATED; the joiner is scheduled again and reads TERMINATED *)
Definition trD : list ev :=
  setup ++ [ EReqOr 1 1 false false false false 0; EStLoad 2 1 1 0; EReqOr 1 0 false false true false 2 ] ++
  suspend_join ++
  [ EPop 0 (Some 1) false; EReqLoad 1 1 true true false; ELinkLd 1 (Some 2);
    EState 2 0; EPush 0 2 true; ENb 0 false 1 2 false; EState 1 3;
    EPop 0 (Some 2) false; EReqLoad 2 1 false false false; EState 2 1; EStLoad 2 1 3 3 ].

Example ex_D_cancelled_target : join_ret_enabled trD 2 1 = true.
Proof. vm_compute. reflexivity. Qed.

Example ex_D_terminated_store_waits_for_the_wakeup :
  match st_at trD 19 with
  | Some s => match ust (un s 1), jw (un s 1) with UCancelling, JWHave 2 => true | _, _ => false end &&
              is_blocked (ust (un s 2)) && negb (enabled s (EState 1 3)) &&
              match next_ev s 1 with EState 2 0 => true | _ => false end && enabled s (next_ev s 1)
  | None => false
  end = true.
Proof. vm_compute. reflexivity. Qed.

(* the runs are runs of reachable states in which the hypotheses of the theorems hold *)
Example ex_runs_reach_join_return :
  (exists s, reachable s /\ seen s 2 1 = true /\ is_term (ust (un s 1)) = true /\ step s (EJoinRet 2 1) = Some s) /\
  (exists s, reachable s /\ seen s 9 1 = true /\ is_term (ust (un s 1)) = true /\ step s (EJoinRet 9 1) = Some s).
Proof.
  split.
  - destruct (join_ret_enabled_sound trA 2 1 ex_A_join_before_termination) as [s [R [_ [H1 [H2 H3]]]]]. eauto.
  - destruct (join_ret_enabled_sound trC 9 1 ex_C_external_joiner_futex) as [s [R [_ [H1 [H2 H3]]]]]. eauto.
Qed.

(* hypotheses of C03_no_lost_wakeup: run A just before the target's exit callback (the joiner has been
   handed off to), and run D just before the TERMINATED store of the cancelled target (the joiner has
   been resumed and pushed); both histories satisfy the identity discipline *)
Example ex_no_lost_wakeup_hyps_exit : nlw_hyps (firstn 23 trA) 1 2 (ECb 1 KExit None) = true.
Proof. vm_compute. reflexivity. Qed.
Example ex_no_lost_wakeup_hyps_cancel : nlw_hyps (firstn 22 trD) 1 2 (EState 1 3) = true.
Proof. vm_compute. reflexivity. Qed.

Example ex_no_lost_wakeup_hypotheses :
  (exists s s', reachable_ids s /\ leaves_handshake s 1 (ECb 1 KExit None) /\ isult (un s 1) = true /\
                step s (ECb 1 KExit None) = Some s' /\ link (un s 1) = Some 2 /\ isult (un s 2) = true) /\
  (exists s s', reachable_ids s /\ leaves_handshake s 1 (EState 1 3) /\ isult (un s 1) = true /\
                step s (EState 1 3) = Some s' /\ link (un s 1) = Some 2 /\ isult (un s 2) = true).
Proof.
  split; [exact (nlw_hyps_sound _ _ _ _ ex_no_lost_wakeup_hyps_exit)
         |exact (nlw_hyps_sound _ _ _ _ ex_no_lost_wakeup_hyps_cancel)].
Qed.
