(* C09 — eventuals and futures become ready exactly once and wake every waiter.
   Statements only.  The LTSs are Conc/Eventual.v and Conc/Future.v (labels = the
   ABT_VERIF hook records of the real library + the harness' begin/end/value
   records); the inductive invariants are in Conc/EventualInv.v, Conc/FutureInv.v;
   proofs in Conc/EventualProofs.v, Conc/FutureProofs.v.
   [vrun (vinit cap) tr] ranges over every interleaving of every number of callers of
   every kind (ULT, external thread, tasklet) issuing set / wait / test / reset on one
   eventual with a buffer of cap words; [frun (finit n cb) tr] the same for one future
   with n = 0, 1, 2, ... compartments, with (cb = true) or without callback.
   Client contract built into the LTSs (as in the API documentation): reset is only
   issued while no waiter is blocked.  Ghost fields (generation = number of resets,
   set values since the last reset, callback count since the last reset, generation
   stamp of each returned wait) are pinned down by the *_ghost_meaning theorems. *)
From Coq Require Import List ZArith Bool Arith.
From ABT Require Import Conc.EvCommon Conc.Eventual Conc.EventualInv Conc.EventualProofs
                        Conc.Future Conc.FutureInv Conc.FutureProofs.
Import ListNotations.

(* ================================================================ eventual *)

Theorem C09_ev_ghost_meaning : forall s e s', vstep s e = Some s' ->
  (ensets s' = ensets s /\ egen s' = egen s /\ eready s' = eready s /\ evalue s' = evalue s /\ esetval s' = esetval s) \/
  (exists t, e = VData t 1%Z /\ epc s t = VS1 /\ eready s = false /\ eready s' = true /\
             ensets s' = S (ensets s) /\ egen s' = egen s) \/
  (exists t, e = VData t 0%Z /\ epc s t = VR1 /\ eready s' = false /\ ensets s' = 0 /\ egen s' = S (egen s)).
Proof. exact ev_ghost_meaning. Qed.
Print Assumptions C09_ev_ghost_meaning.

(* Ready exactly once: between two resets at most one set stores ready = TRUE, and the
   eventual is ready iff one did. *)
Theorem C09_ev_ready_once : forall cap tr s, vrun (vinit cap) tr = Some s ->
  ensets s <= 1 /\ (eready s = true <-> ensets s = 1).
Proof. exact ev_sets_counted. Qed.
Print Assumptions C09_ev_ready_once.

(* The set that finds the eventual unready copies its value (nb > 0) and marks it ready in one
   critical section, before any waiter is touched (the wake steps are only enabled afterwards). *)
Theorem C09_ev_first_set : forall s t c s', epc s t = VS1 -> vstep s (VData t c) = Some s' ->
  eready s = false /\ c = 1%Z /\ eready s' = true /\
  evalue s' = (if Nat.ltb 0 (enb s t) then eav s t else evalue s) /\ esetval s' = evalue s' /\
  ewl s' = ewl s /\ epc s' t = VS2.
Proof. exact ev_first_set. Qed.
Print Assumptions C09_ev_first_set.

(* A set that finds it ready can only release the lock and return ABT_ERR_EVENTUAL; nothing changes. *)
Theorem C09_ev_second_set_fails : forall s t, elock s = Some t -> epc s t = VS1 -> eready s = true ->
  (forall c, vstep s (VData t c) = None) /\
  (exists s', vstep s VRel = Some s') /\
  (forall s', vstep s VRel = Some s' ->
     eret s' t = ERR_EVENTUAL /\ epc s' t = VFin /\ elock s' = None /\ eready s' = true /\
     evalue s' = evalue s /\ ewl s' = ewl s /\ ensets s' = ensets s /\ egen s' = egen s).
Proof. exact ev_second_set_fails. Qed.
Print Assumptions C09_ev_second_set_fails.
Theorem C09_ev_set_cannot_fail_early : forall s t, elock s = Some t -> epc s t = VS1 -> eready s = false ->
  vstep s VRel = None /\ vstep s (VData t 1%Z) <> None.
Proof. exact ev_set_cannot_fail_early. Qed.
Print Assumptions C09_ev_set_cannot_fail_early.

(* wait returns only when ready: at the very step that lets a caller go (release on the ready
   path, or a wake by the broadcasting setter) the eventual is ready ... *)
Theorem C09_ev_wait_return_step : forall cap tr s e s' x, vrun (vinit cap) tr = Some s ->
  vstep s e = Some s' -> vreturned (epc s x) = false -> vreturned (epc s' x) = true ->
  eready s' = true /\ ewgen s' x = egen s'.
Proof. intros cap tr s e s' x H. apply ev_wait_return_step. eapply vinv_reachable; eauto. Qed.
Print Assumptions C09_ev_wait_return_step.
(* ... it stays ready until the next reset, and the word the caller then reads through the
   pointer it was handed is the buffer content the (unique) successful set left. *)
Theorem C09_ev_wait : forall cap tr s x f v s', vrun (vinit cap) tr = Some s ->
  epc s x = VWR \/ epc s x = VER -> vstep s (VRead x f v) = Some s' ->
  v = evalue s /\ (ewgen s x = egen s -> eready s = true /\ v = esetval s).
Proof. exact ev_wait_reads_set_value. Qed.
Print Assumptions C09_ev_wait.
Theorem C09_ev_wait_returns_ready : forall cap tr s x, vrun (vinit cap) tr = Some s ->
  vreturned (epc s x) = true -> ewgen s x = egen s ->
  eready s = true /\ ensets s = 1 /\ evalue s = esetval s.
Proof. exact ev_wait_returns_ready. Qed.
Print Assumptions C09_ev_wait_returns_ready.

(* test reports exactly `ready` as it is under the lock; "ready" therefore means that a set has
   stored ready = TRUE and has left its critical section (nobody is inside a set). *)
Theorem C09_ev_test : forall cap tr s t s', vrun (vinit cap) tr = Some s ->
  elock s = Some t -> epc s t = VT1 -> vstep s VRel = Some s' ->
  eflag s' t = eready s /\ epc s' t = VTR /\ ewgen s' t = egen s' /\ eready s' = eready s /\
  (eready s = true -> ensets s = 1 /\ evalue s = esetval s /\ forall u, vin_set (epc s u) = false).
Proof. exact ev_test_exact. Qed.
Print Assumptions C09_ev_test.
Theorem C09_ev_test_value : forall cap tr s x f v s', vrun (vinit cap) tr = Some s ->
  epc s x = VTR -> vstep s (VRead x f v) = Some s' ->
  f = eflag s x /\ (f = true -> v = evalue s /\ (ewgen s x = egen s -> eready s = true /\ v = esetval s)).
Proof. exact ev_test_reads_set_value. Qed.
Print Assumptions C09_ev_test_value.

(* No lost waiter: a blocked caller is in the wait list, and then the eventual is unready or the
   setter (holding the lock) is still broadcasting; lock free /\ ready -> nobody is queued. *)
Theorem C09_ev_no_lost_waiter : forall cap tr s, vrun (vinit cap) tr = Some s ->
  (forall x, vqueued (epc s x) = true ->
     In x (ewl s) /\ (eready s = false \/ exists u, elock s = Some u /\ vwaking (epc s u) = true)) /\
  (elock s = None -> eready s = true -> ewl s = [] /\ forall x, vqueued (epc s x) = false).
Proof. exact ev_no_lost_waiter. Qed.
Print Assumptions C09_ev_no_lost_waiter.
Theorem C09_ev_set_wakes_all : forall cap tr s u s', vrun (vinit cap) tr = Some s ->
  elock s = Some u -> vsetting (epc s u) = true -> vstep s VRel = Some s' ->
  ewl s' = [] /\ (forall x, vqueued (epc s' x) = false) /\ eready s' = true /\ eret s' u = 0%Z.
Proof. exact ev_set_wakes_all. Qed.
Print Assumptions C09_ev_set_wakes_all.
Theorem C09_ev_wake_enabled : forall cap tr s u x rest, vrun (vinit cap) tr = Some s ->
  elock s = Some u -> vwaking (epc s u) = true -> ewl s = x :: rest ->
  exists s', vstep s (VWake x) = Some s' /\ ewl s' = rest /\ vreturned (epc s' x) = true.
Proof. exact ev_wake_enabled. Qed.
Print Assumptions C09_ev_wake_enabled.

(* ================================================================ future *)

Theorem C09_fut_ghost_meaning : forall s e s', fstep s e = Some s' ->
  (fcounter s' = fcounter s /\ fsetvals s' = fsetvals s /\ fgen s' = fgen s /\ fcbc s' = fcbc s) \/
  (exists t, e = FData t (Z.of_nat (S (fcounter s))) /\ (fpc s t = FS1 \/ fpc s t = FS2) /\
             fcounter s' = S (fcounter s) /\ fsetvals s' = fsetvals s ++ [fav s t] /\
             fgen s' = fgen s /\ fcbc s' = fcbc s) \/
  (exists t, e = FCallback t /\ fpc s t = FS1 /\ fcbc s' = S (fcbc s) /\ fcounter s' = fcounter s /\
             fsetvals s' = fsetvals s /\ fgen s' = fgen s /\ fcbseen s' = fslots s') \/
  (exists t, e = FData t 0%Z /\ fpc s t = FR1 /\ fcounter s' = 0 /\ fsetvals s' = [] /\
             fgen s' = S (fgen s) /\ fcbc s' = 0).
Proof. exact fut_ghost_meaning. Qed.
Print Assumptions C09_fut_ghost_meaning.

(* counter = number of successful sets since creation / reset, never above n; the array prefix
   holds their values in order.  Hence counter = n exactly after the n-th successful set ... *)
Theorem C09_fut_ready_exact : forall n cb tr s, frun (finit n cb) tr = Some s ->
  fnc s = n /\ fcb s = cb /\ fcounter s = length (fsetvals s) /\ fcounter s <= n /\
  firstn (fcounter s) (fslots s) = fsetvals s.
Proof. exact fut_counter_is_successful_sets. Qed.
Print Assumptions C09_fut_ready_exact.
(* ... a set that finds counter >= n (every set when n = 0) fails with ABT_ERR_FUTURE and changes nothing ... *)
Theorem C09_fut_late_set_fails : forall s t, flock s = Some t -> fpc s t = FS1 -> fnc s <= fcounter s ->
  (forall c, fstep s (FData t c) = None) /\ fstep s (FCallback t) = None /\
  (exists s', fstep s FRel = Some s') /\
  (forall s', fstep s FRel = Some s' ->
     fret s' t = ERR_FUTURE /\ fpc s' t = FFin /\ flock s' = None /\ fcounter s' = fcounter s /\
     fslots s' = fslots s /\ fcbc s' = fcbc s /\ fwl s' = fwl s /\ fsetvals s' = fsetvals s /\ fgen s' = fgen s).
Proof. exact fut_late_set_fails. Qed.
Print Assumptions C09_fut_late_set_fails.
(* ... a set that finds counter < n cannot fail; it goes through the callback first iff it is the n-th
   and a callback is registered ... *)
Theorem C09_fut_early_set_succeeds : forall s t, flock s = Some t -> fpc s t = FS1 -> fcounter s < fnc s ->
  fstep s FRel = None /\
  (S (fcounter s) = fnc s /\ fcb s = true ->
     (forall c, fstep s (FData t c) = None) /\
     exists s', fstep s (FCallback t) = Some s' /\ fpc s' t = FS2 /\ fcounter s' = fcounter s /\
                fslots s' = set_nth (fcounter s) (fav s t) (fslots s) /\ fcbseen s' = fslots s' /\ fcbc s' = S (fcbc s)) /\
  (~ (S (fcounter s) = fnc s /\ fcb s = true) ->
     fstep s (FCallback t) = None /\
     exists s', fstep s (FData t (Z.of_nat (S (fcounter s)))) = Some s' /\ fcounter s' = S (fcounter s) /\
                fslots s' = set_nth (fcounter s) (fav s t) (fslots s) /\ fsetvals s' = fsetvals s ++ [fav s t] /\
                fpc s' t = (if Nat.eqb (S (fcounter s)) (fnc s) then FS3 else FS4)).
Proof. exact fut_early_set_succeeds. Qed.
Print Assumptions C09_fut_early_set_succeeds.
(* ... and test reports counter = n for the counter value it loads. *)
Theorem C09_fut_test : forall s t c s', fpc s t = FT0 -> fstep s (FLoad t c) = Some s' ->
  c = Z.of_nat (fcounter s) /\ fflag s' t = Nat.eqb (fcounter s) (fnc s) /\ fwgen s' t = fgen s' /\
  fpc s' t = FTR /\ fcounter s' = fcounter s.
Proof. exact fut_test_exact. Qed.
Print Assumptions C09_fut_test.

(* cb_calls <= 1; = 1 iff (ready, n > 0, callback registered) or the callback is running right now *)
Theorem C09_fut_callback_once : forall n cb tr s, frun (finit n cb) tr = Some s ->
  fcbc s <= 1 /\
  (fcbc s = 1 <-> (fcounter s = n /\ cb = true /\ 0 < n) \/ fin_cb s = true) /\
  (flock s = None -> (fcbc s = 1 <-> fcounter s = n /\ cb = true /\ 0 < n)).
Proof. exact fut_callback_once. Qed.
Print Assumptions C09_fut_callback_once.

(* the callback step: the counter is still n - 1 (nobody can have seen the future ready: no
   waiter let go in this generation), and the array it is given holds the values of all n
   successful sets in order *)
Theorem C09_fut_callback_sees_all : forall n cb tr s t s', frun (finit n cb) tr = Some s ->
  fstep s (FCallback t) = Some s' ->
  fcbc s = 0 /\ fcbc s' = 1 /\ S (fcounter s') = n /\ fcounter s' = fcounter s /\
  fcbseen s' = fsetvals s ++ [fav s t] /\ length (fcbseen s') = n /\ fcbseen s' = fslots s' /\
  (forall x, freturned (fpc s' x) = true -> fwgen s' x = fgen s' -> False).
Proof. exact fut_callback_sees_all. Qed.
Print Assumptions C09_fut_callback_sees_all.

(* counter = n implies the callback has already run and saw exactly the n set values; every waiter
   let go / every "ready" verdict in the current generation implies counter = n *)
Theorem C09_fut_callback_first : forall n cb tr s, frun (finit n cb) tr = Some s ->
  (fcounter s = n -> length (fsetvals s) = n /\
     (cb = true -> 0 < n -> fcbc s = 1 /\ fcbseen s = fsetvals s)) /\
  (forall x, freturned (fpc s x) = true -> fwgen s x = fgen s -> fcounter s = n) /\
  (forall x, fpc s x = FTR -> fflag s x = true -> fwgen s x = fgen s -> fcounter s = n).
Proof. exact fut_callback_first. Qed.
Print Assumptions C09_fut_callback_first.
Theorem C09_fut_wait_return_step : forall n cb tr s e s' x, frun (finit n cb) tr = Some s ->
  fstep s e = Some s' -> freturned (fpc s x) = false -> freturned (fpc s' x) = true ->
  fcounter s' = fnc s' /\ fwgen s' x = fgen s'.
Proof. intros n cb tr s e s' x H. apply fut_wait_return_step. eapply finv_reachable; eauto. Qed.
Print Assumptions C09_fut_wait_return_step.

Theorem C09_fut_no_lost_waiter : forall n cb tr s, frun (finit n cb) tr = Some s ->
  (forall x, fqueued (fpc s x) = true ->
     In x (fwl s) /\ (fcounter s < n \/ exists u, flock s = Some u /\ fwaking (fpc s u) = true)) /\
  (flock s = None -> fcounter s = n -> fwl s = [] /\ forall x, fqueued (fpc s x) = false).
Proof. exact fut_no_lost_waiter. Qed.
Print Assumptions C09_fut_no_lost_waiter.
Theorem C09_fut_set_wakes_all : forall n cb tr s u s', frun (finit n cb) tr = Some s ->
  flock s = Some u -> ffull (fpc s u) = true -> fstep s FRel = Some s' ->
  fwl s' = [] /\ (forall x, fqueued (fpc s' x) = false) /\ fcounter s' = n /\ fret s' u = 0%Z.
Proof. exact fut_set_wakes_all. Qed.
Print Assumptions C09_fut_set_wakes_all.
Theorem C09_fut_wake_enabled : forall n cb tr s u x rest, frun (finit n cb) tr = Some s ->
  flock s = Some u -> fwaking (fpc s u) = true -> fwl s = x :: rest ->
  exists s', fstep s (FWake x) = Some s' /\ fwl s' = rest /\ freturned (fpc s' x) = true.
Proof. exact fut_wake_enabled. Qed.
Print Assumptions C09_fut_wake_enabled.

(* ================================================================ non-vacuity *)

(* a ULT (1) and an external thread (2) block; a tasklet (5) tests "not ready"; a tasklet (3) sets 7 and
   wakes both; 4's late set gets 44, its oversized set 24; tasklet wait gets 44; reset; a set of 0 words
   leaves the old buffer content; a wait on the ready eventual returns at once *)
Definition ev_trace1 : list vev :=
  [VBegin 1 KUlt VOWait; VAcq 1; VEnq 1 true; VRel;
   VBegin 2 KExt VOWait; VAcq 2; VEnq 2 false; VRel;
   VBegin 5 KTask VOTest; VAcq 5; VRel; VRead 5 false 0; VEnd 5 0;
   VBegin 3 KTask (VOSet 7 1); VAcq 3; VData 3 1; VWake 1; VWake 2].
Definition ev_trace2 : list vev :=
  [VBcast; VRel; VEnd 3 0;
   VRead 1 true 7; VEnd 1 0;
   VAcq 2; VRel; VRead 2 true 7; VEnd 2 0;
   VBegin 4 KExt (VOSet 9 1); VAcq 4; VRel; VEnd 4 44;
   VBegin 4 KExt (VOSet 9 3); VEnd 4 24;
   VBegin 5 KTask VOWait; VEnd 5 44;
   VBegin 5 KTask VOTest; VAcq 5; VRel; VRead 5 true 7; VEnd 5 0;
   VBegin 1 KUlt VOReset; VAcq 1; VData 1 0; VRel; VEnd 1 0;
   VBegin 4 KExt (VOSet 9 0); VAcq 4; VData 4 1; VRel; VEnd 4 0;
   VBegin 1 KUlt VOWait; VAcq 1; VRel; VRead 1 true 7; VEnd 1 0].
Example C09_ev_example_mid :
  exists s, vrun (vinit 1) ev_trace1 = Some s /\
    epc s 1 = VWR /\ epc s 2 = VER /\ ewgen s 1 = egen s /\ eready s = true /\ evalue s = 7%Z /\
    elock s = Some 3 /\ epc s 3 = VS2w /\ ewl s = [].
Proof. eexists. vm_compute. repeat split. Qed.
Example C09_ev_example :
  exists s, vrun (vinit 1) (ev_trace1 ++ ev_trace2) = Some s /\
    eready s = true /\ evalue s = 7%Z /\ elock s = None /\ ewl s = [] /\ egen s = 1 /\ ensets s = 1.
Proof. eexists. vm_compute. repeat split. Qed.
(* queued waiters exist while the setter broadcasts (hypotheses of the wake / no-lost-waiter theorems) *)
Example C09_ev_example_waking :
  exists s, vrun (vinit 1)
    [VBegin 1 KUlt VOWait; VAcq 1; VEnq 1 true; VRel; VBegin 3 KExt (VOSet 7 1); VAcq 3; VData 3 1] = Some s /\
    elock s = Some 3 /\ vwaking (epc s 3) = true /\ ewl s = [1] /\ vqueued (epc s 1) = true /\ epc s 3 = VS2.
Proof. eexists. vm_compute. repeat split. Qed.

(* n = 2 with callback: two waiters block, test says "not ready", first set, the second set runs the
   callback (sees 7, 9), stores the counter, wakes both; a third set gets 45; test says ready;
   tasklet wait gets 45; reset *)
Definition fut_trace1 : list fev :=
  [FBegin 1 KUlt FOWait; FAcq 1; FEnq 1 true; FRel;
   FBegin 2 KExt FOWait; FAcq 2; FEnq 2 false; FRel;
   FBegin 5 KTask FOTest; FLoad 5 0; FNote 5 false; FEnd 5 0;
   FBegin 3 KTask (FOSet 7); FAcq 3; FData 3 1; FRel; FEnd 3 0;
   FBegin 4 KExt (FOSet 9); FAcq 4].
Definition fut_trace2 : list fev :=
  [FCallback 4; FCbVal 4 0 7; FCbVal 4 1 9; FData 4 2; FWake 1; FWake 2; FBcast; FRel; FEnd 4 0;
   FEnd 1 0; FEnd 2 0;
   FBegin 3 KTask (FOSet 11); FAcq 3; FRel; FEnd 3 45;
   FBegin 5 KTask FOTest; FLoad 5 2; FNote 5 true; FEnd 5 0;
   FBegin 5 KTask FOWait; FEnd 5 45].
Example C09_fut_example_before_callback :
  exists s, frun (finit 2 true) fut_trace1 = Some s /\
    flock s = Some 4 /\ fpc s 4 = FS1 /\ fcounter s = 1 /\ fcbc s = 0 /\ fwl s = [1; 2] /\
    fstep s (FCallback 4) <> None.
Proof. eexists. vm_compute. repeat split; discriminate. Qed.
Example C09_fut_example :
  exists s, frun (finit 2 true) (fut_trace1 ++ fut_trace2) = Some s /\
    fcounter s = 2 /\ fcbc s = 1 /\ fcbseen s = [7%Z; 9%Z] /\ fsetvals s = [7%Z; 9%Z] /\
    flock s = None /\ fwl s = [].
Proof. eexists. vm_compute. repeat split. Qed.
Example C09_fut_example_reset :
  exists s, frun (finit 2 true) (fut_trace1 ++ fut_trace2 ++
      [FBegin 1 KUlt FOReset; FAcq 1; FData 1 0; FRel; FEnd 1 0;
       FBegin 3 KTask (FOSet 20); FAcq 3; FData 3 1; FRel; FEnd 3 0]) = Some s /\
    fcounter s = 1 /\ fcbc s = 0 /\ fgen s = 1 /\ fsetvals s = [20%Z] /\ fslots s = [20%Z; 9%Z].
Proof. eexists. vm_compute. repeat split. Qed.
(* n = 0: ready from creation, wait returns at once, every set fails, no callback *)
Example C09_fut_example_zero :
  exists s, frun (finit 0 true)
    [FBegin 1 KUlt FOWait; FAcq 1; FRel; FEnd 1 0;
     FBegin 2 KExt (FOSet 5); FAcq 2; FRel; FEnd 2 45;
     FBegin 3 KTask FOTest; FLoad 3 0; FNote 3 true; FEnd 3 0] = Some s /\
    fcbc s = 0 /\ fcounter s = 0 /\ flock s = None.
Proof. eexists. vm_compute. repeat split. Qed.
(* n = 1 without callback: the single set goes straight to the counter store and the broadcast *)
Example C09_fut_example_one :
  exists s, frun (finit 1 false)
    [FBegin 1 KUlt FOWait; FAcq 1; FEnq 1 true; FRel;
     FBegin 2 KExt (FOSet 5); FAcq 2; FData 2 1; FWake 1; FBcast; FRel; FEnd 2 0; FEnd 1 0] = Some s /\
    fcbc s = 0 /\ fcounter s = 1 /\ flock s = None /\ fwl s = [].
Proof. eexists. vm_compute. repeat split. Qed.
