(* Proofs about Conc/UnitMapConc.v: inductive invariant of the LTS, and
   C14_concurrent_lookup: a lock-free get(u) that runs while other units are
   mapped and unmapped returns the work unit u is mapped to, and no assertion
   of unit.c can fire. *)
From Coq Require Import List ZArith Bool Arith Lia.
From ABT Require Import Common.ListAux DS.UnitMap DS.UnitMapProofs Conc.UnitMapConc.
Import ListNotations.
Local Open Scope Z_scope.

(* ------------------------------------------------------------------ *)
(* lists and cells                                                      *)
(* ------------------------------------------------------------------ *)

Lemma nth_error_upd_nth_eq {A} (l : list A) i x :
  (i < length l)%nat -> nth_error (upd_nth l i x) i = Some x.
Proof. revert i; induction l; destruct i; cbn; intros; try lia; auto. apply IHl; lia. Qed.

Lemma nth_error_upd_nth_ne {A} (l : list A) i j x :
  i <> j -> nth_error (upd_nth l i x) j = nth_error l j.
Proof. revert i j; induction l; destruct i, j; cbn; intros; auto; try lia. Qed.

Lemma nth_error_lt {A} (l : list A) i x : nth_error l i = Some x -> (i < length l)%nat.
Proof. intros H. apply nth_error_Some. congruence. Qed.

Lemma set_cu_eq cs c v x :
  nth_error cs c = Some x -> nth_error (set_cu cs c v) c = Some (mkC v (cth x) (cnext x)).
Proof.
  intros H. unfold set_cu. rewrite H. apply nth_error_upd_nth_eq. eapply nth_error_lt; eauto.
Qed.
Lemma set_cu_ne cs c v i : i <> c -> nth_error (set_cu cs c v) i = nth_error cs i.
Proof.
  intros H. unfold set_cu. destruct (nth_error cs c); auto. apply nth_error_upd_nth_ne; auto.
Qed.
Lemma set_cu_length cs c v : length (set_cu cs c v) = length cs.
Proof. unfold set_cu. destruct (nth_error cs c); auto. apply upd_nth_length. Qed.

Lemma set_cth_eq cs c v x :
  nth_error cs c = Some x -> nth_error (set_cth cs c v) c = Some (mkC (cu x) v (cnext x)).
Proof.
  intros H. unfold set_cth. rewrite H. apply nth_error_upd_nth_eq. eapply nth_error_lt; eauto.
Qed.
Lemma set_cth_ne cs c v i : i <> c -> nth_error (set_cth cs c v) i = nth_error cs i.
Proof.
  intros H. unfold set_cth. destruct (nth_error cs c); auto. apply nth_error_upd_nth_ne; auto.
Qed.
Lemma set_cth_length cs c v : length (set_cth cs c v) = length cs.
Proof. unfold set_cth. destruct (nth_error cs c); auto. apply upd_nth_length. Qed.

(* ------------------------------------------------------------------ *)
(* chains                                                               *)
(* ------------------------------------------------------------------ *)

(* cell c is on the chain that starts at pointer p *)
Inductive reach (cs : list cell) : option nat -> nat -> Prop :=
| reach_here c x : nth_error cs c = Some x -> reach cs (Some c) c
| reach_next c' x c : nth_error cs c' = Some x -> reach cs (cnext x) c -> reach cs (Some c') c.

(* cs' has at least the cells of cs, with the same p_next fields *)
Definition shape_le (cs cs' : list cell) : Prop :=
  forall i x, nth_error cs i = Some x -> exists x', nth_error cs' i = Some x' /\ cnext x' = cnext x.

Lemma reach_mono cs cs' p c : shape_le cs cs' -> reach cs p c -> reach cs' p c.
Proof.
  intros Hs H. induction H as [c x Hx|c' x c Hx _ IH].
  - destruct (Hs _ _ Hx) as (x' & Hx' & _). econstructor; eauto.
  - destruct (Hs _ _ Hx) as (x' & Hx' & En). eapply reach_next; eauto. rewrite En. auto.
Qed.

Lemma shape_le_refl cs : shape_le cs cs.
Proof. intros i x H. eauto. Qed.

Lemma shape_le_set_cu cs c v : shape_le cs (set_cu cs c v).
Proof.
  intros i x H. destruct (Nat.eq_dec i c) as [->|Hne].
  - rewrite (set_cu_eq _ _ _ _ H). eexists; split; eauto.
  - rewrite set_cu_ne by auto. eauto.
Qed.
Lemma shape_le_set_cth cs c v : shape_le cs (set_cth cs c v).
Proof.
  intros i x H. destruct (Nat.eq_dec i c) as [->|Hne].
  - rewrite (set_cth_eq _ _ _ _ H). eexists; split; eauto.
  - rewrite set_cth_ne by auto. eauto.
Qed.
Lemma shape_le_app cs y : shape_le cs (cs ++ [y]).
Proof.
  intros i x H. exists x. split; auto. rewrite nth_error_app1; auto. eapply nth_error_lt; eauto.
Qed.

(* p_next points to an older cell *)
Definition wf_next (cs : list cell) : Prop :=
  forall c x n, nth_error cs c = Some x -> cnext x = Some n -> (n < c)%nat.

Definition bound (p : option nat) : nat := match p with None => O | Some c => S c end.

Lemma scan_sound f cs p fuel c :
  scan f cs p fuel = Some c -> exists x, nth_error cs c = Some x /\ f x = true /\ reach cs p c.
Proof.
  revert p. induction fuel as [|k IH]; cbn; [discriminate|]. intros [c'|]; [|discriminate].
  destruct (nth_error cs c') as [x|] eqn:Ex; [|discriminate].
  destruct (f x) eqn:Ef.
  - intros E; inversion E; subst. exists x. repeat split; auto. econstructor; eauto.
  - intros E. destruct (IH _ E) as (y & Hy & Hf & Hr). exists y. repeat split; auto.
    eapply reach_next; eauto.
Qed.

Lemma scan_complete f cs p fuel c x :
  wf_next cs -> reach cs p c -> nth_error cs c = Some x -> f x = true -> (bound p <= fuel)%nat ->
  exists c', scan f cs p fuel = Some c'.
Proof.
  intros Hwf Hr Hx Hf. revert fuel. induction Hr as [c y Hy|c' y c Hy Hr IH]; intros fuel Hb.
  - destruct fuel as [|k]; cbn in *; [lia|]. rewrite Hy. rewrite Hx in Hy. inversion Hy; subst.
    rewrite Hf. eauto.
  - destruct fuel as [|k]; cbn in *; [lia|]. rewrite Hy. destruct (f y); eauto.
    apply IH; auto. destruct (cnext y) as [n|] eqn:En; cbn; [|lia].
    pose proof (Hwf _ _ _ Hy En). lia.
Qed.

Lemma reach_inv cs p c :
  reach cs p c -> exists c' x, p = Some c' /\ nth_error cs c' = Some x /\ (c' = c \/ reach cs (cnext x) c).
Proof. intros H. inversion H; subst; eauto 6. Qed.

(* ------------------------------------------------------------------ *)
(* the invariant                                                        *)
(* ------------------------------------------------------------------ *)

Definition notin (cs : list cell) (u : Z) : Prop :=
  forall c y, nth_error cs c = Some y -> cu y <> u.

Record GI (s : state) : Prop := {
  gi_wf : wf_next (cells s);
  gi_heads : forall h c, heads s h = Some c -> (c < length (cells s))%nat;
  gi_uniq : forall c x, nth_error (cells s) c = Some x -> cu x <> UNIT_NULL ->
                        cellof s (cu x) = c /\ stat s (cu x) <> UFree;
  gi_mapped : forall u th, stat s u = UMapped th ->
      exists x, nth_error (cells s) (cellof s u) = Some x /\ cu x = u /\ cth x = th /\
                reach (cells s) (heads s (hash_index u)) (cellof s u);
  gi_nonnull : forall u, stat s u <> UFree -> u <> UNIT_NULL
}.

(* what thread x relies on while its program counter is p *)
Definition TI (s : state) (x : nat) (p : pc) : Prop :=
  match p with
  | Idle => True
  | MapScan u th =>
      lock s (hash_index u) = Some x /\ stat s u = UMapping x /\ notin (cells s) u
  | MapStoreThr u th c =>
      lock s (hash_index u) = Some x /\ stat s u = UMapping x /\ cellof s u = c /\
      (exists y, nth_error (cells s) c = Some y /\ cu y = u) /\
      reach (cells s) (heads s (hash_index u)) c
  | MapPublish u th c =>
      lock s (hash_index u) = Some x /\ stat s u = UMapping x /\ cellof s u = c /\
      nth_error (cells s) c = Some (mkC u th (heads s (hash_index u)))
  | MapRelease u th true =>
      lock s (hash_index u) = Some x /\ stat s u = UMapping x /\
      (exists y, nth_error (cells s) (cellof s u) = Some y /\ cu y = u /\ cth y = th) /\
      reach (cells s) (heads s (hash_index u)) (cellof s u)
  | MapRelease u th false =>
      lock s (hash_index u) = Some x /\ stat s u = UMapping x /\ notin (cells s) u
  | UnmapScan u =>
      lock s (hash_index u) = Some x /\ stat s u = UUnmapping x /\
      (exists y, nth_error (cells s) (cellof s u) = Some y /\ cu y = u) /\
      reach (cells s) (heads s (hash_index u)) (cellof s u)
  | UnmapRelease u =>
      lock s (hash_index u) = Some x /\ stat s u = UUnmapping x /\ notin (cells s) u
  | UnmapFailed u => False
  | GetAt u p e t0 =>
      (e <= epoch s u)%nat /\
      (epoch s u = e -> stat s u = UMapped t0 /\ reach (cells s) p (cellof s u))
  | GetHit u c e t0 =>
      (e <= epoch s u)%nat /\ (epoch s u = e -> stat s u = UMapped t0 /\ c = cellof s u)
  | GetDone u r e t0 =>
      (e <= epoch s u)%nat /\ (epoch s u = e -> stat s u = UMapped t0 /\ r = t0)
  | GetFailed u e => (e < epoch s u)%nat
  end.

Definition Inv (s : state) : Prop := GI s /\ forall x, TI s x (pcs s x).

Lemma Inv_init : Inv init.
Proof.
  split.
  - split; cbn.
    + intros c x n H. destruct c; discriminate.
    + discriminate.
    + intros c x H. destruct c; discriminate.
    + discriminate.
    + intros u H. congruence.
  - intros x. exact I.
Qed.

(* ------------------------------------------------------------------ *)
(* frame: what a step of thread t on unit u (bucket h) leaves untouched *)
(* ------------------------------------------------------------------ *)

Record frame (s s' : state) (t : nat) (u h : Z) : Prop := {
  fr_pcs : forall x, x <> t -> pcs s' x = pcs s x;
  fr_stat : forall u', u' <> u -> stat s' u' = stat s u';
  fr_cellof : forall u', u' <> u -> cellof s' u' = cellof s u';
  fr_epoch : forall u', u' <> u -> epoch s' u' = epoch s u';
  fr_epoch_u : epoch s' u = epoch s u \/
               ((exists th, stat s u = UMapped th) /\ epoch s' u = S (epoch s u));
  fr_lock : forall h', h' <> h -> lock s' h' = lock s h';
  fr_heads : forall h', h' <> h -> heads s' h' = heads s h';
  fr_shape : shape_le (cells s) (cells s');
  fr_keep : forall i y, nth_error (cells s) i = Some y -> cu y <> u -> cu y <> UNIT_NULL ->
                        nth_error (cells s') i = Some y;
  fr_new : forall i y', nth_error (cells s') i = Some y' ->
                        cu y' = u \/ cu y' = UNIT_NULL \/ nth_error (cells s) i = Some y'
}.

(* the status of u and of the lock of h before the step: t owns them, or is
   about to take them *)
Definition owned (s s' : state) (t : nat) (u h : Z) : Prop :=
  (stat s u = UMapping t \/ stat s u = UUnmapping t \/ stat s u = UFree \/
   ((exists th, stat s u = UMapped th) /\ epoch s' u = S (epoch s u))) /\
  (lock s h = Some t \/ lock s h = None).

Lemma notin_frame s s' t u h u' :
  frame s s' t u h -> u' <> u -> u' <> UNIT_NULL -> notin (cells s) u' -> notin (cells s') u'.
Proof.
  intros F Hne Hnz Hn c y Hy. destruct (fr_new _ _ _ _ _ F _ _ Hy) as [E|[E|E]]; try congruence.
  eapply Hn; eauto.
Qed.

Lemma TI_frame s s' t u h x :
  GI s -> frame s s' t u h -> owned s s' t u h -> x <> t ->
  TI s x (pcs s x) -> TI s' x (pcs s' x).
Proof.
  intros G F [Hst Hlk] Hx. rewrite (fr_pcs _ _ _ _ _ F x Hx).
  (* a unit whose status names x as its owner is not u; its bucket is not h *)
  assert (Hu : forall u', (stat s u' = UMapping x \/ stat s u' = UUnmapping x) -> u' <> u).
  { intros u' H E. subst u'. destruct Hst as [E|[E|[E|[[th E] _]]]]; destruct H as [H|H]; congruence. }
  assert (Hh : forall h', lock s h' = Some x -> h' <> h).
  { intros h' H E. subst h'. destruct Hlk; congruence. }
  assert (Hnz : forall u', stat s u' <> UFree -> u' <> UNIT_NULL) by apply (gi_nonnull _ G).
  assert (Hkeep : forall u' y, u' <> u -> u' <> UNIT_NULL ->
            nth_error (cells s) (cellof s u') = Some y -> cu y = u' ->
            nth_error (cells s') (cellof s' u') = Some y).
  { intros u' y N1 N2 Hy E. rewrite (fr_cellof _ _ _ _ _ F _ N1).
    eapply (fr_keep _ _ _ _ _ F); eauto; congruence. }
  destruct (pcs s x) as [|u' th'|u' th' c|u' th' c|u' th' ok|u'|u'|u'|u' p e t0|u' c e t0|u' r e t0|u' e];
    cbn [TI]; auto.
  - intros (L & S & N). assert (N1 : u' <> u) by (apply Hu; auto).
    assert (N2 : u' <> UNIT_NULL) by (apply Hnz; congruence).
    rewrite (fr_lock _ _ _ _ _ F) by auto. rewrite (fr_stat _ _ _ _ _ F) by auto.
    repeat split; auto. eapply notin_frame; eauto.
  - intros (L & S & C & (y & Hy & Ey) & R). assert (N1 : u' <> u) by (apply Hu; auto).
    assert (N2 : u' <> UNIT_NULL) by (apply Hnz; congruence).
    rewrite (fr_lock _ _ _ _ _ F), (fr_heads _ _ _ _ _ F) by auto.
    rewrite (fr_stat _ _ _ _ _ F), (fr_cellof _ _ _ _ _ F) by auto.
    repeat split; auto.
    + exists y. split; auto. eapply (fr_keep _ _ _ _ _ F); eauto; congruence.
    + eapply reach_mono; eauto. apply (fr_shape _ _ _ _ _ F).
  - intros (L & S & C & Hy). assert (N1 : u' <> u) by (apply Hu; auto).
    assert (N2 : u' <> UNIT_NULL) by (apply Hnz; congruence).
    rewrite (fr_lock _ _ _ _ _ F), (fr_heads _ _ _ _ _ F) by auto.
    rewrite (fr_stat _ _ _ _ _ F), (fr_cellof _ _ _ _ _ F) by auto.
    repeat split; auto. eapply (fr_keep _ _ _ _ _ F); eauto.
  - destruct ok.
    + intros (L & S & (y & Hy & Ey & Et) & R). assert (N1 : u' <> u) by (apply Hu; auto).
      assert (N2 : u' <> UNIT_NULL) by (apply Hnz; congruence).
      rewrite (fr_lock _ _ _ _ _ F), (fr_heads _ _ _ _ _ F) by auto.
      rewrite (fr_stat _ _ _ _ _ F) by auto.
      repeat split; auto.
      * exists y. repeat split; auto.
      * rewrite (fr_cellof _ _ _ _ _ F) by auto. eapply reach_mono; eauto. apply (fr_shape _ _ _ _ _ F).
    + intros (L & S & N). assert (N1 : u' <> u) by (apply Hu; auto).
      assert (N2 : u' <> UNIT_NULL) by (apply Hnz; congruence).
      rewrite (fr_lock _ _ _ _ _ F) by auto. rewrite (fr_stat _ _ _ _ _ F) by auto.
      repeat split; auto. eapply notin_frame; eauto.
  - intros (L & S & (y & Hy & Ey) & R). assert (N1 : u' <> u) by (apply Hu; auto).
    assert (N2 : u' <> UNIT_NULL) by (apply Hnz; congruence).
    rewrite (fr_lock _ _ _ _ _ F), (fr_heads _ _ _ _ _ F) by auto.
    rewrite (fr_stat _ _ _ _ _ F) by auto.
    repeat split; auto.
    + exists y. split; auto.
    + rewrite (fr_cellof _ _ _ _ _ F) by auto. eapply reach_mono; eauto. apply (fr_shape _ _ _ _ _ F).
  - intros (L & S & N). assert (N1 : u' <> u) by (apply Hu; auto).
    assert (N2 : u' <> UNIT_NULL) by (apply Hnz; congruence).
    rewrite (fr_lock _ _ _ _ _ F) by auto. rewrite (fr_stat _ _ _ _ _ F) by auto.
    repeat split; auto. eapply notin_frame; eauto.
  - (* GetAt *)
    intros [Hle Himp]. destruct (Z.eq_dec u' u) as [->|N1].
    + destruct (fr_epoch_u _ _ _ _ _ F) as [E|[[th Em] E]].
      * rewrite E. split; auto. intros Ee. destruct (Himp Ee) as [Sm R].
        destruct Hst as [E'|[E'|[E'|[[th E'] E'']]]]; try congruence. lia.
      * rewrite E. split; [lia|]. intros; lia.
    + rewrite (fr_epoch _ _ _ _ _ F) by auto. split; auto. intros Ee. destruct (Himp Ee) as [Sm R].
      rewrite (fr_stat _ _ _ _ _ F), (fr_cellof _ _ _ _ _ F) by auto. split; auto.
      eapply reach_mono; eauto. apply (fr_shape _ _ _ _ _ F).
  - intros [Hle Himp]. destruct (Z.eq_dec u' u) as [->|N1].
    + destruct (fr_epoch_u _ _ _ _ _ F) as [E|[[th Em] E]].
      * rewrite E. split; auto. intros Ee. destruct (Himp Ee) as [Sm R].
        destruct Hst as [E'|[E'|[E'|[[th E'] E'']]]]; try congruence. lia.
      * rewrite E. split; [lia|]. intros; lia.
    + rewrite (fr_epoch _ _ _ _ _ F) by auto. split; auto. intros Ee. destruct (Himp Ee) as [Sm R].
      rewrite (fr_stat _ _ _ _ _ F), (fr_cellof _ _ _ _ _ F) by auto. split; auto.
  - intros [Hle Himp]. destruct (Z.eq_dec u' u) as [->|N1].
    + destruct (fr_epoch_u _ _ _ _ _ F) as [E|[[th Em] E]].
      * rewrite E. split; auto. intros Ee. destruct (Himp Ee) as [Sm R].
        destruct Hst as [E'|[E'|[E'|[[th E'] E'']]]]; try congruence. lia.
      * rewrite E. split; [lia|]. intros; lia.
    + rewrite (fr_epoch _ _ _ _ _ F) by auto. split; auto. intros Ee. destruct (Himp Ee) as [Sm R].
      rewrite (fr_stat _ _ _ _ _ F) by auto. split; auto.
  - intros Hlt. destruct (Z.eq_dec u' u) as [->|N1].
    + destruct (fr_epoch_u _ _ _ _ _ F) as [E|[_ E]]; rewrite E; lia.
    + rewrite (fr_epoch _ _ _ _ _ F) by auto. auto.
Qed.

(* ------------------------------------------------------------------ *)
(* preservation                                                         *)
(* ------------------------------------------------------------------ *)

Lemma zupd_eq {A} (f : Z -> A) k v : zupd f k v k = v.
Proof. unfold zupd. rewrite Z.eqb_refl. reflexivity. Qed.
Lemma zupd_ne {A} (f : Z -> A) k v k' : k' <> k -> zupd f k v k' = f k'.
Proof. intros H. unfold zupd. destruct (Z.eqb_spec k' k); [contradiction|reflexivity]. Qed.
Lemma nupd_eq {A} (f : nat -> A) k v : nupd f k v k = v.
Proof. unfold nupd. rewrite Nat.eqb_refl. reflexivity. Qed.
Lemma nupd_ne {A} (f : nat -> A) k v k' : k' <> k -> nupd f k v k' = f k'.
Proof. intros H. unfold nupd. destruct (Nat.eqb_spec k' k); [contradiction|reflexivity]. Qed.

Lemma Inv_step_frame s s' t u h :
  Inv s -> frame s s' t u h -> owned s s' t u h -> GI s' -> TI s' t (pcs s' t) -> Inv s'.
Proof.
  intros [G T] F O G' Tt. split; auto. intros x. destruct (Nat.eq_dec x t) as [->|Hne]; auto.
  apply (TI_frame s s' t u h x G F O Hne (T x)).
Qed.

Lemma Inv_step_pc s t p : Inv s -> TI s t p -> Inv (set_pc s t p).
Proof.
  intros [G T] Tt. split.
  - destruct G. split; cbn; auto.
  - intros x. cbn [set_pc pcs]. destruct (Nat.eq_dec x t) as [->|Hne].
    + rewrite nupd_eq. destruct p; exact Tt.
    + rewrite nupd_ne by auto. specialize (T x). destruct (pcs s x); exact T.
Qed.

Lemma uniq_cellof s c x u :
  GI s -> nth_error (cells s) c = Some x -> cu x = u -> u <> UNIT_NULL -> cellof s u = c.
Proof. intros G H E N. subst u. apply (gi_uniq _ G); auto. Qed.

Theorem step_Inv s t a s' : Inv s -> step s t a = Some s' -> Inv s'.
Proof.
  intros HI Hstep. pose proof HI as [G T]. pose proof (T t) as Tt.
  unfold step in Hstep.
  destruct a as [u th|ok| | | |u| | |u| | | ]; destruct (pcs s t) as
    [|u0 th0|u0 th0 c0|u0 th0 c0|u0 th0 ok0|u0|u0|u0|u0 p0 e0 t0|u0 c0 e0 t0|u0 r0 e0 t0|u0 e0] eqn:Ept;
    try discriminate; cbn [TI] in Tt.
  - (* AMapBegin *)
    destruct (lock s (hash_index u)) eqn:El; [discriminate|].
    destruct (stat s u) eqn:Es; try discriminate.
    destruct (Z.eqb_spec u UNIT_NULL) as [|Hnz]; [discriminate|].
    inversion Hstep; subst s'; clear Hstep.
    apply (Inv_step_frame s _ t u (hash_index u)); auto.
    + split; cbn; intros; auto; try (rewrite ?nupd_ne, ?zupd_ne by auto; auto).
      apply shape_le_refl.
    + split; [right; right; left; auto|right; auto].
    + destruct G as [G1 G2 G3 G4 G5]. split; cbn; auto.
      * intros c x Hx Hn. destruct (G3 _ _ Hx Hn) as [E1 E2]. split; auto.
        destruct (Z.eq_dec (cu x) u) as [->|N]; [rewrite zupd_eq; discriminate|rewrite zupd_ne; auto].
      * intros u' th'. destruct (Z.eq_dec u' u) as [->|N]; [rewrite zupd_eq; discriminate|].
        rewrite zupd_ne by auto. apply G4.
      * intros u'. destruct (Z.eq_dec u' u) as [->|N]; auto. rewrite zupd_ne by auto. apply G5.
    + cbn. rewrite nupd_eq. cbn. rewrite !zupd_eq. repeat split; auto.
      intros c y Hy E. assert (cu y <> UNIT_NULL) by congruence.
      destruct (gi_uniq _ G _ _ Hy H) as [_ N]. rewrite E in N. contradiction.
  - (* AMapScan *)
    destruct Tt as (L & S & N).
    assert (Hnz : u0 <> UNIT_NULL) by (apply (gi_nonnull _ G); congruence).
    destruct (scan (fun x => cu x =? UNIT_NULL) (cells s) (heads s (hash_index u0)) (length (cells s)))
      as [c|] eqn:Esc.
    + (* reuse the tombstone c *)
      destruct (scan_sound _ _ _ _ _ Esc) as (y & Hy & Hf & Hr). apply Z.eqb_eq in Hf.
      inversion Hstep; subst s'; clear Hstep.
      assert (Hnew : forall i y', nth_error (set_cu (cells s) c u0) i = Some y' ->
                (i = c /\ y' = mkC u0 (cth y) (cnext y)) \/ (i <> c /\ nth_error (cells s) i = Some y')).
      { intros i y' H. destruct (Nat.eq_dec i c) as [->|Hne].
        - rewrite (set_cu_eq _ _ _ _ Hy) in H. inversion H; auto.
        - rewrite set_cu_ne in H by auto. auto. }
      apply (Inv_step_frame s _ t u0 (hash_index u0)); auto.
      * split; cbn; intros; auto; try (rewrite ?nupd_ne, ?zupd_ne by auto; auto).
        -- apply shape_le_set_cu.
        -- rewrite set_cu_ne; auto. intros ->. rewrite Hy in H. inversion H; subst. contradiction.
        -- destruct (Hnew _ _ H) as [[-> ->]|[_ H']]; cbn; auto.
      * split; auto.
      * destruct G as [G1 G2 G3 G4 G5]. split; cbn; auto.
        -- intros i x n Hx En. destruct (Hnew _ _ Hx) as [[-> ->]|[_ H']]; cbn in *; eauto.
        -- intros h c' H. rewrite set_cu_length. eauto.
        -- intros i x Hx Hn. destruct (Hnew _ _ Hx) as [[-> ->]|[Hne H']]; cbn in *.
           ++ rewrite zupd_eq. split; auto. congruence.
           ++ destruct (G3 _ _ H' Hn) as [E1 E2]. split; auto.
              rewrite zupd_ne; auto. intros E. apply (N _ _ H'). auto.
        -- intros u' th' Hs. assert (Nu : u' <> u0) by (intros ->; congruence).
           destruct (G4 _ _ Hs) as (x & Hx & E1 & E2 & R). rewrite zupd_ne by auto.
           exists x. repeat split; auto.
           ++ rewrite set_cu_ne; auto. intros E. rewrite E in Hx. rewrite Hy in Hx. inversion Hx; subst.
              apply (G5 (cu x)); [congruence|auto].
           ++ eapply reach_mono; eauto. apply shape_le_set_cu.
      * cbn. rewrite nupd_eq. cbn. rewrite zupd_eq. repeat split; auto.
        -- exists (mkC u0 (cth y) (cnext y)). split; auto. apply set_cu_eq; auto.
        -- eapply reach_mono; eauto. apply shape_le_set_cu.
    + destruct ok.
      * (* allocate a new cell *)
        inversion Hstep; subst s'; clear Hstep.
        set (ncell := mkC u0 th0 (heads s (hash_index u0))).
        assert (Hnew : forall i y', nth_error (cells s ++ [ncell]) i = Some y' ->
                  (i = length (cells s) /\ y' = ncell) \/ nth_error (cells s) i = Some y').
        { intros i y' H. destruct (Nat.lt_ge_cases i (length (cells s))) as [Hlt|Hge].
          - rewrite nth_error_app1 in H by auto. auto.
          - rewrite nth_error_app2 in H by auto.
            destruct (i - length (cells s))%nat as [|k] eqn:Ek; cbn in H.
            + inversion H. left. split; auto. lia.
            + destruct k; discriminate. }
        assert (Hold : forall i y, nth_error (cells s) i = Some y -> nth_error (cells s ++ [ncell]) i = Some y).
        { intros i y H. rewrite nth_error_app1; auto. eapply nth_error_lt; eauto. }
        assert (Hlast : nth_error (cells s ++ [ncell]) (length (cells s)) = Some ncell).
        { rewrite nth_error_app2 by lia. rewrite Nat.sub_diag. reflexivity. }
        apply (Inv_step_frame s _ t u0 (hash_index u0)); auto.
        -- split; cbn; intros; auto; try (rewrite ?nupd_ne, ?zupd_ne by auto; auto).
           ++ apply shape_le_app.
           ++ destruct (Hnew _ _ H) as [[-> ->]|H']; cbn; auto.
        -- split; auto.
        -- destruct G as [G1 G2 G3 G4 G5]. split; cbn; auto.
           ++ intros i x n Hx En. destruct (Hnew _ _ Hx) as [[-> ->]|H']; cbn in *; eauto.
           ++ intros h c' H. rewrite app_length. cbn. pose proof (G2 _ _ H). lia.
           ++ intros i x Hx Hn. destruct (Hnew _ _ Hx) as [[-> ->]|H']; cbn in *.
              ** rewrite zupd_eq. split; auto. congruence.
              ** destruct (G3 _ _ H' Hn) as [E1 E2]. split; auto.
                 rewrite zupd_ne; auto. intros E. apply (N _ _ H'). auto.
           ++ intros u' th' Hs. assert (Nu : u' <> u0) by (intros ->; congruence).
              destruct (G4 _ _ Hs) as (x & Hx & E1 & E2 & R). rewrite zupd_ne by auto.
              exists x. repeat split; auto. eapply reach_mono; eauto. apply shape_le_app.
        -- cbn. rewrite nupd_eq. cbn. rewrite zupd_eq. repeat split; auto.
      * (* allocation fails *)
        inversion Hstep; subst s'; clear Hstep.
        apply Inv_step_pc; auto. cbn. auto.
  - (* AMapStoreThr *)
    destruct Tt as (L & S & C & (y & Hy & Ey) & R).
    assert (Hnz : u0 <> UNIT_NULL) by (apply (gi_nonnull _ G); congruence).
    inversion Hstep; subst s'; clear Hstep.
    assert (Hnew : forall i y', nth_error (set_cth (cells s) c0 th0) i = Some y' ->
              (i = c0 /\ y' = mkC (cu y) th0 (cnext y)) \/ (i <> c0 /\ nth_error (cells s) i = Some y')).
    { intros i y' H. destruct (Nat.eq_dec i c0) as [->|Hne].
      - rewrite (set_cth_eq _ _ _ _ Hy) in H. inversion H; auto.
      - rewrite set_cth_ne in H by auto. auto. }
    apply (Inv_step_frame s _ t u0 (hash_index u0)); auto.
    + split; cbn; intros; auto; try (rewrite ?nupd_ne, ?zupd_ne by auto; auto).
      * apply shape_le_set_cth.
      * rewrite set_cth_ne; auto. intros ->. rewrite Hy in H. inversion H; subst. contradiction.
      * destruct (Hnew _ _ H) as [[-> ->]|[_ H']]; cbn; auto.
    + split; auto.
    + destruct G as [G1 G2 G3 G4 G5]. split; cbn; auto.
      * intros i x n Hx En. destruct (Hnew _ _ Hx) as [[-> ->]|[_ H']]; cbn in *; eauto.
      * intros h c' H. rewrite set_cth_length. eauto.
      * intros i x Hx Hn. destruct (Hnew _ _ Hx) as [[-> ->]|[Hne H']]; cbn in *; eauto.
      * intros u' th' Hs. assert (Nu : u' <> u0) by (intros ->; congruence).
        destruct (G4 _ _ Hs) as (x & Hx & E1 & E2 & R').
        exists x. repeat split; auto.
        -- rewrite set_cth_ne; auto. intros E. rewrite E in Hx. rewrite Hy in Hx. inversion Hx; subst.
           contradiction.
        -- eapply reach_mono; eauto. apply shape_le_set_cth.
    + cbn. rewrite nupd_eq. cbn. repeat split; auto.
      * rewrite C. exists (mkC (cu y) th0 (cnext y)). split; [apply set_cth_eq; auto|]. cbn. auto.
      * rewrite C. eapply reach_mono; eauto. apply shape_le_set_cth.
  - (* AMapPublish *)
    destruct Tt as (L & S & C & Hy).
    assert (Hnz : u0 <> UNIT_NULL) by (apply (gi_nonnull _ G); congruence).
    inversion Hstep; subst s'; clear Hstep.
    apply (Inv_step_frame s _ t u0 (hash_index u0)); auto.
    + split; cbn; intros; auto; try (rewrite ?nupd_ne, ?zupd_ne by auto; auto).
      apply shape_le_refl.
    + split; auto.
    + destruct G as [G1 G2 G3 G4 G5]. split; cbn; auto.
      * intros h c'. destruct (Z.eq_dec h (hash_index u0)) as [->|Nh].
        -- rewrite zupd_eq. intros E; inversion E; subst. eapply nth_error_lt; eauto.
        -- rewrite zupd_ne by auto. apply G2.
      * intros u' th' Hs. destruct (G4 _ _ Hs) as (x & Hx & E1 & E2 & R').
        exists x. repeat split; auto.
        destruct (Z.eq_dec (hash_index u') (hash_index u0)) as [Eh|Nh].
        -- rewrite Eh, zupd_eq. eapply reach_next; eauto. cbn. rewrite <- Eh. auto.
        -- rewrite zupd_ne by auto. auto.
    + cbn. rewrite nupd_eq. cbn. rewrite zupd_eq. repeat split; auto.
      * rewrite C. eexists; split; eauto.
      * rewrite C. econstructor; eauto.
  - (* AMapRelease *)
    inversion Hstep; subst s'; clear Hstep.
    destruct ok0.
    + destruct Tt as (L & S & (y & Hy & Ey & Et) & R).
      apply (Inv_step_frame s _ t u0 (hash_index u0)); auto.
      * split; cbn; intros; auto; try (rewrite ?nupd_ne, ?zupd_ne by auto; auto).
        apply shape_le_refl.
      * split; auto.
      * destruct G as [G1 G2 G3 G4 G5]. split; cbn; auto.
        -- intros c x Hx Hn. destruct (G3 _ _ Hx Hn) as [E1 E2]. split; auto.
           destruct (Z.eq_dec (cu x) u0) as [->|N]; [rewrite zupd_eq; discriminate|rewrite zupd_ne; auto].
        -- intros u' th'. destruct (Z.eq_dec u' u0) as [->|N].
           ++ rewrite zupd_eq. intros E; inversion E; subst. exists y. repeat split; auto.
           ++ rewrite zupd_ne by auto. apply G4.
        -- intros u'. destruct (Z.eq_dec u' u0) as [->|N].
           ++ intros _. apply G5. congruence.
           ++ rewrite zupd_ne by auto. apply G5.
      * cbn. rewrite nupd_eq. exact I.
    + destruct Tt as (L & S & N).
      apply (Inv_step_frame s _ t u0 (hash_index u0)); auto.
      * split; cbn; intros; auto; try (rewrite ?nupd_ne, ?zupd_ne by auto; auto).
        apply shape_le_refl.
      * split; auto.
      * destruct G as [G1 G2 G3 G4 G5]. split; cbn; auto.
        -- intros c x Hx Hn. destruct (G3 _ _ Hx Hn) as [E1 E2]. split; auto.
           rewrite zupd_ne; auto. intros E. apply (N _ _ Hx). auto.
        -- intros u' th'. destruct (Z.eq_dec u' u0) as [->|N'].
           ++ rewrite zupd_eq. discriminate.
           ++ rewrite zupd_ne by auto. apply G4.
        -- intros u'. destruct (Z.eq_dec u' u0) as [->|N'].
           ++ rewrite zupd_eq. congruence.
           ++ rewrite zupd_ne by auto. apply G5.
      * cbn. rewrite nupd_eq. exact I.
  - (* AUnmapBegin *)
    destruct (lock s (hash_index u)) eqn:El; [discriminate|].
    destruct (stat s u) as [| |thm|] eqn:Es; try discriminate.
    inversion Hstep; subst s'; clear Hstep.
    destruct (gi_mapped _ G _ _ Es) as (y & Hy & Ey & Et & R).
    apply (Inv_step_frame s _ t u (hash_index u)); auto.
    + split; cbn; intros; auto; try (rewrite ?nupd_ne, ?zupd_ne by auto; auto).
      * right. rewrite zupd_eq. split; eauto.
      * apply shape_le_refl.
    + split; [right; right; right; split; [eauto|cbn; rewrite zupd_eq; auto]|right; auto].
    + destruct G as [G1 G2 G3 G4 G5]. split; cbn; auto.
      * intros c x Hx Hn. destruct (G3 _ _ Hx Hn) as [E1 E2]. split; auto.
        destruct (Z.eq_dec (cu x) u) as [->|N]; [rewrite zupd_eq; discriminate|rewrite zupd_ne; auto].
      * intros u' th'. destruct (Z.eq_dec u' u) as [->|N]; [rewrite zupd_eq; discriminate|].
        rewrite zupd_ne by auto. apply G4.
      * intros u'. destruct (Z.eq_dec u' u) as [->|N].
        -- intros _. apply G5. congruence.
        -- rewrite zupd_ne by auto. apply G5.
    + cbn. rewrite nupd_eq. cbn. rewrite !zupd_eq. repeat split; eauto.
  - (* AUnmapStore *)
    destruct Tt as (L & S & (y & Hy & Ey) & R).
    assert (Hnz : u0 <> UNIT_NULL) by (apply (gi_nonnull _ G); congruence).
    destruct (scan (fun x => cu x =? u0) (cells s) (heads s (hash_index u0)) (length (cells s)))
      as [c|] eqn:Esc.
    + destruct (scan_sound _ _ _ _ _ Esc) as (y' & Hy' & Hf & Hr). apply Z.eqb_eq in Hf.
      assert (c = cellof s u0) by (symmetry; eapply uniq_cellof; eauto). subst c.
      rewrite Hy in Hy'. inversion Hy'; subst y'. clear Hy'.
      inversion Hstep; subst s'; clear Hstep.
      assert (Hnew : forall i z, nth_error (set_cu (cells s) (cellof s u0) UNIT_NULL) i = Some z ->
                (i = cellof s u0 /\ z = mkC UNIT_NULL (cth y) (cnext y)) \/
                (i <> cellof s u0 /\ nth_error (cells s) i = Some z)).
      { intros i z H. destruct (Nat.eq_dec i (cellof s u0)) as [->|Hne].
        - rewrite (set_cu_eq _ _ _ _ Hy) in H. inversion H; auto.
        - rewrite set_cu_ne in H by auto. auto. }
      apply (Inv_step_frame s _ t u0 (hash_index u0)); auto.
      * split; cbn; intros; auto; try (rewrite ?nupd_ne, ?zupd_ne by auto; auto).
        -- apply shape_le_set_cu.
        -- rewrite set_cu_ne; auto. intros ->. rewrite Hy in H. inversion H; subst. contradiction.
        -- destruct (Hnew _ _ H) as [[-> ->]|[_ H']]; cbn; auto.
      * split; auto.
      * destruct G as [G1 G2 G3 G4 G5]. split; cbn; auto.
        -- intros i x n Hx En. destruct (Hnew _ _ Hx) as [[-> ->]|[_ H']]; cbn in *; eauto.
        -- intros h c' H. rewrite set_cu_length. eauto.
        -- intros i x Hx Hn. destruct (Hnew _ _ Hx) as [[-> ->]|[Hne H']]; cbn in *; [contradiction|eauto].
        -- intros u' th' Hs. assert (Nu : u' <> u0) by (intros ->; congruence).
           destruct (G4 _ _ Hs) as (x & Hx & E1 & E2 & R').
           exists x. repeat split; auto.
           ++ rewrite set_cu_ne; auto. intros E. rewrite E in Hx. rewrite Hy in Hx. inversion Hx; subst.
              contradiction.
           ++ eapply reach_mono; eauto. apply shape_le_set_cu.
      * cbn. rewrite nupd_eq. cbn. repeat split; auto.
        intros i z Hz. destruct (Hnew _ _ Hz) as [[-> ->]|[Hne H']]; cbn; auto.
        intros E. apply Hne. symmetry. eapply uniq_cellof; eauto.
    + (* the scan cannot fail *)
      exfalso.
      destruct (scan_complete (fun x => cu x =? u0) (cells s) (heads s (hash_index u0))
                              (length (cells s)) (cellof s u0) y (gi_wf _ G) R Hy) as [c' Ec'].
      * apply Z.eqb_eq; auto.
      * destruct (heads s (hash_index u0)) as [c0|] eqn:Eh; cbn; [|lia].
        pose proof (gi_heads _ G _ _ Eh). lia.
      * congruence.
  - (* AUnmapRelease *)
    destruct Tt as (L & S & N).
    inversion Hstep; subst s'; clear Hstep.
    apply (Inv_step_frame s _ t u0 (hash_index u0)); auto.
    + split; cbn; intros; auto; try (rewrite ?nupd_ne, ?zupd_ne by auto; auto).
      apply shape_le_refl.
    + split; auto.
    + destruct G as [G1 G2 G3 G4 G5]. split; cbn; auto.
      * intros c x Hx Hn. destruct (G3 _ _ Hx Hn) as [E1 E2]. split; auto.
        rewrite zupd_ne; auto. intros E. apply (N _ _ Hx). auto.
      * intros u' th'. destruct (Z.eq_dec u' u0) as [->|N'].
        -- rewrite zupd_eq. discriminate.
        -- rewrite zupd_ne by auto. apply G4.
      * intros u'. destruct (Z.eq_dec u' u0) as [->|N'].
        -- rewrite zupd_eq. congruence.
        -- rewrite zupd_ne by auto. apply G5.
    + cbn. rewrite nupd_eq. exact I.
  - (* AGetBegin *)
    destruct (stat s u) as [| |thm|] eqn:Es; try discriminate.
    inversion Hstep; subst s'; clear Hstep.
    apply Inv_step_pc; auto. cbn. split; auto. intros _.
    destruct (gi_mapped _ G _ _ Es) as (y & Hy & Ey & Et & R). auto.
  - (* AGetCmp *)
    destruct Tt as [Hle Himp].
    destruct p0 as [c|].
    + destruct (nth_error (cells s) c) as [x|] eqn:Ex.
      * destruct (Z.eqb_spec (cu x) u0) as [E|Nu]; inversion Hstep; subst s'; clear Hstep;
          apply Inv_step_pc; auto; cbn; split; auto; intros Ee; destruct (Himp Ee) as [Sm R]; split; auto.
        -- symmetry. eapply uniq_cellof; eauto. apply (gi_nonnull _ G). congruence.
        -- destruct (reach_inv _ _ _ R) as (c' & x' & E1 & E2 & [E3|E3]).
           ++ inversion E1; subst c'. subst c. rewrite Ex in E2. inversion E2; subst x'.
              destruct (gi_mapped _ G _ _ Sm) as (y & Hy & Ey & _). rewrite Ex in Hy. inversion Hy; subst.
              contradiction.
           ++ inversion E1; subst c'. rewrite Ex in E2. inversion E2; subst x'. auto.
      * inversion Hstep; subst s'; clear Hstep. apply Inv_step_pc; auto. cbn.
        destruct (Nat.eq_dec (epoch s u0) e0) as [Ee|Ne]; [|lia].
        destruct (Himp Ee) as [Sm R]. destruct (reach_inv _ _ _ R) as (c' & x' & E1 & E2 & _).
        inversion E1; subst c'. congruence.
    + inversion Hstep; subst s'; clear Hstep. apply Inv_step_pc; auto. cbn.
      destruct (Nat.eq_dec (epoch s u0) e0) as [Ee|Ne]; [|lia].
      destruct (Himp Ee) as [Sm R]. destruct (reach_inv _ _ _ R) as (c' & x' & E1 & _). discriminate.
  - (* AGetLoadThr *)
    destruct Tt as [Hle Himp].
    destruct (nth_error (cells s) c0) as [x|] eqn:Ex; inversion Hstep; subst s'; clear Hstep;
      apply Inv_step_pc; auto; cbn.
    + split; auto. intros Ee. destruct (Himp Ee) as [Sm ->]. split; auto.
      destruct (gi_mapped _ G _ _ Sm) as (y & Hy & Ey & Et & _). rewrite Ex in Hy. inversion Hy; subst. auto.
    + destruct (Nat.eq_dec (epoch s u0) e0) as [Ee|Ne]; [|lia].
      destruct (Himp Ee) as [Sm ->]. destruct (gi_mapped _ G _ _ Sm) as (y & Hy & _). congruence.
  - (* AGetEnd *)
    inversion Hstep; subst s'; clear Hstep. apply Inv_step_pc; auto. exact I.
Qed.

(* ------------------------------------------------------------------ *)
(* reachable states                                                     *)
(* ------------------------------------------------------------------ *)

Lemma run_Inv : forall tr s s', Inv s -> run s tr = Some s' -> Inv s'.
Proof.
  induction tr as [|[t a] tr IH]; cbn; intros s s' HI H.
  - inversion H; subst; auto.
  - destruct (step s t a) as [s1|] eqn:E; [|discriminate]. eapply IH; [|eauto]. eapply step_Inv; eauto.
Qed.

Theorem reachable_Inv : forall tr s, run init tr = Some s -> Inv s.
Proof. intros tr s H. eapply run_Inv; [apply Inv_init|eauto]. Qed.

(* a completed get whose unit was not unmapped meanwhile returns the thread
   the unit is (still) mapped to *)
Theorem concurrent_lookup : forall tr s x u r e t0,
  run init tr = Some s -> pcs s x = GetDone u r e t0 -> epoch s u = e ->
  r = t0 /\ stat s u = UMapped t0.
Proof.
  intros tr s x u r e t0 Hr Hpc He. destruct (reachable_Inv _ _ Hr) as [_ T].
  specialize (T x). rewrite Hpc in T. cbn in T. destruct T as [_ H]. destruct (H He). auto.
Qed.

(* "unmap() must succeed" never fires; "get() must succeed" (or a wild
   pointer) can only be hit by a get whose unit was unmapped during the get,
   i.e. by a client that breaks the contract *)
Theorem concurrent_no_assert : forall tr s x,
  run init tr = Some s ->
  (forall u, pcs s x <> UnmapFailed u) /\
  (forall u e, pcs s x = GetFailed u e -> (e < epoch s u)%nat).
Proof.
  intros tr s x Hr. destruct (reachable_Inv _ _ Hr) as [_ T]. specialize (T x). split.
  - intros u E. rewrite E in T. exact T.
  - intros u e E. rewrite E in T. exact T.
Qed.

(* writers of one bucket exclude each other *)
Definition writer_of (p : pc) : option Z :=
  match p with
  | MapScan u _ | MapStoreThr u _ _ | MapPublish u _ _ | MapRelease u _ _
  | UnmapScan u | UnmapRelease u => Some (hash_index u)
  | _ => None
  end.

Theorem concurrent_mutex : forall tr s x y h,
  run init tr = Some s -> writer_of (pcs s x) = Some h -> writer_of (pcs s y) = Some h -> x = y.
Proof.
  intros tr s x y h Hr Hx Hy. destruct (reachable_Inv _ _ Hr) as [_ T].
  assert (L : forall z, writer_of (pcs s z) = Some h -> lock s h = Some z).
  { intros z Hz. specialize (T z). destruct (pcs s z) as [| | | |? ? ok| | | | | | |]; cbn in Hz; inversion Hz; subst;
      cbn in T; try (destruct ok); tauto. }
  pose proof (L x Hx). pose proof (L y Hy). congruence.
Qed.
