(* LTS of the concurrent part of the work-unit-local storage (C16):
     src/include/abti_key.h : ABTI_ktable_set (lazy creation: CAS NULL -> LOCKED, create, publish),
                              ABTI_ktable_set_impl (lock-free walk, locked re-walk and append),
                              ABTI_ktable_get (lock-free reader)
   on ONE work unit's p_keytable word, for any number of threads, each performing any
   sequence of set(key, value) / get(key) calls (most general client).
   One LTS step = one atomic action of the C code:
     - a load / store / CAS of the p_keytable word,
     - a load of one chain link (the key_id of the element it leads to is immutable once the
       element is published, so the comparison belongs to the same step),
     - a load or store of an element's value,
     - the acquisition of the table's spinlock, and the rest of the critical section
       (re-walk from the remembered link, allocation, publication of the new element by one
       release-store, release of the lock) as one step: every other write of the section goes
       to the not yet published element.
   Allocation outcomes and spurious failures of the weak CAS are chosen by the environment
   (the boolean of [AStep]).  [fixed = true] is the spin loop as it is now (since /repo commit
   a54fdc8 "ABTI_ktable_set dereferences NULL when the concurrent creator's allocation fails":
   a spinner that reads NULL retries the creation); [fixed = false] is the loop before that
   commit (the spinner left the loop with NULL).  Only model code here: no proofs. *)
From Coq Require Import List ZArith Bool Arith.
Import ListNotations.
Local Open Scope Z_scope.

Record elem := mkEl { ekey : Z; eval_ : Z; edtor : Z }.
Record call := mkC { c_key : Z; c_val : Z; c_dtor : Z }.

Inductive wordT := WNull | WLocked | WTab (n : nat).

Inductive pcT :=
| Idle
| S0 (c : call)                              (* ABTI_ktable_set: about to load pp_ktable *)
| SCas (c : call)                            (* top of while (1): about to CAS NULL -> LOCKED *)
| SCreate (c : call)                         (* owns LOCKED: about to call ABTI_ktable_create *)
| SPublish (c : call) (n : nat)              (* created table n: about to release-store it *)
| SFailStore (c : call)                      (* creation failed: about to store NULL back *)
| SReload (c : call)                         (* CAS failed: about to load pp_ktable *)
| SSpin (c : call)                           (* saw LOCKED: pause, about to load again *)
| SWalk (c : call) (tab : option nat) (pos : nat)  (* set_impl, lock-free walk: about to load link [pos];
                                                [tab = None]: the table pointer is NULL *)
| SStore (c : call) (n pos : nat)            (* key found in element [pos]: about to store the value *)
| SLockAcq (c : call) (n pos : nat)          (* link [pos] was NULL: about to take the table lock *)
| SCrit (c : call) (n pos : nat)             (* holds the lock: the critical section *)
| SRet (rc : Z)                              (* about to return rc *)
| Crash                                      (* dereferenced a NULL table pointer *)
| G0 (k : Z)                                 (* ABTI_ktable_get: about to load pp_ktable *)
| GWalk (k : Z) (n pos : nat)                (* about to load link [pos] *)
| GRead (k : Z) (n pos : nat)                (* key found in element [pos]: about to load its value *)
| GRet (v : Z).

Inductive act :=
| ACallSet (c : call)
| ACallGet (k : Z)
| AStep (ok : bool).

Record st := mkSt {
  word : wordT;                          (* the unit's p_keytable word *)
  creator : option nat;                  (* ghost: the thread that owns LOCKED *)
  ntab : nat;                            (* ghost: number of tables created so far *)
  cfailed : bool;                        (* ghost: some creation failed *)
  chains : nat -> nat -> list elem;      (* table id -> slot -> chain *)
  lock : nat -> option nat;              (* table id -> holder of that table's spinlock *)
  pc : nat -> pcT
}.

Definition upd {A} (f : nat -> A) (t : nat) (v : A) : nat -> A :=
  fun x => if Nat.eqb x t then v else f x.
Definition upd2 (f : nat -> nat -> list elem) (n i : nat) (c : list elem) : nat -> nat -> list elem :=
  fun n' i' => if Nat.eqb n' n && Nat.eqb i' i then c else f n' i'.

Definition setpc (s : st) (t : nat) (p : pcT) : st :=
  mkSt (word s) (creator s) (ntab s) (cfailed s) (chains s) (lock s) (upd (pc s) t p).

Definition init : st := mkSt WNull None O false (fun _ _ => []) (fun _ => None) (fun _ => Idle).

Definition ERR_MEM : Z := 2.

(* the re-walk of the critical section, started at link [pos] *)
Fixpoint walk_from (c : list elem) (k : Z) (pos : nat) : nat + nat :=
  match c with
  | [] => inr pos
  | e :: c' => if ekey e =? k then inl pos else walk_from c' k (S pos)
  end.

Fixpoint store_at (c : list elem) (pos : nat) (v : Z) : list elem :=
  match c, pos with
  | [], _ => []
  | e :: c', O => mkEl (ekey e) v (edtor e) :: c'
  | e :: c', S p => e :: store_at c' p v
  end.

Section LTS.
Variable slot : Z -> nat.     (* ABTI_ktable_get_idx for the table size in use *)
Variable fixed : bool.        (* true: the code as it is now; false: before commit a54fdc8 *)

Definition chain_of (s : st) (n : nat) (k : Z) : list elem := chains s n (slot k).

Definition step (s : st) (t : nat) (a : act) : option st :=
  match pc s t, a with
  | Idle, ACallSet c => Some (setpc s t (S0 c))
  | Idle, ACallGet k => Some (setpc s t (G0 k))
  (* p_ktable = load(pp_ktable); if (!is_valid(p_ktable)) { while (1) ... } *)
  | S0 c, AStep _ =>
      match word s with
      | WTab n => Some (setpc s t (SWalk c (Some n) 0))
      | _ => Some (setpc s t (SCas c))
      end
  (* if (cas_weak(pp_ktable, NULL, LOCKED)) -- may fail spuriously *)
  | SCas c, AStep ok =>
      match word s, ok with
      | WNull, true =>
          Some (mkSt WLocked (Some t) (ntab s) (cfailed s) (chains s) (lock s) (upd (pc s) t (SCreate c)))
      | _, _ => Some (setpc s t (SReload c))
      end
  (* abt_errno = ABTI_ktable_create(...) *)
  | SCreate c, AStep ok =>
      if ok
      then Some (mkSt (word s) (creator s) (S (ntab s)) (cfailed s) (chains s) (lock s)
                      (upd (pc s) t (SPublish c (ntab s))))
      else Some (mkSt (word s) (creator s) (ntab s) true (chains s) (lock s) (upd (pc s) t (SFailStore c)))
  (* release_store(pp_ktable, p_ktable); break *)
  | SPublish c n, AStep _ =>
      Some (mkSt (WTab n) None (ntab s) (cfailed s) (chains s) (lock s) (upd (pc s) t (SWalk c (Some n) 0)))
  (* release_store(pp_ktable, NULL); ABTI_HANDLE_ERROR *)
  | SFailStore c, AStep _ =>
      Some (mkSt WNull None (ntab s) (cfailed s) (chains s) (lock s) (upd (pc s) t (SRet ERR_MEM)))
  (* p_ktable = load(pp_ktable); if (p_ktable == NULL) continue; *)
  | SReload c, AStep _ =>
      match word s with
      | WNull => Some (setpc s t (SCas c))
      | WLocked => Some (setpc s t (SSpin c))
      | WTab n => Some (setpc s t (SWalk c (Some n) 0))
      end
  (* while (p_ktable == LOCKED) { pause; p_ktable = load(pp_ktable); }  break; *)
  | SSpin c, AStep _ =>
      match word s with
      | WLocked => Some (setpc s t (SSpin c))
      | WNull => if fixed then Some (setpc s t (SCas c))           (* if (p_ktable == NULL) continue; *)
                 else Some (setpc s t (SWalk c None 0))            (* before a54fdc8: leaves with NULL *)
      | WTab n => Some (setpc s t (SWalk c (Some n) 0))
      end
  (* ABTI_ktable_set_impl(p_ktable = NULL): p_ktable->size *)
  | SWalk c None _, AStep _ => Some (setpc s t Crash)
  (* p_elem = load(pp_elem); while (p_elem) { if (p_elem->key_id == key_id) ...; pp_elem = &p_elem->p_next } *)
  | SWalk c (Some n) pos, AStep _ =>
      match nth_error (chain_of s n (c_key c)) pos with
      | None => Some (setpc s t (SLockAcq c n pos))
      | Some e => if ekey e =? c_key c then Some (setpc s t (SStore c n pos))
                  else Some (setpc s t (SWalk c (Some n) (S pos)))
      end
  (* p_elem->value = value; return ABT_SUCCESS *)
  | SStore c n pos, AStep _ =>
      Some (mkSt (word s) (creator s) (ntab s) (cfailed s)
                 (upd2 (chains s) n (slot (c_key c)) (store_at (chain_of s n (c_key c)) pos (c_val c)))
                 (lock s) (upd (pc s) t (SRet 0)))
  (* ABTD_spinlock_acquire(&p_ktable->lock) *)
  | SLockAcq c n pos, AStep _ =>
      match lock s n with
      | None => Some (mkSt (word s) (creator s) (ntab s) (cfailed s) (chains s) (upd (lock s) n (Some t))
                           (upd (pc s) t (SCrit c n pos)))
      | Some _ => None
      end
  (* the critical section *)
  | SCrit c n pos, AStep ok =>
      let ch := chain_of s n (c_key c) in
      match walk_from (skipn pos ch) (c_key c) pos with
      | inl i =>
          (* found: release the lock; the value is stored after that *)
          Some (mkSt (word s) (creator s) (ntab s) (cfailed s) (chains s) (upd (lock s) n None)
                     (upd (pc s) t (SStore c n i)))
      | inr m =>
          if ok
          then (* alloc_elem, fill, release-store into link m, release the lock *)
            Some (mkSt (word s) (creator s) (ntab s) (cfailed s)
                       (upd2 (chains s) n (slot (c_key c))
                             (firstn m ch ++ [mkEl (c_key c) (c_val c) (c_dtor c)]))
                       (upd (lock s) n None) (upd (pc s) t (SRet 0)))
          else Some (mkSt (word s) (creator s) (ntab s) (cfailed s) (chains s) (upd (lock s) n None)
                          (upd (pc s) t (SRet ERR_MEM)))
      end
  | SRet _, AStep _ => Some (setpc s t Idle)
  (* ABTI_ktable_get *)
  | G0 k, AStep _ =>
      match word s with
      | WTab n => Some (setpc s t (GWalk k n 0))
      | _ => Some (setpc s t (GRet 0))
      end
  | GWalk k n pos, AStep _ =>
      match nth_error (chain_of s n k) pos with
      | None => Some (setpc s t (GRet 0))
      | Some e => if ekey e =? k then Some (setpc s t (GRead k n pos))
                  else Some (setpc s t (GWalk k n (S pos)))
      end
  | GRead k n pos, AStep _ =>
      match nth_error (chain_of s n k) pos with
      | Some e => Some (setpc s t (GRet (eval_ e)))
      | None => None
      end
  | GRet _, AStep _ => Some (setpc s t Idle)
  | _, _ => None
  end.

Fixpoint run (s : st) (acts : list (nat * act)) : option st :=
  match acts with
  | [] => Some s
  | (t, a) :: acts' => match step s t a with Some s' => run s' acts' | None => None end
  end.

(* what a reader of the unit sees for key k: the value held by the published table *)
Fixpoint chain_val (c : list elem) (k : Z) : option Z :=
  match c with
  | [] => None
  | e :: c' => if ekey e =? k then Some (eval_ e) else chain_val c' k
  end.
Definition view (s : st) (k : Z) : option Z :=
  match word s with
  | WTab n => chain_val (chain_of s n k) k
  | _ => None
  end.

End LTS.
