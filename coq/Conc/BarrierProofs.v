(* Invariant of the ABT_barrier LTS for every num_waiters >= 1, any number of callers
   and any interleaving; no early release, all released, rounds disjoint. *)
From Coq Require Import List Arith ZArith Lia Bool.
From ABT Require Import Common.ListAux Conc.Barrier.
Import ListNotations.

Definition inb (x : nat) (l : list nat) : bool := existsb (Nat.eqb x) l.
Definition is_ri (p : pcT) : bool := match p with RI => true | _ => false end.

Lemma upd_same {A} (f : nat -> A) t v : upd f t v t = v.
Proof. unfold upd. now rewrite Nat.eqb_refl. Qed.
Lemma upd_other {A} (f : nat -> A) t v x : x <> t -> upd f t v x = f x.
Proof. unfold upd. intros H. apply Nat.eqb_neq in H. now rewrite H. Qed.
Lemma inb_app x l t : inb x (l ++ [t]) = inb x l || Nat.eqb x t.
Proof. unfold inb. rewrite existsb_app. cbn. now rewrite orb_false_r. Qed.
Lemma inb_cons x y l : inb x (y :: l) = Nat.eqb x y || inb x l.
Proof. reflexivity. Qed.
Lemma inb_nil x : inb x [] = false.
Proof. reflexivity. Qed.
Lemma inb_In x l : inb x l = true <-> In x l.
Proof. unfold inb. rewrite existsb_exists. split.
  - intros [y [H E]]. apply Nat.eqb_eq in E. now subst.
  - intros H. exists x. split; auto. apply Nat.eqb_refl. Qed.
Lemma inb_false x l : inb x l = false <-> ~ In x l.
Proof. rewrite <- inb_In. destruct (inb x l); intuition congruence. Qed.
Lemma oeq_true o x : oeq o x = true <-> o = Some x.
Proof. destruct o; cbn; [rewrite Nat.eqb_eq|]; split; congruence. Qed.
Lemma oeq_false_none x : oeq None x = false.
Proof. reflexivity. Qed.
Lemma is_nil_true {A} (l : list A) : is_nil l = true -> l = [].
Proof. destruct l; [reflexivity|discriminate]. Qed.
Lemma is_none_true {A} (o : option A) : is_none o = true -> o = None.
Proof. destruct o; [discriminate|reflexivity]. Qed.
Lemma length_zero_nil {A} (l : list A) : length l = 0 -> l = [].
Proof. destruct l; [reflexivity|discriminate]. Qed.

(* the lock holder determines how far the current critical section has got *)
Definition LH (s : st) : Prop :=
  match lock s with
  | None => bwl s = cur s /\ counter s < n s
  | Some u =>
      match pc s u with
      | WQ => cur s = bwl s ++ [u] /\ counter s < n s
      | WB0 => cur s = bwl s ++ [u] /\ counter s = n s
      | WB1 => counter s = n s
      | WC => counter s = n s /\ bwl s = []
      | WR => counter s = 0 /\ bwl s = [] /\ cur s = []
      | _ => bwl s = cur s /\ counter s < n s
      end
  end.

Record Inv (s : st) : Prop := {
  i_n1   : 1 <= n s;
  i_le   : counter s <= n s;
  i_lock : forall x, inl (pc s x) = oeq (lock s) x;
  i_wl   : forall x, inb x (bwl s) = queued (pc s x);
  i_nd   : NoDup (bwl s);
  i_len  : length (cur s) = counter s;
  i_ndc  : NoDup (cur s);
  i_ri   : forall x, is_ri (pc s x) = true -> 1 <= arg s x;
  (* callers counted in the round being collected *)
  i_bc   : forall x, blocked (pc s x) = true -> inb x (cur s) = true;
  i_cb   : forall x, inb x (cur s) = true -> counter s < n s -> blocked (pc s x) = true;
  i_ent  : forall x, inb x (cur s) = true ->
             (counter s < n s -> entered s x = round s) /\ (counter s = n s -> S (entered s x) = round s);
  (* no early release *)
  i_rel  : forall x, released (pc s x) = true -> entered s x < round s;
  i_lh   : LH s
}.

Lemma inv_init n0 : 1 <= n0 -> Inv (init n0).
Proof.
  intros H. constructor; cbn; auto; try discriminate; try lia; try constructor; auto.
Qed.

(* ---- tactics ---- *)
Ltac rw_pcs :=
  repeat match goal with
  | E : pc ?S ?a = _, F : context [pc ?S ?a] |- _ =>
      lazymatch type of F with pc S a = _ => fail | _ => rewrite E in F end
  | E : pc ?S ?a = _ |- context [pc ?S ?a] => rewrite E
  end.
Ltac rw_eqs :=
  repeat match goal with
  | E : lock ?S = _, F : context [lock ?S] |- _ =>
      lazymatch type of F with lock S = _ => fail | _ => rewrite E in F end
  | E : lock ?S = _ |- context [lock ?S] => rewrite E
  | E : bwl ?S = _, F : context [bwl ?S] |- _ =>
      lazymatch type of F with bwl S = _ => fail | _ => rewrite E in F end
  | E : bwl ?S = _ |- context [bwl ?S] => rewrite E
  end.
Ltac bools :=
  repeat match goal with
  | H : _ && _ = true |- _ => apply andb_true_iff in H; destruct H
  | H : Nat.eqb _ _ = true |- _ => apply Nat.eqb_eq in H
  | H : Nat.eqb _ _ = false |- _ => apply Nat.eqb_neq in H
  | H : Nat.ltb _ _ = true |- _ => apply Nat.ltb_lt in H
  | H : Nat.ltb _ _ = false |- _ => apply Nat.ltb_ge in H
  | H : is_nil _ = true |- _ => apply is_nil_true in H
  | H : is_none _ = true |- _ => apply is_none_true in H
  | H : oeq _ _ = true |- _ => apply oeq_true in H
  | H : Bool.eqb _ _ = true |- _ => apply eqb_prop in H
  | H : Z.eqb _ _ = true |- _ => apply Z.eqb_eq in H
  | H : _ || _ = false |- _ => apply orb_false_iff in H; destruct H
  end.
(* split on x = t for every update in sight *)
Ltac split_upd :=
  repeat match goal with
  | |- context [upd _ ?t _ ?x] =>
      destruct (Nat.eq_dec x t);
      [ subst; rewrite ?upd_same in * | rewrite ?(upd_other _ t _ x) in * by assumption ]
  | H : context [upd _ ?t _ ?x] |- _ =>
      destruct (Nat.eq_dec x t);
      [ subst; rewrite ?upd_same in * | rewrite ?(upd_other _ t _ x) in * by assumption ]
  end.
Ltac neq_eqb :=
  repeat match goal with
  | H : ?x <> ?t |- _ =>
      match goal with
      | |- context [Nat.eqb x t] => rewrite (proj2 (Nat.eqb_neq x t) H)
      | F : context [Nat.eqb x t] |- _ => rewrite (proj2 (Nat.eqb_neq x t) H) in F
      | |- context [Nat.eqb t x] => rewrite (proj2 (Nat.eqb_neq t x) (not_eq_sym H))
      | F : context [Nat.eqb t x] |- _ => rewrite (proj2 (Nat.eqb_neq t x) (not_eq_sym H)) in F
      end
  end.

Inductive fact_done (a : nat) : Prop := FD0.

Ltac facts_at Il Iw Iri Ibc Icb Ient Irel a :=
  pose proof (Il a); pose proof (Iw a); pose proof (Iri a); pose proof (Ibc a);
  pose proof (Icb a); pose proof (Ient a); pose proof (Irel a).

Ltac cbn_fields :=
  cbn [Barrier.lock Barrier.n Barrier.counter Barrier.bwl Barrier.pc Barrier.isU Barrier.arg Barrier.ret
       Barrier.round Barrier.entered Barrier.cur set_pc set_lock_pc finish] in *.
Ltac cbn_preds := cbn [inl queued blocked released isb is_ri oeq orb andb] in *; rewrite ?inb_nil in *.
Ltac sym_bools :=
  repeat match goal with
  | H : ?a = ?a |- _ => clear H
  | H : true = false |- _ => discriminate H
  | H : false = true |- _ => discriminate H
  | H : true = _ |- _ => symmetry in H
  | H : false = _ |- _ => symmetry in H
  end.

Ltac simp_all :=
  cbn_fields;
  split_upd; rw_pcs; rw_eqs;
  rewrite ?inb_app, ?inb_cons in *; cbn_preds; neq_eqb; rewrite ?Nat.eqb_refl in *;
  rewrite ?orb_true_r, ?orb_false_r in *;
  cbn_preds; sym_bools; bools.

Ltac fin := try solve [ assumption | reflexivity | discriminate | congruence | lia
                      | intuition (try congruence; try lia) ].

Ltac lh :=
  unfold LH in *; cbn_fields; rw_eqs;
  try match goal with |- context [match Barrier.lock ?s with _ => _ end] => destruct (Barrier.lock s) eqn:? end;
  simp_all; cbv beta iota in *; fin.

Lemma step_inv s e s' : Inv s -> step s e = Some s' -> Inv s'.
Proof.
  intros I H.
  destruct e as [t o|t r|t| |t fld v|t ult|u x|u]; cbn [step] in H.
  all: repeat match type of H with
  | context [match ?X with _ => _ end] => destruct X eqn:?
  end; try discriminate.
  all: inversion H; subst s'; clear H.
  all: destruct I as [In1 Ile Il Iw Ind Ilen Indc Iri Ibc Icb Ient Irel Ilh].
  all: bools.
  (* facts about every thread whose pc is known *)
  all: repeat match goal with
  | E : pc _ ?a = ?p |- _ =>
      lazymatch goal with
      | _ : fact_done a |- _ => fail
      | _ => facts_at Il Iw Iri Ibc Icb Ient Irel a; assert (fact_done a) by exact (FD0 a)
      end
  end.
  all: rw_pcs; cbn_preds; sym_bools; bools.
  all: unfold LH in Ilh; rw_eqs; rw_pcs; cbv beta iota in Ilh.
  all: try match goal with Ind : NoDup (_ :: _) |- _ =>
         apply NoDup_cons_iff in Ind; destruct Ind as [Hni Ind]; apply inb_false in Hni end.
  all: repeat match goal with H : _ /\ _ |- _ => destruct H end.
  all: subst.
  all: constructor; cbn_fields.
  all: try assumption.
  all: try lia.
  all: try solve [ (let x := fresh "x" in intros x;
                   facts_at Il Iw Iri Ibc Icb Ient Irel x; simp_all; fin) ].
  all: try solve [ lh ].
  all: try solve [ rewrite app_length; cbn; lia ].
  all: try solve [ apply NoDup_snoc; [assumption|]; apply inb_false;
                   match goal with |- inb ?t ?l = false => destruct (inb t l) eqn:?; [exfalso|reflexivity] end; fin ].
  all: try solve [ (let x := fresh "x" in intros x;
                   facts_at Il Iw Iri Ibc Icb Ient Irel x; simp_all;
                   try match goal with |- context [pc ?s x] => destruct (pc s x) eqn:? end; cbn_preds; sym_bools; fin) ].
Qed.

(* ---- every reachable state, any num_waiters >= 1, any number of callers, any interleaving ---- *)
Lemma inv_run tr : forall s0 s, Inv s0 -> run s0 tr = Some s -> Inv s.
Proof.
  induction tr as [|e r IH]; cbn; intros s0 s I H.
  - inversion H; subst; exact I.
  - destruct (step s0 e) eqn:E; try discriminate. eapply IH; [eapply step_inv; eauto|exact H].
Qed.

Theorem inv_reachable n0 tr s : 1 <= n0 -> run (init n0) tr = Some s -> Inv s.
Proof. intros Hn. apply inv_run, inv_init, Hn. Qed.

(* --- no early release --- *)
Corollary no_early_release n0 tr s t : 1 <= n0 -> run (init n0) tr = Some s ->
  released (pc s t) = true -> entered s t < round s.
Proof. intros Hn H. apply (i_rel _ (inv_reachable _ _ _ Hn H)). Qed.

(* a wait returns (harness END record) only from a released pc *)
Theorem wait_returns_released s t r s' : step s (EEnd t r) = Some s' ->
  pc s t = Done \/ released (pc s t) = true.
Proof.
  cbn [step]. destruct (pc s t); try discriminate; auto.
Qed.

Corollary return_after_nth_arrival n0 tr s t r s' : 1 <= n0 -> run (init n0) tr = Some s ->
  step s (EEnd t r) = Some s' -> pc s t <> Done -> entered s t < round s.
Proof.
  intros Hn H Hs Hd. destruct (wait_returns_released _ _ _ _ Hs) as [E|E]; [contradiction|].
  eapply no_early_release; eauto.
Qed.

Corollary woken_after_nth_arrival n0 tr s u x s' : 1 <= n0 -> run (init n0) tr = Some s ->
  step s (EWake u x) = Some s' -> entered s x < round s /\ released (pc s' x) = true /\ pc s u <> pc s x.
Proof.
  intros Hn H Hs.
  assert (I' : Inv s') by (eapply step_inv; [eapply inv_reachable; eauto|eauto]).
  assert (R : released (pc s' x) = true /\ entered s' x = entered s x /\ round s' = round s /\ pc s u <> pc s x).
  { cbn [step] in Hs. destruct (bwl s) as [|y rest]; [discriminate|].
    destruct (oeq (lock s) u && Nat.eqb x y); [|discriminate].
    destruct (pc s u) eqn:Eu; try discriminate; destruct (pc s x) eqn:Ex; try discriminate;
    inversion Hs; subst s'; cbn;
    (assert (x <> u) by (intros ->; congruence));
    rewrite (upd_other _ u _ x) by assumption; rewrite upd_same; repeat split; congruence. }
  destruct R as (R1 & R2 & R3 & R4). pose proof (i_rel _ I' x R1). repeat split; auto. lia.
Qed.

(* the round number changes only at the n-th arrival: the counter++ that makes counter = num_waiters,
   performed under the lock by the n-th of n distinct callers that all entered this round *)
Theorem round_changes_only_at_nth_arrival s e s' : Inv s -> step s e = Some s' ->
  round s' = round s \/
  (exists t, e = EData t 1 (Barrier.n s) /\ pc s t = W1 /\ lock s = Some t /\ S (counter s) = Barrier.n s /\
             round s' = S (round s) /\ counter s' = Barrier.n s /\ Barrier.n s' = Barrier.n s /\
             length (cur s') = Barrier.n s /\ NoDup (cur s') /\ In t (cur s') /\
             forall x, In x (cur s') -> entered s' x = round s).
Proof.
  intros I H. pose proof (step_inv _ _ _ I H) as I'.
  destruct e as [t o|t r|t| |t fld v|t ult|u x|u]; cbn [step] in H.
  all: repeat match type of H with
  | context [match ?X with _ => _ end] => destruct X eqn:?
  end; try discriminate.
  all: inversion H; subst s'; clear H; cbn [round set_pc set_lock_pc finish]; auto.
  right. exists t. bools. subst v.
  pose proof (i_lock _ I t) as Hl. rewrite Heqp in Hl. cbn in Hl. symmetry in Hl. apply oeq_true in Hl.
  pose proof (i_lh _ I) as Hlh. unfold LH in Hlh. rewrite Hl, Heqp in Hlh. destruct Hlh as [Hb Hc].
  assert (Hn : S (counter s) = Barrier.n s) by lia.
  pose proof (i_len _ I') as L. pose proof (i_ndc _ I') as D. pose proof (i_ent _ I') as En.
  cbn [Barrier.n Barrier.counter Barrier.cur Barrier.entered Barrier.round] in *.
  repeat split; auto; try congruence.
  - apply in_or_app. right. left. reflexivity.
  - intros x Hx. apply inb_In in Hx. destruct (En x Hx) as [_ A]. specialize (A Hn). congruence.
Qed.

(* --- all released --- *)
(* the reset performed by the last arrival after its broadcast: nobody is blocked any more, the wait list
   is empty and the counter is 0; the round that is being closed had exactly num_waiters distinct callers *)
Theorem reset_leaves_nobody_blocked n0 tr s u s' : 1 <= n0 -> run (init n0) tr = Some s ->
  step s (EData u 1 0) = Some s' ->
  counter s' = 0 /\ bwl s' = [] /\ cur s' = [] /\ (forall x, blocked (pc s' x) = false) /\
  length (cur s) = Barrier.n s /\ NoDup (cur s) /\
  (forall x, In x (cur s) -> blocked (pc s x) = false /\ S (entered s x) = round s).
Proof.
  intros Hn H Hs. pose proof (inv_reachable _ _ _ Hn H) as I.
  pose proof (step_inv _ _ _ I Hs) as I'.
  assert (E : counter s' = 0 /\ cur s' = [] /\ lock s = Some u /\ isb (pc s u) = true /\
              (forall x, x <> u -> pc s' x = pc s x) /\ bwl s' = bwl s).
  { cbn [step] in Hs. destruct (pc s u) eqn:Eu; try discriminate.
    - cbn [Nat.eqb andb] in Hs. destruct (is_nil (bwl s)); [|discriminate]. inversion Hs; subst s'; cbn.
      pose proof (i_lock _ I u) as Hl. rewrite Eu in Hl. symmetry in Hl. apply oeq_true in Hl.
      repeat split; auto. intros x Hx. apply upd_other; auto.
    - cbn [Nat.eqb] in Hs. inversion Hs; subst s'; cbn.
      pose proof (i_lock _ I u) as Hl. rewrite Eu in Hl. symmetry in Hl. apply oeq_true in Hl.
      repeat split; auto. intros x Hx. apply upd_other; auto. }
  destruct E as (E1 & E2 & E3 & E4 & E5 & E6).
  assert (B : forall x, blocked (pc s' x) = false).
  { intros x. destruct (blocked (pc s' x)) eqn:Eb; auto.
    pose proof (i_bc _ I' x Eb) as C. rewrite E2 in C. discriminate. }
  pose proof (i_lh _ I) as Hlh. unfold LH in Hlh. rewrite E3 in Hlh.
  assert (Hc : counter s = Barrier.n s) by (destruct (pc s u); try discriminate; tauto).
  pose proof (i_lh _ I') as Hlh'. unfold LH in Hlh'.
  assert (Hb : bwl s' = []).
  { pose proof (i_len _ I') as L. pose proof (i_wl _ I') as W.
    destruct (bwl s') as [|y r] eqn:Ey; auto. exfalso.
    specialize (W y). rewrite inb_cons, Nat.eqb_refl in W. cbn in W. specialize (B y).
    destruct (pc s' y); discriminate. }
  repeat split; auto.
  - rewrite (i_len _ I). exact Hc.
  - exact (i_ndc _ I).
  - destruct (Nat.eq_dec x u) as [->|Hne].
    + destruct (pc s u); try discriminate; reflexivity.
    + rewrite <- (E5 x Hne). apply B.
  - apply inb_In in H0. apply (i_ent _ I x H0). exact Hc.
Qed.

(* the broadcast cannot get stuck and cannot stop early: while the list is non-empty its head can be woken,
   and the broadcast-end record is possible only on the empty list *)
Theorem broadcast_reaches_everybody n0 tr s u y rest : 1 <= n0 -> run (init n0) tr = Some s ->
  lock s = Some u -> (pc s u = WB0 \/ pc s u = WB1) -> bwl s = y :: rest ->
  step s (EWake u y) <> None /\ step s (EBcast u) = None.
Proof.
  intros Hn H Hl Hp Hb. pose proof (inv_reachable _ _ _ Hn H) as I.
  pose proof (i_wl _ I y) as W. rewrite Hb, inb_cons, Nat.eqb_refl in W. cbn in W.
  pose proof (i_lock _ I y) as L. rewrite Hl in L. cbn in L.
  assert (Hne : u <> y) by (intros ->; destruct Hp as [E|E]; rewrite E in W; discriminate).
  apply Nat.eqb_neq in Hne. rewrite Hne in L.
  cbn [step]. rewrite Hb, Hl. cbn [oeq is_nil]. rewrite !Nat.eqb_refl. cbn [andb].
  split; [|reflexivity].
  destruct Hp as [E|E]; rewrite E; destruct (pc s y); discriminate.
Qed.

(* --- rounds disjoint --- *)
Corollary lock_free_state n0 tr s : 1 <= n0 -> run (init n0) tr = Some s -> lock s = None ->
  bwl s = cur s /\ length (bwl s) = counter s /\ counter s < Barrier.n s /\
  (forall x, blocked (pc s x) = true -> In x (bwl s) /\ entered s x = round s) /\
  (forall x, In x (bwl s) -> blocked (pc s x) = true).
Proof.
  intros Hn H Hl. pose proof (inv_reachable _ _ _ Hn H) as I.
  pose proof (i_lh _ I) as Hlh. unfold LH in Hlh. rewrite Hl in Hlh. destruct Hlh as [Hb Hc].
  repeat split; auto.
  - rewrite Hb. apply (i_len _ I).
  - rewrite Hb. apply inb_In. apply (i_bc _ I x H0).
  - apply (i_ent _ I x (i_bc _ I x H0)). exact Hc.
  - intros x Hx. rewrite Hb in Hx. apply inb_In in Hx. apply (i_cb _ I x Hx Hc).
Qed.

(* an arrival is counted in the round that is current at its counter++; every caller that has already
   been released belongs to a strictly earlier round: a fast caller that re-enters the barrier while
   slower callers of round k are still returning is counted in round k+1 only *)
Theorem arrival_counted_in_current_round n0 tr s t v s' : 1 <= n0 -> run (init n0) tr = Some s ->
  pc s t = W1 -> step s (EData t 1 v) = Some s' ->
  v = S (counter s) /\ counter s < Barrier.n s /\ entered s' t = round s /\
  (forall x, released (pc s x) = true -> entered s x < entered s' t) /\
  (forall x, blocked (pc s x) = true -> entered s x = entered s' t).
Proof.
  intros Hn H Hp Hs. pose proof (inv_reachable _ _ _ Hn H) as I.
  pose proof (i_lock _ I t) as Hl. rewrite Hp in Hl. symmetry in Hl. apply oeq_true in Hl.
  pose proof (i_lh _ I) as Hlh. unfold LH in Hlh. rewrite Hl, Hp in Hlh. destruct Hlh as [Hb Hc].
  cbn [step] in Hs. rewrite Hp in Hs.
  destruct (Nat.eqb v (S (counter s))) eqn:Ev; [|discriminate]. apply Nat.eqb_eq in Ev.
  assert (E : entered s' t = round s)
    by (destruct (Nat.ltb v (Barrier.n s)); inversion Hs; subst s'; cbn; apply upd_same).
  repeat split; auto.
  - intros x Hx. rewrite E. apply (i_rel _ I x Hx).
  - intros x Hx. rewrite E. apply (i_ent _ I x (i_bc _ I x Hx)). exact Hc.
Qed.

(* the ABTI_ASSERT(counter < num_waiters) of ABT_barrier_wait never fails *)
Corollary counter_assert_holds n0 tr s t : 1 <= n0 -> run (init n0) tr = Some s ->
  pc s t = W1 -> counter s < Barrier.n s.
Proof.
  intros Hn H Hp. pose proof (inv_reachable _ _ _ Hn H) as I.
  pose proof (i_lock _ I t) as Hl. rewrite Hp in Hl. symmetry in Hl. apply oeq_true in Hl.
  pose proof (i_lh _ I) as Hlh. unfold LH in Hlh. rewrite Hl, Hp in Hlh. tauto.
Qed.

(* mutual exclusion on p_barrier->lock (the critical sections are really atomic) *)
Corollary lock_exclusive n0 tr s t1 t2 : 1 <= n0 -> run (init n0) tr = Some s ->
  inl (pc s t1) = true -> inl (pc s t2) = true -> t1 = t2.
Proof.
  intros Hn H H1 H2. pose proof (inv_reachable _ _ _ Hn H) as I.
  rewrite (i_lock _ I) in H1, H2. apply oeq_true in H1, H2. congruence.
Qed.

(* a tasklet caller gets ABT_ERR_BARRIER and leaves the barrier untouched *)
Theorem tasklet_wait_is_error s t s' : step s (EBegin t (OWait KT)) = Some s' ->
  ret s' t = ERR_BARRIER /\ pc s' t = Done /\
  lock s' = lock s /\ Barrier.n s' = Barrier.n s /\ counter s' = counter s /\ bwl s' = bwl s /\ round s' = round s /\ cur s' = cur s.
Proof.
  cbn [step]. destruct (pc s t); try discriminate. intros H; inversion H; subst s'; cbn.
  rewrite !upd_same. repeat split; reflexivity.
Qed.

(* reinit: only when no round is in progress; changes num_waiters only *)
Theorem reinit_store s t v s' : step s (EData t 2 v) = Some s' ->
  lock s = None /\ counter s = 0 /\ v = arg s t /\ Barrier.n s' = v /\
  lock s' = lock s /\ counter s' = 0 /\ bwl s' = bwl s /\ round s' = round s /\ cur s' = cur s.
Proof.
  cbn [step]. destruct (pc s t); try discriminate.
  destruct (Nat.eqb v (arg s t) && is_none (lock s) && Nat.eqb (counter s) 0) eqn:E; [|discriminate].
  bools. intros H'; inversion H'; subst s'; cbn. repeat split; auto.
Qed.
