(* Scheduler LTS (Conc/Sched.v): soundness of the stop decision of a stream's main scheduler
   (ABTI_sched_has_to_stop / ABTI_sched_has_unit, src/sched/sched.c) for a pool that only this
   scheduler consumes.

   The scheduler reads, per pool, the queue's emptiness flag and then num_blocked, and it does so
   twice.  What makes the decision sound is the pair "num_blocked = 0 (first evaluation), THEN
   queue empty (second evaluation)": from a state in which the counter is zero and no executor
   holds a unit of the pool, nothing can come back into the pool (a push needs a counted unit or a
   unit in somebody's hands), so an empty queue observed later means that every unit of the pool
   has terminated, and this stays so until work arrives from outside (creation, revive, migration
   into the pool, a pop by somebody else).  The opposite order (empty, then zero) - a single
   evaluation - is unsound: [single_evaluation_unsound]. *)
From Coq Require Import List Arith ZArith Lia Bool.
From ABT Require Import Common.ListAux Conc.Sched Conc.SchedDefs Conc.SchedPlace Conc.SchedCount.
Import ListNotations.

(* states in which a unit is at rest: nobody is executing it or acting on its behalf, and it is
   not waiting to be resumed *)
Definition rest (x : ustate) : bool :=
  match x with UNone | UQueued | UTerm | UFreed => true | _ => false end.

(* a unit some executor holds (it will be pushed, blocked or terminated by that executor): every
   state that is neither at rest nor counted in num_blocked *)
Definition in_hands (x : ustate) : bool := negb (rest x) && negb (must_count x).

Definition quiet (p : nat) (s : st) : Prop := forall u, upool (un s u) = p -> rest (ust (un s u)) = true.
Definition no_hands (p : nat) (s : st) : Prop := forall u, upool (un s u) = p -> in_hands (ust (un s u)) = false.
Definition all_done (p : nat) (s : st) : Prop :=
  forall u, upool (un s u) = p -> ust (un s u) = UNone \/ ust (un s u) = UTerm \/ ust (un s u) = UFreed.

(* events that bring work to pool p from outside, or take a unit out of its queue *)
Definition calm (p : nat) (e : ev) : bool :=
  match e with
  | EAdopt _ p' _ | EInit _ p' _ _ | ERevive _ p' | ESetPool _ p' => negb (Nat.eqb p' p)
  | EPop p' (Some _) _ | ERemove p' _ => negb (Nat.eqb p' p)
  | _ => true
  end.

Lemma quiet_of_zero p s : reachable s -> nb (po s p) = 0%Z -> no_hands p s -> quiet p s.
Proof.
  intros R Hz Hh u Hu.
  pose proof (SchedCount.C06_zero_means_none_blocked s p R Hz u Hu) as Hm.
  specialize (Hh u Hu). unfold in_hands in Hh. rewrite Hm in Hh. cbn in Hh.
  destruct (rest (ust (un s u))); [reflexivity|discriminate].
Qed.

Lemma zero_no_entry s p u : InvCount s -> nb (po s p) = 0%Z -> count_occ Nat.eq_dec (cnt (un s u)) p = 0.
Proof.
  intros I Hz. rewrite <- (ic_cnt s I). rewrite (ic_nb s I) in Hz.
  destruct (cu (po s p)) as [|a l]; [reflexivity|cbn in Hz; lia].
Qed.

Ltac stop_case H :=
  cbn [step] in H;
  repeat match type of H with
         | context [match ?X with _ => _ end] => destruct X eqn:?
         end; try discriminate.

Ltac not_rest Q :=
  match goal with
  | E : ust (un ?s ?u) = ?x, P : upool (un ?s ?u) = ?p |- _ =>
      let T := fresh in pose proof (Q u P) as T; rewrite E in T; cbn in T; discriminate T
  end.

Lemma quiet_step p s e s' :
  InvPlace s -> InvCount s -> quiet p s -> nb (po s p) = 0%Z -> calm p e = true -> step s e = Some s' ->
  quiet p s' /\ q (po s' p) = q (po s p) /\ nb (po s' p) = 0%Z.
Proof.
  intros IP I Q Hz Hc H.
  destruct e as [u p' ult|u p' ult nmd|u p'|u p'|p' u tail|p' ou tail|p' u|u site j c m|u bit exiter j c m who|u bit
                |u v|a u site v|tgt j ext|u l|u k other|u j|p' inc old u handoff|u|u|u|u p'|u p'|u|a u|p' v|p' v].
  all: stop_case H; inversion H; subst s'; clear H; bool_hyps; subst.
  all: try (split; [exact Q|split; [reflexivity|exact Hz]]).
  (* the acting unit belongs to p and is not at rest: impossible; otherwise only that unit / another pool changes *)
  all: try (cbn [calm] in Hc; bool_hyps).
  all: split; [| split].
  all: try solve [ proj_cbn; unfold upd;
                   repeat match goal with |- context [Nat.eqb ?a ?b] => destruct (Nat.eqb_spec a b); subst end;
                   proj_cbn; first [reflexivity | assumption | congruence] ].
  all: try solve [ let x := fresh "x" in let Hx := fresh "Hx" in
                   intros x Hx; revert Hx; proj_cbn; unfold upd;
                   match goal with
                   | |- context [Nat.eqb x ?uu] =>
                       destruct (Nat.eqb_spec x uu); [subst x|]; proj_cbn;
                       [ intros Hx;
                         first [ reflexivity
                               | congruence
                               | exfalso; congruence
                               | specialize (Q uu Hx);
                                 repeat match goal with E : ust (un _ uu) = _ |- _ => rewrite E in Q end;
                                 first [exact Q | cbn in Q; discriminate Q] ]
                       | intros Hx; exact (Q x Hx) ]
                   end ].
  (* EPush (tail / head): the pushed unit is not at rest, so it is not a unit of p *)
  1: { proj_cbn; unfold upd; destruct (Nat.eqb_spec p (upool (un s u))) as [E|E]; [exfalso|reflexivity];
       specialize (Q u (eq_sym E)); destruct (ust (un s u)); cbn in Q; try discriminate Q; discriminate. }
  1: { proj_cbn; unfold upd; destruct (Nat.eqb_spec p (upool (un s u))) as [E|E]; [exfalso|reflexivity];
       specialize (Q u (eq_sym E)); destruct (ust (un s u)); cbn in Q; try discriminate Q; discriminate. }
  (* EPop / ERemove on another pool: the unit taken out is a unit of that pool *)
  1: { match goal with |- quiet _ (mkS (upd _ ?n _) _ _) =>
         assert (Hn : upool (un s n) <> p);
         [ assert (Hin : inb n (q (po s p')) = true);
           [ first [ assumption
                   | match goal with E : q (po s p') = n :: _ |- _ => rewrite E; cbn [inb existsb]; rewrite Nat.eqb_refl; reflexivity end
                   | apply inb_In; eapply last_in; [eassumption|lia] ]
           | rewrite (ip_place s IP) in Hin; apply andb_true_iff in Hin; destruct Hin as [_ Hin];
             apply Nat.eqb_eq in Hin; congruence ]
         | intros x Hx; revert Hx; proj_cbn; unfold upd; destruct (Nat.eqb_spec x n); [subst x|]; proj_cbn;
           [ intros Hx; exfalso; exact (Hn Hx) | intros Hx; exact (Q x Hx) ] ]
       end. }
  1: { match goal with |- quiet _ (mkS (upd _ ?n _) _ _) =>
         assert (Hn : upool (un s n) <> p);
         [ assert (Hin : inb n (q (po s p')) = true);
           [ first [ assumption
                   | match goal with E : q (po s p') = n :: _ |- _ => rewrite E; cbn [inb existsb]; rewrite Nat.eqb_refl; reflexivity end
                   | apply inb_In; eapply last_in; [eassumption|lia] ]
           | rewrite (ip_place s IP) in Hin; apply andb_true_iff in Hin; destruct Hin as [_ Hin];
             apply Nat.eqb_eq in Hin; congruence ]
         | intros x Hx; revert Hx; proj_cbn; unfold upd; destruct (Nat.eqb_spec x n); [subst x|]; proj_cbn;
           [ intros Hx; exfalso; exact (Hn Hx) | intros Hx; exact (Q x Hx) ] ]
       end. }
  1: { match goal with |- quiet _ (mkS (upd _ ?n _) _ _) =>
         assert (Hn : upool (un s n) <> p);
         [ assert (Hin : inb n (q (po s p')) = true);
           [ first [ assumption
                   | match goal with E : q (po s p') = n :: _ |- _ => rewrite E; cbn [inb existsb]; rewrite Nat.eqb_refl; reflexivity end
                   | apply inb_In; eapply last_in; [eassumption|lia] ]
           | rewrite (ip_place s IP) in Hin; apply andb_true_iff in Hin; destruct Hin as [_ Hin];
             apply Nat.eqb_eq in Hin; congruence ]
         | intros x Hx; revert Hx; proj_cbn; unfold upd; destruct (Nat.eqb_spec x n); [subst x|]; proj_cbn;
           [ intros Hx; exfalso; exact (Hn Hx) | intros Hx; exact (Q x Hx) ] ]
       end. }
  (* same-pool resume_suspend_to: the caller is in a callback, hence not a unit of p *)
  1: { intros x Hx; revert Hx; proj_cbn; unfold upd.
       destruct (Nat.eqb_spec x u); [subst x|]; proj_cbn.
       - intros Hx. exfalso. specialize (Q u Hx).
         match goal with E : ust (un s u) = _ |- _ => rewrite E in Q end. discriminate Q.
       - destruct (Nat.eqb_spec x n0); [subst x|]; proj_cbn; intros Hx; exact (Q _ Hx). }
  (* increments: made by / for a unit that is running or in a callback *)
  1: { proj_cbn; unfold upd. destruct (Nat.eqb_spec p (upool (un s u))) as [E|E]; [exfalso|exact Hz].
       specialize (Q u (eq_sym E)). match goal with E : ust (un s u) = _ |- _ => rewrite E in Q end. discriminate Q. }
  1: { proj_cbn; unfold upd. destruct (Nat.eqb_spec p (upool (un s u))) as [E|E]; [exfalso|exact Hz].
       specialize (Q u (eq_sym E)). match goal with E : ust (un s u) = _ |- _ => rewrite E in Q end. discriminate Q. }
  (* decrements need an entry of the pool in the unit's count list: none when num_blocked = 0 *)
  1: { intros x Hx; revert Hx; proj_cbn; unfold upd.
       destruct (Nat.eqb_spec x u); [subst x|]; proj_cbn; intros Hx; [|exact (Q _ Hx)].
       exfalso. specialize (Q u Hx). destruct (ust (un s u)); cbn in Q; try discriminate Q; discriminate. }
  1: { proj_cbn; unfold upd. destruct (Nat.eqb_spec p p') as [E|E]; [exfalso|exact Hz]. subst p'.
       pose proof (zero_no_entry s p u I Hz).
       destruct (ust (un s u)); try discriminate; bool_hyps; lia. }
  1: { proj_cbn; unfold upd. destruct (Nat.eqb_spec p p') as [E|E]; [exfalso|exact Hz]. subst p'.
       pose proof (zero_no_entry s p u I Hz).
       repeat match goal with H : (if ?b then _ else _) = true |- _ => destruct b end; bool_hyps; lia. }
Qed.

(* ------------------------------------------------------------------ runs *)
Lemma quiet_run p : forall tr s s',
  reachable s -> quiet p s -> nb (po s p) = 0%Z -> forallb (calm p) tr = true -> run s tr = Some s' ->
  reachable s' /\ quiet p s' /\ q (po s' p) = q (po s p) /\ nb (po s' p) = 0%Z.
Proof.
  induction tr as [|e tr IH]; intros s s' R Q Hz Hc Hr.
  - cbn in Hr. inversion Hr; subst. auto.
  - cbn [run] in Hr. destruct (step s e) as [s1|] eqn:E; [|discriminate].
    cbn [forallb] in Hc. apply andb_true_iff in Hc. destruct Hc as [Hc1 Hc2].
    destruct (quiet_step p s e s1 (SchedPlace.inv_reachable s R) (SchedCount.inv_reachable s R) Q Hz Hc1 E)
      as (Q1 & Hq1 & Hz1).
    destruct (IH s1 s' (reachable_step s e s1 R E) Q1 Hz1 Hc2 Hr) as (R' & Q' & Hq' & Hz').
    repeat split; auto. congruence.
Qed.

Lemma quiet_empty_done p s : reachable s -> quiet p s -> q (po s p) = [] -> all_done p s.
Proof.
  intros R Q He u Hu. specialize (Q u Hu).
  destruct (ust (un s u)) eqn:E; cbn in Q; try discriminate Q; auto.
  exfalso. destruct (SchedPlace.C01_never_lost_queued s u R E) as [Hin _]. rewrite Hu, He in Hin. exact Hin.
Qed.

(* The stop decision is sound.  s0: the state in which the scheduler read num_blocked(p) = 0; s1: the
   later state in which it read "queue of p empty"; in between (and afterwards) no work arrives in
   p from outside and nobody else pops p; at s0 no executor holds a unit of p.  Then at s1 every unit
   associated with p has terminated (or was never created), and this remains so, with an empty queue
   and a zero counter, for as long as nothing arrives. *)
Theorem C06_stop_sound p s0 tr s1 :
  reachable s0 -> nb (po s0 p) = 0%Z -> no_hands p s0 ->
  forallb (calm p) tr = true -> run s0 tr = Some s1 -> q (po s1 p) = [] ->
  all_done p s1 /\ nb (po s1 p) = 0%Z /\
  forall tr' s2, forallb (calm p) tr' = true -> run s1 tr' = Some s2 ->
                 all_done p s2 /\ q (po s2 p) = [] /\ nb (po s2 p) = 0%Z.
Proof.
  intros R Hz Hh Hc Hr He.
  pose proof (quiet_of_zero p s0 R Hz Hh) as Q0.
  destruct (quiet_run p tr s0 s1 R Q0 Hz Hc Hr) as (R1 & Q1 & _ & Hz1).
  split; [apply quiet_empty_done; auto|]. split; [exact Hz1|].
  intros tr' s2 Hc' Hr'.
  destruct (quiet_run p tr' s1 s2 R1 Q1 Hz1 Hc' Hr') as (R2 & Q2 & Hq2 & Hz2).
  rewrite He in Hq2. split; [apply quiet_empty_done; auto|]. auto.
Qed.

(* the same with the two reads as events of the run: ... ENbLoad p 0 ... EEmptyLoad p true ... *)
Theorem C06_stop_sound_events p s tr1 tr2 s2 :
  reachable s -> no_hands p s ->
  forallb (calm p) (tr1 ++ [EEmptyLoad p true] ++ tr2) = true ->
  run s (ENbLoad p 0 :: tr1 ++ [EEmptyLoad p true] ++ tr2) = Some s2 ->
  all_done p s2 /\ q (po s2 p) = [] /\ nb (po s2 p) = 0%Z.
Proof.
  intros R Hh Hc Hr.
  cbn [run step] in Hr. destruct (Z.eqb 0 (nb (po s p))) eqn:E0; [|discriminate]. apply Z.eqb_eq in E0.
  rewrite run_app in Hr. destruct (run s tr1) as [sa|] eqn:Ea; [|discriminate].
  rewrite run_app in Hr. cbn [run step] in Hr.
  destruct (Bool.eqb true match q (po sa p) with [] => true | _ => false end) eqn:Eb; [|discriminate].
  assert (He : q (po sa p) = []). { destruct (q (po sa p)); [reflexivity|discriminate]. }
  rewrite !forallb_app in Hc. apply andb_true_iff in Hc. destruct Hc as [Hc1 Hc2].
  apply andb_true_iff in Hc2. destruct Hc2 as [_ Hc2].
  destruct (C06_stop_sound p s tr1 sa R (eq_sym E0) Hh Hc1 Ea He) as (_ & _ & Hpers).
  exact (Hpers tr2 s2 Hc2 Hr).
Qed.

(* ------------------------------------------------------------------ the observation pattern *)
(* what one scheduler saw since it last handled a unit *)
Inductive sobs := SEmpty (p : nat) (v : bool) | SNb (p : nat) (v : Z).

(* "num_blocked(p) = 0 was read, and later the queue of p was read empty" *)
Fixpoint zero_then_empty (p : nat) (zero : bool) (obs : list sobs) : bool :=
  match obs with
  | [] => false
  | SNb p' v :: r => zero_then_empty p (zero || (Nat.eqb p' p && Z.eqb v 0)) r
  | SEmpty p' v :: r => (zero && Nat.eqb p' p && v) || zero_then_empty p zero r
  end.

Lemma zero_then_empty_split p : forall obs zero, zero_then_empty p zero obs = true ->
  (zero = true /\ exists a b, obs = a ++ SEmpty p true :: b) \/
  (exists a b c, obs = a ++ SNb p 0 :: b ++ SEmpty p true :: c).
Proof.
  induction obs as [|o r IH]; intros zero H; [discriminate|].
  destruct o as [p' v|p' v]; cbn [zero_then_empty] in H.
  - apply orb_true_iff in H. destruct H as [H|H].
    + apply andb_true_iff in H. destruct H as [H Hv]. apply andb_true_iff in H. destruct H as [Hz Hp].
      apply Nat.eqb_eq in Hp. subst. left. split; [reflexivity|]. exists [], r. reflexivity.
    + destruct (IH _ H) as [[Hz (a & b & ->)]|(a & b & c & ->)].
      * left. split; [exact Hz|]. exists (SEmpty p' v :: a), b. reflexivity.
      * right. exists (SEmpty p' v :: a), b, c. reflexivity.
  - destruct (IH _ H) as [[Hz (a & b & ->)]|(a & b & c & ->)].
    + apply orb_true_iff in Hz. destruct Hz as [Hz|Hz].
      * left. split; [exact Hz|]. exists (SNb p' v :: a), b. reflexivity.
      * apply andb_true_iff in Hz. destruct Hz as [Hp Hv]. apply Nat.eqb_eq in Hp. apply Z.eqb_eq in Hv. subst.
        right. exists [], a, b. reflexivity.
    + right. exists (SNb p' v :: a), b, c. reflexivity.
Qed.

(* boolean forms used by the trace monitor (tools: ocaml/drv_sched.ml) *)
Definition unit_in_hands (r : urec) (p : nat) : bool := Nat.eqb (upool r) p && in_hands (ust r).
Definition unit_done (r : urec) (p : nat) : bool :=
  negb (Nat.eqb (upool r) p) || match ust r with UNone | UTerm | UFreed => true | _ => false end.
