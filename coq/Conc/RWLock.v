(* LTS of ABT_rwlock (src/rwlock.c) for unboundedly many callers.  The rwlock is a
   monitor: struct ABTI_rwlock = { ABTI_mutex mutex; ABTI_cond cond; size_t
   reader_count; int write_flag }.  Its mutex + cond part IS a state of the C05
   LTS (Conc/CondMutex.v, which carries the C04 mutex LTS inside) and moves only
   by [cstep]; the three routines are programs over those actions:

   ABT_rwlock_rdlock:  ABTI_mutex_lock; while (write_flag) ABTI_cond_wait;
                       reader_count++ (DATA record); ABTI_mutex_unlock
   ABT_rwlock_wrlock:  ABTI_mutex_lock; while (write_flag || reader_count) ABTI_cond_wait;
                       write_flag = 1 (DATA record); ABTI_mutex_unlock
   ABT_rwlock_unlock:  ABTI_mutex_lock; if (write_flag) write_flag = 0 else reader_count--
                       (DATA record); ABTI_cond_broadcast; ABTI_mutex_unlock

   Labels: BEGIN/END records of the three API calls (harness), the DATA records of
   rwlock.c, and every hook record on rw->mutex / rw->cond ([RC e]).  The inner
   calls have no BEGIN/END records of their own: the model performs the inner
   begin/end actions ([CM (EBegin ..)], [CBegin ..], [CEnd ..]) together with the
   first / next hook record of the caller, exactly where the C code makes the call:
     - the loop test is made by a caller that owns the mutex and is not inside a
       cond call ([loop_head]); test true  = the next record is ACQ(cond lock) and
       starts ABTI_cond_wait; test false = the next record is the DATA record;
     - after the DATA record of unlock the caller is inside ABTI_cond_broadcast;
       when that has returned the next record, ACQ(waiter_lock), starts
       ABTI_mutex_unlock.
   Ghost fields (never read by a guard, except the client contract "unlock is called
   by a holder"): [readers] = one entry per read hold, [writer] = the write holder.

   Model code only; proofs are in RWLockProofs.v. *)
From Coq Require Import List Arith ZArith Bool.
From ABT Require Import Conc.Mutex Conc.CondMutex.
Import ListNotations.

Inductive rpcT :=
| RIdle
| RdL | RdW | RdU      (* rdlock: mutex lock + loop test / inside cond wait / counter updated, mutex unlock *)
| WrL | WrW | WrU      (* wrlock: same *)
| UnL | UnB | UnU.     (* unlock: mutex lock / data updated, inside cond broadcast / mutex unlock *)

Inductive rop := ORd | OWr | OUn.

Inductive rev :=
| RBegin (t : nat) (k : kind) (o : rop)
| REnd (t : nat) (r : Z)
| RData (t : nat) (f : nat) (v : nat)   (* DATA record: field 1 = reader_count, 2 = write_flag, value stored *)
| RC (e : cev).                          (* hook record on rw->mutex.* / rw->cond.* *)

Record rst := rmk {
  cs : cst;                   (* rw->mutex + rw->cond: a state of the C05 LTS *)
  rcount : nat;               (* reader_count *)
  wflag : bool;               (* write_flag *)
  rpc : nat -> rpcT;
  rkind : nat -> kind;        (* kind of the caller of the current operation *)
  rret : nat -> Z;
  readers : list nat;         (* ghost: read holds *)
  writer : option nat         (* ghost: write holder *)
}.

Definition ERR_RWLOCK : Z := 43%Z.

Definition set_cs (s : rst) (c : cst) : rst :=
  rmk c (rcount s) (wflag s) (rpc s) (rkind s) (rret s) (readers s) (writer s).
Definition set_rpc (s : rst) (t : nat) (p : rpcT) : rst :=
  rmk (cs s) (rcount s) (wflag s) (upd (rpc s) t p) (rkind s) (rret s) (readers s) (writer s).

(* only hook records may be fed to the inner LTS from outside; its API-level begin /
   end actions are performed by the rwlock programs *)
Definition hook_level (e : cev) : bool :=
  match e with
  | CBegin _ _ _ | CEnd _ _ | CM (EBegin _ _) | CM (EEnd _ _) => false
  | _ => true
  end.

(* the caller owns rw->mutex and is at the loop test (first time, or ABTI_cond_wait
   has just re-acquired the mutex: its return is taken here) *)
Definition loop_head (c : cst) (t : nat) : option cst :=
  match cpc c t, pc (ms c) t with
  | CIdle, Holding => Some c
  | CWLs, Holding => cstep c (CEnd t 0%Z)
  | _, _ => None
  end.

Fixpoint remove1 (x : nat) (l : list nat) : list nat :=
  match l with
  | [] => []
  | y :: r => if Nat.eqb x y then r else y :: remove1 x r
  end.

Definition csteps (c : cst) (es : list cev) : option cst := crun c es.

Definition rstep (s : rst) (e : rev) : option rst :=
  match e with
  | RBegin t k o =>
      match rpc s t with
      | RIdle =>
          match o, k with
          | (ORd | OWr), KTask =>
              (* rdlock / wrlock on a tasklet: refused at once *)
              Some (rmk (cs s) (rcount s) (wflag s) (rpc s) (rkind s) (upd (rret s) t ERR_RWLOCK) (readers s) (writer s))
          | _, _ =>
              if (match o with
                  | OUn => oeq (writer s) t || existsb (Nat.eqb t) (readers s)   (* contract: caller holds the lock *)
                  | _ => true
                  end)
              then
                match cstep (cs s) (CM (EBegin t OLock)) with
                | Some c => Some (rmk c (rcount s) (wflag s)
                                      (upd (rpc s) t (match o with ORd => RdL | OWr => WrL | OUn => UnL end))
                                      (upd (rkind s) t k) (rret s) (readers s) (writer s))
                | None => None
                end
              else None
          end
      | _ => None
      end
  | REnd t r =>
      match rpc s t with
      | RIdle => if Z.eqb (rret s t) r then Some s else None
      | RdU | WrU | UnU =>
          (* ABTI_mutex_unlock has returned *)
          match cpc (cs s) t, pc (ms (cs s)) t with
          | CIdle, Idle =>
              if Z.eqb r 0 then
                Some (rmk (cs s) (rcount s) (wflag s) (upd (rpc s) t RIdle) (rkind s) (upd (rret s) t 0%Z) (readers s) (writer s))
              else None
          | _, _ => None
          end
      | _ => None
      end
  | RData t f v =>
      match rpc s t with
      | RdL | RdW =>
          (* loop test false: reader_count++ ; ABTI_mutex_unlock *)
          match loop_head (cs s) t with
          | Some c =>
              if negb (wflag s) && Nat.eqb f 1 && Nat.eqb v (S (rcount s)) then
                match cstep c (CM (EBegin t OUnlock)) with
                | Some c' => Some (rmk c' v (wflag s) (upd (rpc s) t RdU) (rkind s) (rret s) (t :: readers s) (writer s))
                | None => None
                end
              else None
          | None => None
          end
      | WrL | WrW =>
          (* loop test false: write_flag = 1 ; ABTI_mutex_unlock *)
          match loop_head (cs s) t with
          | Some c =>
              if negb (wflag s) && Nat.eqb (rcount s) 0 && Nat.eqb f 2 && Nat.eqb v 1 then
                match cstep c (CM (EBegin t OUnlock)) with
                | Some c' => Some (rmk c' (rcount s) true (upd (rpc s) t WrU) (rkind s) (rret s) (readers s) (Some t))
                | None => None
                end
              else None
          | None => None
          end
      | UnL =>
          (* if (write_flag) write_flag = 0 else reader_count-- ; ABTI_cond_broadcast *)
          match cpc (cs s) t, pc (ms (cs s)) t with
          | CIdle, Holding =>
              match cstep (cs s) (CBegin t (rkind s t) OBcast) with
              | Some c' =>
                  if wflag s then
                    if Nat.eqb f 2 && Nat.eqb v 0 then
                      Some (rmk c' (rcount s) false (upd (rpc s) t UnB) (rkind s) (rret s) (readers s) None)
                    else None
                  else
                    match rcount s with
                    | S n => if Nat.eqb f 1 && Nat.eqb v n then
                               Some (rmk c' n false (upd (rpc s) t UnB) (rkind s) (rret s) (remove1 t (readers s)) (writer s))
                             else None
                    | O => None   (* reader_count-- on 0: excluded by the contract (caller holds) *)
                    end
              | None => None
              end
          | _, _ => None
          end
      | _ => None
      end
  | RC ce =>
      if hook_level ce then
        match ce with
        | CAcq t =>
            match rpc s t with
            | RdL | RdW | WrL | WrW =>
                match loop_head (cs s) t with
                | Some c =>
                    (* at the loop test: ACQ(cond lock) = the test was true, ABTI_cond_wait starts *)
                    let test := match rpc s t with
                                | RdL | RdW => wflag s
                                | _ => wflag s || negb (Nat.eqb (rcount s) 0)
                                end in
                    if test then
                      match csteps c [CBegin t (rkind s t) (OWait (mid c)); CAcq t] with
                      | Some c' => Some (rmk c' (rcount s) (wflag s)
                                             (upd (rpc s) t (match rpc s t with RdL | RdW => RdW | _ => WrW end))
                                             (rkind s) (rret s) (readers s) (writer s))
                      | None => None
                      end
                    else None
                | None => match cstep (cs s) ce with Some c' => Some (set_cs s c') | None => None end
                end
            | _ => match cstep (cs s) ce with Some c' => Some (set_cs s c') | None => None end
            end
        | CM (EAcqW t) =>
            match rpc s t, cpc (cs s) t with
            | UnB, CIdle =>
                (* ABTI_cond_broadcast has returned: ABTI_mutex_unlock starts *)
                match csteps (cs s) [CEnd t 0%Z; CM (EBegin t OUnlock); ce] with
                | Some c' => Some (rmk c' (rcount s) (wflag s) (upd (rpc s) t UnU) (rkind s) (rret s) (readers s) (writer s))
                | None => None
                end
            | _, _ => match cstep (cs s) ce with Some c' => Some (set_cs s c') | None => None end
            end
        | _ => match cstep (cs s) ce with Some c' => Some (set_cs s c') | None => None end
        end
      else None
  end.

Definition rinit (m : nat) (t0 : Z) : rst :=
  rmk (cinit false m t0) 0 false (fun _ => RIdle) (fun _ => KUlt) (fun _ => 0%Z) [] None.

Fixpoint rrun (s : rst) (tr : list rev) : option rst :=
  match tr with
  | [] => Some s
  | e :: r => match rstep s e with Some s' => rrun s' r | None => None end
  end.

Fixpoint rreplay (s : rst) (tr : list rev) (i : nat) : rst * option nat :=
  match tr with
  | [] => (s, None)
  | e :: r => match rstep s e with Some s' => rreplay s' r (S i) | None => (s, Some i) end
  end.
