(* Shared definitions for the proofs about Conc/Sched.v: predicates on unit
   states, reachability, the induction principle over runs, and [upd] lemmas. *)
From Coq Require Import List Arith ZArith Lia Bool.
From ABT Require Import Common.ListAux Conc.Sched.
Import ListNotations.

Definition is_queued (x : ustate) : bool := match x with UQueued => true | _ => false end.
Definition is_term (x : ustate) : bool := match x with UTerm | UFreed => true | _ => false end.
Definition is_blocked (x : ustate) : bool := match x with UBlocked => true | _ => false end.
Definition is_running (x : ustate) : bool := match x with URunning => true | _ => false end.
Definition is_none (x : ustate) : bool := match x with UNone => true | _ => false end.
Definition in_cb (x : ustate) : bool := match x with UCbS _ _ => true | _ => false end.

(* the unit's context has been saved since it last ran (a callback was entered on its behalf),
   or it has never run in this incarnation *)
Definition post_save (x : ustate) : bool :=
  match x with
  | UCbS _ _ | UBlocked | UHandoff | UResuming | UQueued | UPopped | UChecked | UCreated | UCancelling => true
  | _ => false
  end.

(* value of the state word allowed in each structural state
   (0 READY, 1 RUNNING, 2 BLOCKED, 3 TERMINATED) *)
Definition ost_ok (x : ustate) (o : Z) : bool :=
  match x with
  | UNone => true
  | UCreated | UQueued | UPopped | UChecked | UResuming => Z.eqb o 0
  | URunning | UFinished => Z.eqb o 1
  | UCbS k 2 => if yield_kind k then Z.eqb o 0 else Z.eqb o 1
  | UCbS _ _ => Z.eqb o 1
  | UBlocked | UHandoff => Z.eqb o 2
  | UCancelling => Z.eqb o 0 || Z.eqb o 1
  | UTerm | UFreed => Z.eqb o 3
  end.

(* the transitions of the observable state that the property allows
   (READY->RUNNING, RUNNING->READY (yield), RUNNING->BLOCKED, BLOCKED->READY (resume),
    BLOCKED->RUNNING (resume_*_to, join hand-off), READY->TERMINATED (cancelled before its next run),
    RUNNING->TERMINATED, TERMINATED->READY (revive)) *)
Definition allowed_transition (a b : Z) : bool :=
  match a, b with
  | 0, 1 | 1, 0 | 1, 2 | 2, 0 | 2, 1 | 0, 3 | 1, 3 | 3, 0 => true
  | _, _ => false
  end%Z.

Definition reachable (s : st) : Prop := exists tr, run init tr = Some s.

Lemma run_app tr1 : forall tr2 s0, run s0 (tr1 ++ tr2) =
  match run s0 tr1 with Some s1 => run s1 tr2 | None => None end.
Proof.
  induction tr1 as [|e r IH]; cbn; intros; auto.
  destruct (step s0 e); auto.
Qed.

Lemma reachable_init : reachable init.
Proof. exists []. reflexivity. Qed.

Lemma reachable_step s e s' : reachable s -> step s e = Some s' -> reachable s'.
Proof.
  intros [tr H] Hs. exists (tr ++ [e]). rewrite run_app, H. cbn. rewrite Hs. reflexivity.
Qed.

(* induction over all runs: every number of units, pools, streams, every interleaving *)
Theorem reach_ind (P : st -> Prop) :
  P init ->
  (forall s e s', reachable s -> P s -> step s e = Some s' -> P s') ->
  forall s, reachable s -> P s.
Proof.
  intros H0 Hstep s [tr Hrun].
  revert s Hrun. induction tr as [|e tr IH] using rev_ind; intros s Hrun.
  - cbn in Hrun. inversion Hrun; subst. exact H0.
  - rewrite run_app in Hrun. destruct (run init tr) as [s1|] eqn:E; [|discriminate].
    cbn in Hrun. destruct (step s1 e) as [s2|] eqn:E2; [|discriminate]. inversion Hrun; subst.
    eapply Hstep; [exists tr; exact E | apply IH; reflexivity | exact E2].
Qed.

(* ---- function update ---- *)
Lemma upd_same {A} (f : nat -> A) t v : upd f t v t = v.
Proof. unfold upd. now rewrite Nat.eqb_refl. Qed.
Lemma upd_other {A} (f : nat -> A) t v x : x <> t -> upd f t v x = f x.
Proof. unfold upd. intros H. apply Nat.eqb_neq in H. now rewrite H. Qed.
Lemma neqb x t : x <> t -> Nat.eqb x t = false /\ Nat.eqb t x = false.
Proof. intros H. split; apply Nat.eqb_neq; congruence. Qed.

(* ---- membership as a boolean, remove1 ---- *)
Lemma inb_In x l : inb x l = true <-> In x l.
Proof. unfold inb. rewrite existsb_exists. split.
  - intros [y [H E]]. apply Nat.eqb_eq in E. now subst.
  - intros H. exists x. split; auto. apply Nat.eqb_refl. Qed.
Lemma inb_false x l : inb x l = false <-> ~ In x l.
Proof. rewrite <- inb_In. destruct (inb x l); intuition congruence. Qed.
Lemma inb_app x l1 l2 : inb x (l1 ++ l2) = inb x l1 || inb x l2.
Proof. unfold inb. apply existsb_app. Qed.
Lemma inb_cons x y l : inb x (y :: l) = Nat.eqb x y || inb x l.
Proof. reflexivity. Qed.
Lemma remove1_notin x l : ~ In x l -> remove1 x l = l.
Proof. induction l as [|y l IH]; cbn; intros H; auto.
  destruct (Nat.eqb_spec x y); [subst; exfalso; apply H; auto|]. f_equal. apply IH. intuition. Qed.
Lemma in_remove1 x y l : In x (remove1 y l) -> In x l.
Proof. induction l as [|z l IH]; cbn; auto. destruct (Nat.eqb y z); cbn; intuition. Qed.
Lemma in_remove1_ne x y l : x <> y -> In x l -> In x (remove1 y l).
Proof. induction l as [|z l IH]; cbn; auto. intros Hne [->|H].
  - destruct (Nat.eqb_spec y x); [congruence|]. left; auto.
  - destruct (Nat.eqb y z); [auto|]. right. auto. Qed.
Lemma nodup_remove1 x l : NoDup l -> NoDup (remove1 x l).
Proof. induction 1 as [|y l Hn Hd IH]; cbn; [constructor|].
  destruct (Nat.eqb x y); auto. constructor; auto. intros H. apply Hn. eapply in_remove1; eauto. Qed.
Lemma nodup_remove1_notin x l : NoDup l -> ~ In x (remove1 x l).
Proof. induction 1 as [|y l Hn Hd IH]; cbn; [tauto|].
  destruct (Nat.eqb_spec x y); [subst; auto|]. intros [E|H]; [congruence|auto]. Qed.
Lemma inb_remove1 x y l : NoDup l -> inb x (remove1 y l) = inb x l && negb (Nat.eqb x y).
Proof.
  intros Hnd. destruct (Nat.eqb_spec x y) as [->|Hne]; cbn [negb].
  - rewrite andb_false_r. apply inb_false. apply nodup_remove1_notin; auto.
  - rewrite andb_true_r. destruct (inb x l) eqn:E.
    + apply inb_In. apply in_remove1_ne; auto. apply inb_In; auto.
    + apply inb_false. intros H. apply in_remove1 in H. apply inb_false in E. auto.
Qed.
Lemma count_occ_remove1 (x y : nat) l :
  count_occ Nat.eq_dec (remove1 y l) x =
  if Nat.eqb x y then Nat.pred (count_occ Nat.eq_dec l x) else count_occ Nat.eq_dec l x.
Proof.
  induction l as [|z l IH]; cbn.
  - destruct (Nat.eqb x y); reflexivity.
  - destruct (Nat.eqb_spec y z) as [->|Hyz].
    + destruct (Nat.eq_dec z x) as [->|Hzx].
      * rewrite Nat.eqb_refl. reflexivity.
      * destruct (Nat.eqb_spec x z); [congruence|reflexivity].
    + cbn. destruct (Nat.eq_dec z x) as [->|Hzx].
      * rewrite IH. destruct (Nat.eqb_spec x y); [congruence|reflexivity].
      * exact IH.
Qed.
