(* Migration (C13) on the scheduler LTS Conc/Sched.v: order of the handling
   steps, which pool a handled request leads to, and the refutation of "every
   acknowledged request is performed" (finding F6). *)
From Coq Require Import List Arith ZArith Lia Bool.
From ABT Require Import Common.ListAux Conc.Sched Conc.SchedDefs.
Import ListNotations.

(* thread_migrate_to_pool stores the target before it sets the request bit *)
Lemma request_needs_target s u ex j c m w s' :
  step s (EReqOr u 2 ex j c m w) = Some s' -> exists p, migt (un s u) = Some p /\ rmig (un s' u) = true.
Proof.
  cbn [step]. destruct (beq3 j c m (rjoin (un s u)) (rcancel (un s u)) (rmig (un s u))); [|discriminate].
  destruct (migt (un s u)) as [p|] eqn:E; [|discriminate].
  intros H; inversion H; subst s'. exists p. cbn. rewrite upd_same. cbn. auto.
Qed.

(* the handler's steps come in the order of ABTI_thread_handle_request_migrate:
   request load (migs 0 -> 1), target load (1 -> 2), pool change (2 -> 3), callback (at 3), bit clear (3 -> 0) *)
Lemma mig_load_step s u p s' : step s (EMigLd u p) = Some s' ->
  migs (un s u) = 1 /\ migt (un s u) = Some p /\ migs (un s' u) = 2 /\ upool (un s' u) = upool (un s u).
Proof.
  cbn [step]. destruct (Nat.eqb_spec (migs (un s u)) 1) as [E|]; [|discriminate].
  destruct (migt (un s u)) as [t|] eqn:Et; [|discriminate].
  destruct (Nat.eqb_spec t p) as [->|]; [|discriminate].
  intros H; inversion H; subst s'. cbn. rewrite upd_same. cbn. auto.
Qed.

Lemma mig_setpool_step s u p k s' : step s (ESetPool u p) = Some s' -> migs (un s u) = 2 ->
  ust (un s u) = UCbS k 1 ->      (* where a request is handled (SchedJoin: migs <> 0 -> ust = UCbS _ 1) *)
  migt (un s u) = Some p /\ upool (un s' u) = p /\ migs (un s' u) = 3.
Proof.
  intros H M U. cbn [step] in H. rewrite U, M in H. cbn in H.
  destruct (migt (un s u)) as [t|] eqn:Et; [|discriminate].
  destruct (Nat.eqb_spec t p) as [->|]; [|discriminate].
  inversion H; subst s'. cbn. rewrite upd_same. cbn. auto.
Qed.

Lemma mig_callback_step s u s' : step s (EMigCb u) = Some s' -> migs (un s u) = 3 /\ s' = s.
Proof.
  cbn [step]. destruct (Nat.eqb_spec (migs (un s u)) 3) as [E|]; [|discriminate].
  intros H; inversion H; subst. split; [exact E|reflexivity].
Qed.

Lemma mig_clear_step s u s' : step s (EReqAnd u 2) = Some s' ->
  migs (un s u) = 3 /\ migs (un s' u) = 0 /\ rmig (un s' u) = false /\ upool (un s' u) = upool (un s u).
Proof.
  cbn [step]. destruct (Nat.eqb_spec (migs (un s u)) 3) as [E|]; [|discriminate].
  intros H; inversion H; subst s'. cbn. rewrite upd_same. cbn. auto.
Qed.

(* the callback is invoked between the pool change and the clearing of the request: once per handled request *)
Lemma callback_only_while_handling s u s' : step s (EMigCb u) = Some s' -> migs (un s u) = 3.
Proof. intros H. apply mig_callback_step in H. tauto. Qed.

(* ---- finding F6: an acknowledged request can be lost ----
   unit 1 (pool 0) asks to go to pool 1; while that request is being handled (after the target was read)
   a second request for pool 2 is stored and acknowledged; the handler then clears the request bit:
   the unit is in pool 1, no request is pending, and the last acknowledged target (pool 2) was never used. *)
Definition f6_trace : list ev :=
  [EInit 1 0 true true; EPush 0 1 true; EPop 0 (Some 1) false; EReqLoad 1 1 false false false; EState 1 1; EStart 1;
   EMigSt 1 1; EReqOr 1 2 false false false false 0;               (* first request: target pool 1 *)
   ECb 1 KYield None; EReqLoad 1 1 false false true;               (* yield: the handler sees MIGRATE *)
   EMigLd 1 1; ESetPool 1 1; EMigCb 1;                             (* target read, pool changed, callback running *)
   EMigSt 1 2; EReqOr 1 2 false false false true 0;                (* second request, acknowledged (bit already set) *)
   EReqAnd 1 2;                                                    (* handler clears the bit *)
   EState 1 0; EPush 1 1 true].

Theorem second_request_lost_refuted :
  exists s, run init f6_trace = Some s /\
            upool (un s 1) = 1 /\ rmig (un s 1) = false /\ migt (un s 1) = Some 2 /\ migs (un s 1) = 0 /\
            ust (un s 1) = UQueued.
Proof. eexists. split; [vm_compute; reflexivity|]. vm_compute. repeat split. Qed.
