(* Placement invariant of the scheduler LTS (Conc/Sched.v): every work unit is in
   exactly one place.  A unit is in the queue of pool p iff its structural state
   is UQueued and p is its associated pool; queues are duplicate-free.  Hence a
   queued unit is in exactly one queue exactly once and a unit in any other state
   is in no queue (C01 / C07 / C13). *)
From Coq Require Import List Arith ZArith Lia Bool.
From ABT Require Import Conc.Sched Conc.SchedDefs.
Import ListNotations.

Record InvPlace (s : st) : Prop := {
  ip_place : forall p u, inb u (q (po s p)) = is_queued (ust (un s u)) && Nat.eqb (upool (un s u)) p;
  ip_nodup : forall p, NoDup (q (po s p))
}.

(* ---------------------------------------------------------------- list lemmas *)
Lemma nodup_snoc (x : nat) l : NoDup l -> ~ In x l -> NoDup (l ++ [x]).
Proof.
  induction 1 as [|y l Hn Hd IH]; cbn; intros Hx.
  - constructor; [tauto|constructor].
  - constructor.
    + rewrite in_app_iff. cbn. intros [H|[H|[]]]; [auto|subst; auto].
    + apply IH. tauto.
Qed.

Lemma nodup_snoc_inv (x : nat) l : NoDup (l ++ [x]) -> ~ In x l.
Proof.
  induction l as [|y l IH]; cbn; [tauto|].
  intros H. inversion H as [|? ? Hn Hd]; subst. intros [E|Hi].
  - subst. apply Hn. rewrite in_app_iff. right. left. reflexivity.
  - exact (IH Hd Hi).
Qed.

Lemma remove1_snoc (x : nat) l : ~ In x l -> remove1 x (l ++ [x]) = l.
Proof.
  induction l as [|y l IH]; cbn; intros H.
  - now rewrite Nat.eqb_refl.
  - destruct (Nat.eqb_spec x y); [subst; exfalso; apply H; auto|]. f_equal. apply IH. tauto.
Qed.

Lemma last_in (u d : nat) l : last l d = u -> d <> u -> In u l.
Proof.
  induction l as [|y l IH]; cbn [last]; intros H Hd; [congruence|].
  destruct l as [|z l]; [left; exact H|]. right. apply IH; auto.
Qed.

Lemma last_snoc_decomp (u d : nat) l : last l d = u -> d <> u -> exists rest, l = rest ++ [u].
Proof.
  intros H Hd. destruct l as [|y l]; [cbn in H; congruence|].
  exists (removelast (y :: l)). rewrite <- H. apply app_removelast_last. discriminate.
Qed.

(* ---------------------------------------------------------------- frame *)
(* a step that leaves every queue as it is and changes neither the queued-ness of
   any unit nor the pool of a queued unit preserves the invariant *)
Lemma frame s s' : InvPlace s ->
  (forall p, q (po s' p) = q (po s p)) ->
  (forall u, is_queued (ust (un s' u)) = is_queued (ust (un s u)) /\
             (is_queued (ust (un s u)) = true -> upool (un s' u) = upool (un s u))) ->
  InvPlace s'.
Proof.
  intros [Ip In] Hq Hu. split; intros p; [intros u|]; rewrite Hq; [|apply In].
  rewrite Ip. destruct (Hu u) as [A B]. rewrite A.
  destruct (is_queued (ust (un s u))); [|reflexivity]. rewrite B; reflexivity.
Qed.

Lemma not_queued_nowhere s u : InvPlace s -> is_queued (ust (un s u)) = false -> forall p, ~ In u (q (po s p)).
Proof. intros [Ip _] H p. apply inb_false. rewrite Ip, H. reflexivity. Qed.

(* ---------------------------------------------------------------- push *)
Lemma push_shape s p u tail s' : step s (EPush p u tail) = Some s' ->
  upool (un s u) = p /\ is_queued (ust (un s u)) = false /\
  s' = mkS (upd (un s) u (with_ust (un s u) UQueued))
           (upd (po s) p (mkP (if tail then q (po s p) ++ [u] else u :: q (po s p)) (nb (po s p)) (cu (po s p))))
           (seen s).
Proof.
  cbn [step]. intros H.
  destruct (Nat.eqb (upool (un s u)) p && Nat.eqb (migs (un s u)) 0) eqn:E; [|discriminate].
  apply andb_true_iff in E. destruct E as [E _]. apply Nat.eqb_eq in E.
  match type of H with (if ?X then _ else _) = _ => destruct X eqn:Eok; [|discriminate] end.
  split; [exact E|]. split.
  - destruct (ust (un s u)); try reflexivity; discriminate.
  - inversion H. reflexivity.
Qed.

Lemma push_inv s p u tail s' : InvPlace s -> step s (EPush p u tail) = Some s' -> InvPlace s'.
Proof.
  intros I H. destruct (push_shape _ _ _ _ _ H) as (Hp & Hnq & ->). clear H.
  pose proof (not_queued_nowhere _ _ I Hnq) as Hno. destruct I as [Ip In].
  split; cbn [po un q].
  - intros p0 u0. unfold upd.
    destruct (Nat.eqb_spec p0 p) as [->|Hpp]; destruct (Nat.eqb_spec u0 u) as [->|Huu]; cbn [q ust upool with_ust is_queued].
    + rewrite Hp, Nat.eqb_refl. cbn. apply inb_In. destruct tail; [apply in_or_app; right|]; left; reflexivity.
    + rewrite <- Ip. destruct tail.
      * rewrite inb_app. cbn [inb existsb]. destruct (neqb _ _ Huu) as [-> _]. now rewrite !orb_false_r.
      * rewrite inb_cons. destruct (neqb _ _ Huu) as [-> _]. reflexivity.
    + rewrite Hp. destruct (neqb _ _ Hpp) as [_ ->]. cbn. apply inb_false. apply Hno.
    + apply Ip.
  - intros p0. unfold upd. destruct (Nat.eqb_spec p0 p) as [->|Hpp]; cbn [q]; [|apply In].
    destruct tail.
    + apply nodup_snoc; [apply In|apply Hno].
    + constructor; [apply Hno|apply In].
Qed.

(* ---------------------------------------------------------------- pop / remove *)
Definition popped_st (s : st) (p u : nat) : st :=
  mkS (upd (un s) u (with_ust (un s u) UPopped))
      (upd (po s) p (mkP (remove1 u (q (po s p))) (nb (po s p)) (cu (po s p)))) (seen s).

Lemma pop_some_shape s p u tail s' : step s (EPop p (Some u) tail) = Some s' ->
  ust (un s u) = UQueued /\ s' = popped_st s p u /\
  (if tail then last (q (po s p)) (S u) = u else exists rest, q (po s p) = u :: rest).
Proof.
  cbn [step]. intros H.
  destruct (ust (un s u)) eqn:Eu; try discriminate. split; [reflexivity|].
  destruct tail.
  - destruct (Nat.eqb_spec (last (q (po s p)) (S u)) u) as [E|]; [|discriminate].
    inversion H. split; [reflexivity|exact E].
  - destruct (q (po s p)) as [|y rest] eqn:Eq; [discriminate|].
    destruct (Nat.eqb_spec y u) as [->|]; [|discriminate].
    inversion H. split; [unfold popped_st; rewrite Eq; reflexivity|]. exists rest. reflexivity.
Qed.

Lemma pop_some_in s p u tail s' : step s (EPop p (Some u) tail) = Some s' -> In u (q (po s p)).
Proof.
  intros H. destruct (pop_some_shape _ _ _ _ _ H) as (_ & _ & Hs). destruct tail.
  - eapply last_in; [exact Hs|lia].
  - destruct Hs as [rest ->]. left. reflexivity.
Qed.

Lemma remove_shape s p u s' : step s (ERemove p u) = Some s' ->
  ust (un s u) = UQueued /\ s' = popped_st s p u /\ In u (q (po s p)).
Proof.
  cbn [step]. intros H.
  destruct (ust (un s u)) eqn:Eu; try discriminate.
  destruct (inb u (q (po s p))) eqn:Ei; [|discriminate].
  inversion H. repeat split. apply inb_In. exact Ei.
Qed.

Lemma popped_inv s p u : InvPlace s -> ust (un s u) = UQueued -> In u (q (po s p)) -> InvPlace (popped_st s p u).
Proof.
  intros [Ip In] Hq Hi.
  assert (Hp : upool (un s u) = p).
  { apply inb_In in Hi. rewrite Ip, Hq in Hi. cbn in Hi. apply Nat.eqb_eq. exact Hi. }
  unfold popped_st. split; cbn [po un q].
  - intros p0 u0. unfold upd.
    destruct (Nat.eqb_spec p0 p) as [->|Hpp]; destruct (Nat.eqb_spec u0 u) as [->|Huu]; cbn [q ust upool with_ust is_queued].
    + cbn. apply inb_false. apply nodup_remove1_notin. apply In.
    + rewrite inb_remove1 by apply In. destruct (neqb _ _ Huu) as [-> _]. cbn [negb]. rewrite andb_true_r. apply Ip.
    + cbn. rewrite Ip, Hq, Hp. cbn. apply Nat.eqb_neq. congruence.
    + apply Ip.
  - intros p0. unfold upd. destruct (Nat.eqb_spec p0 p) as [->|Hpp]; cbn [q]; [|apply In].
    apply nodup_remove1. apply In.
Qed.

Lemma popped_nowhere s p u : InvPlace s -> ust (un s u) = UQueued -> In u (q (po s p)) ->
  ust (un (popped_st s p u) u) = UPopped /\ forall p', ~ In u (q (po (popped_st s p u) p')).
Proof.
  intros I Hq Hi. pose proof (popped_inv _ _ _ I Hq Hi) as I'.
  assert (E : ust (un (popped_st s p u) u) = UPopped).
  { unfold popped_st. cbn [un]. rewrite upd_same. reflexivity. }
  split; [exact E|]. apply not_queued_nowhere; [exact I'|]. rewrite E. reflexivity.
Qed.

(* ---------------------------------------------------------------- all steps *)
Lemma inv_init : InvPlace init.
Proof. split; cbn; intros; [reflexivity|constructor]. Qed.

(* pointwise reasoning on [upd]: split on whether the point is the updated one, then
   rewrite with the facts recorded by the case analysis *)
Ltac rw_facts :=
  repeat match goal with
         | E : ust (un ?S ?u) = _ |- context [ust (un ?S ?u)] => rewrite E
         end.
Ltac frame_q :=
  intros ?; cbn [po q set_u set_p]; unfold upd;
  repeat match goal with |- context [Nat.eqb ?a ?b] => destruct (Nat.eqb_spec a b); subst end;
  reflexivity.
Ltac frame_u :=
  intros ?; cbn [un set_u set_p]; unfold upd;
  repeat match goal with |- context [if Nat.eqb ?a ?b then _ else _] => destruct (Nat.eqb_spec a b); subst end;
  cbn [ust upool with_ust with_ust_ost with_jw with_pool with_req with_link with_mig with_other with_jof with_cnt];
  rw_facts; cbn [is_queued];
  (split; [reflexivity | first [reflexivity | intros; discriminate | intros; congruence]]).

(* auxiliary invariant: a queued unit has no migration in progress (EPush requires migs = 0 and
   migs only advances at scheduling points of a unit that is not queued).  Needed because
   ESetPool is enabled on a unit in ANY state once migs = 2: without it the pool of a queued
   unit could change under its feet. *)
Definition InvQM (s : st) : Prop := forall u, ust (un s u) = UQueued -> migs (un s u) = 0.

Ltac case_step H :=
  cbn [step] in H;
  repeat match type of H with
         | context [match ?X with _ => _ end] => destruct X eqn:?
         end; try discriminate;
  repeat match goal with
         | E : context [match ?X with _ => _ end] |- _ => destruct X eqn:?; try discriminate
         end.

Lemma qm_init : InvQM init.
Proof. intros u. cbn. discriminate. Qed.

Lemma step_qm s e s' : InvQM s -> step s e = Some s' -> InvQM s'.
Proof.
  intros I H. destruct e.
  all: case_step H.
  all: inversion H; subst s'; clear H; try exact I.
  all: repeat match goal with E : (_ =? _) = true |- _ => apply Nat.eqb_eq in E end.
  all: intros ?x; cbn [un set_u set_p]; unfold upd;
       repeat match goal with |- context [if Nat.eqb ?a ?b then _ else _] => destruct (Nat.eqb_spec a b); subst end;
       cbn [ust migs with_ust with_ust_ost with_jw with_pool with_req with_link with_mig with_other with_jof with_cnt].
  all: try solve [ apply I ].
  all: try solve [ intros ?Hq; discriminate ].
  all: try solve [ intros ?Hq; congruence ].
  all: try solve [ intros ?Hq; match goal with Hq : ust (un ?S ?u) = UQueued |- _ =>
                                 pose proof (I _ Hq); congruence end ].
  all: try solve [ intros _; match goal with E : _ && (migs _ =? 0) = true |- _ =>
                                apply andb_true_iff in E; destruct E as [_ E]; apply Nat.eqb_eq in E; exact E end ].
Qed.

Lemma step_inv s e s' : InvQM s -> InvPlace s -> step s e = Some s' -> InvPlace s'.
Proof.
  intros Q I H. destruct e.
  5: { eapply push_inv; eauto. }
  5: { destruct u as [u|].
       - destruct (pop_some_shape _ _ _ _ _ H) as (Hq & -> & _).
         apply popped_inv; auto. eapply pop_some_in; eauto.
       - cbn [step] in H. destruct (q (po s p)); [|discriminate]. inversion H; subst. exact I. }
  5: { destruct (remove_shape _ _ _ _ H) as (Hq & -> & Hi). apply popped_inv; auto. }
  all: case_step H.
  all: inversion H; subst s'; clear H; try exact I.
  all: try solve [ eapply frame; [exact I | frame_q | frame_u] ].
  (* ESetPool during a migration: the unit is not queued *)
  all: try solve [ exfalso; match goal with
                            | E : ust (un ?S ?u) = UQueued, F : (migs (un ?S ?u) =? 2) = true |- _ =>
                                rewrite (Q _ E) in F; cbn in F; discriminate F
                            end ].
Qed.

Theorem inv_reachable s : reachable s -> InvPlace s.
Proof.
  intros R. cut (InvPlace s /\ InvQM s); [tauto|]. revert s R.
  apply reach_ind; [split; [exact inv_init|exact qm_init]|].
  intros s e s' _ [I Q] H. split; [eapply step_inv|eapply step_qm]; eauto.
Qed.

Theorem queued_not_migrating s u : reachable s -> ust (un s u) = UQueued -> migs (un s u) = 0.
Proof.
  intros R. revert u. change (InvQM s). revert s R.
  apply reach_ind; [exact qm_init|]. intros s e s' _ Q H. eapply step_qm; eauto.
Qed.

(* ---------------------------------------------------------------- corollaries *)
Theorem C01_never_lost_queued s u : reachable s -> ust (un s u) = UQueued ->
  In u (q (po s (upool (un s u)))) /\ forall p, p <> upool (un s u) -> ~ In u (q (po s p)).
Proof.
  intros R Hq. destruct (inv_reachable _ R) as [Ip _]. split.
  - apply inb_In. rewrite Ip, Hq, Nat.eqb_refl. reflexivity.
  - intros p Hp. apply inb_false. rewrite Ip, Hq. cbn. apply Nat.eqb_neq. congruence.
Qed.

Theorem C01_not_queued_elsewhere s u : reachable s -> ust (un s u) <> UQueued ->
  forall p, ~ In u (q (po s p)).
Proof.
  intros R Hq. apply not_queued_nowhere; [apply inv_reachable; exact R|].
  destruct (ust (un s u)); try reflexivity. congruence.
Qed.

Theorem C01_queues_nodup s p : reachable s -> NoDup (q (po s p)).
Proof. intros R. apply (ip_nodup _ (inv_reachable _ R)). Qed.

Theorem C01_pop_exactly_once s p u tail s' : reachable s -> step s (EPop p (Some u) tail) = Some s' ->
  ust (un s' u) = UPopped /\ (forall p', ~ In u (q (po s' p'))).
Proof.
  intros R H. pose proof (pop_some_in _ _ _ _ _ H) as Hi.
  destruct (pop_some_shape _ _ _ _ _ H) as (Hq & -> & _).
  apply popped_nowhere; auto. apply inv_reachable; exact R.
Qed.

Theorem C01_remove_exactly_once s p u s' : reachable s -> step s (ERemove p u) = Some s' ->
  ust (un s' u) = UPopped /\ (forall p', ~ In u (q (po s' p'))).
Proof.
  intros R H. destruct (remove_shape _ _ _ _ H) as (Hq & -> & Hi).
  apply popped_nowhere; auto. apply inv_reachable; exact R.
Qed.

Theorem C07_pop_order s p u s' : reachable s -> step s (EPop p (Some u) false) = Some s' ->
  exists rest, q (po s p) = u :: rest /\ q (po s' p) = rest.
Proof.
  intros _ H. destruct (pop_some_shape _ _ _ _ _ H) as (_ & -> & [rest E]).
  exists rest. split; [exact E|]. unfold popped_st. cbn [po]. rewrite upd_same. cbn [q].
  rewrite E. cbn [remove1]. now rewrite Nat.eqb_refl.
Qed.

Theorem C07_pop_order_tail s p u s' : reachable s -> step s (EPop p (Some u) true) = Some s' ->
  exists rest, q (po s p) = rest ++ [u] /\ q (po s' p) = rest.
Proof.
  intros R H. destruct (pop_some_shape _ _ _ _ _ H) as (_ & -> & Hl).
  destruct (last_snoc_decomp _ _ _ Hl ltac:(lia)) as [rest E].
  exists rest. split; [exact E|]. unfold popped_st. cbn [po]. rewrite upd_same. cbn [q].
  rewrite E. apply remove1_snoc. apply nodup_snoc_inv. rewrite <- E. apply C01_queues_nodup. exact R.
Qed.

Theorem C07_pop_none_means_empty s p tail s' : step s (EPop p None tail) = Some s' ->
  q (po s p) = [] /\ s' = s.
Proof.
  cbn [step]. intros H. destruct (q (po s p)); [|discriminate]. inversion H. auto.
Qed.

Theorem C13_push_goes_to_associated_pool s p u tail s' : step s (EPush p u tail) = Some s' ->
  p = upool (un s u) /\ In u (q (po s' p)).
Proof.
  intros H. destruct (push_shape _ _ _ _ _ H) as (Hp & _ & ->). split; [auto|].
  cbn [po]. rewrite upd_same. cbn [q]. destruct tail; [apply in_or_app; right|]; left; reflexivity.
Qed.

(* a pushed unit was in no queue before the push (reachable states) and is afterwards queued
   in its associated pool only *)
Theorem C13_push_from_nowhere s p u tail s' : reachable s -> step s (EPush p u tail) = Some s' ->
  (forall p', ~ In u (q (po s p'))) /\ ust (un s' u) = UQueued /\ upool (un s' u) = p /\
  forall p', p' <> p -> ~ In u (q (po s' p')).
Proof.
  intros R H. pose proof (reachable_step _ _ _ R H) as R'.
  destruct (push_shape _ _ _ _ _ H) as (Hp & Hnq & E).
  split; [apply not_queued_nowhere; [apply inv_reachable; exact R|exact Hnq]|].
  assert (Hq : ust (un s' u) = UQueued) by (subst s'; cbn [un]; rewrite upd_same; reflexivity).
  assert (Hp' : upool (un s' u) = p) by (subst s'; cbn [un]; rewrite upd_same; exact Hp).
  split; [exact Hq|]. split; [exact Hp'|].
  intros p' Hne. destruct (C01_never_lost_queued _ _ R' Hq) as [_ Ho]. apply Ho. congruence.
Qed.

Print Assumptions inv_reachable.
Print Assumptions C01_never_lost_queued.
Print Assumptions C01_not_queued_elsewhere.
Print Assumptions C01_queues_nodup.
Print Assumptions C01_pop_exactly_once.
Print Assumptions C01_remove_exactly_once.
Print Assumptions C07_pop_order.
Print Assumptions C07_pop_order_tail.
Print Assumptions C07_pop_none_means_empty.
Print Assumptions C13_push_goes_to_associated_pool.
Print Assumptions C13_push_from_nowhere.
Print Assumptions queued_not_migrating.
