(* LTS of the work-unit life cycle, the pools and the join / suspend / resume /
   cancel / migrate protocols (src/thread.c, ythread.c, include/abti_ythread.h,
   abti_thread.h, abti_pool.h, pool/thread_queue.h, sched/sched.c).

   Labels are the records written by the ABT_VERIF hooks (one per atomic action:
   a queue update under the pool lock, an atomic read-modify-write / load /
   store of request bits, state, p_link, num_blocked, a callback entry = "the
   previous context is saved") plus the records the harness writes inside the
   unit functions (function entered / left) — so a recorded history of the real
   runtime can be replayed through [step].  Any enabled step may be taken at any
   time: the runs of the LTS are all interleavings of all client programs on any
   number of units, pools and streams.

   Model code only; proofs are in SchedProofs.v. *)
From Coq Require Import List Arith ZArith Bool.
Import ListNotations.

(* callbacks run by the context that was switched to, on behalf of the previous unit *)
Inductive cbk :=
| KYield            (* yield_user_yield / yield_loop / yield_to / create_to / revive_to *)
| KSuspend          (* suspend / suspend_unlock / suspend_replace_sched *)
| KSuspendJoin
| KExit
| KThreadYieldTo | KResumeYieldTo | KResumeSuspendTo | KResumeExitTo | KOrphan.

Inductive ustate :=
| UNone                       (* not created *)
| UCreated                    (* descriptor initialised (state READY), not in a pool yet *)
| UQueued                     (* in the queue of its pool *)
| UPopped                     (* popped / removed by a scheduler, request not examined yet *)
| UChecked                    (* ABTI_ythread_schedule found no request: about to run *)
| URunning
| UFinished                   (* function returned or exit called: ABTI_ythread_exit in progress *)
| UCbS (k : cbk) (stage : nat) (* context saved; callback k in progress on its behalf *)
| UBlocked
| UHandoff                    (* BLOCKED joiner whose count was dropped by the terminating unit that is about to jump to it *)
| UResuming                   (* READY stored by a resumer, push pending *)
| UCancelling                 (* cancel request seen at a scheduling point; joiner being woken *)
| UTerm
| UFreed.

(* terminating side's view of its joiner (ABTI_ythread_atomic_get_joiner) *)
Inductive jwake :=
| JW0               (* nothing read yet *)
| JWSpin            (* fetch_or saw JOIN already set: spin until p_link is published *)
| JWNone            (* fetch_or by the terminating side came first: no joiner to wake *)
| JWHave (j : nat)  (* joiner j read from p_link, not woken yet *)
| JWDone.           (* joiner made runnable *)

Record urec := mkU {
  ust : ustate;
  ost : Z;              (* last value stored into the unit's state word: 0 READY 1 RUNNING 2 BLOCKED 3 TERMINATED *)
  upool : nat;
  isult : bool;
  named : bool;
  rjoin : bool; rcancel : bool; rmig : bool;   (* request bits *)
  link : option nat;    (* ctx.p_link: the joiner *)
  migt : option nat;    (* migration target *)
  migs : nat;           (* migration handling progress: 0 idle, 1 after the request load, 2 target loaded, 3 pool changed *)
  jw : jwake;
  fresh : bool;         (* true until the function has been entered in this incarnation *)
  cbother : option nat; (* resume_suspend_to callback: the unit that was resumed *)
  jof : option nat;     (* this target's registered joiner: the caller whose fetch_or found JOIN clear *)
  (* ghost *)
  cnt : list nat;       (* pools whose num_blocked currently count this unit (one entry per outstanding increment:
                           a resumed unit may block again before its resumer has decremented) *)
  starts : nat; fins : nat;
  adopted : bool        (* existed before the history started (primary ULT, schedulers) *)
}.

Record prec := mkP { q : list nat; nb : Z;
                     cu : list nat (* ghost: units counted in nb, one entry per outstanding increment *) }.

Record st := mkS {
  un : nat -> urec;
  po : nat -> prec;
  seen : nat -> nat -> bool   (* seen a u: actor a's last state load of unit u returned TERMINATED *)
}.

Definition u0 : urec := mkU UNone 0 0 false false false false false None None 0 JW0 true None None [] 0 0 false.
Definition init : st := mkS (fun _ => u0) (fun _ => mkP [] 0 []) (fun _ _ => false).

Definition upd {A} (f : nat -> A) (t : nat) (v : A) : nat -> A :=
  fun x => if Nat.eqb x t then v else f x.
Definition upd2 (f : nat -> nat -> bool) (a u : nat) (v : bool) : nat -> nat -> bool :=
  fun x y => if Nat.eqb x a && Nat.eqb y u then v else f x y.

Definition set_u (s : st) (u : nat) (r : urec) : st := mkS (upd (un s) u r) (po s) (seen s).
Definition set_p (s : st) (p : nat) (r : prec) : st := mkS (un s) (upd (po s) p r) (seen s).

Definition with_ust (r : urec) (x : ustate) : urec :=
  mkU x (ost r) (upool r) (isult r) (named r) (rjoin r) (rcancel r) (rmig r) (link r) (migt r) (migs r) (jw r)
      (fresh r) (cbother r) (jof r) (cnt r) (starts r) (fins r) (adopted r).
Definition with_ust_ost (r : urec) (x : ustate) (o : Z) : urec :=
  mkU x o (upool r) (isult r) (named r) (rjoin r) (rcancel r) (rmig r) (link r) (migt r) (migs r) (jw r)
      (fresh r) (cbother r) (jof r) (cnt r) (starts r) (fins r) (adopted r).
Definition with_jw (r : urec) (j : jwake) : urec :=
  mkU (ust r) (ost r) (upool r) (isult r) (named r) (rjoin r) (rcancel r) (rmig r) (link r) (migt r) (migs r) j
      (fresh r) (cbother r) (jof r) (cnt r) (starts r) (fins r) (adopted r).
Definition with_pool (r : urec) (p : nat) : urec :=
  mkU (ust r) (ost r) p (isult r) (named r) (rjoin r) (rcancel r) (rmig r) (link r) (migt r) (migs r) (jw r)
      (fresh r) (cbother r) (jof r) (cnt r) (starts r) (fins r) (adopted r).
Definition with_req (r : urec) (j c m : bool) : urec :=
  mkU (ust r) (ost r) (upool r) (isult r) (named r) j c m (link r) (migt r) (migs r) (jw r)
      (fresh r) (cbother r) (jof r) (cnt r) (starts r) (fins r) (adopted r).
Definition with_link (r : urec) (l : option nat) : urec :=
  mkU (ust r) (ost r) (upool r) (isult r) (named r) (rjoin r) (rcancel r) (rmig r) l (migt r) (migs r) (jw r)
      (fresh r) (cbother r) (jof r) (cnt r) (starts r) (fins r) (adopted r).
Definition with_mig (r : urec) (t : option nat) (g : nat) : urec :=
  mkU (ust r) (ost r) (upool r) (isult r) (named r) (rjoin r) (rcancel r) (rmig r) (link r) t g (jw r)
      (fresh r) (cbother r) (jof r) (cnt r) (starts r) (fins r) (adopted r).
Definition with_other (r : urec) (o : option nat) : urec :=
  mkU (ust r) (ost r) (upool r) (isult r) (named r) (rjoin r) (rcancel r) (rmig r) (link r) (migt r) (migs r) (jw r)
      (fresh r) o (jof r) (cnt r) (starts r) (fins r) (adopted r).
Definition with_jof (r : urec) (o : option nat) : urec :=
  mkU (ust r) (ost r) (upool r) (isult r) (named r) (rjoin r) (rcancel r) (rmig r) (link r) (migt r) (migs r) (jw r)
      (fresh r) (cbother r) o (cnt r) (starts r) (fins r) (adopted r).
Definition with_cnt (r : urec) (c : list nat) : urec :=
  mkU (ust r) (ost r) (upool r) (isult r) (named r) (rjoin r) (rcancel r) (rmig r) (link r) (migt r) (migs r) (jw r)
      (fresh r) (cbother r) (jof r) c (starts r) (fins r) (adopted r).

Inductive ev :=
| EAdopt (u p : nat) (ult : bool)          (* a unit that already runs when the history starts *)
| EInit (u p : nat) (ult nmd : bool)       (* descriptor initialised, state := READY, request := 0 *)
| ERevive (u p : nat)                      (* thread_revive: state := READY, request := 0, context re-initialised *)
| ESetPool (u p : nat)
| EPush (p u : nat) (tail : bool)
| EPop (p : nat) (u : option nat) (tail : bool)
| ERemove (p u : nat)
| EReqLoad (u : nat) (site : nat) (j c m : bool)   (* site 0: handle_request without termination, 1: with, 2: main scheduler loop *)
| EReqOr (u : nat) (bit : nat) (exiter : bool) (j c m : bool) (who : nat)   (* bit 0 JOIN 1 CANCEL 2 MIGRATE; j c m = old value;
                                                                           who: the joiner (unit id, or dummy id of an external joiner) *)
| EReqAnd (u : nat) (bit : nat)
| EState (u : nat) (v : Z)
| EStLoad (a u : nat) (site : nat) (v : Z)
| ELinkSt (tgt j : nat) (ext : bool)
| ELinkLd (u : nat) (l : option nat)
| ECb (u : nat) (k : cbk) (other : option nat)   (* other: the unit resumed by a resume_*_to primitive *)
| EFutexRes (u j : nat)                    (* terminating unit u wakes its external joiner j *)
| ENb (p : nat) (inc : bool) (old : Z) (u : nat) (handoff : bool)  (* handoff: decrement made by a terminating unit that jumps to its joiner *)
| EStart (u : nat) | EFinish (u : nat)
| EFree (u : nat)
| EMigSt (u p : nat) | EMigLd (u p : nat) | EMigCb (u : nat)
| EJoinRet (a u : nat)                     (* ABT_thread_join / free of u returns to actor a *)
| EEmptyLoad (p : nat) (v : bool)          (* lock-free read of the queue's is_empty flag *)
| ENbLoad (p : nat) (v : Z).               (* ABTI_sched_has_unit: read of num_blocked *)

Definition yield_kind (k : cbk) : bool :=
  match k with KYield | KThreadYieldTo | KResumeYieldTo => true | _ => false end.
Definition suspend_kind (k : cbk) : bool :=
  match k with KSuspend | KSuspendJoin | KResumeSuspendTo => true | _ => false end.

Definition beq3 (a b c a' b' c' : bool) : bool := Bool.eqb a a' && Bool.eqb b b' && Bool.eqb c c'.

Fixpoint remove1 (x : nat) (l : list nat) : list nat :=
  match l with [] => [] | y :: r => if Nat.eqb x y then r else y :: remove1 x r end.
Definition inb (x : nat) (l : list nat) : bool := existsb (Nat.eqb x) l.

(* states in which the unit is blocked (or about to be published as blocked / on its way back to its
   pool) and must therefore still be counted in num_blocked: a late decrement made for an earlier
   resume may only remove a surplus entry *)
Definition must_count (x : ustate) : bool :=
  match x with
  | UBlocked | UResuming => true
  | UCbS k (S (S _)) => suspend_kind k
  | _ => false
  end.

(* the joiner has been dealt with (or there is none): a ULT joiner has been made
   runnable (it is no longer BLOCKED); an external joiner's futex has been signalled *)
Definition jw_settled (un : nat -> urec) (j : jwake) : bool :=
  match j with
  | JWNone | JWDone => true
  | JWHave x => isult (un x) && match ust (un x) with UBlocked => false | _ => true end
  | _ => false
  end.

Definition step (s : st) (e : ev) : option st :=
  match e with
  | EAdopt u p ult =>
      match ust (un s u) with
      | UNone => Some (set_u s u (mkU URunning 1 p ult true false false false None None 0 JW0 false None None [] 1 0 true))
      | _ => None
      end
  | EInit u p ult nmd =>
      match ust (un s u) with
      | UNone => Some (set_u s u (mkU UCreated 0 p ult nmd false false false None None 0 JW0 true None None [] 0 0 false))
      | _ => None
      end
  | ERevive u p =>
      let r := un s u in
      match ust r with
      | UTerm => if named r then
                   Some (mkS (upd (un s) u (mkU UCreated 0 p (isult r) true false false false None (migt r) 0 JW0 true None None (cnt r) 0 0 false))
                             (po s) (fun a x => if Nat.eqb x u then false else seen s a x))
                 else None
      | _ => None
      end
  | ESetPool u p =>
      let r := un s u in
      match ust r with
      | UNone | UCreated | UTerm => Some (set_u s u (with_pool r p))
      | UPopped => (* ABT_pool_push_thread of a unit obtained by a user-level pop re-associates it *)
          Some (set_u s u (with_pool r p))
      | URunning => (* ABT_xstream_set_main_sched called by a ULT of that stream: the caller moves itself to the
                       first pool of the new scheduler before it suspends (xstream_update_main_sched) *)
          if Nat.eqb (migs r) 0 then Some (set_u s u (with_pool r p)) else None
      | _ => if Nat.eqb (migs r) 2 then
               match migt r with
               | Some t => if Nat.eqb t p then Some (set_u s u (with_mig (with_pool r p) (migt r) 3)) else None
               | None => None
               end
             else None
      end
  | EPush p u tail =>
      let r := un s u in
      if Nat.eqb (upool r) p && Nat.eqb (migs r) 0 then
        let ok := match ust r with
                  | UCreated | UResuming | UPopped => true
                  | UCbS k 2 => yield_kind k
                  | _ => false
                  end in
        if ok then
          let pr := po s p in
          Some (mkS (upd (un s) u (with_ust r UQueued))
                    (upd (po s) p (mkP (if tail then q pr ++ [u] else u :: q pr) (nb pr) (cu pr))) (seen s))
        else None
      else None
  | EPop p None _ => match q (po s p) with [] => Some s | _ => None end
  | EPop p (Some u) tail =>
      let pr := po s p in
      let r := un s u in
      let popped := Some (mkS (upd (un s) u (with_ust r UPopped)) (upd (po s) p (mkP (remove1 u (q pr)) (nb pr) (cu pr))) (seen s)) in
      match ust r with
      | UQueued =>
          if tail then (if Nat.eqb (last (q pr) (S u)) u then popped else None)
          else match q pr with y :: _ => if Nat.eqb y u then popped else None | [] => None end
      | _ => None
      end
  | ERemove p u =>
      let pr := po s p in
      let r := un s u in
      match ust r with
      | UQueued => if inb u (q pr) then
                     Some (mkS (upd (un s) u (with_ust r UPopped)) (upd (po s) p (mkP (remove1 u (q pr)) (nb pr) (cu pr))) (seen s))
                   else None
      | _ => None
      end
  | EReqLoad u site j c m =>
      let r := un s u in
      if beq3 j c m (rjoin r) (rcancel r) (rmig r) then
        match site with
        | 2 => match ust r with URunning => Some s | _ => None end
        | 1 => (* termination allowed: ABTI_ythread_schedule, yield-class callbacks *)
            let next (x : ustate) :=
              if c then Some (set_u s u (with_ust r UCancelling))
              else if m then Some (set_u s u (with_mig (with_ust r x) (migt r) 1))
              else Some (set_u s u (with_ust r x)) in
            match ust r with
            | UPopped => if m && negb c then next (UCbS KYield 1) else next UChecked
            | UCbS k 0 => if yield_kind k then next (UCbS k 1) else None
            | _ => None
            end
        | _ => (* suspend-class callbacks: cancellation is not acted upon *)
            match ust r with
            | UCbS k 0 => if suspend_kind k then
                            if m then Some (set_u s u (with_mig (with_ust r (UCbS k 1)) (migt r) 1))
                            else Some (set_u s u (with_ust r (UCbS k 1)))
                          else None
            | _ => None
            end
        end
      else None
  | EReqOr u bit exiter j c m who =>
      let r := un s u in
      if beq3 j c m (rjoin r) (rcancel r) (rmig r) then
        match bit with
        | 0 =>
            let r' := with_req r true c m in
            if exiter then
              (* terminating side: p_link was read as NULL just before *)
              match jw r, ust r with
              | JW0, UFinished | JW0, UCancelling =>
                  Some (set_u s u (with_jw r' (if j then JWSpin else JWNone)))
              | _, _ => None
              end
            else (* a joiner: only the one that finds JOIN clear may later publish itself in p_link *)
              Some (set_u s u (if j then r' else with_jof r' (Some who)))
        | 1 => Some (set_u s u (with_req r j true m))
        | _ => (* migrate: the target must have been stored first *)
            match migt r with Some _ => Some (set_u s u (with_req r j c true)) | None => None end
        end
      else None
  | EReqAnd u bit =>
      let r := un s u in
      match bit with
      | 2 => if Nat.eqb (migs r) 3 then
               Some (set_u s u (with_mig (with_req r (rjoin r) (rcancel r) false) (migt r) 0))
             else None
      | _ => None
      end
  | EState u v =>
      let r := un s u in
      if Nat.eqb (migs r) 0 then
        match v, ust r with
        | 1%Z, UChecked => Some (set_u s u (with_ust_ost r URunning 1))
        | 1%Z, UBlocked | 1%Z, UHandoff => (* resume_*_to / join hand-off: the caller jumps to a blocked unit *)
            Some (set_u s u (with_ust_ost r URunning 1))
        | 1%Z, UPopped | 1%Z, UCreated => (* yield_to / create_to / revive_to / exit_to: run without a request check *)
            Some (set_u s u (with_ust_ost r URunning 1))
        | 0%Z, UCbS k 1 => if yield_kind k then Some (set_u s u (with_ust_ost r (UCbS k 2) 0)) else None
        | 0%Z, UBlocked => Some (set_u s u (with_ust_ost r UResuming 0))
        | 2%Z, UCbS k 2 => if suspend_kind k then Some (set_u s u (with_ust_ost r UBlocked 2)) else None
        | 2%Z, UCbS KResumeSuspendTo 1 =>
            (* caller and resumed unit share the pool: no counter update; the count held for the
               resumed unit now stands for the caller *)
            match cbother r with
            | Some o =>
                let ro := un s o in
                let n := count_occ Nat.eq_dec (cnt ro) (upool r) in
                if negb (Nat.eqb o u) && Nat.eqb (upool r) (upool ro) &&
                   (if must_count (ust ro) then Nat.leb 2 n else Nat.leb 1 n) then
                  let pr := po s (upool r) in
                  Some (mkS (upd (upd (un s) o (with_cnt ro (remove1 (upool r) (cnt ro))))
                                 u (with_cnt (with_ust_ost r UBlocked 2) (upool r :: cnt r)))
                            (upd (po s) (upool r) (mkP (q pr) (nb pr) (u :: remove1 o (cu pr)))) (seen s))
                else None
            | None => None
            end
        | 3%Z, UCbS KExit _ | 3%Z, UCbS KResumeExitTo _ => Some (set_u s u (with_ust_ost r UTerm 3))
        | 3%Z, UCancelling => if jw_settled (un s) (jw r) || negb (isult r)
                              then Some (set_u s u (with_ust_ost r UTerm 3)) else None
        | 3%Z, UFinished => (* tasklet: terminated by the scheduler right after its function returned *)
            if isult r then None else Some (set_u s u (with_ust_ost r UTerm 3))
        | _, _ => None
        end
      else None
  | EStLoad a u site v =>
      if Z.eqb v (ost (un s u)) then Some (mkS (un s) (po s) (upd2 (seen s) a u (Z.eqb v 3))) else None
  | ELinkSt tgt j ext =>
      let r := un s tgt in
      match link r with
      | None =>
          if rjoin r && match jof r with Some x => Nat.eqb x j | None => false end &&
             (ext || match ust (un s j) with UBlocked => true | _ => false end)
          then Some (set_u s tgt (with_link r (Some j))) else None
      | Some _ => None
      end
  | ELinkLd u l =>
      let r := un s u in
      let same := match l, link r with
                  | None, None => true | Some a, Some b => Nat.eqb a b | _, _ => false end in
      if same then
        match ust r, jw r, l with
        | UFinished, JW0, Some j | UCancelling, JW0, Some j
        | UFinished, JWSpin, Some j | UCancelling, JWSpin, Some j => Some (set_u s u (with_jw r (JWHave j)))
        | UFinished, JW0, None | UCancelling, JW0, None => Some s
        | _, _, _ => None
        end
      else None
  | ECb u k other =>
      let r := un s u in
      match k, ust r with
      | KExit, UFinished | KResumeExitTo, UFinished =>
          if jw_settled (un s) (jw r) then Some (set_u s u (with_ust r (UCbS k 0))) else None
      | KExit, _ | KResumeExitTo, _ => None
      | KResumeSuspendTo, URunning =>
          match other with
          | Some o => Some (set_u s u (with_other (with_ust r (UCbS k 0)) (Some o)))
          | None => None
          end
      | _, URunning => Some (set_u s u (with_ust r (UCbS k 0)))
      | _, _ => None
      end
  | EFutexRes u j =>
      let r := un s u in
      match jw r with
      | JWHave j' => (* only a non-yieldable (external / tasklet) joiner sleeps on a futex *)
          if Nat.eqb j j' && negb (isult (un s j)) then Some (set_u s u (with_jw r JWDone)) else None
      | _ => None
      end
  | ENb p inc old u handoff =>
      let pr := po s p in
      let r := un s u in
      if Z.eqb old (nb pr) then
        if inc then
          match ust r with
          | UCbS k 1 =>
              if suspend_kind k && Nat.eqb (upool r) p && Nat.eqb (migs r) 0 &&
                 match k, cbother r with
                 | KResumeSuspendTo, Some o => negb (Nat.eqb (upool r) (upool (un s o)))
                 | KResumeSuspendTo, None => false
                 | _, _ => true
                 end then
                Some (mkS (upd (un s) u (with_cnt (with_ust r (UCbS k 2)) (p :: cnt r)))
                          (upd (po s) p (mkP (q pr) (old + 1) (u :: cu pr))) (seen s))
              else None
          | URunning => (* ABT_thread_yield_to: the caller pre-increments its own pool *)
              if Nat.eqb (upool r) p then
                Some (mkS (upd (un s) u (with_cnt r (p :: cnt r))) (upd (po s) p (mkP (q pr) (old + 1) (u :: cu pr))) (seen s))
              else None
          | _ => None
          end
        else
          (* a resumer decrements only after it has pushed the unit (ABTI_ythread_resume_and_push: the
             pool must never look empty and uncounted while the unit is on its way back); the join
             hand-off decrements for a joiner that is still BLOCKED and is then run directly *)
          let n := count_occ Nat.eq_dec (cnt r) p in
          let ok := if handoff then (match ust r with UBlocked => Nat.leb 1 n | _ => false end)
                    else if must_count (ust r) then Nat.leb 2 n else Nat.leb 1 n in
          if ok then
            Some (mkS (upd (un s) u (with_cnt (if handoff then with_ust r UHandoff else r) (remove1 p (cnt r))))
                      (upd (po s) p (mkP (q pr) (old - 1) (remove1 u (cu pr)))) (seen s))
          else None
      else None
  | EStart u =>
      let r := un s u in
      match ust r with
      | URunning => if fresh r then
          Some (set_u s u (mkU URunning (ost r) (upool r) (isult r) (named r) (rjoin r) (rcancel r) (rmig r) (link r)
                               (migt r) (migs r) (jw r) false (cbother r) (jof r) (cnt r) (S (starts r)) (fins r) (adopted r)))
          else None
      | _ => None
      end
  | EFinish u =>
      let r := un s u in
      match ust r with
      | URunning => if fresh r then None else
          Some (set_u s u (mkU UFinished (ost r) (upool r) (isult r) (named r) (rjoin r) (rcancel r) (rmig r) (link r)
                               (migt r) (migs r) (jw r) false (cbother r) (jof r) (cnt r) (starts r) (S (fins r)) (adopted r)))
      | _ => None
      end
  | EFree u =>
      let r := un s u in
      match ust r with
      | UTerm => Some (set_u s u (with_ust r UFreed))
      | _ => None
      end
  | EMigSt u p => let r := un s u in Some (set_u s u (with_mig r (Some p) (migs r)))
  | EMigLd u p =>
      let r := un s u in
      if Nat.eqb (migs r) 1 then
        match migt r with
        | Some t => if Nat.eqb t p then Some (set_u s u (with_mig r (migt r) 2)) else None
        | None => None
        end
      else None
  | EMigCb u => if Nat.eqb (migs (un s u)) 3 then Some s else None
  | EJoinRet a u => if seen s a u then Some s else None
  | EEmptyLoad p v => if Bool.eqb v (match q (po s p) with [] => true | _ => false end) then Some s else None
  | ENbLoad p v => if Z.eqb v (nb (po s p)) then Some s else None
  end.

Fixpoint run (s : st) (tr : list ev) : option st :=
  match tr with
  | [] => Some s
  | e :: r => match step s e with Some s' => run s' r | None => None end
  end.
