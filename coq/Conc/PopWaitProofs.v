(* Proofs about Conc/PopWait.v: no unit is lost or duplicated by a blocking pop,
   the loop returns empty-handed only after its deadline, and once the deadline
   has passed it returns within one iteration (at most 4 waiter steps). *)
From Coq Require Import List Arith Bool ZArith Lia.
From ABT Require Import Common.ListAux Conc.PopWait.
Import ListNotations.
Local Open Scope Z_scope.

Notation cnt := (count_occ Nat.eq_dec).

Definition cnt_res (p : ppc) (u : nat) : nat :=
  match p with PDone (Some v) => if Nat.eqb v u then 1%nat else 0%nat | _ => 0%nat end.

(* program counters that occur for each kind *)
Definition pc_ok (c : cfg) (p : ppc) : Prop :=
  match kind c, p with
  | VPopWait, (PTest | PLocked | PClock | PSleep | PDone _) => True
  | VTimedWait, (PTest | PLocked | PSleep | PClock2 | PDone _) => True
  | VFifoWait, (PEnter | PCondWait | PDone _) => True
  | _, _ => False
  end.

Record PInv (c : cfg) (s : st) : Prop := {
  v_nodup : NoDup (pushed s);
  (* conservation: every unit ever pushed is in exactly one place *)
  v_cons : forall u, cnt (pushed s) u = (cnt (pool s) u + cnt (others s) u + cnt_res (wloc s) u)%nat;
  v_pc : pc_ok c (wloc s);
  (* an empty-handed return happened after the deadline *)
  v_late : wloc s = PDone None -> overdue c s
}.

Lemma pw_in_b_spec x l : reflect (In x l) (pw_in_b x l).
Proof.
  unfold pw_in_b. destruct (existsb (Nat.eqb x) l) eqn:E; constructor.
  - apply existsb_exists in E. destruct E as (y & Hy & Exy). apply Nat.eqb_eq in Exy. now subst.
  - intros Hin. assert (existsb (Nat.eqb x) l = true); [|congruence].
    apply existsb_exists. exists x. split; auto. apply Nat.eqb_refl.
Qed.

Lemma cnt_single v u : cnt [v] u = if Nat.eqb v u then 1%nat else 0%nat.
Proof. cbn. destruct (Nat.eq_dec v u), (Nat.eqb_spec v u); auto; congruence. Qed.

Lemma pop_head_cnt l u r x : pop_head l = Some (u, r) ->
  cnt l x = (cnt r x + (if Nat.eqb u x then 1 else 0))%nat.
Proof.
  destruct l as [|a l]; cbn; [discriminate|]. intros E; inversion E; subst.
  destruct (Nat.eq_dec u x), (Nat.eqb_spec u x); try congruence; lia.
Qed.

Lemma pop_tail_cnt l u r x : pop_tail l = Some (u, r) ->
  cnt l x = (cnt r x + (if Nat.eqb u x then 1 else 0))%nat.
Proof.
  unfold pop_tail. destruct l as [|a l]; [discriminate|]. intros E; inversion E; subst.
  rewrite (app_removelast_last 0%nat (l := a :: l)) at 1 by discriminate.
  rewrite count_occ_app, cnt_single. reflexivity.
Qed.

Lemma pop_unit_cnt c l u r x : pop_unit c l = Some (u, r) ->
  cnt l x = (cnt r x + (if Nat.eqb u x then 1 else 0))%nat.
Proof.
  unfold pop_unit. destruct (kind c); try apply pop_head_cnt.
  destruct (from_tail c); [apply pop_tail_cnt|apply pop_head_cnt].
Qed.

Lemma pop_unit_none c l : pop_unit c l = None -> l = [].
Proof. unfold pop_unit, pop_tail, pop_head. destruct (kind c), (from_tail c), l; congruence. Qed.

Lemma after_miss_ok c : kind c <> VFifoWait -> pc_ok c (after_miss c) /\ after_miss c <> PDone None.
Proof. unfold pc_ok, after_miss. destruct (kind c); try congruence; split; auto; discriminate. Qed.

(* overdue is stable: the clock is monotone and time_start is written once *)
Lemma overdue_env c s p q cl' :
  clock s <= cl' -> overdue c s ->
  overdue c (mkst p cl' (tstart s) q (pushed s) (others s)).
Proof. unfold overdue. destruct (kind c); cbn; auto; lia. Qed.

Ltac inv_some := match goal with H : Some _ = Some _ |- _ => inversion H; subst; clear H end.

Lemma cnt_res_miss c u : cnt_res (after_miss c) u = 0%nat.
Proof. unfold after_miss. destruct (kind c); auto. Qed.

Lemma wstep_inv c s s' : PInv c s -> wstep c s = Some s' -> PInv c s'.
Proof.
  intros [Hnd Hc Hpc Hl] Hs. unfold wstep in Hs.
  destruct (wloc s) eqn:Ep.
  - (* PTest *)
    assert (Hk : kind c <> VFifoWait) by (intros E; unfold pc_ok in Hpc; rewrite E in Hpc; auto).
    destruct (after_miss_ok c Hk) as [Ha Hn].
    destruct (is_nil (pool s)); inv_some; constructor; cbn; auto; try congruence.
    all: try solve [intros u; rewrite Hc, cnt_res_miss; auto].
    all: try solve [unfold pc_ok in *; destruct (kind c); auto].
  - (* PLocked *)
    assert (Hk : kind c <> VFifoWait) by (intros E; unfold pc_ok in Hpc; rewrite E in Hpc; auto).
    destruct (after_miss_ok c Hk) as [Ha Hn].
    destruct (pop_unit c (pool s)) as [[u r]|] eqn:Epop; inv_some; constructor; cbn; auto;
      try congruence.
    all: try solve [intros x; rewrite Hc, (pop_unit_cnt _ _ _ _ x Epop); cbn; lia].
    all: try solve [intros u; rewrite Hc, cnt_res_miss; auto].
    all: try solve [unfold pc_ok in *; destruct (kind c); auto].
  - (* PClock *)
    unfold pc_ok in Hpc. destruct (kind c) eqn:Ek; try tauto.
    destruct (Z.eqb_spec (tstart s) 0).
    + inv_some. constructor; cbn; auto; try congruence.
      unfold pc_ok. rewrite Ek. auto.
    + destruct (Z.gtb_spec (clock s - tstart s) (secs c)); inv_some; constructor; cbn; auto;
        try congruence; try (unfold pc_ok; rewrite Ek; exact I).
      intros _. unfold overdue. rewrite Ek. cbn. split; auto; lia.
  - (* PSleep *)
    unfold pc_ok in Hpc.
    destruct (kind c) eqn:Ek; try tauto; inv_some; constructor; cbn; auto; try congruence;
      unfold pc_ok; rewrite Ek; exact I.
  - (* PClock2 *)
    unfold pc_ok in Hpc. destruct (kind c) eqn:Ek; try tauto.
    destruct (Z.gtb_spec (clock s) (secs c)); inv_some; constructor; cbn; auto;
      try congruence; try (unfold pc_ok; rewrite Ek; exact I).
    intros _. unfold overdue. rewrite Ek. cbn. lia.
  - (* PEnter *)
    unfold pc_ok in Hpc. destruct (kind c) eqn:Ek; try tauto.
    destruct (is_nil (pool s)).
    + inv_some. constructor; cbn; auto; try congruence.
      unfold pc_ok. rewrite Ek. auto.
    + destruct (pop_head (pool s)) as [[u r]|] eqn:Epop; [|discriminate]. inv_some.
      constructor; cbn; auto; try congruence.
      * intros x. rewrite Hc, (pop_head_cnt _ _ _ x Epop). cbn. lia.
      * unfold pc_ok. rewrite Ek. auto.
  - (* PCondWait *)
    unfold pc_ok in Hpc. destruct (kind c) eqn:Ek; try tauto.
    destruct (pop_head (pool s)) as [[u r]|] eqn:Epop; inv_some; constructor; cbn; auto;
      try congruence; try (unfold pc_ok; rewrite Ek; exact I).
    all: try solve [intros x; rewrite Hc, (pop_head_cnt _ _ _ x Epop); cbn; lia].
    all: try solve [intros _; unfold overdue; rewrite Ek; auto].
  - discriminate.
Qed.

Lemma pw_step_inv c s a s' : PInv c s -> pw_step c s a = Some s' -> PInv c s'.
Proof.
  intros HI Hs. destruct a as [|u| |d]; cbn [pw_step] in Hs.
  - eapply wstep_inv; eauto.
  - destruct HI as [Hnd Hc Hpc Hl]. destruct (pw_in_b_spec u (pushed s)); [discriminate|]. inv_some.
    constructor; cbn; auto.
    all: try solve [apply NoDup_snoc; auto].
    all: try solve [intros x; rewrite !count_occ_app, Hc; lia].
    all: try solve [intros E; specialize (Hl E); revert Hl; unfold overdue; destruct (kind c); cbn; auto].
  - destruct HI as [Hnd Hc Hpc Hl]. destruct (pop_head (pool s)) as [[u r]|] eqn:Ep; [|discriminate].
    inv_some. constructor; cbn; auto.
    all: try solve [intros x; rewrite count_occ_app, cnt_single, Hc, (pop_head_cnt _ _ _ x Ep); lia].
    all: try solve [intros E; specialize (Hl E); revert Hl; unfold overdue; destruct (kind c); cbn; auto].
  - destruct HI as [Hnd Hc Hpc Hl]. destruct (Z.leb_spec 0 d); [|discriminate]. inv_some.
    constructor; cbn; auto.
    all: try solve [intros E; specialize (Hl E); revert Hl; unfold overdue; destruct (kind c); cbn; auto; lia].
Qed.

(* ------------------------------------------------------------------ runs *)
Lemma PInv_init c p0 t0 : NoDup p0 -> PInv c (pw_init c p0 t0).
Proof.
  intros H. constructor; cbn; auto.
  - intros u. unfold pw_entry. destruct (kind c); cbn; lia.
  - unfold pc_ok, pw_entry. destruct (kind c); auto.
  - unfold pw_entry. destruct (kind c); discriminate.
Qed.

Lemma pw_run_inv c : forall acts s s', PInv c s -> pw_run c s acts = Some s' -> PInv c s'.
Proof.
  induction acts as [|a acts IH]; cbn; intros s s' HI H; [inversion H; subst; auto|].
  destruct (pw_step c s a) as [s1|] eqn:E; [|discriminate]. eapply IH; [|eauto]. eapply pw_step_inv; eauto.
Qed.

Lemma cnt_pos_in l (u : nat) : (cnt l u > 0)%nat <-> In u l.
Proof. symmetry. apply count_occ_In. Qed.

Lemma cnt_zero_notin l (u : nat) : cnt l u = 0%nat <-> ~ In u l.
Proof. symmetry. apply count_occ_not_In. Qed.

(* No loss, no duplication: in every reachable state (in particular when the
   blocking pop has returned) every unit that was in the pool at the call or
   was pushed during it is in exactly one place: still in the pool, returned by
   this pop, or taken by another consumer; and nothing else is anywhere. *)
Theorem popwait_no_loss c p0 t0 acts s : NoDup p0 ->
  pw_run c (pw_init c p0 t0) acts = Some s ->
  NoDup (pushed s) /\
  (forall u, In u p0 -> In u (pushed s)) /\
  (forall u, In u (pushed s) ->
     (In u (pool s) /\ ~ In u (others s) /\ pw_result s <> Some (Some u)) \/
     (~ In u (pool s) /\ In u (others s) /\ pw_result s <> Some (Some u)) \/
     (~ In u (pool s) /\ ~ In u (others s) /\ pw_result s = Some (Some u))) /\
  (forall u, ~ In u (pushed s) ->
     ~ In u (pool s) /\ ~ In u (others s) /\ pw_result s <> Some (Some u)) /\
  NoDup (pool s).
Proof.
  intros Hp0 Hrun. pose proof (pw_run_inv c acts _ _ (PInv_init c p0 t0 Hp0) Hrun) as [Hnd Hc _ _].
  assert (Hres : forall u, (cnt_res (wloc s) u = 1%nat /\ pw_result s = Some (Some u)) \/
                           (cnt_res (wloc s) u = 0%nat /\ pw_result s <> Some (Some u))).
  { intros u. unfold pw_result, cnt_res. destruct (wloc s) as [| | | | | | |[v|]];
      try (right; split; [auto|discriminate]).
    destruct (Nat.eqb_spec v u); [left; subst; auto|right; split; auto; congruence]. }
  split; auto. split; [|split; [|split]].
  - clear Hc Hres.
    assert (forall acts s0, pw_run c s0 acts = Some s -> forall u, In u (pushed s0) -> In u (pushed s)).
    { clear. induction acts as [|a acts IH]; cbn; intros s0 H u Hu; [inversion H; subst; auto|].
      destruct (pw_step c s0 a) as [s1|] eqn:E; [|discriminate]. apply (IH s1 H).
      destruct a as [|v| |d]; cbn in E.
      - unfold wstep in E. destruct (wloc s0); try discriminate;
          repeat match type of E with
                 | context [if ?b then _ else _] => destruct b
                 | context [match ?x with _ => _ end] => destruct x eqn:?
                 end; try discriminate; inversion E; subst; cbn; auto.
      - destruct (pw_in_b v (pushed s0)); inversion E; subst; cbn. apply in_or_app; auto.
      - destruct (pop_head (pool s0)) as [[? ?]|]; inversion E; subst; cbn; auto.
      - destruct (0 <=? d); inversion E; subst; cbn; auto. }
    intros u Hu. apply (H acts _ Hrun). exact Hu.
  - intros u Hu. pose proof (Hc u) as E.
    assert (cnt (pushed s) u = 1%nat) as E1 by (apply NoDup_count_occ'; auto). rewrite E1 in E.
    destruct (Hres u) as [[Er Hr]|[Er Hr]]; rewrite Er in E.
    + right; right. rewrite <- !cnt_zero_notin. repeat split; auto; lia.
    + destruct (cnt (pool s) u) eqn:Ep.
      * right; left. rewrite <- cnt_zero_notin, <- cnt_pos_in. repeat split; auto; lia.
      * left. rewrite <- cnt_zero_notin, <- cnt_pos_in. repeat split; auto; lia.
  - intros u Hu. pose proof (Hc u) as E. apply cnt_zero_notin in Hu. rewrite Hu in E.
    rewrite <- !cnt_zero_notin. destruct (Hres u) as [[Er Hr]|[Er Hr]]; rewrite Er in E;
      repeat split; auto; lia.
  - apply (NoDup_count_occ Nat.eq_dec). intros u. pose proof (Hc u) as E.
    pose proof (proj1 (NoDup_count_occ Nat.eq_dec (pushed s)) Hnd u). lia.
Qed.

(* An empty-handed return happens only after the deadline (fifo.c / randws.c;
   fifo_wait.c may return NULL at any time: a single cond timedwait, no loop). *)
Theorem popwait_not_early c p0 t0 acts s : NoDup p0 ->
  pw_run c (pw_init c p0 t0) acts = Some s -> pw_result s = Some None -> overdue c s.
Proof.
  intros Hp0 Hrun Hr. pose proof (pw_run_inv c acts _ _ (PInv_init c p0 t0 Hp0) Hrun) as [_ _ _ Hl].
  apply Hl. unfold pw_result in Hr. destruct (wloc s); congruence.
Qed.

(* ---- once overdue, the loop returns within one iteration ---- *)
Definition dist (c : cfg) (p : ppc) : nat :=
  match kind c, p with
  | VPopWait, PSleep => 4 | VPopWait, PTest => 3 | VPopWait, PLocked => 2 | VPopWait, PClock => 1
  | VTimedWait, PTest => 4 | VTimedWait, PLocked => 3 | VTimedWait, PSleep => 2
  | VTimedWait, PClock2 => 1
  | VFifoWait, PEnter => 2 | VFifoWait, PCondWait => 1
  | _, _ => 0
  end%nat.

Lemma dist_le4 c p : (dist c p <= 4)%nat.
Proof. unfold dist. destruct (kind c), p; lia. Qed.

Lemma dist_zero c p : pc_ok c p -> dist c p = 0%nat -> exists r, p = PDone r.
Proof. unfold pc_ok, dist. destruct (kind c), p; try tauto; try discriminate; eauto. Qed.

Lemma wstep_dist c s s' : pc_ok c (wloc s) -> overdue c s -> wstep c s = Some s' ->
  overdue c s' /\ pc_ok c (wloc s') /\ (dist c (wloc s') < dist c (wloc s))%nat.
Proof.
  unfold pc_ok, overdue, dist, wstep, after_miss, pop_unit.
  destruct (kind c) eqn:Ek, (wloc s) eqn:Ep; try tauto; intros _ Ho Hs;
    repeat match type of Hs with
           | context [if ?b then _ else _] => destruct b eqn:?
           | context [match ?x with _ => _ end] => destruct x eqn:?
           end; try discriminate; inversion Hs; subst; cbn; rewrite ?Ek; cbn;
    try (split; [auto|split; [auto|lia]]); try lia.
  all: try (destruct Ho as [Hn He]; apply Z.eqb_eq in Heqb; congruence).
  all: try (destruct Ho as [Hn He];
            match goal with H : (_ >? _) = false |- _ => apply Z.gtb_ltb in H; rewrite Z.ltb_ge in H end;
            lia).
  all: try (match goal with H : (_ >? _) = false |- _ => rewrite Z.gtb_ltb in H; rewrite Z.ltb_ge in H end; lia).
Qed.

Lemma env_dist c s a s' : a <> PW_W -> overdue c s -> pw_step c s a = Some s' ->
  overdue c s' /\ wloc s' = wloc s.
Proof.
  intros Ha Ho Hs. destruct a as [|u| |d]; [congruence| | |]; cbn in Hs.
  - destruct (pw_in_b u (pushed s)); inversion Hs; subst. split; auto;
    revert Ho; unfold overdue; destruct (kind c); cbn; auto.
  - destruct (pop_head (pool s)) as [[? ?]|]; inversion Hs; subst. split; auto;
    revert Ho; unfold overdue; destruct (kind c); cbn; auto.
  - destruct (Z.leb_spec 0 d); inversion Hs; subst. split; auto;
    revert Ho; unfold overdue; destruct (kind c); cbn; auto; lia.
Qed.

Lemma run_dist c : forall acts s s', pc_ok c (wloc s) -> overdue c s -> pw_run c s acts = Some s' ->
  pc_ok c (wloc s') /\ (dist c (wloc s') + pw_count_w acts <= dist c (wloc s))%nat.
Proof.
  induction acts as [|a acts IH]; cbn [pw_run pw_count_w]; intros s s' Hpc Ho H.
  - inversion H; subst. split; auto. lia.
  - destruct (pw_step c s a) as [s1|] eqn:E; [|discriminate].
    destruct a as [|u| |d].
    + cbn in E. destruct (wstep_dist c s s1 Hpc Ho E) as (Ho1 & Hpc1 & Hd).
      destruct (IH s1 s' Hpc1 Ho1 H) as [Hp' Hd']. split; auto. lia.
    + destruct (env_dist c s (PW_Push u) s1 ltac:(discriminate) Ho E) as [Ho1 Ep].
      destruct (IH s1 s' ltac:(rewrite Ep; auto) Ho1 H) as [Hp' Hd']. rewrite Ep in Hd'. auto.
    + destruct (env_dist c s PW_OtherPop s1 ltac:(discriminate) Ho E) as [Ho1 Ep].
      destruct (IH s1 s' ltac:(rewrite Ep; auto) Ho1 H) as [Hp' Hd']. rewrite Ep in Hd'. auto.
    + destruct (env_dist c s (PW_Tick d) s1 ltac:(discriminate) Ho E) as [Ho1 Ep].
      destruct (IH s1 s' ltac:(rewrite Ep; auto) Ho1 H) as [Hp' Hd']. rewrite Ep in Hd'. auto.
Qed.

(* From any reachable state in which the deadline has passed (pop_wait:
   time_start was read and now - time_start > time_secs; pop_timedwait:
   now > abstime), whatever pushers, other consumers and the clock do, the
   waiter has returned after at most 4 of its own steps (= one loop iteration).
   For fifo_wait.c the premise is void: it returns after 2 steps, the second
   being the end of pthread_cond_timedwait, whose real-time bound is outside
   the model. *)
Theorem popwait_returns c p0 t0 acts1 s acts2 s' : NoDup p0 ->
  pw_run c (pw_init c p0 t0) acts1 = Some s -> overdue c s ->
  pw_run c s acts2 = Some s' -> (4 <= pw_count_w acts2)%nat ->
  exists r, pw_result s' = Some r.
Proof.
  intros Hp0 H1 Ho H2 Hn.
  pose proof (pw_run_inv c acts1 _ _ (PInv_init c p0 t0 Hp0) H1) as [_ _ Hpc _].
  destruct (run_dist c acts2 s s' Hpc Ho H2) as [Hpc' Hd].
  pose proof (dist_le4 c (wloc s)).
  destruct (dist_zero c (wloc s') Hpc' ltac:(lia)) as [r Er].
  exists r. unfold pw_result. now rewrite Er.
Qed.

(* the waiter is never stuck: while it has not returned its next step exists *)
Theorem popwait_progress c p0 t0 acts s : NoDup p0 ->
  pw_run c (pw_init c p0 t0) acts = Some s -> pw_result s = None -> exists s', wstep c s = Some s'.
Proof.
  intros Hp0 H1 Hr. pose proof (pw_run_inv c acts _ _ (PInv_init c p0 t0 Hp0) H1) as [_ _ Hpc _].
  unfold pw_result in Hr. unfold wstep, pc_ok in *.
  destruct (wloc s); try discriminate;
    repeat match goal with
           | |- context [if ?b then _ else _] => destruct b eqn:?
           | |- context [match ?x with _ => _ end] => destruct x eqn:?
           end; eauto.
  destruct (pool s); cbn in *; discriminate.
Qed.
