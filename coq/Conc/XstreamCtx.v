(* C17 — LTS of the native-thread protocol of src/arch/abtd_stream.c for one
   ABTD_xstream_context: the stream's native thread (role [RS], running
   xstream_context_thread_func) and one controller (role [RC], calling
   ABTD_xstream_context_join / _revive / _free in the order stream.c calls
   them).  One pthread mutex (state_lock), one condition variable (state_cond),
   the shared word p_ctx->state.

   One LTS step = one pthread call, one call/return of the stream function, one
   read / write / assertion on p_ctx->state (all of which happen with the mutex
   held), or one begin/end of a controller operation.  Spurious wake-ups are
   separate actions ([ASpur]) enabled whenever a party sleeps.  The stream
   function may return at any time.  The controller may start any operation the
   caller protocol of stream.c allows (join at any time before free;
   revive / free only after a join returned and before the next revive), in any
   order, any number of times: the runs of the LTS are all interleavings of all
   such controller programs.

   Visible labels are exactly the calls the correspondence harness records
   (harness/h_c17.c wraps the pthread_* calls of a textual copy of
   abtd_stream.c), so a recorded history of the real code can be replayed
   through [fstep] ([replay]).

   Model code only; proofs are in Conc/XstreamCtxProofs.v. *)
From Coq Require Import List Arith Bool.
Import ListNotations.

(* ABTD_xstream_context_state (abtd.h), in declaration order 0..3 *)
Inductive cst := RUNNING | WAITING | REQ_JOIN | REQ_TERMINATE.

Inductive role := RS | RC.

Inductive cop := OJoin | ORevive | OFree.

(* program counter of xstream_context_thread_func *)
Inductive spc :=
| S_Call              (* about to call thread_f(p_arg) *)
| S_Run               (* inside thread_f *)
| S_Lock              (* pthread_mutex_lock(&state_lock) *)
| S_Check             (* if (state == REQ_JOIN) *)
| S_Signal            (*   pthread_cond_signal(&state_cond) *)
| S_SetWaiting        (* state = WAITING *)
| S_Wait              (* do { pthread_cond_wait: release the mutex, sleep *)
| S_Sleep             (*   asleep in pthread_cond_wait *)
| S_Woken             (*   signalled or spuriously woken: re-acquiring the mutex *)
| S_Loop              (* } while (state == WAITING) *)
| S_Decide            (* if (state == REQ_TERMINATE) ... else ABTI_ASSERT(RUNNING || REQ_JOIN) *)
| S_Unlock (restart : bool)  (* pthread_mutex_unlock; if (!restart) break *)
| S_Ret               (* return NULL *)
| S_Dead.             (* native thread finished *)

(* program counter of the controller *)
Inductive cpc :=
| C_Idle
| C_Lock (o : cop)    (* pthread_mutex_lock at the top of join / revive / free *)
| C_J_Check           (* join: if (state != WAITING) { ABTI_ASSERT(state == RUNNING) *)
| C_J_SetReq          (*   state = REQ_JOIN *)
| C_J_Wait            (*   do { pthread_cond_wait *)
| C_J_Sleep
| C_J_Woken
| C_J_Loop            (*   } while (state == REQ_JOIN) } *)
| C_J_Assert          (* ABTI_ASSERT(state == WAITING) *)
| C_R_Assert          (* revive: ABTI_ASSERT(state == WAITING) *)
| C_R_Set             (* state = RUNNING *)
| C_F_Assert          (* free: ABTI_ASSERT(state == WAITING) *)
| C_F_Set             (* state = REQ_TERMINATE *)
| C_Signal (o : cop)  (* pthread_cond_signal (revive / free) *)
| C_Unlock (o : cop)  (* pthread_mutex_unlock *)
| C_F_PJoin           (* pthread_join(native_thread) *)
| C_F_CondDestroy
| C_F_MutexDestroy
| C_Ret (o : cop)     (* the operation returns to stream.c *)
| C_Done.             (* context freed *)

Record fstate := mkF {
  cs : cst;                 (* p_ctx->state *)
  mtx : option role;        (* holder of state_lock *)
  ps : spc;
  pc : cpc;
  joined : bool;            (* ghost: a join has returned and no revive since *)
  pending : bool;           (* ghost: a (re)start of thread_f is owed *)
  err : bool                (* an ABTI_ASSERT failed / pthread misuse / ghost discipline broken *)
}.

Inductive action :=
| AStep (r : role)          (* r executes its next instruction *)
| ASpur (r : role)          (* r wakes up spuriously from pthread_cond_wait *)
| ACall (o : cop).          (* the controller starts an operation *)

Inductive label :=
| LTau                      (* read / assertion / wake-up: not recorded *)
| LSet (v : cst)            (* write to p_ctx->state: not recorded *)
| LFCall | LFRet            (* thread_f called / returned *)
| LLock (r : role) | LUnlock (r : role)
| LSignal (r : role)
| LWaitEnter (r : role) | LWaitRet (r : role)
| LExit                     (* xstream_context_thread_func returns *)
| LBegin (o : cop) | LEnd (o : cop)
| LPJoin | LCondDestroy | LMutexDestroy.

Definition cst_eqb (a b : cst) : bool :=
  match a, b with
  | RUNNING, RUNNING | WAITING, WAITING | REQ_JOIN, REQ_JOIN
  | REQ_TERMINATE, REQ_TERMINATE => true
  | _, _ => false
  end.

Definition free_mtx (s : fstate) : bool := match mtx s with None => true | Some _ => false end.

(* setters *)
Definition w_cs (s : fstate) v := mkF v (mtx s) (ps s) (pc s) (joined s) (pending s) (err s).
Definition w_mtx (s : fstate) v := mkF (cs s) v (ps s) (pc s) (joined s) (pending s) (err s).
Definition w_ps (s : fstate) v := mkF (cs s) (mtx s) v (pc s) (joined s) (pending s) (err s).
Definition w_pc (s : fstate) v := mkF (cs s) (mtx s) (ps s) v (joined s) (pending s) (err s).
Definition w_joined (s : fstate) v := mkF (cs s) (mtx s) (ps s) (pc s) v (pending s) (err s).
Definition w_pending (s : fstate) v := mkF (cs s) (mtx s) (ps s) (pc s) (joined s) v (err s).
Definition w_err (s : fstate) := mkF (cs s) (mtx s) (ps s) (pc s) (joined s) (pending s) true.
(* ABTI_ASSERT(c) *)
Definition assert (c : bool) (s : fstate) : fstate := if c then s else w_err s.

(* after ABTD_xstream_context_create succeeded: state = RUNNING, the new native
   thread is about to call thread_f for the first time *)
Definition finit : fstate := mkF RUNNING None S_Call C_Idle false true false.

(* [strict] = the controller respects the caller protocol of stream.c.  With
   strict = false the controller may call revive / free at any idle moment
   (used only to show that the protocol is needed). *)
Definition fstep (strict : bool) (s : fstate) (a : action) : option (fstate * label) :=
  match a with
  | AStep RS =>
    match ps s with
    | S_Call =>
      (* one owed start is consumed; a start that nobody asked for is an error *)
      Some (w_ps (w_pending (assert (pending s) s) false) S_Run, LFCall)
    | S_Run => Some (w_ps s S_Lock, LFRet)
    | S_Lock => if free_mtx s then Some (w_ps (w_mtx s (Some RS)) S_Check, LLock RS) else None
    | S_Check =>
      Some (w_ps s (if cst_eqb (cs s) REQ_JOIN then S_Signal else S_SetWaiting), LTau)
    | S_Signal =>
      let s1 := match pc s with C_J_Sleep => w_pc s C_J_Woken | _ => s end in
      Some (w_ps s1 S_SetWaiting, LSignal RS)
    | S_SetWaiting => Some (w_ps (w_cs s WAITING) S_Wait, LSet WAITING)
    | S_Wait => Some (w_ps (w_mtx s None) S_Sleep, LWaitEnter RS)
    | S_Sleep => None
    | S_Woken => if free_mtx s then Some (w_ps (w_mtx s (Some RS)) S_Loop, LWaitRet RS) else None
    | S_Loop => Some (w_ps s (if cst_eqb (cs s) WAITING then S_Wait else S_Decide), LTau)
    | S_Decide =>
      if cst_eqb (cs s) REQ_TERMINATE then Some (w_ps s (S_Unlock false), LTau)
      else Some (w_ps (assert (cst_eqb (cs s) RUNNING || cst_eqb (cs s) REQ_JOIN) s)
                      (S_Unlock true), LTau)
    | S_Unlock b => Some (w_ps (w_mtx s None) (if b then S_Call else S_Ret), LUnlock RS)
    | S_Ret => Some (w_ps s S_Dead, LExit)
    | S_Dead => None
    end
  | ASpur RS =>
    match ps s with S_Sleep => Some (w_ps s S_Woken, LTau) | _ => None end
  | ASpur RC =>
    match pc s with C_J_Sleep => Some (w_pc s C_J_Woken, LTau) | _ => None end
  | ACall o =>
    match pc s with
    | C_Idle =>
      let allowed := match o with OJoin => true | _ => joined s end in
      if allowed || negb strict then Some (w_pc s (C_Lock o), LBegin o) else None
    | _ => None
    end
  | AStep RC =>
    match pc s with
    | C_Idle => None
    | C_Lock o =>
      if free_mtx s then
        Some (w_pc (w_mtx s (Some RC))
                   (match o with OJoin => C_J_Check | ORevive => C_R_Assert | OFree => C_F_Assert end),
              LLock RC)
      else None
    | C_J_Check =>
      if cst_eqb (cs s) WAITING then Some (w_pc s C_J_Assert, LTau)
      else Some (w_pc (assert (cst_eqb (cs s) RUNNING) s) C_J_SetReq, LTau)
    | C_J_SetReq => Some (w_pc (w_cs s REQ_JOIN) C_J_Wait, LSet REQ_JOIN)
    | C_J_Wait => Some (w_pc (w_mtx s None) C_J_Sleep, LWaitEnter RC)
    | C_J_Sleep => None
    | C_J_Woken => if free_mtx s then Some (w_pc (w_mtx s (Some RC)) C_J_Loop, LWaitRet RC) else None
    | C_J_Loop => Some (w_pc s (if cst_eqb (cs s) REQ_JOIN then C_J_Wait else C_J_Assert), LTau)
    | C_J_Assert => Some (w_pc (assert (cst_eqb (cs s) WAITING) s) (C_Unlock OJoin), LTau)
    | C_R_Assert => Some (w_pc (assert (cst_eqb (cs s) WAITING) s) C_R_Set, LTau)
    | C_R_Set =>
      (* a revive while a start is still owed would start thread_f twice *)
      Some (w_pc (w_pending (w_cs (assert (negb (pending s)) s) RUNNING) true) (C_Signal ORevive),
            LSet RUNNING)
    | C_F_Assert => Some (w_pc (assert (cst_eqb (cs s) WAITING) s) C_F_Set, LTau)
    | C_F_Set => Some (w_pc (w_cs s REQ_TERMINATE) (C_Signal OFree), LSet REQ_TERMINATE)
    | C_Signal o =>
      let s1 := match ps s with S_Sleep => w_ps s S_Woken | _ => s end in
      Some (w_pc s1 (C_Unlock o), LSignal RC)
    | C_Unlock o =>
      Some (w_pc (w_mtx s None) (match o with OFree => C_F_PJoin | _ => C_Ret o end), LUnlock RC)
    | C_F_PJoin =>
      match ps s with S_Dead => Some (w_pc s C_F_CondDestroy, LPJoin) | _ => None end
    | C_F_CondDestroy =>
      (* destroying a condition variable somebody sleeps on is undefined *)
      Some (w_pc (assert (match ps s with S_Sleep | S_Woken => false | _ => true end) s)
                 C_F_MutexDestroy, LCondDestroy)
    | C_F_MutexDestroy => Some (w_pc (assert (free_mtx s) s) (C_Ret OFree), LMutexDestroy)
    | C_Ret o =>
      match o with
      | OJoin => Some (w_pc (w_joined s true) C_Idle, LEnd o)
      | ORevive => Some (w_pc (w_joined s false) C_Idle, LEnd o)
      | OFree => Some (w_pc s C_Done, LEnd o)
      end
    | C_Done => None
    end
  end.

(* ---- full state: finite control + ghost event counters ---- *)
Record state := mkS {
  fin : fstate;
  runs : nat;      (* number of calls of thread_f *)
  rets : nat;      (* number of returns of thread_f *)
  revs : nat       (* number of revive requests (state = RUNNING written) *)
}.
Definition init : state := mkS finit 0 0 0.

Definition count (s : state) (f : fstate) (l : label) : state :=
  match l with
  | LFCall => mkS f (S (runs s)) (rets s) (revs s)
  | LFRet => mkS f (runs s) (S (rets s)) (revs s)
  | LSet RUNNING => mkS f (runs s) (rets s) (S (revs s))
  | _ => mkS f (runs s) (rets s) (revs s)
  end.

Definition step (strict : bool) (s : state) (a : action) : option state :=
  match fstep strict (fin s) a with
  | Some (f, l) => Some (count s f l)
  | None => None
  end.

Fixpoint run (strict : bool) (s : state) (acts : list action) : option state :=
  match acts with
  | [] => Some s
  | a :: acts' => match step strict s a with Some s' => run strict s' acts' | None => None end
  end.

Definition final (f : fstate) : bool :=
  match pc f, ps f, mtx f with C_Done, S_Dead, None => true | _, _, _ => false end.

Definition is_spur (a : action) : bool := match a with ASpur _ => true | _ => false end.

(* ---- replay of a recorded history ---- *)
Definition visible (l : label) : bool :=
  match l with LTau | LSet _ => false | _ => true end.

Definition label_eqb (a b : label) : bool :=
  let r_eqb (x y : role) := match x, y with RS, RS | RC, RC => true | _, _ => false end in
  let o_eqb (x y : cop) := match x, y with OJoin, OJoin | ORevive, ORevive | OFree, OFree => true | _, _ => false end in
  match a, b with
  | LTau, LTau | LFCall, LFCall | LFRet, LFRet | LExit, LExit | LPJoin, LPJoin
  | LCondDestroy, LCondDestroy | LMutexDestroy, LMutexDestroy => true
  | LSet x, LSet y => cst_eqb x y
  | LLock x, LLock y | LUnlock x, LUnlock y | LSignal x, LSignal y
  | LWaitEnter x, LWaitEnter y | LWaitRet x, LWaitRet y => r_eqb x y
  | LBegin x, LBegin y | LEnd x, LEnd y => o_eqb x y
  | _, _ => false
  end.

Definition role_of (l : label) : role :=
  match l with
  | LFCall | LFRet | LExit => RS
  | LLock r | LUnlock r | LSignal r | LWaitEnter r | LWaitRet r => r
  | _ => RC
  end.

(* the action by which role [r] can produce the recorded label [l] next *)
Definition act_for (s : fstate) (l : label) : action :=
  match l with
  | LBegin o => ACall o
  | _ =>
    match role_of l with
    | RS => match ps s with S_Sleep => ASpur RS | _ => AStep RS end
    | RC => match pc s with C_J_Sleep => ASpur RC | _ => AStep RC end
    end
  end.

(* run unrecorded steps of the label's role until it emits a recorded label,
   which must be [l] *)
Fixpoint advance (fuel : nat) (s : fstate) (l : label) : option fstate :=
  match fuel with
  | O => None
  | S fuel' =>
    match fstep true s (act_for s l) with
    | None => None
    | Some (s', l') =>
      if visible l' then (if label_eqb l' l then Some s' else None)
      else advance fuel' s' l
    end
  end.

(* one recorded event: label, the value of p_ctx->state sampled by the wrapper
   (None when the recording thread did not hold the mutex), and whether the
   recording thread held the mutex *)
Definition event := (label * option cst * bool)%type.

Definition holds (s : fstate) (r : role) : bool :=
  match mtx s, r with Some RS, RS | Some RC, RC => true | _, _ => false end.

(* [held_before l]: must the thread hold the mutex when it makes this call? *)
Definition needs_mutex (l : label) : bool :=
  match l with
  | LUnlock _ | LSignal _ | LWaitEnter _ => true
  | _ => false
  end.

Inductive verdict := VOk (s : fstate) | VReject (index : nat) | VErr (index : nat).

Fixpoint replay (i : nat) (s : fstate) (h : list event) : verdict :=
  match h with
  | [] => VOk s
  | (l, sample, held) :: h' =>
    let pre_ok := if needs_mutex l then held && holds s (role_of l) else true in
    if negb pre_ok then VReject i else
    match advance 8 s l with
    | None => VReject i
    | Some s' =>
      if err s' then VErr i
      else
        let sample_ok := match sample with Some v => cst_eqb v (cs s') | None => true end in
        let held_ok := match l with
                       | LLock r | LWaitRet r => held && holds s' r
                       | _ => true
                       end in
        if sample_ok && held_ok then replay (S i) s' h' else VReject i
    end
  end.
