(* Proofs about Conc/KtableConc.v: lazy creation happens once, concurrent appends keep the
   chains well formed, lock-free readers are linearizable, and the NULL-table path. *)
From Coq Require Import List ZArith Bool Arith Lia.
From ABT Require Import Common.ListAux Conc.KtableConc.
Import ListNotations.
Local Open Scope Z_scope.

(* ------------------------------------------------------------------ small facts *)
Lemma upd_same {A} (f : nat -> A) t v : upd f t v t = v.
Proof. unfold upd. now rewrite Nat.eqb_refl. Qed.
Lemma upd_other {A} (f : nat -> A) t v x : x <> t -> upd f t v x = f x.
Proof. unfold upd. intros H. apply Nat.eqb_neq in H. now rewrite H. Qed.
Lemma upd2_same f n i c : upd2 f n i c n i = c.
Proof. unfold upd2. now rewrite !Nat.eqb_refl. Qed.
Lemma upd2_other f n i c n' i' : (n', i') <> (n, i) -> upd2 f n i c n' i' = f n' i'.
Proof.
  unfold upd2. intros H. destruct (Nat.eqb_spec n' n), (Nat.eqb_spec i' i); cbn; auto. congruence.
Qed.

Definition keys (c : list elem) : list Z := map ekey c.

Lemma store_at_keys c pos v : keys (store_at c pos v) = keys c.
Proof. revert pos; induction c as [|e c IH]; intros [|p]; cbn; auto. f_equal. apply IH. Qed.

Lemma store_at_length c pos v : length (store_at c pos v) = length c.
Proof. revert pos; induction c as [|e c IH]; intros [|p]; cbn; auto. Qed.

Lemma walk_from_found c k : forall pos i, walk_from c k pos = inl i ->
  exists j, i = (pos + j)%nat /\ nth_error (keys c) j = Some k /\ ~ In k (firstn j (keys c)).
Proof.
  induction c as [|e c IH]; intros pos i H; cbn in H; [discriminate|].
  destruct (Z.eqb_spec (ekey e) k) as [E|E].
  - inversion H; subst. exists O. repeat split; cbn; auto; try lia; try congruence.
  - destruct (IH _ _ H) as (j & -> & Hn & Hf). exists (S j). repeat split; auto; try lia.
    cbn. intros [?|?]; auto.
Qed.

Lemma walk_from_tail c k : forall pos m, walk_from c k pos = inr m ->
  m = (pos + length c)%nat /\ ~ In k (keys c).
Proof.
  induction c as [|e c IH]; intros pos m H; cbn in H.
  - inversion H; subst. split; [cbn; lia|intros []].
  - destruct (Z.eqb_spec (ekey e) k) as [E|E]; [discriminate|].
    destruct (IH _ _ H) as [-> Hn]. split; [cbn; lia|]. cbn. intros [?|?]; auto.
Qed.

(* chain_val = value of the first element with the key *)
Lemma chain_val_none c k : chain_val c k = None <-> ~ In k (keys c).
Proof.
  induction c as [|e c IH]; cbn; [tauto|]. destruct (Z.eqb_spec (ekey e) k); [intuition congruence|].
  rewrite IH. intuition.
Qed.

Lemma chain_val_nth c k pos e :
  nth_error c pos = Some e -> ekey e = k -> ~ In k (firstn pos (keys c)) -> chain_val c k = Some (eval_ e).
Proof.
  revert pos; induction c as [|a c IH]; intros [|p] Hn Hk Hf; try discriminate; cbn in *.
  - inversion Hn; subst. rewrite Z.eqb_refl. reflexivity.
  - destruct (Z.eqb_spec (ekey a) k); [tauto|]. eapply IH; eauto.
Qed.

Lemma NoDup_first_only (l : list Z) k pos :
  NoDup l -> nth_error l pos = Some k -> ~ In k (firstn pos l).
Proof.
  revert pos; induction l as [|a l IH]; intros [|p] N H; cbn in *; try discriminate; auto.
  inversion N; subst. intros [->|Hin].
  - apply H2. eapply nth_error_In; eauto.
  - eapply IH; eauto.
Qed.

Lemma chain_val_store c pos v k k' :
  nth_error (keys c) pos = Some k -> ~ In k (firstn pos (keys c)) ->
  chain_val (store_at c pos v) k' = if k' =? k then Some v else chain_val c k'.
Proof.
  revert pos; induction c as [|a c IH]; intros [|p] Hn Hf; try discriminate; cbn in *.
  - inversion Hn; subst. rewrite (Z.eqb_sym k' (ekey a)). destruct (ekey a =? k'); auto.
  - destruct (Z.eqb_spec (ekey a) k) as [E|E]; [tauto|].
    rewrite (IH p Hn) by tauto. destruct (Z.eqb_spec (ekey a) k'); auto.
    destruct (Z.eqb_spec k' k); auto. congruence.
Qed.

Lemma chain_val_app c e k' :
  chain_val (c ++ [e]) k' =
  match chain_val c k' with Some x => Some x | None => if ekey e =? k' then Some (eval_ e) else None end.
Proof. induction c as [|a c IH]; cbn; auto. destruct (ekey a =? k'); auto. Qed.

Section P.
Variable slot : Z -> nat.
Variable fixed : bool.
Notation step := (step slot fixed).
Notation run := (run slot fixed).
Notation chain_of := (chain_of slot).
Notation view := (view slot).

(* ------------------------------------------------------------------ classification of program counters *)
Definition creating (p : pcT) : bool :=
  match p with SCreate _ | SPublish _ _ | SFailStore _ => true | _ => false end.
Definition incrit (n : nat) (p : pcT) : bool :=
  match p with SCrit _ n' _ => Nat.eqb n' n | _ => false end.
Definition oeq (o : option nat) (x : nat) : bool :=
  match o with Some y => Nat.eqb y x | None => false end.
(* the table a thread works on, once it has one *)
Definition tab_of (p : pcT) : option nat :=
  match p with
  | SWalk _ (Some n) _ | SStore _ n _ | SLockAcq _ n _ | SCrit _ n _ | GWalk _ n _ | GRead _ n _ => Some n
  | _ => None
  end.
Definition nulltab (p : pcT) : bool :=
  match p with SWalk _ None _ | Crash => true | _ => false end.
Definition spinning (p : pcT) : bool := match p with SSpin _ => true | _ => false end.
Definition failstore (p : pcT) : bool := match p with SFailStore _ => true | _ => false end.

(* a walker at link [pos] of the chain of its key has seen no element with the key so far;
   a thread about to store / read element [pos] has found the key there *)
Definition walk_ok (ch : nat -> nat -> list elem) (p : pcT) : Prop :=
  match p with
  | SWalk c (Some n) pos | SLockAcq c n pos | SCrit c n pos =>
      let l := keys (ch n (slot (c_key c))) in (pos <= length l)%nat /\ ~ In (c_key c) (firstn pos l)
  | GWalk k n pos =>
      let l := keys (ch n (slot k)) in (pos <= length l)%nat /\ ~ In k (firstn pos l)
  | SStore c n pos => nth_error (keys (ch n (slot (c_key c)))) pos = Some (c_key c)
  | GRead k n pos => nth_error (keys (ch n (slot k))) pos = Some k
  | _ => True
  end.
Definition pub_ok (s : st) (p : pcT) : Prop :=
  match p with
  | SPublish _ n => n = O /\ ntab s = 1%nat
  | SCreate _ | SFailStore _ => ntab s = O
  | _ => True
  end.

Record Inv (s : st) : Prop := {
  i_creator : forall x, creating (pc s x) = oeq (creator s) x;
  i_locked  : word s = WLocked <-> creator s <> None;
  i_null    : word s = WNull -> ntab s = O;
  i_tab     : forall n, word s = WTab n -> n = O /\ ntab s = 1%nat;
  i_pub     : forall x, pub_ok s (pc s x);
  i_tabpc   : forall x n, tab_of (pc s x) = Some n -> word s = WTab n;
  i_fresh   : forall n i, (ntab s <= n)%nat -> chains s n i = [];
  i_lock    : forall n x, incrit n (pc s x) = oeq (lock s n) x;
  i_nodup   : forall n i, NoDup (keys (chains s n i));
  i_slot    : forall n i k, In k (keys (chains s n i)) -> slot k = i;
  i_walk    : forall x, walk_ok (chains s) (pc s x);
  (* the NULL-table path never happens (fixed = true) / needs a failed creation (fixed = false) *)
  i_null1   : (fixed = true \/ cfailed s = false) -> forall x, nulltab (pc s x) = false;
  i_null2   : cfailed s = false -> forall x, failstore (pc s x) = false;
  i_null3   : cfailed s = false -> forall x, spinning (pc s x) = true -> word s <> WNull;
  (* nothing is stored anywhere before a table is published *)
  i_empty   : (forall n, word s <> WTab n) -> forall n i, chains s n i = []
}.

Lemma inv_init : Inv init.
Proof.
  split; cbn; auto; try discriminate; try tauto.
  - split; [discriminate|tauto].
  - constructor.
Qed.

(* ------------------------------------------------------------------ steps that only move one thread *)
Lemma neqb x t : x <> t -> Nat.eqb x t = false.
Proof. intros H. apply Nat.eqb_neq; auto. Qed.

Lemma inv_setpc s t p :
  Inv s ->
  creating p = creating (pc s t) ->
  (forall n, incrit n p = incrit n (pc s t)) ->
  pub_ok s p ->
  (forall n, tab_of p = Some n -> word s = WTab n) ->
  walk_ok (chains s) p ->
  ((fixed = true \/ cfailed s = false) -> nulltab p = false) ->
  (cfailed s = false -> failstore p = false) ->
  (cfailed s = false -> spinning p = true -> word s <> WNull) ->
  Inv (setpc s t p).
Proof.
  intros [I1 I2 I3 I4 I5 I6 I7 I8 I9 I10 I11 I12 I13 I14 I15] C1 C2 C3 C4 C5 C6 C7 C8.
  split; cbn [setpc word creator ntab cfailed chains lock pc]; auto.
  all: intros; repeat match goal with
       | |- context [upd _ ?tt _ ?x] =>
           let E := fresh "E" in
           destruct (Nat.eq_dec x tt) as [E|E]; [subst x; rewrite ?upd_same in *|rewrite ?upd_other in * by assumption]
       | _ : context [upd _ ?tt _ ?x] |- _ =>
           let E := fresh "E" in
           destruct (Nat.eq_dec x tt) as [E|E]; [subst x; rewrite ?upd_same in *|rewrite ?upd_other in * by assumption]
       end; eauto.
  all: try (rewrite C1; auto); try (rewrite C2; auto).
  all: try (apply C4; assumption); try (apply C8; assumption).
Qed.

Ltac upd_cases :=
  repeat match goal with
  | |- context [upd _ ?tt _ ?x] =>
      let E := fresh "E" in
      destruct (Nat.eq_dec x tt) as [E|E]; [subst x; rewrite ?upd_same in *|rewrite ?upd_other in * by assumption]
  | _ : context [upd _ ?tt _ ?x] |- _ =>
      let E := fresh "E" in
      destruct (Nat.eq_dec x tt) as [E|E]; [subst x; rewrite ?upd_same in *|rewrite ?upd_other in * by assumption]
  end.

Lemma firstn_S_nth {A} (l : list A) pos a :
  nth_error l pos = Some a -> firstn (S pos) l = firstn pos l ++ [a].
Proof.
  revert pos; induction l as [|b l IH]; intros [|p] H; cbn in *; try discriminate.
  - inversion H; subst; auto.
  - f_equal. apply IH; auto.
Qed.

Lemma nth_error_keys c pos e : nth_error c pos = Some e -> nth_error (keys c) pos = Some (ekey e).
Proof. intros H. unfold keys. apply map_nth_error. exact H. Qed.

Lemma oeq_eq o x : oeq o x = true <-> o = Some x.
Proof.
  destruct o as [y|]; cbn; [|split; discriminate]. rewrite Nat.eqb_eq. split; congruence.
Qed.

(* walkers are not disturbed when chains only grow at the tail / have values overwritten *)
Definition kprefix (ch ch' : nat -> nat -> list elem) : Prop :=
  forall n i, exists r, keys (ch' n i) = keys (ch n i) ++ r.

Lemma walk_ok_mono ch ch' p : kprefix ch ch' -> walk_ok ch p -> walk_ok ch' p.
Proof.
  intros K. unfold walk_ok.
  assert (W : forall n i k pos, let l := keys (ch n i) in let l' := keys (ch' n i) in
            (pos <= length l)%nat /\ ~ In k (firstn pos l) -> (pos <= length l')%nat /\ ~ In k (firstn pos l')).
  { intros n i k pos l l' [H1 H2]. destruct (K n i) as [r Hr]. subst l l'. rewrite Hr.
    rewrite app_length. split; [lia|]. rewrite firstn_app.
    replace (pos - length (keys (ch n i)))%nat with O by lia. cbn. rewrite app_nil_r. auto. }
  assert (N : forall n i k pos, nth_error (keys (ch n i)) pos = Some k -> nth_error (keys (ch' n i)) pos = Some k).
  { intros n i k pos H. destruct (K n i) as [r Hr]. rewrite Hr. rewrite nth_error_app1; auto.
    apply nth_error_Some. congruence. }
  destruct p as [| | | | | | | |c [n|] pos|c n pos|c n pos|c n pos| | | |k n pos|k n pos|]; auto.
Qed.

Lemma kprefix_store ch n i pos v : kprefix ch (upd2 ch n i (store_at (ch n i) pos v)).
Proof.
  intros n' i'. exists []. rewrite app_nil_r. unfold upd2.
  destruct (Nat.eqb_spec n' n), (Nat.eqb_spec i' i); cbn; auto. subst. apply store_at_keys.
Qed.

Lemma kprefix_app ch n i e : kprefix ch (upd2 ch n i (ch n i ++ [e])).
Proof.
  intros n' i'. unfold upd2.
  destruct (Nat.eqb_spec n' n), (Nat.eqb_spec i' i); cbn; try (exists []; rewrite app_nil_r; reflexivity).
  subst. exists [ekey e]. unfold keys. rewrite map_app. reflexivity.
Qed.


Lemma nth_error_skipn_add {A} (l : list A) n j : nth_error (skipn n l) j = nth_error l (n + j).
Proof. revert l; induction n as [|n IH]; intros [|a l]; cbn; auto. destruct j; auto. Qed.

Lemma keys_skipn n c : keys (skipn n c) = skipn n (keys c).
Proof. unfold keys. symmetry. apply skipn_map. Qed.

Lemma notin_split (l : list Z) n k : ~ In k (firstn n l) -> ~ In k (skipn n l) -> ~ In k l.
Proof. intros H1 H2 H. rewrite <- (firstn_skipn n l) in H. apply in_app_or in H. tauto. Qed.

Ltac side_setpc Ept :=
  rewrite ?Ept; cbn [creating incrit pub_ok tab_of walk_ok nulltab failstore spinning];
  try reflexivity; try tauto; try discriminate; auto;
  try solve [ let n0 := fresh in let E := fresh in intros n0 E; inversion E; subst; auto
            | cbn; split; [lia|tauto]
            | intros; congruence ].

Lemma step_inv s t a s' : Inv s -> step s t a = Some s' -> Inv s'.
Proof.
  intros I H.
  pose proof (i_creator _ I t) as Ic. pose proof (i_pub _ I t) as Ip.
  pose proof (i_tabpc _ I t) as It. pose proof (fun n => i_lock _ I n t) as Il.
  pose proof (i_walk _ I t) as Iw. pose proof (fun h => i_null1 _ I h t) as In1.
  pose proof (fun h => i_null2 _ I h t) as In2. pose proof (fun h => i_null3 _ I h t) as In3.
  unfold step in H.
  destruct (pc s t) as [|c|c|c|c n|c|c|c|c [n|] pos|c n pos|c n pos|c n pos|rc| |k|k n pos|k n pos|v] eqn:Ept;
    destruct a as [c'|k'|ok]; cbv beta iota in H; try discriminate.
  (* Idle *)
  1-2: inversion H; subst; apply inv_setpc; auto; side_setpc Ept.
  (* S0 *)
  - destruct (word s) eqn:Ew; inversion H; subst; apply inv_setpc; auto; side_setpc Ept.
  - (* SCas *)
    destruct (word s) eqn:Ew; [destruct ok| |]; try (inversion H; subst; apply inv_setpc; auto; side_setpc Ept; fail).
    destruct I as [I1 I2 I3 I4 I5 I6 I7 I8 I9 I10 I11 I12 I13 I14 I15].
    assert (Ecr : creator s = None).
    { destruct (creator s) eqn:E; auto. assert (word s = WLocked) by (apply I2; congruence). congruence. }
    inversion H; subst s'; clear H.
    split; cbn [word creator ntab cfailed chains lock pc]; auto.
    all: try solve [intros; upd_cases; cbn; eauto; try discriminate; try tauto].
    all: try solve [intros Hw; first [apply I15; intros; congruence | exfalso; eapply Hw; eauto]].
    all: try solve [split; congruence].
    + intros x. upd_cases; cbn; [now rewrite Nat.eqb_refl|].
      rewrite I1, Ecr. cbn. symmetry. apply Nat.eqb_neq. congruence.
    + intros x n. upd_cases; cbn; [discriminate|]. intros Hx. apply I6 in Hx. congruence.
  - (* SCreate *)
    destruct I as [I1 I2 I3 I4 I5 I6 I7 I8 I9 I10 I11 I12 I13 I14 I15].
    cbn in Ic, Ip. symmetry in Ic. apply oeq_eq in Ic.
    assert (Ew : word s = WLocked) by (apply I2; congruence).
    assert (Hoth : forall x, x <> t -> creating (pc s x) = false).
    { intros x Hx. rewrite I1, Ic. cbn. apply Nat.eqb_neq. congruence. }
    destruct ok; inversion H; subst s'; clear H.
    + split; cbn [word creator ntab cfailed chains lock pc]; auto.
      all: try solve [intros; upd_cases; cbn; eauto; try discriminate; try tauto; try congruence].
      all: try solve [intros Hw; first [apply I15; intros; congruence | exfalso; eapply Hw; eauto]].
    all: try solve [intros Hw; first [apply I15; intros; congruence | exfalso; eapply Hw; eauto]].
      * intros x. upd_cases; cbn; [rewrite Ic; cbn; now rewrite Nat.eqb_refl|apply I1].
      * intros x. upd_cases.
        -- cbn. rewrite Ip. auto.
        -- specialize (Hoth x E). specialize (I5 x). destruct (pc s x); cbn in *; auto; discriminate.
      * intros n i Hn. apply I7. lia.
    + split; cbn [word creator ntab cfailed chains lock pc]; auto.
      all: try solve [intros; upd_cases; cbn; eauto; try discriminate; try tauto; try congruence].
      all: try solve [intros Hw; first [apply I15; intros; congruence | exfalso; eapply Hw; eauto]].
    all: try solve [intros Hw; first [apply I15; intros; congruence | exfalso; eapply Hw; eauto]].
      * intros x. upd_cases; cbn; [rewrite Ic; cbn; now rewrite Nat.eqb_refl|apply I1].
      * intros [F|F] x; [|discriminate]. upd_cases; cbn; auto.
  - (* SPublish *)
    destruct I as [I1 I2 I3 I4 I5 I6 I7 I8 I9 I10 I11 I12 I13 I14 I15].
    cbn in Ic, Ip. symmetry in Ic. apply oeq_eq in Ic. destruct Ip as [-> Hnt].
    assert (Ew : word s = WLocked) by (apply I2; congruence).
    assert (Hoth : forall x, x <> t -> creating (pc s x) = false).
    { intros x Hx. rewrite I1, Ic. cbn. apply Nat.eqb_neq. congruence. }
    inversion H; subst s'; clear H.
    split; cbn [word creator ntab cfailed chains lock pc]; auto.
    all: try solve [intros; upd_cases; cbn; eauto; try discriminate; try tauto; try congruence].
    all: try solve [intros Hw; first [apply I15; intros; congruence | exfalso; eapply Hw; eauto]].
    + split; [discriminate|congruence].
    + intros n E. inversion E; subst. auto.
    + intros x n. upd_cases; cbn; [congruence|]. intros Hx. apply I6 in Hx. congruence.
    + intros x. upd_cases; [cbn; split; [lia|tauto]|apply I11].
  - (* SFailStore *)
    destruct I as [I1 I2 I3 I4 I5 I6 I7 I8 I9 I10 I11 I12 I13 I14 I15].
    cbn in Ic, Ip. symmetry in Ic. apply oeq_eq in Ic.
    assert (Ew : word s = WLocked) by (apply I2; congruence).
    assert (Hcf : cfailed s = true).
    { destruct (cfailed s) eqn:E; auto. specialize (In2 eq_refl). discriminate. }
    inversion H; subst s'; clear H.
    split; cbn [word creator ntab cfailed chains lock pc]; auto.
    all: try solve [intros; upd_cases; cbn; eauto; try discriminate; try tauto; try congruence].
    all: try solve [intros Hw; first [apply I15; intros; congruence | exfalso; eapply Hw; eauto]].
    + intros x. upd_cases; cbn; auto. rewrite I1, Ic. cbn. apply Nat.eqb_neq. congruence.
    + split; [discriminate|congruence].
    + intros x n. upd_cases; cbn; [discriminate|]. intros Hx. apply I6 in Hx. congruence.
  - (* SReload *)
    destruct (word s) eqn:Ew; inversion H; subst; apply inv_setpc; auto; side_setpc Ept.
  - (* SSpin *)
    destruct (word s) eqn:Ew; [destruct fixed eqn:Ef| |]; inversion H; subst; apply inv_setpc; auto; side_setpc Ept.
    intros [F|F]; [congruence|]. exfalso. apply (In3 F); auto.
  - (* SWalk Some *)
    cbn [walk_ok] in Iw. destruct Iw as [Iw1 Iw2].
    destruct (nth_error (chain_of s n (c_key c)) pos) as [e|] eqn:En.
    + pose proof (nth_error_keys _ _ _ En) as Ek. unfold chain_of in *.
      destruct (Z.eqb_spec (ekey e) (c_key c)) as [Ee|Ee]; inversion H; subst; apply inv_setpc; auto; side_setpc Ept.
      assert (pos < length (keys (chains s n (slot (c_key c)))))%nat by (apply nth_error_Some; congruence).
      split; [lia|]. rewrite (firstn_S_nth _ _ _ Ek), in_app_iff. cbn. intuition.
    + inversion H; subst; apply inv_setpc; auto; side_setpc Ept.
  - (* SWalk None *)
    inversion H; subst; apply inv_setpc; auto; side_setpc Ept.
  - (* SStore *)
    destruct I as [I1 I2 I3 I4 I5 I6 I7 I8 I9 I10 I11 I12 I13 I14 I15].
    cbn in Iw. pose proof (It n eq_refl) as Ew. destruct (I4 n Ew) as [-> Hnt].
    unfold chain_of in H. inversion H; subst s'; clear H.
    pose proof (kprefix_store (chains s) O (slot (c_key c)) pos (c_val c)) as KP.
    split; cbn [word creator ntab cfailed chains lock pc]; auto.
    all: try solve [intros; upd_cases; cbn; eauto; try discriminate; try tauto; try congruence].
    all: try solve [intros Hw; first [apply I15; intros; congruence | exfalso; eapply Hw; eauto]].
    + intros n i Hn. unfold upd2. destruct (Nat.eqb_spec n 0); [lia|]. cbn. apply I7; auto.
    + intros n i. unfold upd2. destruct (Nat.eqb_spec n 0), (Nat.eqb_spec i (slot (c_key c))); cbn [andb]; auto.
      rewrite store_at_keys. auto.
    + intros n i k. unfold upd2. destruct (Nat.eqb_spec n 0), (Nat.eqb_spec i (slot (c_key c))); cbn [andb]; eauto.
      rewrite store_at_keys. subst. eauto.
    + intros x. upd_cases; [exact Logic.I|]. eapply walk_ok_mono; eauto.
  - (* SLockAcq *)
    destruct (lock s n) eqn:Elk; [discriminate|].
    destruct I as [I1 I2 I3 I4 I5 I6 I7 I8 I9 I10 I11 I12 I13 I14 I15].
    inversion H; subst s'; clear H.
    split; cbn [word creator ntab cfailed chains lock pc]; auto.
    all: try solve [intros; upd_cases; cbn; eauto; try discriminate; try tauto; try congruence].
    all: try solve [intros Hw; first [apply I15; intros; congruence | exfalso; eapply Hw; eauto]].
    intros n0 x. upd_cases; cbn [incrit oeq].
    + now rewrite !Nat.eqb_refl.
    + rewrite <- Il. cbn. apply Nat.eqb_neq. congruence.
    + rewrite I8, Elk. cbn. symmetry. apply Nat.eqb_neq. congruence.
    + apply I8.
  - (* SCrit *)
    destruct I as [I1 I2 I3 I4 I5 I6 I7 I8 I9 I10 I11 I12 I13 I14 I15].
    cbn in Iw. destruct Iw as [Iw1 Iw2]. pose proof (It n eq_refl) as Ew. destruct (I4 n Ew) as [-> Hnt].
    pose proof (Il O) as Elk. cbn in Elk. symmetry in Elk. apply oeq_eq in Elk.
    assert (Hoth : forall x, x <> t -> incrit 0 (pc s x) = false).
    { intros x Hx. rewrite I8, Elk. cbn. apply Nat.eqb_neq. congruence. }
    unfold chain_of in H. set (ch := chains s 0 (slot (c_key c))) in *.
    assert (LOCK : forall (p : pcT), incrit 0 p = false -> (forall n, n <> O -> incrit n p = incrit n (SCrit c 0 pos)) ->
              forall n0 x, incrit n0 (upd (pc s) t p x) = oeq (upd (lock s) 0 None n0) x).
    { intros p Hp Hq n0 x. upd_cases; cbn [oeq]; auto.
      - rewrite Hq by auto. apply Il. }
    destruct (walk_from (skipn pos ch) (c_key c) pos) as [i|m] eqn:EW.
    + inversion H; subst s'; clear H.
      split; cbn [word creator ntab cfailed chains lock pc]; auto.
      all: try solve [intros; upd_cases; cbn; eauto; try discriminate; try tauto; try congruence].
      all: try solve [intros Hw; first [apply I15; intros; congruence | exfalso; eapply Hw; eauto]].
    all: try solve [intros Hw; first [apply I15; intros; congruence | exfalso; eapply Hw; eauto]].
      * apply LOCK; auto. intros n Hn; cbn; destruct n; congruence.
      * intros x. upd_cases; [|apply I11]. cbn.
        destruct (walk_from_found _ _ _ _ EW) as (j & -> & Hn & _).
        rewrite keys_skipn, nth_error_skipn_add in Hn. exact Hn.
    + destruct (walk_from_tail _ _ _ _ EW) as [-> Hnot].
      rewrite keys_skipn in Hnot.
      assert (Hlen : (pos + length (skipn pos ch))%nat = length ch).
      { rewrite skipn_length. unfold keys in Iw1. rewrite map_length in Iw1. fold ch in Iw1. lia. }
      rewrite Hlen, firstn_all in H.
      assert (Hk : ~ In (c_key c) (keys ch)) by (eapply notin_split; eauto).
      destruct ok; inversion H; subst s'; clear H.
      * pose proof (kprefix_app (chains s) O (slot (c_key c)) (mkEl (c_key c) (c_val c) (c_dtor c))) as KP.
        fold ch in KP.
        split; cbn [word creator ntab cfailed chains lock pc]; auto.
        all: try solve [intros; upd_cases; cbn; eauto; try discriminate; try tauto; try congruence].
        all: try solve [intros Hw; first [apply I15; intros; congruence | exfalso; eapply Hw; eauto]].
      all: try solve [intros Hw; first [apply I15; intros; congruence | exfalso; eapply Hw; eauto]].
    all: try solve [intros Hw; first [apply I15; intros; congruence | exfalso; eapply Hw; eauto]].
        -- intros n i Hn. unfold upd2. destruct (Nat.eqb_spec n 0); [lia|]. cbn. apply I7; auto.
        -- apply LOCK; auto. intros n Hn; cbn; destruct n; congruence.
        -- intros n i. unfold upd2. destruct (Nat.eqb_spec n 0), (Nat.eqb_spec i (slot (c_key c))); cbn [andb]; auto.
           unfold keys. rewrite map_app. cbn. apply NoDup_snoc; auto. subst. apply I9.
        -- intros n i k. unfold upd2. destruct (Nat.eqb_spec n 0), (Nat.eqb_spec i (slot (c_key c))); cbn [andb]; eauto.
           unfold keys. rewrite map_app, in_app_iff. cbn. subst. intros [Hin|[<-|[]]]; eauto.
        -- intros x. upd_cases; [exact Logic.I|]. eapply walk_ok_mono; eauto.
      * split; cbn [word creator ntab cfailed chains lock pc]; auto.
        all: try solve [intros; upd_cases; cbn; eauto; try discriminate; try tauto; try congruence].
        all: try solve [intros Hw; first [apply I15; intros; congruence | exfalso; eapply Hw; eauto]].
      all: try solve [intros Hw; first [apply I15; intros; congruence | exfalso; eapply Hw; eauto]].
    all: try solve [intros Hw; first [apply I15; intros; congruence | exfalso; eapply Hw; eauto]].
        apply LOCK; auto. intros n Hn; cbn; destruct n; congruence.
  - (* SRet *) inversion H; subst; apply inv_setpc; auto; side_setpc Ept.
  - (* G0 *)
    destruct (word s) eqn:Ew; inversion H; subst; apply inv_setpc; auto; side_setpc Ept.
  - (* GWalk *)
    cbn [walk_ok] in Iw. destruct Iw as [Iw1 Iw2].
    destruct (nth_error (chain_of s n k) pos) as [e|] eqn:En.
    + pose proof (nth_error_keys _ _ _ En) as Ek. unfold chain_of in *.
      destruct (Z.eqb_spec (ekey e) k) as [Ee|Ee]; inversion H; subst; apply inv_setpc; auto; side_setpc Ept.
      assert (pos < length (keys (chains s n (slot k))))%nat by (apply nth_error_Some; congruence).
      split; [lia|]. rewrite (firstn_S_nth _ _ _ Ek), in_app_iff. cbn. intuition.
    + inversion H; subst; apply inv_setpc; auto; side_setpc Ept.
  - (* GRead *)
    destruct (nth_error (chain_of s n k) pos) as [e|] eqn:En; inversion H; subst; apply inv_setpc; auto; side_setpc Ept.
  - (* GRet *) inversion H; subst; apply inv_setpc; auto; side_setpc Ept.
Qed.


Lemma inv_run acts : forall s s', Inv s -> run s acts = Some s' -> Inv s'.
Proof.
  induction acts as [|[t a] acts IH]; intros s s' I H; cbn in H.
  - inversion H; subst; auto.
  - destruct (step s t a) as [s1|] eqn:E; [|discriminate]. eapply IH; [eapply step_inv; eauto|auto].
Qed.

Lemma inv_reachable acts s : run init acts = Some s -> Inv s.
Proof. apply inv_run. apply inv_init. Qed.

(* ------------------------------------------------------------------ lazy creation happens once *)
Definition in_impl (p : pcT) : option (call * nat) :=
  match p with
  | SWalk c (Some n) _ | SStore c n _ | SLockAcq c n _ | SCrit c n _ => Some (c, n)
  | _ => None
  end.

Lemma create_once s : Inv s ->
  (ntab s <= 1)%nat /\
  (forall n, word s = WTab n -> n = O /\ ntab s = 1%nat) /\
  (forall x y, creating (pc s x) = true -> creating (pc s y) = true -> x = y) /\
  (forall x c n, in_impl (pc s x) = Some (c, n) -> word s = WTab n).
Proof.
  intros I. split; [|split; [apply (i_tab _ I)|split]].
  - destruct (word s) eqn:Ew.
    + rewrite (i_null _ I Ew). lia.
    + destruct (creator s) as [x|] eqn:Ec.
      * pose proof (i_creator _ I x) as H. rewrite Ec in H. cbn in H. rewrite Nat.eqb_refl in H.
        pose proof (i_pub _ I x) as Hp. destruct (pc s x); cbn in *; try discriminate; lia.
      * exfalso. destruct (i_locked _ I) as [H _]. apply (H Ew). auto.
    + destruct (i_tab _ I n Ew). lia.
  - intros x y Hx Hy. rewrite (i_creator _ I) in Hx, Hy. apply oeq_eq in Hx, Hy. congruence.
  - intros x c n H. apply (i_tabpc _ I x). destruct (pc s x) as [| | | | | | | |c0 [n0|] pos| | | | | | | | |];
      cbn in *; try discriminate; inversion H; subst; auto.
Qed.

(* the table lock is held by at most one thread *)
Lemma lock_mutex s : Inv s -> forall n x y, incrit n (pc s x) = true -> incrit n (pc s y) = true -> x = y.
Proof.
  intros I n x y Hx Hy. rewrite (i_lock _ I) in Hx, Hy. apply oeq_eq in Hx, Hy. congruence.
Qed.

(* ------------------------------------------------------------------ the value seen by readers *)
Lemma chain_of_view s n k : word s = WTab n -> view s k = chain_val (chains s n (slot k)) k.
Proof. intros E. unfold view, KtableConc.view, KtableConc.chain_of. rewrite E. reflexivity. Qed.

Definition set_of (p : pcT) : option call :=
  match p with SStore c _ _ | SCrit c _ _ => Some c | _ => None end.

(* a set that returns success has just taken effect, and nothing else changes what readers see:
   no set is lost *)
Lemma step_view s t a s' : Inv s -> step s t a = Some s' ->
  (pc s' t = SRet 0 /\ exists c, set_of (pc s t) = Some c /\
     forall k, view s' k = if k =? c_key c then Some (c_val c) else view s k) \/
  (pc s' t <> SRet 0 /\ forall k, view s' k = view s k).
Proof.
  intros I H.
  pose proof (i_tabpc _ I t) as It. pose proof (i_walk _ I t) as Iw. pose proof (i_pub _ I t) as Ip.
  unfold step in H.
  destruct (pc s t) as [|c|c|c|c n|c|c|c|c [n|] pos|c n pos|c n pos|c n pos|rc| |k|k n pos|k n pos|v] eqn:Ept;
    destruct a as [c'|k'|ok]; cbv beta iota in H; try discriminate.
  all: repeat match type of H with
       | context [match ?X with _ => _ end] => destruct X eqn:?
       end; try discriminate.
  all: inversion H; subst s'; clear H.
  all: try (right; split;
            [cbn; rewrite upd_same; first [discriminate|unfold ERR_MEM; discriminate]
            |intros k0; unfold view, KtableConc.view, KtableConc.chain_of; cbn [word chains setpc];
             repeat match goal with E : word _ = _ |- _ => rewrite E end; reflexivity]).
  - (* publication of the fresh table: it is empty *)
    right. split; [cbn; rewrite upd_same; discriminate|]. intros k0.
    cbn in Ip. destruct Ip as [-> _].
    assert (Hw : forall n, word s <> WTab n).
    { intros n Hn. pose proof (i_creator _ I t) as Hc. rewrite Ept in Hc. cbn in Hc. symmetry in Hc.
      apply oeq_eq in Hc. assert (word s = WLocked) by (apply (i_locked _ I); congruence). congruence. }
    unfold view, KtableConc.view, KtableConc.chain_of. cbn [word chains].
    rewrite (i_empty _ I Hw). cbn. destruct (word s); auto. exfalso; eapply Hw; eauto.
  - (* a failed creation: LOCKED -> NULL *)
    right. split; [cbn; rewrite upd_same; unfold ERR_MEM; discriminate|]. intros k0.
    unfold view, KtableConc.view. cbn [word].
    assert (word s = WLocked).
    { pose proof (i_creator _ I t) as Hc. rewrite Ept in Hc. cbn in Hc. symmetry in Hc.
      apply oeq_eq in Hc. apply (i_locked _ I); congruence. }
    rewrite H. reflexivity.
  - (* SStore *)
    left. split; [cbn; rewrite upd_same; reflexivity|]. exists c. split; [reflexivity|]. intros k0.
    pose proof (It n eq_refl) as Ew. cbn in Iw.
    rewrite (chain_of_view s n k0 Ew).
    unfold view, KtableConc.view, KtableConc.chain_of. cbn [word chains]. rewrite Ew.
    unfold upd2. rewrite Nat.eqb_refl. cbn [andb].
    destruct (Nat.eqb_spec (slot k0) (slot (c_key c))) as [Es|Es].
    + rewrite Es. unfold KtableConc.chain_of.
      rewrite (chain_val_store _ pos (c_val c) (c_key c) k0 Iw); auto.
      apply NoDup_first_only; auto. apply (i_nodup _ I).
    + destruct (Z.eqb_spec k0 (c_key c)); [congruence|reflexivity].
  - (* SCrit, append *)
    left. split; [cbn; rewrite upd_same; reflexivity|]. exists c. split; [reflexivity|]. intros k0.
    pose proof (It n eq_refl) as Ew. cbn in Iw. destruct Iw as [Iw1 Iw2].
    match goal with E : walk_from _ _ _ = inr _ |- _ => destruct (walk_from_tail _ _ _ _ E) as [-> Hnot] end.
    rewrite keys_skipn in Hnot. unfold KtableConc.chain_of in *.
    set (ch := chains s n (slot (c_key c))) in *.
    assert (Hlen : (pos + length (skipn pos ch))%nat = length ch).
    { rewrite skipn_length. unfold keys in Iw1. rewrite map_length in Iw1. lia. }
    rewrite Hlen, firstn_all.
    assert (Hk : ~ In (c_key c) (keys ch)) by (eapply notin_split; eauto).
    rewrite (chain_of_view s n k0 Ew).
    unfold view, KtableConc.view, KtableConc.chain_of. cbn [word chains]. rewrite Ew.
    unfold upd2. rewrite Nat.eqb_refl. cbn [andb].
    destruct (Nat.eqb_spec (slot k0) (slot (c_key c))) as [Es|Es].
    + rewrite Es. fold ch. rewrite chain_val_app. cbn [ekey eval_].
      destruct (Z.eqb_spec k0 (c_key c)) as [->|Hne].
      * rewrite Z.eqb_refl. apply chain_val_none in Hk. rewrite Hk. reflexivity.
      * destruct (chain_val ch k0); auto. destruct (Z.eqb_spec (c_key c) k0); [congruence|reflexivity].
    + destruct (Z.eqb_spec k0 (c_key c)); [congruence|reflexivity].
Qed.

(* lock-free readers: the value a get returns is the value readers see at its last step
   (its linearization point) *)
Definition get_of (p : pcT) : option Z :=
  match p with G0 k | GWalk k _ _ | GRead k _ _ => Some k | _ => None end.

Lemma step_get s t a s' v : Inv s -> step s t a = Some s' -> pc s' t = GRet v ->
  exists k, get_of (pc s t) = Some k /\ v = match view s k with Some x => x | None => 0 end.
Proof.
  intros I H R.
  pose proof (i_tabpc _ I t) as It. pose proof (i_walk _ I t) as Iw.
  unfold step in H.
  destruct (pc s t) as [|c|c|c|c n|c|c|c|c [n|] pos|c n pos|c n pos|c n pos|rc| |k|k n pos|k n pos|v0] eqn:Ept;
    destruct a as [c'|k'|ok]; cbv beta iota in H; try discriminate.
  all: repeat match type of H with
       | context [match ?X with _ => _ end] => destruct X eqn:?
       end; try discriminate.
  all: inversion H; subst s'; clear H; cbn in R; rewrite upd_same in R; try discriminate.
  all: inversion R; subst; exists k; split; [reflexivity|].
  - unfold view, KtableConc.view. rewrite Heqw. reflexivity.
  - unfold view, KtableConc.view. rewrite Heqw. reflexivity.
  - (* GWalk reached the NULL link *)
    pose proof (It n eq_refl) as Ew. rewrite (chain_of_view s n k Ew).
    cbn in Iw. destruct Iw as [Iw1 Iw2]. unfold KtableConc.chain_of in *.
    assert (length (keys (chains s n (slot k))) <= pos)%nat.
    { unfold keys. rewrite map_length. apply nth_error_None. auto. }
    rewrite firstn_all2 in Iw2 by auto. apply chain_val_none in Iw2. rewrite Iw2. reflexivity.
  - (* GRead *)
    pose proof (It n eq_refl) as Ew. rewrite (chain_of_view s n k Ew).
    cbn in Iw. unfold KtableConc.chain_of in *.
    pose proof (nth_error_keys _ _ _ Heqo) as Ek. rewrite Iw in Ek.
    assert (Ee : ekey e = k) by congruence.
    rewrite (chain_val_nth _ k pos e Heqo Ee); auto.
    apply NoDup_first_only; [apply (i_nodup _ I)|exact Iw].
Qed.

(* ------------------------------------------------------------------ chains only grow at the tail *)
Definition kd (c : list elem) : list (Z * Z) := map (fun e => (ekey e, edtor e)) c.
Lemma store_at_kd c pos v : kd (store_at c pos v) = kd c.
Proof. revert pos; induction c as [|e c IH]; intros [|p]; cbn; auto. f_equal. apply IH. Qed.

Lemma step_append_only s t a s' : Inv s -> step s t a = Some s' ->
  forall n i, exists r, kd (chains s' n i) = kd (chains s n i) ++ r.
Proof.
  intros I H n0 i0.
  pose proof (i_walk _ I t) as Iw.
  unfold step in H.
  destruct (pc s t) as [|c|c|c|c n|c|c|c|c [n|] pos|c n pos|c n pos|c n pos|rc| |k|k n pos|k n pos|v0] eqn:Ept;
    destruct a as [c'|k'|ok]; cbv beta iota in H; try discriminate.
  all: repeat match type of H with
       | context [match ?X with _ => _ end] => destruct X eqn:?
       end; try discriminate.
  all: inversion H; subst s'; clear H; cbn [chains setpc].
  all: try (exists []; rewrite app_nil_r; reflexivity).
  - unfold upd2. destruct (Nat.eqb_spec n0 n), (Nat.eqb_spec i0 (slot (c_key c))); cbn [andb];
      try (exists []; rewrite app_nil_r; reflexivity).
    subst. exists []. rewrite app_nil_r. apply store_at_kd.
  - cbn in Iw. destruct Iw as [Iw1 Iw2].
    match goal with E : walk_from _ _ _ = inr _ |- _ => destruct (walk_from_tail _ _ _ _ E) as [-> Hnot] end.
    unfold KtableConc.chain_of in *. set (ch := chains s n (slot (c_key c))) in *.
    assert (Hlen : (pos + length (skipn pos ch))%nat = length ch).
    { rewrite skipn_length. unfold keys in Iw1. rewrite map_length in Iw1. lia. }
    rewrite Hlen, firstn_all.
    unfold upd2. destruct (Nat.eqb_spec n0 n), (Nat.eqb_spec i0 (slot (c_key c))); cbn [andb];
      try (exists []; rewrite app_nil_r; reflexivity).
    subst. fold ch. exists [(c_key c, c_dtor c)]. unfold kd. rewrite map_app. reflexivity.
Qed.

(* ------------------------------------------------------------------ the NULL-table path *)
Lemma no_crash s : Inv s -> (fixed = true \/ cfailed s = false) -> forall x, pc s x <> Crash.
Proof.
  intros I F x E. pose proof (i_null1 _ I F x) as H. rewrite E in H. discriminate.
Qed.

End P.

(* the code before commit a54fdc8: a setter that loses the creation race to a creator whose
   allocation fails leaves the spin loop with a NULL table and dereferences it *)
Definition c1 : call := mkC 2 11 0.
Definition c2 : call := mkC 3 22 0.
Definition crash_run : list (nat * act) :=
  [ (0, ACallSet c1); (0, AStep true);            (* thread 0 loads NULL *)
    (0, AStep true);                              (* CAS NULL -> LOCKED *)
    (1, ACallSet c2); (1, AStep true);            (* thread 1 loads LOCKED (not valid) *)
    (1, AStep true);                              (* its CAS fails *)
    (1, AStep true);                              (* reload: LOCKED -> spin *)
    (0, AStep false);                             (* thread 0: ABTI_ktable_create fails *)
    (0, AStep true);                              (* thread 0 stores NULL back *)
    (1, AStep true);                              (* thread 1 reads NULL: leaves the loop with NULL *)
    (1, AStep true) ]%nat.                        (* ABTI_ktable_set_impl(NULL) *)

Lemma crash_reachable :
  exists s, run (fun id => Z.to_nat (Z.land id 3)) false init crash_run = Some s /\ pc s 1%nat = Crash.
Proof. eexists. split; [vm_compute; reflexivity|reflexivity]. Qed.

Lemma crash_run_fixed :
  exists s, run (fun id => Z.to_nat (Z.land id 3)) true init crash_run = Some s /\ pc s 1%nat = SCreate c2.
Proof. eexists. split; [vm_compute; reflexivity|reflexivity]. Qed.
