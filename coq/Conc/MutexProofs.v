(* Invariant of the ABTI_mutex LTS for any number of callers and any interleaving;
   mutual exclusion, trylock exactness, recursion, no lost wakeup. *)
From Coq Require Import List Arith ZArith Lia Bool.
From ABT Require Import Common.ListAux Conc.Mutex.
Import ListNotations.

Definition inb (x : nat) (l : list nat) : bool := existsb (Nat.eqb x) l.
Definition inw (p : pcT) : bool :=
  match p with L2 | L2ok | L3 | UQ | EW | EWr | U2 | U3 => true | _ => false end.
Definition is_l3 (p : pcT) : bool := match p with L3 => true | _ => false end.
Definition is_u3 (p : pcT) : bool := match p with U3 => true | _ => false end.
Definition is_holding (p : pcT) : bool := match p with Holding => true | _ => false end.

Lemma upd_same {A} (f : nat -> A) t v : upd f t v t = v.
Proof. unfold upd. now rewrite Nat.eqb_refl. Qed.
Lemma upd_other {A} (f : nat -> A) t v x : x <> t -> upd f t v x = f x.
Proof. unfold upd. intros H. apply Nat.eqb_neq in H. now rewrite H. Qed.
Lemma inb_app x l t : inb x (l ++ [t]) = inb x l || Nat.eqb x t.
Proof. unfold inb. rewrite existsb_app. cbn. now rewrite orb_false_r. Qed.
Lemma inb_In x l : inb x l = true <-> In x l.
Proof. unfold inb. rewrite existsb_exists. split.
  - intros [y [H E]]. apply Nat.eqb_eq in E. now subst.
  - intros H. exists x. split; auto. apply Nat.eqb_refl. Qed.
Lemma inb_false x l : inb x l = false <-> ~ In x l.
Proof. rewrite <- inb_In. destruct (inb x l); intuition congruence. Qed.
Lemma neqb x t : x <> t -> Nat.eqb x t = false /\ Nat.eqb t x = false.
Proof. intros H. split; apply Nat.eqb_neq; congruence. Qed.
Lemma oeq_true o x : oeq o x = true <-> o = Some x.
Proof. destruct o; cbn; [rewrite Nat.eqb_eq|]; split; congruence. Qed.

Record Inv (s : st) : Prop := {
  i_hold : forall x, holds (pc s x) = oeq (holder s) x;
  i_w    : forall x, inw (pc s x) = oeq (wlock s) x;
  i_wl   : forall x, inb x (wl s) = queued (pc s x);
  i_nd   : NoDup (wl s);
  i_l3   : forall x, is_l3 (pc s x) = true -> is_some (holder s) = true;
  (* no lost wakeup: somebody is queued only while the mutex is held or a broadcast is owed *)
  i_nl   : wl s <> [] ->
             is_some (holder s) = true \/ exists u, wlock s = Some u /\ is_u3 (pc s u) = true;
  i_own  : forall x, oeq (owner s) x = true -> is_holding (pc s x) = true;
  i_rec  : recursive s = false -> owner s = None /\ nest s = 0;
  i_nest : nest s <> 0 -> is_some (owner s) = true
}.

Lemma inv_init r : Inv (init r).
Proof. constructor; cbn; auto; try discriminate; try congruence. constructor. Qed.

Ltac ucase x t :=
  let Hne := fresh "Hne" in let Hn1 := fresh "Hn" in let Hn2 := fresh "Hn" in
  destruct (Nat.eq_dec x t) as [->|Hne];
  [ rewrite ?upd_same, ?Nat.eqb_refl in *
  | rewrite ?upd_other in * by assumption;
    destruct (neqb _ _ Hne) as [Hn1 Hn2]; rewrite ?Hn1, ?Hn2 in * ].
Ltac rwneq := repeat match goal with H : Nat.eqb _ _ = false |- _ => progress (rewrite ?H in *) end.

(* facts about the acting thread, extracted from the invariant *)
Ltac facts I t :=
  let Ih := fresh "Fh" in let Iw := fresh "Fw" in let Iq := fresh "Fq" in
  pose proof (i_hold _ I t) as Ih; pose proof (i_w _ I t) as Iw; pose proof (i_wl _ I t) as Iq.


Inductive fact_done (a : nat) : Prop := I0.
Lemma oeq_some_ne t x : x <> t -> oeq (Some t) x = false.
Proof. intros H. cbn. apply Nat.eqb_neq. congruence. Qed.

(* pointwise equalities *)
Ltac pw_eq Ih t :=
  let x := fresh "x" in intros x; ucase x t; cbn;
  [ rewrite ?Nat.eqb_refl; try reflexivity; try congruence
  | first [ rewrite Ih; cbn; rwneq; reflexivity
          | specialize (Ih x); cbn in Ih; rwneq; congruence ] ].
(* pointwise implications *)
Ltac pw_imp t :=
  let x := fresh "x" in let Hx := fresh "Hx" in
  intros x Hx; ucase x t; cbn in Hx; try discriminate; eauto.

Ltac pw t Hx :=
  let x := fresh "x" in let Hne := fresh "Hne" in let Hxx := fresh "Hxx" in
  intros x; destruct (Nat.eq_dec x t) as [->|Hne];
  [ rewrite ?upd_same; cbn [holds inw queued is_l3 is_holding is_u3];
    repeat match goal with F : ?S = Some _ |- context [?S] => rewrite F
                         | F : ?S = None |- context [?S] => rewrite F end;
    cbn [oeq is_some inb existsb]; rewrite ?Nat.eqb_refl; try reflexivity; try assumption; try congruence
  | rewrite ?upd_other by assumption; pose proof (Hx x) as Hxx;
    repeat match goal with F : ?S = Some _ |- _ => rewrite F in Hxx
                         | F : ?S = None |- _ => rewrite F in Hxx end;
    repeat match goal with F : ?S = Some _ |- context [?S] => rewrite F
                         | F : ?S = None |- context [?S] => rewrite F end;
    cbn [oeq is_some] in *;
    let Hn1 := fresh "Hn" in let Hn2 := fresh "Hn" in
    destruct (neqb _ _ Hne) as [Hn1 Hn2]; rewrite ?Hn1, ?Hn2 in *;
    try assumption; try congruence ].

Ltac known_pc_contra :=
  match goal with
  | E : pc ?S ?a = _, H : is_u3 (pc ?S ?a) = true |- _ => rewrite E in H; cbn in H; discriminate
  | E : pc ?S ?a = _, H : is_holding (pc ?S ?a) = true |- _ => rewrite E in H; cbn in H; discriminate
  | E : pc ?S ?a = _, H : is_l3 (pc ?S ?a) = true |- _ => rewrite E in H; cbn in H; discriminate
  end.
Ltac pwi t Hx :=
  let x := fresh "x" in let Hne := fresh "Hne" in let Hq := fresh "Hq" in
  intros x Hq; destruct (Nat.eq_dec x t) as [->|Hne];
  [ rewrite ?upd_same in Hq; cbn in Hq; try discriminate;
    repeat match goal with F : ?S = Some _ |- context [?S] => rewrite F end; try reflexivity; eauto
  | rewrite ?upd_other in Hq by assumption; try (apply (Hx x Hq));
    repeat match goal with F : ?S = Some _ |- context [?S] => rewrite F end; try reflexivity; eauto ].
Ltac pwo t Hx :=
  let x := fresh "x" in let Hne := fresh "Hne" in let Hq := fresh "Hq" in
  intros x Hq; destruct (Nat.eq_dec x t) as [->|Hne];
  [ rewrite ?upd_same; try reflexivity; cbn in Hq; try discriminate;
    try (pose proof (Hx _ Hq); known_pc_contra)
  | rewrite ?upd_other by assumption; try (apply (Hx x Hq));
    cbn in Hq; try discriminate;
    try (apply Nat.eqb_eq in Hq; congruence) ].
Ltac nl t Hnl :=
  let Hw := fresh "Hw" in let u := fresh "u" in let Hu := fresh "Hu" in let Hu3 := fresh "Hu3" in
  intros Hw;
  first [ destruct (Hnl Hw) as [Hl|[u [Hu Hu3]]] | destruct Hnl as [Hl|[u [Hu Hu3]]]; [congruence| |] ];
  [ left; repeat match goal with F : ?S = Some _ |- context [?S] => rewrite F end; try assumption; try reflexivity; try congruence
  | right; exists u; split; [congruence|];
    destruct (Nat.eq_dec u t) as [->|Hne]; [ known_pc_contra | rewrite upd_other by assumption; assumption ] ].

Lemma step_inv s e s' : Inv s -> step s e = Some s' -> Inv s'.
Proof.
  intros I H.
  destruct e as [t o|t r|t failed|t| |t| |t ult|x| ]; cbn [step] in H.
  all: repeat match type of H with
  | context [match ?X with _ => _ end] => destruct X eqn:?
  end; try discriminate.
  all: inversion H; subst s'; clear H; try exact I.
  all: destruct I as [Ih Iw Iq Ind Il3 Inl Iown Irec Inest].
  (* facts about every thread whose pc is known *)
  all: repeat match goal with
  | E : pc _ ?a = ?p |- _ =>
      lazymatch goal with
      | _ : fact_done a |- _ => fail
      | _ => pose proof (Ih a) as ?Fh; pose proof (Iw a) as ?Fw; pose proof (Iq a) as ?Fq;
             assert (fact_done a) by exact (I0 a)
      end
  end.
  all: repeat match goal with E : pc ?S ?a = ?p, F : context [pc ?S ?a] |- _ =>
         lazymatch F with E => fail | _ => rewrite E in F; cbn [holds inw queued] in F end end.
  all: repeat match goal with
  | F : true = oeq _ _ |- _ => symmetry in F; apply oeq_true in F
  | F : oeq _ _ = true |- _ => apply oeq_true in F
  end.
  all: repeat match goal with
  | F : holder ?S = Some _, G : holder ?S = Some _ |- _ => rewrite F in G; inversion G; clear G; try subst
  | F : wlock ?S = Some _, G : wlock ?S = Some _ |- _ => rewrite F in G; inversion G; clear G; try subst
  | F : holder ?S = Some _, G : holder ?S = None |- _ => rewrite F in G; discriminate
  | F : wlock ?S = Some _, G : wlock ?S = None |- _ => rewrite F in G; discriminate
  end.
  all: subst.
  all: repeat match goal with
  | H : eqb _ _ = true |- _ => apply eqb_prop in H
  | H : _ && _ = true |- _ => apply andb_true_iff in H; destruct H
  | H : oeq _ _ = true |- _ => apply oeq_true in H
  end.
  all: try match goal with H : _ = is_some (holder ?S) |- _ => destruct (holder S) eqn:?; cbn in H; try discriminate end.
  all: constructor; cbn [holder wlock wl pc recursive owner nest set_pc set_pc_ret acquired] in *.
  all: try assumption; try reflexivity; try congruence.
  (* pointwise equalities *)
  all: try solve [ match goal with |- forall x, _ (upd _ ?t _ x) = _ => solve [pw t Ih | pw t Iw] end ].
  all: try solve [ match goal with |- forall x, _ = queued (upd _ ?t _ x) => pw t Iq end ].
  (* pointwise implications: l3, owner *)
  all: try solve [ match goal with |- forall x, _ (upd _ ?t _ x) = true -> _ => pwi t Il3 end ].
  all: try solve [ match goal with |- forall x, oeq _ x = true -> _ (upd _ ?t _ x) = true => pwo t Iown end ].
  (* no lost wakeup *)
  all: try solve [ intros _; left; reflexivity ].
  all: try solve [ match goal with |- _ -> _ \/ (exists u, _ /\ is_u3 (upd _ ?t _ u) = true) => nl t Inl end ].
  (* recursion bookkeeping *)
  all: try solve [ intros; destruct (recursive _) eqn:?; cbn [is_some] in *; try congruence; auto;
                   try (split; [reflexivity|]); try (apply Irec; assumption); try (apply Inest; assumption) ].
  all: try solve [ intros Hf; destruct (Irec Hf); split; congruence ].
  all: try solve [ intros; match goal with F : owner _ = Some _ |- _ => rewrite F; reflexivity end ].
  all: try solve [ intros; apply Inest; congruence ].
  (* owner *)
  all: try solve [ intros x Hq; destruct (Irec ltac:(assumption)) as [Ho _]; rewrite Ho in Hq; discriminate ].
  all: try solve [ match goal with |- forall x, _ -> is_holding (upd _ ?t Holding x) = true =>
      intros x Hq; destruct (Nat.eq_dec x t) as [->|Hne];
      [ rewrite upd_same; reflexivity
      | rewrite upd_other by assumption; destruct (recursive _);
        [ cbn in Hq; apply Nat.eqb_eq in Hq; congruence | apply Iown; assumption ] ] end ].
  (* nobody else can be at L3 while we hold waiter_lock *)
  all: try solve [ match goal with |- forall x, is_l3 (upd _ ?n _ x) = true -> _ =>
      intros x Hq; destruct (Nat.eq_dec x n) as [->|Hne];
      [ rewrite upd_same in Hq; discriminate
      | rewrite upd_other in Hq by assumption; exfalso; pose proof (Iw x) as Hw;
        destruct (pc _ x); try discriminate; cbn in Hw;
        match goal with F : wlock _ = Some _ |- _ => rewrite F in Hw end;
        cbn in Hw; symmetry in Hw; apply Nat.eqb_eq in Hw; congruence ] end ].
  (* no lost wakeup, remaining shapes *)
  all: try solve [ intros _; left; repeat match goal with F : ?S = Some _ |- context [?S] => rewrite F end; reflexivity ].
  all: try solve [ match goal with |- _ -> _ \/ (exists u, _ /\ is_u3 (upd _ ?n U3 u) = true) =>
      intros _; right; exists n; split; [assumption|rewrite upd_same; reflexivity] end ].
  all: try solve [ intros Hw; destruct (Inl Hw) as [Hl|[u [Hu Hu3]]];
      [ left; assumption
      | exfalso; match goal with F : wlock _ = Some ?n |- _ => assert (u = n) by congruence; subst u end; known_pc_contra ] ].
  all: try solve [ match goal with E : pc _ ?t = L3 |- _ => intros _; left; apply (Il3 t); rewrite E; reflexivity end ].
  (* wait list *)
  all: try solve [ match goal with E : wl _ = _ :: ?l |- NoDup ?l => rewrite E in Ind; inversion Ind; assumption end ].
  all: try solve [ apply NoDup_snoc; [assumption|]; apply inb_false; assumption ].
  all: try solve [ match goal with |- forall x, inb x (_ ++ [?t]) = _ =>
      intros x; rewrite inb_app; destruct (Nat.eq_dec x t) as [->|Hne];
      [ rewrite upd_same, Nat.eqb_refl, orb_true_r; reflexivity
      | rewrite upd_other by assumption; destruct (neqb _ _ Hne) as [Hn1 _]; rewrite Hn1, orb_false_r; apply Iq ] end ].
  (* EWake: the woken head x differs from the broadcaster n *)
  all: try match goal with E1 : pc _ ?n = U3, E2 : pc _ ?x = _, Hb : (?x =? ?n0) = true |- _ =>
      assert (Hxn : n <> x) by (intros ->; rewrite E1 in E2; discriminate);
      apply Nat.eqb_eq in Hb; subst n0 end.
  all: try solve [ match goal with |- forall y, inw (upd _ ?tt _ y) = oeq (Some ?nn) y =>
      let x0 := fresh "y" in intros x0; destruct (Nat.eq_dec x0 tt) as [->|Hne];
      [ rewrite upd_same; cbn; symmetry; apply Nat.eqb_neq; assumption
      | rewrite upd_other by assumption; rewrite Iw;
        match goal with F : wlock _ = Some _ |- _ => rewrite F end; reflexivity ] end ].
  all: try solve [ match goal with E : wl _ = ?tt :: ?ll |- forall y, inb y ?ll = queued (upd _ ?tt _ y) =>
      rewrite E in Ind, Iq; apply NoDup_cons_iff in Ind; destruct Ind as [Hni Hnd];
      let x0 := fresh "y" in intros x0; destruct (Nat.eq_dec x0 tt) as [->|Hne];
      [ rewrite upd_same; cbn; apply inb_false; assumption
      | rewrite upd_other by assumption; rewrite <- Iq; cbn;
        destruct (neqb _ _ Hne) as [Hn1 _]; rewrite Hn1; reflexivity ] end ].
Qed.

(* ---- every reachable state, any number of callers, any interleaving ---- *)
Lemma inv_run tr : forall s0 s, Inv s0 -> run s0 tr = Some s -> Inv s.
Proof.
  induction tr as [|e r IH]; cbn; intros s0 s I H.
  - inversion H; subst; exact I.
  - destruct (step s0 e) eqn:E; try discriminate. eapply IH; [eapply step_inv; eauto|exact H].
Qed.

Theorem inv_reachable rec tr s : run (init rec) tr = Some s -> Inv s.
Proof. apply inv_run, inv_init. Qed.

Corollary mutual_exclusion rec tr s t1 t2 : run (init rec) tr = Some s ->
  holds (pc s t1) = true -> holds (pc s t2) = true -> t1 = t2.
Proof.
  intros H H1 H2. apply inv_reachable in H. rewrite (i_hold _ H) in H1, H2.
  apply oeq_true in H1, H2. congruence.
Qed.

Corollary holder_is_lock_word rec tr s t : run (init rec) tr = Some s ->
  (holds (pc s t) = true <-> holder s = Some t).
Proof. intros H. apply inv_reachable in H. rewrite (i_hold _ H). apply oeq_true. Qed.

(* trylock: the test-and-set fails iff the lock word is set, and the API result follows *)
Theorem trylock_exact s t failed s' :
  pc s t = T0 -> step s (ETry t failed) = Some s' ->
  failed = is_some (holder s) /\
  (failed = false -> holder s' = Some t /\ pc s' t = Holding /\ ret s' t = 0%Z) /\
  (failed = true -> holder s' = holder s /\ pc s' t = Idle /\ ret s' t = ERR_MUTEX_LOCKED).
Proof.
  intros Hpc H. cbn [step] in H. destruct (Bool.eqb failed (is_some (holder s))) eqn:E; [|discriminate].
  apply eqb_prop in E. rewrite Hpc in H. split; [assumption|].
  destruct failed; inversion H; subst s'; cbn; rewrite !upd_same; split; intros; try discriminate; auto.
Qed.

Theorem trylock_enabled s t : pc s t = T0 -> step s (ETry t (is_some (holder s))) <> None.
Proof. intros Hpc. cbn [step]. rewrite eqb_reflx, Hpc. destruct (is_some (holder s)); discriminate. Qed.

(* no lost wakeup *)
Corollary no_lost_wakeup rec tr s x : run (init rec) tr = Some s ->
  queued (pc s x) = true ->
  In x (wl s) /\
  (is_some (holder s) = true \/ exists u, wlock s = Some u /\ pc s u = U3).
Proof.
  intros H Hq. apply inv_reachable in H.
  assert (Hin : In x (wl s)) by (apply inb_In; rewrite (i_wl _ H); exact Hq).
  split; [exact Hin|].
  destruct (i_nl _ H) as [Hl|[u [Hu Hu3]]]; [intros E; rewrite E in Hin; destruct Hin|left; auto|].
  right. exists u. split; auto. destruct (pc s u); try discriminate; reflexivity.
Qed.

(* an unlock that completes leaves nobody queued: the broadcast woke every waiter *)
Corollary unlock_wakes_all rec tr s s' u : run (init rec) tr = Some s ->
  wlock s = Some u -> pc s u = U3 -> step s ERelW = Some s' ->
  wl s' = [] /\ forall x, queued (pc s' x) = false.
Proof.
  intros H Hw Hpc Hs.
  assert (I' : Inv s') by (eapply step_inv; [eapply inv_reachable; eauto|eauto]).
  cbn [step] in Hs. rewrite Hw, Hpc in Hs. destruct (wl s) eqn:El; [|discriminate].
  inversion Hs; subst s'. cbn [wl] in *. split; [reflexivity|].
  intros x. rewrite <- (i_wl _ I' x). cbn [wl]. reflexivity.
Qed.

(* recursion: owner holds the lock while it owns; nesting only changes by +-1 at the owner's calls *)
Corollary owner_holds rec tr s t : run (init rec) tr = Some s ->
  owner s = Some t -> holder s = Some t /\ pc s t = Holding.
Proof.
  intros H Ho. apply inv_reachable in H.
  assert (Hh : is_holding (pc s t) = true) by (apply (i_own _ H); apply oeq_true; exact Ho).
  assert (Hp : pc s t = Holding) by (destruct (pc s t); try discriminate; reflexivity).
  split; [|exact Hp]. apply oeq_true. rewrite <- (i_hold _ H), Hp. reflexivity.
Qed.

Corollary nested_means_owned rec tr s : run (init rec) tr = Some s ->
  nest s <> 0 -> exists t, owner s = Some t /\ holder s = Some t /\ pc s t = Holding /\ recursive s = true.
Proof.
  intros H Hn. pose proof (inv_reachable _ _ _ H) as I.
  pose proof (i_nest _ I Hn) as Ho. destruct (owner s) as [t|] eqn:E; [|discriminate].
  exists t. destruct (owner_holds _ _ _ _ H E) as [A B]. repeat split; auto.
  destruct (recursive s) eqn:R; auto. destruct (i_rec _ I R). congruence.
Qed.

Theorem recursive_unlock_keeps_lock s t n s' :
  recursive s = true -> pc s t = Holding -> nest s = S n ->
  step s (EBegin t OUnlock) = Some s' ->
  holder s' = holder s /\ pc s' = pc s /\ nest s' = n /\ owner s' = owner s.
Proof.
  intros R Hp Hn H. cbn [step] in H. rewrite Hp, R, Hn in H. inversion H; subst s'. cbn. auto.
Qed.

Theorem recursive_relock_nests s t s' o :
  o <> OUnlock -> pc s t = Holding -> step s (EBegin t o) = Some s' ->
  recursive s = true /\ owner s = Some t /\ nest s' = S (nest s) /\ holder s' = holder s /\ pc s' = pc s.
Proof.
  intros Ho Hp H. cbn [step] in H. rewrite Hp in H.
  destruct o; try congruence;
  destruct (recursive s) eqn:R; cbn [andb] in H; try discriminate;
  destruct (oeq (owner s) t) eqn:E; try discriminate; apply oeq_true in E;
  inversion H; subst s'; cbn; auto.
Qed.

(* the lock word is released only by a caller at U2, i.e. by the final unlock of the holder *)
Theorem release_only_at_U2 s s' : step s ERelL = Some s' ->
  exists t, holder s = Some t /\ pc s t = U2 /\ holder s' = None /\ pc s' t = U3.
Proof.
  cbn [step]. destruct (holder s) as [t|]; [|discriminate].
  destruct (pc s t) eqn:E; try discriminate. intros H; inversion H; subst s'. cbn.
  exists t. rewrite upd_same. auto.
Qed.
