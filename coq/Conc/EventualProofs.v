(* Theorems about the ABT_eventual LTS for any number of callers of any kind and any
   interleaving: ready exactly once, waiters return only when ready and read the
   value of that set, test exactness, no lost waiter. *)
From Coq Require Import List Arith ZArith Lia Bool.
From ABT Require Import Common.ListAux Conc.EvCommon Conc.Eventual Conc.EventualInv.
Import ListNotations.

(* ---- every reachable state: any capacity, any number of callers, any interleaving ---- *)
Lemma vinv_run tr : forall s0 s, VInv s0 -> vrun s0 tr = Some s -> VInv s.
Proof.
  induction tr as [|e r IH]; cbn; intros s0 s I H.
  - inversion H; subst; exact I.
  - destruct (vstep s0 e) eqn:E; try discriminate. eapply IH; [eapply vstep_inv; eauto|exact H].
Qed.
Theorem vinv_reachable cap tr s : vrun (vinit cap) tr = Some s -> VInv s.
Proof. apply vinv_run, vinv_init. Qed.

(* ---- ready exactly once ---- *)

(* meaning of the ghost counters: ensets counts the `ready = TRUE` stores since the last
   `ready = FALSE` store, egen counts the `ready = FALSE` stores; no other step touches them *)
Theorem ev_ghost_meaning s e s' : vstep s e = Some s' ->
  (ensets s' = ensets s /\ egen s' = egen s /\ eready s' = eready s /\ evalue s' = evalue s /\ esetval s' = esetval s) \/
  (exists t, e = VData t 1%Z /\ epc s t = VS1 /\ eready s = false /\ eready s' = true /\
             ensets s' = S (ensets s) /\ egen s' = egen s) \/
  (exists t, e = VData t 0%Z /\ epc s t = VR1 /\ eready s' = false /\ ensets s' = 0 /\ egen s' = S (egen s)).
Proof.
  intros H.
  destruct e as [t k o|t r|t| |t ult|x| |t c|t flag v]; cbn [vstep] in H.
  all: repeat match type of H with
       | context [match ?X with _ => _ end] => destruct X eqn:?
       end; try discriminate.
  all: inversion H; subst s'; clear H; vsimpl.
  all: try (left; repeat split; congruence).
  all: repeat match goal with F : (_ =? _)%Z = true |- _ => apply Z.eqb_eq in F; subst end.
  all: try (right; left; exists t; repeat split; auto; fail).
  all: right; right; exists t; repeat split; auto.
Qed.

Theorem ev_sets_counted cap tr s : vrun (vinit cap) tr = Some s ->
  ensets s <= 1 /\ (eready s = true <-> ensets s = 1).
Proof.
  intros H. apply vinv_reachable in H. rewrite (v_ns _ H).
  destruct (eready s); split; try lia; split; congruence.
Qed.

(* the first set after creation / reset: copies, marks ready *)
Theorem ev_first_set s t c s' : epc s t = VS1 -> vstep s (VData t c) = Some s' ->
  eready s = false /\ c = 1%Z /\ eready s' = true /\
  evalue s' = (if Nat.ltb 0 (enb s t) then eav s t else evalue s) /\ esetval s' = evalue s' /\
  ewl s' = ewl s /\ epc s' t = VS2.
Proof.
  intros Hpc H. cbn [vstep] in H. rewrite Hpc in H.
  destruct (oeq (elock s) t); [|discriminate].
  destruct (eready s) eqn:R; [discriminate|].
  destruct (Z.eqb c 1) eqn:C; [|discriminate]. apply Z.eqb_eq in C.
  inversion H; subst s'; vsimpl. rewrite upd_same. repeat split; auto.
Qed.

(* a set that finds the eventual ready: the only thing it can do is release and fail, changing nothing *)
Theorem ev_second_set_fails s t : elock s = Some t -> epc s t = VS1 -> eready s = true ->
  (forall c, vstep s (VData t c) = None) /\
  (exists s', vstep s VRel = Some s') /\
  (forall s', vstep s VRel = Some s' ->
     eret s' t = ERR_EVENTUAL /\ epc s' t = VFin /\ elock s' = None /\ eready s' = true /\
     evalue s' = evalue s /\ ewl s' = ewl s /\ ensets s' = ensets s /\ egen s' = egen s).
Proof.
  intros Hl Hpc Hr. cbn [vstep]. rewrite Hl, Hpc, Hr. cbn [oeq]. rewrite Nat.eqb_refl.
  split; [reflexivity|]. split; [eexists; reflexivity|].
  intros s' H. inversion H; subst s'; vsimpl. rewrite !upd_same. repeat split; auto.
Qed.
(* ... and a set that finds it unready cannot fail *)
Theorem ev_set_cannot_fail_early s t : elock s = Some t -> epc s t = VS1 -> eready s = false ->
  vstep s VRel = None /\ vstep s (VData t 1%Z) <> None.
Proof.
  intros Hl Hpc Hr. cbn [vstep]. rewrite Hl, Hpc, Hr. cbn [oeq]. rewrite Nat.eqb_refl. split; [reflexivity|discriminate].
Qed.

(* ---- wait ---- *)

(* the step at which a wait lets its caller go (ready path, or being woken): ready holds *)
Theorem ev_wait_return_step s e s' x : VInv s -> vstep s e = Some s' ->
  vreturned (epc s x) = false -> vreturned (epc s' x) = true ->
  eready s' = true /\ ewgen s' x = egen s'.
Proof.
  intros I H H0 H1.
  destruct e as [t k o|t r|t| |t ult|y| |t c|t flag v]; cbn [vstep] in H.
  all: repeat match type of H with
       | context [match ?X with _ => _ end] => destruct X eqn:?
       end; try discriminate.
  all: inversion H; subst s'; clear H; vsimpl.
  all: repeat match goal with
       | F : (_ =? _)%nat = true |- _ => apply Nat.eqb_eq in F; subst
       end.
  all: ucases x; try congruence; try (cbn in H1; discriminate).
  all: try (rewrite ?upd_same; split; [assumption|reflexivity]).
  all: try match goal with E : epc _ ?y = _, F : vreturned (epc _ ?y) = false |- _ => rewrite E in F; cbn in F; discriminate end.
  all: rewrite ?upd_same in *; cbn in H1; try discriminate.
  all: split; try reflexivity.
  all: match goal with E : epc _ ?n = VS2 |- _ => apply (v_set _ I n); rewrite E; reflexivity
                     | E : epc _ ?n = VS2w |- _ => apply (v_set _ I n); rewrite E; reflexivity end.
Qed.

Theorem ev_wait_returns_ready cap tr s x : vrun (vinit cap) tr = Some s ->
  vreturned (epc s x) = true -> ewgen s x = egen s ->
  eready s = true /\ ensets s = 1 /\ evalue s = esetval s.
Proof.
  intros H Hr Hg. apply vinv_reachable in H.
  pose proof (v_ret _ H x Hr Hg) as R. split; [exact R|]. split.
  - rewrite (v_ns _ H), R. reflexivity.
  - apply (v_val _ H R).
Qed.

(* the value the caller reads through the pointer wait handed out is the one the set left *)
Theorem ev_wait_reads_set_value cap tr s x f v s' : vrun (vinit cap) tr = Some s ->
  epc s x = VWR \/ epc s x = VER -> vstep s (VRead x f v) = Some s' ->
  v = evalue s /\ (ewgen s x = egen s -> eready s = true /\ v = esetval s).
Proof.
  intros H Hpc Hs. apply vinv_reachable in H.
  assert (Hv : v = evalue s).
  { cbn [vstep] in Hs. destruct Hpc as [E|E]; rewrite E in Hs;
    destruct f; cbn [andb] in Hs; try discriminate;
    destruct (Z.eqb v (evalue s)) eqn:Q; try discriminate; apply Z.eqb_eq in Q; exact Q. }
  split; [exact Hv|]. intros Hg.
  assert (R : eready s = true).
  { apply (v_ret _ H x); [|exact Hg]. destruct Hpc as [E|E]; rewrite E; reflexivity. }
  split; [exact R|]. rewrite Hv. apply (v_val _ H R).
Qed.

(* ---- test ---- *)
Theorem ev_test_exact cap tr s t s' : vrun (vinit cap) tr = Some s ->
  elock s = Some t -> epc s t = VT1 -> vstep s VRel = Some s' ->
  eflag s' t = eready s /\ epc s' t = VTR /\ ewgen s' t = egen s' /\ eready s' = eready s /\
  (eready s = true -> ensets s = 1 /\ evalue s = esetval s /\ forall u, vin_set (epc s u) = false).
Proof.
  intros H Hl Hpc Hs. apply vinv_reachable in H.
  cbn [vstep] in Hs. rewrite Hl, Hpc in Hs. inversion Hs; subst s'; vsimpl. rewrite !upd_same.
  repeat split; auto.
  - rewrite (v_ns _ H), H0. reflexivity.
  - apply (v_val _ H H0).
  - intros u. destruct (Nat.eq_dec u t) as [->|N]; [rewrite Hpc; reflexivity|].
    pose proof (v_lock _ H u) as L. rewrite Hl in L. rewrite (oeq_some_ne _ _ N) in L.
    destruct (epc s u); cbn in *; congruence.
Qed.

Theorem ev_test_reads_set_value cap tr s x f v s' : vrun (vinit cap) tr = Some s ->
  epc s x = VTR -> vstep s (VRead x f v) = Some s' ->
  f = eflag s x /\ (f = true -> v = evalue s /\ (ewgen s x = egen s -> eready s = true /\ v = esetval s)).
Proof.
  intros H Hpc Hs. apply vinv_reachable in H.
  cbn [vstep] in Hs. rewrite Hpc in Hs.
  destruct (Bool.eqb f (eflag s x)) eqn:F; [|discriminate]. apply eqb_prop in F. cbn [andb] in Hs.
  destruct (Z.eqb v (if f then evalue s else 0%Z)) eqn:Q; [|discriminate]. apply Z.eqb_eq in Q.
  split; [exact F|]. intros ->. split; [exact Q|]. intros Hg.
  assert (R : eready s = true) by (apply (v_tr _ H x); [rewrite Hpc; reflexivity|congruence|exact Hg]).
  split; [exact R|]. rewrite Q. apply (v_val _ H R).
Qed.

(* ---- no lost waiter ---- *)
Theorem ev_no_lost_waiter cap tr s : vrun (vinit cap) tr = Some s ->
  (forall x, vqueued (epc s x) = true ->
     In x (ewl s) /\ (eready s = false \/ exists u, elock s = Some u /\ vwaking (epc s u) = true)) /\
  (elock s = None -> eready s = true -> ewl s = [] /\ forall x, vqueued (epc s x) = false).
Proof.
  intros H. apply vinv_reachable in H. split.
  - intros x Hq. assert (Hin : In x (ewl s)) by (apply inb_In; rewrite (v_wl _ H); exact Hq).
    split; [exact Hin|]. destruct (eready s) eqn:R; [right|left; reflexivity].
    apply (v_nl _ H R). intros E. rewrite E in Hin. destruct Hin.
  - intros Hl R. assert (E : ewl s = []).
    { destruct (ewl s) eqn:E; [reflexivity|]. destruct (v_nl _ H R) as [u [Hu _]]; [rewrite E; discriminate|congruence]. }
    split; [exact E|]. intros x. rewrite <- (v_wl _ H x), E. reflexivity.
Qed.

(* a successful set that completes has woken every waiter queued before its release *)
Theorem ev_set_wakes_all cap tr s u s' : vrun (vinit cap) tr = Some s ->
  elock s = Some u -> vsetting (epc s u) = true -> vstep s VRel = Some s' ->
  ewl s' = [] /\ (forall x, vqueued (epc s' x) = false) /\ eready s' = true /\ eret s' u = 0%Z.
Proof.
  intros H Hl Hpc Hs.
  assert (I' : VInv s') by (eapply vstep_inv; [eapply vinv_reachable; eauto|eauto]).
  pose proof (v_set _ (vinv_reachable _ _ _ H) u Hpc) as R.
  assert (E : ewl s' = [] /\ eready s' = true /\ eret s' u = 0%Z).
  { cbn [vstep] in Hs. rewrite Hl in Hs. destruct (epc s u); try discriminate;
    destruct (ewl s) eqn:W; try discriminate; inversion Hs; subst s'; vsimpl; rewrite upd_same; auto. }
  destruct E as [E [R' Q]]. repeat split; auto.
  intros x. rewrite <- (v_wl _ I' x), E. reflexivity.
Qed.

(* ... and the broadcast can always take its next step: the head of the list is a sleeping waiter *)
Theorem ev_wake_enabled cap tr s u x rest : vrun (vinit cap) tr = Some s ->
  elock s = Some u -> vwaking (epc s u) = true -> ewl s = x :: rest ->
  exists s', vstep s (VWake x) = Some s' /\ ewl s' = rest /\ vreturned (epc s' x) = true.
Proof.
  intros H Hl Hpc Hw. apply vinv_reachable in H.
  pose proof (v_wl _ H x) as Q. rewrite Hw, inb_cons, Nat.eqb_refl in Q. cbn [orb] in Q.
  pose proof (v_lock _ H x) as L. rewrite Hl in L.
  assert (N : x <> u).
  { intros ->. destruct (epc s u); cbn in *; congruence. }
  rewrite (oeq_some_ne _ _ N) in L.
  cbn [vstep]. rewrite Hl, Hw, Nat.eqb_refl.
  destruct (epc s u) eqn:Eu; try discriminate;
  destruct (epc s x) eqn:Ex; cbn in Q, L; try discriminate;
  eexists; (split; [reflexivity|]); vsimpl; rewrite upd_same; split; reflexivity.
Qed.
