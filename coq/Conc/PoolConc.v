(* C07 — labelled transition system of one shared built-in pool (access SPSC,
   MPSC, SPMC, MPMC: the *_shared functions of fifo.c / randws.c, and
   fifo_wait.c) under any number of concurrent callers.  Model only.

   One step = one atomic action of the C code:
     - a lock acquisition (successful test-and-set / pthread_mutex_lock),
     - a failed ABTD_spinlock_try_acquire,
     - an unlocked acquire-load of is_empty / is_in_pool / num_threads, or of
       the lock word (ABTD_spinlock_is_locked),
     - the body of a critical section (the thread_queue_* calls made while the
       lock is held),
     - the lock release,
     - pthread_cond_timedwait giving up the mutex, and its wake-up,
     - the clock test of the polling loops.
   Any thread may take any enabled step at any time and may call any pool
   operation when idle (most general client), subject to the callers'
   contract on pushes (a unit is pushed by one caller at a time and only
   while it is not in the pool), which is tracked by the ghost [c_own].

   Private pools (ABT_POOL_ACCESS_PRIV) have a single caller and no
   interleaving: they are covered by DS/PoolSeqProofs.v. *)
From Coq Require Import List Arith Bool NArith.
From ABT Require Import DS.ThreadQueue DS.Deque DS.PoolSeq DS.PoolSpec.
Import ListNotations.

Definition tid := nat.

(* operations a caller may invoke (p_push, p_push_many, p_pop, p_pop_many,
   p_pop_wait, p_pop_timedwait, p_remove, p_get_size, p_is_empty) *)
Inductive cop :=
| CPush (u : id) (ctx : N)
| CPushMany (us : list id) (ctx : N)        (* us <> [] : pool.c never passes 0 units *)
| CPop (ctx : N)
| CPopMany (max : nat) (ctx : N)            (* max <> 0 : pool.c never passes len 0 *)
| CPopWait (ctx : N)
| CPopTimedwait
| CRemove (u : id)
| CGetSize
| CIsEmpty.

Inductive cret :=
| RetUnit
| RetPtr (p : ptr)
| RetList (l : list id)
| RetBool (b : bool)
| RetNat (n : nat).

(* where a caller is inside its pool function *)
Inductive phase :=
| PhStart            (* first unlocked is_empty / num load of the call or of a polling round *)
| PhTry              (* acquire_spinlock_if_not_empty: about to try_acquire *)
| PhLoadE            (* ... inner loop: load is_empty *)
| PhIsLocked         (* ... inner loop: ABTD_spinlock_is_locked *)
| PhChk2             (* fifo_wait.c pool_remove: unlocked is_in_pool check *)
| PhWantLock         (* blocking acquire (ABTD_spinlock_acquire / pthread_mutex_lock) pending *)
| PhLocked           (* lock held, critical section not yet executed *)
| PhCondWait         (* fifo_wait.c pop_wait: inside pthread_cond_timedwait, mutex released *)
| PhRelock           (* ... woken (signal, time-out or spuriously), re-acquiring the mutex *)
| PhLocked2          (* ... mutex held again; pop_head comes next *)
| PhUnlock (r : cret) (* critical section done, release pending *)
| PhSleep (may_timeout : bool)  (* polling loops: round failed; clock test + nanosleep *)
| PhDone (r : cret).  (* about to return r *)

(* [f] = some polling round of this call has already failed and its clock test
   is over (so time_start is set) *)
Inductive pc := Idle | InOp (o : cop) (f : bool) (ph : phase).

(* ghost: who may push a unit *)
Inductive owner := OAvail | OResv (t : tid) | OInPool.

Inductive event :=
| ECall (t : tid) (o : cop)
| EEff (t : tid) (o : cop) (r : cret)     (* the step at which the operation (or one polling round) takes effect *)
| ERet (t : tid) (r : cret).

Record cstate := mkC {
  c_q : tq;
  c_h : heap;
  c_lock : option tid;          (* None = free; Some t = held (holder is ghost) *)
  c_pc : tid -> pc;
  c_own : id -> owner;          (* ghost *)
  c_abs : list id;              (* ghost: the deque the pool is supposed to be *)
  c_trace : list event          (* ghost: newest event first *)
}.

Definition c_init : cstate :=
  mkC tq_init heap_init None (fun _ => Idle) (fun _ => OAvail) [] [].

Definition spin (k : kind) : bool := match k with FIFO_WAIT => false | _ => true end.

(* polling operations of the spinlock kinds: a round that finds nothing is
   not the end of the call *)
Definition is_poll (k : kind) (o : cop) : bool :=
  spin k && match o with CPopWait _ | CPopTimedwait => true | _ => false end.
Definition is_retry (k : kind) (o : cop) (r : cret) : bool :=
  is_poll k o && match r with RetPtr None => true | _ => false end.

(* phase in which a call starts *)
Definition start_phase (k : kind) (o : cop) : phase :=
  match o with
  | CPush _ _ | CPushMany _ _ => PhWantLock
  | CRemove _ => if spin k then PhWantLock else PhStart
  | CPopWait _ | CPopTimedwait => if spin k then PhStart else PhWantLock
  | _ => PhStart
  end.

Definition own_avail (own : id -> owner) (u : id) : bool :=
  match own u with OAvail => true | _ => false end.
Fixpoint own_set (own : id -> owner) (us : list id) (v : owner) : id -> owner :=
  match us with [] => own | u :: us' => own_set (upd own u v) us' v end.

(* may t call o now?  (contract on pushes, argument sanity) *)
Definition call_ok (s : cstate) (o : cop) : bool :=
  match o with
  | CPush u _ => own_avail (c_own s) u
  | CPushMany us _ => negb (match us with [] => true | _ => false end) && nodupb us && forallb (own_avail (c_own s)) us
  | CPopMany max _ => negb (Nat.eqb max 0)
  | _ => true
  end.
Definition call_own (s : cstate) (t : tid) (o : cop) : id -> owner :=
  match o with
  | CPush u _ => upd (c_own s) u (OResv t)
  | CPushMany us _ => own_set (c_own s) us (OResv t)
  | _ => c_own s
  end.

Definition pop_kind (k : kind) (o : cop) : kind * N :=
  match o with
  | CPop ctx | CPopMany _ ctx | CPopWait ctx => (k, ctx)
  | _ => (FIFO, 0%N)              (* pop_timedwait: always thread_queue_pop_head *)
  end.

(* outcome of one internal step of thread t *)
Inductive lockop := LKeep | LAcq | LRel.
Inductive outcome :=
| OSilent (ph' : phase) (lk : lockop)
| OEff (q' : tq) (h' : heap) (abs' : list id) (own' : id -> owner) (r : cret) (ph' : phase) (lk : lockop).

Definition res_opt {A} (r : res A) : option A := match r with Ret x => Some x | _ => None end.

(* the critical section of operation o (lock held): the thread_queue_* calls,
   the ghost updates, the result *)
Definition body (k : kind) (s : cstate) (o : cop) : option (tq * heap * list id * (id -> owner) * cret) :=
  match o with
  | CPush u ctx =>
      match res_opt (q_push k ctx (c_q s) (c_h s) u) with
      | Some (q', h') => Some (q', h', sp_push k ctx (c_abs s) u, upd (c_own s) u OInPool, RetUnit)
      | None => None
      end
  | CPushMany us ctx =>
      match res_opt (q_push_list k ctx (c_q s) (c_h s) us) with
      | Some (q', h') => Some (q', h', sp_push_list k ctx (c_abs s) us, own_set (c_own s) us OInPool, RetUnit)
      | None => None
      end
  | CPop _ | CPopWait _ | CPopTimedwait =>
      let (kk, ctx) := pop_kind k o in
      match res_opt (q_pop kk ctx (c_q s) (c_h s)) with
      | Some (q', h', r) =>
          Some (q', h', fst (sp_pop kk ctx (c_abs s)),
                match r with Some u => upd (c_own s) u OAvail | None => c_own s end, RetPtr r)
      | None => None
      end
  | CPopMany max ctx =>
      match res_opt (q_pop_list k ctx (c_q s) (c_h s) max) with
      | Some (q', h', xs) =>
          Some (q', h', fst (sp_pop_list k ctx (c_abs s) max), own_set (c_own s) xs OAvail, RetList xs)
      | None => None
      end
  | CRemove u =>
      match tq_remove (c_q s) (c_h s) u with
      | Some (q', h', ok) =>
          Some (q', h', fst (dq_remove (c_abs s) u), if ok then upd (c_own s) u OAvail else c_own s, RetBool ok)
      | None => None
      end
  | CGetSize | CIsEmpty => None     (* no critical section *)
  end.

(* an effect that changes nothing (an unlocked load that decides the result) *)
Definition eff_read (s : cstate) (r : cret) (ph' : phase) : outcome :=
  OEff (c_q s) (c_h s) (c_abs s) (c_own s) r ph' LKeep.

(* where a failed / finished round goes next *)
Definition after_result (k : kind) (o : cop) (f : bool) (r : cret) : phase :=
  if is_retry k o r then PhSleep (match o with CPopTimedwait => true | _ => f end) else PhDone r.

(* the operations that start with the unlocked emptiness test *)
Definition fastpath (o : cop) : bool :=
  match o with CPop _ | CPopMany _ _ | CPopWait _ | CPopTimedwait | CRemove _ => true | _ => false end.

Definition empty_result (o : cop) : cret :=
  match o with
  | CPopMany _ _ => RetList []
  | CRemove _ => RetBool false
  | _ => RetPtr None
  end.

(* [choice] resolves the only real nondeterminism of a step: the clock test *)
Definition next (k : kind) (s : cstate) (t : tid) (o : cop) (f : bool) (ph : phase) (choice : bool)
  : option outcome :=
  match ph with
  | PhStart =>
      match o with
      | CGetSize => Some (eff_read s (RetNat (tq_get_size (c_q s))) (PhDone (RetNat (tq_get_size (c_q s)))))
      | CIsEmpty => Some (eff_read s (RetBool (tq_is_empty (c_q s))) (PhDone (RetBool (tq_is_empty (c_q s)))))
      | CPush _ _ | CPushMany _ _ => None
      | _ =>
          (* first acquire-load of is_empty *)
          if tq_is_empty (c_q s) then Some (eff_read s (empty_result o) (after_result k o f (empty_result o)))
          else match o with
               | CRemove _ => Some (OSilent PhChk2 LKeep)                        (* FIFO_WAIT only *)
               | _ => Some (OSilent (if spin k then PhTry else PhWantLock) LKeep)
               end
      end
  | PhTry =>
      (* ABTD_spinlock_try_acquire *)
      match c_lock s with
      | None => Some (OSilent PhLocked LAcq)
      | Some _ => Some (OSilent PhLoadE LKeep)
      end
  | PhLoadE =>
      if fastpath o then
        if tq_is_empty (c_q s) then Some (eff_read s (empty_result o) (after_result k o f (empty_result o)))
        else Some (OSilent PhIsLocked LKeep)
      else None
  | PhIsLocked =>
      match c_lock s with
      | None => Some (OSilent PhTry LKeep)
      | Some _ => Some (OSilent PhLoadE LKeep)
      end
  | PhChk2 =>
      match o with
      | CRemove u =>
          if h_inpool (c_h s) u then Some (OSilent PhWantLock LKeep)
          else Some (eff_read s (RetBool false) (PhDone (RetBool false)))
      | _ => None
      end
  | PhWantLock =>
      match c_lock s with
      | None => Some (OSilent PhLocked LAcq)
      | Some _ => None                         (* blocked *)
      end
  | PhRelock =>
      match c_lock s with
      | None => Some (OSilent PhLocked2 LAcq)
      | Some _ => None
      end
  | PhLocked =>
      match o with
      | CPopWait _ | CPopTimedwait =>
          if negb (spin k) && tq_is_empty (c_q s) then Some (OSilent PhCondWait LRel)   (* pthread_cond_timedwait *)
          else match body k s o with
               | Some (q', h', abs', own', r) => Some (OEff q' h' abs' own' r (PhUnlock r) LKeep)
               | None => None
               end
      | _ => match body k s o with
             | Some (q', h', abs', own', r) => Some (OEff q' h' abs' own' r (PhUnlock r) LKeep)
             | None => None
             end
      end
  | PhCondWait => Some (OSilent PhRelock LKeep)
  | PhLocked2 =>
      match body k s o with
      | Some (q', h', abs', own', r) => Some (OEff q' h' abs' own' r (PhUnlock r) LKeep)
      | None => None
      end
  | PhUnlock r => Some (OSilent (after_result k o f r) LRel)
  | PhSleep may_timeout =>
      (* "if (time_start == 0.0) time_start = now; else if (elapsed > t) return NULL" / "if (now > abstime) return" *)
      if may_timeout && choice then Some (OSilent (PhDone (RetPtr None)) LKeep)
      else Some (OSilent PhStart LKeep)
  | PhDone _ => None
  end.

Definition is_sleep (ph : phase) : bool := match ph with PhSleep _ => true | _ => false end.

Definition apply_lock (s : cstate) (t : tid) (lk : lockop) : option tid :=
  match lk with LKeep => c_lock s | LAcq => Some t | LRel => None end.

Inductive action := ACall (o : cop) | AStep (choice : bool) | ARet.

Definition step (k : kind) (s : cstate) (t : tid) (a : action) : option cstate :=
  match a, c_pc s t with
  | ACall o, Idle =>
      if call_ok s o then
        Some (mkC (c_q s) (c_h s) (c_lock s) (upd (c_pc s) t (InOp o false (start_phase k o)))
                  (call_own s t o) (c_abs s) (ECall t o :: c_trace s))
      else None
  | AStep choice, InOp o f ph =>
      match next k s t o f ph choice with
      | Some (OSilent ph' lk) =>
          Some (mkC (c_q s) (c_h s) (apply_lock s t lk) (upd (c_pc s) t (InOp o (f || is_sleep ph) ph'))
                    (c_own s) (c_abs s) (c_trace s))
      | Some (OEff q' h' abs' own' r ph' lk) =>
          Some (mkC q' h' (apply_lock s t lk) (upd (c_pc s) t (InOp o f ph'))
                    own' abs' (EEff t o r :: c_trace s))
      | None => None
      end
  | ARet, InOp o f (PhDone r) =>
      Some (mkC (c_q s) (c_h s) (c_lock s) (upd (c_pc s) t Idle) (c_own s) (c_abs s) (ERet t r :: c_trace s))
  | _, _ => None
  end.

Fixpoint run (k : kind) (s : cstate) (acts : list (tid * action)) : option cstate :=
  match acts with
  | [] => Some s
  | (t, a) :: acts' => match step k s t a with Some s' => run k s' acts' | None => None end
  end.

(* ------------------------------------------------------------ history checking *)
(* is (o, r) a legal transition of the deque l, and to which deque? *)
Definition ptr_eq (a b : ptr) : bool := ptr_eqb a b.
Fixpoint list_eqb (a b : list id) : bool :=
  match a, b with
  | [], [] => true
  | x :: a', y :: b' => Nat.eqb x y && list_eqb a' b'
  | _, _ => false
  end.
Definition eff_spec (k : kind) (o : cop) (r : cret) (l : list id) : option (list id) :=
  match o, r with
  | CPush u ctx, RetUnit => if memb u l then None else Some (sp_push k ctx l u)
  | CPushMany us ctx, RetUnit =>
      if nodupb us && forallb (fun u => negb (memb u l)) us then Some (sp_push_list k ctx l us) else None
  | CPop ctx, RetPtr p | CPopWait ctx, RetPtr p =>
      let (l', p') := sp_pop k ctx l in if ptr_eq p p' then Some l' else None
  | CPopTimedwait, RetPtr p =>
      let (l', p') := dq_pop_head l in if ptr_eq p p' then Some l' else None
  | CPopMany max ctx, RetList xs =>
      let (l', xs') := sp_pop_list k ctx l max in if list_eqb xs xs' then Some l' else None
  | CRemove u, RetBool ok =>
      let (l', ok') := dq_remove l u in if Bool.eqb ok ok' then Some l' else None
  | CGetSize, RetNat n => if Nat.eqb n (length l) then Some l else None
  | CIsEmpty, RetBool b => if Bool.eqb b (match l with [] => true | _ => false end) then Some l else None
  | _, _ => None
  end.

(* replay the effect events (oldest first = from the end of the trace) *)
Fixpoint replay (k : kind) (tr : list event) : option (list id) :=
  match tr with
  | [] => Some []
  | EEff _ o r :: older =>
      match replay k older with Some l => eff_spec k o r l | None => None end
  | _ :: older => replay k older
  end.

(* per-thread shape of the trace: Call, then effect(s), then Return of the
   effect's value; a polling call may have several failed rounds first and may
   return "nothing" after at least one of them *)
Inductive tphase := TIdle | TCalled (o : cop) | TFailed (o : cop) | TDone (o : cop) (r : cret).

Definition cop_eqb (a b : cop) : bool :=
  match a, b with
  | CPush u c, CPush u' c' => Nat.eqb u u' && N.eqb c c'
  | CPushMany us c, CPushMany us' c' => list_eqb us us' && N.eqb c c'
  | CPop c, CPop c' => N.eqb c c'
  | CPopMany m c, CPopMany m' c' => Nat.eqb m m' && N.eqb c c'
  | CPopWait c, CPopWait c' => N.eqb c c'
  | CPopTimedwait, CPopTimedwait => true
  | CRemove u, CRemove u' => Nat.eqb u u'
  | CGetSize, CGetSize => true
  | CIsEmpty, CIsEmpty => true
  | _, _ => false
  end.
Definition cret_eqb (a b : cret) : bool :=
  match a, b with
  | RetUnit, RetUnit => true
  | RetPtr p, RetPtr p' => ptr_eqb p p'
  | RetList l, RetList l' => list_eqb l l'
  | RetBool b, RetBool b' => Bool.eqb b b'
  | RetNat n, RetNat n' => Nat.eqb n n'
  | _, _ => false
  end.

Definition tphase_event (k : kind) (t : tid) (e : event) (p : tphase) : option tphase :=
  match e with
  | ECall t' o => if Nat.eqb t' t then match p with TIdle => Some (TCalled o) | _ => None end else Some p
  | EEff t' o r =>
      if Nat.eqb t' t then
        match p with
        | TCalled o' | TFailed o' =>
            if cop_eqb o o' then Some (if is_retry k o r then TFailed o else TDone o r) else None
        | _ => None
        end
      else Some p
  | ERet t' r =>
      if Nat.eqb t' t then
        match p with
        | TDone _ r' => if cret_eqb r r' then Some TIdle else None
        | TFailed _ => if cret_eqb r (RetPtr None) then Some TIdle else None
        | _ => None
        end
      else Some p
  end.
Fixpoint tproj (k : kind) (t : tid) (tr : list event) : option tphase :=
  match tr with
  | [] => Some TIdle
  | e :: older => match tproj k t older with Some p => tphase_event k t e p | None => None end
  end.

(* what the program counter says about the same thing *)
Definition pc_tphase (k : kind) (p : pc) : tphase :=
  match p with
  | Idle => TIdle
  | InOp o f ph =>
      match ph with
      | PhUnlock r | PhDone r => if is_retry k o r then TFailed o else TDone o r
      | PhSleep _ => TFailed o
      | _ => if f then TFailed o else TCalled o
      end
  end.

(* exactly-once bookkeeping on a trace *)
Definition count (u : id) (l : list id) : nat := count_occ Nat.eq_dec l u.
Definition pushed_by (o : cop) (r : cret) (u : id) : nat :=
  match o, r with
  | CPush v _, RetUnit => if Nat.eqb v u then 1 else 0
  | CPushMany vs _, RetUnit => count u vs
  | _, _ => 0
  end.
Definition taken_by (o : cop) (r : cret) (u : id) : nat :=
  match o, r with
  | CPop _, RetPtr (Some v) | CPopWait _, RetPtr (Some v) | CPopTimedwait, RetPtr (Some v) => if Nat.eqb v u then 1 else 0
  | CPopMany _ _, RetList vs => count u vs
  | CRemove v, RetBool true => if Nat.eqb v u then 1 else 0
  | _, _ => 0
  end.
Fixpoint pushes (tr : list event) (u : id) : nat :=
  match tr with
  | [] => 0
  | EEff _ o r :: older => pushed_by o r u + pushes older u
  | _ :: older => pushes older u
  end.
Fixpoint takes (tr : list event) (u : id) : nat :=
  match tr with
  | [] => 0
  | EEff _ o r :: older => taken_by o r u + takes older u
  | _ :: older => takes older u
  end.
