(* The C05 theorems about the CondMutex LTS, from the invariants of CondMutexProofs.v. *)
From Coq Require Import List Arith ZArith Lia Bool.
From ABT Require Import Common.ListAux Conc.Mutex Conc.MutexProofs Conc.CondMutex Conc.CondMutexProofs.
Import ListNotations.

(* ------------------------------------------------------------------ *)
(* 3. the C05 theorems                                                  *)

Lemma cinb_In x l : cinb x l = true <-> In x (map fst l).
Proof. apply inb_In. Qed.

(* 3.1 atomic release-and-wait.  A caller inside wait/timedwait that no longer
   owns the mutex, and has not been woken or timed out, either still holds the
   cond lock (so nobody can signal) or is already in the wait list. *)
Theorem release_wait_atomic rec m t0 tr s t :
  crun (cinit rec m t0) tr = Some s ->
  waiting (cpc s t) = true -> holds (pc (ms s) t) = false ->
  clock s = Some t \/ In t (map fst (cwl s)).
Proof.
  intros R W Hh. pose proof (cinv_reachable _ _ _ _ _ R) as I.
  unfold waiting in W. apply orb_true_iff in W. destruct W as [W|W].
  - left. apply oeq_true. rewrite <- (ci_clk _ I).
    destruct (cpc s t) eqn:C; try discriminate; try reflexivity.
    all: rewrite (ci_hold _ I t) in Hh by (rewrite C; reflexivity); discriminate.
  - right. apply cinb_In. rewrite (ci_q _ I). exact W.
Qed.

Definition is_wake_ev (e : cev) : bool :=
  match e with CSignal _ | CWake _ | CBcast => true | _ => false end.

(* ... and in the window between the release of the mutex and the enqueue, no
   signal / broadcast step of anybody is enabled. *)
Theorem no_signal_in_window rec m t0 tr s t e :
  crun (cinit rec m t0) tr = Some s ->
  prewait (cpc s t) = true -> holds (pc (ms s) t) = false ->
  is_wake_ev e = true -> cstep s e = None.
Proof.
  intros R W Hh He. pose proof (cinv_reachable _ _ _ _ _ R) as I.
  assert (C : cpc s t = CWU).
  { destruct (cpc s t) eqn:C; try discriminate; try reflexivity.
    all: rewrite (ci_hold _ I t) in Hh by (rewrite C; reflexivity); discriminate. }
  assert (Hc : clock s = Some t).
  { apply oeq_true. rewrite <- (ci_clk _ I), C. reflexivity. }
  destruct e; try discriminate; cbn [cstep]; rewrite Hc, C; reflexivity.
Qed.

(* a signaller that owns the mutex and has taken the cond lock finds every waiting caller queued *)
Corollary signaller_finds_waiter rec m t0 tr s u t :
  crun (cinit rec m t0) tr = Some s ->
  clock s = Some u -> holds (pc (ms s) u) = true -> u <> t ->
  waiting (cpc s t) = true -> In t (map fst (cwl s)).
Proof.
  intros R Hc Hu Hne W. pose proof (mutex_inv _ _ _ _ _ R) as MI.
  destruct (holds (pc (ms s) t)) eqn:Ht.
  - exfalso. rewrite (i_hold _ MI) in Hu, Ht. apply oeq_true in Hu, Ht. congruence.
  - destruct (release_wait_atomic _ _ _ _ _ _ R W Ht) as [H|H]; [congruence|exact H].
Qed.

(* 3.2 exact wake-ups *)
Theorem signal_exact s o s' : cstep s (CSignal o) = Some s' ->
  o = hd_error (map fst (cwl s)) /\ cwl s' = tl (cwl s) /\
  (forall x, given s' x = given s x + (if oeq o x then 1 else 0)) /\
  (forall x, o <> Some x -> clock s <> Some x -> cpc s' x = cpc s x) /\
  (forall x, o = Some x -> credit s' x = true /\ woken_pc (cpc s x) = Some (cpc s' x)).
Proof.
  intros H. cbn [cstep] in H.
  destruct (clock s) as [u|] eqn:Hc; [|discriminate]. destruct (cpc s u) eqn:Cu; try discriminate.
  destruct o as [x|]; destruct (cwl s) as [|[y b] rest] eqn:L; try discriminate.
  - destruct (wake_head s x) as [s1|] eqn:W; [|discriminate]. inversion H; subst s'; clear H.
    destruct (wake_head_spec _ _ _ W) as (b' & rest' & p & L' & Wp & ->).
    rewrite L in L'. inversion L'; subst y b' rest'.
    assert (Hux : u <> x) by (intros ->; rewrite Cu in Wp; discriminate).
    cbn [cwl cpc given credit set_cpc give set_cwl map fst hd_error tl oeq]. rewrite ?L. cbn [map fst hd_error tl].
    split; [reflexivity|]. split; [reflexivity|]. split; [|split].
    + intros z. unfold upd. destruct (Nat.eqb_spec z x) as [->|Hz].
      * rewrite Nat.eqb_refl. lia.
      * destruct (Nat.eqb_spec x z); [congruence|lia].
    + intros z Hz Hcz. rewrite !upd_other; congruence.
    + intros z Hz. inversion Hz; subst z. split; [apply upd_same|].
      rewrite upd_other by congruence. rewrite upd_same. exact Wp.
  - inversion H; subst s'; clear H. cbn [cwl cpc given credit set_cpc map hd_error tl oeq]. rewrite ?L. cbn [map hd_error tl].
    split; [reflexivity|]. split; [reflexivity|]. split; [|split].
    + intros z. lia.
    + intros z _ Hcz. rewrite upd_other; congruence.
    + intros z Hz. discriminate.
Qed.

Theorem wake_exact s x s' : cstep s (CWake x) = Some s' ->
  hd_error (map fst (cwl s)) = Some x /\ cwl s' = tl (cwl s) /\
  (forall z, given s' z = given s z + (if Nat.eqb x z then 1 else 0)) /\
  credit s' x = true /\ woken_pc (cpc s x) = Some (cpc s' x) /\
  (forall z, z <> x -> clock s <> Some z -> cpc s' z = cpc s z).
Proof.
  intros H. cbn [cstep] in H.
  destruct (clock s) as [u|] eqn:Hc; [|discriminate].
  assert (exists s1, wake_head s x = Some s1 /\ s' = set_cpc s1 u CB1w /\ woken_pc (cpc s u) = None) as (s1 & W & -> & Wu).
  { destruct (cpc s u); try discriminate; destruct (wake_head s x) as [s1|]; try discriminate;
    inversion H; eauto. }
  destruct (wake_head_spec _ _ _ W) as (b & rest & p & L & Wp & ->).
  assert (Hux : u <> x) by (intros ->; congruence).
  cbn [cwl cpc given credit set_cpc give set_cwl]. rewrite L. cbn [map fst hd_error tl].
  repeat split.
  - intros z. unfold upd. destruct (Nat.eqb_spec z x) as [->|Hz].
    + rewrite Nat.eqb_refl. lia.
    + destruct (Nat.eqb_spec x z); [congruence|lia].
  - apply upd_same.
  - rewrite upd_other by congruence. rewrite upd_same. exact Wp.
  - intros z Hz Hcz. rewrite !upd_other; congruence.
Qed.

Definition bcasting (p : cpcT) : bool := match p with CB1 | CB1w => true | _ => false end.
Fixpoint wakes (tr : list cev) : list nat :=
  match tr with [] => [] | CWake x :: r => x :: wakes r | _ :: r => wakes r end.
Definition ends_bcast (e : cev) : bool := match e with CBcast | CRel => true | _ => false end.

(* while u is broadcasting, the wait list only shrinks, from the head, by u's own WAKE steps *)
Lemma bcast_frame s u e s' : clock s = Some u -> bcasting (cpc s u) = true ->
  cstep s e = Some s' -> ends_bcast e = false ->
  clock s' = Some u /\ bcasting (cpc s' u) = true /\
  map fst (cwl s) = wakes [e] ++ map fst (cwl s').
Proof.
  intros Hc Hb H He.
  destruct e as [me|t k o|t r|t| |t m|t k| o|x| |t v|n]; try discriminate.
  - (* CM *)
    destruct (cm_cases _ _ _ H) as [(E & -> & _)|(t & f & m1 & q & -> & Lq & P & E1 & E2 & ->)];
    cbn [clock cpc cwl set_ms set_cpc wakes app]; auto.
    rewrite upd_other; auto. intros ->. destruct (cpc s t); discriminate.
  - (* CBegin *)
    cbn [cstep] in H. destruct (cpc s t) eqn:C; try discriminate.
    assert (Htu : u <> t) by (intros ->; rewrite C in Hb; discriminate).
    destruct o as [m|m d| |]; [destruct k| | |];
    repeat match type of H with context [match ?X with _ => _ end] => destruct X end; try discriminate;
    inversion H; subst s'; cbn [clock cpc cwl set_cpc set_cret set_call wakes app]; rewrite ?upd_other by assumption; auto.
  - (* CEnd *)
    cbn [cstep] in H. destruct (cpc s t) eqn:C; try discriminate.
    all: assert (Htu : u <> t) by (intros ->; rewrite C in Hb; discriminate).
    all: repeat match type of H with context [match ?X with _ => _ end] => destruct X end; try discriminate;
         inversion H; subst s'; cbn [clock cpc cwl set_cpc set_cret take wakes app]; rewrite ?upd_other by assumption; auto.
  - cbn [cstep] in H. rewrite Hc in H. discriminate.
  - cbn [cstep] in H. destruct (cpc s t) eqn:C; try discriminate. rewrite Hc in H.
    destruct (wmx s); [discriminate|]. destruct (Nat.eqb_spec u t) as [->|]; [|discriminate].
    rewrite C in Hb. discriminate.
  - cbn [cstep] in H. destruct (cpc s t) eqn:C; try discriminate. rewrite Hc in H.
    destruct (pc (ms s) t); try discriminate. destruct (Nat.eqb_spec u t) as [->|]; [|discriminate].
    rewrite C in Hb. discriminate.
  - cbn [cstep] in H. rewrite Hc in H. destruct (cpc s u); discriminate.
  - destruct (wake_exact _ _ _ H) as (Hh & Ht & _ & _ & _ & _).
    cbn [cstep] in H. rewrite Hc in H.
    assert (exists s1, s' = set_cpc s1 u CB1w /\ wake_head s x = Some s1) as (s1 & -> & W).
    { destruct (cpc s u); try discriminate; destruct (wake_head s x) as [s1|]; try discriminate; inversion H; eauto. }
    destruct (wake_head_spec _ _ _ W) as (b & rest & p & L & Wp & ->).
    cbn [clock cpc cwl set_cpc give set_cwl wakes app]. rewrite upd_same, L. auto.
  - cbn [cstep] in H. rewrite Hc in H.
    destruct (Nat.eqb_spec u t) as [->|]; [|discriminate]. cbn [andb] in H.
    destruct (Z.leb (dl s t) (now s)); [|discriminate].
    destruct (cpc s t); discriminate.
  - cbn [cstep] in H. destruct (Z.leb (now s) n); [|discriminate]. inversion H; subst s'. auto.
Qed.

Lemma wakes_app a b : wakes (a ++ b) = wakes a ++ wakes b.
Proof. induction a as [|e a IH]; cbn; auto. destruct e; cbn; rewrite ?IH; auto. Qed.

(* a broadcast wakes exactly the callers that were queued when it took the cond lock, in queue order *)
Theorem broadcast_exact tr : forall s u s' e s'',
  clock s = Some u -> bcasting (cpc s u) = true ->
  crun s tr = Some s' -> forallb (fun e => negb (ends_bcast e)) tr = true ->
  ends_bcast e = true -> cstep s' e = Some s'' ->
  map fst (cwl s) = wakes tr /\ cwl s' = [] /\ clock s' = Some u.
Proof.
  induction tr as [|e0 r IH]; cbn [crun forallb]; intros s u s' e s'' Hc Hb R Hf He Hs.
  - inversion R; subst s'. cbn [wakes].
    assert (cwl s = []).
    { destruct e; try discriminate; cbn [cstep] in Hs; rewrite Hc in Hs;
      destruct (cpc s u); try discriminate; destruct (cwl s); try discriminate; reflexivity. }
    rewrite H. auto.
  - destruct (cstep s e0) as [s1|] eqn:E0; [|discriminate].
    apply andb_true_iff in Hf. destruct Hf as [Hf0 Hf].
    apply negb_true_iff in Hf0.
    destruct (bcast_frame _ _ _ _ Hc Hb E0 Hf0) as (Hc1 & Hb1 & Hl).
    destruct (IH _ _ _ _ _ Hc1 Hb1 R Hf He Hs) as (A & B & C).
    split; [|auto]. rewrite Hl, A. change (e0 :: r) with ([e0] ++ r). rewrite wakes_app. reflexivity.
Qed.

(* 3.3 no spurious wake-up, 3.4 returns holding the mutex.
   [cpc s t <> CIdle] singles out the END record of a wait / timedwait that went
   through the wait list (signal, broadcast and the refused calls return at CIdle). *)
Theorem wait_return_exact rec m t0 tr s t r s' :
  crun (cinit rec m t0) tr = Some s -> cpc s t <> CIdle -> cstep s (CEnd t r) = Some s' ->
  (r = 0%Z /\ credit s t = true /\ credit s' t = false /\
   given s t = S (taken s t) /\ taken s' t = S (taken s t) /\ given s' t = given s t)
  \/
  (r = ERR_COND_TIMEDOUT /\ credit s t = false /\ credit s' t = false /\ tmd s t = true /\
   (dl s t <= now s)%Z /\ given s t = taken s t /\ taken s' t = taken s t).
Proof.
  intros R Hn H. pose proof (cinv_reachable _ _ _ _ _ R) as I.
  pose proof (ci_cr _ I t) as Hcr. pose proof (ci_cnt _ I t) as Hcnt.
  cbn [cstep] in H. destruct (cpc s t) eqn:C; try discriminate; [congruence| |].
  - destruct (pc (ms s) t); try discriminate. destruct (Z.eqb_spec r 0); [|discriminate].
    inversion H; subst s'. cbn [credit taken given take set_cret set_cpc]. rewrite !upd_same.
    cbn in Hcr. rewrite Hcr in Hcnt. left. repeat split; auto; lia.
  - destruct (pc (ms s) t); try discriminate. destruct (Z.eqb_spec r ERR_COND_TIMEDOUT); [|discriminate].
    inversion H; subst s'. cbn [credit taken given set_cret set_cpc].
    cbn in Hcr. rewrite Hcr in Hcnt. right. repeat split; auto.
    + apply (ci_tm _ I). rewrite C. reflexivity.
    + apply (ci_dl _ I). rewrite C. reflexivity.
    + lia.
Qed.

Theorem wait_returns_holding rec m t0 tr s t r s' :
  crun (cinit rec m t0) tr = Some s -> cpc s t <> CIdle -> cstep s (CEnd t r) = Some s' ->
  pc (ms s) t = Holding /\ holder (ms s) = Some t /\ ms s' = ms s /\ cpc s' t = CIdle /\
  (cpc s t = CWLs \/ cpc s t = CWLt).
Proof.
  intros R Hn H. pose proof (mutex_inv _ _ _ _ _ R) as MI.
  cbn [cstep] in H. destruct (cpc s t) eqn:C; try discriminate; [congruence| |].
  all: destruct (pc (ms s) t) eqn:P; try discriminate.
  all: match type of H with (if ?b then _ else _) = _ => destruct b; [|discriminate] end.
  all: inversion H; subst s'; cbn [ms cpc take set_cret set_cpc]; rewrite ?upd_same.
  all: repeat split; auto.
  all: apply oeq_true; rewrite <- (i_hold _ MI), P; reflexivity.
Qed.

(* the re-lock phase CWLs / CWLt is entered only by the first try_acquire of a
   fresh ABTI_mutex_lock, started from a woken / timed-out program point with
   the caller outside any mutex operation; so the [Holding] required by the
   return step is the end of a complete mutex-lock program run after the wake-up *)
Definition relocking (p : cpcT) : bool := match p with CWLs | CWLt => true | _ => false end.
Theorem relock_entered_from_idle s e s' t :
  cstep s e = Some s' -> relocking (cpc s t) = false -> relocking (cpc s' t) = true ->
  exists f, e = CM (ETry t f) /\ pc (ms s) t = Idle /\ lockable (cpc s t) = Some (cpc s' t).
Proof.
  intros H N Y.
  destruct e as [me|t1 k o|t1 r|t1| |t1 m|t1 k| o|x| |t1 v|n].
  - destruct (cm_cases _ _ _ H) as [(E & Es & _)|(t1 & f & m1 & q & -> & Lq & P & E1 & E2 & Es)].
    + rewrite Es in Y. cbn [cpc set_ms] in Y. congruence.
    + rewrite Es in Y. cbn [cpc set_ms set_cpc] in Y. destruct (Nat.eq_dec t t1) as [->|Hne].
      * rewrite upd_same in Y. exists f. rewrite Es. cbn [cpc set_cpc set_ms]. rewrite upd_same. auto.
      * rewrite upd_other in Y by assumption. congruence.
  - cbn [cstep] in H. destruct (cpc s t1) eqn:C; try discriminate.
    destruct o as [m|m d| |]; [destruct k| | |];
    repeat match type of H with context [match ?X with _ => _ end] => destruct X end; try discriminate;
    inversion H; subst s'; cbn [cpc set_cpc set_cret set_call] in Y; try congruence;
    (destruct (Nat.eq_dec t t1) as [->|Hne]; [rewrite upd_same in Y; discriminate|rewrite upd_other in Y by assumption; congruence]).
  - cbn [cstep] in H. destruct (cpc s t1) eqn:C; try discriminate;
    repeat match type of H with context [match ?X with _ => _ end] => destruct X end; try discriminate;
    inversion H; subst s'; cbn [cpc set_cpc set_cret take] in Y; try congruence;
    (destruct (Nat.eq_dec t t1) as [->|Hne]; [rewrite upd_same in Y; discriminate|rewrite upd_other in Y by assumption; congruence]).
  - cbn [cstep] in H. unfold begin_unlock in H.
    repeat match type of H with context [match ?X with _ => _ end] => destruct X eqn:? end; try discriminate;
    inversion H; subst s'; cbn [cpc set_cpc set_clock set_ms] in Y;
    (destruct (Nat.eq_dec t t1) as [->|Hne]; [rewrite upd_same in Y; discriminate|rewrite upd_other in Y by assumption; congruence]).
  - cbn [cstep] in H. destruct (clock s) as [u|]; [|discriminate].
    repeat match type of H with context [match ?X with _ => _ end] => destruct X eqn:? end; try discriminate;
    inversion H; subst s'; cbn [cpc set_cpc set_clock set_cret] in Y;
    (destruct (Nat.eq_dec t u) as [->|Hne]; [rewrite upd_same in Y; try discriminate|rewrite upd_other in Y by assumption; congruence]).
  - cbn [cstep] in H. unfold begin_unlock in H.
    repeat match type of H with context [match ?X with _ => _ end] => destruct X eqn:? end; try discriminate;
    inversion H; subst s'; cbn [cpc set_cpc set_wmx set_ms] in Y;
    (destruct (Nat.eq_dec t t1) as [->|Hne]; [rewrite upd_same in Y; discriminate|rewrite upd_other in Y by assumption; congruence]).
  - cbn [cstep] in H.
    repeat match type of H with context [match ?X with _ => _ end] => destruct X eqn:? end; try discriminate;
    inversion H; subst s'; cbn [cpc set_cpc set_cwl] in Y;
    (destruct (Nat.eq_dec t t1) as [->|Hne]; [rewrite upd_same in Y; discriminate|rewrite upd_other in Y by assumption; congruence]).
  - destruct (signal_exact _ _ _ H) as (_ & _ & _ & Ho & Hw).
    cbn [cstep] in H. destruct (clock s) as [u|] eqn:Hc; [|discriminate]. destruct (cpc s u) eqn:Cu; try discriminate.
    destruct (Nat.eq_dec t u) as [->|Hne].
    + exfalso. destruct o as [x|]; destruct (cwl s); try discriminate.
      * destruct (wake_head s x); [|discriminate]. inversion H; subst s'. cbn [cpc set_cpc] in Y. rewrite upd_same in Y. discriminate.
      * inversion H; subst s'. cbn [cpc set_cpc] in Y. rewrite upd_same in Y. discriminate.
    + destruct o as [x|].
      * destruct (Nat.eq_dec t x) as [->|Hx].
        -- destruct (Hw x eq_refl) as (_ & W). destruct (cpc s x); cbn in W; try discriminate; inversion W as [W']; rewrite <- W' in Y; discriminate.
        -- rewrite Ho in Y; congruence.
      * rewrite Ho in Y; congruence.
  - destruct (wake_exact _ _ _ H) as (_ & _ & _ & _ & W & Ho).
    cbn [cstep] in H. destruct (clock s) as [u|] eqn:Hc; [|discriminate].
    destruct (Nat.eq_dec t u) as [->|Hne].
    + exfalso. destruct (cpc s u); try discriminate; destruct (wake_head s x); try discriminate;
      inversion H; subst s'; cbn [cpc set_cpc] in Y; rewrite upd_same in Y; discriminate.
    + destruct (Nat.eq_dec t x) as [->|Hx].
      * destruct (cpc s x); cbn in W; try discriminate; inversion W as [W']; rewrite <- W' in Y; discriminate.
      * rewrite Ho in Y; congruence.
  - cbn [cstep] in H.
    repeat match type of H with context [match ?X with _ => _ end] => destruct X eqn:? end; try discriminate;
    inversion H; subst s'; cbn [cpc set_cpc] in Y;
    (destruct (Nat.eq_dec t n) as [->|Hne]; [rewrite upd_same in Y; discriminate|rewrite upd_other in Y by assumption; congruence]).
  - cbn [cstep] in H.
    repeat match type of H with context [match ?X with _ => _ end] => destruct X eqn:? end; try discriminate;
    inversion H; subst s'; cbn [cpc set_cpc set_cwl] in Y;
    (destruct (Nat.eq_dec t t1) as [->|Hne]; [rewrite upd_same in Y; discriminate|rewrite upd_other in Y by assumption; congruence]).
  - cbn [cstep] in H. destruct (Z.leb (now s) n); [|discriminate]. inversion H; subst s'. cbn [cpc set_now] in Y. congruence.
Qed.

(* 3.5 no lost signal: credit accounting *)
Theorem credit_accounting rec m t0 tr s x : crun (cinit rec m t0) tr = Some s ->
  given s x = taken s x + (if credit s x then 1 else 0) /\
  (credit s x = true <-> credited (cpc s x) = true) /\
  (credit s x = true -> cqueued (cpc s x) = false /\ ~ In x (map fst (cwl s))).
Proof.
  intros R. pose proof (cinv_reachable _ _ _ _ _ R) as I.
  split; [apply (ci_cnt _ I)|]. split; [rewrite (ci_cr _ I); tauto|].
  intros Hc. rewrite (ci_cr _ I) in Hc.
  assert (Q : cqueued (cpc s x) = false) by (destruct (cpc s x); try discriminate; reflexivity).
  split; [exact Q|]. rewrite <- cinb_In, (ci_q _ I), Q. discriminate.
Qed.

Definition wakes_of (e : cev) (x : nat) : bool :=
  match e with CSignal (Some y) => Nat.eqb y x | CWake y => Nat.eqb y x | _ => false end.
Fixpoint count_wakes (tr : list cev) (x : nat) : nat :=
  match tr with [] => 0 | e :: r => (if wakes_of e x then 1 else 0) + count_wakes r x end.

(* [given] changes exactly at the SIGNAL / WAKE records naming x; a credit disappears
   only through x's own successful return *)
Lemma ghost_frame s e s' x : cstep s e = Some s' ->
  given s' x = given s x + (if wakes_of e x then 1 else 0) /\
  (credit s x = true -> credit s' x = true \/ (e = CEnd x 0%Z /\ taken s' x = S (taken s x))).
Proof.
  intros H.
  destruct e as [me|t1 k o|t1 r|t1| |t1 m|t1 k| o|y| |t1 v|n]; cbn [wakes_of].
  - destruct (cm_cases _ _ _ H) as [(E & Es & _)|(t1 & f & m1 & q & -> & Lq & P & E1 & E2 & Es)];
    rewrite Es; cbn [given credit set_ms set_cpc]; split; auto.
  - cbn [cstep] in H.
    repeat match type of H with context [match ?X with _ => _ end] => destruct X eqn:? end; try discriminate;
    inversion H; subst s'; cbn [given credit set_cpc set_cret set_call]; split; auto.
  - cbn [cstep] in H.
    repeat match type of H with context [match ?X with _ => _ end] => destruct X eqn:? end; try discriminate;
    inversion H; subst s'; cbn [given credit taken set_cpc set_cret take]; split; auto.
    intros Hc. destruct (Nat.eq_dec x t1) as [->|Hne].
    + right. rewrite upd_same. split; [|reflexivity]. f_equal. apply Z.eqb_eq. assumption.
    + left. rewrite upd_other by assumption. exact Hc.
  - cbn [cstep] in H. unfold begin_unlock in H.
    repeat match type of H with context [match ?X with _ => _ end] => destruct X eqn:? end; try discriminate;
    inversion H; subst s'; cbn [given credit set_cpc set_clock set_ms]; split; auto.
  - cbn [cstep] in H.
    repeat match type of H with context [match ?X with _ => _ end] => destruct X eqn:? end; try discriminate;
    inversion H; subst s'; cbn [given credit set_cpc set_clock set_cret]; split; auto.
  - cbn [cstep] in H. unfold begin_unlock in H.
    repeat match type of H with context [match ?X with _ => _ end] => destruct X eqn:? end; try discriminate;
    inversion H; subst s'; cbn [given credit set_cpc set_wmx set_ms]; split; auto.
  - cbn [cstep] in H.
    repeat match type of H with context [match ?X with _ => _ end] => destruct X eqn:? end; try discriminate;
    inversion H; subst s'; cbn [given credit set_cpc set_cwl]; split; auto.
  - destruct (signal_exact _ _ _ H) as (_ & _ & Hg & _ & _). split.
    + rewrite Hg. destruct o; reflexivity.
    + cbn [cstep] in H. destruct (clock s) as [u|]; [|discriminate]. destruct (cpc s u); try discriminate.
      destruct o as [z|]; destruct (cwl s); try discriminate.
      * destruct (wake_head s z) as [s1|] eqn:W; [|discriminate]. inversion H; subst s'.
        destruct (wake_head_spec _ _ _ W) as (b & rest & p' & L & Wp & ->).
        cbn [credit set_cpc give set_cwl]. intros Hc. left. unfold upd. destruct (Nat.eqb x z); auto.
      * inversion H; subst s'. auto.
  - destruct (wake_exact _ _ _ H) as (_ & _ & Hg & _ & _ & _). split; [apply Hg|].
    cbn [cstep] in H. destruct (clock s) as [u|]; [|discriminate].
    assert (exists s1, wake_head s y = Some s1 /\ s' = set_cpc s1 u CB1w) as (s1 & W & ->).
    { destruct (cpc s u); try discriminate; destruct (wake_head s y) as [s1|]; try discriminate; inversion H; eauto. }
    destruct (wake_head_spec _ _ _ W) as (b & rest & p' & L & Wp & ->).
    cbn [credit set_cpc give set_cwl]. intros Hc. left. unfold upd. destruct (Nat.eqb x y); auto.
  - cbn [cstep] in H.
    repeat match type of H with context [match ?X with _ => _ end] => destruct X eqn:? end; try discriminate;
    inversion H; subst s'; cbn [given credit set_cpc]; split; auto.
  - cbn [cstep] in H.
    repeat match type of H with context [match ?X with _ => _ end] => destruct X eqn:? end; try discriminate;
    inversion H; subst s'; cbn [given credit set_cpc set_cwl]; split; auto.
  - cbn [cstep] in H. destruct (Z.leb (now s) n); [|discriminate]. inversion H; subst s'. split; auto.
Qed.

Theorem credit_consumed_only_by_return s e s' x : cstep s e = Some s' -> credit s x = true ->
  credit s' x = true \/ (e = CEnd x 0%Z /\ taken s' x = S (taken s x)).
Proof. intros H. apply (ghost_frame _ _ _ x H). Qed.

(* the ghost counter [given] is the number of SIGNAL / WAKE records naming x in the history *)
Theorem given_counts tr : forall s s' x, crun s tr = Some s' -> given s' x = given s x + count_wakes tr x.
Proof.
  induction tr as [|e r IH]; cbn [crun count_wakes]; intros s s' x H.
  - inversion H; subst. lia.
  - destruct (cstep s e) as [s1|] eqn:E; [|discriminate].
    rewrite (IH _ _ _ H). destruct (ghost_frame _ _ _ x E) as [G _]. rewrite G. lia.
Qed.

(* every wake-up recorded in a history is accounted for: it has been consumed by a
   successful return of that waiter, or that waiter is past the wait list and on its
   way to return (never blocked in the cond again before returning) *)
Corollary no_lost_signal rec m t0 tr s x : crun (cinit rec m t0) tr = Some s ->
  count_wakes tr x = taken s x + (if credited (cpc s x) then 1 else 0).
Proof.
  intros R. pose proof (given_counts _ _ _ x R) as G. cbn [given cinit] in G.
  destruct (credit_accounting _ _ _ _ _ x R) as (A & _ & _).
  pose proof (cinv_reachable _ _ _ _ _ R) as I. rewrite <- (ci_cr _ I). lia.
Qed.
