(* Scheduler LTS (Conc/Sched.v): accounting of the per-pool count of blocked units
   (num_blocked, read by ABTI_sched_has_unit for ABT_xstream_join / ABT_finalize).

   [nb (po s p)] is the C counter, [cu (po s p)] the ghost multiset of units counted
   in pool p (one entry per outstanding increment), [cnt (un s u)] the ghost multiset
   of pools that currently count unit u.  InvCount holds in every reachable state:
   the counter is the size of the multiset, the two multisets are each other's
   transpose, and a unit that must be counted ([must_count]: blocked, about to be
   published as blocked, or on its way back to its pool) is counted in the pool it
   is associated with.

   Architecture: every step is classified ([step_shape]) as
     - a frame step (changes neither a counter nor a ghost multiset; may change the
       structural state / pool / migration progress of one unit in a way described
       by [frame_u]),
     - an increment [inc_rel], a decrement [dec_rel],
     - or (same-pool resume_suspend_to) a decrement for the resumed unit followed by
       an increment for the caller,
   and the invariant is shown to be preserved by each of the three relations. *)
From Coq Require Import List Arith ZArith Lia Bool.
From ABT Require Import Common.ListAux Conc.Sched Conc.SchedDefs.
Import ListNotations.

(* ------------------------------------------------------------------ list lemmas *)
Lemma length_remove1_in x l : In x l -> S (length (remove1 x l)) = length l.
Proof.
  induction l as [|y l IH]; cbn; [tauto|].
  destruct (Nat.eqb_spec x y) as [->|Hne]; [reflexivity|].
  intros [E|H]; [congruence|]. cbn. f_equal. apply IH; exact H.
Qed.

Lemma count_pos_in (x : nat) l : 1 <= count_occ Nat.eq_dec l x <-> In x l.
Proof. rewrite (count_occ_In Nat.eq_dec). unfold gt, lt. tauto. Qed.

Lemma count_remove1_same (x : nat) l :
  count_occ Nat.eq_dec (remove1 x l) x = Nat.pred (count_occ Nat.eq_dec l x).
Proof. rewrite count_occ_remove1, Nat.eqb_refl. reflexivity. Qed.

Lemma count_remove1_other (x y : nat) l : x <> y ->
  count_occ Nat.eq_dec (remove1 y l) x = count_occ Nat.eq_dec l x.
Proof. intros H. rewrite count_occ_remove1. destruct (Nat.eqb_spec x y); [congruence|reflexivity]. Qed.

Lemma count_cons_same (x : nat) l : count_occ Nat.eq_dec (x :: l) x = S (count_occ Nat.eq_dec l x).
Proof. apply count_occ_cons_eq. reflexivity. Qed.

Lemma count_cons_other (x y : nat) l : x <> y -> count_occ Nat.eq_dec (y :: l) x = count_occ Nat.eq_dec l x.
Proof. intros H. apply count_occ_cons_neq. congruence. Qed.

(* ------------------------------------------------------------------ the invariant *)
Record InvCount (s : st) : Prop := {
  ic_nb   : forall p, nb (po s p) = Z.of_nat (length (cu (po s p)));
  ic_cnt  : forall p u, count_occ Nat.eq_dec (cu (po s p)) u = count_occ Nat.eq_dec (cnt (un s u)) p;
  ic_blk  : forall u, must_count (ust (un s u)) = true -> In (upool (un s u)) (cnt (un s u));
  ic_none : forall u, ust (un s u) = UNone -> cnt (un s u) = [];
  (* a migration is only ever handled for a unit that need not be counted: the pool of a
     counted unit does not change under the count *)
  ic_mig  : forall u, migs (un s u) <> 0 -> must_count (ust (un s u)) = false
}.

Lemma inv_init : InvCount init.
Proof. constructor; cbn; intros; auto; try discriminate; try tauto; congruence. Qed.

(* ------------------------------------------------------------------ shapes of steps *)
(* what a step that touches no counter may do to a unit *)
Definition frame_u (r r' : urec) : Prop :=
  (cnt r' = cnt r \/ (ust r = UNone /\ cnt r' = [])) /\
  (ust r' = UNone -> ust r = UNone) /\
  (must_count (ust r') = true ->
     must_count (ust r) = true /\ (upool r' = upool r \/ migs r <> 0) /\ (migs r' <> 0 -> migs r <> 0)).

Definition frame (s s' : st) : Prop :=
  (forall p, nb (po s' p) = nb (po s p) /\ cu (po s' p) = cu (po s p)) /\
  (forall x, frame_u (un s x) (un s' x)).

Lemma frame_u_refl r : frame_u r r.
Proof. unfold frame_u. repeat split; auto. Qed.

Lemma frame_refl s : frame s s.
Proof. split; intros; [split; reflexivity|apply frame_u_refl]. Qed.

Record inc_rel (s s' : st) (u p : nat) : Prop := {
  in_un  : forall x, x <> u -> un s' x = un s x;
  in_po  : forall p', p' <> p -> po s' p' = po s p';
  in_nb  : nb (po s' p) = (nb (po s p) + 1)%Z;
  in_cu  : cu (po s' p) = u :: cu (po s p);
  in_cnt : cnt (un s' u) = p :: cnt (un s u);
  in_pl  : upool (un s' u) = p;
  in_nn  : ust (un s' u) <> UNone;
  in_mg  : must_count (ust (un s' u)) = true -> migs (un s' u) = 0
}.

Record dec_rel (s s' : st) (u p : nat) : Prop := {
  de_un  : forall x, x <> u -> un s' x = un s x;
  de_po  : forall p', p' <> p -> po s' p' = po s p';
  de_nb  : nb (po s' p) = (nb (po s p) - 1)%Z;
  de_cu  : cu (po s' p) = remove1 u (cu (po s p));
  de_cnt : cnt (un s' u) = remove1 p (cnt (un s u));
  de_ge  : 1 <= count_occ Nat.eq_dec (cnt (un s u)) p;
  de_pl  : upool (un s' u) = upool (un s u);
  de_mg  : migs (un s' u) = migs (un s u);
  de_nn  : ust (un s' u) = UNone -> ust (un s u) = UNone;
  de_mc  : must_count (ust (un s' u)) = true ->
             must_count (ust (un s u)) = true /\ 2 <= count_occ Nat.eq_dec (cnt (un s u)) p
}.

Definition shape (s s' : st) : Prop :=
  frame s s' \/ (exists u p, inc_rel s s' u p) \/ (exists u p, dec_rel s s' u p) \/
  (exists s1 u o p, dec_rel s s1 o p /\ inc_rel s1 s' u p).

(* ------------------------------------------------------------------ preservation *)
Lemma frame_inv s s' : InvCount s -> frame s s' -> InvCount s'.
Proof.
  intros [Inb Icnt Iblk Inone Imig] [Fp Fu]. constructor.
  - intros p. destruct (Fp p) as [-> ->]. apply Inb.
  - intros p u. destruct (Fp p) as [_ ->]. destruct (Fu u) as [[->|[Hn ->]] _].
    + apply Icnt.
    + rewrite Icnt, (Inone u Hn). reflexivity.
  - intros u Hm. destruct (Fu u) as [Hc [_ Hmc]]. destruct (Hmc Hm) as [Hm0 [[->|Hg] _]].
    + destruct Hc as [->|[Hn _]]; [apply Iblk; exact Hm0|].
      rewrite Hn in Hm0. discriminate.
    + rewrite (Imig u Hg) in Hm0. discriminate.
  - intros u Hn. destruct (Fu u) as [Hc [Hnn _]]. specialize (Inone u (Hnn Hn)).
    destruct Hc as [->|[_ ->]]; auto.
  - intros u Hg. destruct (must_count (ust (un s' u))) eqn:Hm; [|reflexivity].
    destruct (Fu u) as [_ [_ Hmc]]. destruct (Hmc Hm) as [Hm0 [_ Hgg]].
    rewrite (Imig u (Hgg Hg)) in Hm0. discriminate.
Qed.

Lemma inc_inv s s' u p : InvCount s -> inc_rel s s' u p -> InvCount s'.
Proof.
  intros [Inb Icnt Iblk Inone Imig] [Hun Hpo Hnb Hcu Hcnt Hpl Hnn Hmg]. constructor.
  - intros p0. destruct (Nat.eq_dec p0 p) as [->|Hp].
    + rewrite Hnb, Hcu, Inb. cbn [length]. lia.
    + rewrite (Hpo p0 Hp). apply Inb.
  - intros p0 x. destruct (Nat.eq_dec p0 p) as [->|Hp]; destruct (Nat.eq_dec x u) as [->|Hx].
    + rewrite Hcu, Hcnt, !count_cons_same, Icnt. reflexivity.
    + rewrite Hcu, (Hun x Hx), count_cons_other by assumption. apply Icnt.
    + rewrite (Hpo p0 Hp), Hcnt, count_cons_other by assumption. apply Icnt.
    + rewrite (Hpo p0 Hp), (Hun x Hx). apply Icnt.
  - intros x Hm. destruct (Nat.eq_dec x u) as [->|Hx].
    + rewrite Hcnt, Hpl. left; reflexivity.
    + rewrite (Hun x Hx) in *. apply Iblk; exact Hm.
  - intros x Hn. destruct (Nat.eq_dec x u) as [->|Hx]; [contradiction|].
    rewrite (Hun x Hx) in *. apply Inone; exact Hn.
  - intros x Hg. destruct (Nat.eq_dec x u) as [->|Hx].
    + destruct (must_count (ust (un s' u))) eqn:Hm; [|reflexivity]. specialize (Hmg eq_refl). contradiction.
    + rewrite (Hun x Hx) in *. apply Imig; exact Hg.
Qed.

Lemma dec_inv s s' u p : InvCount s -> dec_rel s s' u p -> InvCount s'.
Proof.
  intros [Inb Icnt Iblk Inone Imig] [Hun Hpo Hnb Hcu Hcnt Hge Hpl Hmg Hnn Hmc]. constructor.
  - intros p0. destruct (Nat.eq_dec p0 p) as [->|Hp].
    + rewrite Hnb, Hcu, Inb.
      assert (Hin : In u (cu (po s p))) by (apply count_pos_in; rewrite Icnt; exact Hge).
      apply length_remove1_in in Hin. lia.
    + rewrite (Hpo p0 Hp). apply Inb.
  - intros p0 x. destruct (Nat.eq_dec p0 p) as [->|Hp]; destruct (Nat.eq_dec x u) as [->|Hx].
    + rewrite Hcu, Hcnt, !count_remove1_same, Icnt. reflexivity.
    + rewrite Hcu, (Hun x Hx), count_remove1_other by assumption. apply Icnt.
    + rewrite (Hpo p0 Hp), Hcnt, count_remove1_other by assumption. apply Icnt.
    + rewrite (Hpo p0 Hp), (Hun x Hx). apply Icnt.
  - intros x Hm. destruct (Nat.eq_dec x u) as [->|Hx].
    + destruct (Hmc Hm) as [Hm0 H2]. rewrite Hcnt, Hpl. apply count_pos_in.
      destruct (Nat.eq_dec (upool (un s u)) p) as [E|E].
      * rewrite E, count_remove1_same. lia.
      * rewrite count_remove1_other by assumption. apply count_pos_in. apply Iblk; exact Hm0.
    + rewrite (Hun x Hx) in *. apply Iblk; exact Hm.
  - intros x Hn. destruct (Nat.eq_dec x u) as [->|Hx].
    + rewrite (Inone u (Hnn Hn)) in Hge. cbn in Hge. lia.
    + rewrite (Hun x Hx) in *. apply Inone; exact Hn.
  - intros x Hg. destruct (Nat.eq_dec x u) as [->|Hx].
    + destruct (must_count (ust (un s' u))) eqn:Hm; [|reflexivity].
      destruct (Hmc eq_refl) as [Hm0 _]. rewrite Hmg in Hg. rewrite (Imig u Hg) in Hm0. discriminate.
    + rewrite (Hun x Hx) in *. apply Imig; exact Hg.
Qed.

Lemma shape_inv s s' : InvCount s -> shape s s' -> InvCount s'.
Proof.
  intros I [F|[(u & p & H)|[(u & p & H)|(s1 & u & o & p & Hd & Hi)]]].
  - eapply frame_inv; eauto.
  - eapply inc_inv; eauto.
  - eapply dec_inv; eauto.
  - eapply inc_inv; [|exact Hi]. eapply dec_inv; eauto.
Qed.

(* ------------------------------------------------------------------ classification of the steps *)
Ltac destr_step H :=
  repeat match type of H with context [match ?X with _ => _ end] => destruct X eqn:? end; try discriminate.

Ltac bool_hyps :=
  repeat match goal with
  | H : _ && _ = true |- _ => apply andb_true_iff in H; destruct H
  | H : Nat.eqb _ _ = true |- _ => apply Nat.eqb_eq in H
  | H : Z.eqb _ _ = true |- _ => apply Z.eqb_eq in H
  | H : negb _ = true |- _ => apply negb_true_iff in H
  | H : Nat.eqb _ _ = false |- _ => apply Nat.eqb_neq in H
  | H : Nat.leb _ _ = true |- _ => apply Nat.leb_le in H
  end.

Ltac proj_cbn :=
  cbn [un po seen set_u set_p nb cu q cnt ust upool migs
       with_ust with_ust_ost with_jw with_pool with_req with_link with_mig with_other with_jof with_cnt].

Ltac kind_contra :=
  match goal with
  | H1 : yield_kind ?k = true, H2 : suspend_kind ?k = true |- _ => destruct k; discriminate
  end.

(* frame_u (un s u) r' for the unit that acted *)
Ltac frame_u_tac :=
  unfold frame_u; proj_cbn;
  repeat match goal with E : ust (un ?s ?u) = _ |- _ => rewrite E end;
  split; [ first [ left; reflexivity | right; split; [assumption || reflexivity | reflexivity] ]
         | split; [ intros; first [ discriminate | assumption | reflexivity | congruence ]
                  | let Hm := fresh "Hm" in
                    intros Hm; cbn [must_count] in Hm |- *; try discriminate Hm; try kind_contra;
                    (split; [ first [ assumption | reflexivity ]
                            | split; [ first [ left; reflexivity | right; lia ]
                                     | intros; first [ assumption | lia ] ] ]) ] ].

Ltac frame_tac :=
  split;
  [ let p0 := fresh "p0" in
    intros p0; proj_cbn; unfold upd;
    try match goal with |- context [Nat.eqb p0 ?p] => destruct (Nat.eqb_spec p0 p); [subst p0|] end;
    proj_cbn; split; reflexivity
  | let x := fresh "x" in
    intros x; proj_cbn; unfold upd;
    first [ match goal with |- context [Nat.eqb x ?u] => destruct (Nat.eqb_spec x u); [subst x|apply frame_u_refl] end
          | apply frame_u_refl ];
    frame_u_tac ].

Lemma step_shape s e s' : step s e = Some s' -> shape s s'.
Proof.
  intros H.
  destruct e as [u p ult|u p ult nmd|u p|u p|p u tail|p ou tail|p u|u site j c m|u bit exiter j c m who|u bit
                |u v|a u site v|tgt j ext|u l|u k other|u j|p inc old u handoff|u|u|u|u p|u p|u|a u|p v|p v].
  17: { (* ENb *)
    cbn [step] in H. destr_step H; inversion H; subst s'; clear H; bool_hyps; subst.
    all: try kind_contra.
    (* increments *)
    all: try solve [ right; left; eexists _, _; constructor; proj_cbn; rewrite ?upd_same; proj_cbn;
                     try reflexivity; try discriminate;
                     try (intros; apply upd_other; assumption);
                     try (intros; assumption);
                     try (rewrite H; reflexivity);
                     try (intros Hm; match goal with E : ust (un ?s ?u) = _ |- _ => rewrite E in Hm end;
                          cbn [must_count] in Hm; discriminate);
                     try (match goal with E : ust (un ?s ?u) = _ |- _ => rewrite E end; discriminate) ].
    (* decrements *)
    all: repeat match goal with
         | H : match ust (un ?s ?u) with _ => _ end = true |- _ => destruct (ust (un s u)) eqn:?; try discriminate H
         | H : (if must_count ?x then _ else _) = true |- _ => destruct (must_count x) eqn:?
         end; bool_hyps.
    all: try solve [ right; right; left; eexists _, _; constructor; proj_cbn; rewrite ?upd_same; proj_cbn;
                     try reflexivity; try discriminate;
                     try (intros; apply upd_other; assumption);
                     try (intros; assumption);
                     try lia;
                     try (intros; split; [assumption|lia]);
                     try (intros; congruence) ].
    all: match goal with |- ?G => idtac "ENB-REMAINING" end.
    all: fail. }
  11: { (* EState *)
    cbn [step] in H. destr_step H; inversion H; subst s'; clear H; bool_hyps; subst.
    all: try solve [left; frame_tac].
    (* same-pool resume_suspend_to: the count of the resumed unit o is handed to the caller u *)
    match goal with Ho : cbother (un s u) = Some ?o |- _ => rename o into o' end.
    right; right; right.
    set (P := upool (un s u)) in *.
    exists (mkS (upd (un s) o' (with_cnt (un s o') (remove1 P (cnt (un s o')))))
                (upd (po s) P (mkP (q (po s P)) (nb (po s P) - 1) (remove1 o' (cu (po s P))))) (seen s)), u, o', P.
    assert (Hge : 1 <= count_occ Nat.eq_dec (cnt (un s o')) P /\
                  (must_count (ust (un s o')) = true -> 2 <= count_occ Nat.eq_dec (cnt (un s o')) P)).
    { destruct (must_count (ust (un s o'))); bool_hyps; split; intros; try discriminate; lia. }
    destruct Hge as [Hge Hge2].
    split; constructor; proj_cbn; rewrite ?upd_same; proj_cbn; try reflexivity; try discriminate; try assumption.
    all: try solve [intros; apply upd_other; assumption].
    all: try solve [intros; rewrite !upd_other by assumption; reflexivity].
    all: try solve [intros; auto].
    all: try solve [rewrite upd_same; cbn [nb cu]; try reflexivity; lia].
    all: try solve [rewrite upd_other by congruence; reflexivity].
    all: lia. }
  (* every other event is a frame step *)
  all: cbn [step] in H; destr_step H; inversion H; subst s'; clear H; try (left; apply frame_refl); bool_hyps.
  all: solve [left; frame_tac].
Qed.

Theorem step_inv s e s' : InvCount s -> step s e = Some s' -> InvCount s'.
Proof. intros I H. eapply shape_inv; [exact I|]. eapply step_shape; exact H. Qed.

Theorem inv_reachable s : reachable s -> InvCount s.
Proof.
  revert s. apply reach_ind; [exact inv_init|].
  intros s e s' _ I H. eapply step_inv; eauto.
Qed.

(* ------------------------------------------------------------------ corollaries *)
(* C06: num_blocked is never negative *)
Theorem C06_count_nonneg s p : reachable s -> (0 <= nb (po s p))%Z.
Proof. intros R. rewrite (ic_nb _ (inv_reachable s R)). lia. Qed.

(* a unit that must be counted is counted in its pool, and that pool's counter is positive *)
Lemma must_count_counted s u : reachable s -> must_count (ust (un s u)) = true ->
  In u (cu (po s (upool (un s u)))) /\ (1 <= nb (po s (upool (un s u))))%Z.
Proof.
  intros R Hm. pose proof (inv_reachable s R) as I.
  assert (Hin : In u (cu (po s (upool (un s u))))).
  { apply count_pos_in. rewrite (ic_cnt _ I). apply count_pos_in. apply (ic_blk _ I); exact Hm. }
  split; [exact Hin|]. rewrite (ic_nb _ I).
  destruct (cu (po s (upool (un s u)))); [destruct Hin|]. cbn [length]. lia.
Qed.

(* C06: a pool with a blocked unit never shows num_blocked = 0 *)
Theorem C06_blocked_is_counted s u : reachable s -> ust (un s u) = UBlocked ->
  In u (cu (po s (upool (un s u)))) /\ (1 <= nb (po s (upool (un s u))))%Z.
Proof. intros R Hb. apply must_count_counted; [exact R|]. rewrite Hb. reflexivity. Qed.

(* C06: num_blocked = 0 means that no unit of the pool is blocked, about to be published as
   blocked, or resumed but not yet pushed back *)
Theorem C06_zero_means_none_blocked s p : reachable s -> nb (po s p) = 0%Z ->
  forall u, upool (un s u) = p -> must_count (ust (un s u)) = false.
Proof.
  intros R Hz u Hp. destruct (must_count (ust (un s u))) eqn:Hm; [|reflexivity].
  destruct (must_count_counted s u R Hm) as [_ H1]. rewrite Hp in H1. lia.
Qed.

Corollary C06_zero_means_not_blocked s p u : reachable s -> nb (po s p) = 0%Z -> upool (un s u) = p ->
  ust (un s u) <> UBlocked /\ ust (un s u) <> UResuming.
Proof.
  intros R Hz Hp. pose proof (C06_zero_means_none_blocked s p R Hz u Hp) as Hm.
  split; intros E; rewrite E in Hm; discriminate.
Qed.

(* C06/C13: when no decrement is outstanding for pool p -- every entry of p in some unit's cnt
   is the single entry that the unit's present blocking needs; i.e. every resumer that has made
   a unit of p runnable has also done its decrement -- the counter is exactly the number of
   units of p that must be counted: cu is duplicate-free and lists exactly those units (and
   nb is its length by ic_nb). *)
Definition no_decrement_outstanding (s : st) (p : nat) : Prop :=
  forall u, count_occ Nat.eq_dec (cnt (un s u)) p <= 1 /\
            (In p (cnt (un s u)) -> must_count (ust (un s u)) = true /\ upool (un s u) = p).

Theorem C06_count_exact_when_no_late_decrement s p : reachable s -> no_decrement_outstanding s p ->
  nb (po s p) = Z.of_nat (length (cu (po s p))) /\
  NoDup (cu (po s p)) /\
  forall u, In u (cu (po s p)) <-> (must_count (ust (un s u)) = true /\ upool (un s u) = p).
Proof.
  intros R Hno. pose proof (inv_reachable s R) as I. split; [apply (ic_nb _ I)|]. split.
  - apply (NoDup_count_occ Nat.eq_dec). intros u. rewrite (ic_cnt _ I). apply (Hno u).
  - intros u. rewrite <- count_pos_in, (ic_cnt _ I), count_pos_in. split.
    + apply (Hno u).
    + intros [Hm Hp]. rewrite <- Hp. apply (ic_blk _ I); exact Hm.
Qed.

(* C11 (F2 fix): the increment made for a suspension is made on the pool the unit is associated
   with, after a pending migration has been handled completely *)
Theorem C11_suspend_counts_in_resume_pool s p old u s' k :
  step s (ENb p true old u false) = Some s' -> ust (un s u) = UCbS k 1 -> upool (un s u) = p.
Proof.
  intros H E. cbn [step] in H. rewrite E in H. destr_step H. bool_hyps. assumption.
Qed.

Theorem C11_suspend_counts_after_migration s p old u s' k :
  step s (ENb p true old u false) = Some s' -> ust (un s u) = UCbS k 1 ->
  migs (un s u) = 0 /\ suspend_kind k = true /\ ust (un s' u) = UCbS k 2 /\ In p (cnt (un s' u)).
Proof.
  intros H E. cbn [step] in H. rewrite E in H. destr_step H. bool_hyps.
  inversion H; subst s'; clear H. proj_cbn. rewrite upd_same. proj_cbn.
  repeat split; auto. left; reflexivity.
Qed.

(* every decrement (resume, hand-off) is made on a pool that counts the unit *)
Theorem C11_resume_decrements_counted_pool s p old u h s' :
  step s (ENb p false old u h) = Some s' -> In p (cnt (un s u)).
Proof.
  intros H. cbn [step] in H. apply count_pos_in. destr_step H.
  all: repeat match goal with
       | H : match ust (un ?s ?u) with _ => _ end = true |- _ => destruct (ust (un s u)) eqn:?; try discriminate H
       | H : (if must_count ?x then _ else _) = true |- _ => destruct (must_count x) eqn:?
       end; bool_hyps; lia.
Qed.

(* a resumer's (late) decrement never uncounts a unit that is blocked again or not yet back in
   its pool: it may only remove a surplus entry *)
Theorem C06_decrement_after_push s p old u s' :
  step s (ENb p false old u false) = Some s' ->
  (must_count (ust (un s u)) = true -> 2 <= count_occ Nat.eq_dec (cnt (un s u)) p) /\
  ust (un s' u) = ust (un s u) /\
  (must_count (ust (un s' u)) = true -> In p (cnt (un s' u))).
Proof.
  intros H. cbn [step] in H. destr_step H.
  match goal with H : (if must_count ?x then _ else _) = true |- _ => destruct (must_count x) eqn:Hm end;
    bool_hyps; inversion H; subst s'; clear H; proj_cbn; rewrite upd_same; proj_cbn; rewrite Hm.
  - split; [intros _; assumption|]. split; [reflexivity|]. intros _.
    apply count_pos_in. rewrite count_remove1_same. lia.
  - repeat split; intros; discriminate.
Qed.

(* ... in particular a unit in state UResuming (READY stored, push pending) whose only count is
   the one of its present blocking cannot be decremented *)
Corollary C06_no_decrement_before_push s p old u :
  ust (un s u) = UResuming -> count_occ Nat.eq_dec (cnt (un s u)) p <= 1 ->
  step s (ENb p false old u false) = None.
Proof.
  intros E Hc. destruct (step s (ENb p false old u false)) as [s'|] eqn:H; [|reflexivity].
  destruct (C06_decrement_after_push _ _ _ _ _ H) as [H2 _]. rewrite E in H2. specialize (H2 eq_refl). lia.
Qed.

Print Assumptions inv_reachable.

