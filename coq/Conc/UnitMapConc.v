(* C14 — LTS of concurrent unit_map_thread / unit_unmap_thread /
   unit_get_thread_from_user_defined_unit (src/unit.c), pointer level.

   Heap: cells are numbered in allocation order; a cell has the three fields
   of struct unit_to_thread (unit, p_thread, p_next).  Every bucket has a head
   pointer and a spinlock.  Any number of threads; a thread is idle or inside
   one of the three functions.  One step = one shared-memory access that is
   not protected (the lock-free reader's loads; the writers' stores, which
   readers can observe one by one) or the lock acquisition together with the
   loads that the lock protects:
     map   : [acquire]  [scan under the lock + first store: unit := u  |  malloc
             + initialise the private new cell  |  malloc fails]
             [store p_thread] | [release-store of the head]   [release]
     unmap : [acquire]  [scan under the lock + store unit := ABT_UNIT_NULL]  [release]
     get   : [acquire-load of the head]  then per cell [load unit (+ load of the
             immutable p_next when it differs)]  [load p_thread]
   Loads of fields that only lock holders write are merged with the
   acquisition/scan step of the lock holder; p_next is written once, before the
   cell is published, so its load is merged with the preceding load of unit.
   Memory model: sequential consistency (the release/acquire pair on the head
   is what makes this adequate for the C code; not checked here).

   Client contract, as enabling conditions on ghost state: map(u) starts only
   when u is not in use (handles of live units are distinct) and u <> NULL;
   unmap(u) and get(u) start only when u is mapped.  A reader does NOT block
   the unmapping of its unit: it records the epoch of the unit (number of
   unmaps begun) and the theorem speaks about gets during which that epoch did
   not change.  Assertion failures (ABTI_ASSERT(p_cur)) are explicit states. *)
From Coq Require Import List ZArith Bool Arith.
From ABT Require Import Common.ListAux DS.UnitMap.
Import ListNotations.
Local Open Scope Z_scope.

Record cell := mkC { cu : Z; cth : Z; cnext : option nat }.

Inductive ustat :=
| UFree
| UMapping (owner : nat)
| UMapped (th : Z)
| UUnmapping (owner : nat).

Inductive pc :=
| Idle
| MapScan (u th : Z)
| MapStoreThr (u th : Z) (c : nat)
| MapPublish (u th : Z) (c : nat)
| MapRelease (u th : Z) (ok : bool)
| UnmapScan (u : Z)
| UnmapRelease (u : Z)
| UnmapFailed (u : Z)                          (* "unmap() must succeed" fired *)
| GetAt (u : Z) (p : option nat) (e : nat) (t0 : Z)
| GetHit (u : Z) (c : nat) (e : nat) (t0 : Z)
| GetDone (u : Z) (r : Z) (e : nat) (t0 : Z)
| GetFailed (u : Z) (e : nat).                 (* "get() must succeed" fired / wild pointer *)

Record state := mkS {
  cells : list cell;             (* the heap of unit_to_thread cells *)
  heads : Z -> option nat;       (* unit_to_thread_entires[i].list *)
  lock : Z -> option nat;        (* unit_to_thread_entires[i].lock: holder *)
  pcs : nat -> pc;
  (* ghost *)
  stat : Z -> ustat;
  epoch : Z -> nat;
  cellof : Z -> nat
}.

Inductive action :=
| AMapBegin (u th : Z)
| AMapScan (alloc_ok : bool)
| AMapStoreThr
| AMapPublish
| AMapRelease
| AUnmapBegin (u : Z)
| AUnmapStore
| AUnmapRelease
| AGetBegin (u : Z)
| AGetCmp
| AGetLoadThr
| AGetEnd.

Definition init : state :=
  mkS [] (fun _ => None) (fun _ => None) (fun _ => Idle) (fun _ => UFree) (fun _ => O) (fun _ => O).

Definition zupd {A} (f : Z -> A) (k : Z) (v : A) : Z -> A := fun k' => if k' =? k then v else f k'.
Definition nupd {A} (f : nat -> A) (k : nat) (v : A) : nat -> A :=
  fun k' => if Nat.eqb k' k then v else f k'.

Definition set_cu (cs : list cell) (c : nat) (v : Z) : list cell :=
  match nth_error cs c with
  | Some x => upd_nth cs c (mkC v (cth x) (cnext x))
  | None => cs
  end.
Definition set_cth (cs : list cell) (c : nat) (v : Z) : list cell :=
  match nth_error cs c with
  | Some x => upd_nth cs c (mkC (cu x) v (cnext x))
  | None => cs
  end.

(* walk the chain from p; first cell satisfying f *)
Fixpoint scan (f : cell -> bool) (cs : list cell) (p : option nat) (fuel : nat) : option nat :=
  match fuel with
  | O => None
  | S k =>
      match p with
      | None => None
      | Some c =>
          match nth_error cs c with
          | None => None
          | Some x => if f x then Some c else scan f cs (cnext x) k
          end
      end
  end.

Definition set_pc (s : state) (t : nat) (p : pc) : state :=
  mkS (cells s) (heads s) (lock s) (nupd (pcs s) t p) (stat s) (epoch s) (cellof s).

Definition step (s : state) (t : nat) (a : action) : option state :=
  match a, pcs s t with
  | AMapBegin u th, Idle =>
      let h := hash_index u in
      match lock s h, stat s u with
      | None, UFree =>
          if u =? UNIT_NULL then None else
          Some (mkS (cells s) (heads s) (zupd (lock s) h (Some t)) (nupd (pcs s) t (MapScan u th))
                    (zupd (stat s) u (UMapping t)) (epoch s) (cellof s))
      | _, _ => None
      end
  | AMapScan ok, MapScan u th =>
      let h := hash_index u in
      match scan (fun x => cu x =? UNIT_NULL) (cells s) (heads s h) (length (cells s)) with
      | Some c =>
          (* atomic_relaxed_store_unit(&p_cur->unit, unit) *)
          Some (mkS (set_cu (cells s) c u) (heads s) (lock s) (nupd (pcs s) t (MapStoreThr u th c))
                    (stat s) (epoch s) (zupd (cellof s) u c))
      | None =>
          if ok then
            (* malloc; p_new->unit = unit; p_new->p_thread = p_thread; p_new->p_next = head *)
            let c := length (cells s) in
            Some (mkS (cells s ++ [mkC u th (heads s h)]) (heads s) (lock s)
                      (nupd (pcs s) t (MapPublish u th c)) (stat s) (epoch s) (zupd (cellof s) u c))
          else Some (set_pc s t (MapRelease u th false))
      end
  | AMapStoreThr, MapStoreThr u th c =>
      (* p_cur->p_thread = p_thread *)
      Some (mkS (set_cth (cells s) c th) (heads s) (lock s) (nupd (pcs s) t (MapRelease u th true))
                (stat s) (epoch s) (cellof s))
  | AMapPublish, MapPublish u th c =>
      (* atomic_release_store_unit_to_thread(&p_entry->list, p_new) *)
      Some (mkS (cells s) (zupd (heads s) (hash_index u) (Some c)) (lock s)
                (nupd (pcs s) t (MapRelease u th true)) (stat s) (epoch s) (cellof s))
  | AMapRelease, MapRelease u th ok =>
      Some (mkS (cells s) (heads s) (zupd (lock s) (hash_index u) None) (nupd (pcs s) t Idle)
                (zupd (stat s) u (if ok then UMapped th else UFree)) (epoch s) (cellof s))
  | AUnmapBegin u, Idle =>
      let h := hash_index u in
      match lock s h, stat s u with
      | None, UMapped _ =>
          Some (mkS (cells s) (heads s) (zupd (lock s) h (Some t)) (nupd (pcs s) t (UnmapScan u))
                    (zupd (stat s) u (UUnmapping t)) (zupd (epoch s) u (S (epoch s u))) (cellof s))
      | _, _ => None
      end
  | AUnmapStore, UnmapScan u =>
      match scan (fun x => cu x =? u) (cells s) (heads s (hash_index u)) (length (cells s)) with
      | Some c =>
          Some (mkS (set_cu (cells s) c UNIT_NULL) (heads s) (lock s) (nupd (pcs s) t (UnmapRelease u))
                    (stat s) (epoch s) (cellof s))
      | None => Some (set_pc s t (UnmapFailed u))
      end
  | AUnmapRelease, UnmapRelease u =>
      Some (mkS (cells s) (heads s) (zupd (lock s) (hash_index u) None) (nupd (pcs s) t Idle)
                (zupd (stat s) u UFree) (epoch s) (cellof s))
  | AGetBegin u, Idle =>
      match stat s u with
      | UMapped t0 =>
          (* acquire-load of the head *)
          Some (set_pc s t (GetAt u (heads s (hash_index u)) (epoch s u) t0))
      | _ => None
      end
  | AGetCmp, GetAt u p e t0 =>
      match p with
      | None => Some (set_pc s t (GetFailed u e))
      | Some c =>
          match nth_error (cells s) c with
          | None => Some (set_pc s t (GetFailed u e))
          | Some x => if cu x =? u then Some (set_pc s t (GetHit u c e t0))
                      else Some (set_pc s t (GetAt u (cnext x) e t0))
          end
      end
  | AGetLoadThr, GetHit u c e t0 =>
      match nth_error (cells s) c with
      | None => Some (set_pc s t (GetFailed u e))
      | Some x => Some (set_pc s t (GetDone u (cth x) e t0))
      end
  | AGetEnd, GetDone u r e t0 => Some (set_pc s t Idle)
  | _, _ => None
  end.

Fixpoint run (s : state) (tr : list (nat * action)) : option state :=
  match tr with
  | [] => Some s
  | (t, a) :: tr' =>
      match step s t a with
      | Some s' => run s' tr'
      | None => None
      end
  end.
