(* C07 — proofs about the pool LTS (Conc/PoolConc.v): inductive invariant,
   linearizability (legal deque history + effect inside the call), exactly
   once, honest emptiness, absence of faults. *)
From Coq Require Import List Arith Bool NArith Lia.
From ABT Require Import Common.ListAux DS.ThreadQueue DS.Deque DS.ThreadQueueProofs DS.PoolSeq DS.PoolSpec
     DS.PoolSeqProofs Conc.PoolConc.
Import ListNotations.

(* ------------------------------------------------------------ counting in the deque *)
Lemma count_cons x a l : count x (a :: l) = (if Nat.eqb a x then 1 else 0) + count x l.
Proof.
  unfold count. cbn [count_occ]. destruct (Nat.eq_dec a x) as [->|H].
  - rewrite Nat.eqb_refl. reflexivity.
  - apply Nat.eqb_neq in H. rewrite H. reflexivity.
Qed.
Lemma count_app x l m : count x (l ++ m) = count x l + count x m.
Proof. apply count_occ_app. Qed.
Lemma count_nil x : count x [] = 0.
Proof. reflexivity. Qed.
Lemma count_in x l : In x l <-> count x l > 0.
Proof. apply count_occ_In. Qed.
Lemma count_nodup l : NoDup l <-> forall x, count x l <= 1.
Proof. apply NoDup_count_occ. Qed.
Lemma count_notin x l : ~ In x l <-> count x l = 0.
Proof. apply count_occ_not_In. Qed.

Definition one (a x : id) : nat := if Nat.eqb a x then 1 else 0.
Definition optone (p : ptr) (x : id) : nat := match p with Some v => one v x | None => 0 end.

Lemma count_sp_push k ctx l u x : count x (sp_push k ctx l u) = one u x + count x l.
Proof.
  unfold sp_push, dq_push_head, dq_push_tail, one. destruct (push_at_head k ctx).
  - apply count_cons.
  - rewrite count_app, count_cons, count_nil. lia.
Qed.

Lemma count_sp_pop k ctx l x :
  count x l = optone (snd (sp_pop k ctx l)) x + count x (fst (sp_pop k ctx l)).
Proof.
  unfold sp_pop. destruct (pop_at_tail k ctx).
  - destruct l as [|a l']; [reflexivity|]. cbn [dq_pop_tail fst snd optone].
    rewrite (app_removelast_last a) at 1 by discriminate. rewrite count_app, count_cons, count_nil. unfold one. lia.
  - destruct l as [|a l']; [reflexivity|]. cbn [dq_pop_head fst snd optone]. apply count_cons.
Qed.

Lemma sp_pop_none k ctx l : snd (sp_pop k ctx l) = None <-> l = [].
Proof.
  unfold sp_pop. destruct (pop_at_tail k ctx); destruct l; cbn; split; congruence.
Qed.

Lemma count_sp_push_list k ctx us : forall l x, count x (sp_push_list k ctx l us) = count x us + count x l.
Proof.
  induction us as [|u us IH]; intros l x; cbn [sp_push_list]; [reflexivity|].
  rewrite IH, count_sp_push, count_cons. unfold one. lia.
Qed.

Lemma count_sp_pop_list k ctx n : forall l x,
  count x l = count x (snd (sp_pop_list k ctx l n)) + count x (fst (sp_pop_list k ctx l n)).
Proof.
  induction n as [|n IH]; intros l x; cbn [sp_pop_list]; [reflexivity|].
  pose proof (count_sp_pop k ctx l x) as H. destruct (sp_pop k ctx l) as (l1, [v|]); cbn [fst snd optone] in *.
  - specialize (IH l1 x). destruct (sp_pop_list k ctx l1 n) as (l2, xs). cbn [fst snd] in *.
    rewrite count_cons. unfold one in H. lia.
  - cbn [fst snd]. rewrite count_nil. lia.
Qed.

Lemma count_dq_del l u x : In u l -> count x l = one u x + count x (dq_del l u).
Proof.
  induction l as [|a l IH]; [intros []|]. intros Hin. cbn [dq_del]. rewrite count_cons.
  destruct (Nat.eqb_spec a u) as [->|Hne]; [reflexivity|].
  destruct Hin as [->|Hin]; [congruence|]. rewrite count_cons, (IH Hin). unfold one. lia.
Qed.

(* ------------------------------------------------------------ owner map *)
Lemma own_set_spec us : forall own v x, own_set own us v x = if memb x us then v else own x.
Proof.
  induction us as [|u us IH]; intros own v x; cbn [own_set memb existsb]; [reflexivity|].
  rewrite IH. fold (memb x us). destruct (memb x us); [rewrite orb_true_r; reflexivity|].
  rewrite orb_false_r. unfold upd. reflexivity.
Qed.

(* ------------------------------------------------------------ reflexivity of the comparisons *)
Lemma ptr_eqb_refl p : ptr_eqb p p = true.
Proof. destruct p; cbn; auto using Nat.eqb_refl. Qed.
Lemma list_eqb_refl l : list_eqb l l = true.
Proof. induction l; cbn; auto. rewrite Nat.eqb_refl. auto. Qed.
Lemma cop_eqb_refl o : cop_eqb o o = true.
Proof. destruct o; cbn; rewrite ?Nat.eqb_refl, ?N.eqb_refl, ?list_eqb_refl; reflexivity. Qed.
Lemma cret_eqb_refl r : cret_eqb r r = true.
Proof. destruct r; cbn; rewrite ?Nat.eqb_refl, ?ptr_eqb_refl, ?list_eqb_refl, ?eqb_reflx; reflexivity. Qed.

(* ------------------------------------------------------------ invariant *)
Definition hold_ph (ph : phase) : bool :=
  match ph with PhLocked | PhLocked2 | PhUnlock _ => true | _ => false end.
Definition holds (p : pc) : bool := match p with InOp _ _ ph => hold_ph ph | Idle => false end.
(* the call has not (or, for a polling call, this round has not) taken effect *)
Definition before_eff (ph : phase) : bool :=
  match ph with PhUnlock _ | PhDone _ | PhSleep _ => false | _ => true end.
Definition push_units (o : cop) : list id :=
  match o with CPush u _ => [u] | CPushMany us _ => us | _ => [] end.

Record Inv (k : kind) (s : cstate) : Prop := mkInv {
  i_rep : Rep (c_abs s) (c_q s) (c_h s);
  i_lock : forall t, holds (c_pc s t) = true <-> c_lock s = Some t;
  i_own : forall u, c_own s u = OInPool <-> In u (c_abs s);
  i_pend : forall t o f ph, c_pc s t = InOp o f ph -> before_eff ph = true ->
           forall u, In u (push_units o) -> c_own s u = OResv t;
  i_pendnd : forall t o f ph, c_pc s t = InOp o f ph -> NoDup (push_units o);
  i_sleep : forall t o f mt, c_pc s t = InOp o f (PhSleep mt) -> is_poll k o = true;
  i_replay : replay k (c_trace s) = Some (c_abs s);
  i_proj : forall t, tproj k t (c_trace s) = Some (pc_tphase k (c_pc s t))
}.

Lemma inv_init k : Inv k c_init.
Proof.
  constructor; cbn; auto.
  - apply rep_init.
  - intros t. split; discriminate.
  - intros u. split; [discriminate|tauto].
  - discriminate.
  - discriminate.
  - discriminate.
Qed.

Definition sleep_ok (k : kind) (o : cop) (ph' : phase) : Prop :=
  match ph' with PhSleep _ => is_poll k o = true | _ => True end.

(* lock bookkeeping of a step of thread t from phase ph to ph' *)
Definition lock_ok (s : cstate) (ph ph' : phase) (lk : lockop) : Prop :=
  match lk with
  | LKeep => hold_ph ph' = hold_ph ph
  | LAcq => c_lock s = None /\ hold_ph ph = false /\ hold_ph ph' = true
  | LRel => hold_ph ph = true /\ hold_ph ph' = false
  end.

Lemma lock_step k s t o f ph ph' f' lk :
  Inv k s -> c_pc s t = InOp o f ph -> lock_ok s ph ph' lk ->
  forall x, holds (upd (c_pc s) t (InOp o f' ph') x) = true <-> apply_lock s t lk = Some x.
Proof.
  intros I Hpc Hl x. pose proof (i_lock k s I) as IL.
  destruct (Nat.eq_dec x t) as [->|Hne].
  - rewrite upd_eq. cbn [holds]. specialize (IL t). rewrite Hpc in IL. cbn [holds] in IL.
    destruct lk; cbn [apply_lock lock_ok] in *.
    + rewrite Hl. exact IL.
    + destruct Hl as (_ & _ & ->). tauto.
    + destruct Hl as (_ & ->). split; discriminate.
  - rewrite upd_ne by auto. destruct lk; cbn [apply_lock lock_ok] in *.
    + apply IL.
    + destruct Hl as (Hn & _ & _). rewrite IL, Hn. split; [discriminate|congruence].
    + destruct Hl as (Hh & _). assert (c_lock s = Some t) by (apply IL; rewrite Hpc; exact Hh).
      rewrite IL, H. split; [congruence|discriminate].
Qed.

(* a step that only moves thread t's program counter / the lock *)
Lemma silent_preserves k s t o f ph ph' f' lk :
  Inv k s -> c_pc s t = InOp o f ph ->
  lock_ok s ph ph' lk ->
  (before_eff ph' = true -> before_eff ph = true \/ push_units o = []) ->
  sleep_ok k o ph' ->
  pc_tphase k (InOp o f' ph') = pc_tphase k (InOp o f ph) ->
  Inv k (mkC (c_q s) (c_h s) (apply_lock s t lk) (upd (c_pc s) t (InOp o f' ph')) (c_own s) (c_abs s) (c_trace s)).
Proof.
  intros I Hpc Hl Hb Hs Ht. constructor; cbn [c_q c_h c_lock c_pc c_own c_abs c_trace].
  - apply I.
  - apply (lock_step k s t o f ph ph' f' lk I Hpc Hl).
  - apply I.
  - intros x o1 f1 ph1 Hx Hbe u Hu. destruct (Nat.eq_dec x t) as [->|Hne].
    + rewrite upd_eq in Hx. injection Hx as <- <- <-. destruct (Hb Hbe) as [Hb'|Hb'].
      * apply (i_pend k s I t o f ph Hpc Hb' u Hu).
      * rewrite Hb' in Hu. destruct Hu.
    + rewrite upd_ne in Hx by auto. apply (i_pend k s I x o1 f1 ph1 Hx Hbe u Hu).
  - intros x o1 f1 ph1 Hx. destruct (Nat.eq_dec x t) as [->|Hne].
    + rewrite upd_eq in Hx. injection Hx as <- <- <-. apply (i_pendnd k s I t o f ph Hpc).
    + rewrite upd_ne in Hx by auto. apply (i_pendnd k s I x o1 f1 ph1 Hx).
  - intros x o1 f1 mt Hx. destruct (Nat.eq_dec x t) as [->|Hne].
    + rewrite upd_eq in Hx. injection Hx as <- <- ->. exact Hs.
    + rewrite upd_ne in Hx by auto. apply (i_sleep k s I x o1 f1 mt Hx).
  - apply I.
  - intros x. destruct (Nat.eq_dec x t) as [->|Hne].
    + rewrite upd_eq, Ht, <- Hpc. apply I.
    + rewrite upd_ne by auto. apply I.
Qed.

(* a step at which the call (or one polling round) takes effect *)
Lemma eff_preserves k s t o f ph q' h' abs' own' r ph' lk :
  Inv k s -> c_pc s t = InOp o f ph ->
  lock_ok s ph ph' lk ->
  before_eff ph = true -> before_eff ph' = false ->
  sleep_ok k o ph' ->
  pc_tphase k (InOp o f ph') = (if is_retry k o r then TFailed o else TDone o r) ->
  Rep abs' q' h' ->
  eff_spec k o r (c_abs s) = Some abs' ->
  (forall u, own' u = OInPool <-> In u abs') ->
  (forall t' u, t' <> t -> c_own s u = OResv t' -> own' u = OResv t') ->
  Inv k (mkC q' h' (apply_lock s t lk) (upd (c_pc s) t (InOp o f ph')) own' abs' (EEff t o r :: c_trace s)).
Proof.
  intros I Hpc Hl Hb Hb' Hs Ht HR He Ho Hoth. constructor; cbn [c_q c_h c_lock c_pc c_own c_abs c_trace].
  - exact HR.
  - apply (lock_step k s t o f ph ph' f lk I Hpc Hl).
  - exact Ho.
  - intros x o1 f1 ph1 Hx Hbe u Hu. destruct (Nat.eq_dec x t) as [->|Hne].
    + rewrite upd_eq in Hx. injection Hx as <- <- <-. congruence.
    + rewrite upd_ne in Hx by auto. apply Hoth; auto. apply (i_pend k s I x o1 f1 ph1 Hx Hbe u Hu).
  - intros x o1 f1 ph1 Hx. destruct (Nat.eq_dec x t) as [->|Hne].
    + rewrite upd_eq in Hx. injection Hx as <- <- <-. apply (i_pendnd k s I t o f ph Hpc).
    + rewrite upd_ne in Hx by auto. apply (i_pendnd k s I x o1 f1 ph1 Hx).
  - intros x o1 f1 mt Hx. destruct (Nat.eq_dec x t) as [->|Hne].
    + rewrite upd_eq in Hx. injection Hx as <- <- ->. exact Hs.
    + rewrite upd_ne in Hx by auto. apply (i_sleep k s I x o1 f1 mt Hx).
  - cbn [replay]. rewrite (i_replay k s I). exact He.
  - intros x. cbn [tproj]. rewrite (i_proj k s I x). cbn [tphase_event].
    destruct (Nat.eqb_spec t x) as [->|Hne].
    + rewrite upd_eq, Hpc, Ht. unfold pc_tphase.
      destruct ph; cbn [before_eff] in Hb; try discriminate; destruct f; rewrite cop_eqb_refl; reflexivity.
    + rewrite upd_ne by auto. reflexivity.
Qed.

(* ------------------------------------------------------------ the critical sections *)
Lemma own_after_take (own own' : id -> owner) l l' (taken : id -> nat) :
  NoDup l -> (forall x, count x l = taken x + count x l') ->
  (forall u, own u = OInPool <-> In u l) ->
  (forall x, own' x = if Nat.ltb 0 (taken x) then OAvail else own x) ->
  forall x, own' x = OInPool <-> In x l'.
Proof.
  intros Nd Hc Ho Ho' x. rewrite Ho'. apply count_nodup with (x := x) in Nd. specialize (Hc x).
  destruct (Nat.ltb_spec 0 (taken x)).
  - split; [discriminate|]. intros Hin. apply count_in in Hin. lia.
  - rewrite Ho, !count_in. lia.
Qed.

Lemma nodupb_of_NoDup us : NoDup us -> nodupb us = true.
Proof.
  induction 1 as [|u us Hn Nd IH]; cbn; auto. rewrite IH, andb_true_r. apply negb_true_iff.
  destruct (memb u us) eqn:E; auto. apply memb_in in E. tauto.
Qed.

Lemma memb_false u l : ~ In u l -> memb u l = false.
Proof. intros H. destruct (memb u l) eqn:E; auto. apply memb_in in E. tauto. Qed.

Definition has_body (o : cop) : bool := match o with CGetSize | CIsEmpty => false | _ => true end.

Lemma sp_pop_fifo0 l : sp_pop FIFO 0%N l = dq_pop_head l.
Proof. reflexivity. Qed.

Lemma body_ok k s t o f ph :
  Inv k s -> c_pc s t = InOp o f ph -> before_eff ph = true -> has_body o = true ->
  exists q' h' abs' own' r,
    body k s o = Some (q', h', abs', own', r) /\ Rep abs' q' h' /\
    eff_spec k o r (c_abs s) = Some abs' /\
    (forall u, own' u = OInPool <-> In u abs') /\
    (forall t' u, t' <> t -> c_own s u = OResv t' -> own' u = OResv t').
Proof.
  intros I Hpc Hb Hhb. pose proof (i_rep k s I) as R. pose proof (i_own k s I) as IO.
  assert (Nd : NoDup (c_abs s)) by apply R.
  assert (Hres : forall u, In u (push_units o) -> c_own s u = OResv t /\ ~ In u (c_abs s)).
  { intros u Hu. pose proof (i_pend k s I t o f ph Hpc Hb u Hu) as E. split; auto.
    intros Hin. apply IO in Hin. congruence. }
  assert (Hin_not_resv : forall t' u, In u (c_abs s) -> c_own s u <> OResv t').
  { intros t' u Hin. apply IO in Hin. congruence. }
  destruct o as [u ctx|us ctx|ctx|max ctx|ctx| |u| |]; try discriminate Hhb; cbn [body pop_kind].
  - (* push *)
    destruct (Hres u (or_introl eq_refl)) as (Eo & Hn).
    destruct (q_push_ok k ctx _ _ _ u R Hn) as (q' & h' & E & R'). rewrite E. cbn [res_opt].
    eexists _, _, _, _, _. split; [reflexivity|]. split; [exact R'|]. split; [|split].
    + cbn [eff_spec]. rewrite memb_false by auto. reflexivity.
    + intros x. rewrite in_sp_push. destruct (Nat.eq_dec x u) as [->|Hne].
      * rewrite upd_eq. tauto.
      * rewrite upd_ne by auto. rewrite IO. intuition congruence.
    + intros t' x Ht' Ex. assert (x <> u) by (intros ->; congruence). rewrite upd_ne; auto.
  - (* push_many *)
    pose proof (i_pendnd k s I t _ f ph Hpc) as Ndu. cbn [push_units] in Ndu, Hres.
    destruct (q_push_list_ok k ctx us _ _ _ R Ndu (fun u Hu => proj2 (Hres u Hu))) as (q' & h' & E & R').
    rewrite E. cbn [res_opt]. eexists _, _, _, _, _. split; [reflexivity|]. split; [exact R'|]. split; [|split].
    + cbn [eff_spec]. rewrite nodupb_of_NoDup by auto. cbn [andb].
      assert (Ef : forallb (fun u => negb (memb u (c_abs s))) us = true).
      { apply forallb_forall. intros u Hu. rewrite memb_false; auto. apply Hres; auto. }
      rewrite Ef. reflexivity.
    + intros x. rewrite own_set_spec.
      assert (Hc := count_sp_push_list k ctx us (c_abs s) x).
      destruct (memb x us) eqn:Em.
      * apply memb_in, count_in in Em. split; auto. intros _. apply count_in. lia.
      * assert (~ In x us) by (intros H; apply memb_in in H; congruence).
        apply count_notin in H. rewrite IO, !count_in. lia.
    + intros t' x Ht' Ex. rewrite own_set_spec. destruct (memb x us) eqn:Em; auto.
      apply memb_in in Em. destruct (Hres x Em). congruence.
  - (* pop *)
    destruct (q_pop_ok k ctx _ _ _ R) as (q' & h' & E & R'). rewrite E. cbn [res_opt].
    eexists _, _, _, _, _. split; [reflexivity|]. split; [exact R'|]. split; [|split].
    + cbn [eff_spec]. destruct (sp_pop k ctx (c_abs s)) as (l', p'). cbn [fst snd]. unfold ptr_eq. now rewrite ptr_eqb_refl.
    + apply (own_after_take (c_own s) _ (c_abs s) _ (optone (snd (sp_pop k ctx (c_abs s)))) Nd
               (count_sp_pop k ctx (c_abs s)) IO).
      intros x. destruct (snd (sp_pop k ctx (c_abs s))) as [v|]; cbn [optone]; [|reflexivity].
      unfold one, upd. rewrite (Nat.eqb_sym x v). destruct (Nat.eqb v x); reflexivity.
    + intros t' x Ht' Ex. pose proof (count_sp_pop k ctx (c_abs s)) as Hc.
      destruct (snd (sp_pop k ctx (c_abs s))) as [v|]; auto.
      assert (x <> v).
      { intros ->. apply (Hin_not_resv t' v); auto. apply count_in. specialize (Hc v). cbn [optone] in Hc.
        unfold one in Hc. rewrite Nat.eqb_refl in Hc. lia. }
      rewrite upd_ne; auto.
  - (* pop_many *)
    destruct (q_pop_list_ok k ctx max _ _ _ R) as (q' & h' & E & R'). rewrite E. cbn [res_opt].
    eexists _, _, _, _, _. split; [reflexivity|]. split; [exact R'|]. split; [|split].
    + cbn [eff_spec]. destruct (sp_pop_list k ctx (c_abs s) max) as (l', xs). cbn [fst snd]. now rewrite list_eqb_refl.
    + apply (own_after_take (c_own s) _ (c_abs s) _ (fun x => count x (snd (sp_pop_list k ctx (c_abs s) max))) Nd
               (count_sp_pop_list k ctx max (c_abs s)) IO).
      intros x. rewrite own_set_spec. destruct (memb x (snd (sp_pop_list k ctx (c_abs s) max))) eqn:Em.
      * apply memb_in, count_in in Em. destruct (Nat.ltb_spec 0 (count x (snd (sp_pop_list k ctx (c_abs s) max)))); [reflexivity|lia].
      * assert (~ In x (snd (sp_pop_list k ctx (c_abs s) max))) by (intros H; apply memb_in in H; congruence).
        apply count_notin in H. rewrite H. reflexivity.
    + intros t' x Ht' Ex. rewrite own_set_spec.
      destruct (memb x (snd (sp_pop_list k ctx (c_abs s) max))) eqn:Em; auto.
      exfalso. apply (Hin_not_resv t' x); auto. apply memb_in, count_in in Em. apply count_in.
      pose proof (count_sp_pop_list k ctx max (c_abs s) x). lia.
  - (* pop_wait *)
    destruct (q_pop_ok k ctx _ _ _ R) as (q' & h' & E & R'). rewrite E. cbn [res_opt].
    eexists _, _, _, _, _. split; [reflexivity|]. split; [exact R'|]. split; [|split].
    + cbn [eff_spec]. destruct (sp_pop k ctx (c_abs s)) as (l', p'). cbn [fst snd]. unfold ptr_eq. now rewrite ptr_eqb_refl.
    + apply (own_after_take (c_own s) _ (c_abs s) _ (optone (snd (sp_pop k ctx (c_abs s)))) Nd
               (count_sp_pop k ctx (c_abs s)) IO).
      intros x. destruct (snd (sp_pop k ctx (c_abs s))) as [v|]; cbn [optone]; [|reflexivity].
      unfold one, upd. rewrite (Nat.eqb_sym x v). destruct (Nat.eqb v x); reflexivity.
    + intros t' x Ht' Ex. pose proof (count_sp_pop k ctx (c_abs s)) as Hc.
      destruct (snd (sp_pop k ctx (c_abs s))) as [v|]; auto.
      assert (x <> v).
      { intros ->. apply (Hin_not_resv t' v); auto. apply count_in. specialize (Hc v). cbn [optone] in Hc.
        unfold one in Hc. rewrite Nat.eqb_refl in Hc. lia. }
      rewrite upd_ne; auto.
  - (* pop_timedwait: head, whatever the kind *)
    destruct (q_pop_ok FIFO 0%N _ _ _ R) as (q' & h' & E & R'). rewrite E. cbn [res_opt].
    eexists _, _, _, _, _. split; [reflexivity|]. split; [exact R'|]. split; [|split].
    + cbn [eff_spec]. rewrite <- sp_pop_fifo0. destruct (sp_pop FIFO 0 (c_abs s)) as (l', p'). cbn [fst snd].
      unfold ptr_eq. now rewrite ptr_eqb_refl.
    + apply (own_after_take (c_own s) _ (c_abs s) _ (optone (snd (sp_pop FIFO 0 (c_abs s)))) Nd
               (count_sp_pop FIFO 0 (c_abs s)) IO).
      intros x. destruct (snd (sp_pop FIFO 0 (c_abs s))) as [v|]; cbn [optone]; [|reflexivity].
      unfold one, upd. rewrite (Nat.eqb_sym x v). destruct (Nat.eqb v x); reflexivity.
    + intros t' x Ht' Ex. pose proof (count_sp_pop FIFO 0 (c_abs s)) as Hc.
      destruct (snd (sp_pop FIFO 0 (c_abs s))) as [v|]; auto.
      assert (x <> v).
      { intros ->. apply (Hin_not_resv t' v); auto. apply count_in. specialize (Hc v). cbn [optone] in Hc.
        unfold one in Hc. rewrite Nat.eqb_refl in Hc. lia. }
      rewrite upd_ne; auto.
  - (* remove *)
    destruct (remove_rep _ _ _ u R) as (q' & h' & E & R'). rewrite E.
    eexists _, _, _, _, _. split; [reflexivity|]. split; [exact R'|]. split; [|split].
    + cbn [eff_spec]. destruct (dq_remove (c_abs s) u) as (l', ok). cbn [fst snd]. now rewrite eqb_reflx.
    + unfold dq_remove. destruct (memb u (c_abs s)) eqn:Em; cbn [fst snd]; [|exact IO].
      apply memb_in in Em.
      apply (own_after_take (c_own s) _ (c_abs s) _ (one u) Nd (fun x => count_dq_del (c_abs s) u x Em) IO).
      intros x. unfold one, upd. rewrite (Nat.eqb_sym x u). destruct (Nat.eqb u x); reflexivity.
    + intros t' x Ht' Ex. unfold dq_remove. destruct (memb u (c_abs s)) eqn:Em; cbn [fst snd]; auto.
      apply memb_in in Em. assert (x <> u) by (intros ->; apply (Hin_not_resv t' u); auto).
      rewrite upd_ne; auto.
Qed.

(* ------------------------------------------------------------ every step preserves the invariant *)
Lemma is_retry_poll k o r : is_retry k o r = true -> is_poll k o = true.
Proof. unfold is_retry. intros H. apply andb_true_iff in H. tauto. Qed.

Lemma after_result_facts k o f r :
  hold_ph (after_result k o f r) = false /\ before_eff (after_result k o f r) = false /\
  sleep_ok k o (after_result k o f r) /\
  forall f', pc_tphase k (InOp o f' (after_result k o f r)) = (if is_retry k o r then TFailed o else TDone o r).
Proof.
  unfold after_result. destruct (is_retry k o r) eqn:E; cbn [hold_ph before_eff sleep_ok pc_tphase].
  - repeat split; auto. apply (is_retry_poll k o r E).
  - repeat split; auto. intros. rewrite E. reflexivity.
Qed.

Lemma empty_eff k o l : fastpath o = true -> l = [] -> eff_spec k o (empty_result o) l = Some l.
Proof.
  intros Hf ->. destruct o; try discriminate Hf; cbn [eff_spec empty_result].
  - rewrite sp_pop_nil. reflexivity.
  - rewrite sp_pop_list_nil. reflexivity.
  - rewrite sp_pop_nil. reflexivity.
  - reflexivity.
  - reflexivity.
Qed.

Lemma inv_empty k s : Inv k s -> tq_is_empty (c_q s) = true -> c_abs s = [].
Proof.
  intros I H. pose proof (rep_empty _ _ _ (i_rep k s I)) as E. unfold tq_is_empty in H. rewrite H in E.
  destruct (c_abs s); [reflexivity|discriminate].
Qed.

(* an unlocked load that decides the result: nothing changes but pc and trace *)
Lemma read_eff_preserves k s t o f ph r ph' :
  Inv k s -> c_pc s t = InOp o f ph ->
  hold_ph ph = false -> hold_ph ph' = false -> before_eff ph = true -> before_eff ph' = false ->
  sleep_ok k o ph' ->
  pc_tphase k (InOp o f ph') = (if is_retry k o r then TFailed o else TDone o r) ->
  eff_spec k o r (c_abs s) = Some (c_abs s) ->
  Inv k (mkC (c_q s) (c_h s) (apply_lock s t LKeep) (upd (c_pc s) t (InOp o f ph')) (c_own s) (c_abs s)
             (EEff t o r :: c_trace s)).
Proof.
  intros I Hpc H1 H2 H3 H4 H5 H6 H7.
  apply (eff_preserves k s t o f ph); auto.
  - cbn [lock_ok]. congruence.
  - apply I.
  - apply I.
Qed.

Lemma astep_inv k s t o f ph choice out :
  Inv k s -> c_pc s t = InOp o f ph -> next k s t o f ph choice = Some out ->
  Inv k (match out with
         | OSilent ph' lk =>
             mkC (c_q s) (c_h s) (apply_lock s t lk) (upd (c_pc s) t (InOp o (f || is_sleep ph) ph'))
                 (c_own s) (c_abs s) (c_trace s)
         | OEff q' h' abs' own' r ph' lk =>
             mkC q' h' (apply_lock s t lk) (upd (c_pc s) t (InOp o f ph')) own' abs' (EEff t o r :: c_trace s)
         end).
Proof.
  intros I Hpc Hn.
  assert (SIL : forall ph' lk,
             lock_ok s ph ph' lk -> before_eff ph = true -> before_eff ph' = true -> is_sleep ph = false ->
             Inv k (mkC (c_q s) (c_h s) (apply_lock s t lk) (upd (c_pc s) t (InOp o (f || is_sleep ph) ph'))
                        (c_own s) (c_abs s) (c_trace s))).
  { intros ph' lk Hl Hb Hb' Hs. apply (silent_preserves k s t o f ph); auto.
    - destruct ph'; cbn in Hb'; try discriminate; constructor.
    - rewrite Hs, orb_false_r. unfold pc_tphase.
      destruct ph; cbn in Hb; try discriminate; destruct ph'; cbn in Hb'; try discriminate; reflexivity. }
  assert (BODY : forall q' h' abs' own' r, hold_ph ph = true -> before_eff ph = true ->
             body k s o = Some (q', h', abs', own', r) ->
             Inv k (mkC q' h' (apply_lock s t LKeep) (upd (c_pc s) t (InOp o f (PhUnlock r))) own' abs'
                        (EEff t o r :: c_trace s))).
  { intros q' h' abs' own' r Hh Hb Eb.
    assert (Hhb : has_body o = true) by (destruct o; cbn in Eb; try discriminate; reflexivity).
    destruct (body_ok k s t o f ph I Hpc Hb Hhb) as (q2 & h2 & a2 & o2 & r2 & E2 & R2 & S2 & O2 & T2).
    rewrite E2 in Eb. injection Eb as <- <- <- <- <-.
    apply (eff_preserves k s t o f ph q2 h2 a2 o2 r2 (PhUnlock r2) LKeep I Hpc); auto.
    - cbn [lock_ok hold_ph]. congruence.
    - constructor. }
  assert (EMPTY : hold_ph ph = false -> before_eff ph = true -> fastpath o = true ->
             tq_is_empty (c_q s) = true ->
             Inv k (mkC (c_q s) (c_h s) (apply_lock s t LKeep)
                        (upd (c_pc s) t (InOp o f (after_result k o f (empty_result o)))) (c_own s) (c_abs s)
                        (EEff t o (empty_result o) :: c_trace s))).
  { intros Hh Hb Hf He. destruct (after_result_facts k o f (empty_result o)) as (A1 & A2 & A3 & A4).
    apply (read_eff_preserves k s t o f ph); auto.
    apply empty_eff; auto. apply (inv_empty k s I He). }
  destruct ph; cbn [next] in Hn.
  - (* PhStart *)
    destruct o; try discriminate Hn.
    + (* pop *)
      destruct (tq_is_empty (c_q s)) eqn:Ee; injection Hn as <-.
      * apply EMPTY; auto.
      * destruct (spin k); apply SIL; cbn; auto.
    + destruct (tq_is_empty (c_q s)) eqn:Ee; injection Hn as <-.
      * apply EMPTY; auto.
      * destruct (spin k); apply SIL; cbn; auto.
    + destruct (tq_is_empty (c_q s)) eqn:Ee; injection Hn as <-.
      * apply EMPTY; auto.
      * destruct (spin k); apply SIL; cbn; auto.
    + destruct (tq_is_empty (c_q s)) eqn:Ee; injection Hn as <-.
      * apply EMPTY; auto.
      * destruct (spin k); apply SIL; cbn; auto.
    + (* remove *)
      destruct (tq_is_empty (c_q s)) eqn:Ee; injection Hn as <-.
      * apply EMPTY; auto.
      * apply SIL; cbn; auto.
    + (* get_size *)
      injection Hn as <-. unfold eff_read. apply (read_eff_preserves k s t _ f PhStart); auto; [constructor|].
      cbn [eff_spec]. unfold tq_get_size. rewrite (rep_num _ _ _ (i_rep k s I)), Nat.eqb_refl. reflexivity.
    + (* is_empty *)
      injection Hn as <-. unfold eff_read. apply (read_eff_preserves k s t _ f PhStart); auto; [constructor|].
      cbn [eff_spec]. rewrite (is_empty_rep _ _ _ (i_rep k s I)).
      destruct (c_abs s); reflexivity.
  - (* PhTry *)
    destruct (c_lock s) eqn:El; injection Hn as <-; apply SIL; cbn; auto.
  - (* PhLoadE *)
    destruct (fastpath o) eqn:Ef; [|discriminate].
    destruct (tq_is_empty (c_q s)) eqn:Ee; injection Hn as <-.
    + apply EMPTY; auto.
    + apply SIL; cbn; auto.
  - (* PhIsLocked *)
    destruct (c_lock s) eqn:El; injection Hn as <-; apply SIL; cbn; auto.
  - (* PhChk2 *)
    destruct o; try discriminate Hn. destruct (h_inpool (c_h s) u) eqn:Ei; injection Hn as <-.
    + apply SIL; cbn; auto.
    + unfold eff_read. apply (read_eff_preserves k s t _ f PhChk2); auto; [constructor|].
      cbn [eff_spec]. unfold dq_remove.
      assert (~ In u (c_abs s)).
      { intros Hin. apply (rep_in _ _ _ (i_rep k s I)) in Hin. congruence. }
      rewrite memb_false by auto. reflexivity.
  - (* PhWantLock *)
    destruct (c_lock s) eqn:El; [discriminate|]. injection Hn as <-. apply SIL; cbn; auto.
  - (* PhLocked *)
    assert (Hgen : match body k s o with
                   | Some (q', h', abs', own', r) => Some (OEff q' h' abs' own' r (PhUnlock r) LKeep)
                   | None => None
                   end = Some out ->
                   Inv k (match out with
                          | OSilent ph' lk =>
                              mkC (c_q s) (c_h s) (apply_lock s t lk) (upd (c_pc s) t (InOp o (f || is_sleep PhLocked) ph'))
                                  (c_own s) (c_abs s) (c_trace s)
                          | OEff q' h' abs' own' r ph' lk =>
                              mkC q' h' (apply_lock s t lk) (upd (c_pc s) t (InOp o f ph')) own' abs' (EEff t o r :: c_trace s)
                          end)).
    { destruct (body k s o) as [[[[[q' h'] abs'] own'] r]|] eqn:Eb; [|discriminate].
      intros E. injection E as <-. apply BODY; auto. }
    destruct o; try (apply Hgen; exact Hn).
    + destruct (negb (spin k) && tq_is_empty (c_q s)); [|apply Hgen; exact Hn].
      injection Hn as <-. apply SIL; cbn; auto.
    + destruct (negb (spin k) && tq_is_empty (c_q s)); [|apply Hgen; exact Hn].
      injection Hn as <-. apply SIL; cbn; auto.
  - (* PhCondWait *)
    injection Hn as <-. apply SIL; cbn; auto.
  - (* PhRelock *)
    destruct (c_lock s) eqn:El; [discriminate|]. injection Hn as <-. apply SIL; cbn; auto.
  - (* PhLocked2 *)
    destruct (body k s o) as [[[[[q' h'] abs'] own'] r']|] eqn:Eb; [|discriminate].
    injection Hn as <-. apply BODY; auto.
  - (* PhUnlock *)
    injection Hn as <-. destruct (after_result_facts k o f r) as (A1 & A2 & A3 & A4).
    apply (silent_preserves k s t o f (PhUnlock r)); auto.
    + cbn [lock_ok]. auto.
    + rewrite A2. discriminate.
  - (* PhSleep *)
    pose proof (i_sleep k s I t o f may_timeout Hpc) as Hp.
    assert (Hpu : push_units o = []).
    { unfold is_poll in Hp. apply andb_true_iff in Hp. destruct Hp as (_ & Hp). destruct o; try discriminate; reflexivity. }
    destruct (may_timeout && choice); injection Hn as <-.
    + apply (silent_preserves k s t o f (PhSleep may_timeout)); cbn; auto.
      unfold is_retry. rewrite Hp. reflexivity.
    + apply (silent_preserves k s t o f (PhSleep may_timeout)); cbn; auto.
      rewrite orb_true_r. reflexivity.
  - discriminate.
Qed.

Lemma start_phase_facts k o :
  hold_ph (start_phase k o) = false /\ before_eff (start_phase k o) = true /\
  (forall mt, start_phase k o <> PhSleep mt).
Proof. unfold start_phase. destruct o, (spin k); cbn; repeat split; auto; discriminate. Qed.

Lemma call_own_spec s t o u :
  call_own s t o u = if memb u (push_units o) then OResv t else c_own s u.
Proof.
  destruct o as [v ctx|vs ctx|ctx|m ctx|ctx| |v| |]; cbn [call_own push_units memb existsb]; auto.
  - unfold upd. rewrite orb_false_r. reflexivity.
  - apply own_set_spec.
Qed.

Lemma call_ok_avail s o u : call_ok s o = true -> In u (push_units o) -> c_own s u = OAvail.
Proof.
  intros Hc Hu. destruct o as [v ctx|vs ctx|ctx|m ctx|ctx| |v| |]; cbn [call_ok push_units] in *; try (destruct Hu; fail).
  - destruct Hu as [->|[]]. unfold own_avail in Hc. destruct (c_own s u); auto; discriminate.
  - apply andb_true_iff in Hc. destruct Hc as (_ & Hf). rewrite forallb_forall in Hf.
    specialize (Hf u Hu). unfold own_avail in Hf. destruct (c_own s u); auto; discriminate.
Qed.

Lemma call_ok_nodup s o : call_ok s o = true -> NoDup (push_units o).
Proof.
  intros Hc. destruct o; cbn [call_ok push_units] in *; try constructor; auto; try constructor.
  apply andb_true_iff in Hc. destruct Hc as (Hc & _). apply andb_true_iff in Hc. destruct Hc as (_ & Hc).
  apply nodupb_NoDup. exact Hc.
Qed.

Theorem step_inv k s t a s' : Inv k s -> step k s t a = Some s' -> Inv k s'.
Proof.
  intros I Hs. unfold step in Hs. destruct a as [o|choice|].
  - (* call *)
    destruct (c_pc s t) eqn:Hpc; [|discriminate]. destruct (call_ok s o) eqn:Hc; [|discriminate].
    injection Hs as <-. destruct (start_phase_facts k o) as (S1 & S2 & S3).
    constructor; cbn [c_q c_h c_lock c_pc c_own c_abs c_trace].
    + apply I.
    + intros x. destruct (Nat.eq_dec x t) as [->|Hne].
      * rewrite upd_eq. cbn [holds]. rewrite S1. pose proof (i_lock k s I t) as IL. rewrite Hpc in IL. cbn in IL.
        split; [discriminate|]. intros E. apply IL in E. discriminate.
      * rewrite upd_ne by auto. apply I.
    + intros u. rewrite call_own_spec. destruct (memb u (push_units o)) eqn:Em.
      * apply memb_in in Em. pose proof (call_ok_avail s o u Hc Em) as Ea.
        split; [discriminate|]. intros Hin. apply (i_own k s I) in Hin. congruence.
      * apply I.
    + intros x o1 f1 ph1 Hx Hbe u Hu. rewrite call_own_spec. destruct (Nat.eq_dec x t) as [->|Hne].
      * rewrite upd_eq in Hx. injection Hx as <- <- <-. apply memb_in in Hu. rewrite Hu. reflexivity.
      * rewrite upd_ne in Hx by auto. pose proof (i_pend k s I x o1 f1 ph1 Hx Hbe u Hu) as E.
        destruct (memb u (push_units o)) eqn:Em; [|exact E].
        apply memb_in in Em. pose proof (call_ok_avail s o u Hc Em). congruence.
    + intros x o1 f1 ph1 Hx. destruct (Nat.eq_dec x t) as [->|Hne].
      * rewrite upd_eq in Hx. injection Hx as <- <- <-. apply (call_ok_nodup s o Hc).
      * rewrite upd_ne in Hx by auto. apply (i_pendnd k s I x o1 f1 ph1 Hx).
    + intros x o1 f1 mt Hx. destruct (Nat.eq_dec x t) as [->|Hne].
      * rewrite upd_eq in Hx. injection Hx as <- <- E. exfalso. apply (S3 mt). exact E.
      * rewrite upd_ne in Hx by auto. apply (i_sleep k s I x o1 f1 mt Hx).
    + cbn [replay]. apply I.
    + intros x. cbn [tproj]. rewrite (i_proj k s I x). cbn [tphase_event].
      destruct (Nat.eqb_spec t x) as [->|Hne].
      * rewrite upd_eq, Hpc. cbn [pc_tphase]. unfold pc_tphase.
        destruct (start_phase k o); cbn in S2; try discriminate; reflexivity.
      * rewrite upd_ne by auto. reflexivity.
  - (* internal step *)
    destruct (c_pc s t) as [|o f ph] eqn:Hpc; [discriminate|].
    destruct (next k s t o f ph choice) as [out|] eqn:Hn; [|discriminate].
    pose proof (astep_inv k s t o f ph choice out I Hpc Hn) as I'.
    destruct out; injection Hs as <-; exact I'.
  - (* return *)
    destruct (c_pc s t) as [|o f ph] eqn:Hpc; [discriminate|]. destruct ph; try discriminate.
    injection Hs as <-. constructor; cbn [c_q c_h c_lock c_pc c_own c_abs c_trace].
    + apply I.
    + intros x. destruct (Nat.eq_dec x t) as [->|Hne].
      * rewrite upd_eq. cbn [holds]. pose proof (i_lock k s I t) as IL. rewrite Hpc in IL. cbn in IL. exact IL.
      * rewrite upd_ne by auto. apply I.
    + apply I.
    + intros x o1 f1 ph1 Hx Hbe u Hu. destruct (Nat.eq_dec x t) as [->|Hne].
      * rewrite upd_eq in Hx. discriminate.
      * rewrite upd_ne in Hx by auto. apply (i_pend k s I x o1 f1 ph1 Hx Hbe u Hu).
    + intros x o1 f1 ph1 Hx. destruct (Nat.eq_dec x t) as [->|Hne].
      * rewrite upd_eq in Hx. discriminate.
      * rewrite upd_ne in Hx by auto. apply (i_pendnd k s I x o1 f1 ph1 Hx).
    + intros x o1 f1 mt Hx. destruct (Nat.eq_dec x t) as [->|Hne].
      * rewrite upd_eq in Hx. discriminate.
      * rewrite upd_ne in Hx by auto. apply (i_sleep k s I x o1 f1 mt Hx).
    + cbn [replay]. apply I.
    + intros x. cbn [tproj]. rewrite (i_proj k s I x). cbn [tphase_event].
      destruct (Nat.eqb_spec t x) as [->|Hne].
      * rewrite upd_eq, Hpc. cbn [pc_tphase]. destruct (is_retry k o r) eqn:Er.
        -- assert (r = RetPtr None).
           { unfold is_retry in Er. apply andb_true_iff in Er. destruct Er as (_ & Er).
             destruct r as [|[|]| | |]; try discriminate; reflexivity. }
           subst r. reflexivity.
        -- rewrite cret_eqb_refl. reflexivity.
      * rewrite upd_ne by auto. reflexivity.
Qed.

Theorem run_inv k acts : forall s s', Inv k s -> run k s acts = Some s' -> Inv k s'.
Proof.
  induction acts as [|[t a] acts IH]; intros s s' I H; cbn [run] in H.
  - injection H as <-. exact I.
  - destruct (step k s t a) as [s1|] eqn:E; [|discriminate]. apply (IH s1); auto. apply (step_inv k s t a); auto.
Qed.

Definition reachable (k : kind) (s : cstate) : Prop := exists acts, run k c_init acts = Some s.

Theorem reachable_inv k s : reachable k s -> Inv k s.
Proof. intros (acts & H). apply (run_inv k acts c_init); auto. apply inv_init. Qed.

(* ------------------------------------------------------------ the theorems *)
(* Linearizability, part 1: the effect events, in the order of their steps,
   form a legal history of the deque specification that ends in the deque the
   pointer structure represents.  Part 2: for every thread the trace has the
   shape (Call; failed polling rounds; effect; Return of the effect's value)*,
   i.e. each effect step lies between the call and the return of its own
   operation, and the value returned is the value of the effect. *)
Theorem linearizable k s :
  reachable k s ->
  replay k (c_trace s) = Some (tq_abs (c_q s) (c_h s)) /\
  (forall t, tproj k t (c_trace s) = Some (pc_tphase k (c_pc s t))).
Proof.
  intros Hr. pose proof (reachable_inv k s Hr) as I. split.
  - rewrite (rep_abs _ _ _ (i_rep k s I)). apply I.
  - apply I.
Qed.

Lemma ptr_eqb_eq a b : ptr_eqb a b = true -> a = b.
Proof. destruct a, b; cbn; try discriminate; auto. intros H. apply Nat.eqb_eq in H. congruence. Qed.
Lemma list_eqb_eq a : forall b, list_eqb a b = true -> a = b.
Proof.
  induction a as [|x a IH]; intros [|y b]; cbn; try discriminate; auto.
  intros H. apply andb_true_iff in H. destruct H as (H1 & H2). apply Nat.eqb_eq in H1. f_equal; auto.
Qed.

Lemma nodup_le l l' : NoDup l -> (forall x, count x l' <= count x l) -> NoDup l'.
Proof. intros Nd H. apply count_nodup. intros x. apply count_nodup with (x := x) in Nd. specialize (H x). lia. Qed.

Lemma eff_spec_counts k o r l0 l :
  eff_spec k o r l0 = Some l -> NoDup l0 ->
  NoDup l /\ forall u, pushed_by o r u + count u l0 = taken_by o r u + count u l.
Proof.
  intros E Nd. destruct o as [v ctx|vs ctx|ctx|m ctx|ctx| |v| |], r as [|p|xs|b|n]; cbn [eff_spec] in E; try discriminate;
    cbn [pushed_by taken_by].
  - destruct (memb v l0) eqn:Em; [discriminate|]. injection E as <-.
    assert (Hn : count v l0 = 0) by (apply count_notin; intros H; apply memb_in in H; congruence).
    split.
    + apply count_nodup. intros x. rewrite count_sp_push. apply count_nodup with (x := x) in Nd.
      unfold one. destruct (Nat.eqb_spec v x); [subst; lia|lia].
    + intros u. rewrite count_sp_push. unfold one. lia.
  - destruct (nodupb vs && forallb (fun u => negb (memb u l0)) vs) eqn:Eb; [|discriminate]. injection E as <-.
    apply andb_true_iff in Eb. destruct Eb as (Nv & Fv). apply nodupb_NoDup in Nv. rewrite forallb_forall in Fv.
    split.
    + apply count_nodup. intros x. rewrite count_sp_push_list.
      apply count_nodup with (x := x) in Nd. apply count_nodup with (x := x) in Nv.
      destruct (count x vs) eqn:Ec; [lia|].
      assert (In x vs) by (apply count_in; lia). specialize (Fv x H). apply negb_true_iff in Fv.
      assert (count x l0 = 0) by (apply count_notin; intros Hi; apply memb_in in Hi; congruence). lia.
    + intros u. rewrite count_sp_push_list. lia.
  - pose proof (count_sp_pop k ctx l0) as Hc. destruct (sp_pop k ctx l0) as (l', p'). cbn [fst snd] in Hc.
    destruct (ptr_eq p p') eqn:Ep; [|discriminate]. injection E as <-. apply ptr_eqb_eq in Ep. subst p'.
    split; [apply (nodup_le l0); auto; intros x; specialize (Hc x); lia|].
    intros u. specialize (Hc u). destruct p; cbn [optone] in *; unfold one in *; lia.
  - pose proof (count_sp_pop_list k ctx m l0) as Hc. destruct (sp_pop_list k ctx l0 m) as (l', xs'). cbn [fst snd] in Hc.
    destruct (list_eqb xs xs') eqn:Ep; [|discriminate]. injection E as <-. apply list_eqb_eq in Ep. subst xs'.
    split; [apply (nodup_le l0); auto; intros x; specialize (Hc x); lia|].
    intros u. specialize (Hc u). lia.
  - pose proof (count_sp_pop k ctx l0) as Hc. destruct (sp_pop k ctx l0) as (l', p'). cbn [fst snd] in Hc.
    destruct (ptr_eq p p') eqn:Ep; [|discriminate]. injection E as <-. apply ptr_eqb_eq in Ep. subst p'.
    split; [apply (nodup_le l0); auto; intros x; specialize (Hc x); lia|].
    intros u. specialize (Hc u). destruct p; cbn [optone] in *; unfold one in *; lia.
  - pose proof (count_sp_pop FIFO 0 l0) as Hc. rewrite sp_pop_fifo0 in Hc.
    destruct (dq_pop_head l0) as (l', p'). cbn [fst snd] in Hc.
    destruct (ptr_eq p p') eqn:Ep; [|discriminate]. injection E as <-. apply ptr_eqb_eq in Ep. subst p'.
    split; [apply (nodup_le l0); auto; intros x; specialize (Hc x); lia|].
    intros u. specialize (Hc u). destruct p; cbn [optone] in *; unfold one in *; lia.
  - unfold dq_remove in E. destruct (memb v l0) eqn:Em.
    + destruct (Bool.eqb b true) eqn:Eb; [|discriminate]. injection E as <-. apply eqb_prop in Eb. subst b.
      apply memb_in in Em. pose proof (fun x => count_dq_del l0 v x Em) as Hc.
      split; [apply (nodup_le l0); auto; intros x; specialize (Hc x); lia|].
      intros u. specialize (Hc u). unfold one in Hc. lia.
    + destruct (Bool.eqb b false) eqn:Eb; [|discriminate]. injection E as <-. apply eqb_prop in Eb. subst b.
      split; auto.
  - destruct (Nat.eqb n (length l0)); [|discriminate]. injection E as <-. split; auto.
  - destruct (Bool.eqb b match l0 with [] => true | _ => false end); [|discriminate]. injection E as <-. split; auto.
Qed.

(* Exactly once, for any legal history: the represented deque has no duplicates,
   and every unit was pushed exactly as many times as it was handed out by a
   pop / pop_many / pop_wait / pop_timedwait / successful remove, plus one if
   it is still in the pool. *)
Theorem replay_conservation k tr : forall l,
  replay k tr = Some l -> NoDup l /\ forall u, pushes tr u = takes tr u + count u l.
Proof.
  induction tr as [|e tr IH]; intros l H; cbn [replay] in H.
  - injection H as <-. split; [constructor|]. intros u. reflexivity.
  - destruct e as [t o|t o r|t r]; cbn [pushes takes]; auto.
    destruct (replay k tr) as [l0|] eqn:E0; [|discriminate].
    destruct (IH l0 eq_refl) as (Nd0 & C0).
    destruct (eff_spec_counts k o r l0 l H Nd0) as (Nd & C). split; auto.
    intros u. specialize (C0 u). specialize (C u). lia.
Qed.

Theorem exactly_once k s :
  reachable k s ->
  forall u, pushes (c_trace s) u = takes (c_trace s) u + count u (tq_abs (c_q s) (c_h s)) /\
            count u (tq_abs (c_q s) (c_h s)) <= 1.
Proof.
  intros Hr u. destruct (linearizable k s Hr) as (Hl & _).
  destruct (replay_conservation k _ _ Hl) as (Nd & C). split; auto. apply count_nodup. exact Nd.
Qed.

(* Honest emptiness: an effect step that hands out nothing happens only in a
   state whose deque is empty. *)
Definition nothing (o : cop) (r : cret) : bool :=
  match o, r with
  | CPop _, RetPtr None | CPopWait _, RetPtr None | CPopTimedwait, RetPtr None => true
  | CPopMany max _, RetList [] => negb (Nat.eqb max 0)
  | _, _ => false
  end.

Lemma eff_nothing k o r l l' : eff_spec k o r l = Some l' -> nothing o r = true -> l = [].
Proof.
  intros E Hn. destruct o as [v ctx|vs ctx|ctx|m ctx|ctx| |v| |], r as [|[w|]|[|x xs]|b|n]; try discriminate Hn;
    cbn [eff_spec] in E.
  - pose proof (sp_pop_none k ctx l) as Hs. destruct (sp_pop k ctx l) as (l1, p'). cbn [snd] in Hs.
    destruct (ptr_eq None p') eqn:Ep; [|discriminate]. apply ptr_eqb_eq in Ep. apply Hs. auto.
  - destruct m as [|m]; [discriminate Hn|]. cbn [sp_pop_list] in E.
    pose proof (sp_pop_none k ctx l) as Hs. destruct (sp_pop k ctx l) as (l1, [y|]); cbn [snd] in Hs.
    + destruct (sp_pop_list k ctx l1 m). discriminate.
    + apply Hs. reflexivity.
  - pose proof (sp_pop_none k ctx l) as Hs. destruct (sp_pop k ctx l) as (l1, p'). cbn [snd] in Hs.
    destruct (ptr_eq None p') eqn:Ep; [|discriminate]. apply ptr_eqb_eq in Ep. apply Hs. auto.
  - destruct l; [reflexivity|discriminate].
Qed.

Theorem empty_honest k s t a s' o r :
  reachable k s -> step k s t a = Some s' ->
  c_trace s' = EEff t o r :: c_trace s -> nothing o r = true ->
  tq_abs (c_q s) (c_h s) = [] /\ tq_is_empty (c_q s) = true /\ tq_get_size (c_q s) = 0.
Proof.
  intros Hr Hs Ht Hn. pose proof (reachable_inv k s Hr) as I.
  pose proof (step_inv k s t a s' I Hs) as I'.
  pose proof (i_replay k s' I') as Rp. rewrite Ht in Rp. cbn [replay] in Rp. rewrite (i_replay k s I) in Rp.
  pose proof (eff_nothing k o r _ _ Rp Hn) as E.
  pose proof (i_rep k s I) as R. rewrite (rep_abs _ _ _ R). split; [exact E|].
  split.
  - rewrite (is_empty_rep _ _ _ R), E. reflexivity.
  - unfold tq_get_size. rewrite (rep_num _ _ _ R), E. reflexivity.
Qed.

(* the unlocked size / emptiness fields are exact in every reachable state
   (in particular when no operation is in progress) *)
Theorem size_exact k s :
  reachable k s ->
  tq_get_size (c_q s) = length (tq_abs (c_q s) (c_h s)) /\
  (tq_is_empty (c_q s) = true <-> tq_abs (c_q s) (c_h s) = []).
Proof.
  intros Hr. pose proof (reachable_inv k s Hr) as I. pose proof (i_rep k s I) as R.
  rewrite (rep_abs _ _ _ R). split; [apply R|]. rewrite (is_empty_rep _ _ _ R).
  destruct (c_abs s); split; congruence.
Qed.

(* mutual exclusion of the critical sections *)
Theorem mutual_exclusion k s t1 t2 :
  reachable k s -> holds (c_pc s t1) = true -> holds (c_pc s t2) = true -> t1 = t2.
Proof.
  intros Hr H1 H2. pose proof (reachable_inv k s Hr) as I.
  apply (i_lock k s I) in H1. apply (i_lock k s I) in H2. congruence.
Qed.

(* a critical section never dereferences NULL: whenever a thread holds the
   lock with its section still to run, the step exists *)
Theorem no_fault k s t o f ph c :
  reachable k s -> c_pc s t = InOp o f ph -> (ph = PhLocked \/ ph = PhLocked2) -> has_body o = true ->
  exists s', step k s t (AStep c) = Some s'.
Proof.
  intros Hr Hpc Hph Hb. pose proof (reachable_inv k s Hr) as I.
  assert (Hbe : before_eff ph = true) by (destruct Hph as [-> | ->]; reflexivity).
  destruct (body_ok k s t o f ph I Hpc Hbe Hb) as (q' & h' & a' & o' & r & E & _).
  unfold step. rewrite Hpc. destruct Hph as [-> | ->]; cbn [next]; rewrite E.
  - destruct o; try (eexists; reflexivity).
    + destruct (negb (spin k) && tq_is_empty (c_q s)); eexists; reflexivity.
    + destruct (negb (spin k) && tq_is_empty (c_q s)); eexists; reflexivity.
  - eexists; reflexivity.
Qed.
