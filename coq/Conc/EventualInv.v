(* Inductive invariant of the ABT_eventual LTS (any number of callers of any kind, any
   interleaving) and its preservation by every step.  The theorems are in EventualProofs.v. *)
From Coq Require Import List Arith ZArith Lia Bool.
From ABT Require Import Common.ListAux Conc.EvCommon Conc.Eventual.
Import ListNotations.

Definition is_s2b (p : vpc) : bool := match p with VS2b => true | _ => false end.
Definition is_tr (p : vpc) : bool := match p with VTR => true | _ => false end.

Record VInv (s : vst) : Prop := {
  v_lock : forall x, vinlock (epc s x) = oeq (elock s) x;
  v_wl   : forall x, inb x (ewl s) = vqueued (epc s x);
  v_nd   : NoDup (ewl s);
  (* inside a successful set after the store: ready *)
  v_set  : forall x, vsetting (epc s x) = true -> eready s = true;
  v_s2b  : forall x, is_s2b (epc s x) = true -> ewl s = [];
  (* no lost waiter: a queued caller on a ready eventual means the setter is still broadcasting *)
  v_nl   : eready s = true -> ewl s <> [] -> exists u, elock s = Some u /\ vwaking (epc s u) = true;
  (* the buffer is the one the successful set left *)
  v_val  : eready s = true -> evalue s = esetval s;
  v_ns   : ensets s = if eready s then 1 else 0;
  (* a caller let go by wait in the current generation: the eventual is ready *)
  v_ret  : forall x, vreturned (epc s x) = true -> ewgen s x = egen s -> eready s = true;
  v_tr   : forall x, is_tr (epc s x) = true -> eflag s x = true -> ewgen s x = egen s -> eready s = true;
  v_gen  : forall x, ewgen s x <= egen s
}.

Lemma vinv_init cap : VInv (vinit cap).
Proof. constructor; cbn; auto; try discriminate; try congruence. constructor. Qed.

Ltac vsimpl :=
  cbn [elock eready evalue ecap ewl epc eck eav enb eret eflag egen ensets esetval ewgen
       vset_pc vset_lock_pc vfin vwoken] in *.

(* case split of a thread variable against every thread whose pc was updated *)
Ltac ucases x :=
  repeat match goal with
  | |- context [upd _ ?t _ x] =>
      destruct (Nat.eq_dec x t) as [->|?]; [rewrite ?upd_same | rewrite ?(upd_other _ t) by assumption]
  | H : context [upd _ ?t _ x] |- _ =>
      destruct (Nat.eq_dec x t) as [->|?]; [rewrite ?upd_same in H | rewrite ?(upd_other _ t) in H by assumption]
  end.

Ltac use_known :=
  repeat match goal with
  | E : epc ?S ?a = _ |- _ => rewrite E in *
  | E : elock ?S = _ |- _ => rewrite E in *
  | E : eready ?S = _ |- _ => rewrite E in *
  | E : ewl ?S = _ |- _ => rewrite E in *
  end.


Inductive inst_done {P : Prop} (h : P) (x : nat) : Prop := InstDone.
(* instantiate every pointwise conjunct of the invariant at thread x *)
Ltac inst x :=
  repeat match goal with
  | H : forall y : nat, _ |- _ =>
      lazymatch goal with
      | _ : inst_done H x |- _ => fail
      | _ => pose proof (H x); assert (inst_done H x) by constructor
      end
  end.
Ltac inst_known :=
  repeat match goal with
  | E : epc _ ?a = _ |- _ =>
      lazymatch goal with
      | _ : inst_done E a |- _ => fail
      | _ => inst a; assert (inst_done E a) by constructor
      end
  end.
Ltac neqs :=
  repeat match goal with
  | N : ?a <> ?b |- _ =>
      first [ rewrite (proj1 (neqb _ _ N)) in * | rewrite (proj2 (neqb _ _ N)) in * ]
  end.
Ltac fin := try assumption; try reflexivity; try discriminate; try congruence; try lia; try (intuition congruence).
Ltac pw :=
  let x := fresh "x" in
  intros x; inst x; inst_known; ucases x; use_known; cbn in *; rewrite ?Nat.eqb_refl in *; neqs; fin.
Ltac holders :=
  repeat match goal with
  | F : true = oeq _ _ |- _ => symmetry in F; apply oeq_true in F
  | F : oeq _ _ = true |- _ => apply oeq_true in F
  end.
(* same, then enumerate the pc of the quantified thread *)
Ltac pwb :=
  let x := fresh "x" in
  intros x; inst x; inst_known; ucases x; use_known; cbn in *; rewrite ?Nat.eqb_refl in *; neqs; fin;
  destruct (epc _ x) eqn:?; cbn in *; holders; fin.
Lemma inb_cons x h l : inb x (h :: l) = Nat.eqb x h || inb x l.
Proof. reflexivity. Qed.
Ltac wl_app :=
  match goal with
  | |- forall x, inb x (_ ++ [?t]) = _ =>
      let x := fresh "x" in let N := fresh "N" in
      intros x; rewrite inb_app; inst x; destruct (Nat.eq_dec x t) as [->|N];
      [ rewrite upd_same, Nat.eqb_refl, orb_true_r; reflexivity
      | rewrite upd_other by assumption; rewrite (proj1 (neqb _ _ N)), orb_false_r; auto ]
  | Iw : forall x, inb x (ewl ?S) = _, E : epc ?S ?t = _ |- NoDup (ewl ?S ++ [?t]) =>
      apply NoDup_snoc; [assumption| apply inb_false; rewrite Iw, E; reflexivity]
  end.
Ltac wl_wake :=
  match goal with
  | E : ewl ?S = ?h :: ?l, Ind : NoDup (ewl ?S) |- NoDup ?l =>
      rewrite E in Ind; apply NoDup_cons_iff in Ind; apply Ind
  | E : ewl ?S = ?h :: ?l, Ind : NoDup (ewl ?S), Iw : forall x, inb x (ewl ?S) = _ |- forall x, inb x ?l = _ =>
      let x := fresh "x" in let Hx := fresh "Hx" in let Hni := fresh "Hni" in let Hnd := fresh "Hnd" in
      intros x; pose proof (Iw x) as Hx; rewrite E in Hx, Ind; apply NoDup_cons_iff in Ind;
      destruct Ind as [Hni Hnd]; apply inb_false in Hni; rewrite inb_cons in Hx;
      ucases x; rewrite ?Nat.eqb_refl in *; neqs;
      repeat match goal with E2 : epc _ _ = _ |- _ => rewrite E2 in * end; cbn in *; fin
  end.
(* the "no lost waiter" conjunct *)
Ltac nl :=
  let Hr := fresh "Hr" in let Hw := fresh "Hw" in
  intros Hr Hw; try congruence;
  first
  [ match goal with
    | |- exists u, Some ?t = Some u /\ _ =>
        exists t; split; [reflexivity|]; rewrite ?upd_same; try reflexivity; ucases t; reflexivity
    | E : elock ?S = Some ?t |- exists u, elock ?S = Some u /\ _ =>
        exists t; split; [exact E|]; rewrite ?upd_same; try reflexivity; ucases t; reflexivity
    end
  | match goal with
    | Inl : eready ?S = true -> ewl ?S <> [] -> exists _, _ |- _ =>
        let u := fresh "u" in let Hu := fresh "Hu" in let Hv := fresh "Hv" in
        destruct Inl as [u [Hu Hv]]; [solve [fin] | solve [fin] | ];
        first [ exfalso; use_known; cbn in *; solve [fin]
              | exfalso; match goal with E : elock _ = Some ?n |- _ => assert (u = n) by congruence; subst u end;
                use_known; cbn in *; solve [fin]
              | exists u; split; [solve [fin]|]; inst_known; ucases u; use_known; cbn in *; solve [fin] ]
    end ].
Lemma vstep_inv s e s' : VInv s -> vstep s e = Some s' -> VInv s'.
Proof.
  intros I H.
  destruct e as [t k o|t r|t| |t ult|x| |t c|t flag v]; cbn [vstep] in H.
  all: repeat match type of H with
       | context [match ?X with _ => _ end] => destruct X eqn:?
       end; try discriminate.
  all: inversion H; subst s'; clear H.
  all: destruct I as [Il Iw Ind Iset Is2b Inl Ival Ins Iret Itr Igen].
  all: repeat match goal with
       | F : oeq _ _ = true |- _ => apply oeq_true in F
       | F : (_ =? _)%nat = true |- _ => apply Nat.eqb_eq in F; subst
       | F : Bool.eqb _ _ = true |- _ => apply eqb_prop in F
       | F : _ && _ = true |- _ => apply andb_true_iff in F; destruct F
       | F : (_ =? _)%Z = true |- _ => apply Z.eqb_eq in F
       end.
  all: constructor; vsimpl.
  all: try assumption.
  all: try solve [pw].
  all: try solve [nl].
  all: try solve [use_known; fin].
  all: try solve [wl_app].
  all: try solve [wl_wake].
  all: try solve [pwb].
  all: try solve [constructor].
Qed.

