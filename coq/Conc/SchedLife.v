(* Work-unit life cycle: invariants of every reachable state of the scheduler LTS
   (Conc/Sched.v) and the corollaries used by properties C01, C02, C11, C12.

   Everything here is pointwise in the unit: the inductive invariant is a predicate
   [good] on one unit record, preserved by every step for every unit ([step_good]).

   Two statements asked for in terms of SchedDefs.ost_ok / allowed_transition are FALSE
   of the model (and of the library): ABTI_ythread_schedule, when it finds a MIGRATE
   request on a popped (READY) unit, calls ABTI_pool_add_thread, which stores READY
   into a state word that already holds READY.  In the model: UPopped --EReqLoad site 1,
   m=true,c=false--> UCbS KYield 1 (ost still 0) --EState u 0--> UCbS KYield 2.
   See [ost_ok_refuted], [C12_transitions_refuted]; the true variants use [ost_ok']
   and [allowed_transition'] (= allowed_transition + the stutter READY->READY). *)
From Coq Require Import List Arith ZArith Lia Bool.
From ABT Require Import Conc.Sched Conc.SchedDefs.
Import ListNotations.

(* ---- adjusted predicates ---- *)

(* = SchedDefs.ost_ok except
     UNone          : o = 0 required (ost_ok: anything)          -- stronger
     UCbS KYield 1  : o = 0 or o = 1 (ost_ok: o = 1 only)        -- weaker: the migrate-at-pop path
                      enters UCbS KYield 1 from UPopped without storing RUNNING first *)
Definition ost_ok' (x : ustate) (o : Z) : bool :=
  match x with
  | UNone => Z.eqb o 0
  | UCreated | UQueued | UPopped | UChecked | UResuming => Z.eqb o 0
  | URunning | UFinished => Z.eqb o 1
  | UCbS KYield 1 => Z.eqb o 0 || Z.eqb o 1
  | UCbS k 2 => if yield_kind k then Z.eqb o 0 else Z.eqb o 1
  | UCbS _ _ => Z.eqb o 1
  | UBlocked | UHandoff => Z.eqb o 2
  | UCancelling => Z.eqb o 0 || Z.eqb o 1
  | UTerm | UFreed => Z.eqb o 3
  end.

(* = SchedDefs.allowed_transition + the stutter READY -> READY *)
Definition allowed_transition' (a b : Z) : bool :=
  allowed_transition a b || (Z.eqb a 0 && Z.eqb b 0).

(* the function has returned / exit was called, the unit is not TERMINATED yet *)
Definition exited (x : ustate) : bool :=
  match x with UFinished | UCbS KExit _ | UCbS KResumeExitTo _ => true | _ => false end.
(* ... or it is *)
Definition exiting (x : ustate) : bool :=
  match x with UFinished | UCbS KExit _ | UCbS KResumeExitTo _ | UTerm | UFreed => true | _ => false end.

Lemma ost_ok'_ost_ok x o : ost_ok' x o = true -> ost_ok x o = true \/ (x = UCbS KYield 1 /\ o = 0%Z).
Proof.
  destruct x as [| | | | | | |k n| | | | | |]; cbn; auto.
  destruct k; destruct n as [|[|[|n]]]; cbn; auto.
  intros H. apply orb_true_iff in H. destruct H as [H|H]; auto. apply Z.eqb_eq in H. auto.
Qed.
Lemma ost_ok_ost_ok' x o : ost_ok x o = true -> x <> UNone -> ost_ok' x o = true.
Proof.
  destruct x as [| | | | | | |k n| | | | | |]; cbn; auto; try congruence.
  destruct k; destruct n as [|[|[|n]]]; cbn; auto.
  intros H _. rewrite H. apply orb_true_r.
Qed.

(* ---- the inductive invariant: one unit record ---- *)
Record good (r : urec) : Prop := {
  g_start  : starts r = if Sched.fresh r then 0 else 1;
  g_fin_le : fins r <= 1;
  g_fin_ex : exited (ust r) = true -> fins r = 1;
  g_fin_st : fins r = 1 -> exiting (ust r) = true;
  g_fin_fr : fins r = 1 -> Sched.fresh r = false;
  g_ost    : ost_ok' (ust r) (ost r) = true;
  g_term   : is_term (ust r) = true -> fins r = 1 \/ rcancel r = true;
  g_canc   : ust r = UCancelling -> rcancel r = true
}.

Lemma beq3_true a b c a' b' c' : beq3 a b c a' b' c' = true -> a = a' /\ b = b' /\ c = c'.
Proof.
  unfold beq3. intros H. apply andb_true_iff in H. destruct H as [H H3].
  apply andb_true_iff in H. destruct H as [H1 H2]. apply eqb_prop in H1, H2, H3. auto.
Qed.

(* case analysis on an enabled step: H : step s e = Some s' with e already destructed *)
Ltac step_cases H :=
  cbn [step] in H;
  repeat match type of H with
  | context [match ?X with _ => _ end] => destruct X eqn:?
  end; try discriminate;
  inversion H; subst; clear H;
  repeat match goal with
  | H0 : context [match ?X with _ => _ end] |- _ => destruct X eqn:?; try discriminate
  end.

(* the updated unit(s) versus unit x *)
Ltac ucases x :=
  cbn [un set_u set_p]; unfold upd;
  repeat match goal with |- context [Nat.eqb x ?t] => destruct (Nat.eqb_spec x t); [subst x|] end.

Ltac proj_cbn :=
  cbn [ust ost starts fins Sched.fresh rcancel adopted
       with_ust with_ust_ost with_jw with_pool with_req with_link with_mig with_other with_jof with_cnt].

Lemma good_u0 : good u0.
Proof. constructor; cbn; auto; try discriminate; try lia. Qed.

Lemma step_good s e s' : step s e = Some s' -> forall x, good (un s x) -> good (un s' x).
Proof.
  intros H.
  destruct e; step_cases H.
  all: intros x G; ucases x; try exact G.
  all: destruct G as [Gs Gl Ge Gt Gf Go Gm Gc].
  all: constructor; proj_cbn.
  all: repeat match goal with E : ust ?r = _ |- _ => rewrite E in * end.
  all: cbn [exited exiting is_term ost_ok' yield_kind suspend_kind] in *.
  all: try assumption; try reflexivity; try discriminate; try lia.
  all: repeat match goal with k : cbk |- _ => destruct k end; cbn [yield_kind suspend_kind] in *; try discriminate.
  all: repeat match goal with H : beq3 _ _ _ _ _ _ = true |- _ => apply beq3_true in H; destruct H as [? [? ?]] end; subst.
  all: repeat match goal with H : Sched.fresh _ = _ |- _ => rewrite H in * end.
  all: repeat match goal with
       | H : (_ =? _)%Z = true |- _ => apply Z.eqb_eq in H
       | H : _ || _ = true |- _ => apply orb_true_iff in H; destruct H end.
  all: repeat match goal with H : ost _ = _ |- _ => rewrite H in * end.
  all: try assumption; try reflexivity; try discriminate; try lia; auto.
Qed.

(* ---- the invariant over states ---- *)
Definition InvLifeI (s : st) : Prop := forall u, good (un s u).

Lemma InvLifeI_init : InvLifeI init.
Proof. intros u. exact good_u0. Qed.

Lemma InvLifeI_step s e s' : InvLifeI s -> step s e = Some s' -> InvLifeI s'.
Proof. intros I H u. eapply step_good; eauto. Qed.

Theorem InvLifeI_reachable s : reachable s -> InvLifeI s.
Proof.
  revert s. apply reach_ind; [exact InvLifeI_init|].
  intros s e s' _ I H. eapply InvLifeI_step; eauto.
Qed.

Lemma life_good s u : reachable s -> good (un s u).
Proof. intros R. exact (InvLifeI_reachable s R u). Qed.

(* the invariant as requested (il_ost with ost_ok', see the header) *)
Record InvLife (s : st) : Prop := {
  il_start : forall u, starts (un s u) = if Sched.fresh (un s u) then 0 else 1;
  il_fin   : forall u, fins (un s u) <= 1 /\ (fins (un s u) = 1 -> Sched.fresh (un s u) = false);
  il_ost   : forall u, ost_ok' (ust (un s u)) (ost (un s u)) = true;
  il_term  : forall u, is_term (ust (un s u)) = true -> adopted (un s u) = false ->
               fins (un s u) = 1 \/ rcancel (un s u) = true;
  il_fresh_states : forall u, Sched.fresh (un s u) = true -> adopted (un s u) = false ->
               match ust (un s u) with UFinished | UCbS KExit _ | UCbS KResumeExitTo _ => False | _ => True end
}.

Lemma InvLifeI_InvLife s : InvLifeI s -> InvLife s.
Proof.
  intros I. constructor; intros u; destruct (I u) as [Gs Gl Ge Gt Gf Go Gm Gc]; auto.
  intros Hf _.
  assert (Hx : exited (ust (un s u)) = true -> False).
  { intros Hx. apply Ge in Hx. apply Gf in Hx. congruence. }
  destruct (ust (un s u)) as [| | | | | | |k n| | | | | |]; auto; try (apply Hx; reflexivity).
  destruct k; auto; apply Hx; reflexivity.
Qed.

Lemma InvLife_init : InvLife init.
Proof. apply InvLifeI_InvLife, InvLifeI_init. Qed.

(* InvLife alone is not inductive (it does not say that a unit with fins = 1 is past its function);
   the step lemma is therefore stated on the strengthening InvLifeI *)
Lemma InvLife_step s e s' : InvLifeI s -> step s e = Some s' -> InvLife s'.
Proof. intros I H. apply InvLifeI_InvLife. eapply InvLifeI_step; eauto. Qed.

Theorem InvLife_reachable s : reachable s -> InvLife s.
Proof. intros R. apply InvLifeI_InvLife, InvLifeI_reachable, R. Qed.

(* ---- the two refuted statements ---- *)
Definition tr_mig_at_pop : list ev :=
  [EInit 0 0 true false; EMigSt 0 1; EReqOr 0 2 false false false false 0; EPush 0 0 true;
   EPop 0 (Some 0) false; EReqLoad 0 1 false false true].

Theorem ost_ok_refuted : exists s u, reachable s /\ ost_ok (ust (un s u)) (ost (un s u)) = false.
Proof.
  destruct (run init tr_mig_at_pop) as [s|] eqn:E; [|vm_compute in E; discriminate].
  exists s, 0. split; [exists tr_mig_at_pop; exact E|].
  vm_compute in E. inversion E. reflexivity.
Qed.

Theorem C12_transitions_refuted : exists s u v s',
  reachable s /\ step s (EState u v) = Some s' /\ allowed_transition (ost (un s u)) v = false.
Proof.
  destruct (run init (tr_mig_at_pop ++ [EMigLd 0 1; ESetPool 0 1; EReqAnd 0 2])) as [s|] eqn:E;
    [|vm_compute in E; discriminate].
  destruct (step s (EState 0 0)) as [s'|] eqn:E';
    [|vm_compute in E; inversion E; subst s; vm_compute in E'; discriminate].
  exists s, 0, 0%Z, s'. split; [eexists; exact E|]. split; [exact E'|].
  vm_compute in E. inversion E. reflexivity.
Qed.

(* ================= corollaries ================= *)

(* ---- C01 ---- *)
Theorem C01_at_most_once s u : reachable s ->
  starts (un s u) <= 1 /\ fins (un s u) <= starts (un s u).
Proof.
  intros R. destruct (life_good s u R) as [Gs Gl _ _ Gf _ _ _].
  rewrite Gs. destruct (Sched.fresh (un s u)); [|lia].
  destruct (Nat.eq_dec (fins (un s u)) 1) as [E|E]; [apply Gf in E; discriminate|lia].
Qed.

Theorem C01_start_only_when_running s u s' : reachable s -> step s (EStart u) = Some s' ->
  ust (un s u) = URunning /\ Sched.fresh (un s u) = true /\ starts (un s' u) = 1.
Proof.
  intros R H. pose proof (g_start _ (life_good s u R)) as Gs. revert Gs.
  step_cases H. intros Gs. cbn [un set_u]. rewrite upd_same. cbn [starts].
  rewrite Gs. auto.
Qed.

(* ---- C12: the observable state word ---- *)

(* the store events write what their label says *)
Theorem C12_state_store s u v s' : step s (EState u v) = Some s' -> ost (un s' u) = v.
Proof. intros H. step_cases H; cbn [un set_u]; rewrite upd_same; reflexivity. Qed.

(* nothing but a state store, a creation or a revive changes the state word *)
Theorem C12_ost_only_by_events s e s' u : step s e = Some s' -> ost (un s' u) <> ost (un s u) ->
  (exists v, e = EState u v) \/ (exists p, e = ERevive u p) \/
  (exists p ult nmd, e = EInit u p ult nmd) \/ (exists p ult, e = EAdopt u p ult).
Proof.
  intros H. destruct e; step_cases H; ucases u; proj_cbn; intros Hne; try congruence.
  all: first [ left; eexists; reflexivity
             | right; left; eexists; reflexivity
             | right; right; left; do 3 eexists; reflexivity
             | right; right; right; do 2 eexists; reflexivity ].
Qed.

Theorem C12_transitions' s u v s' : reachable s -> step s (EState u v) = Some s' ->
  allowed_transition (ost (un s u)) v = true \/
  (ost (un s u) = 0%Z /\ v = 0%Z /\ ust (un s u) = UCbS KYield 1 /\ ust (un s' u) = UCbS KYield 2).
Proof.
  intros R H. destruct (life_good s u R) as [_ _ _ _ _ Go _ _]. revert Go.
  step_cases H; intros Go.
  all: repeat match goal with E : ust ?r = _ |- _ => rewrite E in * end.
  all: cbn [un set_u]; rewrite ?upd_same; proj_cbn.
  all: repeat match goal with k : cbk |- _ => destruct k end;
       cbn [ost_ok' yield_kind suspend_kind] in *; try discriminate.
  all: repeat match goal with H : context [match ?X with _ => _ end] |- _ => destruct X end.
  all: repeat match goal with
       | H : (_ =? _)%Z = true |- _ => apply Z.eqb_eq in H
       | H : _ || _ = true |- _ => apply orb_true_iff in H; destruct H end.
  all: repeat match goal with H : ost _ = _ |- _ => rewrite H in * end.
  all: try (left; reflexivity).
  all: right; auto.
Qed.

Theorem C12_transitions s u v s' : reachable s -> step s (EState u v) = Some s' ->
  allowed_transition' (ost (un s u)) v = true.
Proof.
  intros R H. unfold allowed_transition'.
  destruct (C12_transitions' s u v s' R H) as [E|[E1 [E2 _]]]; [rewrite E; reflexivity|].
  rewrite E1, E2. reflexivity.
Qed.

(* TERMINATED -> anything else happens only by ERevive (and then it is READY) *)
Theorem C12_revive_only_3_0 s e s' u : reachable s -> step s e = Some s' ->
  ost (un s u) = 3%Z -> ost (un s' u) <> 3%Z ->
  (exists p, e = ERevive u p) /\ ost (un s' u) = 0%Z.
Proof.
  intros R H. destruct (life_good s u R) as [_ _ _ _ _ Go _ _]. revert Go.
  destruct e; step_cases H; ucases u; proj_cbn; intros Go H3 Hne; try congruence.
  all: try (split; [eexists; reflexivity|reflexivity]).
  all: repeat match goal with E : ust ?r = _ |- _ => rewrite E in * end.
  all: repeat match goal with k : cbk |- _ => destruct k end.
  all: cbn [ost_ok' yield_kind] in Go; rewrite H3 in Go; cbn in Go; try discriminate.
Qed.

(* a unit comes into existence only by EInit (or EAdopt for the units that pre-exist the history) *)
Theorem C12_create_only_init s e s' u : step s e = Some s' ->
  ust (un s u) = UNone -> ust (un s' u) <> UNone ->
  (exists p ult nmd, e = EInit u p ult nmd /\ adopted (un s' u) = false) \/
  (exists p ult, e = EAdopt u p ult /\ adopted (un s' u) = true).
Proof.
  intros H. destruct e; step_cases H; ucases u; proj_cbn; intros Hn Hne; try congruence.
  all: first [ left; do 3 eexists; split; reflexivity
             | right; do 2 eexists; split; reflexivity ].
Qed.

(* ---- C12: TERMINATED is final ---- *)
Theorem C12_terminated_is_final s e s' u : reachable s -> is_term (ust (un s u)) = true ->
  step s e = Some s' ->
  is_term (ust (un s' u)) = true \/ (exists p, e = ERevive u p).
Proof.
  intros _ Ht H. revert Ht.
  destruct e; step_cases H; ucases u; proj_cbn; intros Ht; auto.
  all: try (right; eexists; reflexivity).
  all: repeat match goal with E : ust ?r = _ |- _ => rewrite E in * end; try discriminate; auto.
Qed.

(* stronger: the structural state of a terminated unit is changed by EFree (UTerm -> UFreed) and ERevive only *)
Theorem C12_terminated_untouched s e s' u : is_term (ust (un s u)) = true ->
  step s e = Some s' ->
  ust (un s' u) = ust (un s u) \/
  (e = EFree u /\ ust (un s u) = UTerm /\ ust (un s' u) = UFreed) \/
  (exists p, e = ERevive u p).
Proof.
  intros Ht H. revert Ht.
  destruct e; step_cases H; ucases u; proj_cbn; intros Ht; auto.
  all: try (right; right; eexists; reflexivity).
  all: try (right; left; auto; fail).
  all: repeat match goal with E : ust ?r = _ |- _ => rewrite E in * end; try discriminate; auto.
Qed.

Theorem C12_free_once s u s' : step s (EFree u) = Some s' ->
  ust (un s u) = UTerm /\ ust (un s' u) = UFreed.
Proof. intros H. step_cases H. cbn [un set_u]. rewrite upd_same. auto. Qed.

Theorem C12_free_once_freed s u : reachable s -> ust (un s u) = UFreed -> step s (EFree u) = None.
Proof. intros _ E. cbn [step]. rewrite E. reflexivity. Qed.

(* ---- C12: no slice after exit ---- *)
Theorem C12_exit_no_more_slice s e s' u : reachable s -> ust (un s u) = UFinished ->
  step s e = Some s' ->
  ust (un s' u) = UFinished \/ (exists n, ust (un s' u) = UCbS KExit n) \/
  (exists n, ust (un s' u) = UCbS KResumeExitTo n) \/ (ust (un s' u) = UTerm /\ isult (un s u) = false).
Proof.
  intros _ Ht H. revert Ht.
  destruct e; step_cases H; ucases u; proj_cbn; intros Ht; auto.
  all: repeat match goal with E : ust ?r = _ |- _ => rewrite E in * end; try discriminate; auto.
  all: try (right; left; eexists; reflexivity).
  all: try (right; right; left; eexists; reflexivity).
Qed.

(* once the function has returned (fins = 1), the unit is on the exit path or terminated;
   fins is reset only by ERevive *)
Theorem C12_exit_no_more_slice_inv s u : reachable s -> fins (un s u) = 1 -> exiting (ust (un s u)) = true.
Proof. intros R. apply (g_fin_st _ (life_good s u R)). Qed.

Theorem C12_exited_has_finished s u : reachable s -> exited (ust (un s u)) = true -> fins (un s u) = 1.
Proof. intros R. apply (g_fin_ex _ (life_good s u R)). Qed.

(* the exit path is closed under every event but ERevive *)
Theorem C12_exiting_closed s e s' u : exiting (ust (un s u)) = true -> step s e = Some s' ->
  exiting (ust (un s' u)) = true \/ (exists p, e = ERevive u p).
Proof.
  intros Ht H. revert Ht.
  destruct e; step_cases H; ucases u; proj_cbn; intros Ht; auto.
  all: try (right; eexists; reflexivity).
  all: repeat match goal with E : ust ?r = _ |- _ => rewrite E in * end; try discriminate; auto.
  all: repeat match goal with k : cbk |- _ => destruct k end; cbn in *; try discriminate; auto.
Qed.

(* ---- C12: cancellation ---- *)
Theorem C12_cancel_by_next_point s u j m s' : step s (EReqLoad u 1 j true m) = Some s' ->
  ust (un s' u) = UCancelling.
Proof. intros H. step_cases H; cbn [un set_u]; rewrite upd_same; reflexivity. Qed.

Theorem C12_cancelling_only_term s e s' u : reachable s -> ust (un s u) = UCancelling ->
  step s e = Some s' ->
  ust (un s' u) = UCancelling \/ ust (un s' u) = UTerm.
Proof.
  intros _ Ht H. revert Ht.
  destruct e; step_cases H; ucases u; proj_cbn; intros Ht; auto.
  all: repeat match goal with E : ust ?r = _ |- _ => rewrite E in * end; try discriminate; auto.
Qed.

Theorem C12_cancelling_has_request s u : reachable s -> ust (un s u) = UCancelling -> rcancel (un s u) = true.
Proof. intros R. apply (g_canc _ (life_good s u R)). Qed.

(* ---- C02 ---- *)
Definition publishes (e : ev) (u : nat) : Prop :=
  (exists p tail, e = EPush p u tail) \/ e = EState u 0 \/ e = EState u 2 \/
  (exists tgt, e = ELinkSt tgt u false).

Theorem C02_publish_only_after_save s e s' u : step s e = Some s' -> publishes e u ->
  post_save (ust (un s u)) = true.
Proof.
  intros H [[p [tail ->]]|[->|[->|[tgt ->]]]]; step_cases H.
  all: repeat match goal with E : ust ?r = _ |- _ => rewrite E in * end; try reflexivity; try discriminate.
  all: match goal with H : _ && (false || false) = true |- _ =>
         cbn [orb] in H; rewrite andb_false_r in H; discriminate end.
Qed.

(* ---- C11 ---- *)
Theorem C11_blocked_only_in_callback s u s' : step s (EState u 2) = Some s' ->
  exists k n, ust (un s u) = UCbS k n /\ suspend_kind k = true.
Proof. intros H. step_cases H; do 2 eexists; split; try eassumption; auto. Qed.

Theorem C11_once_per_resume s u s' : step s (EState u 0) = Some s' -> ust (un s u) = UBlocked ->
  ust (un s' u) = UResuming /\ step s' (EState u 0) = None.
Proof.
  intros H E. cbn [step] in H. rewrite E in H.
  destruct (Nat.eqb (migs (un s u)) 0); [|discriminate]. inversion H; subst s'; clear H.
  cbn [step un set_u]. rewrite upd_same. cbn [ust with_ust_ost migs].
  split; [reflexivity|]. destruct (Nat.eqb (migs (un s u)) 0); reflexivity.
Qed.

Theorem C11_run_needs_handover s u s' : step s (EState u 1) = Some s' ->
  (ust (un s u) = UChecked \/ ust (un s u) = UPopped \/ ust (un s u) = UCreated \/
   ust (un s u) = UBlocked \/ ust (un s u) = UHandoff) /\ ust (un s' u) = URunning.
Proof. intros H. step_cases H; cbn [un set_u]; rewrite upd_same; cbn [ust with_ust_ost]; tauto. Qed.

(* ---- for the non-vacuity examples: witnesses of [exists s, f = Some s /\ ...] by evaluation ---- *)
Ltac ex_witness :=
  repeat match goal with
  | |- exists s, ?f = Some s /\ _ =>
      let o := eval vm_compute in f in
      match o with Some ?w => exists w; split; [vm_compute; reflexivity|] end
  end; vm_compute; repeat split; try reflexivity; try discriminate.
