(* More about Conc/PopWait.v (C19, blocking pool pops):
     - FIFO order: a blocking pop that takes the head (fifo.c, fifo_wait.c,
       randws.c pool_pop_timedwait, randws.c pool_pop_wait without
       POOL_CONTEXT_POP_TAIL) returns the OLDEST unit nobody else has taken:
       every unit pushed before the returned one has gone to another consumer;
     - an empty-handed return is justified by an observation: at some instant
       during the call the pool was empty (the loop never gives up while units
       were there all the time);
   for any interleaving with pushers, other consumers and clock ticks. *)
From Coq Require Import List Arith Bool ZArith Lia.
From ABT Require Import Common.ListAux Conc.PopWait Conc.PopWaitProofs.
Import ListNotations.
Local Open Scope Z_scope.

(* the configurations in which the waiter pops the head *)
Definition head_cfg (c : cfg) : Prop := kind c <> VPopWait \/ from_tail c = false.

Lemma head_cfg_pop c l : head_cfg c -> pop_unit c l = pop_head l.
Proof.
  intros [H | H]; unfold pop_unit.
  - destruct (kind c); congruence.
  - rewrite H. destruct (kind c); reflexivity.
Qed.

(* the pool is what is left of the push order after a prefix has been taken;
   the taken prefix went to the other consumers, except the unit held by the
   waiter's result *)
Definition OInv (s : st) : Prop :=
  exists taken, pushed s = taken ++ pool s /\
    (forall v, In v taken -> In v (others s) \/ wloc s = PDone (Some v)) /\
    (forall u, wloc s = PDone (Some u) -> In u taken).

Lemma OInv_init c p0 t0 : OInv (pw_init c p0 t0).
Proof.
  exists []. cbn. repeat split; try tauto.
  intros u H. unfold pw_entry in H. destruct (kind c); discriminate.
Qed.

Lemma pop_head_some l u r : pop_head l = Some (u, r) -> l = u :: r.
Proof. destruct l; cbn; intros H; inversion H; reflexivity. Qed.

(* a waiter step that leaves the pool alone and does not return a unit *)
Lemma OInv_keep s p : OInv s -> (forall r, wloc s <> PDone r) -> (forall u, p <> PDone (Some u)) ->
  OInv (set_pc s p).
Proof.
  intros (tk & Hp & Ht & Hr) Hn Hpn. exists tk. cbn. repeat split; auto.
  - intros v Hv. left. destruct (Ht v Hv) as [H | H]; auto. exfalso. exact (Hn _ H).
  - intros u Hu. exfalso. exact (Hpn _ Hu).
Qed.

(* the waiter takes the head *)
Lemma OInv_take s u r : OInv s -> (forall x, wloc s <> PDone x) -> pool s = u :: r ->
  OInv (mkst r (clock s) (tstart s) (PDone (Some u)) (pushed s) (others s)).
Proof.
  intros (tk & Hp & Ht & Hr) Hn Hl. exists (tk ++ [u]). cbn. repeat split.
  - rewrite Hp, Hl, <- app_assoc. reflexivity.
  - intros v Hv. apply in_app_or in Hv. destruct Hv as [Hv | [Hv | []]].
    + left. destruct (Ht v Hv) as [H | H]; auto. exfalso. exact (Hn _ H).
    + right. subst. reflexivity.
  - intros x Hx. inversion Hx. subst. apply in_or_app. right. left. reflexivity.
Qed.

Lemma after_miss_not_some c u : after_miss c <> PDone (Some u).
Proof. unfold after_miss. destruct (kind c); discriminate. Qed.

Lemma wstep_OInv c s s' : head_cfg c -> OInv s -> wstep c s = Some s' -> OInv s'.
Proof.
  intros Hc HI Hs. unfold wstep in Hs.
  destruct (wloc s) eqn:Ep.
  - (* PTest *)
    destruct (is_nil (pool s)); inversion Hs; subst; clear Hs; apply OInv_keep; auto;
      try (intros; rewrite Ep; discriminate); try discriminate.
    apply after_miss_not_some.
  - (* PLocked *)
    rewrite (head_cfg_pop _ _ Hc) in Hs.
    destruct (pop_head (pool s)) as [[u r]|] eqn:Epop; inversion Hs; subst; clear Hs.
    + apply OInv_take; auto. { intros; rewrite Ep; discriminate. } now apply pop_head_some.
    + apply OInv_keep; auto. { intros; rewrite Ep; discriminate. } apply after_miss_not_some.
  - (* PClock *)
    assert (Hk : forall p, (forall u, p <> PDone (Some u)) -> OInv (set_pc s p)).
    { intros p Hp. apply OInv_keep; auto. intros; rewrite Ep; discriminate. }
    destruct (tstart s =? 0).
    + inversion Hs; subst; clear Hs.
      destruct HI as (tk & Hp & Ht & Hr). exists tk. cbn. repeat split; auto.
      * intros v Hv. left. destruct (Ht v Hv) as [H | H]; auto. rewrite Ep in H. discriminate.
      * intros u Hu. discriminate.
    + destruct (clock s - tstart s >? secs c); inversion Hs; subst; clear Hs; apply Hk; discriminate.
  - (* PSleep *)
    destruct (kind c); inversion Hs; subst; clear Hs; apply OInv_keep; auto;
      try (intros; rewrite Ep; discriminate); discriminate.
  - (* PClock2 *)
    destruct (clock s >? secs c); inversion Hs; subst; clear Hs; apply OInv_keep; auto;
      try (intros; rewrite Ep; discriminate); discriminate.
  - (* PEnter *)
    destruct (is_nil (pool s)).
    + inversion Hs; subst; clear Hs. apply OInv_keep; auto;
        try (intros; rewrite Ep; discriminate); discriminate.
    + destruct (pop_head (pool s)) as [[u r]|] eqn:Epop; inversion Hs; subst; clear Hs.
      apply OInv_take; auto. { intros; rewrite Ep; discriminate. } now apply pop_head_some.
  - (* PCondWait *)
    destruct (pop_head (pool s)) as [[u r]|] eqn:Epop; inversion Hs; subst; clear Hs.
    + apply OInv_take; auto. { intros; rewrite Ep; discriminate. } now apply pop_head_some.
    + apply OInv_keep; auto; try (intros; rewrite Ep; discriminate); discriminate.
  - discriminate.
Qed.

Lemma pw_step_OInv c s a s' : head_cfg c -> OInv s -> pw_step c s a = Some s' -> OInv s'.
Proof.
  intros Hc HI Hs. destruct a as [| u | | d]; cbn in Hs.
  - eapply wstep_OInv; eauto.
  - destruct (pw_in_b u (pushed s)); inversion Hs; subst; clear Hs.
    destruct HI as (tk & Hp & Ht & Hr). exists tk. cbn. repeat split; auto.
    rewrite Hp, <- app_assoc. reflexivity.
  - destruct (pop_head (pool s)) as [[u r]|] eqn:Epop; inversion Hs; subst; clear Hs.
    apply pop_head_some in Epop.
    destruct HI as (tk & Hp & Ht & Hr). exists (tk ++ [u]). cbn. repeat split.
    + rewrite Hp, Epop, <- app_assoc. reflexivity.
    + intros v Hv. apply in_app_or in Hv. destruct Hv as [Hv | [Hv | []]].
      * destruct (Ht v Hv) as [H | H]; auto. left. apply in_or_app. auto.
      * left. subst. apply in_or_app. right. left. reflexivity.
    + intros x Hx. apply in_or_app. left. auto.
  - destruct (0 <=? d); inversion Hs; subst; clear Hs.
    destruct HI as (tk & Hp & Ht & Hr). exists tk. cbn. repeat split; auto.
Qed.

Lemma pw_run_OInv c : forall acts s s', head_cfg c -> OInv s -> pw_run c s acts = Some s' -> OInv s'.
Proof.
  induction acts as [|a r IH]; cbn; intros s s' Hc HI Hr.
  - inversion Hr; subst; auto.
  - destruct (pw_step c s a) as [s1|] eqn:Es; [|discriminate].
    exact (IH _ _ Hc (pw_step_OInv _ _ _ _ Hc HI Es) Hr).
Qed.

(* FIFO order of a head-popping blocking pop: the unit it returned sits in the
   push order behind units that all went to other consumers, and none of them
   is still in the pool *)
Theorem popwait_fifo_order c p0 t0 acts s u : NoDup p0 -> head_cfg c ->
  pw_run c (pw_init c p0 t0) acts = Some s -> pw_result s = Some (Some u) ->
  exists pre post, pushed s = pre ++ u :: post /\
    (forall v, In v pre -> In v (others s) /\ ~ In v (pool s)).
Proof.
  intros Hnd Hc Hr Hres.
  assert (HP : PInv c s) by (eapply pw_run_inv; eauto using PInv_init).
  assert (HO : OInv s) by (eapply pw_run_OInv; eauto using OInv_init).
  unfold pw_result in Hres. destruct (wloc s) eqn:Ep; try discriminate.
  inversion Hres; subst; clear Hres.
  destruct HO as (tk & Hp & Ht & Hin).
  destruct (in_split u tk (Hin u Ep)) as (pre & post & Etk).
  exists pre, (post ++ pool s). split.
  - rewrite Hp, Etk, <- app_assoc. reflexivity.
  - intros v Hv.
    assert (Hnd' : NoDup (pre ++ u :: post ++ pool s)).
    { pose proof (v_nodup _ _ HP) as H. rewrite Hp, Etk, <- app_assoc in H. exact H. }
    assert (Hvu : v <> u).
    { intros E; subst. apply NoDup_remove_2 in Hnd'. apply Hnd'. apply in_or_app. auto. }
    split.
    + destruct (Ht v) as [H | H]; auto.
      * rewrite Etk. apply in_or_app. auto.
      * rewrite Ep in H. inversion H. congruence.
    + intros Hpool.
      (* v occurs in pre and in pool s: twice in pushed *)
      clear - Hnd' Hv Hpool.
      induction pre as [|x pre IH]; [destruct Hv|].
      cbn in Hnd'. inversion Hnd' as [|? ? Hx Hrest]; subst.
      destruct Hv as [E | Hv].
      * subst. apply Hx. apply in_or_app. right. right. apply in_or_app. auto.
      * apply IH; auto.
Qed.

(* ---------------------------------------------------------------------- *)
(* An empty-handed return rests on an observation of an empty pool. *)

(* locations the loop reaches only after a failed attempt *)
Definition missed (p : ppc) : Prop :=
  match p with PClock | PSleep | PClock2 | PCondWait | PDone None => True | _ => False end.

Lemma is_nil_true (l : list nat) : is_nil l = true -> l = [].
Proof. destruct l; cbn; congruence. Qed.

Lemma pw_step_missed c s a s' : pw_step c s a = Some s' -> missed (wloc s') ->
  missed (wloc s) \/ pool s = [].
Proof.
  intros Hs Hm. destruct a as [| u | | d]; cbn in Hs.
  - unfold wstep in Hs. destruct (wloc s) eqn:Ep; cbn; auto.
    + destruct (is_nil (pool s)) eqn:En; [right; now apply is_nil_true|].
      inversion Hs; subst. cbn in Hm. destruct Hm.
    + destruct (pop_unit c (pool s)) as [[u r]|] eqn:Epop.
      * inversion Hs; subst. cbn in Hm. destruct Hm.
      * right. eapply pop_unit_none; eauto.
    + destruct (is_nil (pool s)) eqn:En; [right; now apply is_nil_true|].
      destruct (pop_head (pool s)) as [[u r]|]; [|discriminate].
      inversion Hs; subst. cbn in Hm. destruct Hm.
    + discriminate.
  - destruct (pw_in_b u (pushed s)); inversion Hs; subst. cbn in Hm. auto.
  - destruct (pop_head (pool s)) as [[u r]|]; inversion Hs; subst. cbn in Hm. auto.
  - destruct (0 <=? d); inversion Hs; subst. cbn in Hm. auto.
Qed.

Lemma pw_run_missed c : forall acts s s', pw_run c s acts = Some s' -> missed (wloc s') ->
  missed (wloc s) \/
  exists a1 a2 s1, acts = a1 ++ a2 /\ pw_run c s a1 = Some s1 /\ pool s1 = [].
Proof.
  induction acts as [|a r IH]; cbn; intros s s' Hr Hm.
  - inversion Hr; subst; auto.
  - destruct (pw_step c s a) as [s1|] eqn:Es; [|discriminate].
    destruct (IH _ _ Hr Hm) as [H | (a1 & a2 & s2 & E & Hr1 & Hp)].
    + destruct (pw_step_missed _ _ _ _ Es H) as [H' | H']; auto.
      right. exists [], (a :: r), s. cbn. auto.
    + right. exists (a :: a1), a2, s2. cbn. rewrite Es. subst. auto.
Qed.

Theorem popwait_null_saw_empty c p0 t0 acts s :
  pw_run c (pw_init c p0 t0) acts = Some s -> pw_result s = Some None ->
  exists a1 a2 s1, acts = a1 ++ a2 /\ pw_run c (pw_init c p0 t0) a1 = Some s1 /\ pool s1 = [].
Proof.
  intros Hr Hres.
  assert (Hm : missed (wloc s)).
  { unfold pw_result in Hres. destruct (wloc s) as [| | | | | | |[x|]]; try discriminate; cbn; auto. }
  destruct (pw_run_missed _ _ _ _ Hr Hm) as [H | H]; auto.
  exfalso. cbn in H. unfold pw_entry in H. destruct (kind c); exact H.
Qed.

(* in particular: with no other consumer at work, a call on a non-empty pool
   returns a unit or is still running; it never returns empty-handed *)
Fixpoint no_other_pop (acts : list pw_act) : Prop :=
  match acts with
  | [] => True
  | PW_OtherPop :: _ => False
  | _ :: r => no_other_pop r
  end.

Lemma no_other_pop_app a1 a2 : no_other_pop (a1 ++ a2) -> no_other_pop a1.
Proof. induction a1 as [|a r IH]; cbn; auto. destruct a; auto. Qed.

Definition safe_nonempty (s : st) : Prop :=
  (pool s <> [] /\ ~ missed (wloc s)) \/ exists u, wloc s = PDone (Some u).

Lemma pw_step_nonempty c s a s' : a <> PW_OtherPop -> safe_nonempty s ->
  pw_step c s a = Some s' -> safe_nonempty s'.
Proof.
  intros Ha HS Hs. destruct a as [| u | | d]; cbn in Hs.
  - destruct HS as [[Hp Hm] | (u & Hu)].
    2:{ unfold wstep in Hs. rewrite Hu in Hs. discriminate. }
    unfold wstep in Hs. destruct (wloc s) eqn:Ep; cbn in Hm; try (exfalso; apply Hm; exact I).
    + destruct (is_nil (pool s)) eqn:En; [apply is_nil_true in En; contradiction|].
      inversion Hs; subst. left. cbn. auto.
    + destruct (pop_unit c (pool s)) as [[u r]|] eqn:Epop.
      * inversion Hs; subst. right. cbn. eauto.
      * apply pop_unit_none in Epop. contradiction.
    + destruct (is_nil (pool s)) eqn:En; [apply is_nil_true in En; contradiction|].
      destruct (pop_head (pool s)) as [[u r]|]; [|discriminate].
      inversion Hs; subst. right. cbn. eauto.
    + discriminate.
  - destruct (pw_in_b u (pushed s)); inversion Hs; subst.
    destruct HS as [[Hp Hm] | (x & Hx)]; [left | right; cbn; eauto].
    cbn. split; auto. destruct (pool s); discriminate.
  - congruence.
  - destruct (0 <=? d); inversion Hs; subst.
    destruct HS as [[Hp Hm] | (x & Hx)]; [left | right]; cbn; eauto.
Qed.

Lemma pw_run_nonempty c : forall acts s s', no_other_pop acts -> safe_nonempty s ->
  pw_run c s acts = Some s' -> safe_nonempty s'.
Proof.
  induction acts as [|a r IH]; cbn; intros s s' Hn HS Hr.
  - inversion Hr; subst; auto.
  - destruct (pw_step c s a) as [s1|] eqn:Es; [|discriminate].
    assert (Ha : a <> PW_OtherPop /\ no_other_pop r).
    { destruct a; try (split; [discriminate | exact Hn]). destruct Hn. }
    eapply IH; [apply Ha | | exact Hr]. eapply pw_step_nonempty; eauto. apply Ha.
Qed.

Theorem popwait_nonempty_never_null c p0 t0 acts s : p0 <> [] -> no_other_pop acts ->
  pw_run c (pw_init c p0 t0) acts = Some s -> pw_result s <> Some None.
Proof.
  intros Hp Hn Hr Hres.
  assert (H0 : safe_nonempty (pw_init c p0 t0)).
  { left. cbn. split; auto. unfold pw_entry. destruct (kind c); cbn; auto. }
  pose proof (pw_run_nonempty c _ _ _ Hn H0 Hr) as [[_ Hm] | (u & Hu)].
  - apply Hm. unfold pw_result in Hres. destruct (wloc s) as [| | | | | | |[x|]]; try discriminate. exact I.
  - unfold pw_result in Hres. rewrite Hu in Hres. discriminate.
Qed.
