(* Proofs about Conc/XstreamCtx.v.

   The control part [fstate] of the LTS is finite.  The set [R] of its reachable
   states is computed once ([bfs]); that [R] contains the initial state and is
   closed under every action is *checked* by the kernel ([R_closed], by
   vm_compute), and [reach_in_R] lifts this to: every state of every run, of
   any length, under any interleaving and any controller program, is in [R].
   Properties of single states are then decided on [R]; the ghost counters are
   handled by an ordinary induction over runs. *)
From Coq Require Import List Arith Bool Lia.
From ABT Require Import Conc.XstreamCtx.
Import ListNotations.

(* ---- decidable equality ---- *)
Definition cst_eq_dec (a b : cst) : {a = b} + {a <> b}. Proof. decide equality. Defined.
Definition role_eq_dec (a b : role) : {a = b} + {a <> b}. Proof. decide equality. Defined.
Definition cop_eq_dec (a b : cop) : {a = b} + {a <> b}. Proof. decide equality. Defined.
Definition spc_eq_dec (a b : spc) : {a = b} + {a <> b}.
Proof. decide equality. apply bool_dec. Defined.
Definition cpc_eq_dec (a b : cpc) : {a = b} + {a <> b}.
Proof. decide equality; apply cop_eq_dec. Defined.
Definition fstate_eq_dec (a b : fstate) : {a = b} + {a <> b}.
Proof.
  decide equality; try apply bool_dec.
  - apply cpc_eq_dec. - apply spc_eq_dec.
  - decide equality. apply role_eq_dec.
  - apply cst_eq_dec.
Defined.

Definition mem (s : fstate) (l : list fstate) : bool := if in_dec fstate_eq_dec s l then true else false.
Lemma mem_In s l : mem s l = true <-> In s l.
Proof. unfold mem. destruct (in_dec fstate_eq_dec s l); intuition congruence. Qed.

Definition all_acts : list action :=
  [AStep RS; AStep RC; ASpur RS; ASpur RC; ACall OJoin; ACall ORevive; ACall OFree].
Lemma all_acts_complete a : In a all_acts.
Proof. destruct a as [[]|[]|[]]; cbn; tauto. Qed.

Definition succs (s : fstate) : list fstate :=
  flat_map (fun a => match fstep true s a with Some (s', _) => [s'] | None => [] end) all_acts.

Lemma succs_spec s a s' l : fstep true s a = Some (s', l) -> In s' (succs s).
Proof.
  intros H. unfold succs. apply in_flat_map. exists a. split; [apply all_acts_complete|].
  rewrite H. left; reflexivity.
Qed.

(* ---- exploration (untrusted: only its result is checked) ---- *)
Fixpoint add_new (xs seen : list fstate) : list fstate * list fstate :=
  match xs with
  | [] => ([], seen)
  | x :: xs' =>
    if mem x seen then add_new xs' seen
    else let (n, sn) := add_new xs' (x :: seen) in (x :: n, sn)
  end.

Fixpoint bfs (fuel : nat) (todo seen : list fstate) : list fstate :=
  match fuel with
  | O => seen
  | S fuel' =>
    match todo with
    | [] => seen
    | s :: todo' =>
      let (n, seen') := add_new (succs s) seen in
      bfs fuel' (todo' ++ n) seen'
    end
  end.

Definition R : list fstate := Eval vm_compute in bfs 100000 [finit] [finit].

Definition closed (l : list fstate) : bool :=
  forallb (fun s => forallb (fun s' => mem s' l) (succs s)) l.

Lemma R_closed : closed R = true.
Proof. vm_compute. reflexivity. Qed.
Lemma R_init : In finit R.
Proof. apply mem_In. vm_compute. reflexivity. Qed.

(* ---- runs of the finite part ---- *)
Fixpoint frun (s : fstate) (acts : list action) : option fstate :=
  match acts with
  | [] => Some s
  | a :: acts' => match fstep true s a with Some (s', _) => frun s' acts' | None => None end
  end.

Lemma frun_in_R : forall acts s s', In s R -> frun s acts = Some s' -> In s' R.
Proof.
  induction acts as [|a acts IH]; cbn; intros s s' Hs H.
  - congruence.
  - destruct (fstep true s a) as [[s1 l]|] eqn:E; [|discriminate].
    apply (IH s1); auto.
    pose proof R_closed as Hc. unfold closed in Hc. rewrite forallb_forall in Hc.
    specialize (Hc s Hs). rewrite forallb_forall in Hc.
    apply mem_In, Hc. eapply succs_spec; eauto.
Qed.

Lemma run_fin : forall acts s s', run true s acts = Some s' -> frun (fin s) acts = Some (fin s').
Proof.
  induction acts as [|a acts IH]; cbn; intros s s' H.
  - congruence.
  - unfold step in H. destruct (fstep true (fin s) a) as [[f l]|] eqn:E; [|discriminate].
    apply IH in H. destruct l as [| [] | | | | | | | | | | | | |]; exact H.
Qed.

Theorem reach_in_R : forall acts s, run true init acts = Some s -> In (fin s) R.
Proof. intros acts s H. apply run_fin in H. eapply frun_in_R; eauto. apply R_init. Qed.

(* every state property decided on R holds in every reachable state *)
Lemma inv_by_R (P : fstate -> bool) :
  forallb P R = true -> forall acts s, run true init acts = Some s -> P (fin s) = true.
Proof.
  intros HP acts s H. rewrite forallb_forall in HP. apply HP. eapply reach_in_R; eauto.
Qed.

(* ---- state invariants ---- *)
Definition s_parked (p : spc) : bool :=
  match p with S_Wait | S_Sleep | S_Woken | S_Loop => true | _ => false end.
Definition s_holds (p : spc) : bool :=
  match p with
  | S_Check | S_Signal | S_SetWaiting | S_Wait | S_Loop | S_Decide | S_Unlock _ => true
  | _ => false
  end.
Definition c_holds (p : cpc) : bool :=
  match p with
  | C_J_Check | C_J_SetReq | C_J_Wait | C_J_Loop | C_J_Assert | C_R_Assert | C_R_Set
  | C_F_Assert | C_F_Set | C_Signal _ | C_Unlock _ => true
  | _ => false
  end.
Definition mtx_is (s : fstate) (r : role) : bool :=
  match mtx s, r with Some RS, RS | Some RC, RC => true | _, _ => false end.
Definition implb' (a b : bool) : bool := if a then b else true.
Infix "==>" := implb' (at level 55, right associativity).

(* no ABTI_ASSERT fails, no pthread misuse, start/revive accounting never broken *)
Definition inv_noerr (s : fstate) : bool := negb (err s).
(* every read/write of p_ctx->state, every signal, wait and unlock happens with
   the mutex held by the party doing it; and nobody else holds it *)
Definition inv_mutex (s : fstate) : bool :=
  (s_holds (ps s) ==> mtx_is s RS) && (c_holds (pc s) ==> mtx_is s RC) &&
  (mtx_is s RS ==> s_holds (ps s)) && (mtx_is s RC ==> c_holds (pc s)).
(* no lost wake-up: a party that is asleep and has not been woken is still
   waiting for a state that has not arrived -- or the state has just been
   written by the other party, which still holds the mutex and whose very next
   instruction is the pthread_cond_signal (signal owed under the mutex) *)
Definition inv_nolost (s : fstate) : bool :=
  (match ps s with
   | S_Sleep => cst_eqb (cs s) WAITING ||
                match pc s with C_Signal _ => mtx_is s RC | _ => false end
   | _ => true end) &&
  (match pc s with C_J_Sleep => cst_eqb (cs s) REQ_JOIN | _ => true end).
(* when join returns (and until the next revive / free) the stream function has
   returned, the native thread is parked in its wait loop, no start is owed *)
Definition join_returned (s : fstate) : bool :=
  match pc s with
  | C_Ret OJoin => true
  | C_Idle => joined s
  | _ => false
  end.
Definition inv_join (s : fstate) : bool :=
  join_returned s ==> (s_parked (ps s) && cst_eqb (cs s) WAITING && negb (pending s)).
(* after pthread_join in free the native thread is gone; and it is gone only
   if free asked for it *)
Definition inv_free (s : fstate) : bool :=
  (match pc s with C_F_CondDestroy | C_F_MutexDestroy | C_Ret OFree | C_Done =>
     match ps s with S_Dead => true | _ => false end | _ => true end) &&
  (match ps s with S_Ret | S_Dead | S_Unlock false => cst_eqb (cs s) REQ_TERMINATE | _ => true end).
(* thread_f runs only in state RUNNING / REQ_JOIN *)
Definition inv_running (s : fstate) : bool :=
  match ps s with
  | S_Call | S_Run => cst_eqb (cs s) RUNNING || cst_eqb (cs s) REQ_JOIN
  | _ => true
  end.

Definition inv_all (s : fstate) : bool :=
  inv_noerr s && inv_mutex s && inv_nolost s && inv_join s && inv_free s && inv_running s.

Lemma inv_all_R : forallb inv_all R = true.
Proof. vm_compute. reflexivity. Qed.

Theorem inv_all_reach : forall acts s, run true init acts = Some s -> inv_all (fin s) = true.
Proof. exact (inv_by_R inv_all inv_all_R). Qed.

(* ---- ghost counters ---- *)
Definition b2n (b : bool) : nat := if b then 1 else 0.
Definition in_f (p : spc) : bool := match p with S_Run => true | _ => false end.

Lemma run_snoc : forall acts s a s',
  run true s (acts ++ [a]) = Some s' ->
  exists s1, run true s acts = Some s1 /\ step true s1 a = Some s'.
Proof.
  induction acts as [|b acts IH]; cbn; intros s a s' H.
  - destruct (step true s a) eqn:E; [|discriminate]. exists s. split; congruence.
  - destruct (step true s b) eqn:E; [|discriminate]. apply IH in H. exact H.
Qed.

Lemma run_app : forall a1 a2 s s1 s2,
  run true s a1 = Some s1 -> run true s1 a2 = Some s2 -> run true s (a1 ++ a2) = Some s2.
Proof.
  induction a1 as [|a a1 IH]; cbn; intros.
  - congruence.
  - destruct (step true s a); [|discriminate]. eapply IH; eauto.
Qed.

Definition cnt_ok (s : state) : Prop :=
  runs s = rets s + b2n (in_f (ps (fin s))) /\
  runs s + b2n (pending (fin s)) = 1 + revs s.

(* effect of one transition on the ghost flags, decided on R x actions *)
Definition dcall (l : label) : nat := match l with LFCall => 1 | _ => 0 end.
Definition dret (l : label) : nat := match l with LFRet => 1 | _ => 0 end.
Definition drev (l : label) : nat := match l with LSet RUNNING => 1 | _ => 0 end.

Definition trans_ok (f : fstate) (a : action) : bool :=
  match fstep true f a with
  | None => true
  | Some (f', l) =>
    Nat.eqb (dcall l + b2n (in_f (ps f))) (dret l + b2n (in_f (ps f'))) &&
    Nat.eqb (dcall l + b2n (pending f')) (b2n (pending f) + drev l)
  end.

Lemma trans_ok_R : forallb (fun f => forallb (trans_ok f) all_acts) R = true.
Proof. vm_compute. reflexivity. Qed.

Lemma count_spec s f l :
  fin (count s f l) = f /\ runs (count s f l) = runs s + dcall l /\
  rets (count s f l) = rets s + dret l /\ revs (count s f l) = revs s + drev l.
Proof. destruct l as [| [] | | | | | | | | | | | | |]; cbn; repeat split; lia. Qed.

Lemma cnt_step s a s' :
  In (fin s) R -> step true s a = Some s' -> cnt_ok s -> cnt_ok s'.
Proof.
  unfold step, cnt_ok. intros HR H [H1 H2].
  pose proof trans_ok_R as T. rewrite forallb_forall in T. specialize (T _ HR).
  rewrite forallb_forall in T. specialize (T a (all_acts_complete a)). unfold trans_ok in T.
  destruct (fstep true (fin s) a) as [[f l]|]; [|discriminate].
  inversion H; subst; clear H.
  destruct (count_spec s f l) as (-> & -> & -> & ->).
  apply andb_true_iff in T. destruct T as [T1 T2].
  apply Nat.eqb_eq in T1. apply Nat.eqb_eq in T2. clear HR. lia.
Qed.

Theorem cnt_reach : forall acts s, run true init acts = Some s -> cnt_ok s.
Proof.
  intros acts. induction acts as [|a acts IH] using rev_ind; intros s H.
  - cbn in H. inversion H; subst. split; reflexivity.
  - apply run_snoc in H. destruct H as (s1 & Hr & Hs).
    eapply cnt_step; eauto. eapply reach_in_R; eauto.
Qed.

(* ---- can always finish, without relying on spurious wake-ups ---- *)
Definition succs_ns (s : fstate) : list fstate :=
  flat_map (fun a => if is_spur a then [] else
                     match fstep true s a with Some (s', _) => [s'] | None => [] end) all_acts.

(* W_k: states from which a final state is reachable in <= k non-spurious steps *)
Fixpoint wins (k : nat) : list fstate :=
  match k with
  | O => filter final R
  | S k' => let w := wins k' in
            filter (fun s => mem s w || existsb (fun s' => mem s' w) (succs_ns s)) R
  end.

Lemma succs_ns_spec s s' : In s' (succs_ns s) ->
  exists a l, is_spur a = false /\ fstep true s a = Some (s', l).
Proof.
  unfold succs_ns. rewrite in_flat_map. intros (a & _ & H).
  destruct (is_spur a) eqn:Es; [destruct H|].
  destruct (fstep true s a) as [[s1 l]|] eqn:E; [|destruct H].
  destruct H as [<-|[]]. eauto.
Qed.

Lemma wins_sound : forall k s, In s (wins k) ->
  exists acts s', forallb (fun a => negb (is_spur a)) acts = true /\
                  frun s acts = Some s' /\ final s' = true.
Proof.
  induction k as [|k IH]; cbn [wins]; intros s H; apply filter_In in H; destruct H as [HR H].
  - exists [], s. cbn. auto.
  - apply orb_true_iff in H. destruct H as [H|H].
    + apply mem_In in H. auto.
    + apply existsb_exists in H. destruct H as (s1 & Hin & Hm). apply mem_In in Hm.
      destruct (succs_ns_spec _ _ Hin) as (a & l & Hs & Hst).
      destruct (IH _ Hm) as (acts & s' & Ha & Hr & Hf).
      exists (a :: acts), s'. cbn. rewrite Hs, Hst. auto.
Qed.

Definition WIN : list fstate := Eval vm_compute in wins 80.
Lemma WIN_eq : WIN = wins 80. Proof. vm_compute. reflexivity. Qed.
Lemma WIN_all : forallb (fun s => mem s WIN) R = true.
Proof. vm_compute. reflexivity. Qed.

(* lift a finite run to a run with counters *)
Lemma frun_lift : forall acts s f', frun (fin s) acts = Some f' ->
  exists s', run true s acts = Some s' /\ fin s' = f'.
Proof.
  induction acts as [|a acts IH]; cbn; intros s f' H.
  - exists s. split; congruence.
  - unfold step. destruct (fstep true (fin s) a) as [[f l]|] eqn:E; [|discriminate].
    destruct (IH (count s f l) f') as (s' & Hr & Hf).
    + destruct l as [| [] | | | | | | | | | | | | |]; exact H.
    + exists s'. auto.
Qed.

Lemma WIN_sound : forall s, In s WIN ->
  exists acts s', forallb (fun a => negb (is_spur a)) acts = true /\
                  frun s acts = Some s' /\ final s' = true.
Proof. rewrite WIN_eq. apply wins_sound. Qed.

Theorem can_finish : forall acts s, run true init acts = Some s ->
  exists acts' s', forallb (fun a => negb (is_spur a)) acts' = true /\
                   run true s acts' = Some s' /\ final (fin s') = true.
Proof.
  intros acts s H. pose proof (reach_in_R _ _ H) as HR.
  pose proof WIN_all as HW. rewrite forallb_forall in HW. specialize (HW _ HR).
  apply mem_In in HW. apply WIN_sound in HW.
  destruct HW as (acts' & f' & Ha & Hr & Hf).
  destruct (frun_lift _ _ _ Hr) as (s' & Hr' & Hfin).
  exists acts', s'. rewrite Hfin. repeat split; assumption.
Qed.

(* ---- the recorded-history replay only accepts runs of the LTS ---- *)
Lemma advance_frun : forall fuel s l s', advance fuel s l = Some s' ->
  exists acts, frun s acts = Some s'.
Proof.
  induction fuel as [|fuel IH]; cbn; intros s l s' H; [discriminate|].
  destruct (fstep true s (act_for s l)) as [[s1 l1]|] eqn:E; [|discriminate].
  destruct (visible l1).
  - destruct (label_eqb l1 l); [|discriminate]. inversion H; subst.
    exists [act_for s l]. cbn. rewrite E. reflexivity.
  - destruct (IH _ _ _ H) as (acts & Ha). exists (act_for s l :: acts). cbn. rewrite E. exact Ha.
Qed.

Lemma frun_app : forall a1 a2 s s1 s2,
  frun s a1 = Some s1 -> frun s1 a2 = Some s2 -> frun s (a1 ++ a2) = Some s2.
Proof.
  induction a1 as [|a a1 IH]; cbn; intros.
  - congruence.
  - destruct (fstep true s a) as [[? ?]|]; [|discriminate]. eapply IH; eauto.
Qed.

Theorem replay_is_run : forall h i s s', replay i s h = VOk s' ->
  exists acts, frun s acts = Some s'.
Proof.
  induction h as [|[[l sm] hd] h IH]; intros i s s' H; cbn [replay] in H.
  - inversion H; subst. exists []. reflexivity.
  - destruct (negb _); [discriminate|].
    destruct (advance 8 s l) as [s1|] eqn:E; [|discriminate].
    destruct (err s1); [discriminate|].
    destruct (_ && _); [|discriminate].
    destruct (advance_frun _ _ _ _ E) as (a1 & H1).
    destruct (IH _ _ _ H) as (a2 & H2).
    exists (a1 ++ a2). eapply frun_app; eauto.
Qed.

(* ---- the protocol theorem ---- *)
Theorem ctx_protocol : forall acts s, run true init acts = Some s ->
  let f := fin s in
  (* no ABTI_ASSERT of abtd_stream.c fails, no condition variable is destroyed
     under a sleeper, no mutex destroyed while held *)
  err f = false /\
  (* when join returns (and until the next revive/free): the stream function
     has returned as often as it was called, it was called exactly once for
     the creation and once per revive, the native thread is parked in WAITING *)
  (join_returned f = true ->
     rets s = runs s /\ runs s = 1 + revs s /\ cs f = WAITING /\ s_parked (ps f) = true) /\
  (* always: calls = returns (+1 while inside), and calls + owed start = 1 + revives:
     a revive never causes a second start, and no start happens without one *)
  (runs s = rets s + b2n (in_f (ps f)) /\ runs s + b2n (pending f) = 1 + revs s) /\
  (* free: after pthread_join the native thread has finished; it finishes only
     on REQ_TERMINATE *)
  inv_free f = true /\
  (* every access to p_ctx->state, every signal / wait / unlock is made by the
     mutex holder; thread_f runs only in RUNNING / REQ_JOIN *)
  inv_mutex f = true /\ inv_running f = true /\
  (* no lost wake-up (safety form) *)
  inv_nolost f = true /\
  (* no party sleeps forever: completion (context freed, thread finished) is
     reachable from here without any spurious wake-up *)
  (exists acts' s', forallb (fun a => negb (is_spur a)) acts' = true /\
                    run true s acts' = Some s' /\ final (fin s') = true).
Proof.
  intros acts s H f.
  pose proof (inv_all_reach _ _ H) as I. unfold inv_all in I. fold f in I.
  rewrite !andb_true_iff in I. destruct I as (((((I1 & I2) & I3) & I4) & I5) & I6).
  destruct (cnt_reach _ _ H) as [C1 C2]. fold f in C1, C2.
  unfold inv_noerr in I1. apply negb_true_iff in I1.
  split; [exact I1|]. split.
  - intros J. unfold inv_join in I4. rewrite J in I4. cbn in I4.
    rewrite !andb_true_iff in I4. destruct I4 as ((P & Q) & R).
    apply negb_true_iff in R. rewrite R in C2. cbn in C2.
    assert (in_f (ps f) = false) as E by (destruct (ps f); cbn in P |- *; congruence).
    rewrite E in C1. cbn in C1.
    repeat split; try lia; auto. destruct (cs f); cbn in Q; congruence.
  - split; [split; assumption|]. repeat split; auto. apply (can_finish _ _ H).
Qed.

(* non-vacuity: a complete life: run, join, revive, run again, join, free *)
Definition life : list action :=
  [AStep RS; AStep RS; AStep RS; AStep RS; AStep RS; AStep RS;          (* f runs, returns; WAITING; sleeps *)
   ACall OJoin; AStep RC; AStep RC; AStep RC; AStep RC; AStep RC;       (* join finds WAITING *)
   ACall ORevive; AStep RC; AStep RC; AStep RC; AStep RC; AStep RC; AStep RC;
   ACall OJoin; AStep RC; AStep RC; AStep RC; AStep RC;                 (* join before the thread woke: REQ_JOIN, sleeps *)
   AStep RS; AStep RS; AStep RS; AStep RS;                              (* thread wakes, sees REQ_JOIN, restarts *)
   AStep RS; AStep RS; AStep RS; AStep RS; AStep RS; AStep RS; AStep RS; (* f again; signal; WAITING; sleeps *)
   AStep RC; AStep RC; AStep RC; AStep RC; AStep RC;                    (* join returns *)
   ACall OFree; AStep RC; AStep RC; AStep RC; AStep RC; AStep RC;       (* REQ_TERMINATE, signal, unlock *)
   AStep RS; AStep RS; AStep RS; AStep RS; AStep RS;                    (* thread exits *)
   AStep RC; AStep RC; AStep RC; AStep RC].                             (* pthread_join, destroy, done *)

Example life_runs :
  match run true init life with
  | Some s => final (fin s) = true /\ runs s = 2 /\ rets s = 2 /\ revs s = 1 /\ err (fin s) = false
  | None => False
  end.
Proof. vm_compute. repeat split; reflexivity. Qed.

(* a spurious wake-up of the joiner is harmless: it re-checks and sleeps again *)
Example spurious_join :
  match run true init [ACall OJoin; AStep RC; AStep RC; AStep RC; AStep RC; ASpur RC; AStep RC; AStep RC] with
  | Some s => pc (fin s) = C_J_Wait /\ cs (fin s) = REQ_JOIN /\ err (fin s) = false
  | None => False
  end.
Proof. vm_compute. repeat split; reflexivity. Qed.

(* the caller protocol matters: a revive that is not preceded by a join (e.g.
   of a stream that terminated by itself) can hit ABTI_ASSERT(state == WAITING) *)
Example revive_without_join_asserts :
  match run false init [ACall ORevive; AStep RC; AStep RC] with
  | Some s => err (fin s) = true
  | None => False
  end.
Proof. vm_compute. reflexivity. Qed.
