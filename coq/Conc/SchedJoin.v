(* The join / termination handshake of the scheduler LTS (Conc/Sched.v):
   ABTI_ythread_atomic_get_joiner / ABTI_ythread_exit / ABTI_ythread_resume_joiner
   (include/abti_ythread.h), thread_join / thread_join_futexwait /
   thread_join_yield_thread (thread.c), ABTI_ythread_callback_suspend_join (ythread.c).

   Invariant [InvJoin] of every reachable state (any number of units, pools,
   joiners, any interleaving), and the C03 / C12(joiner) corollaries. *)
From Coq Require Import List Arith ZArith Lia Bool.
From ABT Require Import Common.ListAux Conc.Sched Conc.SchedDefs.
Import ListNotations.

(* ---- predicates ---- *)

(* the unit has passed the point of no return of its termination: the exit callback
   has been entered on its behalf, or TERMINATED has been stored *)
Definition exiting (x : ustate) : bool :=
  match x with
  | UCbS KExit _ | UCbS KResumeExitTo _ | UTerm | UFreed => true
  | _ => false
  end.

(* the terminating side is at work: function returned / cancel request seen, or later *)
Definition terminating (x : ustate) : bool :=
  match x with UFinished | UCancelling => true | _ => exiting x end.

(* the terminating side has decided who its joiner is (none, or the one read from p_link) *)
Definition jw_read (j : jwake) : bool :=
  match j with JWNone | JWDone | JWHave _ => true | _ => false end.

(* the only structural state in which a migration request is being handled (ABTI_thread_handle_request
   inside a callback, after the request load and before the state store / counter update) *)
Definition mig_stage (x : ustate) : bool := match x with UCbS _ 1 => true | _ => false end.

(* ---- the per-unit invariant ---- *)
Record uinv (r : urec) : Prop := {
  (* the state word says TERMINATED exactly in the structural states UTerm / UFreed *)
  u_ost  : ost r = 3%Z <-> is_term (ust r) = true;
  (* a registered joiner has set the JOIN bit *)
  u_jof  : forall j, jof r = Some j -> rjoin r = true;
  (* p_link holds the registered joiner, nobody else *)
  u_link : forall j, link r = Some j -> jof r = Some j;
  (* JOIN set: by a registered joiner, or by the terminating side that came first *)
  u_rj   : rjoin r = true -> (exists j, jof r = Some j) \/ jw r = JWNone;
  (* terminating side's fetch_or came first: nobody registered, nobody will *)
  u_none : jw r = JWNone -> rjoin r = true /\ jof r = None;
  (* terminating side's fetch_or found JOIN set *)
  u_spin : jw r = JWSpin -> rjoin r = true;
  (* the joiner the terminating side works on is the one published in p_link *)
  u_have : forall j, jw r = JWHave j -> link r = Some j;
  u_done : jw r = JWDone -> exists j, link r = Some j;
  (* a ULT cannot enter the exit callback / become TERMINATED before it has settled who its joiner is *)
  u_exit : isult r = true -> exiting (ust r) = true -> jw_read (jw r) = true;
  (* the handshake state only moves on the terminating side *)
  u_jw0  : jw r <> JW0 -> terminating (ust r) = true;
  (* migration handling is in progress only inside a callback: never for a running, blocked,
     finished or cancelled unit *)
  u_migs : migs r <> 0 -> mig_stage (ust r) = true
}.

Record InvJoin (s : st) : Prop := {
  ij_u    : forall u, uinv (un s u);
  (* an actor's "I have seen TERMINATED" is still true of the unit *)
  ij_seen : forall a u, seen s a u = true -> ost (un s u) = 3%Z
}.

(* ---- small lemmas ---- *)
Lemma beq3_true a b c a' b' c' : beq3 a b c a' b' c' = true -> a = a' /\ b = b' /\ c = c'.
Proof.
  unfold beq3. intros H. apply andb_true_iff in H. destruct H as [H H3].
  apply andb_true_iff in H. destruct H as [H1 H2].
  apply eqb_prop in H1, H2, H3. auto.
Qed.

Lemma beq3_refl a b c : beq3 a b c a b c = true.
Proof. unfold beq3. now rewrite !eqb_reflx. Qed.

Lemma settled_read f j : jw_settled f j = true -> jw_read j = true.
Proof. destruct j; cbn; auto. Qed.

Lemma migs_zero r : uinv r -> mig_stage (ust r) = false -> migs r = 0.
Proof.
  intros U H. destruct (Nat.eq_dec (migs r) 0) as [|n]; auto.
  rewrite (u_migs _ U n) in H. discriminate.
Qed.

Lemma uinv_u0 : uinv u0.
Proof.
  constructor; cbn; try discriminate; try congruence.
  split; discriminate.
Qed.

Lemma inv_init : InvJoin init.
Proof. constructor; cbn; intros; [apply uinv_u0|discriminate]. Qed.

(* ---- one step ---- *)

(* normalise the boolean guards collected by the case analysis *)
Ltac guards :=
  repeat match goal with
  | H : beq3 _ _ _ _ _ _ = true |- _ => apply beq3_true in H; destruct H as [? [? ?]]
  | H : _ && _ = true |- _ => apply andb_true_iff in H; destruct H
  | H : _ || _ = true |- _ => apply orb_true_iff in H; destruct H
  | H : negb _ = true |- _ => apply negb_true_iff in H
  | H : Nat.eqb _ _ = true |- _ => apply Nat.eqb_eq in H
  | H : Z.eqb _ _ = true |- _ => apply Z.eqb_eq in H
  | H : jw_settled _ _ = true |- _ => apply settled_read in H
  | H : match ?X with _ => _ end = true |- _ => destruct X eqn:?; try discriminate
  end;
  cbn [andb orb negb] in *; try discriminate.

Ltac projs :=
  cbn [ust ost upool isult named rjoin rcancel rmig link migt migs jw fresh cbother jof cnt starts fins adopted
       with_ust with_ust_ost with_jw with_pool with_req with_link with_mig with_other with_jof with_cnt] in *.

Ltac preds :=
  cbn [is_term exiting terminating jw_read yield_kind suspend_kind mig_stage] in *.

(* prove [uinv R] where R is built from [un s t], knowing [uinv (un s t)] *)
Ltac unit_from I t :=
  let U := fresh "U" in
  pose proof (I t) as U; destruct U;
  let r := fresh "r" in let Er := fresh "Er" in
  remember (un _ t) as r eqn:Er in *; clear Er; destruct r; projs; subst;
  repeat match goal with k : cbk |- _ => destruct k end; preds; try discriminate;
  constructor; projs; preds;
  try solve [ intuition (try discriminate; try congruence; eauto) ];
  try solve [ intros;
    repeat match goal with
    | H : Some _ = Some _ |- _ => inversion H; clear H; subst
    | H : JWHave _ = JWHave _ |- _ => inversion H; clear H; subst
    | o : option nat |- _ => destruct o
    end;
    repeat match goal with H : forall j, Some ?n = Some j -> _ |- _ => specialize (H n eq_refl) end;
    intuition (try discriminate; try congruence; eauto) ].

Lemma step_units s e s' :
  (forall u, uinv (un s u)) -> step s e = Some s' -> forall u, uinv (un s' u).
Proof.
  intros I H.
  destruct e; cbn [step] in H.
  all: repeat match type of H with
  | context [match ?X with _ => _ end] => destruct X eqn:?
  end; try discriminate.
  all: inversion H; subst s'; clear H; try assumption.
  all: guards.
  all: intros x; cbn [un set_u set_p]; unfold upd.
  all: repeat match goal with |- uinv (if Nat.eqb ?a ?b then _ else _) => destruct (Nat.eqb a b) end.
  all: try match goal with I0 : forall u, uinv (un _ u) |- _ => apply I0 end.
  (* fresh descriptors *)
  all: try solve [ constructor; projs; preds; try discriminate; try congruence; split; discriminate ].
  all: try solve [ match goal with I0 : forall u, uinv (un _ u) |- uinv ?R =>
                     match R with context [un _ ?t] => solve [unit_from I0 t] end end ].
Qed.

(* [seen] part: an actor's observation "TERMINATED" stays true of the unit until ERevive clears it *)
Ltac seen_case :=
  let a := fresh "a" in let x := fresh "x" in let Hs := fresh "Hs" in
  intros a x Hs; cbn [seen un set_u set_p] in *;
  first
  [ (* EStLoad *)
    match type of Hs with context [upd2] => unfold upd2 in Hs end;
    match type of Hs with (if ?c then _ else _) = true => destruct c eqn:? end;
    [ guards; subst; congruence | solve [eauto] ]
  | (* ERevive *)
    match type of Hs with (if Nat.eqb ?y ?u then false else _) = true =>
      destruct (Nat.eqb_spec y u); [discriminate|]; rewrite upd_other by assumption; solve [eauto] end
  | (* every other step leaves [seen] alone; the unit it touches is not TERMINATED, or keeps its state word *)
    match goal with Is0 : forall a u, seen _ a u = true -> _ |- _ => apply Is0 in Hs end;
    unfold upd;
    repeat match goal with |- context [if Nat.eqb ?a ?b then _ else _] => destruct (Nat.eqb_spec a b); subst end;
    projs; try assumption;
    match goal with I0 : forall u, uinv (un _ u), Ho : ost (un _ ?t) = 3%Z |- _ =>
      let Ht := fresh "Ht" in
      pose proof (proj1 (u_ost _ (I0 t)) Ho) as Ht;
      repeat match goal with E : ust (un _ t) = _ |- _ => rewrite E in Ht end;
      discriminate
    end ].

Lemma step_seen s e s' :
  (forall u, uinv (un s u)) -> (forall a u, seen s a u = true -> ost (un s u) = 3%Z) ->
  step s e = Some s' -> forall a u, seen s' a u = true -> ost (un s' u) = 3%Z.
Proof.
  intros I Is H.
  destruct e; cbn [step] in H.
  all: repeat match type of H with
  | context [match ?X with _ => _ end] => destruct X eqn:?
  end; try discriminate.
  all: inversion H; subst s'; clear H; try assumption.
  all: guards.
  all: seen_case.
Qed.


Lemma step_inv s e s' : InvJoin s -> step s e = Some s' -> InvJoin s'.
Proof.
  intros [Iu Is] H. constructor.
  - eapply step_units; eauto.
  - eapply step_seen; eauto.
Qed.

(* ---- every reachable state: any number of units, pools, joiners, any interleaving ---- *)
Theorem inv_reachable s : reachable s -> InvJoin s.
Proof.
  revert s. apply reach_ind; [apply inv_init|].
  intros s e s' _ I H. eapply step_inv; eauto.
Qed.

(* ================= C03: return only after termination ================= *)

Theorem C03_state_word_terminated s u : reachable s ->
  (ost (un s u) = 3%Z <-> is_term (ust (un s u)) = true).
Proof. intros R. apply (u_ost _ (ij_u _ (inv_reachable _ R) u)). Qed.

Theorem C03_seen_sound s a u : reachable s -> seen s a u = true ->
  is_term (ust (un s u)) = true /\ ost (un s u) = 3%Z.
Proof.
  intros R Hs. destruct (inv_reachable _ R) as [Iu Is].
  pose proof (Is _ _ Hs) as Ho. split; [apply (u_ost _ (Iu u)); exact Ho|exact Ho].
Qed.

Theorem C03_return_implies_terminated s a u s' : reachable s ->
  step s (EJoinRet a u) = Some s' ->
  is_term (ust (un s u)) = true /\ ost (un s u) = 3%Z.
Proof.
  intros R H. cbn [step] in H. destruct (seen s a u) eqn:E; [|discriminate].
  eapply C03_seen_sound; eauto.
Qed.

(* the join returns exactly when the caller's last load of the state word returned TERMINATED *)
Theorem C03_return_needs_terminated_load s a u :
  step s (EJoinRet a u) <> None <-> seen s a u = true.
Proof. cbn [step]. destruct (seen s a u); split; congruence. Qed.

Theorem C03_load_records_terminated s a u site v s' :
  step s (EStLoad a u site v) = Some s' ->
  v = ost (un s u) /\ seen s' a u = Z.eqb v 3 /\ un s' = un s.
Proof.
  cbn [step]. destruct (Z.eqb v (ost (un s u))) eqn:E; [|discriminate].
  apply Z.eqb_eq in E. intros H; inversion H; subst s'; cbn [seen un].
  unfold upd2. rewrite !Nat.eqb_refl. auto.
Qed.

(* ... and they do return once the target has terminated: the state load that decides is
   enabled, reads TERMINATED, and enables the return *)
Theorem C03_join_returns_once_terminated s a u site : reachable s ->
  is_term (ust (un s u)) = true ->
  exists s1, step s (EStLoad a u site 3) = Some s1 /\ step s1 (EJoinRet a u) = Some s1.
Proof.
  intros R Ht. apply (C03_state_word_terminated _ _ R) in Ht.
  cbn [step]. rewrite Ht. cbn [Z.eqb Pos.eqb]. eexists. split; [reflexivity|].
  cbn [seen]. unfold upd2. rewrite !Nat.eqb_refl. reflexivity.
Qed.

(* an observation "TERMINATED" is only invalidated by a revive of that unit *)
Theorem C03_seen_stable s e s' a u : reachable s -> step s e = Some s' ->
  seen s a u = true -> seen s' a u = true \/ exists p, e = ERevive u p.
Proof.
  intros R H Hs. destruct (C03_seen_sound _ _ _ R Hs) as [_ Ho].
  destruct e; cbn [step] in H.
  all: repeat match type of H with
  | context [match ?X with _ => _ end] => destruct X eqn:?
  end; try discriminate.
  all: inversion H; subst s'; clear H; cbn [seen set_u set_p]; auto.
  - (* ERevive *)
    match goal with |- (if Nat.eqb ?x ?y then _ else _) = _ \/ _ => destruct (Nat.eqb_spec x y) end;
    [subst; right; eauto|left; assumption].
  - (* EStLoad *)
    left. unfold upd2.
    match goal with |- (if ?c then _ else _) = _ => destruct c eqn:Ec end; [|assumption].
    apply andb_true_iff in Ec. destruct Ec as [E1 E2].
    apply Nat.eqb_eq in E1, E2. subst.
    match goal with E : Z.eqb _ _ = true |- _ => apply Z.eqb_eq in E; rewrite E, Ho end.
    reflexivity.
Qed.

(* ================= the handshake ================= *)

(* p_link is written at most once per incarnation, by the one joiner that registered (its
   fetch_or found JOIN clear), and a ULT joiner does it only after its own BLOCKED store *)
Theorem C03_link_only_by_registered_joiner s tgt j ext s' :
  step s (ELinkSt tgt j ext) = Some s' ->
  jof (un s tgt) = Some j /\ rjoin (un s tgt) = true /\ link (un s tgt) = None /\
  (ext = false -> ust (un s j) = UBlocked) /\ link (un s' tgt) = Some j.
Proof.
  intros H. cbn [step] in H.
  destruct (link (un s tgt)) eqn:El; [discriminate|].
  match type of H with (if ?c then _ else _) = _ => destruct c eqn:G end; [|discriminate].
  apply andb_true_iff in G. destruct G as [G G3].
  apply andb_true_iff in G. destruct G as [G1 G2].
  destruct (jof (un s tgt)) as [x|] eqn:Ej; [|discriminate].
  apply Nat.eqb_eq in G2. subst x.
  inversion H; subst s'. cbn [un set_u]. rewrite upd_same. cbn [link with_link].
  repeat split; auto.
  intros ->. cbn [orb] in G3. destruct (ust (un s j)); try discriminate; reflexivity.
Qed.

Theorem C03_link_once s tgt j j' ext :
  link (un s tgt) = Some j -> step s (ELinkSt tgt j' ext) = None.
Proof. intros H. cbn [step]. rewrite H. reflexivity. Qed.

(* only the first fetch_or on the JOIN bit (by a joiner) registers its caller *)
Theorem C03_one_registered_joiner s u j c m who s' : reachable s ->
  step s (EReqOr u 0 false j c m who) = Some s' ->
  j = rjoin (un s u) /\
  (j = false -> jof (un s u) = None /\ link (un s u) = None /\ jof (un s' u) = Some who) /\
  (j = true -> jof (un s' u) = jof (un s u) /\ link (un s' u) = link (un s u) /\ jw (un s' u) = jw (un s u)).
Proof.
  intros R H. pose proof (ij_u _ (inv_reachable _ R) u) as U.
  cbn [step] in H.
  destruct (beq3 j c m (rjoin (un s u)) (rcancel (un s u)) (rmig (un s u))) eqn:E; [|discriminate].
  apply beq3_true in E. destruct E as [E1 [E2 E3]].
  inversion H; subst s'; clear H. cbn [un set_u]. rewrite upd_same.
  split; [assumption|]. split; intros ->.
  - cbn [jof with_jof]. repeat split.
    + destruct (jof (un s u)) eqn:Ej; auto. apply (u_jof _ U) in Ej. congruence.
    + destruct (link (un s u)) eqn:El; auto. apply (u_link _ U) in El. apply (u_jof _ U) in El. congruence.
  - cbn [jof link jw with_req]. auto.
Qed.

(* what the terminating side knows (ABTI_ythread_atomic_get_joiner) is true of the unit *)
Theorem C03_exiter_sees_registered_joiner s u : reachable s ->
  (jw (un s u) = JWNone -> jof (un s u) = None /\ link (un s u) = None /\ rjoin (un s u) = true) /\
  (jw (un s u) = JWSpin -> rjoin (un s u) = true /\ exists j, jof (un s u) = Some j) /\
  (forall j, jw (un s u) = JWHave j -> link (un s u) = Some j /\ jof (un s u) = Some j /\ rjoin (un s u) = true) /\
  (jw (un s u) = JWDone -> exists j, link (un s u) = Some j /\ jof (un s u) = Some j).
Proof.
  intros R. pose proof (ij_u _ (inv_reachable _ R) u) as U.
  split; [|split; [|split]].
  - intros H. destruct (u_none _ U H) as [Hr Hn]. repeat split; auto.
    destruct (link (un s u)) eqn:El; auto. apply (u_link _ U) in El. congruence.
  - intros H. pose proof (u_spin _ U H) as Hr. split; [assumption|].
    destruct (u_rj _ U Hr) as [?|E]; [assumption|congruence].
  - intros j H. pose proof (u_have _ U _ H) as Hl. pose proof (u_link _ U _ Hl) as Hj.
    pose proof (u_jof _ U _ Hj). auto.
  - intros H. destruct (u_done _ U H) as [j Hj]. exists j. split; [assumption|apply (u_link _ U); assumption].
Qed.

(* the handshake state moves only on the terminating side (function returned / cancel seen) *)
Theorem C03_handshake_only_when_terminating s u : reachable s ->
  jw (un s u) <> JW0 -> terminating (ust (un s u)) = true.
Proof. intros R. apply (u_jw0 _ (ij_u _ (inv_reachable _ R) u)). Qed.

(* ================= no termination over a blocked joiner ================= *)

(* the exit callback is entered only when the joiner has been dealt with *)
Theorem C03_exit_requires_joiner_woken s u k other s' :
  (k = KExit \/ k = KResumeExitTo) ->
  step s (ECb u k other) = Some s' ->
  ust (un s u) = UFinished /\ jw_settled (un s) (jw (un s u)) = true.
Proof.
  intros Hk H. cbn [step] in H.
  destruct Hk; subst k; destruct (ust (un s u)); try discriminate;
  destruct (jw_settled (un s) (jw (un s u))); try discriminate; auto.
Qed.

(* same on the cancellation path: TERMINATED is stored for a cancelled ULT only then *)
Theorem C03_cancel_requires_joiner_woken s u s' :
  step s (EState u 3) = Some s' -> ust (un s u) = UCancelling -> isult (un s u) = true ->
  jw_settled (un s) (jw (un s u)) = true.
Proof.
  intros H Hu Hi. cbn [step] in H. rewrite Hu, Hi in H.
  destruct (Nat.eqb (migs (un s u)) 0); [|discriminate].
  cbn [negb] in H. rewrite orb_false_r in H.
  destruct (jw_settled (un s) (jw (un s u))); [reflexivity|discriminate].
Qed.

(* every way a ULT leaves the handshake *)
Definition leaves_handshake (s : st) (u : nat) (e : ev) : Prop :=
  (exists o, e = ECb u KExit o) \/ (exists o, e = ECb u KResumeExitTo o) \/
  (e = EState u 3 /\ ust (un s u) = UCancelling).

Theorem C03_leave_requires_settled s u e s' :
  leaves_handshake s u e -> isult (un s u) = true -> step s e = Some s' ->
  jw_settled (un s) (jw (un s u)) = true.
Proof.
  intros [[o ->]|[[o ->]|[-> Hu]]] Hi H.
  - exact (proj2 (C03_exit_requires_joiner_woken s u KExit o s' (or_introl eq_refl) H)).
  - exact (proj2 (C03_exit_requires_joiner_woken s u KResumeExitTo o s' (or_intror eq_refl) H)).
  - eapply C03_cancel_requires_joiner_woken; eauto.
Qed.

(* with a joiner published in p_link: at the step by which the target leaves the handshake it has
   read that joiner, and either the joiner is a ULT that is not BLOCKED any more, or the
   external joiner's futex has been signalled *)
Theorem C03_leave_with_linked_joiner s u e s' j : reachable s ->
  leaves_handshake s u e -> isult (un s u) = true -> step s e = Some s' ->
  link (un s u) = Some j ->
  (jw (un s u) = JWHave j /\ isult (un s j) = true /\ ust (un s j) <> UBlocked) \/
  jw (un s u) = JWDone.
Proof.
  intros R Hl Hi H Hlk. pose proof (ij_u _ (inv_reachable _ R) u) as U.
  pose proof (C03_leave_requires_settled _ _ _ _ Hl Hi H) as Hs.
  destruct (jw (un s u)) as [| | |x|] eqn:Ej; cbn [jw_settled] in Hs; try discriminate; auto.
  - destruct (u_none _ U Ej) as [_ Hn]. apply (u_link _ U) in Hlk. congruence.
  - pose proof (u_have _ U _ Ej) as Hx. assert (x = j) by congruence. subst x.
    apply andb_true_iff in Hs. destruct Hs as [Hs1 Hs2]. left. repeat split; auto.
    intros Hb. rewrite Hb in Hs2. discriminate.
Qed.

(* state form: a ULT that is in the exit callback or TERMINATED has settled who its joiner is;
   while the terminating side has not read p_link (JW0 / JWSpin) the unit cannot be there *)
Theorem C03_no_termination_over_a_blocked_joiner s u : reachable s ->
  isult (un s u) = true -> exiting (ust (un s u)) = true ->
  jw_read (jw (un s u)) = true /\
  (forall j, link (un s u) = Some j -> jw (un s u) = JWHave j \/ jw (un s u) = JWDone).
Proof.
  intros R Hi He. pose proof (ij_u _ (inv_reachable _ R) u) as U.
  pose proof (u_exit _ U Hi He) as Hr. split; [assumption|].
  intros j Hlk. destruct (jw (un s u)) as [| | |x|] eqn:Ej; try discriminate; auto.
  - destruct (u_none _ U Ej) as [_ Hn]. apply (u_link _ U) in Hlk. congruence.
  - left. pose proof (u_have _ U _ Ej). congruence.
Qed.

Theorem C03_unread_joiner_blocks_exit s u : reachable s ->
  isult (un s u) = true -> (jw (un s u) = JW0 \/ jw (un s u) = JWSpin) ->
  exiting (ust (un s u)) = false /\ is_term (ust (un s u)) = false.
Proof.
  intros R Hi Hj.
  assert (He : exiting (ust (un s u)) = false).
  { destruct (exiting (ust (un s u))) eqn:He; auto.
    destruct (C03_no_termination_over_a_blocked_joiner _ _ R Hi He) as [Hr _].
    destruct Hj as [Hj|Hj]; rewrite Hj in Hr; discriminate. }
  split; [assumption|]. destruct (ust (un s u)); try reflexivity; discriminate.
Qed.

(* ================= the wake-up goes to the linked joiner ================= *)

Theorem C03_wake_targets_the_linked_joiner s u j s' : reachable s ->
  step s (EFutexRes u j) = Some s' ->
  jw (un s u) = JWHave j /\ link (un s u) = Some j /\ jof (un s u) = Some j /\
  isult (un s j) = false /\ jw (un s' u) = JWDone.
Proof.
  intros R H. cbn [step] in H.
  destruct (jw (un s u)) as [| | |x|] eqn:Ej; try discriminate.
  match type of H with (if ?c then _ else _) = _ => destruct c eqn:G end; [|discriminate].
  apply andb_true_iff in G. destruct G as [G1 G2].
  apply Nat.eqb_eq in G1. subst x. apply negb_true_iff in G2.
  destruct (C03_exiter_sees_registered_joiner _ u R) as [_ [_ [Hh _]]].
  destruct (Hh _ Ej) as [? [? ?]].
  inversion H; subst s'. cbn [un set_u]. rewrite upd_same. cbn [jw with_jw]. auto.
Qed.

(* the hand-off decrement (ABTI_ythread_exit jumping to its joiner) is made only for a BLOCKED unit *)
Theorem C03_handoff_only_for_blocked s p old j s' :
  step s (ENb p false old j true) = Some s' ->
  ust (un s j) = UBlocked /\ ust (un s' j) = UHandoff.
Proof.
  intros H. cbn [step] in H.
  destruct (Z.eqb old (nb (po s p))); [|discriminate].
  destruct (ust (un s j)) eqn:Eu; try discriminate.
  match type of H with (if ?c then _ else _) = _ => destruct c end; [|discriminate].
  inversion H; subst s'. cbn [un]. rewrite upd_same. cbn [ust with_cnt with_ust]. auto.
Qed.

(* ================= the terminating side is never stuck ================= *)

Definition handshake (x : ustate) : bool :=
  match x with UFinished | UCancelling => true | _ => false end.

(* how far the terminating side of u is from leaving the handshake *)
Definition fin_measure (s : st) (u : nat) : nat :=
  let r := un s u in
  if handshake (ust r) then
    match jw r with
    | JW0 => 5
    | JWSpin => match link r with None => 4 | Some _ => 3 end
    | JWHave j => if jw_settled (un s) (JWHave j) then 1 else 2
    | JWNone | JWDone => 1
    end
  else 0.

(* the next action of the C code on behalf of the terminating unit u
   (ABTI_ythread_atomic_get_joiner, then the wake-up, then the exit callback / TERMINATED);
   in the one state where the terminating side spins, the registered joiner's p_link store *)
Definition next_ev (s : st) (u : nat) : ev :=
  let r := un s u in
  let leave := match ust r with UFinished => ECb u KExit None | _ => EState u 3 end in
  match jw r with
  | JW0 => match link r with
           | Some j => ELinkLd u (Some j)
           | None => EReqOr u 0 true (rjoin r) (rcancel r) (rmig r) 0
           end
  | JWSpin => match link r with
              | Some j => ELinkLd u (Some j)
              | None => match jof r with
                        | Some j => ELinkSt u j (negb (isult (un s j)))
                        | None => leave
                        end
              end
  | JWHave j => if jw_settled (un s) (JWHave j) then leave
                else if isult (un s j) then EState j 0 else EFutexRes u j
  | JWNone | JWDone => leave
  end.

(* the only thing the terminating side ever waits for: the registered joiner's p_link store,
   which a ULT joiner makes from its suspend_join callback (after its BLOCKED store) *)
Definition joiner_ready (s : st) (u : nat) : Prop :=
  jw (un s u) = JWSpin -> link (un s u) = None ->
  forall j, jof (un s u) = Some j -> isult (un s j) = true -> ust (un s j) = UBlocked.

(* per-case enabledness *)
Lemma C03_progress_load_null s u :
  handshake (ust (un s u)) = true -> jw (un s u) = JW0 -> link (un s u) = None ->
  step s (ELinkLd u None) = Some s.
Proof.
  intros Hh Ej El. cbn [step]. rewrite El, Ej. destruct (ust (un s u)); try discriminate; reflexivity.
Qed.

Lemma C03_progress_fetch_or s u who :
  handshake (ust (un s u)) = true -> jw (un s u) = JW0 ->
  exists s', step s (EReqOr u 0 true (rjoin (un s u)) (rcancel (un s u)) (rmig (un s u)) who) = Some s' /\
             jw (un s' u) = (if rjoin (un s u) then JWSpin else JWNone) /\
             ust (un s' u) = ust (un s u) /\ link (un s' u) = link (un s u).
Proof.
  intros Hh Ej. cbn [step]. rewrite beq3_refl, Ej.
  destruct (ust (un s u)) eqn:Eu; try discriminate;
  (eexists; split; [reflexivity|]; cbn [un set_u]; rewrite upd_same; cbn [jw ust link with_jw with_req]; auto).
Qed.

Lemma C03_progress_load_link s u j :
  handshake (ust (un s u)) = true -> (jw (un s u) = JW0 \/ jw (un s u) = JWSpin) ->
  link (un s u) = Some j ->
  exists s', step s (ELinkLd u (Some j)) = Some s' /\ jw (un s' u) = JWHave j /\
             ust (un s' u) = ust (un s u) /\ (forall x, x <> u -> un s' x = un s x).
Proof.
  intros Hh Ej El. cbn [step]. rewrite El, Nat.eqb_refl.
  destruct (ust (un s u)) eqn:Eu; try discriminate; destruct Ej as [Ej|Ej]; rewrite Ej;
  (eexists; split; [reflexivity|]; cbn [un set_u]; rewrite upd_same; cbn [jw ust with_jw];
   repeat split; auto; intros; apply upd_other; assumption).
Qed.

Lemma C03_progress_joiner_links s u j ext :
  rjoin (un s u) = true -> jof (un s u) = Some j -> link (un s u) = None ->
  (ext = true \/ ust (un s j) = UBlocked) ->
  exists s', step s (ELinkSt u j ext) = Some s' /\ link (un s' u) = Some j /\
             jw (un s' u) = jw (un s u) /\ ust (un s' u) = ust (un s u).
Proof.
  intros Hr Hj Hl He. cbn [step]. rewrite Hl, Hr, Hj, Nat.eqb_refl. cbn [andb].
  assert (G : ext || match ust (un s j) with UBlocked => true | _ => false end = true).
  { destruct He as [-> | ->]; [reflexivity|apply orb_true_r]. }
  rewrite G. eexists; split; [reflexivity|].
  cbn [un set_u]; rewrite upd_same; cbn [link jw ust with_link]; auto.
Qed.

Lemma C03_progress_futex s u j :
  jw (un s u) = JWHave j -> isult (un s j) = false ->
  exists s', step s (EFutexRes u j) = Some s' /\ jw (un s' u) = JWDone /\ ust (un s' u) = ust (un s u).
Proof.
  intros Ej Ei. cbn [step]. rewrite Ej, Nat.eqb_refl, Ei. cbn [andb negb]. eexists; split; [reflexivity|].
  cbn [un set_u]; rewrite upd_same; cbn [jw ust with_jw]; auto.
Qed.

(* ABTI_ythread_resume_and_push of the blocked ULT joiner: READY is stored first *)
Lemma C03_progress_resume_joiner s u j : reachable s ->
  ust (un s j) = UBlocked -> u <> j ->
  exists s', step s (EState j 0) = Some s' /\ ust (un s' j) = UResuming /\
             isult (un s' j) = isult (un s j) /\ un s' u = un s u.
Proof.
  intros R Hb Hne.
  assert (Hm : migs (un s j) = 0) by (apply migs_zero; [apply (ij_u _ (inv_reachable _ R))|rewrite Hb; reflexivity]).
  cbn [step]. rewrite Hm, Hb. cbn [Nat.eqb]. eexists; split; [reflexivity|].
  cbn [un set_u]. rewrite upd_same, upd_other by assumption. cbn [ust isult with_ust_ost]. auto.
Qed.

(* join hand-off (same ES): decrement for the BLOCKED joiner, then RUNNING;
   [In p (cnt ..)] is the counting invariant's "a blocked unit is counted by its pool" *)
Lemma C03_progress_handoff s j p : reachable s ->
  ust (un s j) = UBlocked -> In p (cnt (un s j)) ->
  exists s1 s2, step s (ENb p false (nb (po s p)) j true) = Some s1 /\ ust (un s1 j) = UHandoff /\
                step s1 (EState j 1) = Some s2 /\ ust (un s2 j) = URunning /\ ost (un s2 j) = 1%Z.
Proof.
  intros R Hb Hin.
  assert (Hm : migs (un s j) = 0) by (apply migs_zero; [apply (ij_u _ (inv_reachable _ R))|rewrite Hb; reflexivity]).
  assert (Hc : Nat.leb 1 (count_occ Nat.eq_dec (cnt (un s j)) p) = true).
  { apply Nat.leb_le. apply (count_occ_In Nat.eq_dec) in Hin. lia. }
  cbn [step]. rewrite Z.eqb_refl, Hb, Hc.
  eexists. eexists. split; [reflexivity|].
  cbn [un]. rewrite upd_same. cbn [ust migs with_cnt with_ust]. split; [reflexivity|].
  rewrite Hm. cbn [Nat.eqb]. split; [reflexivity|].
  cbn [un set_u]. rewrite upd_same. cbn [ust ost with_ust_ost]. auto.
Qed.

Lemma C03_progress_exit_cb s u :
  ust (un s u) = UFinished -> jw_settled (un s) (jw (un s u)) = true ->
  exists s', step s (ECb u KExit None) = Some s' /\ ust (un s' u) = UCbS KExit 0.
Proof.
  intros Hu Hs. cbn [step]. rewrite Hu, Hs. eexists; split; [reflexivity|].
  cbn [un set_u]; rewrite upd_same; reflexivity.
Qed.

Lemma C03_progress_terminated_store s u :
  migs (un s u) = 0 ->
  (exiting (ust (un s u)) = true /\ is_term (ust (un s u)) = false) \/
  (ust (un s u) = UCancelling /\ jw_settled (un s) (jw (un s u)) = true) ->
  exists s', step s (EState u 3) = Some s' /\ ust (un s' u) = UTerm /\ ost (un s' u) = 3%Z.
Proof.
  intros Hm H. cbn [step]. rewrite Hm. cbn [Nat.eqb].
  destruct H as [[He Ht]|[Hu Hs]].
  - destruct (ust (un s u)) as [| | | | | | |k n| | | | | |] eqn:Eu; try discriminate.
    destruct k; try discriminate;
    (eexists; split; [reflexivity|]; cbn [un set_u]; rewrite upd_same; auto).
  - rewrite Hu, Hs. cbn [orb]. eexists; split; [reflexivity|]. cbn [un set_u]; rewrite upd_same; auto.
Qed.

(* no migration is being handled for a unit whose function has returned / that is being cancelled *)
Theorem C03_handshake_no_migration s u : reachable s ->
  handshake (ust (un s u)) = true -> migs (un s u) = 0.
Proof.
  intros R Hh. apply migs_zero; [apply (ij_u _ (inv_reachable _ R))|].
  destruct (ust (un s u)); try discriminate; reflexivity.
Qed.

Lemma leave_step s u :
  handshake (ust (un s u)) = true -> migs (un s u) = 0 -> jw_settled (un s) (jw (un s u)) = true ->
  exists s', step s (match ust (un s u) with UFinished => ECb u KExit None | _ => EState u 3 end) = Some s' /\
             handshake (ust (un s' u)) = false.
Proof.
  intros Hh Hm Hs. destruct (ust (un s u)) eqn:Eu; try discriminate.
  - destruct (C03_progress_exit_cb s u Eu Hs) as [s' [H1 H2]]. exists s'. rewrite H2. auto.
  - destruct (C03_progress_terminated_store s u Hm (or_intror (conj Eu Hs))) as [s' [H1 [H2 _]]].
    exists s'. rewrite H2. auto.
Qed.

Lemma fin_measure_pos s u : handshake (ust (un s u)) = true -> 1 <= fin_measure s u.
Proof.
  intros Hh. unfold fin_measure. rewrite Hh.
  destruct (jw (un s u)); try lia; [destruct (link (un s u)); lia|destruct (jw_settled _ _); lia].
Qed.

Lemma fin_measure_zero s u : handshake (ust (un s u)) = false -> fin_measure s u = 0.
Proof. intros Hh. unfold fin_measure. rewrite Hh. reflexivity. Qed.

(* Liveness in the form a safety proof can carry: in every reachable state in which the terminating
   side of u is in the handshake, the next action of the C code ([next_ev]) is enabled and brings u
   strictly closer to leaving the handshake.  The only wait is for the registered joiner's p_link
   store ([joiner_ready]: a ULT joiner stores it once BLOCKED; an external joiner at any time). *)
Theorem C03_can_finish s u : reachable s ->
  handshake (ust (un s u)) = true -> joiner_ready s u ->
  exists s', step s (next_ev s u) = Some s' /\ fin_measure s' u < fin_measure s u.
Proof.
  intros R Hh Hr. pose proof (ij_u _ (inv_reachable _ R) u) as U.
  pose proof (C03_handshake_no_migration _ _ R Hh) as Hm.
  assert (Leave : jw_settled (un s) (jw (un s u)) = true ->
     exists s', step s (match ust (un s u) with UFinished => ECb u KExit None | _ => EState u 3 end) = Some s' /\
                fin_measure s' u < fin_measure s u).
  { intros Hs. destruct (leave_step s u Hh Hm Hs) as [s' [H1 H2]]. exists s'. split; [exact H1|].
    rewrite (fin_measure_zero _ _ H2). apply fin_measure_pos; assumption. }
  unfold next_ev.
  destruct (jw (un s u)) as [| | |j|] eqn:Ej.
  - (* JW0: load p_link; NULL: fetch_or *)
    destruct (link (un s u)) as [j|] eqn:El.
    + destruct (C03_progress_load_link s u j Hh (or_introl Ej) El) as [s' [Hs [Hj [Hu _]]]].
      exists s'. split; [exact Hs|]. unfold fin_measure. rewrite Hu, Hh, Hj, Ej.
      match goal with |- context [if ?c then _ else _] => destruct c end; lia.
    + destruct (C03_progress_fetch_or s u 0 Hh Ej) as [s' [Hs [Hj [Hu Hl]]]].
      exists s'. split; [exact Hs|]. unfold fin_measure. rewrite Hu, Hh, Hj, Ej, Hl, El.
      match goal with |- context [if ?c then _ else _] => destruct c end; lia.
  - (* JWSpin *)
    destruct (link (un s u)) as [j|] eqn:El.
    + destruct (C03_progress_load_link s u j Hh (or_intror Ej) El) as [s' [Hs [Hj [Hu _]]]].
      exists s'. split; [exact Hs|]. unfold fin_measure. rewrite Hu, Hh, Hj, Ej, El.
      match goal with |- context [if ?c then _ else _] => destruct c end; lia.
    + pose proof (u_spin _ U Ej) as Hrj.
      destruct (u_rj _ U Hrj) as [[j Hjo]|E]; [|congruence]. rewrite Hjo.
      assert (He : negb (isult (un s j)) = true \/ ust (un s j) = UBlocked).
      { destruct (isult (un s j)) eqn:Ei; [right; apply Hr; auto|left; reflexivity]. }
      destruct (C03_progress_joiner_links s u j _ Hrj Hjo El He) as [s' [Hs [Hl [Hj Hu]]]].
      exists s'. split; [exact Hs|]. unfold fin_measure. rewrite Hu, Hh, Hj, Ej, Hl, El. lia.
  - apply Leave. reflexivity.
  - (* JWHave j *)
    destruct (jw_settled (un s) (JWHave j)) eqn:Es; [apply Leave; reflexivity|].
    assert (M : fin_measure s u = 2) by (unfold fin_measure; rewrite Hh, Ej, Es; reflexivity).
    rewrite M. destruct (isult (un s j)) eqn:Ei.
    + assert (Hb : ust (un s j) = UBlocked).
      { cbn [jw_settled] in Es. rewrite Ei in Es. destruct (ust (un s j)); try discriminate; reflexivity. }
      assert (Hne : u <> j) by (intros ->; rewrite Hb in Hh; discriminate).
      destruct (C03_progress_resume_joiner s u j R Hb Hne) as [s' [Hs [Hj [Hi Hu]]]].
      exists s'. split; [exact Hs|]. unfold fin_measure. rewrite Hu, Hh, Ej.
      cbn [jw_settled]. rewrite Hi, Ei, Hj. cbn [andb]. lia.
    + destruct (C03_progress_futex s u j Ej Ei) as [s' [Hs [Hj Hu]]].
      exists s'. split; [exact Hs|]. unfold fin_measure. rewrite Hu, Hh, Hj. lia.
  - apply Leave. reflexivity.
Qed.

Ltac updcase :=
  unfold upd;
  repeat match goal with |- context [if Nat.eqb ?a ?b then _ else _] => destruct (Nat.eqb_spec a b); try subst end;
  projs.

(* what a [next_ev] step leaves alone *)
Lemma next_ev_frame s u s' : reachable s -> handshake (ust (un s u)) = true ->
  step s (next_ev s u) = Some s' ->
  jof (un s' u) = jof (un s u) /\ (forall x, isult (un s' x) = isult (un s x)) /\
  (forall j, link (un s u) = Some j -> link (un s' u) = Some j) /\
  ((ust (un s' u) = UCbS KExit 0 \/ ust (un s' u) = UTerm) \/
   (ust (un s' u) = ust (un s u) /\
    (link (un s' u) <> None \/ forall x, ust (un s' x) = ust (un s x)))).
Proof.
  intros R Hh H. pose proof (ij_u _ (inv_reachable _ R) u) as U.
  unfold next_ev in H.
  repeat (cbn [step] in H;
          match type of H with context [match ?X with _ => _ end] => destruct X eqn:? end);
  try discriminate.
  all: try match goal with E : ust (un _ ?u) = _, Hh : handshake (ust (un _ ?u)) = true |- _ =>
             rewrite E in Hh; discriminate end.
  all: inversion H; subst s'; clear H; cbn [un set_u].
  all: split; [updcase; congruence|split; [intros x; updcase; congruence|]].
  all: split; [let j0 := fresh "j" in let Hl0 := fresh "Hl" in intros j0 Hl0; updcase; congruence|].
  all: try solve [ left; left; rewrite upd_same; reflexivity
                 | left; right; rewrite upd_same; reflexivity
                 | right; split; [updcase; congruence|right; intros x; updcase; congruence] ].
  all: try match goal with Hb : jw_settled _ (JWHave ?j) = false, Hi : isult (un _ ?j) = true, E : ust (un _ ?j) = _ |- _ =>
             cbn [jw_settled] in Hb; rewrite Hi, E in Hb; discriminate end.
  (* the blocked ULT joiner is resumed: it is not u, and p_link holds it *)
  all: match goal with Ej : jw (un _ ?u) = JWHave ?j, U0 : uinv (un _ ?u), E : ust (un _ ?j) = UBlocked |- _ =>
         pose proof (u_have _ U0 _ Ej) as Hl;
         assert (Hne : u <> j) by (intros ->; rewrite E in Hh; discriminate);
         rewrite !upd_other by assumption;
         right; split; [reflexivity|left; rewrite Hl; discriminate] end.
Qed.

Lemma reachable_run s tr s' : reachable s -> run s tr = Some s' -> reachable s'.
Proof.
  revert s. induction tr as [|e tr IH]; cbn [run]; intros s R H.
  - inversion H; subst; assumption.
  - destruct (step s e) as [s1|] eqn:E; [|discriminate]. eapply IH; [eapply reachable_step; eauto|exact H].
Qed.

(* the registered joiner of u, if it is a ULT, has completed its BLOCKED store (so its p_link store
   is enabled) unless it has already published itself; stable along the terminating side's own steps *)
Definition joiner_will_link (s : st) (u : nat) : Prop :=
  link (un s u) = None ->
  forall j, jof (un s u) = Some j -> isult (un s j) = true -> ust (un s j) = UBlocked.

Lemma will_link_ready s u : joiner_will_link s u -> joiner_ready s u.
Proof. intros H _ Hl. apply H; assumption. Qed.

Lemma can_leave u : forall n s, fin_measure s u <= n -> reachable s ->
  handshake (ust (un s u)) = true -> joiner_will_link s u ->
  exists tr s', run s tr = Some s' /\ (ust (un s' u) = UCbS KExit 0 \/ ust (un s' u) = UTerm).
Proof.
  induction n as [|n IH]; intros s Hn R Hh Hw.
  - pose proof (fin_measure_pos _ _ Hh). lia.
  - destruct (C03_can_finish s u R Hh (will_link_ready _ _ Hw)) as [s1 [Hs Hlt]].
    destruct (next_ev_frame s u s1 R Hh Hs) as [Fj [Fi [Fk [Hx|[Fu Fl]]]]].
    + exists [next_ev s u], s1. cbn [run]. rewrite Hs. auto.
    + assert (R1 : reachable s1) by (eapply reachable_step; eauto).
      assert (Hh1 : handshake (ust (un s1 u)) = true) by (rewrite Fu; exact Hh).
      assert (Hw1 : joiner_will_link s1 u).
      { intros Hl1 j Hj Hi. destruct Fl as [Fl|Fl]; [contradiction|].
        rewrite Fl. rewrite Fj in Hj. rewrite Fi in Hi. apply Hw; auto.
        destruct (link (un s u)) as [x|] eqn:El; auto. rewrite (Fk _ eq_refl) in Hl1. discriminate. }
      destruct (IH s1 ltac:(lia) R1 Hh1 Hw1) as [tr [s2 [Hr Hu]]].
      exists (next_ev s u :: tr), s2. cbn [run]. rewrite Hs. auto.
Qed.

(* "they do return once the target terminates", existence form: from every reachable state in which
   u's function has returned (or its cancellation has been noticed), there is a continuation, made
   only of the C code's own next actions, that stores TERMINATED; then the joiner's load and return
   are enabled *)
Theorem C03_can_terminate s u : reachable s ->
  handshake (ust (un s u)) = true -> joiner_will_link s u ->
  exists tr s', run s tr = Some s' /\ ust (un s' u) = UTerm /\ ost (un s' u) = 3%Z.
Proof.
  intros R Hh Hw.
  destruct (can_leave u _ s (le_n _) R Hh Hw) as [tr [s1 [Hr [Hu|Hu]]]].
  - pose proof (reachable_run _ _ _ R Hr) as R1.
    assert (Hm : migs (un s1 u) = 0).
    { apply migs_zero; [apply (ij_u _ (inv_reachable _ R1))|rewrite Hu; reflexivity]. }
    destruct (C03_progress_terminated_store s1 u Hm) as [s2 [H2 [Hu2 Ho2]]].
    { left. rewrite Hu. auto. }
    exists (tr ++ [EState u 3]), s2. rewrite run_app, Hr. cbn [run]. rewrite H2. auto.
  - exists tr, s1. repeat split; auto.
    apply C03_state_word_terminated; [eapply reachable_run; eauto|rewrite Hu; reflexivity].
Qed.

Theorem C03_join_can_return s u a site : reachable s ->
  handshake (ust (un s u)) = true -> joiner_will_link s u ->
  exists tr s', run s (tr ++ [EStLoad a u site 3; EJoinRet a u]) = Some s' /\
                is_term (ust (un s' u)) = true.
Proof.
  intros R Hh Hw. destruct (C03_can_terminate s u R Hh Hw) as [tr [s1 [Hr [Hu Ho]]]].
  assert (Ht : is_term (ust (un s1 u)) = true) by (rewrite Hu; reflexivity).
  destruct (C03_join_returns_once_terminated s1 a u site (reachable_run _ _ _ R Hr) Ht) as [s2 [H1 H2]].
  exists tr, s2. rewrite run_app, Hr. cbn [run]. rewrite H1, H2. split; [reflexivity|].
  destruct (C03_load_records_terminated _ _ _ _ _ _ H1) as [_ [_ E]]. rewrite E. exact Ht.
Qed.

(* ================= executable checks for the non-vacuity examples ================= *)

Definition st_at (tr : list ev) (n : nat) : option st := run init (firstn n tr).

Definition enabled (s : st) (e : ev) : bool :=
  match step s e with Some _ => true | None => false end.

(* the run is a run of the LTS and ends in a state in which actor a's join of u returns *)
Definition join_ret_enabled (tr : list ev) (a u : nat) : bool :=
  match run init tr with
  | Some s => seen s a u && is_term (ust (un s u)) && enabled s (EJoinRet a u)
  | None => false
  end.

Lemma join_ret_enabled_sound tr a u : join_ret_enabled tr a u = true ->
  exists s, reachable s /\ run init tr = Some s /\ seen s a u = true /\
            is_term (ust (un s u)) = true /\ step s (EJoinRet a u) = Some s.
Proof.
  unfold join_ret_enabled, enabled. destruct (run init tr) as [s|] eqn:E; [|discriminate].
  intros H. apply andb_true_iff in H. destruct H as [H H3].
  apply andb_true_iff in H. destruct H as [H1 H2].
  exists s. repeat split; auto; [exists tr; exact E|].
  cbn [step]. rewrite H1. reflexivity.
Qed.

(* ================= regression: the futex wake-up is for non-yieldable joiners only ================= *)

(* [EFutexRes u j] is guarded by "j is not a ULT" (the C code tests
   p_joiner->thread.type == ABTI_THREAD_TYPE_EXT before ABTD_futex_resume; the FUTEX_RESUME hook is
   emitted only in that branch).  Without the guard the LTS had the run below, in which the
   terminating side "signals the futex" of a ULT joiner and terminates while that joiner is still
   BLOCKED.  Now the futex step is refused (and so is the exit callback): the only way on is to make
   the joiner runnable. *)
Definition remark_trace : list ev :=
  [ EInit 2 0 true true; EPush 0 2 true; EPop 0 (Some 2) false; EReqLoad 2 1 false false false;
    EState 2 1; EStart 2; EInit 1 0 true true; EPush 0 1 true;
    EReqOr 1 0 false false false false 2;
    ECb 2 KSuspendJoin None; EReqLoad 2 0 false false false; ENb 0 true 0 2 false; EState 2 2; ELinkSt 1 2 false;
    EPop 0 (Some 1) false; EReqLoad 1 1 true false false; EState 1 1; EStart 1; EFinish 1;
    ELinkLd 1 (Some 2); EFutexRes 1 2; ECb 1 KExit None; EState 1 3 ].

Example model_remark_futex_resume_guarded :
  match st_at remark_trace 20 with
  | Some s => match jw (un s 1) with JWHave 2 => true | _ => false end &&
              isult (un s 2) && is_blocked (ust (un s 2)) &&
              negb (enabled s (EFutexRes 1 2)) && negb (enabled s (ECb 1 KExit None)) &&
              enabled s (EState 2 0) && enabled s (ENb 0 false 1 2 true)
  | None => false
  end = true /\ run init remark_trace = None.
Proof. split; vm_compute; reflexivity. Qed.


(* ================= no lost wake-up ================= *)

(* Identity discipline of a history: a ULT descriptor is never created under an id that is currently
   published in some p_link.  For a ULT joiner this is automatic (it exists, and EInit / EAdopt need an
   unused id); the condition only says that the dummy id given to an external joiner's stack descriptor
   is not handed out again to a new ULT while a target still points to it.  Without it the LTS cannot
   tell "the joiner" from a later unit that happens to get the joiner's id
   (see [id_reuse_breaks_unconditional_form]). *)
Definition id_ok (s : st) (e : ev) : Prop :=
  match e with
  | EInit j _ true _ | EAdopt j _ true => forall u, link (un s u) <> Some j
  | _ => True
  end.

Inductive reachable_ids : st -> Prop :=
| ri_init : reachable_ids init
| ri_step s e s' : reachable_ids s -> id_ok s e -> step s e = Some s' -> reachable_ids s'.

Lemma reachable_ids_reachable s : reachable_ids s -> reachable s.
Proof. induction 1; [apply reachable_init|eapply reachable_step; eauto]. Qed.

(* a joiner whose futex has been signalled is not a ULT *)
Definition DoneExt (s : st) : Prop :=
  forall u j, jw (un s u) = JWDone -> link (un s u) = Some j -> isult (un s j) = false.

Lemma done_ext_init : DoneExt init.
Proof. intros u j H. discriminate. Qed.

Lemma done_ext_step s e s' :
  (forall u, uinv (un s u)) -> DoneExt s -> id_ok s e -> step s e = Some s' -> DoneExt s'.
Proof.
  intros I D K H.
  destruct e; cbn [step] in H.
  all: repeat match type of H with
  | context [match ?X with _ => _ end] => destruct X eqn:?
  end; try discriminate.
  all: inversion H; subst s'; clear H; try assumption.
  all: guards.
  all: (let a := fresh "ua" in let b := fresh "jb" in intros a b); cbn [un set_u set_p]; unfold upd.
  all: repeat match goal with |- context [if Nat.eqb ?a ?b then _ else _] => destruct (Nat.eqb_spec a b); try subst end.
  all: projs; try discriminate.
  all: try solve [ match goal with D0 : DoneExt _ |- _ => apply D0 end ].
  (* a ULT is created: its id is in no p_link *)
  all: try solve [ match goal with K0 : id_ok _ _ |- _ -> _ -> ?b = false =>
                     destruct b; cbn [id_ok] in K0; intros; [exfalso; eapply K0; eassumption|reflexivity] end ].
  (* p_link is stored while the terminating side has not even read it *)
  all: try solve [ let Hd := fresh "Hd" in let Hl := fresh "Hl" in intros Hd Hl;
                   match goal with I0 : forall u, uinv (un _ u) |- _ =>
                     destruct (u_done _ (I0 _) Hd) as [? ?]; congruence end ].
  (* the futex is signalled: the joiner read from p_link is not a ULT *)
  all: try solve [ let Hl := fresh "Hl" in intros _ Hl;
                   match goal with I0 : forall u, uinv (un _ u), Ej : jw (un _ ?u) = JWHave _ |- _ =>
                     pose proof (u_have _ (I0 u) _ Ej); congruence end ].
Qed.

Theorem done_ext_reachable s : reachable_ids s -> DoneExt s.
Proof.
  induction 1 as [|s e s' R IH K H]; [apply done_ext_init|].
  eapply done_ext_step; eauto. apply (ij_u _ (inv_reachable _ (reachable_ids_reachable _ R))).
Qed.

(* No lost wake-up.  At the step by which a ULT target u leaves the handshake (enters the exit
   callback, or stores TERMINATED on the cancellation path) with a ULT joiner j published in its
   p_link: u has read j from p_link, never took the futex path for it, and j is not BLOCKED any
   more, i.e. it has been made runnable (resume_and_push: READY stored; hand-off: decrement +
   RUNNING) before u may go on. *)
Theorem C03_no_lost_wakeup s u e s' j : reachable_ids s ->
  leaves_handshake s u e -> isult (un s u) = true -> step s e = Some s' ->
  link (un s u) = Some j -> isult (un s j) = true ->
  jw (un s u) = JWHave j /\ ust (un s j) <> UBlocked.
Proof.
  intros R Hl Hi H Hlk Hj.
  destruct (C03_leave_with_linked_joiner s u e s' j (reachable_ids_reachable _ R) Hl Hi H Hlk)
    as [[H1 [_ H2]]|Hd]; [auto|].
  rewrite (done_ext_reachable _ R _ _ Hd Hlk) in Hj. discriminate.
Qed.

(* state form: a ULT that is in its exit callback or TERMINATED, with a ULT joiner in p_link, got
   there on the ULT wake-up path *)
Theorem C03_no_lost_wakeup_state s u j : reachable_ids s ->
  isult (un s u) = true -> exiting (ust (un s u)) = true ->
  link (un s u) = Some j -> isult (un s j) = true -> jw (un s u) = JWHave j.
Proof.
  intros R Hi He Hlk Hj.
  destruct (C03_no_termination_over_a_blocked_joiner s u (reachable_ids_reachable _ R) Hi He) as [_ H].
  destruct (H _ Hlk) as [?|Hd]; [assumption|].
  rewrite (done_ext_reachable _ R _ _ Hd Hlk) in Hj. discriminate.
Qed.

(* the futex path is taken for non-ULT joiners only, and a joiner whose futex was signalled is
   not a ULT (as long as ids are not reused) *)
Theorem C03_futex_joiner_is_not_ult s u j : reachable_ids s ->
  jw (un s u) = JWDone -> link (un s u) = Some j -> isult (un s j) = false.
Proof. intros R. apply (done_ext_reachable _ R). Qed.

(* The identity discipline is needed: in the run below 9 is the dummy id of an external joiner of
   unit 1; after its futex has been signalled, a ULT is created under id 9 and blocks for an unrelated
   reason; unit 1 then enters its exit callback with link = Some 9, 9 a BLOCKED ULT. *)
Definition reuse_trace : list ev :=
  [ EInit 1 0 true true; EPush 0 1 true; EPop 0 (Some 1) false; EReqLoad 1 1 false false false;
    EState 1 1; EStart 1;
    EReqOr 1 0 false false false false 9; ELinkSt 1 9 true;
    EFinish 1; ELinkLd 1 (Some 9); EFutexRes 1 9;
    EInit 9 0 true true; EPush 0 9 true; EPop 0 (Some 9) false; EReqLoad 9 1 false false false;
    EState 9 1; EStart 9; ECb 9 KSuspend None; EReqLoad 9 0 false false false; ENb 0 true 0 9 false; EState 9 2;
    ECb 1 KExit None ].

Example id_reuse_breaks_unconditional_form :
  match st_at reuse_trace 21 with
  | Some s => isult (un s 1) && isult (un s 9) && is_blocked (ust (un s 9)) &&
              match link (un s 1), jw (un s 1) with Some 9, JWDone => true | _, _ => false end &&
              enabled s (ECb 1 KExit None)
  | None => false
  end = true.
Proof. vm_compute. reflexivity. Qed.

(* ---- a decidable sufficient condition for the identity discipline, for concrete histories ---- *)

(* p_link of u holds j only through a [ELinkSt u j _] step *)
Lemma link_origin s e s' u j : step s e = Some s' -> link (un s' u) = Some j ->
  link (un s u) = Some j \/ exists ext, e = ELinkSt u j ext.
Proof.
  intros H.
  destruct e; cbn [step] in H.
  all: repeat match type of H with
  | context [match ?X with _ => _ end] => destruct X eqn:?
  end; try discriminate.
  all: inversion H; subst s'; clear H; auto.
  all: guards.
  all: cbn [un set_u set_p]; unfold upd.
  all: repeat match goal with |- context [if Nat.eqb ?a ?b then _ else _] => destruct (Nat.eqb_spec a b); try subst end.
  all: projs; auto; try discriminate.
  all: let Hl := fresh "Hl" in intros Hl; inversion Hl; subst; right; eauto.
Qed.

Definition linked (tr : list ev) (j : nat) : bool :=
  existsb (fun e => match e with ELinkSt _ j' _ => Nat.eqb j j' | _ => false end) tr.

Lemma linked_sound tr : forall s u j, run init tr = Some s -> link (un s u) = Some j -> linked tr j = true.
Proof.
  induction tr as [|e tr IH] using rev_ind; intros s u j Hr Hl.
  - cbn in Hr. inversion Hr; subst. discriminate.
  - rewrite run_app in Hr. destruct (run init tr) as [s1|] eqn:E; [|discriminate].
    cbn [run] in Hr. destruct (step s1 e) as [s2|] eqn:E2; [|discriminate]. inversion Hr; subst s2.
    unfold linked. rewrite existsb_app. apply orb_true_iff.
    destruct (link_origin _ _ _ _ _ E2 Hl) as [Ho|[ext ->]].
    + left. eapply IH; eauto.
    + right. cbn. rewrite Nat.eqb_refl. reflexivity.
Qed.

(* no ULT is created under an id that an earlier event of the history published in a p_link *)
Fixpoint ids_okb (pre tr : list ev) : bool :=
  match tr with
  | [] => true
  | e :: r =>
      match e with
      | EInit j _ true _ | EAdopt j _ true => negb (linked pre j)
      | _ => true
      end && ids_okb (pre ++ [e]) r
  end.

Lemma ids_okb_sound tr : forall pre s0 s, run init pre = Some s0 -> reachable_ids s0 ->
  ids_okb pre tr = true -> run s0 tr = Some s -> reachable_ids s.
Proof.
  induction tr as [|e r IH]; intros pre s0 s Hp R Hk Hr.
  - cbn in Hr. inversion Hr; subst. exact R.
  - cbn [run] in Hr. destruct (step s0 e) as [s1|] eqn:E; [|discriminate].
    cbn [ids_okb] in Hk. apply andb_true_iff in Hk. destruct Hk as [Hk1 Hk2].
    apply (IH (pre ++ [e]) s1 s); auto.
    + rewrite run_app, Hp. cbn [run]. rewrite E. reflexivity.
    + apply (ri_step s0 e s1); auto.
      destruct e; cbn [id_ok]; auto;
      match goal with |- match ?b with true => _ | false => _ end => destruct b end; auto;
      intros x Hx; rewrite (linked_sound _ _ _ _ Hp Hx) in Hk1; discriminate.
Qed.

Theorem ids_ok_run tr s : ids_okb [] tr = true -> run init tr = Some s -> reachable_ids s.
Proof. intros Hk Hr. eapply (ids_okb_sound tr [] init s); eauto. constructor. Qed.

(* executable form of the hypotheses of [C03_no_lost_wakeup], for the non-vacuity examples *)
Definition leavesb (s : st) (u : nat) (e : ev) : bool :=
  match e with
  | ECb u' KExit _ | ECb u' KResumeExitTo _ => Nat.eqb u' u
  | EState u' v => Nat.eqb u' u && Z.eqb v 3 && match ust (un s u) with UCancelling => true | _ => false end
  | _ => false
  end.

Lemma leavesb_sound s u e : leavesb s u e = true -> leaves_handshake s u e.
Proof.
  unfold leavesb, leaves_handshake. destruct e; try discriminate.
  - intros H. apply andb_true_iff in H. destruct H as [H H3].
    apply andb_true_iff in H. destruct H as [H1 H2].
    apply Nat.eqb_eq in H1. apply Z.eqb_eq in H2. subst.
    right. right. split; [reflexivity|]. destruct (ust (un s u)); try discriminate; reflexivity.
  - destruct k; try discriminate; intros H; apply Nat.eqb_eq in H; subst; eauto.
Qed.

Definition nlw_hyps (tr : list ev) (u j : nat) (e : ev) : bool :=
  ids_okb [] tr &&
  match run init tr with
  | Some s => leavesb s u e && isult (un s u) && enabled s e &&
              match link (un s u) with Some x => Nat.eqb x j | None => false end && isult (un s j)
  | None => false
  end.

Lemma nlw_hyps_sound tr u j e : nlw_hyps tr u j e = true ->
  exists s s', reachable_ids s /\ leaves_handshake s u e /\ isult (un s u) = true /\
               step s e = Some s' /\ link (un s u) = Some j /\ isult (un s j) = true.
Proof.
  unfold nlw_hyps, enabled. intros H. apply andb_true_iff in H. destruct H as [Hk H].
  destruct (run init tr) as [s|] eqn:E; [|discriminate].
  repeat (apply andb_true_iff in H; let H' := fresh "G" in destruct H as [H H']).
  destruct (step s e) as [s'|] eqn:E2; [|discriminate].
  destruct (link (un s u)) as [x|] eqn:El; [|discriminate]. apply Nat.eqb_eq in G0. subst x.
  exists s, s'. repeat split; auto.
  - eapply ids_ok_run; eauto.
  - apply leavesb_sound; assumption.
Qed.
