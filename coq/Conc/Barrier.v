(* LTS of ABT_barrier (src/barrier.c, src/include/abti_waitlist.h) for one barrier
   and unboundedly many callers.  Labels are exactly the records written by the
   ABT_VERIF hooks (spinlock acquire / release on p_barrier->lock, DATA records
   for counter and num_waiters, wait-list enqueue / wake / broadcast-end) plus the
   begin/end records written by the harness around each API call, so that a
   recorded history of the real library can be replayed through [step].  One step
   = one atomic action of the C code.  Any caller may take any enabled step at any
   time: the runs of the LTS are all interleavings of all client programs (any
   number of ULT / external / tasklet callers, any number of rounds, reinit only
   when the barrier is idle, which is the documented contract of
   ABT_barrier_reinit: "counter == 0", not thread safe).

   ABT_barrier_wait (barrier.c):
     [tasklet: return ABT_ERR_BARRIER]                         EBegin .. (OWait KT)
     ABTD_spinlock_acquire(&lock)                              EAcq           W0 -> W1
     counter++                                                 EData 1 (c+1)  W1 -> WQ | WB0
     if (counter < num_waiters)
        ABTI_waitlist_wait_and_unlock:
          append node                                          EEnq           WQ -> UQ | EW
          ULT: suspend, the post-switch callback releases      ERel           UQ -> US
               resumed by the broadcast                        EWake          US -> UR
          external: loop { READY? release,break;               ERel           EWr -> DoneW
                           futex_wait_and_unlock               ERel           EW -> ES
                           READY? break                        (EEnd)         ER
                           acquire }                           EAcq           ES -> EW, ER -> EWr
     else
        ABTI_waitlist_broadcast: for each node: wake           EWake          WB0|WB1 -> WB1
                                 head = tail = NULL            EBcast         WB1 -> WC
        counter = 0                                            EData 1 0      WC | WB0(empty list) -> WR
        ABTD_spinlock_release(&lock)                           ERel           WR -> DoneW
   ABT_barrier_reinit (barrier.c): num_waiters = n             EData 2 n      RI -> Done

   Ghost state (not in the C structure, never read by a guard that decides a
   payload): [lock] carries the identity of the holder; [round] = number of n-th
   arrivals so far; [entered t] = value of [round] when t's arrival was counted;
   [cur] = callers counted in the round that is being collected (cleared when
   the counter is reset).

   Model code only; proofs are in BarrierProofs.v. *)
From Coq Require Import List Arith ZArith Bool.
Import ListNotations.

Inductive kind := KU (* ULT *) | KE (* external thread *) | KT (* tasklet *).

Inductive pcT :=
| Idle     (* not in an operation *)
| W0       (* ABT_barrier_wait: about to acquire(lock) *)
| W1       (* holds lock: about to counter++ *)
| WQ       (* holds lock, counter < num_waiters: about to append its node to the wait list *)
| UQ       (* ULT: queued, context being switched; the callback will release(lock) on its behalf *)
| US       (* ULT: BLOCKED, queued, lock released *)
| UR       (* ULT: made READY by the broadcast, not yet returned *)
| EW       (* external: holds lock, queued, not READY *)
| EWr      (* external: holds lock (re-acquired), already READY *)
| ES       (* external: queued, lock released, sleeping on the futex / between checks *)
| ER       (* external: READY, has not noticed yet *)
| WB0      (* last arrival, holds lock: broadcast not started *)
| WB1      (* last arrival, holds lock: woke at least one node *)
| WC       (* last arrival, holds lock: broadcast finished, about to reset the counter *)
| WR       (* last arrival, holds lock: counter reset, about to release(lock) *)
| DoneW    (* ABT_barrier_wait has passed the barrier, about to return ABT_SUCCESS *)
| RI       (* ABT_barrier_reinit: about to store num_waiters *)
| Done.    (* other operation finished, about to return [ret] *)

Inductive opk := OWait (k : kind) | OReinit (m : nat).

Inductive ev :=
| EBegin (t : nat) (o : opk)       (* harness: API call starts *)
| EEnd   (t : nat) (r : Z)         (* harness: API call returned r *)
| EAcq   (t : nat)                 (* ABTD_spinlock_acquire(&p_barrier->lock) succeeded *)
| ERel                             (* ABTD_spinlock_release(&p_barrier->lock) *)
| EData  (t : nat) (fld v : nat)   (* fld 1: counter := v; fld 2: num_waiters := v *)
| EEnq   (t : nat) (ult : bool)    (* wait-list append of t's node *)
| EWake  (u x : nat)               (* u's broadcast loop wakes node x *)
| EBcast (u : nat).                (* u's broadcast loop finished, head = tail = NULL *)

Record st := mk {
  lock    : option nat;      (* lock word: Some t = taken by (or on behalf of) t *)
  n       : nat;             (* num_waiters *)
  counter : nat;
  bwl     : list nat;        (* wait list, head first *)
  pc      : nat -> pcT;
  isU     : nat -> bool;     (* caller of the current wait is a ULT *)
  arg     : nat -> nat;      (* argument of the caller's reinit *)
  ret     : nat -> Z;        (* return code of the caller's finished operation *)
  round   : nat;             (* ghost *)
  entered : nat -> nat;      (* ghost *)
  cur     : list nat         (* ghost *)
}.

Definition ERR_BARRIER : Z := 46%Z.
Definition ERR_INV_ARG : Z := 53%Z.

Definition upd {A} (f : nat -> A) (t : nat) (v : A) : nat -> A :=
  fun x => if Nat.eqb x t then v else f x.
Definition oeq (o : option nat) (x : nat) : bool :=
  match o with Some y => Nat.eqb y x | None => false end.
Definition is_none {A} (o : option A) : bool := match o with Some _ => false | None => true end.
Definition is_nil {A} (l : list A) : bool := match l with [] => true | _ => false end.

Definition set_pc (s : st) (t : nat) (p : pcT) : st :=
  mk (lock s) (n s) (counter s) (bwl s) (upd (pc s) t p) (isU s) (arg s) (ret s) (round s) (entered s) (cur s).
Definition set_lock_pc (s : st) (l : option nat) (t : nat) (p : pcT) : st :=
  mk l (n s) (counter s) (bwl s) (upd (pc s) t p) (isU s) (arg s) (ret s) (round s) (entered s) (cur s).
Definition finish (s : st) (l : option nat) (t : nat) (p : pcT) (r : Z) : st :=
  mk l (n s) (counter s) (bwl s) (upd (pc s) t p) (isU s) (arg s) (upd (ret s) t r) (round s) (entered s) (cur s).

Definition step (s : st) (e : ev) : option st :=
  match e with
  | EBegin t o =>
      match pc s t, o with
      | Idle, OWait KT =>
          (* 1.x API: a tasklet gets ABT_ERR_BARRIER; the barrier is not touched *)
          Some (finish s (lock s) t Done ERR_BARRIER)
      | Idle, OWait k =>
          Some (mk (lock s) (n s) (counter s) (bwl s) (upd (pc s) t W0)
                   (upd (isU s) t (match k with KU => true | _ => false end))
                   (arg s) (ret s) (round s) (entered s) (cur s))
      | Idle, OReinit m =>
          match m with
          | O => Some (finish s (lock s) t Done ERR_INV_ARG)
          | _ =>
              (* contract: no round in progress (ABTI_UB_ASSERT(counter == 0), not thread safe) *)
              if is_none (lock s) && Nat.eqb (counter s) 0 then
                if Nat.eqb m (n s) then Some (finish s (lock s) t Done 0%Z)
                else Some (mk (lock s) (n s) (counter s) (bwl s) (upd (pc s) t RI) (isU s)
                              (upd (arg s) t m) (ret s) (round s) (entered s) (cur s))
              else None
          end
      | _, _ => None
      end
  | EEnd t r =>
      match pc s t with
      | UR | ER => if Z.eqb r 0 then Some (set_pc s t Idle) else None
      | DoneW | Done => if Z.eqb (ret s t) r then Some (set_pc s t Idle) else None
      | _ => None
      end
  | EAcq t =>
      match lock s with
      | Some _ => None
      | None =>
          match pc s t with
          | W0 => Some (set_lock_pc s (Some t) t W1)
          | ES => Some (set_lock_pc s (Some t) t EW)
          | ER => Some (set_lock_pc s (Some t) t EWr)
          | _ => None
          end
      end
  | ERel =>
      match lock s with
      | None => None
      | Some t =>
          match pc s t with
          | UQ => Some (set_lock_pc s None t US)
          | EW => Some (set_lock_pc s None t ES)
          | EWr => Some (finish s None t DoneW 0%Z)
          | WR => Some (finish s None t DoneW 0%Z)
          | _ => None
          end
      end
  | EData t fld v =>
      match fld with
      | 1 =>
          match pc s t with
          | W1 =>
              (* counter++ ; if (counter < num_waiters) wait else broadcast *)
              if Nat.eqb v (S (counter s)) then
                if Nat.ltb v (n s) then
                  Some (mk (lock s) (n s) v (bwl s) (upd (pc s) t WQ) (isU s) (arg s) (ret s)
                           (round s) (upd (entered s) t (round s)) (cur s ++ [t]))
                else
                  Some (mk (lock s) (n s) v (bwl s) (upd (pc s) t WB0) (isU s) (arg s) (ret s)
                           (S (round s)) (upd (entered s) t (round s)) (cur s ++ [t]))
              else None
          | WB0 =>
              (* broadcast on an empty list does nothing; counter = 0 *)
              if Nat.eqb v 0 && is_nil (bwl s) then
                Some (mk (lock s) (n s) 0 (bwl s) (upd (pc s) t WR) (isU s) (arg s) (ret s)
                         (round s) (entered s) [])
              else None
          | WC =>
              if Nat.eqb v 0 then
                Some (mk (lock s) (n s) 0 (bwl s) (upd (pc s) t WR) (isU s) (arg s) (ret s)
                         (round s) (entered s) [])
              else None
          | _ => None
          end
      | 2 =>
          match pc s t with
          | RI =>
              if Nat.eqb v (arg s t) && is_none (lock s) && Nat.eqb (counter s) 0 then
                Some (mk (lock s) v (counter s) (bwl s) (upd (pc s) t Done) (isU s) (arg s)
                         (upd (ret s) t 0%Z) (round s) (entered s) (cur s))
              else None
          | _ => None
          end
      | _ => None
      end
  | EEnq t ult =>
      match pc s t with
      | WQ => if Bool.eqb ult (isU s t) then
                Some (mk (lock s) (n s) (counter s) (bwl s ++ [t]) (upd (pc s) t (if ult then UQ else EW))
                         (isU s) (arg s) (ret s) (round s) (entered s) (cur s))
              else None
      | _ => None
      end
  | EWake u x =>
      match bwl s with
      | y :: rest =>
          if oeq (lock s) u && Nat.eqb x y then
            match pc s u, pc s x with
            | (WB0 | WB1), US =>
                Some (mk (lock s) (n s) (counter s) rest (upd (upd (pc s) x UR) u WB1)
                         (isU s) (arg s) (ret s) (round s) (entered s) (cur s))
            | (WB0 | WB1), ES =>
                Some (mk (lock s) (n s) (counter s) rest (upd (upd (pc s) x ER) u WB1)
                         (isU s) (arg s) (ret s) (round s) (entered s) (cur s))
            | _, _ => None
            end
          else None
      | [] => None
      end
  | EBcast u =>
      if oeq (lock s) u && is_nil (bwl s) then
        match pc s u with
        | WB1 => Some (set_pc s u WC)
        | _ => None
        end
      else None
  end.

Definition init (n0 : nat) : st :=
  mk None n0 0 [] (fun _ => Idle) (fun _ => false) (fun _ => 0) (fun _ => 0%Z) 0 (fun _ => 0) [].

Fixpoint run (s : st) (tr : list ev) : option st :=
  match tr with
  | [] => Some s
  | e :: r => match step s e with Some s' => run s' r | None => None end
  end.

(* replay with position of the first rejected event (for the driver) *)
Fixpoint replay (s : st) (tr : list ev) (i : nat) : st * option nat :=
  match tr with
  | [] => (s, None)
  | e :: r => match step s e with Some s' => replay s' r (S i) | None => (s, Some i) end
  end.

(* ---- classification of program counters (used by the theorems) ---- *)
(* holds p_barrier->lock *)
Definition inl (p : pcT) : bool :=
  match p with W1 | WQ | UQ | EW | EWr | WB0 | WB1 | WC | WR => true | _ => false end.
(* its node is in the wait list *)
Definition queued (p : pcT) : bool :=
  match p with UQ | US | EW | ES => true | _ => false end.
(* counted in the round being collected and not yet released *)
Definition blocked (p : pcT) : bool :=
  match p with WQ | UQ | US | EW | ES => true | _ => false end.
(* has passed the barrier (woken, or was the last arrival), wait not yet returned *)
Definition released (p : pcT) : bool :=
  match p with UR | ER | EWr | WB0 | WB1 | WC | WR | DoneW => true | _ => false end.
(* the last arrival between its counter++ and the reset *)
Definition isb (p : pcT) : bool :=
  match p with WB0 | WB1 | WC => true | _ => false end.
