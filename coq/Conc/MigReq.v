(* C13 — the migration REQUEST protocol of one work unit, with the re-check that
   repaired finding F6 (/repo 5ac8a26):

     requester  (thread.c thread_migrate_to_pool / ABT_thread_migrate...):
        store p_mig_data->p_migration_pool := P          [RStore P]
        ABTI_thread_set_request(REQ_MIGRATE)   (fetch_or) [RSet]
     handler    (thread.c ABTI_thread_handle_request_migrate, run by the
                 scheduler that found the bit set at a scheduling point):
        p := load p_migration_pool                        [HLoad]
        ABTI_thread_set_associated_pool(p); callback      [HMove]
        ABTI_thread_unset_request(REQ_MIGRATE) (fetch_and)[HClear]
        q := load p_migration_pool                        [HReLoad]   (the repair)
        if (q != p) ABTI_thread_set_request(REQ_MIGRATE)  [HReSet]    (the repair)

   Any number of requesters, any interleaving of their two steps with the
   handler's five; [recheck = false] is the handler before the repair (HClear
   returns directly).  Model only in the first half; proofs below it.  This is a
   projection of the scheduler LTS (Conc/Sched.v events EReqOr/EMigLd/ESetPool/
   EMigCb/EReqAnd) onto one unit, extended by the two repair steps, which have
   no hook record of their own: they are tied to the code by outcome only (the
   F6 monitor of ocaml/drv_sched.ml on the gen_f6 scenarios). *)
From Coq Require Import List Arith Bool Lia.
Import ListNotations.

Inductive hpc :=
| HIdle
| HLoaded (p : nat)            (* target read, pool not yet changed *)
| HMoved (p : nat)             (* pool changed (and callback run), bit not yet cleared *)
| HCleared (p : nat)           (* bit cleared, target not yet re-read *)
| HChk (p : nat) (q : option nat).   (* target re-read as q *)

Record mst := mkm {
  tgt : option nat;     (* p_migration_pool *)
  bit : bool;           (* ABTI_THREAD_REQ_MIGRATE *)
  cur : nat;            (* the unit's associated pool *)
  hp : hpc;
  pend : nat;           (* requesters between their store and their fetch_or *)
  stored : list nat;    (* ghost: every target ever stored, newest first *)
  moves : list nat }.   (* ghost: every pool the handler moved the unit to, newest first *)

Inductive mact :=
| RStore (p : nat) | RSet | HLoad | HMove | HClear | HReLoad | HReSet.

Definition opt_eq (a b : option nat) : bool :=
  match a, b with
  | Some x, Some y => Nat.eqb x y
  | None, None => true
  | _, _ => false
  end.

Definition mstep (recheck : bool) (s : mst) (a : mact) : option mst :=
  match a with
  | RStore p => Some (mkm (Some p) (bit s) (cur s) (hp s) (S (pend s)) (p :: stored s) (moves s))
  | RSet =>
    match pend s with
    | O => None
    | S n => Some (mkm (tgt s) true (cur s) (hp s) n (stored s) (moves s))
    end
  | HLoad =>
    match hp s, bit s, tgt s with
    | HIdle, true, Some p => Some (mkm (tgt s) (bit s) (cur s) (HLoaded p) (pend s) (stored s) (moves s))
    | _, _, _ => None
    end
  | HMove =>
    match hp s with
    | HLoaded p => Some (mkm (tgt s) (bit s) p (HMoved p) (pend s) (stored s) (p :: moves s))
    | _ => None
    end
  | HClear =>
    match hp s with
    | HMoved p => Some (mkm (tgt s) false (cur s) (if recheck then HCleared p else HIdle)
                            (pend s) (stored s) (moves s))
    | _ => None
    end
  | HReLoad =>
    match hp s with
    | HCleared p => Some (mkm (tgt s) (bit s) (cur s) (HChk p (tgt s)) (pend s) (stored s) (moves s))
    | _ => None
    end
  | HReSet =>
    match hp s with
    | HChk p q => Some (mkm (tgt s) (if opt_eq q (Some p) then bit s else true) (cur s) HIdle
                            (pend s) (stored s) (moves s))
    | _ => None
    end
  end.

Fixpoint mrun (recheck : bool) (s : mst) (acts : list mact) : option mst :=
  match acts with
  | [] => Some s
  | a :: r => match mstep recheck s a with Some s' => mrun recheck s' r | None => None end
  end.

Definition minit (p0 : nat) : mst := mkm None false p0 HIdle 0 [] [].

(* nothing in flight: no requester between its two steps, the handler not
   running, and no request bit for a scheduler to find *)
Definition quiescent (s : mst) : Prop := hp s = HIdle /\ pend s = 0 /\ bit s = false.

(* ---------------------------------------------------------------------- *)
(* proofs *)

Lemma opt_eq_true a b : opt_eq a b = true -> a = b.
Proof.
  destruct a, b; cbn; try congruence. intros H. apply Nat.eqb_eq in H. congruence.
Qed.

Lemma opt_eq_refl a : opt_eq a a = true.
Proof. destruct a; cbn; auto. apply Nat.eqb_refl. Qed.

(* a stored target that differs from where the unit is (or is about to be) is
   still going to be looked at *)
Definition covered (s : mst) : Prop :=
  match hp s with
  | HIdle => forall t, tgt s = Some t -> t <> cur s -> bit s = true \/ pend s > 0
  | HLoaded _ => bit s = true
  | HMoved p => bit s = true /\ cur s = p
  | HCleared p => cur s = p
  | HChk p q => cur s = p /\
                (forall t, tgt s = Some t -> t <> p -> q = Some t \/ bit s = true \/ pend s > 0)
  end.

Record MInv (s : mst) : Prop := {
  m_cov : covered s;
  (* the bit is set / a requester is in flight / the handler runs only after a store *)
  m_tgt : tgt s = None -> bit s = false /\ pend s = 0 /\ hp s = HIdle /\ stored s = [];
  m_last : forall t, tgt s = Some t -> exists r, stored s = t :: r;
  (* the handler only ever moves the unit to a target somebody stored *)
  m_moves : forall p, In p (moves s) -> In p (stored s);
  m_hp : forall p, (hp s = HLoaded p \/ hp s = HMoved p \/ hp s = HCleared p \/ exists q, hp s = HChk p q) ->
                   In p (stored s);
  m_cur : moves s = [] \/ exists r, moves s = cur s :: r
}.

Lemma MInv_init p0 : MInv (minit p0).
Proof.
  constructor; cbn; auto; try discriminate.
  - intros p [H | [H | [H | (q & H)]]]; discriminate.
Qed.

Lemma mstep_inv s a s' : MInv s -> mstep true s a = Some s' -> MInv s'.
Proof.
  intros [Hc Ht Hl Hm Hh Hu] Hs. unfold covered in Hc. destruct a; cbn in Hs.
  - (* RStore *)
    inversion Hs; subst; clear Hs. constructor; cbn; try discriminate.
    + unfold covered in *. cbn. destruct (hp s) as [|p1|p1|p1|p1 q1]; auto.
      * intros; right; lia.
      * destruct Hc as [Hc1 Hc2]. split; auto. intros; right; right; lia.
    + intros t E. inversion E; subst. eauto.
    + intros p1 H. right. auto.
    + intros p1 H. right. apply Hh. exact H.
    + exact Hu.
  - (* RSet *)
    destruct (pend s) as [|n] eqn:Ep; [discriminate|]. inversion Hs; subst; clear Hs.
    constructor; cbn; auto.
    + unfold covered in *. cbn. destruct (hp s) as [|p1|p1|p1|p1 q1]; auto.
      * destruct Hc; auto.
      * destruct Hc as [Hc1 Hc2]. split; auto.
    + intros E. destruct (Ht E) as (_ & H & _). lia.
  - (* HLoad *)
    destruct (hp s) eqn:Eh; try discriminate. destruct (bit s) eqn:Eb; try discriminate.
    destruct (tgt s) as [p|] eqn:Et; try discriminate. inversion Hs; subst; clear Hs.
    constructor; cbn; auto.
    + discriminate.
    + intros p1 [H | [H | [H | (q & H)]]]; try discriminate. inversion H; subst.
      destruct (Hl _ eq_refl) as (r & E). rewrite E. left. reflexivity.
  - (* HMove *)
    destruct (hp s) eqn:Eh; try discriminate. inversion Hs; subst; clear Hs.
    constructor; cbn; auto.
    + intros E. destruct (Ht E) as (_ & _ & H & _). discriminate.
    + intros p1 [E | H]; [subst; apply Hh; auto | auto].
    + intros p1 [H | [H | [H | (q & H)]]]; try discriminate. inversion H; subst. apply Hh. auto.
    + right. eauto.
  - (* HClear *)
    destruct (hp s) eqn:Eh; try discriminate. inversion Hs; subst; clear Hs.
    constructor; cbn; auto.
    all: try solve [intros E; destruct (Ht E) as (_ & _ & H & _); discriminate].
    all: try solve [intros p1 [H | [H | [H | (q & H)]]]; try discriminate; inversion H; subst; apply Hh; eauto].
    all: try solve [destruct Hc; auto].
  - (* HReLoad *)
    destruct (hp s) eqn:Eh; try discriminate. inversion Hs; subst; clear Hs.
    constructor; cbn; auto.
    all: try solve [intros E; destruct (Ht E) as (_ & _ & H & _); discriminate].
    all: try solve [intros p1 [H | [H | [H | (q & H)]]]; try discriminate; inversion H; subst; apply Hh; eauto].
  - (* HReSet *)
    destruct (hp s) eqn:Eh; try discriminate. inversion Hs; subst; clear Hs.
    constructor; cbn; auto.
    all: try solve [intros E; destruct (Ht E) as (_ & _ & H & _); discriminate].
    all: try solve [intros p1 [H | [H | [H | (q1 & H)]]]; discriminate].
    destruct Hc as [Hc1 Hc2]. intros t E Hn. rewrite Hc1 in Hn.
    destruct (opt_eq q (Some p)) eqn:Eq; auto.
    destruct (Hc2 t E Hn) as [H | H]; auto. subst. cbn in Eq.
    apply Nat.eqb_eq in Eq. congruence.
Qed.

Lemma mrun_inv : forall acts s s', MInv s -> mrun true s acts = Some s' -> MInv s'.
Proof.
  induction acts as [|a r IH]; cbn; intros s s' HI Hr.
  - inversion Hr; subst; auto.
  - destruct (mstep true s a) as [s1|] eqn:Es; [|discriminate].
    exact (IH _ _ (mstep_inv _ _ _ HI Es) Hr).
Qed.

Lemma mstep_moves s a s' : mstep true s a = Some s' ->
  (cur s' = cur s /\ moves s' = moves s) \/ (exists m, moves s' = m :: moves s).
Proof.
  intros Es. destruct a; cbn in Es;
    repeat match goal with
           | H : match ?x with _ => _ end = Some _ |- _ => destruct x eqn:?; try discriminate
           end; inversion Es; subst; cbn; eauto.
Qed.

Lemma mrun_moves_grow : forall acts s1 s2, mrun true s1 acts = Some s2 ->
  exists pre, moves s2 = pre ++ moves s1.
Proof.
  induction acts as [|a r IH]; cbn; intros s1 s2 Hr.
  - inversion Hr; subst. exists []. reflexivity.
  - destruct (mstep true s1 a) as [s3|] eqn:Es; [|discriminate].
    destruct (IH _ _ Hr) as (pre & E).
    destruct (mstep_moves _ _ _ Es) as [[_ Hk] | (m & Hk)].
    + exists pre. rewrite E, Hk. reflexivity.
    + exists (pre ++ [m]). rewrite E, Hk, <- app_assoc. reflexivity.
Qed.

Lemma mrun_cur_unchanged : forall acts s0 s, mrun true s0 acts = Some s -> moves s = [] -> cur s = cur s0.
Proof.
  induction acts as [|a r IH]; cbn; intros s0 s Hr Hmv.
  - inversion Hr; subst; auto.
  - destruct (mstep true s0 a) as [s1|] eqn:Es; [|discriminate].
    destruct (mstep_moves _ _ _ Es) as [[Hk _] | (m & Hk)].
    + rewrite <- Hk. apply IH; auto.
    + exfalso. destruct (mrun_moves_grow _ _ _ Hr) as (pre & E). rewrite Hk, Hmv in E.
      destruct pre; discriminate.
Qed.

(* No acknowledged request is lost: whenever nothing is in flight, the unit is
   in the pool of the most recent request (if there was one). *)
Theorem migreq_no_lost_request p0 acts s : mrun true (minit p0) acts = Some s -> quiescent s ->
  match stored s with
  | [] => cur s = p0 /\ moves s = []
  | t :: _ => cur s = t
  end.
Proof.
  intros Hr (Hq1 & Hq2 & Hq3).
  pose proof (mrun_inv _ _ _ (MInv_init p0) Hr) as [Hc Ht Hl Hm Hh Hu].
  destruct (tgt s) as [t|] eqn:Et.
  - destruct (Hl _ eq_refl) as (r & E). rewrite E.
    unfold covered in Hc. rewrite Hq1 in Hc.
    destruct (Nat.eq_dec t (cur s)) as [|Hn]; auto.
    destruct (Hc t Et Hn) as [H | H]; [congruence | lia].
  - destruct (Ht eq_refl) as (_ & _ & _ & E). rewrite E.
    assert (Hmv : moves s = []).
    { destruct (moves s) as [|m r] eqn:Em; auto. exfalso.
      assert (H : In m (stored s)) by (apply Hm; left; reflexivity).
      rewrite E in H. destruct H. }
    split; auto. exact (mrun_cur_unchanged _ _ _ Hr Hmv).
Qed.

(* Progress of the protocol itself: a set bit with an idle handler can always be
   handled (the target is there), and a started handler can always finish. *)
Theorem migreq_handler_enabled p0 acts s : mrun true (minit p0) acts = Some s ->
  (hp s = HIdle -> bit s = true -> exists s', mstep true s HLoad = Some s') /\
  (forall p, hp s = HLoaded p -> exists s', mstep true s HMove = Some s') /\
  (forall p, hp s = HMoved p -> exists s', mstep true s HClear = Some s') /\
  (forall p, hp s = HCleared p -> exists s', mstep true s HReLoad = Some s') /\
  (forall p q, hp s = HChk p q -> exists s', mstep true s HReSet = Some s').
Proof.
  intros Hr. pose proof (mrun_inv _ _ _ (MInv_init p0) Hr) as [Hc Ht Hl Hm Hh Hu].
  repeat split.
  - intros H1 H2. cbn. rewrite H1, H2. destruct (tgt s) eqn:Et; eauto.
    destruct (Ht eq_refl) as (H & _). congruence.
  - intros p H. cbn. rewrite H. eauto.
  - intros p H. cbn. rewrite H. eauto.
  - intros p H. cbn. rewrite H. eauto.
  - intros p q H. cbn. rewrite H. eauto.
Qed.

(* The unit only ever goes where somebody asked it to go, and it is where the
   handler last put it. *)
Theorem migreq_moves_requested p0 acts s : mrun true (minit p0) acts = Some s ->
  (forall p, In p (moves s) -> In p (stored s)) /\
  (moves s = [] \/ exists r, moves s = cur s :: r).
Proof.
  intros Hr. pose proof (mrun_inv _ _ _ (MInv_init p0) Hr) as [Hc Ht Hl Hm Hh Hu]. auto.
Qed.

(* Without the re-check (the handler before /repo 5ac8a26) the first theorem is
   false: finding F6. *)
Definition f6_acts : list mact :=
  [RStore 1; RSet; HLoad; HMove; RStore 2; RSet; HClear].

Theorem migreq_no_recheck_refuted :
  exists s, mrun false (minit 0) f6_acts = Some s /\ quiescent s /\
            stored s = [2; 1] /\ cur s = 1.
Proof. eexists. split; [vm_compute; reflexivity|]. vm_compute. auto. Qed.

(* ... and the same schedule with the re-check ends with the bit set again, so
   the state is not quiescent and the handler runs once more *)
Example migreq_recheck_example :
  match mrun true (minit 0) (f6_acts ++ [HReLoad; HReSet]) with
  | Some s => bit s = true /\ hp s = HIdle /\ cur s = 1 /\
              match mrun true s [HLoad; HMove; HClear; HReLoad; HReSet] with
              | Some s' => quiescent s' /\ cur s' = 2 /\ moves s' = [2; 1]
              | None => False end
  | None => False end.
Proof. vm_compute. auto 10. Qed.
