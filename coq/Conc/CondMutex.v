(* LTS of one ABTI_cond together with the ABTI_mutex it is bound to
   (src/cond.c, src/include/abti_cond.h, abti_waitlist.h, abti_mutex.h), for
   unboundedly many callers.  The mutex part of the state IS a state of the
   C04 LTS (Conc/Mutex.v) and every action on the mutex is performed by
   [Mutex.step]; the condition variable adds its spinlock [clock], its wait list
   [cwl] (abstract: waiters in queue order, each tagged timed / untimed; the
   pointer-level list with p_prev repair on timeout is DS/Waitlist.v, C19) and
   the binding [wmx] = p_waiter_mutex.
   Labels = the records written by the ABT_VERIF hooks (spinlock ACQ/REL on the
   cond lock, wait-list ENQ / SIGNAL / WAKE / BCAST / TIMEOUT, DATA record of
   the binding) + BEGIN/END records written by the harness around each API call
   + the clock ticks of the harness' virtual clock.  One step = one atomic
   action of the C code.  Any caller may take any enabled step at any time.

   Programs (one pc constructor per program point):
   ABTI_cond_wait / ABT_cond_timedwait by a caller holding the mutex:
     CW0  acquire(cond lock)
          p_waiter_mutex == NULL      -> CW1: store it (DATA record)
          p_waiter_mutex != mutex     -> CF1: release(cond lock), ABT_ERR_INV_MUTEX
     CWU  the whole ABTI_mutex_unlock program (U1 acquire(waiter_lock), U2
          release(lock), U3 broadcast, release(waiter_lock)) WHILE HOLDING THE
          COND LOCK, then the enqueue:
       untimed, ULT     : ENQ(1) -> CUQ --release by the post-switch callback--> CUS (blocked)
       untimed, external: ENQ(0) -> CEW (holds cond lock) <-> CES (futex sleep)
       timed (dummy node, ENQ(2)) -> CTQ (holds cond lock)
          ULT     : release -> CTP  poll: READY? / now >= deadline? acquire(cond lock) -> CTT / yield
          external: now >= deadline? TIMEOUT : release -> CTS (timed futex sleep) -> acquire -> CTQ
       TIMEOUT record = the locked test "still not READY?" (verdict) followed by
       the unlink of the node when the verdict is "timed out".
     woken (CRdy, or READY noticed without a further record) or timed out (CTO):
          the whole ABTI_mutex_lock program (CWLs / CWLt), then return
          ABT_SUCCESS / ABT_ERR_COND_TIMEDOUT.
   ABT_cond_signal:    CS0 acquire; CS1 SIGNAL(head or none); CS2 release.
   ABT_cond_broadcast: CB0 acquire; CB1 (empty: release) WAKE(head)...; BCAST; CB2 release.

   Ghost fields (never read by a guard): [credit] is set by the SIGNAL / WAKE
   step that dequeues a waiter and cleared when that wait returns ABT_SUCCESS;
   [given] / [taken] count those two kinds of steps per waiter.

   Model code only; proofs are in CondMutexProofs.v. *)
From Coq Require Import List Arith ZArith Bool.
From ABT Require Import Conc.Mutex.
Import ListNotations.

Inductive cpcT :=
| CIdle
| CW0 | CW1 | CWU
| CF0 | CF1
| CUQ | CUS
| CEW | CES | CER | CEWr
| CTQ | CTP | CTPr | CTS | CTSr | CTQr | CTT | CTTr | CTX | CTXr
| CRdy | CTO
| CWLs | CWLt
| CS0 | CS1 | CS2
| CB0 | CB1 | CB1w | CB2.

Inductive kind := KUlt | KExt | KTask.
Inductive cop :=
| OWait (m : nat)               (* ABT_cond_wait(cond, mutex m) *)
| OTimed (m : nat) (d : Z)      (* ABT_cond_timedwait(cond, mutex m, deadline d) *)
| OSignal | OBcast.

Inductive cev :=
| CM (e : Mutex.ev)             (* any record of the mutex LTS (hook records on the mutex, BEGIN/END of mutex calls) *)
| CBegin (t : nat) (k : kind) (o : cop)
| CEnd (t : nat) (r : Z)
| CAcq (t : nat)                (* ABTD_spinlock_acquire(&p_cond->lock) succeeded *)
| CRel                          (* ABTD_spinlock_release(&p_cond->lock) *)
| CBind (t : nat) (m : nat)     (* p_cond->p_waiter_mutex = m *)
| CEnq (t : nat) (k : nat)      (* wait-list append: 0 external, 1 ULT, 2 timed dummy node *)
| CSignal (x : option nat)      (* ABTI_waitlist_signal: head (woken) or none *)
| CWake (x : nat)               (* ABTI_waitlist_broadcast wakes x *)
| CBcast                        (* broadcast loop finished, head = tail = NULL *)
| CTimeout (t : nat) (v : bool) (* timeout: locked test, v = is_timedout; unlink if v *)
| CTick (n : Z).                (* the clock now reads n *)

Record cst := cmk {
  ms : Mutex.st;                (* the mutex: a state of the C04 LTS *)
  mid : nat;                    (* identity of that mutex *)
  clock : option nat;           (* p_cond->lock: Some t = taken by t *)
  cwl : list (nat * bool);      (* p_cond->waitlist, head first: (waiter, timed) *)
  wmx : option nat;             (* p_cond->p_waiter_mutex *)
  cpc : nat -> cpcT;
  tmd : nat -> bool;            (* caller's current wait is a timedwait *)
  ulk : nat -> bool;            (* caller is a ULT (yieldable) *)
  dl : nat -> Z;                (* deadline of the caller's current timedwait *)
  now : Z;                      (* the clock *)
  cret : nat -> Z;              (* return code of the caller's last finished cond call *)
  credit : nat -> bool;         (* ghost: dequeued by a signal/broadcast, wait not yet returned *)
  given : nat -> nat;           (* ghost: number of times dequeued by a signal/broadcast *)
  taken : nat -> nat            (* ghost: number of waits returned ABT_SUCCESS *)
}.

Definition ERR_INV_MUTEX : Z := 20%Z.
Definition ERR_COND : Z := 41%Z.
Definition ERR_COND_TIMEDOUT : Z := 42%Z.

Definition set_ms (s : cst) (m : Mutex.st) : cst :=
  cmk m (mid s) (clock s) (cwl s) (wmx s) (cpc s) (tmd s) (ulk s) (dl s) (now s) (cret s) (credit s) (given s) (taken s).
Definition set_cpc (s : cst) (t : nat) (p : cpcT) : cst :=
  cmk (ms s) (mid s) (clock s) (cwl s) (wmx s) (upd (cpc s) t p) (tmd s) (ulk s) (dl s) (now s) (cret s) (credit s) (given s) (taken s).
Definition set_clock (s : cst) (c : option nat) : cst :=
  cmk (ms s) (mid s) c (cwl s) (wmx s) (cpc s) (tmd s) (ulk s) (dl s) (now s) (cret s) (credit s) (given s) (taken s).
Definition set_cwl (s : cst) (l : list (nat * bool)) : cst :=
  cmk (ms s) (mid s) (clock s) l (wmx s) (cpc s) (tmd s) (ulk s) (dl s) (now s) (cret s) (credit s) (given s) (taken s).
Definition set_wmx (s : cst) (w : option nat) : cst :=
  cmk (ms s) (mid s) (clock s) (cwl s) w (cpc s) (tmd s) (ulk s) (dl s) (now s) (cret s) (credit s) (given s) (taken s).
Definition set_cret (s : cst) (t : nat) (r : Z) : cst :=
  cmk (ms s) (mid s) (clock s) (cwl s) (wmx s) (cpc s) (tmd s) (ulk s) (dl s) (now s) (upd (cret s) t r) (credit s) (given s) (taken s).
Definition set_now (s : cst) (n : Z) : cst :=
  cmk (ms s) (mid s) (clock s) (cwl s) (wmx s) (cpc s) (tmd s) (ulk s) (dl s) n (cret s) (credit s) (given s) (taken s).
(* a wait / timedwait call starts *)
Definition set_call (s : cst) (t : nat) (p : cpcT) (timed ult : bool) (d : Z) : cst :=
  cmk (ms s) (mid s) (clock s) (cwl s) (wmx s) (upd (cpc s) t p) (upd (tmd s) t timed) (upd (ulk s) t ult)
     (upd (dl s) t d) (now s) (cret s) (credit s) (given s) (taken s).
(* ghost: x is dequeued by a signal / broadcast *)
Definition give (s : cst) (x : nat) : cst :=
  cmk (ms s) (mid s) (clock s) (cwl s) (wmx s) (cpc s) (tmd s) (ulk s) (dl s) (now s) (cret s)
     (upd (credit s) x true) (upd (given s) x (S (given s x))) (taken s).
(* ghost: t's wait returns ABT_SUCCESS *)
Definition take (s : cst) (t : nat) : cst :=
  cmk (ms s) (mid s) (clock s) (cwl s) (wmx s) (cpc s) (tmd s) (ulk s) (dl s) (now s) (cret s)
     (upd (credit s) t false) (given s) (upd (taken s) t (S (taken s t))).

(* pc of a waiter x after it has been dequeued and made READY / resumed *)
Definition woken_pc (p : cpcT) : option cpcT :=
  match p with
  | CUS => Some CRdy      (* blocked ULT: ABTI_ythread_resume_and_push *)
  | CES => Some CER       (* external thread asleep on the futex: state = READY, futex broadcast *)
  | CTP => Some CTPr      (* timed, polling ULT: dummy node's state = READY *)
  | CTS => Some CTSr      (* timed, external asleep: dummy node's state = READY *)
  | _ => None
  end.

(* dequeue the head x on behalf of a signal / broadcast *)
Definition wake_head (s : cst) (x : nat) : option cst :=
  match cwl s with
  | (y, _) :: rest =>
      if Nat.eqb x y then
        match woken_pc (cpc s x) with
        | Some p => Some (give (set_cpc (set_cwl s rest) x p) x)
        | None => None
        end
      else None
  | [] => None
  end.

Definition unlink (x : nat) (l : list (nat * bool)) : list (nat * bool) :=
  filter (fun e => negb (Nat.eqb (fst e) x)) l.

(* the caller starts ABTI_mutex_unlock(mutex): must be the final unlock (not nested) *)
Definition begin_unlock (s : cst) (t : nat) : option cst :=
  match Mutex.step (ms s) (EBegin t OUnlock) with
  | Some m' => match pc m' t with
               | U1 => Some (set_cpc (set_ms s m') t CWU)
               | _ => None   (* recursive mutex locked more than once: excluded by the API contract *)
               end
  | None => None
  end.

Definition cstep (s : cst) (e : cev) : option cst :=
  match e with
  | CM me =>
      match me with
      | EBegin t _ | EEnd t _ =>
          (* a mutex API call of the client: only outside a cond call *)
          match cpc s t with
          | CIdle => match Mutex.step (ms s) me with Some m' => Some (set_ms s m') | None => None end
          | _ => None
          end
      | ETry t f =>
          match cpc s t, pc (ms s) t with
          | (CRdy | CER | CTPr | CTSr), Idle =>
              (* woken: ABTI_mutex_lock starts, first try_acquire *)
              match Mutex.step (ms s) (EBegin t OLock) with
              | Some m1 => match Mutex.step m1 me with
                           | Some m' => Some (set_cpc (set_ms s m') t CWLs)
                           | None => None
                           end
              | None => None
              end
          | CTO, Idle =>
              match Mutex.step (ms s) (EBegin t OLock) with
              | Some m1 => match Mutex.step m1 me with
                           | Some m' => Some (set_cpc (set_ms s m') t CWLt)
                           | None => None
                           end
              | None => None
              end
          | _, _ => match Mutex.step (ms s) me with Some m' => Some (set_ms s m') | None => None end
          end
      | _ => match Mutex.step (ms s) me with Some m' => Some (set_ms s m') | None => None end
      end
  | CBegin t k o =>
      match cpc s t with
      | CIdle =>
          match o with
          | OSignal => Some (set_cpc s t CS0)
          | OBcast => Some (set_cpc s t CB0)
          | OWait m =>
              match k with
              | KTask => Some (set_cret s t ERR_COND)       (* ABT_cond_wait on a tasklet: refused at once *)
              | _ =>
                  if Nat.eqb m (mid s) then
                    match pc (ms s) t, nest (ms s) with
                    | Holding, O => Some (set_call s t CW0 false (match k with KUlt => true | _ => false end) 0%Z)
                    | _, _ => None                          (* contract: mutex locked, exactly once *)
                    end
                  else
                    match wmx s with
                    | Some _ => Some (set_call s t CF0 false (match k with KUlt => true | _ => false end) 0%Z)
                    | None => None    (* would bind the cond to another mutex: this instance is for [mid] *)
                    end
              end
          | OTimed m d =>
              if Nat.eqb m (mid s) then
                match pc (ms s) t, nest (ms s) with
                | Holding, O => Some (set_call s t CW0 true (match k with KUlt => true | _ => false end) d)
                | _, _ => None
                end
              else
                match wmx s with
                | Some _ => Some (set_call s t CF0 true (match k with KUlt => true | _ => false end) d)
                | None => None
                end
          end
      | _ => None
      end
  | CEnd t r =>
      match cpc s t with
      | CIdle => if Z.eqb (cret s t) r then Some s else None
      | CWLs =>
          match pc (ms s) t with
          | Holding => if Z.eqb r 0 then Some (take (set_cret (set_cpc s t CIdle) t 0%Z) t) else None
          | _ => None
          end
      | CWLt =>
          match pc (ms s) t with
          | Holding => if Z.eqb r ERR_COND_TIMEDOUT then Some (set_cret (set_cpc s t CIdle) t ERR_COND_TIMEDOUT) else None
          | _ => None
          end
      | _ => None
      end
  | CAcq t =>
      match clock s with
      | Some _ => None
      | None =>
          let s1 := set_clock s (Some t) in
          match cpc s t with
          | CW0 =>
              match wmx s with
              | None => Some (set_cpc s1 t CW1)
              | Some m' => if Nat.eqb m' (mid s) then begin_unlock s1 t else Some (set_cpc s1 t CF1)
              end
          | CF0 => match wmx s with
                   | Some m' => if Nat.eqb m' (mid s) then Some (set_cpc s1 t CF1) else None
                   | None => None
                   end
          | CES => Some (set_cpc s1 t CEW)
          | CER => Some (set_cpc s1 t CEWr)
          | CTP => if Z.leb (dl s t) (now s) then Some (set_cpc s1 t CTT) else None
          | CTPr => if Z.leb (dl s t) (now s) then Some (set_cpc s1 t CTTr) else None
          | CTS => Some (set_cpc s1 t CTQ)
          | CTSr => Some (set_cpc s1 t CTQr)
          | CS0 => Some (set_cpc s1 t CS1)
          | CB0 => Some (set_cpc s1 t CB1)
          | _ => None
          end
      end
  | CBind t m =>
      match cpc s t, clock s, wmx s with
      | CW1, Some u, None =>
          if Nat.eqb u t && Nat.eqb m (mid s) then begin_unlock (set_wmx s (Some m)) t else None
      | _, _, _ => None
      end
  | CEnq t k =>
      match cpc s t, clock s, pc (ms s) t with
      | CWU, Some u, Idle =>
          if Nat.eqb u t then
            let s1 := set_cwl s (cwl s ++ [(t, tmd s t)]) in
            match k, tmd s t, ulk s t with
            | 2, true, _ => Some (set_cpc s1 t CTQ)
            | 1, false, true => Some (set_cpc s1 t CUQ)
            | 0, false, false => Some (set_cpc s1 t CEW)
            | _, _, _ => None
            end
          else None
      | _, _, _ => None
      end
  | CRel =>
      match clock s with
      | None => None
      | Some t =>
          let s1 := set_clock s None in
          match cpc s t with
          | CF1 => Some (set_cret (set_cpc s1 t CIdle) t ERR_INV_MUTEX)
          | CUQ => Some (set_cpc s1 t CUS)
          | CEW => Some (set_cpc s1 t CES)
          | CEWr => Some (set_cpc s1 t CRdy)
          | CTQ => Some (set_cpc s1 t (if ulk s t then CTP else CTS))
          | CTQr => Some (set_cpc s1 t CRdy)
          | CTX => Some (set_cpc s1 t CTO)
          | CTXr => Some (set_cpc s1 t CRdy)
          | CS2 => Some (set_cret (set_cpc s1 t CIdle) t 0%Z)
          | CB1 => match cwl s with [] => Some (set_cret (set_cpc s1 t CIdle) t 0%Z) | _ => None end
          | CB2 => Some (set_cret (set_cpc s1 t CIdle) t 0%Z)
          | _ => None
          end
      end
  | CSignal o =>
      match clock s with
      | Some u =>
          match cpc s u with
          | CS1 =>
              match o, cwl s with
              | None, [] => Some (set_cpc s u CS2)
              | Some x, _ :: _ =>
                  match wake_head s x with
                  | Some s1 => Some (set_cpc s1 u CS2)
                  | None => None
                  end
              | _, _ => None
              end
          | _ => None
          end
      | None => None
      end
  | CWake x =>
      match clock s with
      | Some u =>
          match cpc s u with
          | CB1 | CB1w =>
              match wake_head s x with
              | Some s1 => Some (set_cpc s1 u CB1w)
              | None => None
              end
          | _ => None
          end
      | None => None
      end
  | CBcast =>
      match clock s with
      | Some u =>
          match cpc s u, cwl s with
          | CB1w, [] => Some (set_cpc s u CB2)
          | _, _ => None
          end
      | None => None
      end
  | CTimeout t v =>
      match clock s with
      | Some u =>
          if Nat.eqb u t && Z.leb (dl s t) (now s) then
            match cpc s t, v with
            | CTT, true => Some (set_cpc (set_cwl s (unlink t (cwl s))) t CTX)
            | CTQ, true => if ulk s t then None else Some (set_cpc (set_cwl s (unlink t (cwl s))) t CTX)
            | CTTr, false | CTQr, false => Some (set_cpc s t CTXr)
            | _, _ => None
            end
          else None
      | None => None
      end
  | CTick n => if Z.leb (now s) n then Some (set_now s n) else None
  end.

Definition cinit (rec : bool) (m : nat) (t0 : Z) : cst :=
  cmk (Mutex.init rec) m None [] None (fun _ => CIdle) (fun _ => false) (fun _ => false) (fun _ => 0%Z) t0
     (fun _ => 0%Z) (fun _ => false) (fun _ => 0) (fun _ => 0).

Fixpoint crun (s : cst) (tr : list cev) : option cst :=
  match tr with
  | [] => Some s
  | e :: r => match cstep s e with Some s' => crun s' r | None => None end
  end.

Fixpoint creplay (s : cst) (tr : list cev) (i : nat) : cst * option nat :=
  match tr with
  | [] => (s, None)
  | e :: r => match cstep s e with Some s' => creplay s' r (S i) | None => (s, Some i) end
  end.

(* ---- classification of program points (used by the theorems and by the driver's monitors) ---- *)
(* holds the cond lock *)
Definition inclk (p : cpcT) : bool :=
  match p with
  | CW1 | CWU | CF1 | CUQ | CEW | CEWr | CTQ | CTQr | CTT | CTTr | CTX | CTXr | CS1 | CS2 | CB1 | CB1w | CB2 => true
  | _ => false
  end.
(* node is in the cond wait list *)
Definition cqueued (p : cpcT) : bool :=
  match p with CUQ | CUS | CEW | CES | CTQ | CTP | CTS | CTT => true | _ => false end.
(* dequeued by a signal / broadcast, wait not yet returned *)
Definition credited (p : cpcT) : bool :=
  match p with CRdy | CER | CEWr | CTPr | CTSr | CTQr | CTTr | CTXr | CWLs => true | _ => false end.
(* inside ABT_cond_wait / timedwait on the bound mutex, before the mutex has been released and the node enqueued *)
Definition prewait (p : cpcT) : bool := match p with CW0 | CW1 | CWU => true | _ => false end.
(* inside a wait / timedwait on the bound mutex, not yet woken, not yet timed out *)
Definition waiting (p : cpcT) : bool := prewait p || cqueued p.
