(* C14 — bounded cross-check between the two models of src/unit.c: when one
   thread executes whole map / unmap / get operations of the LTS
   (Conc/UnitMapConc.v, pointer level) one after the other, the chain of every
   bucket and every result are those of the list-level functions of
   DS/UnitMap.v.  Checked by computation on ALL contract-respecting operation
   sequences up to a given length over three colliding handles and one handle
   of another bucket (map with succeeding and with failing malloc, unmap,
   get).  This is a bounded check (an [Example]), not a theorem: it guards
   against the two hand-written models drifting apart. *)
From Coq Require Import List ZArith Bool Arith.
From ABT Require Import Common.ListAux DS.UnitMap Conc.UnitMapConc.
Import ListNotations.
Local Open Scope Z_scope.

(* the chain of a bucket as a list of (unit, p_thread) *)
Fixpoint chain (cs : list cell) (p : option nat) (fuel : nat) : bucket :=
  match fuel with
  | O => []
  | S k => match p with
           | None => []
           | Some c => match nth_error cs c with
                       | None => []
                       | Some x => (cu x, cth x) :: chain cs (cnext x) k
                       end
           end
  end.
Definition bucket_of (s : state) (h : Z) : bucket := chain (cells s) (heads s h) (length (cells s)).

Definition bind {A B} (o : option A) (f : A -> option B) : option B :=
  match o with Some a => f a | None => None end.

(* thread 0 runs one whole operation *)
Definition lts_map (s : state) (u th : Z) (ok : bool) : option (state * bool) :=
  bind (step s 0%nat (AMapBegin u th)) (fun s1 =>
  bind (step s1 0%nat (AMapScan ok)) (fun s2 =>
  bind (match pcs s2 0%nat with
        | MapStoreThr _ _ _ => step s2 0%nat AMapStoreThr
        | MapPublish _ _ _ => step s2 0%nat AMapPublish
        | _ => Some s2
        end) (fun s3 =>
  let r := match pcs s3 0%nat with MapRelease _ _ b => b | _ => false end in
  bind (step s3 0%nat AMapRelease) (fun s4 => Some (s4, r))))).

Definition lts_unmap (s : state) (u : Z) : option state :=
  bind (step s 0%nat (AUnmapBegin u)) (fun s1 =>
  bind (step s1 0%nat AUnmapStore) (fun s2 =>
  match pcs s2 0%nat with
  | UnmapRelease _ => step s2 0%nat AUnmapRelease
  | _ => None
  end)).

Fixpoint lts_get_loop (s : state) (fuel : nat) : option (state * Z) :=
  match fuel with
  | O => None
  | S k =>
      match pcs s 0%nat with
      | GetAt _ _ _ _ => bind (step s 0%nat AGetCmp) (fun s' => lts_get_loop s' k)
      | GetHit _ _ _ _ => bind (step s 0%nat AGetLoadThr) (fun s' => lts_get_loop s' k)
      | GetDone _ r _ _ => bind (step s 0%nat AGetEnd) (fun s' => Some (s', r))
      | _ => None
      end
  end.
Definition lts_get (s : state) (u : Z) : option (state * Z) :=
  bind (step s 0%nat (AGetBegin u)) (fun s1 => lts_get_loop s1 (S (S (S (length (cells s)))))).

Definition lts_op (s : state) (o : top) : option (state * tres) :=
  match o with
  | TMap u th ok => bind (lts_map s u th ok) (fun '(s', r) => Some (s', TRmap r))
  | TUnmap u => bind (lts_unmap s u) (fun s' => Some (s', TRunmap))
  | TGet u => bind (lts_get s u) (fun '(s', r) => Some (s', TRget r))
  end.

Definition tres_eqb (a b : tres) : bool :=
  match a, b with
  | TRmap x, TRmap y => Bool.eqb x y
  | TRunmap, TRunmap => true
  | TRget x, TRget y => x =? y
  | _, _ => false
  end.
Definition cell_eqb (a b : Z * Z) : bool := (fst a =? fst b) && (snd a =? snd b).
Fixpoint bucket_eqb (a b : bucket) : bool :=
  match a, b with
  | [], [] => true
  | x :: a', y :: b' => cell_eqb x y && bucket_eqb a' b'
  | _, _ => false
  end.

(* run both models in lock step and compare results and the listed buckets *)
Fixpoint agree (hs : list Z) (s : state) (t : table) (ops : list top) : bool :=
  match ops with
  | [] => forallb (fun h => bucket_eqb (bucket_of s h) (nth_bucket t (Z.to_nat h))) hs
  | o :: ops' =>
      match lts_op s o, tstep t o with
      | Some (s', r), Some (t', r') => tres_eqb r r' && agree hs s' t' ops'
      | None, None => true      (* both refuse: contract broken *)
      | _, _ => false
      end
  end.

(* all contract-respecting sequences of length <= n over the handles [us];
   [mapped] = handles currently mapped; thread ids are made distinct by [k] *)
Fixpoint seqs (n : nat) (us mapped : list Z) (k : Z) : list (list top) :=
  match n with
  | O => [[]]
  | S n' =>
      [] ::
      flat_map (fun u =>
        if existsb (Z.eqb u) mapped then
          map (cons (TUnmap u)) (seqs n' us (filter (fun v => negb (v =? u)) mapped) k) ++
          map (cons (TGet u)) (seqs n' us mapped k)
        else
          map (cons (TMap u (16 * k) true)) (seqs n' us (u :: mapped) (k + 1)) ++
          (* a failing malloc may or may not fail the map: continue only with a get-free tail *)
          [[TMap u (16 * k) false]]) us
  end.

Definition handles : list Z := [296; 2336; 4376; 304].
Definition buckets : list Z := [37; 38].

Example handles_collide : map hash_index handles = [37; 37; 37; 38].
Proof. vm_compute. reflexivity. Qed.

Definition check_upto (n : nat) : bool :=
  forallb (agree buckets init tbl_init) (seqs n handles [] 1).

Example lts_matches_list_model_bounded :
  check_upto 5 = true /\ (3000 <? length (seqs 5 handles [] 1))%nat = true.
Proof. vm_compute. split; reflexivity. Qed.
