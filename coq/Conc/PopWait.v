(* C19 — blocking pool pops: LTS of the waiting loops
     src/pool/fifo.c     pool_pop_wait, pool_pop_timedwait
     src/pool/randws.c   pool_pop_wait (head or tail by context), pool_pop_timedwait
     src/pool/fifo_wait.c pool_pop_wait, pool_pop_timedwait (pthread mutex + condvar)
   with concurrent pushers, other consumers and a clock advanced by the
   environment.  One waiter step = one unprotected atomic read (is_empty flag,
   clock) or one lock-protected section.  Model only; proofs in PopWaitProofs.v.

   Time is an integer number of ticks (the C code uses double seconds; nothing
   below depends on the unit).  fifo.c / randws.c use `time_start == 0.0` as
   "not yet read": modelled literally (tstart = 0). *)
From Coq Require Import List Arith Bool ZArith.
Import ListNotations.
Local Open Scope Z_scope.

Inductive variant :=
| VPopWait      (* fifo.c / randws.c pool_pop_wait(time_secs) *)
| VTimedWait    (* fifo.c / randws.c pool_pop_timedwait(abstime_secs) *)
| VFifoWait.    (* fifo_wait.c pool_pop_wait / pool_pop_timedwait: one cond timedwait *)

Record cfg := mkcfg {
  kind : variant;
  from_tail : bool;   (* randws.c: context & POOL_CONTEXT_POP_TAIL *)
  secs : Z }.         (* time_secs (relative) resp. abstime_secs (absolute) *)

Inductive ppc :=
| PTest      (* thread_queue_acquire_spinlock_if_not_empty: load of is_empty *)
| PLocked    (* is_empty was 0: lock taken; pop; unlock *)
| PClock     (* pop_wait: time_start / elapsed test *)
| PSleep     (* nanosleep(100ns) *)
| PClock2    (* pop_timedwait: `if (ABTI_get_wtime() > abstime_secs)` after the sleep *)
| PEnter     (* fifo_wait.c: pthread_mutex_lock; is_empty test; enter cond wait or pop *)
| PCondWait  (* fifo_wait.c: inside pthread_cond_timedwait (mutex released) *)
| PDone (r : option nat).   (* returned r (None = ABT_THREAD_NULL / ABT_UNIT_NULL) *)

Record st := mkst {
  pool : list nat;      (* the queue, head first *)
  clock : Z;            (* ABTI_get_wtime() *)
  tstart : Z;           (* local variable time_start *)
  wloc : ppc;
  pushed : list nat;    (* ghost: every unit ever put into the pool *)
  others : list nat }.  (* ghost: units taken by other consumers *)

Inductive pw_act :=
| PW_W                 (* one step of the waiter *)
| PW_Push (u : nat)    (* a concurrent pool_push (push_tail under the lock) of a fresh unit *)
| PW_OtherPop          (* a concurrent pop by another consumer *)
| PW_Tick (d : Z).     (* the clock advances by d >= 0 *)

Definition pop_head (l : list nat) : option (nat * list nat) :=
  match l with [] => None | u :: r => Some (u, r) end.

Definition pop_tail (l : list nat) : option (nat * list nat) :=
  match l with [] => None | _ => Some (last l 0%nat, removelast l) end.

(* which end is popped: only randws.c pool_pop_wait looks at the context
   (from_tail); fifo.c ignores it (from_tail = false there) and both
   pool_pop_timedwait always pop the head *)
Definition pop_unit (c : cfg) (l : list nat) : option (nat * list nat) :=
  match kind c with
  | VPopWait => if from_tail c then pop_tail l else pop_head l
  | _ => pop_head l
  end.

Definition is_nil (l : list nat) : bool := match l with [] => true | _ => false end.

Definition set_pc (s : st) (p : ppc) : st :=
  mkst (pool s) (clock s) (tstart s) p (pushed s) (others s).

(* where the loop goes after a failed pop attempt *)
Definition after_miss (c : cfg) : ppc :=
  match kind c with VPopWait => PClock | VTimedWait => PSleep | VFifoWait => PDone None end.

Definition wstep (c : cfg) (s : st) : option st :=
  match wloc s with
  | PTest =>
    if is_nil (pool s) then Some (set_pc s (after_miss c))     (* returns 1: lock not taken *)
    else Some (set_pc s PLocked)
  | PLocked =>
    (* thread_queue_pop_head / pop_tail returns NULL when another consumer
       emptied the queue in between *)
    match pop_unit c (pool s) with
    | Some (u, r) => Some (mkst r (clock s) (tstart s) (PDone (Some u)) (pushed s) (others s))
    | None => Some (set_pc s (after_miss c))
    end
  | PClock =>
    if tstart s =? 0
    then Some (mkst (pool s) (clock s) (clock s) PSleep (pushed s) (others s))
    else if clock s - tstart s >? secs c            (* elapsed > time_secs *)
         then Some (set_pc s (PDone None))
         else Some (set_pc s PSleep)
  | PSleep =>
    match kind c with
    | VTimedWait => Some (set_pc s PClock2)
    | _ => Some (set_pc s PTest)
    end
  | PClock2 =>
    if clock s >? secs c then Some (set_pc s (PDone None)) else Some (set_pc s PTest)
  | PEnter =>
    (* pthread_mutex_lock; if (is_empty) pthread_cond_timedwait(...) *)
    if is_nil (pool s) then Some (set_pc s PCondWait)
    else match pop_head (pool s) with
         | Some (u, r) => Some (mkst r (clock s) (tstart s) (PDone (Some u)) (pushed s) (others s))
         | None => None
         end
  | PCondWait =>
    (* the wait ends (signalled by a push, timed out in real time, or spuriously);
       mutex re-acquired; thread_queue_pop_head; unlock; return (possibly NULL) *)
    match pop_head (pool s) with
    | Some (u, r) => Some (mkst r (clock s) (tstart s) (PDone (Some u)) (pushed s) (others s))
    | None => Some (set_pc s (PDone None))
    end
  | PDone _ => None
  end.

Definition pw_in_b (x : nat) (l : list nat) : bool := existsb (Nat.eqb x) l.

Definition pw_step (c : cfg) (s : st) (a : pw_act) : option st :=
  match a with
  | PW_W => wstep c s
  | PW_Push u =>
    if pw_in_b u (pushed s) then None
    else Some (mkst (pool s ++ [u]) (clock s) (tstart s) (wloc s) (pushed s ++ [u]) (others s))
  | PW_OtherPop =>
    match pop_head (pool s) with
    | Some (u, r) => Some (mkst r (clock s) (tstart s) (wloc s) (pushed s) (others s ++ [u]))
    | None => None
    end
  | PW_Tick d =>
    if 0 <=? d then Some (mkst (pool s) (clock s + d) (tstart s) (wloc s) (pushed s) (others s))
    else None
  end.

Fixpoint pw_run (c : cfg) (s : st) (acts : list pw_act) : option st :=
  match acts with
  | [] => Some s
  | a :: r => match pw_step c s a with Some s' => pw_run c s' r | None => None end
  end.

Definition pw_entry (c : cfg) : ppc :=
  match kind c with VFifoWait => PEnter | _ => PTest end.

(* the call starts with the pool holding p0 (distinct units) at time t0 *)
Definition pw_init (c : cfg) (p0 : list nat) (t0 : Z) : st :=
  mkst p0 t0 0 (pw_entry c) p0 [].

Definition pw_result (s : st) : option (option nat) :=
  match wloc s with PDone r => Some r | _ => None end.

Fixpoint pw_count_w (acts : list pw_act) : nat :=
  match acts with
  | [] => 0%nat
  | PW_W :: r => S (pw_count_w r)
  | _ :: r => pw_count_w r
  end.

(* the deadline has passed as far as the loop can tell *)
Definition overdue (c : cfg) (s : st) : Prop :=
  match kind c with
  | VPopWait => tstart s <> 0 /\ clock s - tstart s > secs c
  | VTimedWait => clock s > secs c
  | VFifoWait => True
  end.

(* driver helper: run the waiter for at most n steps or until it returned *)
Fixpoint wsteps (c : cfg) (n : nat) (s : st) : st :=
  match n with
  | O => s
  | S n' => match wstep c s with Some s' => wsteps c n' s' | None => s end
  end.
