(* LTS of ABT_eventual (src/eventual.c, src/include/abti_waitlist.h) for one eventual
   and unboundedly many callers of any kind (ULT, external pthread, tasklet).
   Labels are exactly the records a history of the real library contains:
     - spinlock acquire / release on p_eventual->lock              (VAcq / VRel)
     - wait-list enqueue, per-node wake, broadcast-finished         (VEnq / VWake / VBcast)
     - the DATA record written next to `ready = TRUE` (set) and `ready = FALSE` (reset)
     - begin / end records written by the harness around each API call, and the
       harness' record of the buffer content it reads after wait / test (VRead)
   One step = one atomic action of the C code.  Everything between acquire and
   release of p_eventual->lock is done by the lock holder; the steps inside are
   kept separate so that their order (copy+ready, then wake each waiter, then
   release) is part of the model and is checked against recorded histories.
   The memcpy into the buffer has no record of its own; it is part of the
   `ready = TRUE` step (same critical section, immediately before the store).
   Values are one machine word (the first word of the buffer); sizes are in words.

   Model only; proofs are in EventualProofs.v. *)
From Coq Require Import List Arith ZArith Bool.
From ABT Require Import Conc.EvCommon.
Import ListNotations.

Inductive vpc :=
| VIdle       (* not in an operation *)
| VFin        (* operation finished, return code in eret; the harness' END record is next *)
(* ABT_eventual_set *)
| VS0         (* argument checks passed; about to acquire(lock) *)
| VS1         (* holds lock, has read `ready` *)
| VS2         (* value copied, ready = TRUE stored; ABTI_waitlist_broadcast not yet started *)
| VS2w        (* inside the broadcast loop: at least one node woken *)
| VS2b        (* broadcast loop finished (head = tail = NULL); about to release(lock) *)
(* ABT_eventual_wait *)
| VW0         (* about to acquire(lock) *)
| VW1         (* holds lock, has read `ready` *)
| VUQ         (* ULT: enqueued, context being switched; the post-switch callback releases the lock on its behalf *)
| VUS         (* ULT: BLOCKED, queued *)
| VEW         (* external: holds lock, queued, thread.state != READY *)
| VEWr        (* external: holds lock, already READY (loop head will release and leave) *)
| VES         (* external: queued, lock released, on the futex / between checks *)
| VER         (* external: READY (woken), has not taken the lock again; the quick check lets it return directly *)
| VWR         (* wait has returned; caller about to read the buffer through *value *)
(* ABT_eventual_test *)
| VT0         (* about to acquire(lock) *)
| VT1         (* holds lock *)
| VTR         (* returned; verdict in eflag; caller about to read the buffer if ready *)
(* ABT_eventual_reset *)
| VR0 | VR1   (* about to acquire / holds lock *)
| VR2.        (* ready = FALSE stored; about to release *)

Inductive vop :=
| VOSet (v : Z) (nb : nat)     (* ABT_eventual_set(e, &v, nb words) *)
| VOWait | VOTest | VOReset.

Inductive vev :=
| VBegin (t : nat) (k : ckind) (o : vop)   (* harness: caller t of kind k enters the API call *)
| VEnd   (t : nat) (r : Z)                 (* harness: the call returned r *)
| VAcq   (t : nat)                         (* ABTD_spinlock_acquire(&p_eventual->lock) succeeded *)
| VRel                                     (* ABTD_spinlock_release(&p_eventual->lock) *)
| VEnq   (t : nat) (ult : bool)            (* ABTI_waitlist_wait_and_unlock: node appended *)
| VWake  (x : nat)                         (* ABTI_waitlist_broadcast: node x made READY / resumed *)
| VBcast                                   (* ABTI_waitlist_broadcast: loop done, list emptied *)
| VData  (t : nat) (c : Z)                 (* store to `ready`: c = 1 in set, c = 0 in reset *)
| VRead  (t : nat) (flag : bool) (v : Z).  (* harness: after wait (flag = true) / test (flag = *is_ready):
                                              first word of the eventual's buffer as read by the caller *)

Record vst := vmk {
  elock  : option nat;      (* lock word; Some t = taken by t (ghost owner) *)
  eready : bool;            (* p_eventual->ready *)
  evalue : Z;               (* first word of p_eventual->value (0 when nbytes = 0) *)
  ecap   : nat;             (* p_eventual->nbytes in words *)
  ewl    : list nat;        (* p_eventual->waitlist, head first *)
  epc    : nat -> vpc;
  eck    : nat -> ckind;    (* kind of the caller, fixed at VBegin *)
  eav    : nat -> Z;        (* set: argument value *)
  enb    : nat -> nat;      (* set: argument nbytes in words *)
  eret   : nat -> Z;        (* return code of the caller's current / last operation *)
  eflag  : nat -> bool;     (* test: *is_ready *)
  (* ghost state, read by no step guard that the C code does not have *)
  egen    : nat;            (* number of resets so far *)
  ensets  : nat;            (* successful sets since creation / the last reset *)
  esetval : Z;              (* buffer content left by the last successful set *)
  ewgen   : nat -> nat      (* generation in which the caller's wait returned / test sampled *)
}.

Definition ERR_EVENTUAL : Z := 44%Z.      (* ABT_ERR_EVENTUAL *)
Definition ERR_INV_EVENTUAL : Z := 24%Z.  (* ABT_ERR_INV_EVENTUAL *)

(* only the pc of t changes *)
Definition vset_pc (s : vst) (t : nat) (p : vpc) : vst :=
  vmk (elock s) (eready s) (evalue s) (ecap s) (ewl s) (upd (epc s) t p) (eck s) (eav s) (enb s)
      (eret s) (eflag s) (egen s) (ensets s) (esetval s) (ewgen s).
(* lock word and the pc of t change *)
Definition vset_lock_pc (s : vst) (l : option nat) (t : nat) (p : vpc) : vst :=
  vmk l (eready s) (evalue s) (ecap s) (ewl s) (upd (epc s) t p) (eck s) (eav s) (enb s)
      (eret s) (eflag s) (egen s) (ensets s) (esetval s) (ewgen s).
(* t releases the lock and its operation is complete with return code r *)
Definition vfin (s : vst) (t : nat) (r : Z) : vst :=
  vmk None (eready s) (evalue s) (ecap s) (ewl s) (upd (epc s) t VFin) (eck s) (eav s) (enb s)
      (upd (eret s) t r) (eflag s) (egen s) (ensets s) (esetval s) (ewgen s).
(* wait-list update + pc of x + generation stamp of x (a waiter leaves the wait) *)
Definition vwoken (s : vst) (l : option nat) (w : list nat) (x : nat) (p : vpc) : vst :=
  vmk l (eready s) (evalue s) (ecap s) w (upd (epc s) x p) (eck s) (eav s) (enb s)
      (upd (eret s) x 0%Z) (eflag s) (egen s) (ensets s) (esetval s) (upd (ewgen s) x (egen s)).

Definition vstep (s : vst) (e : vev) : option vst :=
  match e with
  | VBegin t k o =>
      match epc s t with
      | VIdle =>
          match o with
          | VOSet v nb =>
              (* ABTI_CHECK_TRUE(arg_nbytes <= p_eventual->nbytes, ABT_ERR_INV_EVENTUAL): before the lock *)
              if Nat.ltb (ecap s) nb then
                Some (vmk (elock s) (eready s) (evalue s) (ecap s) (ewl s) (upd (epc s) t VFin) (upd (eck s) t k)
                          (eav s) (enb s) (upd (eret s) t ERR_INV_EVENTUAL) (eflag s) (egen s) (ensets s) (esetval s) (ewgen s))
              else
                Some (vmk (elock s) (eready s) (evalue s) (ecap s) (ewl s) (upd (epc s) t VS0) (upd (eck s) t k)
                          (upd (eav s) t v) (upd (enb s) t nb) (eret s) (eflag s) (egen s) (ensets s) (esetval s) (ewgen s))
          | VOWait =>
              (* a tasklet (non-yieldable work unit on an execution stream) gets ABT_ERR_EVENTUAL *)
              if is_task k then
                Some (vmk (elock s) (eready s) (evalue s) (ecap s) (ewl s) (upd (epc s) t VFin) (upd (eck s) t k)
                          (eav s) (enb s) (upd (eret s) t ERR_EVENTUAL) (eflag s) (egen s) (ensets s) (esetval s) (ewgen s))
              else
                Some (vmk (elock s) (eready s) (evalue s) (ecap s) (ewl s) (upd (epc s) t VW0) (upd (eck s) t k)
                          (eav s) (enb s) (eret s) (eflag s) (egen s) (ensets s) (esetval s) (ewgen s))
          | VOTest =>
              Some (vmk (elock s) (eready s) (evalue s) (ecap s) (ewl s) (upd (epc s) t VT0) (upd (eck s) t k)
                        (eav s) (enb s) (eret s) (eflag s) (egen s) (ensets s) (esetval s) (ewgen s))
          | VOReset =>
              Some (vmk (elock s) (eready s) (evalue s) (ecap s) (ewl s) (upd (epc s) t VR0) (upd (eck s) t k)
                        (eav s) (enb s) (eret s) (eflag s) (egen s) (ensets s) (esetval s) (ewgen s))
          end
      | _ => None
      end
  | VEnd t r =>
      match epc s t with
      | VFin => if Z.eqb (eret s t) r then Some (vset_pc s t VIdle) else None
      | _ => None
      end
  | VAcq t =>
      match elock s with
      | Some _ => None
      | None =>
          match epc s t with
          | VS0 => Some (vset_lock_pc s (Some t) t VS1)
          | VW0 => Some (vset_lock_pc s (Some t) t VW1)
          | VT0 => Some (vset_lock_pc s (Some t) t VT1)
          | VR0 => Some (vset_lock_pc s (Some t) t VR1)
          | VES => Some (vset_lock_pc s (Some t) t VEW)     (* woke up but not READY: takes the lock again *)
          | VER => Some (vset_lock_pc s (Some t) t VEWr)    (* READY but the quick check ran too early *)
          | _ => None
          end
      end
  | VRel =>
      match elock s with
      | None => None
      | Some t =>
          match epc s t with
          | VS1 => (* else branch of `if (ready == ABT_FALSE)`: release, ABT_ERR_EVENTUAL, nothing changed *)
                   if eready s then Some (vfin s t ERR_EVENTUAL) else None
          | VS2 | VS2b => match ewl s with [] => Some (vfin s t 0%Z) | _ => None end
          | VW1 => (* ready: release and return *)
                   if eready s then Some (vwoken s None (ewl s) t VWR) else None
          | VUQ => Some (vset_lock_pc s None t VUS)
          | VEW => Some (vset_lock_pc s None t VES)
          | VEWr => Some (vset_lock_pc s None t VWR)
          | VT1 => Some (vmk None (eready s) (evalue s) (ecap s) (ewl s) (upd (epc s) t VTR) (eck s) (eav s) (enb s)
                             (upd (eret s) t 0%Z) (upd (eflag s) t (eready s)) (egen s) (ensets s) (esetval s)
                             (upd (ewgen s) t (egen s)))
          | VR2 => Some (vfin s t 0%Z)
          | _ => None
          end
      end
  | VEnq t ult =>
      match epc s t with
      | VW1 =>
          if eready s then None
          else if Bool.eqb ult (is_ult (eck s t)) then
            Some (vmk (elock s) (eready s) (evalue s) (ecap s) (ewl s ++ [t]) (upd (epc s) t (if ult then VUQ else VEW))
                      (eck s) (eav s) (enb s) (eret s) (eflag s) (egen s) (ensets s) (esetval s) (ewgen s))
          else None
      | _ => None
      end
  | VWake x =>
      match elock s, ewl s with
      | Some u, y :: rest =>
          if Nat.eqb x y then
            match epc s u with
            | VS2 | VS2w =>
                match epc s x with
                | VUS => Some (vwoken (vset_pc s u VS2w) (elock s) rest x VWR)   (* ABTI_ythread_resume_and_push *)
                | VES => Some (vwoken (vset_pc s u VS2w) (elock s) rest x VER)   (* state := READY *)
                | _ => None
                end
            | _ => None
            end
          else None
      | _, _ => None
      end
  | VBcast =>
      match elock s, ewl s with
      | Some u, [] => match epc s u with VS2w => Some (vset_pc s u VS2b) | _ => None end
      | _, _ => None
      end
  | VData t c =>
      if oeq (elock s) t then
        match epc s t with
        | VS1 =>
            if eready s then None
            else if Z.eqb c 1 then
              (* if (p_eventual->value) memcpy(p_eventual->value, value, arg_nbytes); ready = ABT_TRUE *)
              let v' := if Nat.ltb 0 (enb s t) then eav s t else evalue s in
              Some (vmk (elock s) true v' (ecap s) (ewl s) (upd (epc s) t VS2) (eck s) (eav s) (enb s)
                        (eret s) (eflag s) (egen s) (S (ensets s)) v' (ewgen s))
            else None
        | VR1 =>
            (* contract of ABT_eventual_reset (undefined otherwise): no waiter is blocked on the eventual *)
            match ewl s with
            | [] => if Z.eqb c 0 then
                      Some (vmk (elock s) false (evalue s) (ecap s) (ewl s) (upd (epc s) t VR2) (eck s) (eav s) (enb s)
                                (eret s) (eflag s) (S (egen s)) 0 (esetval s) (ewgen s))
                    else None
            | _ => None
            end
        | _ => None
        end
      else None
  | VRead t flag v =>
      match epc s t with
      | VWR | VER =>
          (* *value = p_eventual->value; the caller dereferences it *)
          if flag && Z.eqb v (evalue s) then
            Some (vmk (elock s) (eready s) (evalue s) (ecap s) (ewl s) (upd (epc s) t VFin) (eck s) (eav s) (enb s)
                      (upd (eret s) t 0%Z) (eflag s) (egen s) (ensets s) (esetval s) (ewgen s))
          else None
      | VTR =>
          if Bool.eqb flag (eflag s t) && Z.eqb v (if flag then evalue s else 0%Z) then
            Some (vset_pc s t VFin)
          else None
      | _ => None
      end
  end.

(* ABT_eventual_create(nbytes = cap words): lock clear, ready = FALSE, list empty.  The buffer
   content is indeterminate in C; the harness zeroes it, so 0 here. *)
Definition vinit (cap : nat) : vst :=
  vmk None false 0%Z cap [] (fun _ => VIdle) (fun _ => KUlt) (fun _ => 0%Z) (fun _ => 0)
      (fun _ => 0%Z) (fun _ => false) 0 0 0%Z (fun _ => 0).

Fixpoint vrun (s : vst) (tr : list vev) : option vst :=
  match tr with
  | [] => Some s
  | e :: r => match vstep s e with Some s' => vrun s' r | None => None end
  end.

(* pc classes used by the statements *)
Definition vinlock (p : vpc) : bool :=
  match p with VS1 | VS2 | VS2w | VS2b | VW1 | VUQ | VEW | VEWr | VT1 | VR1 | VR2 => true | _ => false end.
Definition vqueued (p : vpc) : bool :=
  match p with VUQ | VUS | VEW | VES => true | _ => false end.
(* the wait has let the caller go *)
Definition vreturned (p : vpc) : bool :=
  match p with VWR | VER | VEWr => true | _ => false end.
(* inside the critical section of a successful set, ready already TRUE *)
Definition vsetting (p : vpc) : bool :=
  match p with VS2 | VS2w | VS2b => true | _ => false end.
Definition vwaking (p : vpc) : bool :=
  match p with VS2 | VS2w => true | _ => false end.
Definition vin_set (p : vpc) : bool :=
  match p with VS1 | VS2 | VS2w | VS2b => true | _ => false end.
