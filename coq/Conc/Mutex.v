(* LTS of ABTI_mutex (src/include/abti_mutex.h, abti_waitlist.h) for one mutex and
   unboundedly many callers.  Labels are exactly the records written by the
   ABT_VERIF hooks (spinlock test-and-set / release on the two lock words,
   wait-list enqueue / wake / broadcast-end) plus the begin/end records written
   by the harness around each API call, so that a recorded history of the real
   library can be replayed through [step].  One step = one atomic action of the
   C code (an atomic read-modify-write, or a data update made while holding
   waiter_lock).  Any caller may take any enabled step at any time: the runs of
   the LTS are all interleavings of all properly nested client programs.

   Model code only; proofs are in MutexProofs.v. *)
From Coq Require Import List Arith ZArith Bool.
Import ListNotations.

Inductive pcT :=
| Idle                (* not in an operation, not holding *)
| L0                  (* ABTI_mutex_lock_no_recursion: loop head, about to try_acquire(lock) *)
| L1                  (* first try failed: about to acquire(waiter_lock) *)
| L2                  (* holds waiter_lock: about to try_acquire(lock) again *)
| L2ok                (* second try succeeded: about to release(waiter_lock) *)
| L3                  (* second try failed: about to enqueue in the wait list *)
| UQ                  (* ULT caller: enqueued, context being switched; the post-switch
                         callback is about to release(waiter_lock) on its behalf *)
| US                  (* ULT caller: BLOCKED, queued *)
| EW                  (* external/tasklet caller: holds waiter_lock, queued, not READY *)
| EWr                 (* external caller: holds waiter_lock, already woken (READY) *)
| ES                  (* external caller: queued, sleeping on the futex / between checks *)
| ER                  (* external caller: woken (READY), has not noticed yet *)
| Holding             (* owns the mutex *)
| T0                  (* trylock: about to try_acquire(lock) *)
| S0                  (* spinlock: spinning on acquire(lock) *)
| U1                  (* unlock: about to acquire(waiter_lock) *)
| U2                  (* unlock: holds waiter_lock, about to release(lock) *)
| U3.                 (* unlock: lock released, broadcasting; then release(waiter_lock) *)

Inductive opk := OLock | OTry | OSpin | OUnlock.

Inductive ev :=
| EBegin (t : nat) (o : opk)     (* harness: API call starts *)
| EEnd   (t : nat) (ret : Z)     (* harness: API call returned ret *)
| ETry   (t : nat) (failed : bool) (* ABTD_spinlock_try_acquire(&lock) by t *)
| EAcqL  (t : nat)               (* ABTD_spinlock_acquire(&lock) succeeded (spinlock op) *)
| ERelL                          (* ABTD_spinlock_release(&lock) *)
| EAcqW  (t : nat)               (* ABTD_spinlock_acquire(&waiter_lock) succeeded *)
| ERelW                          (* ABTD_spinlock_release(&waiter_lock) *)
| EEnq   (t : nat) (ult : bool)  (* wait-list append of t's node *)
| EWake  (x : nat)               (* broadcast loop wakes node x *)
| EBcast.                        (* broadcast loop finished, head = tail = NULL *)

Record st := mk {
  holder : option nat;       (* lock word: Some t = locked, taken by t *)
  wlock  : option nat;       (* waiter_lock word *)
  wl     : list nat;         (* wait list, head first *)
  pc     : nat -> pcT;
  recursive : bool;          (* attrs & ABTI_MUTEX_ATTR_RECURSIVE *)
  owner  : option nat;       (* owner_id (None = 0) *)
  nest   : nat;              (* nesting_cnt *)
  ret    : nat -> Z          (* return code of the caller's last finished operation *)
}.

Definition ERR_MUTEX_LOCKED : Z := 40%Z.

Definition upd {A} (f : nat -> A) (t : nat) (v : A) : nat -> A :=
  fun x => if Nat.eqb x t then v else f x.

Definition oeq (o : option nat) (x : nat) : bool :=
  match o with Some y => Nat.eqb y x | None => false end.
Definition is_some {A} (o : option A) : bool := match o with Some _ => true | None => false end.

Definition set_pc (s : st) (t : nat) (p : pcT) : st :=
  mk (holder s) (wlock s) (wl s) (upd (pc s) t p) (recursive s) (owner s) (nest s) (ret s).
Definition set_pc_ret (s : st) (t : nat) (p : pcT) (r : Z) : st :=
  mk (holder s) (wlock s) (wl s) (upd (pc s) t p) (recursive s) (owner s) (nest s) (upd (ret s) t r).

(* t has just taken the lock word and the lock operation is complete *)
Definition acquired (s : st) (t : nat) : st :=
  mk (Some t) (wlock s) (wl s) (upd (pc s) t Holding) (recursive s)
     (if recursive s then Some t else owner s) (nest s) (upd (ret s) t 0%Z).

Definition step (s : st) (e : ev) : option st :=
  match e with
  | EBegin t o =>
      match pc s t, o with
      | Idle, OLock => Some (set_pc s t L0)
      | Idle, OTry => Some (set_pc s t T0)
      | Idle, OSpin => Some (set_pc s t S0)
      | Holding, OUnlock =>
          if recursive s then
            match nest s with
            | O => Some (mk (holder s) (wlock s) (wl s) (upd (pc s) t U1) (recursive s) None O (ret s))
            | S n => Some (mk (holder s) (wlock s) (wl s) (pc s) (recursive s) (owner s) n (upd (ret s) t 0%Z))
            end
          else Some (set_pc s t U1)
      | Holding, _ =>
          (* lock / trylock / spinlock by the owner of a recursive mutex: nesting_cnt++ *)
          if recursive s && oeq (owner s) t then
            Some (mk (holder s) (wlock s) (wl s) (pc s) (recursive s) (owner s) (S (nest s)) (upd (ret s) t 0%Z))
          else None
      | _, _ => None
      end
  | EEnd t r =>
      match pc s t with
      | Idle | Holding => if Z.eqb (ret s t) r then Some s else None
      | _ => None
      end
  | ETry t failed =>
      if Bool.eqb failed (is_some (holder s)) then
        match pc s t with
        | L0 | ER => if failed then Some (set_pc s t L1) else Some (acquired s t)
        | L2 => if failed then Some (set_pc s t L3)
                else Some (mk (Some t) (wlock s) (wl s) (upd (pc s) t L2ok) (recursive s) (owner s) (nest s) (ret s))
        | T0 => if failed then Some (set_pc_ret s t Idle ERR_MUTEX_LOCKED) else Some (acquired s t)
        | _ => None
        end
      else None
  | EAcqL t =>
      match pc s t, holder s with
      | S0, None => Some (acquired s t)
      | _, _ => None
      end
  | ERelL =>
      match holder s with
      | Some t => match pc s t with
                  | U2 => Some (mk None (wlock s) (wl s) (upd (pc s) t U3) (recursive s) (owner s) (nest s) (ret s))
                  | _ => None
                  end
      | None => None
      end
  | EAcqW t =>
      match wlock s with
      | Some _ => None
      | None =>
          match pc s t with
          | L1 => Some (mk (holder s) (Some t) (wl s) (upd (pc s) t L2) (recursive s) (owner s) (nest s) (ret s))
          | U1 => Some (mk (holder s) (Some t) (wl s) (upd (pc s) t U2) (recursive s) (owner s) (nest s) (ret s))
          | ES => Some (mk (holder s) (Some t) (wl s) (upd (pc s) t EW) (recursive s) (owner s) (nest s) (ret s))
          | ER => Some (mk (holder s) (Some t) (wl s) (upd (pc s) t EWr) (recursive s) (owner s) (nest s) (ret s))
          | _ => None
          end
      end
  | ERelW =>
      match wlock s with
      | None => None
      | Some t =>
          let rel p := Some (mk (holder s) None (wl s) (upd (pc s) t p) (recursive s) (owner s) (nest s) (ret s)) in
          match pc s t with
          | L2ok => Some (mk (holder s) None (wl s) (upd (pc s) t Holding) (recursive s)
                             (if recursive s then Some t else owner s) (nest s) (upd (ret s) t 0%Z))
          | UQ => rel US
          | EW => rel ES
          | EWr => rel L0
          | U3 => match wl s with
                  | [] => Some (mk (holder s) None (wl s) (upd (pc s) t Idle) (recursive s) (owner s) (nest s) (upd (ret s) t 0%Z))
                  | _ => None
                  end
          | _ => None
          end
      end
  | EEnq t ult =>
      match pc s t with
      | L3 => Some (mk (holder s) (wlock s) (wl s ++ [t]) (upd (pc s) t (if ult then UQ else EW))
                       (recursive s) (owner s) (nest s) (ret s))
      | _ => None
      end
  | EWake x =>
      match wlock s, wl s with
      | Some u, y :: rest =>
          if Nat.eqb x y then
            match pc s u, pc s x with
            | U3, US => Some (mk (holder s) (wlock s) rest (upd (pc s) x L0) (recursive s) (owner s) (nest s) (ret s))
            | U3, ES => Some (mk (holder s) (wlock s) rest (upd (pc s) x ER) (recursive s) (owner s) (nest s) (ret s))
            | _, _ => None
            end
          else None
      | _, _ => None
      end
  | EBcast =>
      match wlock s, wl s with
      | Some u, [] => match pc s u with U3 => Some s | _ => None end
      | _, _ => None
      end
  end.

Definition init (rec : bool) : st :=
  mk None None [] (fun _ => Idle) rec None O (fun _ => 0%Z).

Fixpoint run (s : st) (tr : list ev) : option st :=
  match tr with
  | [] => Some s
  | e :: r => match step s e with Some s' => run s' r | None => None end
  end.

(* replay with position of the first rejected event (for the driver) *)
Fixpoint replay (s : st) (tr : list ev) (i : nat) : st * option nat :=
  match tr with
  | [] => (s, None)
  | e :: r => match step s e with Some s' => replay s' r (S i) | None => (s, Some i) end
  end.

(* ---- monitors evaluated on implementation histories (also proved of all model runs) ---- *)
Definition holds (p : pcT) : bool :=
  match p with Holding | L2ok | U1 | U2 => true | _ => false end.
Definition queued (p : pcT) : bool :=
  match p with UQ | US | EW | ES => true | _ => false end.
