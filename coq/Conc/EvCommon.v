(* Small definitions and lemmas shared by the Eventual and Future LTSs (C09):
   per-caller maps, ghost lock owner, caller kinds, wait-list membership. *)
From Coq Require Import List Arith ZArith Bool Lia.
From ABT Require Import Common.ListAux.
Import ListNotations.

(* who calls: a ULT (yieldable), an external pthread (p_local = NULL), a tasklet *)
Inductive ckind := KUlt | KExt | KTask.
Definition is_ult (k : ckind) : bool := match k with KUlt => true | _ => false end.
Definition is_task (k : ckind) : bool := match k with KTask => true | _ => false end.

Definition upd {A} (f : nat -> A) (t : nat) (v : A) : nat -> A :=
  fun x => if Nat.eqb x t then v else f x.
Definition oeq (o : option nat) (x : nat) : bool :=
  match o with Some y => Nat.eqb y x | None => false end.
Definition is_some {A} (o : option A) : bool := match o with Some _ => true | None => false end.
Definition inb (x : nat) (l : list nat) : bool := existsb (Nat.eqb x) l.

(* array store  a[k] = v  (no effect when k is out of range) *)
Fixpoint set_nth (k : nat) (v : Z) (l : list Z) : list Z :=
  match l, k with
  | [], _ => []
  | _ :: r, O => v :: r
  | a :: r, S k' => a :: set_nth k' v r
  end.

Lemma upd_same {A} (f : nat -> A) t v : upd f t v t = v.
Proof. unfold upd. now rewrite Nat.eqb_refl. Qed.
Lemma upd_other {A} (f : nat -> A) t v x : x <> t -> upd f t v x = f x.
Proof. unfold upd. intros H. apply Nat.eqb_neq in H. now rewrite H. Qed.
Lemma inb_app x l t : inb x (l ++ [t]) = inb x l || Nat.eqb x t.
Proof. unfold inb. rewrite existsb_app. cbn. now rewrite orb_false_r. Qed.
Lemma inb_In x l : inb x l = true <-> In x l.
Proof. unfold inb. rewrite existsb_exists. split.
  - intros [y [H E]]. apply Nat.eqb_eq in E. now subst.
  - intros H. exists x. split; auto. apply Nat.eqb_refl. Qed.
Lemma inb_false x l : inb x l = false <-> ~ In x l.
Proof. rewrite <- inb_In. destruct (inb x l); intuition congruence. Qed.
Lemma neqb x t : x <> t -> Nat.eqb x t = false /\ Nat.eqb t x = false.
Proof. intros H. split; apply Nat.eqb_neq; congruence. Qed.
Lemma oeq_true o x : oeq o x = true <-> o = Some x.
Proof. destruct o; cbn; [rewrite Nat.eqb_eq|]; split; congruence. Qed.
Lemma oeq_some_ne t x : x <> t -> oeq (Some t) x = false.
Proof. intros H. cbn. apply Nat.eqb_neq. congruence. Qed.

Lemma set_nth_length k v l : length (set_nth k v l) = length l.
Proof. revert k; induction l as [|a l IH]; intros [|k]; cbn; auto. Qed.
Lemma firstn_set_nth_ge k v l m : m <= k -> firstn m (set_nth k v l) = firstn m l.
Proof.
  revert k m; induction l as [|a l IH]; intros [|k] [|m] H; cbn; auto; try lia.
  f_equal. apply IH. lia.
Qed.
Lemma firstn_S_set_nth k v l : k < length l ->
  firstn (S k) (set_nth k v l) = firstn k l ++ [v].
Proof.
  revert k; induction l as [|a l IH]; intros [|k] H; cbn in *; try lia; auto.
  f_equal. apply IH. lia.
Qed.
Lemma nth_error_set_nth k v l : k < length l -> nth_error (set_nth k v l) k = Some v.
Proof. revert k; induction l as [|a l IH]; intros [|k] H; cbn in *; try lia; auto. apply IH; lia. Qed.
