(* Inductive invariant of the ABT_future LTS (any number of compartments, any number of
   callers of any kind, any interleaving) and its preservation by every step.
   The theorems are in FutureProofs.v. *)
From Coq Require Import List Arith ZArith Lia Bool.
From ABT Require Import Common.ListAux Conc.EvCommon Conc.Future.
Import ListNotations.

Definition is_fs3b (p : fpcT) : bool := match p with FS3b => true | _ => false end.
Definition is_fs4 (p : fpcT) : bool := match p with FS4 => true | _ => false end.
Definition is_ftr (p : fpcT) : bool := match p with FTR => true | _ => false end.

Record FInv (s : fst) : Prop := {
  f_lock : forall x, finlock (fpc s x) = oeq (flock s) x;
  f_wl   : forall x, inb x (fwl s) = fqueued (fpc s x);
  f_nd   : NoDup (fwl s);
  f_cnt  : fcounter s <= fnc s;
  f_len  : length (fslots s) = fnc s;
  (* counter = number of successful sets; the array prefix holds their values in order *)
  f_sv   : length (fsetvals s) = fcounter s;
  f_pre  : firstn (fcounter s) (fslots s) = fsetvals s;
  (* while the callback runs: this is the n-th set, the array is complete, the counter is not yet stored *)
  f_fs2  : forall x, is_fs2 (fpc s x) = true ->
             S (fcounter s) = fnc s /\ fcb s = true /\ fcbc s = 1 /\
             fslots s = fsetvals s ++ [fav s x] /\ fcbseen s = fslots s;
  f_full : forall x, ffull (fpc s x) = true -> fcounter s = fnc s;
  f_s3b  : forall x, is_fs3b (fpc s x) = true -> fwl s = [];
  f_s4   : forall x, is_fs4 (fpc s x) = true -> fcounter s < fnc s;
  (* no lost waiter: a queued caller on a full future means the last setter is still broadcasting *)
  f_nl   : fcounter s = fnc s -> fwl s <> [] -> exists u, flock s = Some u /\ fwaking (fpc s u) = true;
  (* callback count *)
  f_cb1  : fcounter s = fnc s -> fcb s = true -> 0 < fnc s -> fcbc s = 1;
  f_cb0  : fcbc s <= 1;
  f_cbw  : fcbc s = 1 -> (fcounter s = fnc s /\ fcb s = true /\ 0 < fnc s) \/
                         exists u, flock s = Some u /\ is_fs2 (fpc s u) = true;
  f_seen : fcbc s = 1 -> fcounter s = fnc s -> fcbseen s = fsetvals s;
  (* a caller let go by wait / told "ready" by test in the current generation: the future is full *)
  f_ret  : forall x, freturned (fpc s x) = true -> fwgen s x = fgen s -> fcounter s = fnc s;
  f_tr   : forall x, is_ftr (fpc s x) = true -> fflag s x = true -> fwgen s x = fgen s -> fcounter s = fnc s;
  f_gen  : forall x, fwgen s x <= fgen s
}.

Lemma finv_init n cb : FInv (finit n cb).
Proof.
  constructor; cbn; auto; try discriminate; try congruence; try lia.
  - constructor.
  - apply repeat_length.
Qed.

Ltac fsimpl :=
  cbn [flock fcounter fnc fcb fslots fcbc fwl fpc fck fav fret fflag fgen fsetvals fcbseen fwgen
       fset_pc fset_lock_pc fbegin ffin fwoken] in *.
Ltac fred :=
  cbn [finlock fqueued freturned fwaking ffull is_fs2 is_fs3b is_fs4 is_ftr oeq is_ult is_task negb andb orb] in *.

(* case split of a thread variable against every thread whose pc was updated *)
Ltac ucases x :=
  repeat match goal with
  | |- context [upd _ ?t _ x] =>
      destruct (Nat.eq_dec x t) as [->|?]; [rewrite ?upd_same | rewrite ?(upd_other _ t) by assumption]
  | H : context [upd _ ?t _ x] |- _ =>
      destruct (Nat.eq_dec x t) as [->|?]; [rewrite ?upd_same in H | rewrite ?(upd_other _ t) in H by assumption]
  end.

Ltac use_known :=
  repeat match goal with
  | E : fpc ?S ?a = _ |- _ => rewrite E in *
  | E : flock ?S = _ |- _ => rewrite E in *
  | E : fwl ?S = _ |- _ => rewrite E in *
  end.


Inductive inst_done {P : Prop} (h : P) (x : nat) : Prop := InstDone.
(* instantiate every pointwise conjunct of the invariant at thread x *)
Ltac inst x :=
  repeat match goal with
  | H : forall y : nat, _ |- _ =>
      lazymatch goal with
      | _ : inst_done H x |- _ => fail
      | _ => pose proof (H x); assert (inst_done H x) by constructor
      end
  end.
Ltac inst_known :=
  repeat match goal with
  | E : fpc _ ?a = _ |- _ =>
      lazymatch goal with
      | _ : inst_done E a |- _ => fail
      | _ => inst a; assert (inst_done E a) by constructor
      end
  end.
Ltac neqs :=
  repeat match goal with
  | N : ?a <> ?b |- _ =>
      first [ rewrite (proj1 (neqb _ _ N)) in * | rewrite (proj2 (neqb _ _ N)) in * ]
  end.
Ltac fin := try assumption; try reflexivity; try discriminate; try congruence; try lia; try (intuition (first [congruence | lia])).
Ltac prem := repeat match goal with H : ?a = ?a -> _ |- _ => specialize (H eq_refl) end.
Ltac pw :=
  let x := fresh "x" in
  intros x; inst x; inst_known; ucases x; use_known; fred; rewrite ?Nat.eqb_refl in *; neqs; fin.
Ltac holders :=
  repeat match goal with
  | F : true = oeq _ _ |- _ => symmetry in F; apply oeq_true in F
  | F : oeq _ _ = true |- _ => apply oeq_true in F
  end.
(* same, then enumerate the pc of the quantified thread *)
Ltac pwb :=
  let x := fresh "x" in
  intros x; inst x; inst_known; ucases x; use_known; fred; rewrite ?Nat.eqb_refl in *; neqs; fin;
  destruct (fpc _ x) eqn:?; fred; holders; fin.
Lemma inb_cons x h l : inb x (h :: l) = Nat.eqb x h || inb x l.
Proof. reflexivity. Qed.
Ltac wl_app :=
  match goal with
  | |- forall x, inb x (_ ++ [?t]) = _ =>
      let x := fresh "x" in let N := fresh "N" in
      intros x; rewrite inb_app; inst x; destruct (Nat.eq_dec x t) as [->|N];
      [ rewrite upd_same, Nat.eqb_refl, orb_true_r; reflexivity
      | rewrite upd_other by assumption; rewrite (proj1 (neqb _ _ N)), orb_false_r; auto ]
  | Iw : forall x, inb x (fwl ?S) = _, E : fpc ?S ?t = _ |- NoDup (fwl ?S ++ [?t]) =>
      apply NoDup_snoc; [assumption| apply inb_false; rewrite Iw, E; reflexivity]
  end.
Ltac wl_wake :=
  match goal with
  | E : fwl ?S = ?h :: ?l, Ind : NoDup (fwl ?S) |- NoDup ?l =>
      rewrite E in Ind; apply NoDup_cons_iff in Ind; apply Ind
  | E : fwl ?S = ?h :: ?l, Ind : NoDup (fwl ?S), Iw : forall x, inb x (fwl ?S) = _ |- forall x, inb x ?l = _ =>
      let x := fresh "x" in let Hx := fresh "Hx" in let Hni := fresh "Hni" in let Hnd := fresh "Hnd" in
      intros x; pose proof (Iw x) as Hx; rewrite E in Hx, Ind; apply NoDup_cons_iff in Ind;
      destruct Ind as [Hni Hnd]; apply inb_false in Hni; rewrite inb_cons in Hx;
      ucases x; rewrite ?Nat.eqb_refl in *; neqs;
      repeat match goal with E2 : fpc _ _ = _ |- _ => rewrite E2 in * end; fred; fin
  end.
(* the "no lost waiter" conjunct *)
Ltac nl :=
  let Hr := fresh "Hr" in let Hw := fresh "Hw" in
  intros Hr Hw; try congruence;
  first
  [ match goal with
    | |- exists u, Some ?t = Some u /\ _ =>
        exists t; split; [reflexivity|]; rewrite ?upd_same; try reflexivity; ucases t; reflexivity
    | E : flock ?S = Some ?t |- exists u, flock ?S = Some u /\ _ =>
        exists t; split; [exact E|]; rewrite ?upd_same; try reflexivity; ucases t; reflexivity
    end
  | match goal with
    | Inl : fcounter ?S = fnc ?S -> fwl ?S <> [] -> exists _, _ |- _ =>
        let u := fresh "u" in let Hu := fresh "Hu" in let Hv := fresh "Hv" in
        destruct Inl as [u [Hu Hv]]; [solve [fin] | solve [fin] | ];
        first [ exfalso; use_known; fred; solve [fin]
              | exfalso; match goal with E : flock _ = Some ?n |- _ => assert (u = n) by congruence; subst u end;
                use_known; fred; solve [fin]
              | exists u; split; [solve [fin]|]; inst_known; ucases u; use_known; fred; solve [fin] ]
    end ].
Ltac arith :=
  repeat match goal with
  | F : (_ <? _)%nat = true |- _ => apply Nat.ltb_lt in F
  | F : (_ <? _)%nat = false |- _ => apply Nat.ltb_ge in F
  | F : (_ <=? _)%nat = true |- _ => apply Nat.leb_le in F
  | F : (_ <=? _)%nat = false |- _ => apply Nat.leb_gt in F
  | F : (_ =? _)%nat = true |- _ => apply Nat.eqb_eq in F
  | F : (_ =? _)%nat = false |- _ => apply Nat.eqb_neq in F
  end.

(* the "callback ran => full or still inside the callback" conjunct *)
Ltac cbw :=
  let Hc := fresh "Hc" in
  intros Hc;
  match goal with
  | Icbw : fcbc ?S = 1 -> _ \/ _ |- _ =>
      let u := fresh "u" in let Hu := fresh "Hu" in let Hv := fresh "Hv" in
      destruct Icbw as [ [? [? ?]] | [u [Hu Hv]] ];
      [ solve [fin]
      | first [ left; repeat split; solve [fin] | exfalso; solve [fin] ]
      | first [ exfalso; use_known; fred; solve [fin]
              | exfalso; match goal with E : flock _ = Some ?n |- _ => assert (u = n) by congruence; subst u end;
                use_known; fred; solve [fin]
              | right; exists u; split; [solve [fin]|]; inst_known; ucases u; use_known; fred; solve [fin]
              | left; match goal with E : flock _ = Some ?n |- _ => assert (u = n) by congruence; subst u end;
                inst_known; use_known; fred; prem; repeat split; solve [fin] ] ]
  end.
Ltac lists :=
  match goal with
  | |- length (set_nth _ _ _) = _ => rewrite set_nth_length; assumption
  | |- length (_ ++ [_]) = _ => rewrite app_length; cbn [length]; lia
  | |- firstn (S ?c) (set_nth ?c _ _) = _ => rewrite firstn_S_set_nth by lia; congruence
  | |- firstn ?c (set_nth ?c _ _) = _ => rewrite firstn_set_nth_ge by lia; assumption
  end.

Lemma cbc_zero s t :
  fcbc s <= 1 ->
  (fcbc s = 1 -> (fcounter s = fnc s /\ fcb s = true /\ 0 < fnc s) \/
                 exists u, flock s = Some u /\ is_fs2 (fpc s u) = true) ->
  flock s = Some t -> fpc s t = FS1 -> fcounter s < fnc s -> fcbc s = 0.
Proof.
  intros H0 Hw Hl Hp Hc. destruct (Nat.eq_dec (fcbc s) 1) as [E|E]; [|lia].
  destruct (Hw E) as [[A _]|[u [Hu Hv]]]; [lia|].
  rewrite Hl in Hu. inversion Hu; subst u. rewrite Hp in Hv. discriminate.
Qed.

Lemma fstep_inv s e s' : FInv s -> fstep s e = Some s' -> FInv s'.
Proof.
  intros I H.
  destruct e as [t k o|t r|t| |t ult|x| |t c|t|t i v|t c|t flag]; cbn [fstep] in H.
  all: repeat match type of H with
       | context [match ?X with _ => _ end] => destruct X eqn:?
       end; try discriminate.
  all: inversion H; subst s'; clear H.
  all: destruct I as [Il Iw Ind Icnt Ilen Isv Ipre Ifs2 Ifull Is3b Is4 Inl Icb1 Icb0 Icbw Iseen Iret Itr Igen].
  all: repeat match goal with
       | F : oeq _ _ = true |- _ => apply oeq_true in F
       | F : Bool.eqb _ _ = true |- _ => apply eqb_prop in F
       | F : _ && _ = true |- _ => apply andb_true_iff in F; destruct F
       | F : (_ =? _)%Z = true |- _ => apply Z.eqb_eq in F
       | F : negb _ = true |- _ => apply negb_true_iff in F
       | F : _ && _ = false |- _ => apply andb_false_iff in F
       end.
  all: try match goal with F : (?x =? ?y)%nat = true, E : fwl _ = ?y :: _ |- _ => apply Nat.eqb_eq in F; subst x end.
  all: arith.
  all: constructor; fsimpl.
  all: try assumption.
  all: try solve [pw].
  all: try solve [nl].
  all: try solve [use_known; fin].
  all: try solve [wl_app].
  all: try solve [wl_wake].
  all: try solve [pwb].
  all: try solve [constructor].
  all: try solve [cbw].
  all: try solve [lists].
  (* counter store after the callback: the array is already complete *)
  all: try solve [ match goal with
       | E : fpc _ ?t = FS2, Ifs2 : forall x, is_fs2 _ = true -> _ |- _ =>
           destruct (Ifs2 t) as (A & B & C & D & F); [rewrite E; reflexivity|];
           first [ lia | rewrite D; apply firstn_all2; rewrite app_length; cbn [length]; lia ]
       end ].
  (* the callback step *)
  all: try match goal with
       | E : fpc ?S ?t = FS1, L : flock ?S = Some ?t, C : fcounter ?S < fnc ?S |- _ =>
           assert (Hz : fcbc S = 0) by (eapply cbc_zero; eauto)
       end.
  all: try solve [ lia ].
  all: try solve [ intros _; right;
         match goal with L : flock _ = Some ?t |- _ => exists t; split; [exact L|rewrite upd_same; reflexivity] end ].
  all: try solve [ match goal with
       | |- forall x, is_fs2 (upd _ ?t FS2 x) = true -> _ =>
           let x := fresh "x" in let Hx := fresh "Hx" in
           intros x Hx; destruct (Nat.eq_dec x t) as [->|N];
           [ repeat split; try assumption; try lia;
             rewrite <- Ipre, <- firstn_S_set_nth by lia;
             symmetry; apply firstn_all2; rewrite set_nth_length; lia
           | exfalso; rewrite upd_other in Hx by assumption; pose proof (Il x) as Lx;
             destruct (fpc _ x); try discriminate; cbn in Lx;
             match goal with L : flock _ = Some _ |- _ => rewrite L in Lx end;
             cbn in Lx; symmetry in Lx; apply Nat.eqb_eq in Lx; congruence ]
       end ].
  (* test: the verdict is the comparison of the loaded counter *)
  all: try solve [ match goal with
       | |- forall x, is_ftr (upd _ ?t FTR x) = true -> _ =>
           let x := fresh "x" in
           intros x; destruct (Nat.eq_dec x t) as [->|N];
           [ rewrite !upd_same; intros _ Hf _; apply Nat.eqb_eq; exact Hf
           | rewrite !upd_other by assumption; apply Itr ]
       end ].
Qed.
