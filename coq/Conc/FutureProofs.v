(* Theorems about the ABT_future LTS for every number of compartments (0, 1, ...), with or
   without callback, any number of callers of any kind and any interleaving: the counter
   is the number of successful sets and reaches n exactly at the n-th; later sets fail;
   the callback runs at most once, exactly once iff full (n > 0, callback registered),
   before the counter store and before any waiter is let go, and sees all n values;
   no lost waiter. *)
From Coq Require Import List Arith ZArith Lia Bool.
From ABT Require Import Common.ListAux Conc.EvCommon Conc.Future Conc.FutureInv.
Import ListNotations.

Lemma finv_run tr : forall s0 s, FInv s0 -> frun s0 tr = Some s -> FInv s.
Proof.
  induction tr as [|e r IH]; cbn; intros s0 s I H.
  - inversion H; subst; exact I.
  - destruct (fstep s0 e) eqn:E; try discriminate. eapply IH; [eapply fstep_inv; eauto|exact H].
Qed.
Theorem finv_reachable n cb tr s : frun (finit n cb) tr = Some s -> FInv s.
Proof. apply finv_run, finv_init. Qed.

Ltac fcases H :=
  repeat match type of H with
  | context [match ?X with _ => _ end] => destruct X eqn:?
  end; try discriminate.

(* num_compartments and the callback pointer never change *)
Lemma fstep_params s e s' : fstep s e = Some s' -> fnc s' = fnc s /\ fcb s' = fcb s.
Proof.
  intros H. destruct e; cbn [fstep] in H; fcases H; inversion H; subst s'; fsimpl; auto.
Qed.
Lemma frun_params tr : forall s s', frun s tr = Some s' -> fnc s' = fnc s /\ fcb s' = fcb s.
Proof.
  induction tr as [|e r IH]; cbn; intros s s' H.
  - inversion H; auto.
  - destruct (fstep s e) eqn:E; try discriminate. destruct (fstep_params _ _ _ E) as [A B].
    destruct (IH _ _ H) as [C D]. split; congruence.
Qed.

(* meaning of the ghost fields: fsetvals grows by the argument of a set exactly at that set's
   counter store, fcbc at a CALLBACK record; both are cleared (and fgen incremented) by the
   counter store of a reset; no other step touches them or the counter *)
Theorem fut_ghost_meaning s e s' : fstep s e = Some s' ->
  (fcounter s' = fcounter s /\ fsetvals s' = fsetvals s /\ fgen s' = fgen s /\ fcbc s' = fcbc s) \/
  (exists t, e = FData t (Z.of_nat (S (fcounter s))) /\ (fpc s t = FS1 \/ fpc s t = FS2) /\
             fcounter s' = S (fcounter s) /\ fsetvals s' = fsetvals s ++ [fav s t] /\
             fgen s' = fgen s /\ fcbc s' = fcbc s) \/
  (exists t, e = FCallback t /\ fpc s t = FS1 /\ fcbc s' = S (fcbc s) /\ fcounter s' = fcounter s /\
             fsetvals s' = fsetvals s /\ fgen s' = fgen s /\ fcbseen s' = fslots s') \/
  (exists t, e = FData t 0%Z /\ fpc s t = FR1 /\ fcounter s' = 0 /\ fsetvals s' = [] /\
             fgen s' = S (fgen s) /\ fcbc s' = 0).
Proof.
  intros H. destruct e as [t k o|t r|t| |t ult|x| |t c|t|t i v|t c|t flag]; cbn [fstep] in H; fcases H.
  all: inversion H; subst s'; clear H; fsimpl.
  all: try (left; repeat split; congruence).
  all: repeat match goal with
       | F : _ && _ = true |- _ => apply andb_true_iff in F; destruct F
       | F : (_ =? _)%Z = true |- _ => apply Z.eqb_eq in F; subst
       end.
  all: try (right; left; exists t; repeat split; auto; fail).
  all: try (right; right; left; exists t; repeat split; auto; fail).
  all: right; right; right; exists t; repeat split; auto.
Qed.

(* ---- ready exactly at the n-th successful set ---- *)
Theorem fut_counter_is_successful_sets n cb tr s : frun (finit n cb) tr = Some s ->
  fnc s = n /\ fcb s = cb /\ fcounter s = length (fsetvals s) /\ fcounter s <= n /\
  firstn (fcounter s) (fslots s) = fsetvals s.
Proof.
  intros H. destruct (frun_params _ _ _ H) as [A B]. cbn in A, B. apply finv_reachable in H.
  repeat split; auto.
  - symmetry. apply (f_sv _ H).
  - rewrite <- A. apply (f_cnt _ H).
  - apply (f_pre _ H).
Qed.

(* a set that finds the future full (always, when n = 0) can only release and fail; nothing changes *)
Theorem fut_late_set_fails s t : flock s = Some t -> fpc s t = FS1 -> fnc s <= fcounter s ->
  (forall c, fstep s (FData t c) = None) /\ fstep s (FCallback t) = None /\
  (exists s', fstep s FRel = Some s') /\
  (forall s', fstep s FRel = Some s' ->
     fret s' t = ERR_FUTURE /\ fpc s' t = FFin /\ flock s' = None /\ fcounter s' = fcounter s /\
     fslots s' = fslots s /\ fcbc s' = fcbc s /\ fwl s' = fwl s /\ fsetvals s' = fsetvals s /\ fgen s' = fgen s).
Proof.
  intros Hl Hpc Hc. cbn [fstep]. rewrite Hl, Hpc. cbn [oeq]. rewrite Nat.eqb_refl.
  assert (L : Nat.ltb (fcounter s) (fnc s) = false) by (apply Nat.ltb_ge; exact Hc).
  assert (L2 : Nat.leb (fnc s) (fcounter s) = true) by (apply Nat.leb_le; exact Hc).
  rewrite L, L2. cbn [andb]. repeat split; eauto.
  all: inversion H; subst s'; fsimpl; rewrite ?upd_same; reflexivity.
Qed.

(* a set that finds room cannot fail: it stores its compartment and the incremented counter,
   through the callback first iff it is the n-th and a callback is registered *)
Theorem fut_early_set_succeeds s t : flock s = Some t -> fpc s t = FS1 -> fcounter s < fnc s ->
  fstep s FRel = None /\
  (S (fcounter s) = fnc s /\ fcb s = true ->
     (forall c, fstep s (FData t c) = None) /\
     exists s', fstep s (FCallback t) = Some s' /\ fpc s' t = FS2 /\ fcounter s' = fcounter s /\
                fslots s' = set_nth (fcounter s) (fav s t) (fslots s) /\ fcbseen s' = fslots s' /\ fcbc s' = S (fcbc s)) /\
  (~ (S (fcounter s) = fnc s /\ fcb s = true) ->
     fstep s (FCallback t) = None /\
     exists s', fstep s (FData t (Z.of_nat (S (fcounter s)))) = Some s' /\ fcounter s' = S (fcounter s) /\
                fslots s' = set_nth (fcounter s) (fav s t) (fslots s) /\ fsetvals s' = fsetvals s ++ [fav s t] /\
                fpc s' t = (if Nat.eqb (S (fcounter s)) (fnc s) then FS3 else FS4)).
Proof.
  intros Hl Hpc Hc. cbn [fstep]. rewrite Hl, Hpc. cbn [oeq]. rewrite Nat.eqb_refl.
  assert (L : Nat.ltb (fcounter s) (fnc s) = true) by (apply Nat.ltb_lt; exact Hc).
  assert (L2 : Nat.leb (fnc s) (fcounter s) = false) by (apply Nat.leb_gt; exact Hc).
  rewrite L, L2. cbn [andb]. split; [reflexivity|]. split.
  - intros [E C]. apply Nat.eqb_eq in E. rewrite E, C. cbn [andb negb]. split; [reflexivity|].
    eexists. split; [reflexivity|]. fsimpl. rewrite upd_same. repeat split.
  - intros N. assert (Q : Nat.eqb (S (fcounter s)) (fnc s) && fcb s = false).
    { destruct (Nat.eqb (S (fcounter s)) (fnc s)) eqn:E; [|reflexivity]. apply Nat.eqb_eq in E.
      destruct (fcb s); [exfalso; apply N; auto|reflexivity]. }
    rewrite Q. cbn [negb andb]. rewrite Z.eqb_refl. split; [reflexivity|].
    eexists. split; [reflexivity|]. fsimpl. rewrite upd_same. repeat split.
Qed.

(* test reports the comparison of the counter it loads *)
Theorem fut_test_exact s t c s' : fpc s t = FT0 -> fstep s (FLoad t c) = Some s' ->
  c = Z.of_nat (fcounter s) /\ fflag s' t = Nat.eqb (fcounter s) (fnc s) /\ fwgen s' t = fgen s' /\
  fpc s' t = FTR /\ fcounter s' = fcounter s.
Proof.
  intros Hpc H. cbn [fstep] in H. rewrite Hpc in H.
  destruct (Z.eqb c (Z.of_nat (fcounter s))) eqn:E; [|discriminate]. apply Z.eqb_eq in E.
  inversion H; subst s'; fsimpl. rewrite !upd_same. auto.
Qed.

(* ---- callback ---- *)
Theorem fut_callback_once n cb tr s : frun (finit n cb) tr = Some s ->
  fcbc s <= 1 /\
  (fcbc s = 1 <-> (fcounter s = n /\ cb = true /\ 0 < n) \/ fin_cb s = true) /\
  (flock s = None -> (fcbc s = 1 <-> fcounter s = n /\ cb = true /\ 0 < n)).
Proof.
  intros H. destruct (frun_params _ _ _ H) as [A B]. cbn in A, B. apply finv_reachable in H.
  split; [apply (f_cb0 _ H)|].
  assert (W : fcbc s = 1 <-> (fcounter s = n /\ cb = true /\ 0 < n) \/ fin_cb s = true).
  { split.
    - intros E. destruct (f_cbw _ H E) as [(P & Q & R)|(u & Hu & Hv)].
      + left. repeat split; congruence.
      + right. unfold fin_cb. rewrite Hu. exact Hv.
    - intros [(P & Q & R)|F].
      + apply (f_cb1 _ H); congruence.
      + unfold fin_cb in F. destruct (flock s) as [u|]; [|discriminate].
        destruct (f_fs2 _ H u F) as (_ & _ & C & _). exact C. }
  split; [exact W|]. intros L. rewrite W. unfold fin_cb. rewrite L. intuition discriminate.
Qed.

(* the callback step: counter not yet stored, the array holds the values of all n successful sets *)
Theorem fut_callback_sees_all n cb tr s t s' : frun (finit n cb) tr = Some s ->
  fstep s (FCallback t) = Some s' ->
  fcbc s = 0 /\ fcbc s' = 1 /\ S (fcounter s') = n /\ fcounter s' = fcounter s /\
  fcbseen s' = fsetvals s ++ [fav s t] /\ length (fcbseen s') = n /\ fcbseen s' = fslots s' /\
  (forall x, freturned (fpc s' x) = true -> fwgen s' x = fgen s' -> False).
Proof.
  intros H Hs. destruct (frun_params _ _ _ H) as [A B]. cbn in A, B.
  pose proof (finv_reachable _ _ _ _ H) as I.
  pose proof (fstep_inv _ _ _ I Hs) as I'.
  destruct (fut_ghost_meaning _ _ _ Hs) as [G|[G|[G|G]]].
  - exfalso. cbn [fstep] in Hs. fcases Hs. inversion Hs; subst s'; fsimpl. destruct G as (_ & _ & _ & G). lia.
  - destruct G as (t0 & E & _). discriminate.
  - destruct G as (t0 & E & Hpc & C & Cn & Sv & Gn & Seen). inversion E; subst t0.
    assert (F : is_fs2 (fpc s' t) = true).
    { cbn [fstep] in Hs. fcases Hs. inversion Hs; subst s'; fsimpl. rewrite upd_same. reflexivity. }
    destruct (f_fs2 _ I' t F) as (P & Q & R & Sl & Se).
    destruct (fstep_params _ _ _ Hs) as [A' B'].
    assert (Av : fav s' t = fav s t).
    { cbn [fstep] in Hs. fcases Hs. inversion Hs; subst s'; fsimpl. reflexivity. }
    repeat split; try congruence; try lia.
    + rewrite Se, Sl, app_length, (f_sv _ I'). cbn [length]. lia.
    + intros x Hr Hg. pose proof (f_ret _ I' x Hr Hg). lia.
  - destruct G as (t0 & E & _). discriminate.
Qed.

(* ready implies the callback has run (so it precedes the release-store that makes the future
   ready, every waiter's return and every "ready" verdict of test) and saw exactly the n set values *)
Theorem fut_callback_first n cb tr s : frun (finit n cb) tr = Some s ->
  (fcounter s = n -> length (fsetvals s) = n /\
     (cb = true -> 0 < n -> fcbc s = 1 /\ fcbseen s = fsetvals s)) /\
  (forall x, freturned (fpc s x) = true -> fwgen s x = fgen s -> fcounter s = n) /\
  (forall x, fpc s x = FTR -> fflag s x = true -> fwgen s x = fgen s -> fcounter s = n).
Proof.
  intros H. destruct (frun_params _ _ _ H) as [A B]. cbn in A, B. apply finv_reachable in H.
  split; [|split].
  - intros E. split; [rewrite (f_sv _ H); exact E|]. intros C P.
    assert (Q : fcbc s = 1) by (apply (f_cb1 _ H); congruence).
    split; [exact Q|]. apply (f_seen _ H Q). congruence.
  - intros x Hr Hg. rewrite <- A. apply (f_ret _ H x Hr Hg).
  - intros x Hp Hf Hg. rewrite <- A. apply (f_tr _ H x); auto. rewrite Hp. reflexivity.
Qed.

(* the step at which a wait lets its caller go: the future is full *)
Theorem fut_wait_return_step s e s' x : FInv s -> fstep s e = Some s' ->
  freturned (fpc s x) = false -> freturned (fpc s' x) = true ->
  fcounter s' = fnc s' /\ fwgen s' x = fgen s'.
Proof.
  intros I H H0 H1.
  destruct e as [t k o|t r|t| |t ult|y| |t c|t|t i v|t c|t flag]; cbn [fstep] in H; fcases H.
  all: inversion H; subst s'; clear H; fsimpl.
  all: repeat match goal with
       | F : (_ =? _)%nat = true |- _ => apply Nat.eqb_eq in F; subst
       | F : (_ <=? _)%nat = true |- _ => apply Nat.leb_le in F
       end.
  all: ucases x; try congruence; try (cbn in H1; discriminate).
  all: try match goal with E : fpc _ ?y = _, F : freturned (fpc _ ?y) = false |- _ => rewrite E in F; cbn in F; discriminate end.
  all: rewrite ?upd_same in *; cbn in H1; try discriminate.
  all: split; try reflexivity.
  all: try (pose proof (f_cnt _ I); lia).
  all: match goal with E : fpc _ ?n = FS3 |- _ => apply (f_full _ I n); rewrite E; reflexivity
                     | E : fpc _ ?n = FS3w |- _ => apply (f_full _ I n); rewrite E; reflexivity end.
Qed.

(* ---- no lost waiter ---- *)
Theorem fut_no_lost_waiter n cb tr s : frun (finit n cb) tr = Some s ->
  (forall x, fqueued (fpc s x) = true ->
     In x (fwl s) /\ (fcounter s < n \/ exists u, flock s = Some u /\ fwaking (fpc s u) = true)) /\
  (flock s = None -> fcounter s = n -> fwl s = [] /\ forall x, fqueued (fpc s x) = false).
Proof.
  intros H. destruct (frun_params _ _ _ H) as [A B]. cbn in A, B. apply finv_reachable in H. split.
  - intros x Hq. assert (Hin : In x (fwl s)) by (apply inb_In; rewrite (f_wl _ H); exact Hq).
    split; [exact Hin|]. pose proof (f_cnt _ H) as C.
    destruct (Nat.eq_dec (fcounter s) (fnc s)) as [E|E]; [right|left; lia].
    apply (f_nl _ H E). intros W. rewrite W in Hin. destruct Hin.
  - intros Hl R. assert (E : fwl s = []).
    { destruct (fwl s) eqn:E; [reflexivity|].
      destruct (f_nl _ H) as [u [Hu _]]; [congruence|rewrite E; discriminate|congruence]. }
    split; [exact E|]. intros x. rewrite <- (f_wl _ H x), E. reflexivity.
Qed.

(* the set that fills the future has woken every waiter queued before its release *)
Theorem fut_set_wakes_all n cb tr s u s' : frun (finit n cb) tr = Some s ->
  flock s = Some u -> ffull (fpc s u) = true -> fstep s FRel = Some s' ->
  fwl s' = [] /\ (forall x, fqueued (fpc s' x) = false) /\ fcounter s' = n /\ fret s' u = 0%Z.
Proof.
  intros H Hl Hpc Hs. destruct (frun_params _ _ _ H) as [A B]. cbn in A, B.
  pose proof (finv_reachable _ _ _ _ H) as I.
  assert (I' : FInv s') by (eapply fstep_inv; eauto).
  pose proof (f_full _ I u Hpc) as R.
  assert (E : fwl s' = [] /\ fcounter s' = fcounter s /\ fret s' u = 0%Z).
  { cbn [fstep] in Hs. rewrite Hl in Hs. destruct (fpc s u); try discriminate;
    destruct (fwl s) eqn:W; try discriminate; inversion Hs; subst s'; fsimpl; rewrite upd_same; auto. }
  destruct E as [E [R' Q]]. repeat split; auto; try congruence.
  intros x. rewrite <- (f_wl _ I' x), E. reflexivity.
Qed.

(* ... and its broadcast can always take the next step *)
Theorem fut_wake_enabled n cb tr s u x rest : frun (finit n cb) tr = Some s ->
  flock s = Some u -> fwaking (fpc s u) = true -> fwl s = x :: rest ->
  exists s', fstep s (FWake x) = Some s' /\ fwl s' = rest /\ freturned (fpc s' x) = true.
Proof.
  intros H Hl Hpc Hw. apply finv_reachable in H.
  pose proof (f_wl _ H x) as Q. rewrite Hw, inb_cons, Nat.eqb_refl in Q. cbn [orb] in Q.
  pose proof (f_lock _ H x) as L. rewrite Hl in L.
  assert (N : x <> u).
  { intros ->. destruct (fpc s u); cbn in *; congruence. }
  rewrite (oeq_some_ne _ _ N) in L.
  cbn [fstep]. rewrite Hl, Hw, Nat.eqb_refl.
  destruct (fpc s u) eqn:Eu; try discriminate;
  destruct (fpc s x) eqn:Ex; cbn in Q, L; try discriminate;
  eexists; (split; [reflexivity|]); fsimpl; rewrite upd_same; split; reflexivity.
Qed.
