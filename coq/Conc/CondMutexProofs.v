(* Invariant of the CondMutex LTS (one condition variable + its mutex) for any
   number of callers and any interleaving.  The mutex invariant of
   MutexProofs.v is REUSED: every cond step projects to a (possibly empty) run
   of the mutex LTS on the [ms] component ([cstep_projects]). *)
From Coq Require Import List Arith ZArith Lia Bool.
From ABT Require Import Common.ListAux Conc.Mutex Conc.MutexProofs Conc.CondMutex.
Import ListNotations.

(* ------------------------------------------------------------------ *)
(* 1. projection onto the mutex LTS                                     *)

Lemma begin_unlock_projects s t s' : begin_unlock s t = Some s' ->
  Mutex.step (ms s) (EBegin t OUnlock) = Some (ms s') /\ pc (ms s') t = U1 /\
  s' = set_cpc (set_ms s (ms s')) t CWU.
Proof.
  unfold begin_unlock. destruct (Mutex.step (ms s) (EBegin t OUnlock)) as [m'|] eqn:E; [|discriminate].
  destruct (pc m' t) eqn:P; try discriminate. intros H; inversion H; subst s'. cbn. auto.
Qed.

Lemma wake_head_ms s x s' : wake_head s x = Some s' -> ms s' = ms s.
Proof.
  unfold wake_head. destruct (cwl s) as [|[y b] r]; [discriminate|].
  destruct (Nat.eqb x y); [|discriminate]. destruct (woken_pc (cpc s x)); [|discriminate].
  intros H; inversion H; reflexivity.
Qed.

Theorem cstep_projects s e s' : cstep s e = Some s' ->
  exists mtr, Mutex.run (ms s) mtr = Some (ms s').
Proof.
  intros H. destruct e as [me|t k o|t r|t| |t m|t k| o|x| |t v|n]; cbn [cstep] in H.
  - (* CM *)
    destruct me as [t o|t r|t f|t| |t| |t u|x| ].
    3: { destruct (cpc s t) eqn:C; destruct (pc (ms s) t) eqn:P;
         try (destruct (Mutex.step (ms s) (ETry t f)) as [m'|] eqn:E; [|discriminate];
              inversion H; subst s'; exists [ETry t f]; cbn [Mutex.run ms set_ms]; rewrite E; reflexivity).
         all: destruct (Mutex.step (ms s) (EBegin t OLock)) as [m1|] eqn:E1; [|discriminate];
              destruct (Mutex.step m1 (ETry t f)) as [m'|] eqn:E2; [|discriminate];
              inversion H; subst s'; exists [EBegin t OLock; ETry t f]; cbn [Mutex.run ms set_ms set_cpc];
              rewrite E1, E2; reflexivity. }
    1,2: destruct (cpc s t); try discriminate.
    all: match type of H with match Mutex.step ?m ?ev with _ => _ end = _ =>
           destruct (Mutex.step m ev) as [m'|] eqn:E; [|discriminate];
           inversion H; subst s'; exists [ev]; cbn [Mutex.run ms set_ms]; rewrite E; reflexivity end.
  - (* CBegin *)
    exists []. destruct (cpc s t); try discriminate.
    destruct o as [m|m d| |]; [destruct k| | |]; try (inversion H; reflexivity).
    all: destruct (Nat.eqb m (mid s)); [destruct (pc (ms s) t); try discriminate; destruct (nest (ms s)); try discriminate|
                                         destruct (wmx s); try discriminate].
    all: inversion H; reflexivity.
  - (* CEnd *)
    exists []. destruct (cpc s t); try discriminate.
    + destruct (Z.eqb (cret s t) r); inversion H; reflexivity.
    + destruct (pc (ms s) t); try discriminate. destruct (Z.eqb r 0); inversion H; reflexivity.
    + destruct (pc (ms s) t); try discriminate. destruct (Z.eqb r ERR_COND_TIMEDOUT); inversion H; reflexivity.
  - (* CAcq *)
    destruct (clock s); [discriminate|].
    destruct (cpc s t); try discriminate.
    1: { destruct (wmx s) as [m'|]; [|inversion H; exists []; reflexivity].
         destruct (Nat.eqb m' (mid s)); [|inversion H; exists []; reflexivity].
         apply begin_unlock_projects in H. destruct H as (E & _ & _). cbn [ms set_clock] in E.
         exists [EBegin t OUnlock]. cbn [Mutex.run]. rewrite E. reflexivity. }
    1: { destruct (wmx s) as [m'|]; [|discriminate]. destruct (Nat.eqb m' (mid s)); [|discriminate].
         inversion H; exists []; reflexivity. }
    all: try (inversion H; exists []; reflexivity).
    all: destruct (Z.leb (dl s t) (now s)); [|discriminate]; inversion H; exists []; reflexivity.
  - (* CRel *)
    exists []. destruct (clock s) as [t|]; [|discriminate].
    destruct (cpc s t); try discriminate; try (inversion H; reflexivity).
    destruct (cwl s); [|discriminate]. inversion H; reflexivity.
  - (* CBind *)
    destruct (cpc s t); try discriminate. destruct (clock s) as [u|]; [|discriminate].
    destruct (wmx s); [discriminate|]. destruct (Nat.eqb u t && Nat.eqb m (mid s)); [|discriminate].
    apply begin_unlock_projects in H. destruct H as (E & _ & _). cbn [ms set_wmx] in E.
    exists [EBegin t OUnlock]. cbn [Mutex.run]. rewrite E. reflexivity.
  - (* CEnq *)
    exists []. destruct (cpc s t); try discriminate. destruct (clock s) as [u|]; [|discriminate].
    destruct (pc (ms s) t); try discriminate. destruct (Nat.eqb u t); [|discriminate].
    destruct k as [|[|[|k]]]; destruct (tmd s t); destruct (ulk s t); try discriminate; inversion H; reflexivity.
  - (* CSignal *)
    exists []. destruct (clock s) as [u|]; [|discriminate]. destruct (cpc s u); try discriminate.
    destruct o as [x|]; destruct (cwl s) eqn:L; try discriminate; [|inversion H; reflexivity].
    destruct (wake_head s x) as [s1|] eqn:W; [|discriminate]. inversion H; subst s'. cbn [ms set_cpc].
    rewrite (wake_head_ms _ _ _ W). reflexivity.
  - (* CWake *)
    exists []. destruct (clock s) as [u|]; [|discriminate]. destruct (cpc s u); try discriminate.
    all: destruct (wake_head s x) as [s1|] eqn:W; [|discriminate]; inversion H; subst s'; cbn [ms set_cpc];
         rewrite (wake_head_ms _ _ _ W); reflexivity.
  - (* CBcast *)
    exists []. destruct (clock s) as [u|]; [|discriminate]. destruct (cpc s u); try discriminate.
    destruct (cwl s); [|discriminate]. inversion H; reflexivity.
  - (* CTimeout *)
    exists []. destruct (clock s) as [u|]; [|discriminate].
    destruct (Nat.eqb u t && Z.leb (dl s t) (now s)); [|discriminate].
    destruct (cpc s t); try discriminate; destruct v; try discriminate; try (inversion H; reflexivity).
    destruct (ulk s t); [discriminate|]. inversion H; reflexivity.
  - (* CTick *)
    exists []. destruct (Z.leb (now s) n); [|discriminate]. inversion H; reflexivity.
Qed.

Lemma run_app s tr1 : forall tr2 s1, Mutex.run s tr1 = Some s1 -> Mutex.run s (tr1 ++ tr2) = Mutex.run s1 tr2.
Proof.
  revert s. induction tr1 as [|e r IH]; cbn; intros s tr2 s1 H.
  - inversion H; reflexivity.
  - destruct (Mutex.step s e); [|discriminate]. apply IH; exact H.
Qed.

Theorem crun_projects tr : forall s s', crun s tr = Some s' ->
  exists mtr, Mutex.run (ms s) mtr = Some (ms s').
Proof.
  induction tr as [|e r IH]; cbn; intros s s' H.
  - inversion H; subst. exists []. reflexivity.
  - destruct (cstep s e) as [s1|] eqn:E; [|discriminate].
    destruct (cstep_projects _ _ _ E) as [m1 H1]. destruct (IH _ _ H) as [m2 H2].
    exists (m1 ++ m2). rewrite (run_app _ _ _ _ H1). exact H2.
Qed.

(* every reachable state of the cond LTS carries a reachable state of the C04 mutex LTS *)
Corollary mutex_reachable rec m t0 tr s : crun (cinit rec m t0) tr = Some s ->
  exists mtr, Mutex.run (Mutex.init rec) mtr = Some (ms s).
Proof. intros H. apply crun_projects in H. exact H. Qed.

Corollary mutex_inv rec m t0 tr s : crun (cinit rec m t0) tr = Some s -> Inv (ms s).
Proof. intros H. destruct (mutex_reachable _ _ _ _ _ H) as [mtr Hm]. eapply inv_reachable; eauto. Qed.

(* ------------------------------------------------------------------ *)
(* 2. invariant of the condition-variable part                          *)

Definition cinb (x : nat) (l : list (nat * bool)) : bool := inb x (map fst l).
(* still owns the mutex on behalf of the wait call (mutex unlock not started) *)
Definition pre_hold (p : cpcT) : bool := match p with CW0 | CW1 => true | _ => false end.
(* program points only reached through the test "now >= deadline" *)
Definition past_dl (p : cpcT) : bool :=
  match p with CTT | CTTr | CTX | CTXr | CTO | CWLt => true | _ => false end.
(* program points of ABT_cond_timedwait only *)
Definition timed_pc (p : cpcT) : bool :=
  match p with CTQ | CTP | CTPr | CTS | CTSr | CTQr | CTT | CTTr | CTX | CTXr | CTO | CWLt => true | _ => false end.

Record CInv (s : cst) : Prop := {
  ci_clk  : forall x, inclk (cpc s x) = oeq (clock s) x;
  ci_q    : forall x, cinb x (cwl s) = cqueued (cpc s x);
  ci_nd   : NoDup (map fst (cwl s));
  ci_cr   : forall x, credit s x = credited (cpc s x);
  ci_cnt  : forall x, given s x = taken s x + (if credit s x then 1 else 0);
  ci_hold : forall x, pre_hold (cpc s x) = true -> pc (ms s) x = Holding;
  ci_dl   : forall x, past_dl (cpc s x) = true -> (dl s x <= now s)%Z;
  ci_tm   : forall x, timed_pc (cpc s x) = true -> tmd s x = true
}.

Lemma cinv_init rec m t0 : CInv (cinit rec m t0).
Proof. constructor; cbn; auto; try discriminate. constructor. Qed.

(* a mutex step by anybody leaves a holder that is not starting a call where it is *)
Lemma holding_frame m e m' x : Mutex.step m e = Some m' -> pc m x = Holding ->
  (forall o, e <> EBegin x o) -> pc m' x = Holding.
Proof.
  intros H P Hne.
  destruct e as [t o|t r|t failed|t| |t| |t ult|y| ]; cbn [Mutex.step] in H.
  all: repeat match type of H with
       | context [match ?X with _ => _ end] => destruct X eqn:?
       end; try discriminate.
  all: inversion H; subst m'; clear H; try exact P.
  all: cbn [pc set_pc set_pc_ret acquired].
  all: try (destruct (Nat.eq_dec x t) as [->|Hx];
            [first [congruence | exfalso; eapply Hne; reflexivity] | rewrite upd_other by assumption; exact P]).
  all: try (destruct (Nat.eq_dec x n) as [->|Hx]; [congruence | rewrite upd_other by assumption; exact P]).
  all: try (destruct (Nat.eq_dec x y) as [->|Hx]; [congruence | rewrite upd_other by assumption; exact P]).
  all: try (exfalso; eapply Hne; reflexivity).
Qed.

Lemma cinb_cons x y b l : cinb x ((y, b) :: l) = Nat.eqb x y || cinb x l.
Proof. reflexivity. Qed.
Lemma cinb_app x l t b : cinb x (l ++ [(t, b)]) = cinb x l || Nat.eqb x t.
Proof. unfold cinb. rewrite map_app. cbn [map fst]. apply inb_app. Qed.
Lemma cinb_unlink x t l : cinb x (unlink t l) = cinb x l && negb (Nat.eqb x t).
Proof.
  induction l as [|[y b] l IH]; [reflexivity|].
  change (unlink t ((y, b) :: l)) with (if negb (Nat.eqb y t) then (y, b) :: unlink t l else unlink t l).
  rewrite cinb_cons. destruct (Nat.eqb_spec y t) as [->|Hy]; cbn [negb].
  - rewrite IH. destruct (Nat.eqb_spec x t); cbn; [rewrite andb_false_r|]; reflexivity.
  - rewrite cinb_cons, IH. destruct (Nat.eqb_spec x y) as [->|]; cbn; [|reflexivity].
    destruct (Nat.eqb_spec y t); [contradiction|reflexivity].
Qed.
Lemma nodup_unlink t l : NoDup (map fst l) -> NoDup (map fst (unlink t l)).
Proof.
  unfold unlink. induction l as [|[y b] l IH]; cbn; auto. intros H. inversion H; subst.
  destruct (Nat.eqb y t); cbn; auto. constructor; auto.
  intros Hin. apply H2. clear -Hin. induction l as [|[z c] l IH]; cbn in *; auto.
  destruct (Nat.eqb z t); cbn in *; tauto.
Qed.
Lemma cinb_head_tail y b l : NoDup (map fst ((y, b) :: l)) -> cinb y l = false.
Proof. cbn. intros H. inversion H; subst. apply inb_false. assumption. Qed.

(* ---- automation for pointwise goals ---- *)
Ltac case_nat x a :=
  let Hne := fresh "Hne" in let E := fresh "E" in let E' := fresh "E" in
  destruct (Nat.eq_dec x a) as [?|Hne];
  [ subst x; rewrite ?Nat.eqb_refl in *
  | pose proof (proj2 (Nat.eqb_neq x a) Hne) as E;
    pose proof (proj2 (Nat.eqb_neq a x) (not_eq_sym Hne)) as E';
    rewrite ?E, ?E' in *; clear E E' ].

Ltac split_eqb :=
  repeat match goal with
  | |- context [Nat.eqb ?a ?b] => lazymatch a with b => fail | _ => case_nat a b end
  | H : context [Nat.eqb ?a ?b] |- _ => lazymatch a with b => fail | _ => case_nat a b end
  end.

Ltac use_pc_facts :=
  repeat match goal with
  | E : cpc ?S ?a = _ |- _ => progress (rewrite E in * )
  | E : clock ?S = _ |- _ => progress (rewrite E in * )
  | E : cwl ?S = _ |- _ => progress (rewrite E in * )
  end.

Ltac cls := cbn [inclk cqueued credited pre_hold past_dl timed_pc oeq cinb negb andb orb] in *.

Ltac fin :=
  cls; try assumption; try reflexivity; try discriminate; try congruence; try lia.

(* pointwise equality / implication, given the old pointwise fact I *)
Ltac pt I :=
  let x := fresh "x" in intros x;
  let Hx := fresh "Hx" in pose proof (I x) as Hx;
  unfold upd in *; use_pc_facts; cls; split_eqb; use_pc_facts; fin.

Ltac prep I H :=
  unfold wake_head, begin_unlock in H;
  repeat match type of H with
  | context [match ?X with _ => _ end] => destruct X eqn:?
  end; try discriminate;
  inversion H; subst; clear H;
  destruct I as [Iclk Iq Ind Icr Icnt Ihold Idl Itm];
  constructor;
  cbn [ms mid clock cwl wmx cpc tmd ulk dl now cret credit given taken
       set_ms set_cpc set_clock set_cwl set_wmx set_cret set_now set_call give take] in *.

(* ci_hold across a mutex step EBegin/ETry... of thread t that is not (any longer) at CW0/CW1 *)
Ltac pth Ihold t :=
  let x := fresh "x" in let Hp := fresh "Hp" in
  intros x Hp; unfold upd in Hp; destruct (Nat.eq_dec x t) as [->|Hne];
  [ rewrite Nat.eqb_refl in Hp; cbn in Hp; discriminate
  | rewrite (proj2 (Nat.eqb_neq x t) Hne) in Hp;
    eapply holding_frame; [eassumption | apply Ihold; exact Hp | intros ? Eq; inversion Eq; congruence] ].

Lemma inv_acq s t s' : CInv s -> cstep s (CAcq t) = Some s' -> CInv s'.
Proof.
  intros I H. cbn [cstep] in H. prep I H.
  all: try assumption.
  all: try solve [pt Iclk]. all: try solve [pt Iq]. all: try solve [pt Icr]. all: try solve [pt Icnt].
  all: try solve [pt Ihold]. all: try solve [pt Idl]. all: try solve [pt Itm].
  pth Ihold t.
Qed.

Lemma inv_bind s t m s' : CInv s -> cstep s (CBind t m) = Some s' -> CInv s'.
Proof.
  intros I H. cbn [cstep] in H. prep I H.
  all: try assumption.
  all: try solve [pt Iclk]. all: try solve [pt Iq]. all: try solve [pt Icr]. all: try solve [pt Icnt].
  all: try solve [pt Ihold]. all: try solve [pt Idl]. all: try solve [pt Itm].
  all: try solve [pth Ihold t].
Qed.

Lemma inv_begin s t k o s' : CInv s -> cstep s (CBegin t k o) = Some s' -> CInv s'.
Proof.
  intros I H. cbn [cstep] in H. prep I H.
  all: try assumption.
  all: try solve [pt Iclk]. all: try solve [pt Iq]. all: try solve [pt Icr]. all: try solve [pt Icnt].
  all: try solve [pt Ihold]. all: try solve [pt Idl]. all: try solve [pt Itm].

Qed.

(* pointwise, with the credit fact of the same thread at hand *)
Ltac ptc Icnt Icr :=
  let x := fresh "x" in intros x;
  let Hx := fresh "Hx" in pose proof (Icnt x) as Hx;
  let Hc := fresh "Hc" in pose proof (Icr x) as Hc;
  unfold upd in *; use_pc_facts; cls; split_eqb; use_pc_facts; cls;
  try (destruct (credit _ _); try discriminate); fin.

Lemma inv_end s t r s' : CInv s -> cstep s (CEnd t r) = Some s' -> CInv s'.
Proof.
  intros I H. cbn [cstep] in H. prep I H.
  all: try assumption.
  all: try solve [pt Iclk]. all: try solve [pt Iq]. all: try solve [pt Icr]. all: try solve [pt Icnt].
  all: try solve [pt Ihold]. all: try solve [pt Idl]. all: try solve [pt Itm].
  all: try solve [ptc Icnt Icr].
Qed.

Lemma inv_enq s t k s' : CInv s -> cstep s (CEnq t k) = Some s' -> CInv s'.
Proof.
  intros I H. cbn [cstep] in H. prep I H.
  all: try assumption.
  all: try solve [pt Iclk]. all: try solve [pt Iq]. all: try solve [pt Icr]. all: try solve [pt Icnt].
  all: try solve [pt Ihold]. all: try solve [pt Idl]. all: try solve [pt Itm].
  all: try solve [ intros x; rewrite cinb_app; pose proof (Iq x) as Hx; unfold upd; case_nat x t;
                   use_pc_facts; cls; rewrite ?orb_true_r, ?orb_false_r; fin ].
  all: rewrite map_app; cbn [map fst]; apply NoDup_snoc; [assumption|];
       apply inb_false; change (cinb t (cwl s) = false); rewrite Iq; use_pc_facts; reflexivity.
Qed.

Lemma inv_rel s s' : CInv s -> cstep s CRel = Some s' -> CInv s'.
Proof.
  intros I H. cbn [cstep] in H. prep I H.
  all: try assumption.
  all: try solve [pt Iclk]. all: try solve [pt Iq]. all: try solve [pt Icr]. all: try solve [pt Icnt].
  all: try solve [pt Ihold]. all: try solve [pt Idl]. all: try solve [pt Itm].

Qed.

Lemma wake_head_spec s x s1 : wake_head s x = Some s1 ->
  exists b rest p, cwl s = (x, b) :: rest /\ woken_pc (cpc s x) = Some p /\
                   s1 = give (set_cpc (set_cwl s rest) x p) x.
Proof.
  unfold wake_head. destruct (cwl s) as [|[y b] rest]; [discriminate|].
  destruct (Nat.eqb_spec x y) as [->|]; [|discriminate].
  destruct (woken_pc (cpc s y)) as [p|] eqn:W; [|discriminate].
  intros H; inversion H. exists b, rest, p. auto.
Qed.

(* the state after the head x has been dequeued and made runnable, and the waker u moved on to q *)
Lemma inv_wake s u x s1 q : CInv s -> clock s = Some u -> inclk (cpc s u) = true ->
  wake_head s x = Some s1 ->
  inclk q = true -> cqueued q = false -> credited q = false -> pre_hold q = false -> past_dl q = false ->
  timed_pc q = false -> cqueued (cpc s u) = false -> credited (cpc s u) = false ->
  CInv (set_cpc s1 u q).
Proof.
  intros I Hc Hu W Q1 Q2 Q3 Q4 Q5 Q6 Q7 Q8.
  destruct (wake_head_spec _ _ _ W) as (b & rest & p & L & Wp & ->).
  pose proof (ci_nd _ I) as Hnd. rewrite L in Hnd. pose proof (cinb_head_tail _ _ _ Hnd) as Hni.
  assert (Hux : u <> x).
  { intros ->. destruct (cpc s x); cbn in Wp, Hu; congruence. }
  destruct I as [Iclk Iq Ind Icr Icnt Ihold Idl Itm].
  constructor;
  cbn [ms mid clock cwl wmx cpc tmd ulk dl now cret credit given taken
       set_ms set_cpc set_clock set_cwl set_wmx set_cret set_now set_call give take] in *.
  - intros y. pose proof (Iclk y) as Hy. unfold upd. rewrite Hc in *. cbn [oeq] in *.
    case_nat y u; [rewrite Q1; reflexivity|]. case_nat y x; [|exact Hy].
    destruct (cpc s x); cbn in Wp; try discriminate; inversion Wp; reflexivity.
  - intros y. pose proof (Iq y) as Hy. rewrite L, cinb_cons in Hy. unfold upd.
    case_nat y u.
    + rewrite Q2. rewrite Q7 in Hy. destruct (Nat.eqb_spec u x); [contradiction|]. exact Hy.
    + case_nat y x; [|exact Hy]. rewrite Hni.
      destruct (cpc s x); cbn in Wp; try discriminate; inversion Wp; reflexivity.
  - rewrite L in Ind. cbn in Ind. inversion Ind; assumption.
  - intros y. pose proof (Icr y) as Hy. unfold upd.
    case_nat y x.
    + destruct (Nat.eqb_spec x u); [congruence|].
      destruct (cpc s x); cbn in Wp; try discriminate; inversion Wp; reflexivity.
    + case_nat y u; [rewrite Q3, Hy; exact Q8|exact Hy].
  - intros y. pose proof (Icnt y) as Hy. pose proof (Icr y) as Hcy. unfold upd.
    case_nat y x; [|exact Hy].
    assert (credit s x = false) as Hf.
    { rewrite Hcy. destruct (cpc s x); cbn in Wp; try discriminate; reflexivity. }
    rewrite Hf in Hy. lia.
  - intros y. unfold upd. case_nat y u; [rewrite Q4; discriminate|].
    case_nat y x; [|apply Ihold].
    destruct (cpc s x); cbn in Wp; try discriminate; inversion Wp; discriminate.
  - intros y. unfold upd. case_nat y u; [rewrite Q5; discriminate|].
    case_nat y x; [|apply Idl].
    destruct (cpc s x); cbn in Wp; try discriminate; inversion Wp; discriminate.
  - intros y. unfold upd. case_nat y u; [rewrite Q6; discriminate|].
    case_nat y x; [|apply Itm].
    intros Hp. destruct (cpc s x) eqn:Cx; cbn in Wp; try discriminate; inversion Wp; subst p;
    cbn in Hp; try discriminate; apply Itm; rewrite Cx; reflexivity.
Qed.

Lemma inv_signal s o s' : CInv s -> cstep s (CSignal o) = Some s' -> CInv s'.
Proof.
  intros I H. cbn [cstep] in H.
  destruct (clock s) as [u|] eqn:Hc; [|discriminate]. destruct (cpc s u) eqn:Cu; try discriminate.
  destruct o as [x|]; destruct (cwl s) eqn:L; try discriminate.
  - destruct (wake_head s x) as [s1|] eqn:W; [|discriminate]. inversion H; subst s'.
    eapply inv_wake; eauto; rewrite ?Cu; reflexivity.
  - inversion H; subst s'. clear H.
    destruct I as [Iclk Iq Ind Icr Icnt Ihold Idl Itm]; constructor;
    cbn [ms mid clock cwl wmx cpc tmd ulk dl now cret credit given taken set_cpc] in *.
  all: try assumption.
  all: try solve [pt Iclk]. all: try solve [pt Iq]. all: try solve [pt Icr]. all: try solve [pt Icnt].
  all: try solve [pt Ihold]. all: try solve [pt Idl]. all: try solve [pt Itm].

Qed.

Lemma inv_cwake s x s' : CInv s -> cstep s (CWake x) = Some s' -> CInv s'.
Proof.
  intros I H. cbn [cstep] in H.
  destruct (clock s) as [u|] eqn:Hc; [|discriminate]. destruct (cpc s u) eqn:Cu; try discriminate.
  all: destruct (wake_head s x) as [s1|] eqn:W; [|discriminate]; inversion H; subst s';
       eapply inv_wake; eauto; rewrite ?Cu; reflexivity.
Qed.

Lemma inv_bcast s s' : CInv s -> cstep s CBcast = Some s' -> CInv s'.
Proof.
  intros I H. cbn [cstep] in H. prep I H.
  all: try assumption.
  all: try solve [pt Iclk]. all: try solve [pt Iq]. all: try solve [pt Icr]. all: try solve [pt Icnt].
  all: try solve [pt Ihold]. all: try solve [pt Idl]. all: try solve [pt Itm].

Qed.

Lemma inv_timeout s t v s' : CInv s -> cstep s (CTimeout t v) = Some s' -> CInv s'.
Proof.
  intros I H. cbn [cstep] in H. prep I H.
  all: try assumption.
  all: try solve [pt Iclk]. all: try solve [pt Iq]. all: try solve [pt Icr]. all: try solve [pt Icnt].
  all: try solve [pt Ihold]. all: try solve [pt Idl]. all: try solve [pt Itm].
  all: try solve [ intros x; rewrite cinb_unlink; pose proof (Iq x) as Hx; unfold upd; case_nat x t;
                   use_pc_facts; cls; rewrite ?andb_true_r, ?andb_false_r; fin ].
  all: apply nodup_unlink; assumption.
Qed.

Lemma inv_tick s n s' : CInv s -> cstep s (CTick n) = Some s' -> CInv s'.
Proof.
  intros I H. cbn [cstep] in H. prep I H.
  all: try assumption.
  all: try solve [pt Iclk]. all: try solve [pt Iq]. all: try solve [pt Icr]. all: try solve [pt Icnt].
  all: try solve [pt Ihold]. all: try solve [pt Idl]. all: try solve [pt Itm].
  intros x Hp. specialize (Idl x Hp). lia.
Qed.

(* woken or timed out: the next record of the caller is the first try_acquire of ABTI_mutex_lock *)
Definition lockable (p : cpcT) : option cpcT :=
  match p with CRdy | CER | CTPr | CTSr => Some CWLs | CTO => Some CWLt | _ => None end.

Lemma cm_cases s me s' : cstep s (CM me) = Some s' ->
  (Mutex.step (ms s) me = Some (ms s') /\ s' = set_ms s (ms s') /\
   (forall t o, me = EBegin t o -> cpc s t = CIdle))
  \/ (exists t f m1 q, me = ETry t f /\ lockable (cpc s t) = Some q /\ pc (ms s) t = Idle /\
        Mutex.step (ms s) (EBegin t OLock) = Some m1 /\ Mutex.step m1 me = Some (ms s') /\
        s' = set_cpc (set_ms s (ms s')) t q).
Proof.
  intros H. cbn [cstep] in H.
  destruct me as [t o|t r|t f|t| |t| |t u|x| ].
  3: { destruct (cpc s t) eqn:C; destruct (pc (ms s) t) eqn:P;
       try (left; destruct (Mutex.step (ms s) (ETry t f)) as [m'|] eqn:E; [|discriminate];
            inversion H; subst s'; cbn [ms set_ms]; repeat split; auto; intros; discriminate).
       all: right; destruct (Mutex.step (ms s) (EBegin t OLock)) as [m1|] eqn:E1; [|discriminate];
            destruct (Mutex.step m1 (ETry t f)) as [m'|] eqn:E2; [|discriminate];
            inversion H; subst s'; exists t, f, m1; eexists; cbn [ms set_ms set_cpc lockable];
            rewrite C; cbn [lockable]; repeat split; eauto. }
  1,2: destruct (cpc s t) eqn:C; try discriminate.
  all: left; match type of H with match Mutex.step ?m ?ev with _ => _ end = _ =>
         destruct (Mutex.step m ev) as [m'|] eqn:E; [|discriminate];
         inversion H; subst s'; cbn [ms set_ms]; repeat split; auto end.
  all: try (intros ? ? Eq; inversion Eq; subst; assumption).
  all: intros; discriminate.
Qed.

Lemma inv_cm s me s' : CInv s -> cstep s (CM me) = Some s' -> CInv s'.
Proof.
  intros I H. destruct (cm_cases _ _ _ H) as [(E & -> & Hb)|(t & f & m1 & q & -> & Lq & P & E1 & E2 & ->)].
  - destruct I as [Iclk Iq Ind Icr Icnt Ihold Idl Itm]; constructor;
    cbn [ms mid clock cwl wmx cpc tmd ulk dl now cret credit given taken set_ms] in *; try assumption.
    intros x Hp. eapply holding_frame; [exact E|apply Ihold; exact Hp|].
    intros o Eq. rewrite (Hb _ _ Eq) in Hp. discriminate.
  - destruct I as [Iclk Iq Ind Icr Icnt Ihold Idl Itm]; constructor;
    cbn [ms mid clock cwl wmx cpc tmd ulk dl now cret credit given taken set_ms set_cpc] in *; try assumption.
    all: destruct (cpc s t) eqn:C; cbn in Lq; try discriminate; inversion Lq; subst q.
    all: try solve [pt Iclk]. all: try solve [pt Iq]. all: try solve [pt Icr]. all: try solve [pt Icnt].
    all: try solve [pt Idl]. all: try solve [pt Itm].
    all: intros x Hp; unfold upd in Hp; destruct (Nat.eq_dec x t) as [->|Hne];
         [ rewrite Nat.eqb_refl in Hp; discriminate
         | rewrite (proj2 (Nat.eqb_neq x t) Hne) in Hp;
           eapply holding_frame; [exact E2| |intros ? Eq; discriminate];
           eapply holding_frame; [exact E1|apply Ihold; exact Hp|intros ? Eq; inversion Eq; congruence] ].
Qed.

Theorem cstep_inv s e s' : CInv s -> cstep s e = Some s' -> CInv s'.
Proof.
  intros I H. destruct e.
  - eapply inv_cm; eauto.
  - eapply inv_begin; eauto.
  - eapply inv_end; eauto.
  - eapply inv_acq; eauto.
  - eapply inv_rel; eauto.
  - eapply inv_bind; eauto.
  - eapply inv_enq; eauto.
  - eapply inv_signal; eauto.
  - eapply inv_cwake; eauto.
  - eapply inv_bcast; eauto.
  - eapply inv_timeout; eauto.
  - eapply inv_tick; eauto.
Qed.

Lemma cinv_run tr : forall s0 s, CInv s0 -> crun s0 tr = Some s -> CInv s.
Proof.
  induction tr as [|e r IH]; cbn; intros s0 s I H.
  - inversion H; subst; exact I.
  - destruct (cstep s0 e) eqn:E; try discriminate. eapply IH; [eapply cstep_inv; eauto|exact H].
Qed.

Theorem cinv_reachable rec m t0 tr s : crun (cinit rec m t0) tr = Some s -> CInv s.
Proof. apply cinv_run, cinv_init. Qed.

