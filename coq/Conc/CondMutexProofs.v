(* Invariant of the CondMutex LTS (one condition variable + its mutex) for any
   number of callers and any interleaving.  The mutex invariant of
   MutexProofs.v is REUSED: every cond step projects to a (possibly empty) run
   of the mutex LTS on the [ms] component ([cstep_projects]). *)
From Coq Require Import List Arith ZArith Lia Bool.
From ABT Require Import Common.ListAux Conc.Mutex Conc.MutexProofs Conc.CondMutex.
Import ListNotations.

(* ------------------------------------------------------------------ *)
(* 1. projection onto the mutex LTS                                     *)

Lemma begin_unlock_projects s t s' : begin_unlock s t = Some s' ->
  Mutex.step (ms s) (EBegin t OUnlock) = Some (ms s') /\ pc (ms s') t = U1 /\
  s' = set_cpc (set_ms s (ms s')) t CWU.
Proof.
  unfold begin_unlock. destruct (Mutex.step (ms s) (EBegin t OUnlock)) as [m'|] eqn:E; [|discriminate].
  destruct (pc m' t) eqn:P; try discriminate. intros H; inversion H; subst s'. cbn. auto.
Qed.

Lemma wake_head_ms s x s' : wake_head s x = Some s' -> ms s' = ms s.
Proof.
  unfold wake_head. destruct (cwl s) as [|[y b] r]; [discriminate|].
  destruct (Nat.eqb x y); [|discriminate]. destruct (woken_pc (cpc s x)); [|discriminate].
  intros H; inversion H; reflexivity.
Qed.

Theorem cstep_projects s e s' : cstep s e = Some s' ->
  exists mtr, Mutex.run (ms s) mtr = Some (ms s').
Proof.
  intros H. destruct e as [me|t k o|t r|t| |t m|t k| o|x| |t v|n]; cbn [cstep] in H.
  - (* CM *)
    destruct me as [t o|t r|t f|t| |t| |t u|x| ].
    3: { destruct (cpc s t) eqn:C; destruct (pc (ms s) t) eqn:P;
         try (destruct (Mutex.step (ms s) (ETry t f)) as [m'|] eqn:E; [|discriminate];
              inversion H; subst s'; exists [ETry t f]; cbn [Mutex.run ms set_ms]; rewrite E; reflexivity).
         all: destruct (Mutex.step (ms s) (EBegin t OLock)) as [m1|] eqn:E1; [|discriminate];
              destruct (Mutex.step m1 (ETry t f)) as [m'|] eqn:E2; [|discriminate];
              inversion H; subst s'; exists [EBegin t OLock; ETry t f]; cbn [Mutex.run ms set_ms set_cpc];
              rewrite E1, E2; reflexivity. }
    1,2: destruct (cpc s t); try discriminate.
    all: match type of H with match Mutex.step ?m ?ev with _ => _ end = _ =>
           destruct (Mutex.step m ev) as [m'|] eqn:E; [|discriminate];
           inversion H; subst s'; exists [ev]; cbn [Mutex.run ms set_ms]; rewrite E; reflexivity end.
  - (* CBegin *)
    exists []. destruct (cpc s t); try discriminate.
    destruct o as [m|m d| |]; [destruct k| | |]; try (inversion H; reflexivity).
    all: destruct (Nat.eqb m (mid s)); [destruct (pc (ms s) t); try discriminate; destruct (nest (ms s)); try discriminate|
                                         destruct (wmx s); try discriminate].
    all: inversion H; reflexivity.
  - (* CEnd *)
    exists []. destruct (cpc s t); try discriminate.
    + destruct (Z.eqb (cret s t) r); inversion H; reflexivity.
    + destruct (pc (ms s) t); try discriminate. destruct (Z.eqb r 0); inversion H; reflexivity.
    + destruct (pc (ms s) t); try discriminate. destruct (Z.eqb r ERR_COND_TIMEDOUT); inversion H; reflexivity.
  - (* CAcq *)
    destruct (clock s); [discriminate|].
    destruct (cpc s t); try discriminate.
    1: { destruct (wmx s) as [m'|]; [|inversion H; exists []; reflexivity].
         destruct (Nat.eqb m' (mid s)); [|inversion H; exists []; reflexivity].
         apply begin_unlock_projects in H. destruct H as (E & _ & _). cbn [ms set_clock] in E.
         exists [EBegin t OUnlock]. cbn [Mutex.run]. rewrite E. reflexivity. }
    1: { destruct (wmx s) as [m'|]; [|discriminate]. destruct (Nat.eqb m' (mid s)); [|discriminate].
         inversion H; exists []; reflexivity. }
    all: try (inversion H; exists []; reflexivity).
    all: destruct (Z.leb (dl s t) (now s)); [|discriminate]; inversion H; exists []; reflexivity.
  - (* CRel *)
    exists []. destruct (clock s) as [t|]; [|discriminate].
    destruct (cpc s t); try discriminate; try (inversion H; reflexivity).
    destruct (cwl s); [|discriminate]. inversion H; reflexivity.
  - (* CBind *)
    destruct (cpc s t); try discriminate. destruct (clock s) as [u|]; [|discriminate].
    destruct (wmx s); [discriminate|]. destruct (Nat.eqb u t && Nat.eqb m (mid s)); [|discriminate].
    apply begin_unlock_projects in H. destruct H as (E & _ & _). cbn [ms set_wmx] in E.
    exists [EBegin t OUnlock]. cbn [Mutex.run]. rewrite E. reflexivity.
  - (* CEnq *)
    exists []. destruct (cpc s t); try discriminate. destruct (clock s) as [u|]; [|discriminate].
    destruct (pc (ms s) t); try discriminate. destruct (Nat.eqb u t); [|discriminate].
    destruct k as [|[|[|k]]]; destruct (tmd s t); destruct (ulk s t); try discriminate; inversion H; reflexivity.
  - (* CSignal *)
    exists []. destruct (clock s) as [u|]; [|discriminate]. destruct (cpc s u); try discriminate.
    destruct o as [x|]; destruct (cwl s) eqn:L; try discriminate; [|inversion H; reflexivity].
    destruct (wake_head s x) as [s1|] eqn:W; [|discriminate]. inversion H; subst s'. cbn [ms set_cpc].
    rewrite (wake_head_ms _ _ _ W). reflexivity.
  - (* CWake *)
    exists []. destruct (clock s) as [u|]; [|discriminate]. destruct (cpc s u); try discriminate.
    all: destruct (wake_head s x) as [s1|] eqn:W; [|discriminate]; inversion H; subst s'; cbn [ms set_cpc];
         rewrite (wake_head_ms _ _ _ W); reflexivity.
  - (* CBcast *)
    exists []. destruct (clock s) as [u|]; [|discriminate]. destruct (cpc s u); try discriminate.
    destruct (cwl s); [|discriminate]. inversion H; reflexivity.
  - (* CTimeout *)
    exists []. destruct (clock s) as [u|]; [|discriminate].
    destruct (Nat.eqb u t && Z.leb (dl s t) (now s)); [|discriminate].
    destruct (cpc s t); try discriminate; destruct v; try discriminate; try (inversion H; reflexivity).
    destruct (ulk s t); [discriminate|]. inversion H; reflexivity.
  - (* CTick *)
    exists []. destruct (Z.leb (now s) n); [|discriminate]. inversion H; reflexivity.
Qed.

Lemma run_app s tr1 : forall tr2 s1, Mutex.run s tr1 = Some s1 -> Mutex.run s (tr1 ++ tr2) = Mutex.run s1 tr2.
Proof.
  revert s. induction tr1 as [|e r IH]; cbn; intros s tr2 s1 H.
  - inversion H; reflexivity.
  - destruct (Mutex.step s e); [|discriminate]. apply IH; exact H.
Qed.

Theorem crun_projects tr : forall s s', crun s tr = Some s' ->
  exists mtr, Mutex.run (ms s) mtr = Some (ms s').
Proof.
  induction tr as [|e r IH]; cbn; intros s s' H.
  - inversion H; subst. exists []. reflexivity.
  - destruct (cstep s e) as [s1|] eqn:E; [|discriminate].
    destruct (cstep_projects _ _ _ E) as [m1 H1]. destruct (IH _ _ H) as [m2 H2].
    exists (m1 ++ m2). rewrite (run_app _ _ _ _ H1). exact H2.
Qed.

(* every reachable state of the cond LTS carries a reachable state of the C04 mutex LTS *)
Corollary mutex_reachable rec m t0 tr s : crun (cinit rec m t0) tr = Some s ->
  exists mtr, Mutex.run (Mutex.init rec) mtr = Some (ms s).
Proof. intros H. apply crun_projects in H. exact H. Qed.

Corollary mutex_inv rec m t0 tr s : crun (cinit rec m t0) tr = Some s -> Inv (ms s).
Proof. intros H. destruct (mutex_reachable _ _ _ _ _ H) as [mtr Hm]. eapply inv_reachable; eauto. Qed.

(* ------------------------------------------------------------------ *)
(* 2. invariant of the condition-variable part                          *)

Definition cinb (x : nat) (l : list (nat * bool)) : bool := inb x (map fst l).
(* still owns the mutex on behalf of the wait call (mutex unlock not started) *)
Definition pre_hold (p : cpcT) : bool := match p with CW0 | CW1 => true | _ => false end.
(* program points only reached through the test "now >= deadline" *)
Definition past_dl (p : cpcT) : bool :=
  match p with CTT | CTTr | CTX | CTXr | CTO | CWLt => true | _ => false end.
(* program points of ABT_cond_timedwait only *)
Definition timed_pc (p : cpcT) : bool :=
  match p with CTQ | CTP | CTPr | CTS | CTSr | CTQr | CTT | CTTr | CTX | CTXr | CTO | CWLt => true | _ => false end.

Record CInv (s : cst) : Prop := {
  ci_clk  : forall x, inclk (cpc s x) = oeq (clock s) x;
  ci_q    : forall x, cinb x (cwl s) = cqueued (cpc s x);
  ci_nd   : NoDup (map fst (cwl s));
  ci_cr   : forall x, credit s x = credited (cpc s x);
  ci_cnt  : forall x, given s x = taken s x + (if credit s x then 1 else 0);
  ci_hold : forall x, pre_hold (cpc s x) = true -> pc (ms s) x = Holding;
  ci_dl   : forall x, past_dl (cpc s x) = true -> (dl s x <= now s)%Z;
  ci_tm   : forall x, timed_pc (cpc s x) = true -> tmd s x = true
}.

Lemma cinv_init rec m t0 : CInv (cinit rec m t0).
Proof. constructor; cbn; auto; try discriminate. constructor. Qed.

(* a mutex step by anybody leaves a holder that is not starting a call where it is *)
Lemma holding_frame m e m' x : Mutex.step m e = Some m' -> pc m x = Holding ->
  (forall o, e <> EBegin x o) -> pc m' x = Holding.
Proof.
  intros H P Hne.
  destruct e as [t o|t r|t failed|t| |t| |t ult|y| ]; cbn [Mutex.step] in H.
  all: repeat match type of H with
       | context [match ?X with _ => _ end] => destruct X eqn:?
       end; try discriminate.
  all: inversion H; subst m'; clear H; try exact P.
  all: cbn [pc set_pc set_pc_ret acquired].
  all: try (destruct (Nat.eq_dec x t) as [->|Hx];
            [first [congruence | exfalso; eapply Hne; reflexivity] | rewrite upd_other by assumption; exact P]).
  all: try (destruct (Nat.eq_dec x n) as [->|Hx]; [congruence | rewrite upd_other by assumption; exact P]).
  all: try (destruct (Nat.eq_dec x y) as [->|Hx]; [congruence | rewrite upd_other by assumption; exact P]).
  all: try (exfalso; eapply Hne; reflexivity).
Qed.

Lemma cinb_cons x y b l : cinb x ((y, b) :: l) = Nat.eqb x y || cinb x l.
Proof. reflexivity. Qed.
Lemma cinb_app x l t b : cinb x (l ++ [(t, b)]) = cinb x l || Nat.eqb x t.
Proof. unfold cinb. rewrite map_app. cbn [map fst]. apply inb_app. Qed.
Lemma cinb_unlink x t l : cinb x (unlink t l) = cinb x l && negb (Nat.eqb x t).
Proof.
  induction l as [|[y b] l IH]; [reflexivity|].
  change (unlink t ((y, b) :: l)) with (if negb (Nat.eqb y t) then (y, b) :: unlink t l else unlink t l).
  rewrite cinb_cons. destruct (Nat.eqb_spec y t) as [->|Hy]; cbn [negb].
  - rewrite IH. destruct (Nat.eqb_spec x t); cbn; [rewrite andb_false_r|]; reflexivity.
  - rewrite cinb_cons, IH. destruct (Nat.eqb_spec x y) as [->|]; cbn; [|reflexivity].
    destruct (Nat.eqb_spec y t); [contradiction|reflexivity].
Qed.
Lemma nodup_unlink t l : NoDup (map fst l) -> NoDup (map fst (unlink t l)).
Proof.
  unfold unlink. induction l as [|[y b] l IH]; cbn; auto. intros H. inversion H; subst.
  destruct (Nat.eqb y t); cbn; auto. constructor; auto.
  intros Hin. apply H2. clear -Hin. induction l as [|[z c] l IH]; cbn in *; auto.
  destruct (Nat.eqb z t); cbn in *; tauto.
Qed.
Lemma cinb_head_tail y b l : NoDup (map fst ((y, b) :: l)) -> cinb y l = false.
Proof. cbn. intros H. inversion H; subst. apply inb_false. assumption. Qed.

(* ---- automation for pointwise goals ---- *)
Ltac case_nat x a :=
  let Hne := fresh "Hne" in let E := fresh "E" in let E' := fresh "E" in
  destruct (Nat.eq_dec x a) as [?|Hne];
  [ subst x; rewrite ?Nat.eqb_refl in *
  | pose proof (proj2 (Nat.eqb_neq x a) Hne) as E;
    pose proof (proj2 (Nat.eqb_neq a x) (not_eq_sym Hne)) as E';
    rewrite ?E, ?E' in *; clear E E' ].

Ltac split_eqb :=
  repeat match goal with
  | |- context [Nat.eqb ?a ?b] => lazymatch a with b => fail | _ => case_nat a b end
  | H : context [Nat.eqb ?a ?b] |- _ => lazymatch a with b => fail | _ => case_nat a b end
  end.

Ltac use_pc_facts :=
  repeat match goal with
  | E : cpc ?S ?a = _ |- _ => progress (rewrite E in * )
  end.

Ltac cls := cbn [inclk cqueued credited pre_hold past_dl timed_pc oeq cinb negb andb orb] in *.

Ltac fin :=
  cls; try assumption; try reflexivity; try discriminate; try congruence; try lia.

(* pointwise equality / implication, given the old pointwise fact I *)
Ltac pt I :=
  let x := fresh "x" in intros x;
  let Hx := fresh "Hx" in pose proof (I x) as Hx;
  unfold upd in *; cls; split_eqb; use_pc_facts; fin.

Ltac prep I H :=
  unfold wake_head, begin_unlock in H;
  repeat match type of H with
  | context [match ?X with _ => _ end] => destruct X eqn:?
  end; try discriminate;
  inversion H; subst; clear H;
  destruct I as [Iclk Iq Ind Icr Icnt Ihold Idl Itm];
  constructor;
  cbn [ms mid clock cwl wmx cpc tmd ulk dl now cret credit given taken
       set_ms set_cpc set_clock set_cwl set_wmx set_cret set_now set_call give take] in *.

Lemma inv_acq s t s' : CInv s -> cstep s (CAcq t) = Some s' -> CInv s'.
Proof.
  intros I H. cbn [cstep] in H. Time prep I H.
  Show.
  intros x. pose proof (Iclk x) as Hx. unfold upd in *. cls. Show. split_eqb. Show.
Abort.
