(* Proofs about the ABT_rwlock LTS (Conc/RWLock.v).  The mutex + cond part of every
   reachable rwlock state is a reachable state of the C05 LTS ([rstep_projects]), so
   the C05 invariant (CondMutexProofs.CInv) and, through it, the C04 mutex invariant
   (MutexProofs.Inv) are REUSED, not re-proved. *)
From Coq Require Import List Arith ZArith Lia Bool.
From ABT Require Import Common.ListAux Conc.Mutex Conc.MutexProofs Conc.CondMutex Conc.CondMutexProofs
                        Conc.CondMutexThms Conc.RWLock.
Import ListNotations.

(* ------------------------------------------------------------------ *)
(* 1. projection onto the cond LTS                                      *)

Lemma crun_app c tr1 : forall tr2 c1, crun c tr1 = Some c1 -> crun c (tr1 ++ tr2) = crun c1 tr2.
Proof.
  revert c. induction tr1 as [|e r IH]; cbn; intros c tr2 c1 H.
  - inversion H; reflexivity.
  - destruct (cstep c e); [|discriminate]. apply IH; exact H.
Qed.

Lemma loop_head_run c t c1 : loop_head c t = Some c1 ->
  (c1 = c \/ cstep c (CEnd t 0%Z) = Some c1) /\ cpc c1 t = CIdle /\ pc (ms c1) t = Holding /\
  (forall x, x <> t -> cpc c1 x = cpc c x) /\ ms c1 = ms c /\ cwl c1 = cwl c /\ clock c1 = clock c.
Proof.
  unfold loop_head. destruct (cpc c t) eqn:C; try discriminate; destruct (pc (ms c) t) eqn:P; try discriminate.
  - intros H; inversion H; subst c1. repeat split; auto.
  - intros H. split; [right; exact H|]. cbn [cstep] in H. rewrite C, P in H. cbn in H.
    inversion H; subst c1. cbn [cpc ms cwl clock take set_cret set_cpc]. rewrite upd_same.
    repeat split; auto. intros x Hx. rewrite upd_other; auto.
Qed.

Lemma loop_head_crun c t c1 : loop_head c t = Some c1 -> exists tr, crun c tr = Some c1.
Proof.
  intros H. destruct (loop_head_run _ _ _ H) as ([->|E] & _).
  - exists []. reflexivity.
  - exists [CEnd t 0%Z]. cbn [crun]. rewrite E. reflexivity.
Qed.

Theorem rstep_projects s e s' : rstep s e = Some s' -> exists ctr, crun (cs s) ctr = Some (cs s').
Proof.
  intros H. destruct e as [t k o|t r|t f v|ce]; cbn [rstep] in H.
  - (* RBegin *)
    destruct (rpc s t); try discriminate.
    assert (Hgen : forall b : bool,
      (if b then match cstep (cs s) (CM (EBegin t OLock)) with
                 | Some c => Some (rmk c (rcount s) (wflag s)
                                      (upd (rpc s) t (match o with ORd => RdL | OWr => WrL | OUn => UnL end))
                                      (upd (rkind s) t k) (rret s) (readers s) (writer s))
                 | None => None end else None) = Some s' ->
      exists ctr, crun (cs s) ctr = Some (cs s')).
    { intros b Hb. destruct b; [|discriminate].
      destruct (cstep (cs s) (CM (EBegin t OLock))) as [c|] eqn:E; [|discriminate].
      inversion Hb; subst s'. exists [CM (EBegin t OLock)]. cbn [crun cs]. rewrite E. reflexivity. }
    destruct o; destruct k; try (inversion H; subst s'; exists []; reflexivity);
    first [eapply (Hgen true); exact H | eapply Hgen; exact H].
  - (* REnd *)
    exists []. destruct (rpc s t); try discriminate.
    + destruct (Z.eqb (rret s t) r); inversion H; reflexivity.
    + destruct (cpc (cs s) t); try discriminate; destruct (pc (ms (cs s)) t); try discriminate;
      destruct (Z.eqb r 0); inversion H; reflexivity.
    + destruct (cpc (cs s) t); try discriminate; destruct (pc (ms (cs s)) t); try discriminate;
      destruct (Z.eqb r 0); inversion H; reflexivity.
    + destruct (cpc (cs s) t); try discriminate; destruct (pc (ms (cs s)) t); try discriminate;
      destruct (Z.eqb r 0); inversion H; reflexivity.
  - (* RData *)
    destruct (rpc s t); try discriminate.
    1,2,3,4: destruct (loop_head (cs s) t) as [c|] eqn:L; [|discriminate];
             match type of H with (if ?b then _ else _) = _ => destruct b; [|discriminate] end;
             destruct (cstep c (CM (EBegin t OUnlock))) as [c'|] eqn:E; [|discriminate];
             inversion H; subst s'; destruct (loop_head_crun _ _ _ L) as [tr Htr];
             exists (tr ++ [CM (EBegin t OUnlock)]); rewrite (crun_app _ _ _ _ Htr); cbn [crun cs]; rewrite E; reflexivity.
    destruct (cpc (cs s) t); try discriminate. destruct (pc (ms (cs s)) t); try discriminate.
    destruct (cstep (cs s) (CBegin t (rkind s t) OBcast)) as [c'|] eqn:E; [|discriminate].
    exists [CBegin t (rkind s t) OBcast]. cbn [crun]. rewrite E.
    destruct (wflag s).
    + destruct (Nat.eqb f 2 && Nat.eqb v 0); [|discriminate]. inversion H; reflexivity.
    + destruct (rcount s); [discriminate|]. destruct (Nat.eqb f 1 && Nat.eqb v n); [|discriminate].
      inversion H; reflexivity.
  - (* RC *)
    destruct (hook_level ce); [|discriminate].
    assert (Hfw : match cstep (cs s) ce with Some c' => Some (set_cs s c') | None => None end = Some s' ->
                  exists ctr, crun (cs s) ctr = Some (cs s')).
    { destruct (cstep (cs s) ce) as [c'|] eqn:E; [|discriminate]. intros Hs; inversion Hs; subst s'.
      exists [ce]. cbn [crun cs set_cs]. rewrite E. reflexivity. }
    destruct ce as [me|t k o|t r|t| |t m|t k| o|x| |t v|n]; try (apply Hfw; exact H).
    + destruct me as [t o|t r|t f|t| |t| |t u|x| ]; try (apply Hfw; exact H).
      destruct (rpc s t); try (apply Hfw; exact H).
      destruct (cpc (cs s) t); try (apply Hfw; exact H).
      unfold csteps in H.
      destruct (crun (cs s) [CEnd t 0%Z; CM (EBegin t OUnlock); CM (EAcqW t)]) as [c'|] eqn:E; [|discriminate].
      inversion H; subst s'. eexists. exact E.
    + destruct (rpc s t) eqn:R; try (apply Hfw; exact H).
      all: destruct (loop_head (cs s) t) as [c|] eqn:L; [|apply Hfw; exact H].
      all: match type of H with (if ?b then _ else _) = _ => destruct b; [|discriminate] end.
      all: unfold csteps in H;
           destruct (crun c [CBegin t (rkind s t) (OWait (mid c)); CAcq t]) as [c'|] eqn:E; [|discriminate];
           inversion H; subst s'; destruct (loop_head_crun _ _ _ L) as [tr Htr];
           exists (tr ++ [CBegin t (rkind s t) (OWait (mid c)); CAcq t]); rewrite (crun_app _ _ _ _ Htr); exact E.
Qed.

Theorem rrun_projects tr : forall s s', rrun s tr = Some s' -> exists ctr, crun (cs s) ctr = Some (cs s').
Proof.
  induction tr as [|e r IH]; cbn; intros s s' H.
  - inversion H; subst. exists []. reflexivity.
  - destruct (rstep s e) as [s1|] eqn:E; [|discriminate].
    destruct (rstep_projects _ _ _ E) as [c1 H1]. destruct (IH _ _ H) as [c2 H2].
    exists (c1 ++ c2). rewrite (crun_app _ _ _ _ H1). exact H2.
Qed.

Corollary inner_reachable m t0 tr s : rrun (rinit m t0) tr = Some s ->
  exists ctr, crun (cinit false m t0) ctr = Some (cs s).
Proof. intros H. apply rrun_projects in H. exact H. Qed.

(* ------------------------------------------------------------------ *)
(* 2. the counters: write_flag / reader_count against the ghost holders  *)

Lemma remove1_length t l : In t l -> S (length (remove1 t l)) = length l.
Proof.
  induction l as [|y r IH]; cbn; [intros []|].
  destruct (Nat.eqb_spec t y) as [->|Hne]; [reflexivity|].
  intros [E|Hin]; [congruence|]. cbn. rewrite IH; auto.
Qed.
Lemma remove1_other x t l : x <> t -> In x l -> In x (remove1 t l).
Proof.
  intros Hne. induction l as [|y r IH]; cbn; auto.
  destruct (Nat.eqb_spec t y) as [->|Hy].
  - intros [E|Hin]; [congruence|exact Hin].
  - intros [E|Hin]; [left; exact E|right; auto].
Qed.
Lemma existsb_eqb_In t l : existsb (Nat.eqb t) l = true <-> In t l.
Proof. rewrite existsb_exists. split.
  - intros [y [H E]]. apply Nat.eqb_eq in E. now subst.
  - intros H. exists t. split; auto. apply Nat.eqb_refl. Qed.

Record FInv (s : rst) : Prop := {
  fi_wf : wflag s = is_some (writer s);
  fi_rc : rcount s = length (readers s);
  fi_ex : wflag s = true -> readers s = [];
  (* a caller inside unlock, before its DATA record, still holds *)
  fi_un : forall t, rpc s t = UnL -> oeq (writer s) t = true \/ In t (readers s)
}.

Lemma finv_init m t0 : FInv (rinit m t0).
Proof. constructor; cbn; auto; discriminate. Qed.

(* case split on x = t for a hypothesis Hx about [upd f t v x] *)
Ltac upd_case Hx x t :=
  let Hne := fresh "Hne" in
  unfold upd in Hx; destruct (Nat.eq_dec x t) as [->|Hne];
  [ rewrite Nat.eqb_refl in Hx | rewrite (proj2 (Nat.eqb_neq x t) Hne) in Hx ].

Ltac other_thread t :=
  let x := fresh "x" in let Hx := fresh "Hx" in let Hne := fresh "Hne" in
  intros x Hx; unfold upd in Hx; destruct (Nat.eq_dec x t) as [->|Hne];
  [ rewrite Nat.eqb_refl in Hx; discriminate
  | rewrite (proj2 (Nat.eqb_neq x t) Hne) in Hx; eauto ].

Lemma rstep_finv s e s' : FInv s -> rstep s e = Some s' -> FInv s'.
Proof.
  intros [Iwf Irc Iex Iun] H. destruct e as [t k o|t r|t f v|ce]; cbn [rstep] in H.
  - (* RBegin *)
    destruct (rpc s t) eqn:R; try discriminate.
    destruct o; destruct k;
    repeat match type of H with context [match ?X with _ => _ end] => destruct X eqn:? end; try discriminate;
    inversion H; subst s'; constructor; cbn [wflag writer rcount readers rpc]; auto.
    all: try solve [other_thread t].
    all: intros x Hx; unfold upd in Hx; destruct (Nat.eq_dec x t) as [->|Hne];
         [|rewrite (proj2 (Nat.eqb_neq x t) Hne) in Hx; eauto];
         match goal with Hb : (_ || _) = true |- _ => apply orb_true_iff in Hb; destruct Hb as [Hb|Hb];
           [left; exact Hb|right; apply existsb_eqb_In; exact Hb] end.
  - (* REnd *)
    destruct (rpc s t) eqn:R; try discriminate;
    repeat match type of H with context [match ?X with _ => _ end] => destruct X eqn:? end; try discriminate;
    inversion H; subst s'; constructor; cbn [wflag writer rcount readers rpc]; auto.
    all: other_thread t.
  - (* RData *)
    destruct (rpc s t) eqn:R; try discriminate.
    + (* RdL *) destruct (loop_head (cs s) t); [|discriminate].
      destruct (negb (wflag s) && Nat.eqb f 1 && Nat.eqb v (S (rcount s))) eqn:B; [|discriminate].
      destruct (cstep c (CM (EBegin t OUnlock))); [|discriminate]. inversion H; subst s'.
      apply andb_true_iff in B. destruct B as [B Bv]. apply andb_true_iff in B. destruct B as [Bw _].
      apply Nat.eqb_eq in Bv. apply negb_true_iff in Bw.
      constructor; cbn [wflag writer rcount readers rpc]; auto.
      * cbn. congruence.
      * congruence.
      * intros x Hx. upd_case Hx x t; [discriminate|].
        destruct (Iun x Hx); [left|right; right]; auto.
    + (* RdW *) destruct (loop_head (cs s) t); [|discriminate].
      destruct (negb (wflag s) && Nat.eqb f 1 && Nat.eqb v (S (rcount s))) eqn:B; [|discriminate].
      destruct (cstep c (CM (EBegin t OUnlock))); [|discriminate]. inversion H; subst s'.
      apply andb_true_iff in B. destruct B as [B Bv]. apply andb_true_iff in B. destruct B as [Bw _].
      apply Nat.eqb_eq in Bv. apply negb_true_iff in Bw.
      constructor; cbn [wflag writer rcount readers rpc]; auto.
      * cbn. congruence.
      * congruence.
      * intros x Hx. upd_case Hx x t; [discriminate|].
        destruct (Iun x Hx); [left|right; right]; auto.
    + (* WrL *) destruct (loop_head (cs s) t); [|discriminate].
      destruct (negb (wflag s) && Nat.eqb (rcount s) 0 && Nat.eqb f 2 && Nat.eqb v 1) eqn:B; [|discriminate].
      destruct (cstep c (CM (EBegin t OUnlock))); [|discriminate]. inversion H; subst s'.
      apply andb_true_iff in B. destruct B as [B _]. apply andb_true_iff in B. destruct B as [B _].
      apply andb_true_iff in B. destruct B as [Bw Bc]. apply Nat.eqb_eq in Bc. apply negb_true_iff in Bw.
      assert (Hr : readers s = []) by (destruct (readers s); [reflexivity|cbn in Irc; lia]).
      constructor; cbn [wflag writer rcount readers rpc is_some]; auto.
      intros x Hx. upd_case Hx x t; [discriminate|].
      destruct (Iun x Hx) as [Hw|Hin]; [|rewrite Hr in Hin; destruct Hin].
      rewrite Iwf in Bw. destruct (writer s); discriminate.
    + (* WrW *) destruct (loop_head (cs s) t); [|discriminate].
      destruct (negb (wflag s) && Nat.eqb (rcount s) 0 && Nat.eqb f 2 && Nat.eqb v 1) eqn:B; [|discriminate].
      destruct (cstep c (CM (EBegin t OUnlock))); [|discriminate]. inversion H; subst s'.
      apply andb_true_iff in B. destruct B as [B _]. apply andb_true_iff in B. destruct B as [B _].
      apply andb_true_iff in B. destruct B as [Bw Bc]. apply Nat.eqb_eq in Bc. apply negb_true_iff in Bw.
      assert (Hr : readers s = []) by (destruct (readers s); [reflexivity|cbn in Irc; lia]).
      constructor; cbn [wflag writer rcount readers rpc is_some]; auto.
      intros x Hx. upd_case Hx x t; [discriminate|].
      destruct (Iun x Hx) as [Hw|Hin]; [|rewrite Hr in Hin; destruct Hin].
      rewrite Iwf in Bw. destruct (writer s); discriminate.
    + (* UnL *)
      destruct (cpc (cs s) t); try discriminate. destruct (pc (ms (cs s)) t); try discriminate.
      destruct (cstep (cs s) (CBegin t (rkind s t) OBcast)); [|discriminate].
      destruct (wflag s) eqn:W.
      * destruct (Nat.eqb f 2 && Nat.eqb v 0); [|discriminate]. inversion H; subst s'.
        pose proof (Iex eq_refl) as Hr.
        constructor; cbn [wflag writer rcount readers rpc is_some]; auto; try discriminate.
        intros x Hx. upd_case Hx x t; [discriminate|].
        exfalso. destruct (Iun x Hx) as [Hw|Hin]; [|rewrite Hr in Hin; destruct Hin].
        destruct (Iun t R) as [Hw'|Hin]; [|rewrite Hr in Hin; destruct Hin].
        apply oeq_true in Hw, Hw'. congruence.
      * destruct (rcount s) as [|n] eqn:Rc; [discriminate|].
        destruct (Nat.eqb f 1 && Nat.eqb v n); [|discriminate]. inversion H; subst s'.
        assert (Hw : writer s = None) by (destruct (writer s); [discriminate|reflexivity]).
        assert (Hin : In t (readers s)).
        { destruct (Iun t R) as [Hw'|Hin]; [rewrite Hw in Hw'; discriminate|exact Hin]. }
        constructor; cbn [wflag writer rcount readers rpc]; auto; try discriminate.
        -- pose proof (remove1_length _ _ Hin). lia.
        -- intros x Hx. upd_case Hx x t; [discriminate|].
           destruct (Iun x Hx) as [Hw'|Hin']; [rewrite Hw in Hw'; discriminate|].
           right. apply remove1_other; assumption.
  - (* RC: counters and ghosts untouched, no caller enters UnL *)
    destruct (hook_level ce); [|discriminate].
    assert (Hfw : match cstep (cs s) ce with Some c' => Some (set_cs s c') | None => None end = Some s' -> FInv s').
    { destruct (cstep (cs s) ce); [|discriminate]. intros Hs; inversion Hs; subst s'. constructor; auto. }
    destruct ce as [me|t k o|t r|t| |t m|t k| o|x| |t v|n]; try (apply Hfw; exact H).
    + destruct me as [t o|t r|t f|t| |t| |t u|x| ]; try (apply Hfw; exact H).
      destruct (rpc s t) eqn:R; try (apply Hfw; exact H).
      destruct (cpc (cs s) t); try (apply Hfw; exact H).
      destruct (csteps (cs s) [CEnd t 0%Z; CM (EBegin t OUnlock); CM (EAcqW t)]); [|discriminate].
      inversion H; subst s'. constructor; cbn [wflag writer rcount readers rpc]; auto. other_thread t.
    + destruct (rpc s t) eqn:R; try (apply Hfw; exact H).
      all: destruct (loop_head (cs s) t) as [c|]; [|apply Hfw; exact H].
      all: match type of H with (if ?b then _ else _) = _ => destruct b eqn:B; [|discriminate] end.
      all: destruct (csteps c [CBegin t (rkind s t) (OWait (mid c)); CAcq t]); [|discriminate].
      all: inversion H; subst s'; constructor; cbn [wflag writer rcount readers rpc]; auto.
      all: other_thread t.
Qed.

Lemma finv_run tr : forall s0 s, FInv s0 -> rrun s0 tr = Some s -> FInv s.
Proof.
  induction tr as [|e r IH]; cbn; intros s0 s I H.
  - inversion H; subst; exact I.
  - destruct (rstep s0 e) eqn:E; try discriminate. eapply IH; [eapply rstep_finv; eauto|exact H].
Qed.
Theorem finv_reachable m t0 tr s : rrun (rinit m t0) tr = Some s -> FInv s.
Proof. apply finv_run, finv_init. Qed.

(* ------------------------------------------------------------------ *)
(* 3. frame properties of the inner (cond) steps                         *)

Definition is_wait_begin (e : cev) : bool :=
  match e with CBegin _ (KUlt | KExt) (OWait _) | CBegin _ _ (OTimed _ _) => true | _ => false end.
(* inside ABTI_cond_broadcast called by unlock, wait list possibly not yet emptied *)
Definition bowed (p : cpcT) : bool := match p with CB0 | CB1 | CB1w => true | _ => false end.
Definition unb_cpc (p : cpcT) : bool := match p with CB0 | CB1 | CB1w | CB2 | CIdle => true | _ => false end.

Ltac unf H :=
  cbn [cstep] in H; unfold begin_unlock in H;
  repeat match type of H with context [match ?X with _ => _ end] => destruct X eqn:? end; try discriminate;
  inversion H; subst; clear H;
  cbn [ms mid clock cwl wmx cpc tmd ulk dl now cret credit given taken
       set_ms set_cpc set_clock set_cwl set_wmx set_cret set_now set_call give take] in *.

(* x's pc after an update of thread a *)
Ltac updx x a :=
  unfold upd in *; destruct (Nat.eq_dec x a) as [?|?Hne];
  [ subst x; rewrite ?Nat.eqb_refl in *
  | rewrite ?(proj2 (Nat.eqb_neq x a) ltac:(assumption)) in * ].

Lemma woken_pc_cases p q : woken_pc p = Some q ->
  (p = CUS /\ q = CRdy) \/ (p = CES /\ q = CER) \/ (p = CTP /\ q = CTPr) \/ (p = CTS /\ q = CTSr).
Proof. destruct p; cbn; intros H; inversion H; tauto. Qed.

(* what a SIGNAL / WAKE step does to the program points *)
Lemma wake_step_effect c e c' : cstep c e = Some c' ->
  (exists o, e = CSignal o) \/ (exists x, e = CWake x) ->
  exists u, clock c = Some u /\ clock c' = Some u /\ ms c' = ms c /\
    (cpc c u = CS1 \/ bowed (cpc c u) = true) /\ inclk (cpc c' u) = true /\ prewait (cpc c' u) = false /\
    (bowed (cpc c u) = true -> bowed (cpc c' u) = true) /\
    ((cwl c' = cwl c /\ forall x, x <> u -> cpc c' x = cpc c x) \/
     (exists x b p, cwl c = (x, b) :: cwl c' /\ x <> u /\ woken_pc (cpc c x) = Some p /\ cpc c' x = p /\
                    forall y, y <> u -> y <> x -> cpc c' y = cpc c y)).
Proof.
  intros H [[o ->]|[x ->]]; cbn [cstep] in H.
  - destruct (clock c) as [u|] eqn:Hc; [|discriminate]. destruct (cpc c u) eqn:Cu; try discriminate.
    exists u. destruct o as [x|]; destruct (cwl c) eqn:L; try discriminate.
    + destruct (wake_head c x) as [s1|] eqn:W; [|discriminate]. inversion H; subst c'.
      destruct (wake_head_spec _ _ _ W) as (b & rest & p' & L' & Wp & ->).
      assert (Hux : x <> u) by (intros ->; rewrite Cu in Wp; discriminate).
      cbn [clock ms cpc cwl set_cpc give set_cwl]. rewrite upd_same, ?Cu.
      repeat split; auto; try discriminate.
      right. exists x, b, p'. rewrite <- L, L'. repeat split; auto.
      * rewrite upd_other by assumption. apply upd_same.
      * intros y Hy1 Hy2. rewrite !upd_other; auto.
    + inversion H; subst c'. cbn [clock ms cpc cwl set_cpc]. rewrite upd_same, ?Cu.
      repeat split; auto; try discriminate. left. rewrite L. split; auto. intros y Hy. rewrite upd_other; auto.
  - destruct (clock c) as [u|] eqn:Hc; [|discriminate].
    assert (exists s1, wake_head c x = Some s1 /\ c' = set_cpc s1 u CB1w /\ bowed (cpc c u) = true) as (s1 & W & -> & Hb).
    { destruct (cpc c u); try discriminate; destruct (wake_head c x) as [s1|]; try discriminate; inversion H; eauto. }
    destruct (wake_head_spec _ _ _ W) as (b & rest & p' & L' & Wp & ->).
    assert (Hux : x <> u) by (intros ->; destruct (cpc c u); discriminate).
    exists u. cbn [clock ms cpc cwl set_cpc give set_cwl]. rewrite upd_same.
    repeat split; auto.
    right. exists x, b, p'. rewrite L'. repeat split; auto.
    + rewrite upd_other by assumption. apply upd_same.
    + intros y Hy1 Hy2. rewrite !upd_other; auto.
Qed.

(* (a) nobody enters the release-and-wait window except by starting a wait *)
Lemma frame_prewait c e c' t : cstep c e = Some c' -> is_wait_begin e = false ->
  prewait (cpc c' t) = true -> prewait (cpc c t) = true.
Proof.
  intros H Hw.
  destruct e as [me|t1 k o|t1 r|t1| |t1 m|t1 k| o|x| |t1 v|n].
  - destruct (cm_cases _ _ _ H) as [(E & Es & _)|(t1 & f & m1 & q & -> & Lq & P & E1 & E2 & Es)];
    rewrite Es; cbn [cpc set_ms set_cpc]; auto.
    intros Hp. updx t t1; auto. destruct (cpc c t1); cbn in Lq; try discriminate; inversion Lq; subst q; discriminate.
  - destruct o as [m|m d| |]; [destruct k| | |]; try discriminate Hw; unf H; auto;
    intros Hp; updx t t1; auto; discriminate.
  - unf H; auto; intros Hp; updx t t1; auto; discriminate.
  - unf H; intros Hp; updx t t1; auto; try discriminate;
    match goal with E : cpc _ t1 = _ |- _ => rewrite E; reflexivity end.
  - unf H; intros Hp; match goal with E : clock _ = Some ?n |- _ => updx t n end; auto; try discriminate.
  - unf H; intros Hp; updx t t1; auto; match goal with E : cpc _ t1 = _ |- _ => rewrite E; reflexivity end.
  - unf H; intros Hp; updx t t1; auto; discriminate.
  - destruct (wake_step_effect _ _ _ H (or_introl (ex_intro _ o eq_refl)))
      as (u & _ & _ & _ & _ & _ & Hpu & _ & [[_ Ho]|(x & b & p & _ & Hxu & Wp & Hx & Ho)]); intros Hp.
    + destruct (Nat.eq_dec t u) as [->|Hne]; [congruence|rewrite <- Ho; auto].
    + destruct (Nat.eq_dec t u) as [->|Hne]; [congruence|].
      destruct (Nat.eq_dec t x) as [->|Hne2]; [|rewrite <- Ho; auto].
      rewrite Hx in Hp. destruct (woken_pc_cases _ _ Wp) as [[_ ->]|[[_ ->]|[[_ ->]|[_ ->]]]]; discriminate.
  - destruct (wake_step_effect _ _ _ H (or_intror (ex_intro _ x eq_refl)))
      as (u & _ & _ & _ & _ & _ & Hpu & _ & [[_ Ho]|(y & b & p & _ & Hxu & Wp & Hx & Ho)]); intros Hp.
    + destruct (Nat.eq_dec t u) as [->|Hne]; [congruence|rewrite <- Ho; auto].
    + destruct (Nat.eq_dec t u) as [->|Hne]; [congruence|].
      destruct (Nat.eq_dec t y) as [->|Hne2]; [|rewrite <- Ho; auto].
      rewrite Hx in Hp. destruct (woken_pc_cases _ _ Wp) as [[_ ->]|[[_ ->]|[[_ ->]|[_ ->]]]]; discriminate.
  - unf H; intros Hp; match goal with E : clock _ = Some ?n |- _ => updx t n end; auto; discriminate.
  - unf H; intros Hp; updx t t1; auto; discriminate.
  - unf H; auto.
Qed.

Lemma unlink_nil_src t l : unlink t l <> [] -> l <> [].
Proof. intros H ->. apply H. reflexivity. Qed.

(* (b) the wait list becomes non-empty only by the enqueue of a caller in the window *)
Lemma frame_cwl c e c' : cstep c e = Some c' -> cwl c' <> [] ->
  cwl c <> [] \/ exists t, prewait (cpc c t) = true.
Proof.
  intros H.
  destruct e as [me|t1 k o|t1 r|t1| |t1 m|t1 k| o|x| |t1 v|n].
  - destruct (cm_cases _ _ _ H) as [(E & Es & _)|(t1 & f & m1 & q & -> & Lq & P & E1 & E2 & Es)];
    rewrite Es; cbn [cwl set_ms set_cpc]; auto.
  - unf H; auto.
  - unf H; auto.
  - unf H; auto.
  - unf H; auto.
  - unf H; auto.
  - unf H; intros _; right; exists t1;
    match goal with E : cpc _ t1 = _ |- _ => rewrite E; reflexivity end.
  - destruct (wake_step_effect _ _ _ H (or_introl (ex_intro _ o eq_refl)))
      as (u & _ & _ & _ & _ & _ & _ & _ & [[-> _]|(x & b & p & -> & _)]); auto. intros _. left. discriminate.
  - destruct (wake_step_effect _ _ _ H (or_intror (ex_intro _ x eq_refl)))
      as (u & _ & _ & _ & _ & _ & _ & _ & [[-> _]|(y & b & p & -> & _)]); auto. intros _. left. discriminate.
  - unf H; auto.
  - unf H; auto; intros Hn; left; eapply unlink_nil_src; eauto.
  - unf H; auto.
Qed.

(* (c) a caller inside its broadcast stays there until its BCAST / release record, and then the list is empty *)
Lemma frame_bowed c e c' u : cstep c e = Some c' -> bowed (cpc c u) = true ->
  bowed (cpc c' u) = true \/ (ends_bcast e = true /\ clock c = Some u /\ cwl c' = []).
Proof.
  intros H Hb.
  destruct e as [me|t1 k o|t1 r|t1| |t1 m|t1 k| o|x| |t1 v|n].
  - left. destruct (cm_cases _ _ _ H) as [(E & Es & _)|(t1 & f & m1 & q & -> & Lq & P & E1 & E2 & Es)];
    rewrite Es; cbn [cpc set_ms set_cpc]; auto.
    updx u t1; auto. destruct (cpc c t1); discriminate.
  - left. unf H; auto; updx u t1; auto; match goal with E : cpc _ t1 = _ |- _ => rewrite E in Hb; discriminate end.
  - left. unf H; auto; updx u t1; auto; match goal with E : cpc _ t1 = _ |- _ => rewrite E in Hb; discriminate end.
  - left. unf H; updx u t1; auto; match goal with E : cpc _ t1 = _ |- _ => rewrite E in Hb; try discriminate end; reflexivity.
  - unf H; match goal with E : clock _ = Some ?n |- _ => updx u n end; auto;
    match goal with E : cpc _ ?n = _ |- _ => rewrite E in Hb; try discriminate end.
  - left. unf H; updx u t1; auto; match goal with E : cpc _ t1 = _ |- _ => rewrite E in Hb; discriminate end.
  - left. unf H; updx u t1; auto; match goal with E : cpc _ t1 = _ |- _ => rewrite E in Hb; discriminate end.
  - left. destruct (wake_step_effect _ _ _ H (or_introl (ex_intro _ o eq_refl)))
      as (u0 & _ & _ & _ & _ & _ & _ & Hbu & [[_ Ho]|(x & b & p & _ & Hxu & Wp & Hx & Ho)]).
    + destruct (Nat.eq_dec u u0) as [->|Hne]; [auto|rewrite Ho; auto].
    + destruct (Nat.eq_dec u u0) as [->|Hne]; [auto|].
      destruct (Nat.eq_dec u x) as [->|Hne2]; [|rewrite Ho; auto].
      destruct (woken_pc_cases _ _ Wp) as [[E _]|[[E _]|[[E _]|[E _]]]]; rewrite E in Hb; discriminate.
  - left. destruct (wake_step_effect _ _ _ H (or_intror (ex_intro _ x eq_refl)))
      as (u0 & _ & _ & _ & _ & _ & _ & Hbu & [[_ Ho]|(y & b & p & _ & Hxu & Wp & Hx & Ho)]).
    + destruct (Nat.eq_dec u u0) as [->|Hne]; [auto|rewrite Ho; auto].
    + destruct (Nat.eq_dec u u0) as [->|Hne]; [auto|].
      destruct (Nat.eq_dec u y) as [->|Hne2]; [|rewrite Ho; auto].
      destruct (woken_pc_cases _ _ Wp) as [[E _]|[[E _]|[[E _]|[E _]]]]; rewrite E in Hb; discriminate.
  - unf H; match goal with E : clock _ = Some ?n |- _ => updx u n end; auto.
  - left. unf H; updx u t1; auto; match goal with E : cpc _ t1 = _ |- _ => rewrite E in Hb; discriminate end.
  - left. unf H; auto.
Qed.

(* a caller that owns the mutex and is not about to release it for a wait keeps it
   across every step that is not the start of one of its own mutex calls *)
Lemma frame_hold c e c' u : cstep c e = Some c' -> pc (ms c) u = Holding ->
  pre_hold (cpc c u) = false -> (forall o, e <> CM (EBegin u o)) -> pc (ms c') u = Holding.
Proof.
  intros H P Hp Hne.
  destruct e as [me|t1 k o|t1 r|t1| |t1 m|t1 k| o|x| |t1 v|n].
  - destruct (cm_cases _ _ _ H) as [(E & Es & _)|(t1 & f & m1 & q & -> & Lq & P1 & E1 & E2 & Es)].
    + eapply holding_frame; [exact E|exact P|]. intros o ->. eapply Hne; reflexivity.
    + eapply holding_frame; [exact E2| |intros o Eq; discriminate].
      eapply holding_frame; [exact E1|exact P|]. intros o Eq. inversion Eq; subst. congruence.
  - unf H; auto.
  - unf H; auto.
  - unf H; auto.
    all: match goal with E : Mutex.step _ (EBegin ?a OUnlock) = Some ?m |- pc ?m _ = _ =>
           eapply holding_frame; [exact E|exact P|];
           intros o Eq; inversion Eq; subst;
           match goal with C : cpc _ _ = CW0 |- _ => rewrite C in Hp; discriminate end end.
  - unf H; auto.
  - unf H.
    match goal with E : Mutex.step _ (EBegin ?a OUnlock) = Some ?m |- pc ?m _ = _ =>
           eapply holding_frame; [exact E|exact P|];
           intros o Eq; inversion Eq; subst;
           match goal with C : cpc _ _ = CW1 |- _ => rewrite C in Hp; discriminate end end.
  - unf H; auto.
  - destruct (wake_step_effect _ _ _ H (or_introl (ex_intro _ o eq_refl))) as (u0 & _ & _ & -> & _); auto.
  - destruct (wake_step_effect _ _ _ H (or_intror (ex_intro _ x eq_refl))) as (u0 & _ & _ & -> & _); auto.
  - unf H; auto.
  - unf H; auto.
  - unf H; auto.
Qed.

(* a caller inside / just after ABTI_cond_broadcast stays at those program points
   under every step that is not the start of a cond call of its own *)
Lemma frame_unb c e c' u : cstep c e = Some c' -> unb_cpc (cpc c u) = true ->
  (forall k o, e <> CBegin u k o) -> unb_cpc (cpc c' u) = true.
Proof.
  intros H Hb Hne.
  destruct e as [me|t1 k o|t1 r|t1| |t1 m|t1 k| o|x| |t1 v|n].
  - destruct (cm_cases _ _ _ H) as [(E & Es & _)|(t1 & f & m1 & q & -> & Lq & P & E1 & E2 & Es)];
    rewrite Es; cbn [cpc set_ms set_cpc]; auto.
    updx u t1; auto. destruct (cpc c t1); discriminate.
  - destruct (Nat.eq_dec u t1) as [->|Hn]; [exfalso; eapply Hne; reflexivity|].
    unf H; auto; rewrite upd_other by assumption; auto.
  - unf H; auto; updx u t1; auto.
  - unf H; updx u t1; auto; match goal with E : cpc _ t1 = _ |- _ => rewrite E in Hb; try discriminate end; reflexivity.
  - unf H; match goal with E : clock _ = Some ?n |- _ => updx u n end; auto;
    match goal with E : cpc _ ?n = _ |- _ => rewrite E in Hb; try discriminate end.
  - unf H; updx u t1; auto; match goal with E : cpc _ t1 = _ |- _ => rewrite E in Hb; discriminate end.
  - unf H; updx u t1; auto; match goal with E : cpc _ t1 = _ |- _ => rewrite E in Hb; discriminate end.
  - destruct (wake_step_effect _ _ _ H (or_introl (ex_intro _ o eq_refl)))
      as (u0 & _ & _ & _ & Hcu & Hi & _ & Hbu & [[_ Ho]|(x & b & p & _ & Hxu & Wp & Hx & Ho)]).
    + destruct (Nat.eq_dec u u0) as [->|Hn]; [|rewrite Ho; auto].
      destruct Hcu as [E|E]; [rewrite E in Hb; discriminate|]. specialize (Hbu E). destruct (cpc c' u0); try discriminate; reflexivity.
    + destruct (Nat.eq_dec u u0) as [->|Hn].
      * destruct Hcu as [E|E]; [rewrite E in Hb; discriminate|]. specialize (Hbu E). destruct (cpc c' u0); try discriminate; reflexivity.
      * destruct (Nat.eq_dec u x) as [->|Hn2]; [|rewrite Ho; auto].
        destruct (woken_pc_cases _ _ Wp) as [[E _]|[[E _]|[[E _]|[E _]]]]; rewrite E in Hb; discriminate.
  - destruct (wake_step_effect _ _ _ H (or_intror (ex_intro _ x eq_refl)))
      as (u0 & _ & _ & _ & Hcu & Hi & _ & Hbu & [[_ Ho]|(y & b & p & _ & Hxu & Wp & Hx & Ho)]).
    + destruct (Nat.eq_dec u u0) as [->|Hn]; [|rewrite Ho; auto].
      destruct Hcu as [E|E]; [rewrite E in Hb; discriminate|]. specialize (Hbu E). destruct (cpc c' u0); try discriminate; reflexivity.
    + destruct (Nat.eq_dec u u0) as [->|Hn].
      * destruct Hcu as [E|E]; [rewrite E in Hb; discriminate|]. specialize (Hbu E). destruct (cpc c' u0); try discriminate; reflexivity.
      * destruct (Nat.eq_dec u y) as [->|Hn2]; [|rewrite Ho; auto].
        destruct (woken_pc_cases _ _ Wp) as [[E _]|[[E _]|[[E _]|[E _]]]]; rewrite E in Hb; discriminate.
  - unf H; match goal with E : clock _ = Some ?n |- _ => updx u n end; auto.
  - unf H; updx u t1; auto; match goal with E : cpc _ t1 = _ |- _ => rewrite E in Hb; discriminate end.
  - unf H; auto.
Qed.

(* ---- the same over runs of inner steps ---- *)
Definition quiet (e : cev) : bool := negb (is_wait_begin e) && negb (ends_bcast e).
Definition not_begin_of (u : nat) (e : cev) : bool :=
  match e with CM (EBegin t _) => negb (Nat.eqb t u) | CBegin t _ _ => negb (Nat.eqb t u) | _ => true end.

Lemma quiet_run tr : forall c c', crun c tr = Some c' -> forallb quiet tr = true ->
  (forall t, prewait (cpc c' t) = true -> prewait (cpc c t) = true) /\
  (cwl c' <> [] -> cwl c <> [] \/ exists t, prewait (cpc c t) = true) /\
  (forall u, bowed (cpc c u) = true -> bowed (cpc c' u) = true).
Proof.
  induction tr as [|e r IH]; cbn [crun forallb]; intros c c' H Hq.
  - inversion H; subst. auto.
  - destruct (cstep c e) as [c1|] eqn:E; [|discriminate].
    apply andb_true_iff in Hq. destruct Hq as [Hq1 Hq]. unfold quiet in Hq1.
    apply andb_true_iff in Hq1. destruct Hq1 as [Hw He]. apply negb_true_iff in Hw, He.
    destruct (IH _ _ H Hq) as (A & B & C). split; [|split].
    + intros t Hp. eapply frame_prewait; eauto.
    + intros Hn. destruct (B Hn) as [Hn1|[t Ht]].
      * eapply frame_cwl; eauto.
      * right. exists t. eapply frame_prewait; eauto.
    + intros u Hb. apply C. destruct (frame_bowed _ _ _ u E Hb) as [Hb'|(He' & _)]; [exact Hb'|congruence].
Qed.

Lemma unb_step c e c' u : cstep c e = Some c' -> not_begin_of u e = true ->
  pc (ms c) u = Holding /\ unb_cpc (cpc c u) = true ->
  pc (ms c') u = Holding /\ unb_cpc (cpc c' u) = true.
Proof.
  intros H Hn [P U]. split.
  - eapply frame_hold; eauto.
    + destruct (cpc c u); try discriminate; reflexivity.
    + intros o ->. cbn in Hn. rewrite Nat.eqb_refl in Hn. discriminate.
  - eapply frame_unb; eauto. intros k o ->. cbn in Hn. rewrite Nat.eqb_refl in Hn. discriminate.
Qed.

Lemma unb_run tr : forall c c' u, crun c tr = Some c' -> forallb (not_begin_of u) tr = true ->
  pc (ms c) u = Holding /\ unb_cpc (cpc c u) = true ->
  pc (ms c') u = Holding /\ unb_cpc (cpc c' u) = true.
Proof.
  induction tr as [|e r IH]; cbn [crun forallb]; intros c c' u H Hq Hu.
  - inversion H; subst. auto.
  - destruct (cstep c e) as [c1|] eqn:E; [|discriminate].
    apply andb_true_iff in Hq. destruct Hq as [Hq1 Hq].
    eapply IH; eauto. eapply unb_step; eauto.
Qed.

Lemma hook_level_props e u : hook_level e = true ->
  is_wait_begin e = false /\ not_begin_of u e = true.
Proof. destruct e as [[]| | | | | | | | | | |]; cbn; intros H; try discriminate; auto. Qed.

(* ------------------------------------------------------------------ *)
(* 4. structural invariant: nobody is left queued with the lock free and no broadcast owed *)

Definition owed (s : rst) : Prop :=
  wflag s = true \/ rcount s <> 0 \/ exists u, rpc s u = UnB /\ bowed (cpc (cs s) u) = true.

Record SInv (s : rst) : Prop := {
  si_in  : exists m t0 ctr, crun (cinit false m t0) ctr = Some (cs s);
  (* unlock calls ABTI_cond_broadcast while it owns the mutex *)
  si_unb : forall u, rpc s u = UnB -> pc (ms (cs s)) u = Holding /\ unb_cpc (cpc (cs s) u) = true;
  si_need : (cwl (cs s) <> [] \/ exists t, prewait (cpc (cs s) t) = true) -> owed s
}.

Lemma sinv_init m t0 : SInv (rinit m t0).
Proof.
  constructor; cbn.
  - exists m, t0, []. reflexivity.
  - discriminate.
  - intros [H|[t H]]; [congruence|discriminate].
Qed.

Lemma si_in_step s e s' : SInv s -> rstep s e = Some s' ->
  exists m t0 ctr, crun (cinit false m t0) ctr = Some (cs s').
Proof.
  intros I H. destruct (si_in _ I) as (m & t0 & ctr & R). destruct (rstep_projects _ _ _ H) as [tr Htr].
  exists m, t0, (ctr ++ tr). rewrite (crun_app _ _ _ _ R). exact Htr.
Qed.

(* owed survives a quiet inner run that does not concern the unlockers' rpc *)
Lemma owed_quiet s s' tr : crun (cs s) tr = Some (cs s') -> forallb quiet tr = true ->
  wflag s' = wflag s -> rcount s' = rcount s ->
  (forall u, rpc s u = UnB -> bowed (cpc (cs s) u) = true -> rpc s' u = UnB) ->
  owed s -> owed s'.
Proof.
  intros R Q Hw Hr Hu [O|[O|(u & Ru & Bu)]]; [left; congruence|right; left; congruence|].
  right; right. exists u. split; [auto|]. destruct (quiet_run _ _ _ R Q) as (_ & _ & C). auto.
Qed.

Lemma lhs_quiet c c' tr : crun c tr = Some c' -> forallb quiet tr = true ->
  (cwl c' <> [] \/ exists t, prewait (cpc c' t) = true) -> (cwl c <> [] \/ exists t, prewait (cpc c t) = true).
Proof.
  intros R Q. destruct (quiet_run _ _ _ R Q) as (A & B & _). intros [H|[t H]]; [auto|right; eauto].
Qed.

Lemma sinv_generic s s' t tr :
  SInv s -> (exists m t0 ctr, crun (cinit false m t0) ctr = Some (cs s')) ->
  crun (cs s) tr = Some (cs s') ->
  (forall x, x <> t -> rpc s' x = rpc s x) ->
  (forall u, u <> t -> forallb (not_begin_of u) tr = true) ->
  (rpc s' t = UnB -> pc (ms (cs s')) t = Holding /\ unb_cpc (cpc (cs s') t) = true) ->
  ((cwl (cs s') <> [] \/ exists x, prewait (cpc (cs s') x) = true) -> owed s') ->
  SInv s'.
Proof.
  intros I Hin R Hrpc Hnb Ht Hneed. constructor; auto.
  intros u Hu. destruct (Nat.eq_dec u t) as [->|Hne]; [auto|].
  rewrite Hrpc in Hu by assumption. eapply unb_run; [exact R|auto|]. apply (si_unb _ I); exact Hu.
Qed.

(* the BCAST / release record that ends a broadcast of unlock: nobody is queued and nobody is in the window *)
Lemma bcast_end_quiescent c e c' u :
  (exists m t0 ctr, crun (cinit false m t0) ctr = Some c) ->
  cstep c e = Some c' -> ends_bcast e = true -> clock c = Some u -> bowed (cpc c u) = true ->
  pc (ms c) u = Holding -> cwl c' = [] ->
  ~ (cwl c' <> [] \/ exists t, prewait (cpc c' t) = true).
Proof.
  intros (m & t0 & ctr & R) H He Hc Hb P Hl [Hn|[t Ht]]; [congruence|].
  assert (Hw : is_wait_begin e = false) by (destruct e; try discriminate; reflexivity).
  pose proof (frame_prewait _ _ _ t H Hw Ht) as Hp.
  pose proof (cinv_reachable _ _ _ _ _ R) as CI. pose proof (mutex_inv _ _ _ _ _ R) as MI.
  assert (Htu : t <> u) by (intros ->; destruct (cpc c u); discriminate).
  destruct (cpc c t) eqn:C; try discriminate.
  - (* CW0: owns the mutex, as u does *)
    pose proof (ci_hold _ CI t) as Hh. rewrite C in Hh. specialize (Hh eq_refl).
    pose proof (i_hold _ MI t) as H1. pose proof (i_hold _ MI u) as H2. rewrite Hh in H1. rewrite P in H2.
    cbn in H1, H2. symmetry in H1, H2. apply oeq_true in H1, H2. congruence.
  - pose proof (ci_clk _ CI t) as Hk. rewrite C, Hc in Hk. cbn in Hk. symmetry in Hk. apply Nat.eqb_eq in Hk. congruence.
  - pose proof (ci_clk _ CI t) as Hk. rewrite C, Hc in Hk. cbn in Hk. symmetry in Hk. apply Nat.eqb_eq in Hk. congruence.
Qed.

Lemma forward_sinv s ce c' :
  SInv s -> hook_level ce = true -> cstep (cs s) ce = Some c' -> SInv (set_cs s c').
Proof.
  intros I Hh E.
  assert (Hin : exists m t0 ctr, crun (cinit false m t0) ctr = Some c').
  { destruct (si_in _ I) as (m & t0 & ctr & R). exists m, t0, (ctr ++ [ce]).
    rewrite (crun_app _ _ _ _ R). cbn [crun]. rewrite E. reflexivity. }
  constructor; cbn [cs rpc wflag rcount set_cs]; auto.
  - intros u Hu. eapply unb_step; [exact E|apply hook_level_props; exact Hh|apply (si_unb _ I); exact Hu].
  - intros L. destruct (hook_level_props ce 0 Hh) as [Hw _].
    assert (Hold : cwl (cs s) <> [] \/ exists t, prewait (cpc (cs s) t) = true).
    { destruct L as [L|[t Ht]].
      - eapply frame_cwl; eauto.
      - right. exists t. eapply frame_prewait; eauto. }
    destruct (si_need _ I Hold) as [O|[O|(u & Ru & Bu)]]; [left; exact O|right; left; exact O|].
    destruct (frame_bowed _ _ _ u E Bu) as [Bu'|(He & Hc & Hl)].
    + right; right. exists u. auto.
    + exfalso. destruct (si_unb _ I u Ru) as [P _].
      eapply bcast_end_quiescent; [exact (si_in _ I)|exact E|exact He|exact Hc|exact Bu|exact P|exact Hl|exact L].
Qed.

Lemma loop_head_tr c t c1 : loop_head c t = Some c1 ->
  exists tr, crun c tr = Some c1 /\ (forall u, forallb (not_begin_of u) tr = true) /\ forallb quiet tr = true.
Proof.
  intros H. destruct (loop_head_run _ _ _ H) as ([->|E] & _).
  - exists []. auto.
  - exists [CEnd t 0%Z]. cbn [crun]. rewrite E. auto.
Qed.

Lemma forallb_app' {A} (f : A -> bool) l1 l2 : forallb f l1 = true -> forallb f l2 = true -> forallb f (l1 ++ l2) = true.
Proof. intros H1 H2. rewrite forallb_app, H1, H2. reflexivity. Qed.

Lemma nb_other t u o : u <> t -> not_begin_of u (CM (EBegin t o)) = true.
Proof. intros H. cbn. apply negb_true_iff, Nat.eqb_neq. congruence. Qed.
Lemma nbc_other t u k o : u <> t -> not_begin_of u (CBegin t k o) = true.
Proof. intros H. cbn. apply negb_true_iff, Nat.eqb_neq. congruence. Qed.

Ltac rpc_other t := let x := fresh "x" in let Hx := fresh "Hx" in
  intros x Hx; cbn [rpc]; try rewrite upd_other by assumption; reflexivity.

Theorem rstep_sinv s e s' : SInv s -> rstep s e = Some s' -> SInv s'.
Proof.
  intros I H. pose proof (si_in_step _ _ _ I H) as Hin.
  destruct e as [t k o|t r|t f v|ce]; cbn [rstep] in H.
  - (* RBegin *)
    destruct (rpc s t) eqn:R; try discriminate.
    assert (Hgen : forall b : bool,
      (if b then match cstep (cs s) (CM (EBegin t OLock)) with
                 | Some c => Some (rmk c (rcount s) (wflag s)
                                      (upd (rpc s) t (match o with ORd => RdL | OWr => WrL | OUn => UnL end))
                                      (upd (rkind s) t k) (rret s) (readers s) (writer s))
                 | None => None end else None) = Some s' -> SInv s').
    { intros b Hb. destruct b; [|discriminate].
      destruct (cstep (cs s) (CM (EBegin t OLock))) as [c|] eqn:E; [|discriminate].
      inversion Hb; subst s'.
      assert (Rn : crun (cs s) [CM (EBegin t OLock)] = Some c) by (cbn [crun]; rewrite E; reflexivity).
      eapply sinv_generic with (t := t) (tr := [CM (EBegin t OLock)]); eauto.
      - rpc_other t.
      - intros u Hu. cbn [forallb]. rewrite nb_other by assumption. reflexivity.
      - cbn [rpc]. rewrite upd_same. destruct o; discriminate.
      - intros L. cbn [cs] in L. eapply (owed_quiet s); [exact Rn|reflexivity|reflexivity|reflexivity| |].
        + intros u Ru _. cbn [rpc]. rewrite upd_other; [exact Ru|congruence].
        + apply (si_need _ I). eapply lhs_quiet; [exact Rn|reflexivity|exact L]. }
    assert (Hsame : forall z, SInv (rmk (cs s) (rcount s) (wflag s) (rpc s) (rkind s) z (readers s) (writer s))).
    { intros z. destruct I as [A B C]. constructor; auto. }
    destruct o; destruct k; try (inversion H; subst s'; apply Hsame);
    first [eapply (Hgen true); exact H | eapply Hgen; exact H].
  - (* REnd *)
    destruct (rpc s t) eqn:R; try discriminate.
    + destruct (Z.eqb (rret s t) r); inversion H; subst; exact I.
    + destruct (cpc (cs s) t); try discriminate; destruct (pc (ms (cs s)) t); try discriminate;
      destruct (Z.eqb r 0); [|discriminate]; inversion H; subst s'.
      eapply sinv_generic with (t := t) (tr := []); eauto; cbn [cs rpc].
      * rpc_other t.
      * rewrite upd_same. discriminate.
      * intros L. eapply (owed_quiet s) with (tr := []); try reflexivity; [|apply (si_need _ I L)].
        intros u Ru _. cbn [rpc]. rewrite upd_other; [exact Ru|congruence].
    + destruct (cpc (cs s) t); try discriminate; destruct (pc (ms (cs s)) t); try discriminate;
      destruct (Z.eqb r 0); [|discriminate]; inversion H; subst s'.
      eapply sinv_generic with (t := t) (tr := []); eauto; cbn [cs rpc].
      * rpc_other t.
      * rewrite upd_same. discriminate.
      * intros L. eapply (owed_quiet s) with (tr := []); try reflexivity; [|apply (si_need _ I L)].
        intros u Ru _. cbn [rpc]. rewrite upd_other; [exact Ru|congruence].
    + destruct (cpc (cs s) t); try discriminate; destruct (pc (ms (cs s)) t); try discriminate;
      destruct (Z.eqb r 0); [|discriminate]; inversion H; subst s'.
      eapply sinv_generic with (t := t) (tr := []); eauto; cbn [cs rpc].
      * rpc_other t.
      * rewrite upd_same. discriminate.
      * intros L. eapply (owed_quiet s) with (tr := []); try reflexivity; [|apply (si_need _ I L)].
        intros u Ru _. cbn [rpc]. rewrite upd_other; [exact Ru|congruence].
  - (* RData *)
    destruct (rpc s t) eqn:R; try discriminate.
    1,2,3,4: destruct (loop_head (cs s) t) as [c|] eqn:L; [|discriminate];
             match type of H with (if ?b then _ else _) = _ => destruct b eqn:B; [|discriminate] end;
             destruct (cstep c (CM (EBegin t OUnlock))) as [c'|] eqn:E; [|discriminate];
             inversion H; subst s'; destruct (loop_head_tr _ _ _ L) as (tr & Htr & Hnb & Hq);
             (eapply sinv_generic with (t := t) (tr := tr ++ [CM (EBegin t OUnlock)]); eauto;
              [ rewrite (crun_app _ _ _ _ Htr); cbn [crun cs]; rewrite E; reflexivity
              | rpc_other t
              | intros u Hu; apply forallb_app'; [apply Hnb|cbn [forallb]; rewrite nb_other by assumption; reflexivity]
              | cbn [rpc]; rewrite upd_same; discriminate
              | intros _; unfold owed; cbn [wflag rcount] ]).
    1,2: right; left; apply andb_true_iff in B; destruct B as [_ B]; apply Nat.eqb_eq in B; rewrite B; discriminate.
    1,2: left; reflexivity.
    (* UnL *)
    destruct (cpc (cs s) t) eqn:C; try discriminate. destruct (pc (ms (cs s)) t) eqn:P; try discriminate.
    destruct (cstep (cs s) (CBegin t (rkind s t) OBcast)) as [c'|] eqn:E; [|discriminate].
    assert (Hc' : c' = set_cpc (cs s) t CB0) by (cbn [cstep] in E; rewrite C in E; inversion E; reflexivity).
    assert (Hres : forall n w rd wr,
       SInv (rmk c' n w (upd (rpc s) t UnB) (rkind s) (rret s) rd wr)).
    { intros n w rd wr.
      eapply sinv_generic with (t := t) (tr := [CBegin t (rkind s t) OBcast]).
      - exact I.
      - destruct (si_in _ I) as (m & t0 & ctr & Rr). exists m, t0, (ctr ++ [CBegin t (rkind s t) OBcast]).
        rewrite (crun_app _ _ _ _ Rr). cbn [crun cs]. rewrite E. reflexivity.
      - cbn [crun cs]. rewrite E. reflexivity.
      - rpc_other t.
      - intros u Hu. cbn [forallb]. rewrite nbc_other by assumption. reflexivity.
      - intros _. cbn [cs]. subst c'. cbn [ms cpc set_cpc]. rewrite upd_same. auto.
      - intros _. right; right. exists t. cbn [rpc cs]. rewrite upd_same. subst c'. cbn [cpc set_cpc].
        rewrite upd_same. auto. }
    destruct (wflag s).
    + destruct (Nat.eqb f 2 && Nat.eqb v 0); [|discriminate]. inversion H; subst s'. apply Hres.
    + destruct (rcount s); [discriminate|]. destruct (Nat.eqb f 1 && Nat.eqb v n); [|discriminate].
      inversion H; subst s'. apply Hres.
  - (* RC *)
    destruct (hook_level ce) eqn:Hh; [|discriminate].
    assert (Hfw : match cstep (cs s) ce with Some c' => Some (set_cs s c') | None => None end = Some s' -> SInv s').
    { destruct (cstep (cs s) ce) as [c'|] eqn:E; [|discriminate]. intros Hs; inversion Hs; subst s'.
      eapply forward_sinv; eauto. }
    destruct ce as [me|t k o|t r|t| |t m|t k| o|x| |t v|n]; try (apply Hfw; exact H).
    + destruct me as [t o|t r|t f|t| |t| |t u|x| ]; try (apply Hfw; exact H).
      destruct (rpc s t) eqn:R; try (apply Hfw; exact H).
      destruct (cpc (cs s) t) eqn:C; try (apply Hfw; exact H).
      unfold csteps in H.
      destruct (crun (cs s) [CEnd t 0%Z; CM (EBegin t OUnlock); CM (EAcqW t)]) as [c'|] eqn:E; [|discriminate].
      inversion H; subst s'.
      eapply sinv_generic with (t := t) (tr := [CEnd t 0%Z; CM (EBegin t OUnlock); CM (EAcqW t)]); eauto.
      * rpc_other t.
      * intros u Hu. cbn [forallb]. rewrite nb_other by assumption. reflexivity.
      * cbn [rpc]. rewrite upd_same. discriminate.
      * intros L. cbn [cs] in L. eapply (owed_quiet s); [exact E|reflexivity|reflexivity|reflexivity| |].
        -- intros u Ru Bu. cbn [rpc]. rewrite upd_other; [exact Ru|]. intros ->. rewrite C in Bu. discriminate.
        -- apply (si_need _ I). eapply lhs_quiet; [exact E|reflexivity|exact L].
    + destruct (rpc s t) eqn:R; try (apply Hfw; exact H).
      all: destruct (loop_head (cs s) t) as [c|] eqn:L; [|apply Hfw; exact H].
      all: match type of H with (if ?b then _ else _) = _ => destruct b eqn:B; [|discriminate] end.
      all: unfold csteps in H;
           destruct (crun c [CBegin t (rkind s t) (OWait (mid c)); CAcq t]) as [c'|] eqn:E; [|discriminate];
           inversion H; subst s'; destruct (loop_head_tr _ _ _ L) as (tr & Htr & Hnb & Hq).
      all: eapply sinv_generic with (t := t) (tr := tr ++ [CBegin t (rkind s t) (OWait (mid c)); CAcq t]); eauto;
           [ rewrite (crun_app _ _ _ _ Htr); exact E
           | rpc_other t
           | intros u Hu; apply forallb_app'; [apply Hnb|cbn [forallb]; rewrite nbc_other by assumption; reflexivity]
           | cbn [rpc]; rewrite upd_same; discriminate
           | intros _; unfold owed; cbn [wflag rcount] ].
      1,2: left; first [exact B | reflexivity].
      1,2: apply orb_true_iff in B; destruct B as [B|B]; [left; exact B|right; left];
           apply negb_true_iff, Nat.eqb_neq in B; exact B.
Qed.

Lemma sinv_run tr : forall s0 s, SInv s0 -> rrun s0 tr = Some s -> SInv s.
Proof.
  induction tr as [|e r IH]; cbn; intros s0 s I H.
  - inversion H; subst; exact I.
  - destruct (rstep s0 e) eqn:E; try discriminate. eapply IH; [eapply rstep_sinv; eauto|exact H].
Qed.
Theorem sinv_reachable m t0 tr s : rrun (rinit m t0) tr = Some s -> SInv s.
Proof. apply sinv_run, sinv_init. Qed.

(* ------------------------------------------------------------------ *)
(* 5. the C10 theorems                                                  *)

Theorem writer_exclusive m t0 tr s : rrun (rinit m t0) tr = Some s ->
  wflag s = is_some (writer s) /\ rcount s = length (readers s) /\
  (wflag s = true -> rcount s = 0 /\ readers s = []).
Proof.
  intros R. destruct (finv_reachable _ _ _ _ R) as [A B C D]. repeat split; auto.
  rewrite B, (C H). reflexivity.
Qed.

Definition wr_locking (p : rpcT) : bool := match p with WrL | WrW => true | _ => false end.
Definition rd_locking (p : rpcT) : bool := match p with RdL | RdW => true | _ => false end.

(* a writer's acquisition (write_flag = 1) happens only with no holder at all *)
Theorem writer_acquires_free m t0 tr s t f v s' : rrun (rinit m t0) tr = Some s ->
  wr_locking (rpc s t) = true -> rstep s (RData t f v) = Some s' ->
  f = 2 /\ v = 1 /\ wflag s = false /\ rcount s = 0 /\ readers s = [] /\ writer s = None /\
  wflag s' = true /\ writer s' = Some t /\ readers s' = [] /\ rcount s' = 0.
Proof.
  intros R W H. destruct (finv_reachable _ _ _ _ R) as [A B C D].
  cbn [rstep] in H. destruct (rpc s t); try discriminate.
  all: destruct (loop_head (cs s) t); [|discriminate].
  all: destruct (negb (wflag s) && Nat.eqb (rcount s) 0 && Nat.eqb f 2 && Nat.eqb v 1) eqn:E; [|discriminate].
  all: destruct (cstep c (CM (EBegin t OUnlock))); [|discriminate]; inversion H; subst s'.
  all: apply andb_true_iff in E; destruct E as [E Ev]; apply andb_true_iff in E; destruct E as [E Ef];
       apply andb_true_iff in E; destruct E as [Ew Ec];
       apply Nat.eqb_eq in Ev, Ef, Ec; apply negb_true_iff in Ew.
  all: assert (Hr : readers s = []) by (destruct (readers s); [reflexivity|cbn in B; lia]).
  all: assert (Hw : writer s = None) by (rewrite A in Ew; destruct (writer s); [discriminate|reflexivity]).
  all: cbn [wflag writer readers rcount]; repeat split; auto.
Qed.

(* a reader's acquisition happens only with no writer holding, whatever the number of readers *)
Theorem reader_acquires_no_writer m t0 tr s t f v s' : rrun (rinit m t0) tr = Some s ->
  rd_locking (rpc s t) = true -> rstep s (RData t f v) = Some s' ->
  f = 1 /\ v = S (rcount s) /\ wflag s = false /\ writer s = None /\
  wflag s' = false /\ rcount s' = S (rcount s) /\ readers s' = t :: readers s.
Proof.
  intros R W H. destruct (finv_reachable _ _ _ _ R) as [A B C D].
  cbn [rstep] in H. destruct (rpc s t); try discriminate.
  all: destruct (loop_head (cs s) t); [|discriminate].
  all: destruct (negb (wflag s) && Nat.eqb f 1 && Nat.eqb v (S (rcount s))) eqn:E; [|discriminate].
  all: destruct (cstep c (CM (EBegin t OUnlock))); [|discriminate]; inversion H; subst s'.
  all: apply andb_true_iff in E; destruct E as [E Ev]; apply andb_true_iff in E; destruct E as [Ew Ef];
       apply Nat.eqb_eq in Ev, Ef; apply negb_true_iff in Ew.
  all: assert (Hw : writer s = None) by (rewrite A in Ew; destruct (writer s); [discriminate|reflexivity]).
  all: cbn [wflag writer readers rcount]; repeat split; auto.
Qed.

(* reader_count / write_flag are only written by the owner of rw->mutex *)
Theorem data_under_mutex m t0 tr s t f v s' : rrun (rinit m t0) tr = Some s ->
  rstep s (RData t f v) = Some s' -> holder (ms (cs s)) = Some t /\ pc (ms (cs s)) t = Holding.
Proof.
  intros R H. destruct (inner_reachable _ _ _ _ R) as [ctr Rc]. pose proof (mutex_inv _ _ _ _ _ Rc) as MI.
  assert (P : pc (ms (cs s)) t = Holding).
  { cbn [rstep] in H. destruct (rpc s t); try discriminate.
    1,2,3,4: destruct (loop_head (cs s) t) as [c|] eqn:L; [|discriminate];
             destruct (loop_head_run _ _ _ L) as (_ & _ & P & _ & Em & _); rewrite <- Em; exact P.
    destruct (cpc (cs s) t); try discriminate. destruct (pc (ms (cs s)) t); try discriminate. reflexivity. }
  split; [|exact P]. apply oeq_true. rewrite <- (i_hold _ MI), P. reflexivity.
Qed.

(* readers share: at the loop test of rdlock with write_flag = 0 the caller proceeds
   (the DATA step is enabled) and cannot start a wait, whatever reader_count is *)
Theorem readers_shared s t c : rd_locking (rpc s t) = true -> loop_head (cs s) t = Some c ->
  wflag s = false ->
  (exists s', rstep s (RData t 1 (S (rcount s))) = Some s' /\ rcount s' = S (rcount s) /\ rpc s' t = RdU) /\
  rstep s (RC (CAcq t)) = None.
Proof.
  intros W L Hw. destruct (loop_head_run _ _ _ L) as (_ & C & P & _).
  assert (E : exists c', cstep c (CM (EBegin t OUnlock)) = Some c').
  { cbn [cstep]. rewrite C. cbn [Mutex.step]. rewrite P.
    destruct (recursive (ms c)); [destruct (nest (ms c))|]; eauto. }
  destruct E as [c' E]. split.
  - cbn [rstep]. destruct (rpc s t); try discriminate; rewrite L, Hw; cbn [negb andb Nat.eqb]; rewrite ?Nat.eqb_refl, E;
    eexists; (split; [reflexivity|]); cbn [rcount rpc]; rewrite upd_same; auto.
  - cbn [rstep hook_level]. destruct (rpc s t); try discriminate; rewrite L, Hw; reflexivity.
Qed.

(* nobody stuck, (a): a locker blocked inside the cond is in its wait list (C05 invariant, reused) *)
Theorem blocked_locker_is_queued m t0 tr s t : rrun (rinit m t0) tr = Some s ->
  cqueued (cpc (cs s) t) = true -> In t (map fst (cwl (cs s))).
Proof.
  intros R Q. destruct (inner_reachable _ _ _ _ R) as [ctr Rc]. pose proof (cinv_reachable _ _ _ _ _ Rc) as CI.
  apply cinb_In. rewrite (ci_q _ CI). exact Q.
Qed.

(* (b): while somebody is queued in (or about to enqueue in) the cond, the lock is
   held - so an unlock with its broadcast is still to come - or an unlocker that owns
   the mutex is inside its broadcast *)
Theorem queued_implies_owed m t0 tr s : rrun (rinit m t0) tr = Some s ->
  (cwl (cs s) <> [] \/ exists t, prewait (cpc (cs s) t) = true) ->
  wflag s = true \/ rcount s <> 0 \/
  exists u, rpc s u = UnB /\ bowed (cpc (cs s) u) = true /\ pc (ms (cs s)) u = Holding.
Proof.
  intros R L. pose proof (sinv_reachable _ _ _ _ R) as I.
  destruct (si_need _ I L) as [O|[O|(u & Ru & Bu)]]; auto.
  right; right. exists u. destruct (si_unb _ I u Ru). auto.
Qed.

(* (c): every unlock broadcasts: the DATA record of unlock enters ABTI_cond_broadcast,
   and the final mutex unlock starts only when that broadcast has returned *)
Theorem unlock_enters_broadcast s t f v s' : rpc s t = UnL -> rstep s (RData t f v) = Some s' ->
  rpc s' t = UnB /\ cpc (cs s') t = CB0 /\ cwl (cs s') = cwl (cs s).
Proof.
  intros R H. cbn [rstep] in H. rewrite R in H.
  destruct (cpc (cs s) t) eqn:C; try discriminate. destruct (pc (ms (cs s)) t); try discriminate.
  destruct (cstep (cs s) (CBegin t (rkind s t) OBcast)) as [c'|] eqn:E; [|discriminate].
  assert (Hc' : c' = set_cpc (cs s) t CB0) by (cbn [cstep] in E; rewrite C in E; inversion E; reflexivity).
  destruct (wflag s).
  - destruct (Nat.eqb f 2 && Nat.eqb v 0); [|discriminate]. inversion H; subst s' c'.
    cbn [rpc cs cpc cwl set_cpc]. rewrite !upd_same. auto.
  - destruct (rcount s); [discriminate|]. destruct (Nat.eqb f 1 && Nat.eqb v n); [|discriminate].
    inversion H; subst s' c'. cbn [rpc cs cpc cwl set_cpc]. rewrite !upd_same. auto.
Qed.

Theorem unlock_leaves_broadcast_complete s e s' t : rstep s e = Some s' ->
  rpc s t = UnB -> rpc s' t <> UnB ->
  e = RC (CM (EAcqW t)) /\ cpc (cs s) t = CIdle /\ rpc s' t = UnU.
Proof.
  intros H R N. destruct e as [t1 k o|t1 r|t1 f v|ce]; cbn [rstep] in H.
  - destruct (rpc s t1) eqn:R1; try discriminate.
    assert (t <> t1) by congruence.
    destruct o; destruct k;
    repeat match type of H with context [match ?X with _ => _ end] => destruct X eqn:? end; try discriminate;
    inversion H; subst s'; cbn [rpc] in N; rewrite ?upd_other in N by assumption; congruence.
  - destruct (rpc s t1) eqn:R1; try discriminate;
    repeat match type of H with context [match ?X with _ => _ end] => destruct X eqn:? end; try discriminate;
    inversion H; subst s'; cbn [rpc] in N; try congruence;
    (assert (t <> t1) by congruence; rewrite upd_other in N by assumption; congruence).
  - destruct (rpc s t1) eqn:R1; try discriminate;
    (assert (t <> t1) by congruence);
    repeat match type of H with context [match ?X with _ => _ end] => destruct X eqn:? end; try discriminate;
    inversion H; subst s'; cbn [rpc] in N; rewrite upd_other in N by assumption; congruence.
  - destruct (hook_level ce); [|discriminate].
    assert (Hfw : match cstep (cs s) ce with Some c' => Some (set_cs s c') | None => None end = Some s' -> False).
    { destruct (cstep (cs s) ce); [|discriminate]. intros Hs; inversion Hs; subst s'. cbn [rpc set_cs] in N. congruence. }
    destruct ce as [me|t1 k o|t1 r|t1| |t1 m|t1 k| o|x| |t1 v|n]; try (exfalso; apply Hfw; exact H).
    + destruct me as [t1 o|t1 r|t1 f|t1| |t1| |t1 u|x| ]; try (exfalso; apply Hfw; exact H).
      destruct (rpc s t1) eqn:R1; try (exfalso; apply Hfw; exact H).
      destruct (cpc (cs s) t1) eqn:C1; try (exfalso; apply Hfw; exact H).
      destruct (csteps (cs s) [CEnd t1 0%Z; CM (EBegin t1 OUnlock); CM (EAcqW t1)]); [|discriminate].
      inversion H; subst s'. cbn [rpc] in N |- *.
      destruct (Nat.eq_dec t t1) as [->|Hne]; [rewrite upd_same; auto|rewrite upd_other in N by assumption; congruence].
    + destruct (rpc s t1) eqn:R1; try (exfalso; apply Hfw; exact H).
      all: assert (t <> t1) by congruence.
      all: destruct (loop_head (cs s) t1) as [c|]; [|exfalso; apply Hfw; exact H].
      all: match type of H with (if ?b then _ else _) = _ => destruct b; [|discriminate] end.
      all: destruct (csteps c [CBegin t1 (rkind s t1) (OWait (mid c)); CAcq t1]); [|discriminate].
      all: inversion H; subst s'; cbn [rpc] in N; rewrite upd_other in N by assumption; congruence.
Qed.
